(* The reference description of the pandas engine (Model/MergeLibRef.v) coincides with the relational
   operators outside its two deviation domains (matching null keys, overlapping column names).
   This says nothing about pandas itself: the description is tied to pandas only by the correspondence check. *)
From Coq Require Import List String ZArith Bool Permutation.
Import ListNotations.
Require Import MV.Spec.Rel MV.Model.MergePyDict MV.Model.MergeLibRef MV.Proofs.RelLemmas MV.Proofs.MergePyDictP.
Open Scope string_scope.
Open Scope list_scope.

Lemma flat_map_ext_in : forall (A B : Type) (f g : A -> list B) l,
  (forall x, In x l -> f x = g x) -> flat_map f l = flat_map g l.
Proof.
  induction l as [|x t IH]; simpl; intros H; auto.
  rewrite H by auto. rewrite IH; auto.
Qed.

Lemma rel_join_as_join_by : forall jt lk rk L R,
  rel_join jt lk rk L R = join_by (matches lk rk) row_union (pad (table_cols R)) (pad (table_cols L)) jt L R.
Proof. destruct jt; reflexivity. Qed.

Lemma join_by_ext : forall (m1 m2 : row -> row -> bool) p lo ro jt L R,
  (forall l r, In l L -> In r R -> m1 l r = m2 l r) ->
  join_by m1 p lo ro jt L R = join_by m2 p lo ro jt L R.
Proof.
  intros m1 m2 p lo ro jt L R H.
  assert (I : inner_by m1 p L R = inner_by m2 p L R).
  { unfold inner_by. apply flat_map_ext_in. intros l Hl. f_equal. apply filter_ext_in. intros r Hr. auto. }
  assert (LO : left_only_by m1 L R = left_only_by m2 L R).
  { unfold left_only_by. apply filter_ext_in. intros l Hl. f_equal. apply existsb_ext_in. intros r Hr. auto. }
  assert (RO : right_only_by m1 L R = right_only_by m2 L R).
  { unfold right_only_by. apply filter_ext_in. intros r Hr. f_equal. apply existsb_ext_in. intros l Hl. auto. }
  destruct jt; simpl; congruence.
Qed.

Lemma join_by_teq : forall m p lo1 ro1 lo2 ro2 jt L R,
  (forall r, row_equiv (lo1 r) (lo2 r)) -> (forall r, row_equiv (ro1 r) (ro2 r)) ->
  teq (join_by m p lo1 ro1 jt L R) (join_by m p lo2 ro2 jt L R).
Proof.
  intros. destruct jt; simpl; try apply teq_refl;
    repeat (apply teq_app; try apply teq_refl); apply teq_map; auto.
Qed.

Lemma rename_row_nil : forall sfx r, rename_row sfx [] r = r.
Proof.
  intros. unfold rename_row. rewrite <- (map_id r) at 2. apply map_ext. intros [c v]. reflexivity.
Qed.

Lemma map_rename_row_nil : forall sfx t, map (rename_row sfx []) t = t.
Proof. intros. rewrite <- (map_id t) at 2. apply map_ext. intro. apply rename_row_nil. Qed.

Lemma map_rename_col_nil : forall sfx ks, map (rename_col sfx []) ks = ks.
Proof. intros. rewrite <- (map_id ks) at 2. apply map_ext. intro. reflexivity. Qed.

Theorem pandas_ref_refines_partial_l : forall jt lk rk lcols rcols L R,
  pandas_overlap lk rk lcols rcols = [] ->
  kf_null_key jt L R lk rk = false ->
  bag_eq (pandas_ref jt lk rk lcols rcols L R) (rel_join jt lk rk L R).
Proof.
  intros jt lk rk lcols rcols L R OV NK.
  destruct (is_join jt) eqn:J.
  - assert (E : pandas_ref jt lk rk lcols rcols L R =
                join_by (fun l r => key_eqb (key_of lk l) (key_of rk r)) row_union (fun r => r) (fun r => r) jt L R).
    { unfold pandas_ref. rewrite OV, !map_rename_row_nil, !map_rename_col_nil. destruct jt; try discriminate; reflexivity. }
    rewrite E, rel_join_as_join_by.
    rewrite (join_by_ext (fun l r => key_eqb (key_of lk l) (key_of rk r)) (matches lk rk)).
    + apply teq_bag_eq. apply join_by_teq; intro r; apply row_equiv_sym; apply pad_equiv.
    + intros l r Hl Hr. symmetry. eapply matches_key_eqb; eauto.
  - destruct jt; try discriminate; apply bag_eq_refl.
Qed.

(* ==================================================================================================== *)
(* the reference description of the pyarrow engine is the relational operator outside `arrow_dom`
   (equal key names, append of identical schemas); again a statement about the description only *)

Lemma get_drop_cols : forall cs c r, get c (drop_cols cs r) = if mem c cs then VNull else get c r.
Proof.
  intros. unfold drop_cols. rewrite (get_filter_cols (fun x => negb (mem x cs))). now destruct (mem c cs).
Qed.

Lemma has_col_drop_cols : forall cs c r, has_col c (drop_cols cs r) = has_col c r && negb (mem c cs).
Proof.
  intros cs c r. unfold has_col, row_cols, drop_cols, mem. induction r as [|[d v] t IH]; simpl; auto.
  destruct (existsb (String.eqb d) cs) eqn:E; simpl.
  - rewrite IH. destruct (String.eqb c d) eqn:X; simpl; auto.
    apply String.eqb_eq in X. subst d. fold (mem c cs). unfold mem. rewrite E. simpl. now rewrite andb_false_r.
  - rewrite IH. destruct (String.eqb c d) eqn:X; simpl; auto.
    apply String.eqb_eq in X. subst d. rewrite E. reflexivity.
Qed.

Lemma key_eq_get : forall ks l r c, key_of ks l = key_of ks r -> mem c ks = true -> get c l = get c r.
Proof.
  induction ks as [|k ks IH]; simpl; intros l r c E M; [discriminate|].
  inversion E as [[E1 E2]]. apply orb_true_iff in M. destruct M as [M|M].
  - apply String.eqb_eq in M. now subst.
  - eapply IH; eauto.
Qed.

Lemma join_by_teq_gen : forall m p1 p2 lo1 ro1 lo2 ro2 jt L R,
  (forall l r, In l L -> In r R -> m l r = true -> row_equiv (p1 l r) (p2 l r)) ->
  (forall r, row_equiv (lo1 r) (lo2 r)) -> (forall r, row_equiv (ro1 r) (ro2 r)) ->
  teq (join_by m p1 lo1 ro1 jt L R) (join_by m p2 lo2 ro2 jt L R).
Proof.
  intros m p1 p2 lo1 ro1 lo2 ro2 jt L R HP HL HR.
  assert (I : teq (inner_by m p1 L R) (inner_by m p2 L R)).
  { unfold inner_by. apply teq_flat_map. intros l Hl. apply teq_map. intros r Hr.
    apply filter_In in Hr. destruct Hr. auto. }
  destruct jt; simpl; try apply teq_refl; auto;
    repeat (apply teq_app; auto); apply teq_map; auto.
Qed.

Section ArrowSameKeys.
  Variable ks : list col.

  Lemma matched_facts : forall l r, matches ks ks l r = true ->
    key_of ks l = key_of ks r /\ (forall c, mem c ks = true -> has_col c l = true /\ has_col c r = true).
  Proof.
    intros l r M. unfold matches in M. apply keys_match_spec in M. destruct M as [E NN].
    rewrite forallb_nonnull in NN. apply negb_true_iff in NN. split; auto.
    intros c Hc. split; apply get_nonnull_has_col; eapply key_nonnull_get; eauto. now rewrite <- E.
  Qed.

  Lemma arrow_pair_equiv : forall l r, matches ks ks l r = true ->
    row_equiv (row_union l (drop_cols ks r)) (row_union l r).
  Proof.
    intros l r M c. destruct (matched_facts l r M) as [E F].
    rewrite !get_row_union, get_drop_cols.
    destruct (has_col c l) eqn:H; auto. destruct (mem c ks) eqn:Mc; auto.
    destruct (F c Mc). congruence.
  Qed.

  Lemma arrow_pair_equiv_right : forall l r, matches ks ks l r = true ->
    row_equiv (row_union (drop_cols ks l) r) (row_union l r).
  Proof.
    intros l r M c. destruct (matched_facts l r M) as [E F].
    rewrite !get_row_union, has_col_drop_cols, get_drop_cols.
    destruct (mem c ks) eqn:Mc; simpl.
    - rewrite andb_false_r. destruct (F c Mc) as [Hl _]. rewrite Hl. symmetry. eapply key_eq_get; eauto.
    - now rewrite andb_true_r.
  Qed.

  Lemma arrow_right_only_equiv : forall r, row_equiv (row_union (combine ks (key_of ks r)) (drop_cols ks r)) r.
  Proof.
    intros r c. fold (key_writes ks (key_of ks r)). rewrite key_writes_key_of.
    rewrite get_row_union, (has_col_map_fun (fun x => get x r)), (get_map_fun (fun x => get x r)), get_drop_cols.
    now destruct (mem c ks).
  Qed.

  Lemma arrow_native_teq : forall jt L R, is_join jt = true ->
    teq (arrow_native jt ks ks L R) (rel_join jt ks ks L R).
  Proof.
    intros jt L R J. rewrite rel_join_as_join_by. unfold arrow_native.
    destruct jt; try discriminate; apply join_by_teq_gen;
      try (intros l r _ _ M; first [apply arrow_pair_equiv; exact M | apply arrow_pair_equiv_right; exact M]);
      try (intro r; apply row_equiv_sym; apply pad_equiv);
      try (intro r; eapply row_equiv_trans; [apply arrow_right_only_equiv | apply row_equiv_sym; apply pad_equiv]).
  Qed.
End ArrowSameKeys.

Theorem arrow_ref_refines_partial_l : forall jt lk rk lcols rcols L R t,
  arrow_dom jt lk rk lcols rcols = false ->
  arrow_ref jt lk rk lcols rcols L R = Some t ->
  bag_eq t (rel_join jt lk rk L R).
Proof.
  intros jt lk rk lcols rcols L R t D A.
  destruct (is_join jt) eqn:J.
  - assert (E : lk = rk).
    { apply list_col_eqb_eq. destruct jt; try discriminate; simpl in D; now apply negb_false_iff in D. }
    subst rk.
    assert (T : t = arrow_native jt lk lk L R).
    { destruct jt; try discriminate; simpl in A;
        destruct lk as [|a [|b lk']]; try (inversion A; reflexivity);
        rewrite String.eqb_refl in A; inversion A; reflexivity. }
    subst t. apply teq_bag_eq. now apply arrow_native_teq.
  - destruct jt; try discriminate.
    unfold arrow_dom in D. unfold arrow_ref in A. apply negb_false_iff in D. rewrite D in A.
    inversion A. apply bag_eq_refl.
Qed.
