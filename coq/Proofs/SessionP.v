(* Proofs about Model/Session.v: the part of the session state a run can observe is invariant under every operation,
   hence the result of a run does not depend on the history. *)
From Coq Require Import List Bool Arith ZArith String Lia.
Import ListNotations.
Require Import MV.Model.Orch MV.Model.Session MV.Spec.Reuse.

Notation after_s := (after sess op result (exec true)).
Notation results_s := (results_of sess op result (exec true)).

(* the part of the session that run / stream_run read *)
Definition frozen (s : sess) : plan * list nat * option api_data := (s_plan s, s_flags s, s_api s).

Lemma orun_nil : forall stream inline fails p es, orun [] stream inline fails p es = run stream inline fails p es.
Proof. reflexivity. Qed.

(* every operation (successful, failing, unfinished, drained or abandoned stream, get_result) leaves it unchanged *)
Lemma exec_frozen : forall s o, frozen (fst (exec true s o)) = frozen s.
Proof.
  intros s o. destruct o as [api inline fails es | api inline fails es take | ]; cbn [exec].
  - destruct (loop_head _ _); reflexivity.
  - destruct (abandons _ _); [reflexivity|]. destruct (loop_head _ _); reflexivity.
  - reflexivity.
Qed.

Lemma after_frozen : forall h s, frozen (after_s s h) = frozen s.
Proof.
  induction h as [|o h IH]; intros s; [reflexivity|]. cbn [after]. rewrite IH. apply exec_frozen.
Qed.

(* ... and the result of a run / stream_run is a function of that part only (self.runner is not read) *)
Lemma exec_reads_frozen_only : forall s1 s2 o, is_run o = true -> frozen s1 = frozen s2 ->
  snd (exec true s1 o) = snd (exec true s2 o).
Proof.
  intros s1 s2 o Hr E. unfold frozen in E. injection E as Ep Ef Ea.
  destruct o as [api inline fails es | api inline fails es take | ]; [| |discriminate]; cbn [exec].
  - rewrite Ep, Ef, Ea. destruct (loop_head _ _); reflexivity.
  - rewrite Ep, Ef, Ea. destruct (abandons _ _); [reflexivity|]. destruct (loop_head _ _); reflexivity.
Qed.

Lemma exec_prepare_alone : forall p a0 o, is_run o = true -> snd (exec true (prepare p a0) o) = alone p a0 o.
Proof.
  intros p a0 o Hr. destruct o as [api inline fails es | api inline fails es take | ]; [| |discriminate];
    cbn [exec alone prepare s_plan s_flags s_api s_runner]; rewrite orun_nil.
  - destruct (loop_head _ _); reflexivity.
  - destruct (abandons _ _); [reflexivity|]. destruct (loop_head _ _); reflexivity.
Qed.

Lemma run_history_independent_l : forall p a0 pre o, is_run o = true ->
  snd (exec true (after_s (prepare p a0) pre) o) = alone p a0 o.
Proof.
  intros p a0 pre o Hr. rewrite <- exec_prepare_alone by exact Hr.
  apply exec_reads_frozen_only; [exact Hr | apply after_frozen].
Qed.

(* the same statement in the shape of Spec/Reuse.v *)
Lemma session_prefix_independent_l : forall p a0,
  prefix_independent sess op result (exec true) (fun _ _ o => is_run o = true) eq (prepare p a0).
Proof.
  intros p a0 pre o Hr. cbv beta in Hr. rewrite run_history_independent_l by exact Hr.
  symmetry. apply exec_prepare_alone. exact Hr.
Qed.

(* every element of the list of results of a history *)
Lemma results_history_independent_l : forall p a0 h i o, nth_error h i = Some o -> is_run o = true ->
  nth_error (results_s (prepare p a0) h) i = Some (alone p a0 o).
Proof.
  intros p a0 h.
  assert (G : forall h s i o, frozen s = frozen (prepare p a0) -> nth_error h i = Some o -> is_run o = true ->
              nth_error (results_s s h) i = Some (alone p a0 o)).
  { clear h. induction h as [|x h IH]; intros s i o Hs Hn Hr; [destruct i; discriminate|].
    destruct i as [|i]; cbn [results_of nth_error] in *.
    - injection Hn as ->. f_equal. rewrite <- exec_prepare_alone by exact Hr.
      apply exec_reads_frozen_only; assumption.
    - apply IH; [rewrite exec_frozen; exact Hs | exact Hn | exact Hr]. }
  intros i o. apply G. reflexivity.
Qed.

(* ---- the session's own plan never carries a set step_is_done flag ---- *)
Lemma master_flags_clean_l : forall p a0 h, s_flags (after_s (prepare p a0) h) = [].
Proof.
  intros p a0 h. pose proof (after_frozen h (prepare p a0)) as E. unfold frozen in E. injection E as _ Ef _. exact Ef.
Qed.

(* ---- run_all = prepare + run, plan a function of (arguments, shape of the api data) ---- *)
Section RunAll.
  Variables (A : Type) (planner : A -> option (list (string * list string)) -> plan).

  Definition run_all (args : A) (e : option api_data) (o : op) : result :=
    snd (exec true (prepare (planner args (shape_o e)) e) (set_op_api o e)).

  Lemma set_api_eff_same : forall e, set_api (eff_api e e) = set_api e.
  Proof. intros [d|]; reflexivity. Qed.

  Lemma alone_api_irrelevant : forall p a0 o e, is_run o = true -> eff_api a0 (op_api o) = e ->
    alone p a0 o = alone p e (set_op_api o e).
  Proof.
    intros p a0 o e Hr <-. destruct o as [api inline fails es | api inline fails es take | ]; [| |discriminate];
      cbn [alone set_op_api op_api]; rewrite set_api_eff_same; reflexivity.
  Qed.

  Lemma run_equals_fresh_run_all_l : forall args d0 pre o, is_run o = true ->
    shape_o (eff_api d0 (op_api o)) = shape_o d0 ->
    snd (exec true (after_s (prepare (planner args (shape_o d0)) d0) pre) o) = run_all args (eff_api d0 (op_api o)) o.
  Proof.
    intros args d0 pre o Hr Hs. rewrite run_history_independent_l by exact Hr.
    unfold run_all. rewrite exec_prepare_alone by (destruct o; [reflexivity|reflexivity|discriminate]).
    rewrite Hs. apply alone_api_irrelevant; [exact Hr | reflexivity].
  Qed.
End RunAll.

(* ---- persisted state that IS read: get_result returns the items of the last completed run ---- *)
Fixpoint last_completed (p : plan) (a0 : option api_data) (h : list op) (acc : option (list nat * option api_data)) :=
  match h with
  | [] => acc
  | o :: t => last_completed p a0 t (match completes p [] o with
                                     | Some it => Some (it, set_api (eff_api a0 (op_api o)))
                                     | None => acc end)
  end.

Lemma exec_runner : forall s o, s_flags s = [] ->
  s_runner (fst (exec true s o)) =
  match completes (s_plan s) [] o with Some it => Some (it, set_api (eff_api (s_api s) (op_api o))) | None => s_runner s end.
Proof.
  intros s o Hf. destruct o as [api inline fails es | api inline fails es take | ]; cbn [exec completes op_api]; rewrite ?Hf.
  - destruct (loop_head _ _); reflexivity.
  - destruct (abandons _ _); [reflexivity|]. destruct (loop_head _ _); reflexivity.
  - reflexivity.
Qed.

Lemma get_result_last_completed_l : forall p a0 h,
  s_runner (after_s (prepare p a0) h) = last_completed p a0 h None.
Proof.
  intros p a0 h.
  assert (G : forall h s, frozen s = (p, [], a0) -> s_runner (after_s s h) = last_completed p a0 h (s_runner s)).
  { clear h. induction h as [|o h IH]; intros s Hs; [reflexivity|]. cbn [after last_completed].
    rewrite IH by (rewrite exec_frozen; exact Hs).
    unfold frozen in Hs. injection Hs as Ep Ef Ea. rewrite exec_runner by exact Ef. rewrite Ep, Ea. reflexivity. }
  apply (G h (prepare p a0)). reflexivity.
Qed.

(* ---- concrete instances ---- *)
Definition ex_plan : plan :=
  [ {| sid := 0; skind := KFG; uuids := [1]; req := []; requested := false |};
    {| sid := 1; skind := KFG; uuids := [2]; req := [1]; requested := true |} ].
Definition ex_api (z : Z) : option api_data := Some [("K"%string, [("a"%string, [z])])].

(* without the deepcopy of the plan in Engine.compute a THREADING run after any completed run collects the result
   of a step whose worker has not finished: two loop iterations, no worker completion at all *)
Lemma deepcopy_needed_l :
  let o1 := ORun None true [] (sched ex_plan [] 7) in
  let o2 := ORun None false [] [EScan; EScan; EScan; EScan] in
  r_status (snd (exec false (fst (exec false (prepare ex_plan None) o1)) o2)) = ROk /\
  r_status (alone ex_plan None o2) = RUnfinished /\
  r_status (snd (exec true (fst (exec true (prepare ex_plan None) o1)) o2)) = RUnfinished.
Proof. vm_compute. repeat split. Qed.

(* get_result depends on the history (by design): after a failing run it still returns the previous run's items *)
Lemma get_result_history_dependent_l :
  let ok := ORun (ex_api 1) true [] (sched ex_plan [] 7) in
  let bad := ORun (ex_api 2) true [0] (sched ex_plan [0] 7) in
  let str := OStream (ex_api 3) true [] (sched ex_plan [] 7) None in
  snd (exec true (after_s (prepare ex_plan None) [ok; bad]) OGet) = {| r_status := ROk; r_items := [1]; r_api := ex_api 1 |} /\
  snd (exec true (after_s (prepare ex_plan None) [bad]) OGet) = {| r_status := RNoRunner; r_items := []; r_api := None |} /\
  (* after a drained stream the stored orchestrator's collection is empty: get_result raises "No results found" *)
  snd (exec true (after_s (prepare ex_plan None) [ok; str]) OGet) = {| r_status := RRaised; r_items := []; r_api := ex_api 3 |}.
Proof. vm_compute. repeat split; reflexivity. Qed.

(* ---------- execution modes ---------- *)
Require Import MV.Model.Modes.

(* the result of a run does not depend on the history at all -- in particular not on the modes the earlier operations ran in *)
Lemma run_history_irrelevant_l : forall p a0 pre pre' o, is_run o = true ->
  snd (exec true (after_s (prepare p a0) pre) o) = snd (exec true (after_s (prepare p a0) pre') o).
Proof. intros p a0 pre pre' o Hr. rewrite !run_history_independent_l by exact Hr. reflexivity. Qed.

Lemma run_after_any_modes_l : forall p a0 pre ms o, is_run o = true ->
  snd (exec true (after_s (prepare p a0) (remode ms pre)) o) = alone p a0 o.
Proof. intros. apply run_history_independent_l. assumption. Qed.

Lemma set_mode_is_run : forall m o, is_run (set_mode m o) = is_run o.
Proof. intros m [ | | ]; reflexivity. Qed.

(* a run in mode m after any history equals the run in mode m on a brand-new orchestrator *)
Lemma run_in_mode_history_independent_l : forall p a0 pre m o, is_run o = true ->
  snd (exec true (after_s (prepare p a0) pre) (set_mode m o)) = alone p a0 (set_mode m o).
Proof. intros. apply run_history_independent_l. rewrite set_mode_is_run. assumption. Qed.

(* the two asynchronous modes are one and the same operation of the model (same schedule, same outcome) *)
Lemma threading_mp_same_l : forall o, set_mode MThreading o = set_mode MMultiprocessing o.
Proof. intros [ | | ]; reflexivity. Qed.

(* the session's own plan never carries a step_is_done flag, whatever modes the history used *)
Lemma master_flags_clean_modes_l : forall p a0 ms h, s_flags (after_s (prepare p a0) (remode ms h)) = [].
Proof. intros. apply master_flags_clean_l. Qed.
