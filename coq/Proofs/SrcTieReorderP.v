(* Source-text tie, C04 (planner, round 2): LinkTrekker.order_ordered_ids_by_relation regenerated from resolve_links.py
   (Gen/SrcPlan.v: Optional[int] latest_position, pos_marker: Dict[int, Tuple[UUID, Set[UUID]]], range, max, move_to_end)
   is PlannerL.reorder_rel, for every LinkTrekker.order whose keys are pairwise different (it is a dict).  Python ints are Z,
   the model counts positions in nat: zpm relates the two pos_marker tables. *)
From Coq Require Import List Bool ZArith Arith Lia.
Import ListNotations.
Require Import MV.Model.PySem MV.Gen.SrcPlan.
Require Import MV.Model.Orch MV.Model.PlannerA MV.Model.PyObj MV.Proofs.SrcTieLemP.
Require Import MV.Model.PlannerL.
Open Scope nat_scope.

Local Notation Ok := PySem.Ok.
Local Notation res := PySem.res.
Local Notation loop1 := LinkTrekker_order_ordered_ids_by_relation_loop1.
Local Notation loop2 := LinkTrekker_order_ordered_ids_by_relation_loop2.
Local Notation loop3 := LinkTrekker_order_ordered_ids_by_relation_loop3.
Local Notation loop4 := LinkTrekker_order_ordered_ids_by_relation_loop4.

Ltac to_mem := repeat match goal with |- context [py_in Nat.eqb ?a ?b] => change (py_in Nat.eqb a b) with (mem a b) end.

(* ---------- int <-> nat ---------- *)
Lemma Zeqb_nat : forall a b, Z.eqb (Z.of_nat a) (Z.of_nat b) = Nat.eqb a b.
Proof.
  intros. destruct (Nat.eqb a b) eqn:E.
  - apply Nat.eqb_eq in E. subst. apply Z.eqb_refl.
  - apply Nat.eqb_neq in E. apply Z.eqb_neq. lia.
Qed.
Lemma Zleb_nat : forall a b, Z.leb (Z.of_nat a) (Z.of_nat b) = Nat.leb a b.
Proof.
  intros. destruct (Nat.leb a b) eqn:E.
  - apply Nat.leb_le in E. apply Z.leb_le. lia.
  - apply Nat.leb_gt in E. apply Z.leb_gt. lia.
Qed.

Lemma range_shift : forall a k s,
  map (fun i => (Z.of_nat a + Z.of_nat i)%Z) (seq s k) = map Z.of_nat (seq (a + s) k).
Proof.
  intros a k. induction k as [|k IH]; intros s; [reflexivity|].
  cbn [seq map]. rewrite IH. f_equal; [lia|]. replace (a + S s) with (S (a + s)) by lia. reflexivity.
Qed.
Lemma py_range_nat : forall a n, py_range (Z.of_nat a) (Z.of_nat n) = map Z.of_nat (seq a (n - a)).
Proof.
  intros. unfold py_range. replace (Z.to_nat (Z.of_nat n - Z.of_nat a)) with (n - a) by lia.
  rewrite range_shift. rewrite Nat.add_0_r. reflexivity.
Qed.

(* ---------- pos_marker ---------- *)
Definition zkey (e : nat * (nat * list nat)) : Z * (nat * list nat) := (Z.of_nat (fst e), snd e).
Definition zpm (m : pmark) : list (Z * (nat * list nat)) := map zkey m.

Lemma zpm_mem : forall i m, py_dict_mem Z.eqb (Z.of_nat i) (zpm m) = pm_has i m.
Proof.
  intros i m. unfold py_dict_mem, pm_has, zpm. induction m as [|e m IH]; [reflexivity|].
  cbn [map existsb zkey fst]. rewrite Zeqb_nat, IH, (Nat.eqb_sym i). reflexivity.
Qed.
Lemma zpm_len : forall m, py_len (zpm m) = Z.of_nat (List.length m).
Proof. intros. unfold py_len, zpm. rewrite map_length. reflexivity. Qed.
Lemma pm_has_get : forall i m, pm_has i m = match pm_get i m with Some _ => true | None => false end.
Proof.
  intros i m. unfold pm_has, pm_get. induction m as [|e m IH]; [reflexivity|].
  cbn [existsb find]. destruct (Nat.eqb (fst e) i); [reflexivity|exact IH].
Qed.
Lemma zpm_getitem : forall i m,
  py_dict_getitem Z.eqb (zpm m) (Z.of_nat i) = match pm_get i m with Some v => Ok v | None => Raise KeyError end.
Proof.
  intros i m. unfold pm_get, zpm. induction m as [|e m IH]; [reflexivity|].
  destruct e as [j v]. cbn [map zkey fst snd py_dict_getitem find]. rewrite Zeqb_nat, (Nat.eqb_sym i).
  destruct (Nat.eqb j i); [reflexivity|exact IH].
Qed.
Lemma pm_get_in : forall i v m, pm_get i m = Some v -> In (i, v) m.
Proof.
  intros i v m H. unfold pm_get in H. destruct (find (fun e => Nat.eqb (fst e) i) m) as [e|] eqn:F; [|discriminate].
  apply find_some in F. destruct F as [Hin He]. apply Nat.eqb_eq in He. injection H as H. subst.
  destruct e; exact Hin.
Qed.

Lemma map_id_on : forall (A : Type) (f : A -> A) l, (forall x, In x l -> f x = x) -> map f l = l.
Proof.
  intros A f l. induction l as [|x l IH]; intros H; [reflexivity|].
  cbn [map]. rewrite (H x (or_introl eq_refl)), IH; [reflexivity|]. intros y Hy. apply H. right. exact Hy.
Qed.

Lemma pm_has_false_keys : forall i m, pm_has i m = false -> ~ In i (map fst m).
Proof.
  intros i m H Hin. apply in_map_iff in Hin. destruct Hin as [e [He Hin]]. unfold pm_has in H.
  assert (existsb (fun e => Nat.eqb (fst e) i) m = true) as T.
  { apply existsb_exists. exists e. split; [exact Hin|]. subst. apply Nat.eqb_refl. }
  rewrite T in H. discriminate.
Qed.

(* pos_marker[i] = v *)
Lemma zpm_set : forall i v m, NoDup (map fst m) ->
  py_dict_set Z.eqb (zpm m) (Z.of_nat i) v = zpm (pm_set i v m).
Proof.
  intros i v m. unfold pm_set, zpm. induction m as [|e m IH]; intros ND; [reflexivity|].
  destruct e as [j w]. cbn [map fst] in ND. inversion ND as [|? ? Hj ND']. subst.
  change (pm_has i ((j, w) :: m)) with (Nat.eqb j i || pm_has i m)%bool.
  cbn [map zkey fst snd py_dict_set]. rewrite Zeqb_nat, (Nat.eqb_sym i).
  destruct (Nat.eqb j i) eqn:E; cbn [orb].
  - apply Nat.eqb_eq in E. subst j. cbn [map fst]. rewrite ?Nat.eqb_refl. cbn [zkey fst snd]. f_equal.
    rewrite map_id_on; [reflexivity|]. intros x Hx. destruct (Nat.eqb (fst x) i) eqn:Ex; [|reflexivity].
    apply Nat.eqb_eq in Ex. exfalso. apply Hj. apply in_map_iff. exists x. split; assumption.
  - specialize (IH ND'). rewrite IH. destruct (pm_has i m).
    + cbn [map fst]. rewrite ?E. reflexivity.
    + cbn [app map]. reflexivity.
Qed.

Lemma NoDup_snoc : forall (A : Type) (l : list A) x, NoDup l -> ~ In x l -> NoDup (l ++ [x]).
Proof.
  intros A l x ND. induction ND as [|y l Hy ND IH]; intros Hx; cbn [app].
  - constructor; [intros []|constructor].
  - constructor.
    + intros Hin. apply in_app_or in Hin. destruct Hin as [Hin|[Hin|[]]]; [exact (Hy Hin)|]. subst. apply Hx. left. reflexivity.
    + apply IH. intros Hin. apply Hx. right. exact Hin.
Qed.

Lemma pm_set_keys : forall i v m, NoDup (map fst m) -> NoDup (map fst (pm_set i v m)).
Proof.
  intros i v m ND. unfold pm_set. destruct (pm_has i m) eqn:H.
  - rewrite map_map. erewrite map_ext; [exact ND|]. intros e. cbn. destruct (Nat.eqb (fst e) i) eqn:E; [|reflexivity].
    apply Nat.eqb_eq in E. cbn. auto.
  - rewrite map_app. cbn [map fst]. apply NoDup_snoc; [exact ND|]. apply pm_has_false_keys. exact H.
Qed.

(* ---------- the inner loop over self.order.items(): latest_position ---------- *)
Definition lp_step (opos ou : nat) (acc : option nat) (ie : nat * (nat * list nat)) : option nat :=
  if Nat.leb (fst ie) opos then acc else if mem ou (snd (snd ie)) then Some (fst ie) else acc.

Lemma reorder_loop2_src : forall ou opos l i0 acc,
  loop2 ou (Z.of_nat opos) l (Z.of_nat i0) (option_map Z.of_nat acc)
  = Fall (option_map Z.of_nat (fold_left (lp_step opos ou) (combine (seq i0 (List.length l)) l) acc)).
Proof.
  intros ou opos l. induction l as [|[iu iset] l IH]; intros i0 acc; [reflexivity|].
  cbn [loop2 List.length seq combine fold_left]. unfold lp_step at 2. cbn [fst snd].
  rewrite Zleb_nat. replace (Z.of_nat i0 + 1)%Z with (Z.of_nat (S i0)) by lia.
  destruct (Nat.leb i0 opos); [apply IH|].
  to_mem. destruct (mem ou iset); cbn [negb]; [|apply IH].
  apply (IH (S i0) (Some i0)).
Qed.

Lemma reorder_loop2_latest : forall ou opos order,
  loop2 ou (Z.of_nat opos) order 0%Z None = Fall (option_map Z.of_nat (latest_pos order opos ou)).
Proof. intros. exact (reorder_loop2_src ou opos order 0 None). Qed.

(* ---------- for i in range(latest_position, len(pos_marker)): the first free position ---------- *)
Lemma reorder_loop3_src : forall m l z,
  loop3 (zpm m) (map Z.of_nat l) z
  = Fall (match find (fun i => negb (pm_has i m)) l with Some i => (Z.of_nat i + z)%Z | None => z end).
Proof.
  intros m l. induction l as [|i l IH]; intros z; [reflexivity|].
  cbn [loop3 map find]. rewrite zpm_mem. destruct (pm_has i m); cbn [negb]; [apply IH|reflexivity].
Qed.

(* ---------- invariant of the outer loop: the uuids in new_order and pos_marker are pairwise different ---------- *)
Definition Inv (pre new : amap) (m : pmark) : Prop :=
  NoDup (map fst m)
  /\ (forall u, In u (map fst new) -> In u (map fst pre))
  /\ (forall i v, In (i, v) m -> In (fst v) (map fst pre) /\ ~ In (fst v) (map fst new))
  /\ (forall i v i' v', In (i, v) m -> In (i', v') m -> fst v = fst v' -> i = i').

Lemma pm_set_in : forall i v j w m,
  In (i, v) (pm_set j w m) -> (i = j /\ v = w) \/ (i <> j /\ In (i, v) m).
Proof.
  intros i v j w m H. unfold pm_set in H. destruct (pm_has j m) eqn:Hj.
  - apply in_map_iff in H. destruct H as [e [He Hin]]. destruct (Nat.eqb (fst e) j) eqn:E.
    + injection He as H1 H2. left. split; congruence.
    + subst e. cbn [fst] in E. apply Nat.eqb_neq in E. right. split; assumption.
  - apply in_app_or in H. destruct H as [H|[H|[]]].
    + right. split; [|exact H]. intros ->. apply (pm_has_false_keys _ _ Hj). apply in_map_iff. exists (j, v). split; [reflexivity|exact H].
    + injection H as H1 H2. left. split; congruence.
Qed.

Lemma inv_step : forall order pre ou os new m,
  ~ In ou (map fst pre) -> Inv pre new m ->
  Inv (pre ++ [(ou, os)]) (fst (reorder_step order (new, m) (List.length pre, (ou, os))))
      (snd (reorder_step order (new, m) (List.length pre, (ou, os)))).
Proof.
  intros order pre ou os new m Hou [I1 [I2 [I3 I4]]]. unfold reorder_step. cbn [fst snd].
  assert (Hpre : forall u, In u (map fst pre) -> In u (map fst (pre ++ [(ou, os)]))).
  { intros u Hu. rewrite map_app. apply in_or_app. left. exact Hu. }
  destruct (latest_pos order (List.length pre) ou) as [lp|]; cbn [fst snd].
  - repeat split.
    + apply pm_set_keys. exact I1.
    + intros u Hu. apply Hpre, I2, Hu.
    + apply pm_set_in in H. destruct H as [[_ ->]|[_ H]].
      * cbn [fst]. rewrite map_app. apply in_or_app. right. left. reflexivity.
      * apply Hpre. apply (I3 _ _ H).
    + apply pm_set_in in H. destruct H as [[_ ->]|[_ H]].
      * cbn [fst]. intros Hin. apply Hou, I2, Hin.
      * apply (I3 _ _ H).
    + intros i v i' v' H H' Hf. apply pm_set_in in H. apply pm_set_in in H'.
      destruct H as [[-> ->]|[Hn H]]; destruct H' as [[-> ->]|[Hn' H']].
      * reflexivity.
      * exfalso. cbn [fst] in Hf. apply Hou. rewrite Hf. apply (I3 _ _ H').
      * exfalso. cbn [fst] in Hf. apply Hou. rewrite <- Hf. apply (I3 _ _ H).
      * exact (I4 _ _ _ _ H H' Hf).
  - repeat split.
    + exact I1.
    + intros u Hu. rewrite map_app in *. apply in_app_or in Hu. apply in_or_app. destruct Hu as [Hu|Hu]; [left; apply I2, Hu|right; exact Hu].
    + apply Hpre. apply (I3 _ _ H).
    + intros Hin. rewrite map_app in Hin. apply in_app_or in Hin. destruct Hin as [Hin|[Hin|[]]].
      * exact (proj2 (I3 _ _ H) Hin).
      * cbn [fst] in Hin. apply Hou. rewrite Hin. apply (I3 _ _ H).
    + exact I4.
Qed.

Lemma not_in_dict_mem : forall u (d : amap), ~ In u (map fst d) -> py_dict_mem Nat.eqb u d = false.
Proof.
  intros u d H. unfold py_dict_mem. destruct (existsb (fun kv => Nat.eqb u (fst kv)) d) eqn:E; [|reflexivity].
  exfalso. apply existsb_exists in E. destruct E as [kv [Hin He]]. apply Nat.eqb_eq in He. apply H. apply in_map_iff.
  exists kv. split; [symmetry; exact He|exact Hin].
Qed.

(* ---------- the outer loop ---------- *)
Lemma reorder_loop1_src : forall self order, t_order self = order -> NoDup (map fst order) ->
  forall l pre new m st, order = pre ++ l -> Inv pre new m ->
  st = fold_left (reorder_step order) (combine (seq (List.length pre) (List.length l)) l) (new, m) ->
  loop1 self l (Z.of_nat (List.length pre)) new (zpm m) = Fall (fst st, zpm (snd st)) /\ Inv order (fst st) (snd st).
Proof.
  intros self order Hself ND l. induction l as [|[ou os] l IH]; intros pre new m st Hsplit HI ->.
  - cbn. rewrite app_nil_r in Hsplit. subst pre. split; [reflexivity|exact HI].
  - assert (Hou : ~ In ou (map fst pre)).
    { rewrite Hsplit, map_app in ND. cbn [map fst] in ND. apply NoDup_remove_2 in ND. intros H. apply ND. apply in_or_app. left. exact H. }
    assert (Hlen : S (List.length pre) = List.length (pre ++ [(ou, os)])) by (rewrite app_length; cbn; lia).
    assert (Hsplit' : order = (pre ++ [(ou, os)]) ++ l) by (rewrite <- app_assoc; exact Hsplit).
    pose proof (inv_step order pre ou os new m Hou HI) as HI'.
    cbn [List.length seq combine fold_left]. rewrite Hlen.
    destruct (reorder_step order (new, m) (List.length pre, (ou, os))) as [new' m'] eqn:RS. cbn [fst snd] in HI'.
    specialize (IH (pre ++ [(ou, os)]) new' m' _ Hsplit' HI' eq_refl).
    destruct IH as [IH1 IH2]. split; [|exact IH2].
    rewrite <- IH1. clear IH1 IH2.
    cbn [loop1]. cbv zeta. unfold py_dict_items. rewrite Hself, reorder_loop2_latest.
    unfold reorder_step in RS. cbn [fst snd] in RS.
    replace (Z.of_nat (List.length pre) + 1)%Z with (Z.of_nat (List.length (pre ++ [(ou, os)]))) by (rewrite <- Hlen; lia).
    destruct HI as [I1 [I2 _]].
    destruct (latest_pos order (List.length pre) ou) as [lp|]; cbn [option_map]; injection RS as <- <-.
    + rewrite zpm_mem, zpm_len, py_range_nat, reorder_loop3_src. unfold bump.
      destruct (pm_has lp m).
      * destruct (find (fun i => negb (pm_has i m)) (seq lp (List.length m - lp))) as [i|].
        -- rewrite <- Nat2Z.inj_add. rewrite zpm_set by exact I1. reflexivity.
        -- rewrite zpm_set by exact I1. reflexivity.
      * rewrite zpm_set by exact I1. reflexivity.
    + rewrite py_dict_set_fresh; [reflexivity|]. apply not_in_dict_mem. intros H. apply Hou, I2, H.
Qed.

(* ---------- the loop over range(max_latest_pos + 1) ---------- *)
Definition at_pos (m : pmark) (i : nat) : amap := match pm_get i m with Some v => [v] | None => [] end.

Lemma move_to_end_last : forall (cur : amap) u us, ~ In u (map fst cur) ->
  py_dict_move_to_end Nat.eqb (cur ++ [(u, us)]) u = Ok (cur ++ [(u, us)]).
Proof.
  intros cur u us H. unfold py_dict_move_to_end.
  assert (F : find (fun kv : nat * list nat => Nat.eqb u (fst kv)) (cur ++ [(u, us)]) = Some (u, us)
              /\ filter (fun kv' : nat * list nat => negb (Nat.eqb u (fst kv'))) (cur ++ [(u, us)]) = cur).
  { induction cur as [|[k v] cur IH].
    - cbn. rewrite Nat.eqb_refl. cbn. split; reflexivity.
    - cbn [map fst] in H. assert (Nat.eqb u k = false) as E by (apply Nat.eqb_neq; intros ->; apply H; left; reflexivity).
      cbn [app find filter fst]. rewrite E. cbn [negb]. destruct IH as [IH1 IH2]; [intros Hin; apply H; right; exact Hin|].
      split; [exact IH1|rewrite IH2; reflexivity]. }
  destruct F as [F1 F2]. rewrite F1, F2. reflexivity.
Qed.

Lemma reorder_loop4_src : forall self m,
  (forall i v i' v', In (i, v) m -> In (i', v') m -> fst v = fst v' -> i = i') ->
  forall l cur, NoDup l ->
  (forall i v, In i l -> pm_get i m = Some v -> ~ In (fst v) (map fst cur)) ->
  loop4 self (zpm m) (map Z.of_nat l) cur = Fall (cur ++ flat_map (at_pos m) l).
Proof.
  intros self m Inj l. induction l as [|i l IH]; intros cur ND H.
  - cbn. rewrite app_nil_r. reflexivity.
  - inversion ND as [|? ? Hi ND']. subst.
    cbn [loop4 map flat_map]. rewrite zpm_mem, pm_has_get, zpm_getitem. unfold at_pos at 1.
    destruct (pm_get i m) as [[u us]|] eqn:G.
    + assert (Hu : ~ In u (map fst cur)) by (apply (H i (u, us)); [left; reflexivity|exact G]).
      rewrite py_dict_set_fresh by (apply not_in_dict_mem; exact Hu).
      rewrite move_to_end_last by exact Hu.
      rewrite IH; [rewrite <- app_assoc; reflexivity|exact ND'|].
      intros i' v' Hi' G' Hin. rewrite map_app in Hin. apply in_app_or in Hin. destruct Hin as [Hin|[Hin|[]]].
      * exact (H i' v' (or_intror Hi') G' Hin).
      * cbn [fst] in Hin. apply Hi. rewrite (Inj i (u, us) i' v' (pm_get_in _ _ _ G) (pm_get_in _ _ _ G') Hin). exact Hi'.
    + cbn [app]. apply IH; [exact ND'|]. intros i' v' Hi' G'. apply (H i' v'); [right; exact Hi'|exact G'].
Qed.

Lemma zmax_nat : forall l a, fold_left Z.max (map Z.of_nat l) (Z.of_nat a) = Z.of_nat (fold_left Nat.max l a).
Proof. induction l as [|x l IH]; intros a; [reflexivity|]. cbn [map fold_left]. rewrite <- Nat2Z.inj_max. apply IH. Qed.

Lemma zpm_keys : forall m, py_dict_keys (zpm m) = map Z.of_nat (map fst m).
Proof. intros. unfold py_dict_keys, zpm. rewrite !map_map. reflexivity. Qed.

(* ---------- LinkTrekker.order_ordered_ids_by_relation ---------- *)
Lemma order_ordered_ids_by_relation_src : forall self, NoDup (map fst (t_order self)) ->
  LinkTrekker_order_ordered_ids_by_relation self = (Ok tt, trek_set_order self (reorder_rel (t_order self))).
Proof.
  intros self ND. unfold LinkTrekker_order_ordered_ids_by_relation. cbv zeta. unfold py_dict_items.
  assert (HI : Inv [] [] []).
  { repeat split; try constructor; intros; contradiction. }
  unfold reorder_rel.
  remember (fold_left (reorder_step (t_order self)) (enumerate (t_order self)) ([], [])) as st eqn:Hst.
  destruct (reorder_loop1_src self (t_order self) eq_refl ND (t_order self) [] [] [] st eq_refl HI Hst) as [H1 H2].
  cbn [List.length] in H1. change (Z.of_nat 0) with 0%Z in H1. change (zpm []) with (@nil (Z * (nat * list nat))) in H1.
  rewrite H1. clear H1 Hst.
  destruct st as [new m]. cbn [fst snd] in *.
  destruct H2 as [I1 [I2 [I3 I4]]].
  destruct m as [|e m].
  - cbn. rewrite trek_set_order_same. reflexivity.
  - set (mm := e :: m) in *.
    assert (T : py_int_true (py_len (py_dict_keys (zpm mm))) = true).
    { unfold py_int_true, py_len, py_dict_keys, zpm, mm. rewrite !map_length. cbn [List.length].
      destruct (Z.eqb (Z.of_nat (S (List.length m))) 0) eqn:E; [apply Z.eqb_eq in E; lia|reflexivity]. }
    rewrite T. rewrite zpm_keys. unfold mm at 1. cbn [map py_max]. rewrite zmax_nat.
    replace (fold_left Nat.max (map fst m) (fst e)) with (fold_left Nat.max (map fst mm) 0) by reflexivity.
    set (mx := fold_left Nat.max (map fst mm) 0).
    replace (Z.of_nat mx + 1)%Z with (Z.of_nat (S mx)) by lia. change 0%Z with (Z.of_nat 0).
    rewrite py_range_nat, Nat.sub_0_r.
    rewrite (reorder_loop4_src self mm I4 (seq 0 (S mx)) new (seq_NoDup _ _)).
    + reflexivity.
    + intros i v _ G. apply (I3 i v). apply pm_get_in. exact G.
Qed.
