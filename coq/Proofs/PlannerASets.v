(* List-as-set and association-list lemmas for the planner model (Model/PlannerA.v). *)
From Coq Require Import List Bool Arith Lia Permutation.
Import ListNotations.
Require Import MV.Model.Orch MV.Model.OrchCheck MV.Model.PlannerA MV.Proofs.OrchP MV.Proofs.OrchTermP.

Lemma NoDup_snoc : forall (A : Type) (l : list A) x, NoDup l -> ~ In x l -> NoDup (l ++ [x]).
Proof.
  intros A l x. induction l as [|a l IH]; intros Hnd Hx; cbn.
  - constructor; [intros [] | constructor].
  - apply NoDup_cons_iff in Hnd. destruct Hnd as [Ha Hl]. constructor.
    + rewrite in_app_iff. intros [H|[H|[]]]; [exact (Ha H) | subst a; apply Hx; left; reflexivity].
    + apply IH; [exact Hl | intros H; apply Hx; right; exact H].
Qed.

(* ---------- set_add / set_union / dedupe ---------- *)
Lemma In_set_add : forall x l y, In y (set_add x l) <-> y = x \/ In y l.
Proof.
  intros x l y. unfold set_add. destruct (mem x l) eqn:E.
  - apply mem_In in E. split; [intros H; right; exact H | intros [H|H]; [subst y; exact E | exact H]].
  - rewrite in_app_iff. cbn. split.
    + intros [H|[H|[]]]; [right; exact H | left; symmetry; exact H].
    + intros [H|H]; [right; left; symmetry; exact H | left; exact H].
Qed.

Lemma NoDup_set_add : forall x l, NoDup l -> NoDup (set_add x l).
Proof.
  intros x l H. unfold set_add. destruct (mem x l) eqn:E; [exact H|].
  apply mem_false in E. apply NoDup_snoc; assumption.
Qed.

Lemma In_set_union : forall b a y, In y (set_union a b) <-> In y a \/ In y b.
Proof.
  intros b. induction b as [|x b IH]; intros a y; unfold set_union; cbn.
  - tauto.
  - fold (set_union (set_add x a) b). rewrite IH, In_set_add. split.
    + intros [[H|H]|H]; [right; left; symmetry; exact H | left; exact H | right; right; exact H].
    + intros [H|[H|H]]; [left; right; exact H | left; left; symmetry; exact H | right; exact H].
Qed.

Lemma NoDup_set_union : forall b a, NoDup a -> NoDup (set_union a b).
Proof.
  intros b. induction b as [|x b IH]; intros a Ha; unfold set_union; cbn; [exact Ha|].
  fold (set_union (set_add x a) b). apply IH. apply NoDup_set_add. exact Ha.
Qed.

Lemma In_dedupe : forall l y, In y (dedupe l) <-> In y l.
Proof. intros l y. unfold dedupe. rewrite In_set_union. cbn. tauto. Qed.

Lemma NoDup_dedupe : forall l, NoDup (dedupe l).
Proof. intros l. unfold dedupe. apply NoDup_set_union. constructor. Qed.

(* rs = fold_left (fun rs p => set_union rs (F p)) ps init *)
Lemma In_fold_union : forall (F : nat -> list nat) ps init y,
  In y (fold_left (fun rs p => set_union rs (F p)) ps init) <-> In y init \/ exists p, In p ps /\ In y (F p).
Proof.
  intros F ps. induction ps as [|p ps IH]; intros init y; cbn.
  - split; [intros H; left; exact H | intros [H|[p [[] _]]]; exact H].
  - rewrite IH, In_set_union. split.
    + intros [[H|H]|[q [Hq Hy]]].
      * left; exact H.
      * right; exists p; split; [left; reflexivity | exact H].
      * right; exists q; split; [right; exact Hq | exact Hy].
    + intros [H|[q [[Hq|Hq] Hy]]].
      * left; left; exact H.
      * subst q. left; right; exact Hy.
      * right; exists q; split; assumption.
Qed.

Lemma NoDup_fold_union : forall (F : nat -> list nat) ps init,
  NoDup init -> NoDup (fold_left (fun rs p => set_union rs (F p)) ps init).
Proof.
  intros F ps. induction ps as [|p ps IH]; intros init H; cbn; [exact H|].
  apply IH. apply NoDup_set_union. exact H.
Qed.

(* ---------- Permutation helpers ---------- *)
Lemma mem_perm : forall x l l', Permutation l l' -> mem x l = mem x l'.
Proof.
  intros x l l' H. destruct (mem x l) eqn:E.
  - symmetry. apply mem_In. apply (Permutation_in _ H). apply mem_In. exact E.
  - symmetry. apply mem_false. intros Hin. apply mem_false in E. apply E.
    apply (Permutation_in _ (Permutation_sym H)). exact Hin.
Qed.

Lemma mem_ext : forall x l l', (forall y, In y l <-> In y l') -> mem x l = mem x l'.
Proof.
  intros x l l' H. destruct (mem x l) eqn:E.
  - symmetry. apply mem_In, H, mem_In. exact E.
  - symmetry. apply mem_false. intros Hin. apply mem_false in E. apply E, H. exact Hin.
Qed.

Lemma subset_ext : forall a a' b b', (forall y, In y a <-> In y a') -> (forall y, In y b <-> In y b') ->
  subset a b = subset a' b'.
Proof.
  intros a a' b b' Ha Hb. destruct (subset a b) eqn:E.
  - symmetry. apply subset_incl. apply subset_incl in E. intros y Hy. apply Hb, E, Ha. exact Hy.
  - symmetry. destruct (subset a' b') eqn:E'; [|reflexivity]. exfalso.
    apply subset_incl in E'. assert (H : subset a b = true).
    { apply subset_incl. intros y Hy. apply Hb, E', Ha. exact Hy. }
    rewrite H in E. discriminate.
Qed.

Lemma filter_perm_same : forall (f : nat -> bool) l l', Permutation l l' -> Permutation (filter f l) (filter f l').
Proof.
  intros f l l' H. induction H as [|x l l' H IH|x y l|l l' l'' H1 IH1 H2 IH2].
  - constructor.
  - cbn. destruct (f x); [constructor; exact IH | exact IH].
  - cbn. destruct (f x), (f y); try apply Permutation_refl. apply perm_swap.
  - exact (Permutation_trans IH1 IH2).
Qed.

Lemma filter_perm : forall (f f' : nat -> bool) l l', Permutation l l' -> (forall x, In x l -> f x = f' x) ->
  Permutation (filter f l) (filter f' l').
Proof.
  intros f f' l l' H Hf. rewrite (filter_ext_in f f' l Hf). apply filter_perm_same. exact H.
Qed.

Lemma filter_split_perm : forall (f : nat -> bool) l, Permutation (filter f l ++ filter (fun x => negb (f x)) l) l.
Proof.
  intros f l. induction l as [|x l IH]; cbn; [constructor|].
  destruct (f x); cbn.
  - constructor. exact IH.
  - apply Permutation_sym. apply Permutation_cons_app. apply Permutation_sym. exact IH.
Qed.

Lemma NoDup_perm_iff : forall (l l' : list nat), NoDup l -> NoDup l' -> (forall x, In x l <-> In x l') -> Permutation l l'.
Proof. intros l l' H H' Hi. apply NoDup_Permutation; assumption. Qed.

Lemma flat_map_perm_pointwise : forall (A : Type) (F G : A -> list nat) l,
  (forall x, In x l -> Permutation (F x) (G x)) -> Permutation (flat_map F l) (flat_map G l).
Proof.
  intros A F G l. induction l as [|x l IH]; intros H; cbn; [constructor|].
  apply Permutation_app; [apply H; left; reflexivity | apply IH; intros y Hy; apply H; right; exact Hy].
Qed.

Lemma flat_map_flat_map : forall (A B C : Type) (f : A -> list B) (h : B -> list C) l,
  flat_map h (flat_map f l) = flat_map (fun x => flat_map h (f x)) l.
Proof.
  intros A B C f h l. induction l as [|x l IH]; cbn; [reflexivity|]. rewrite flat_map_app, IH. reflexivity.
Qed.

Lemma flat_map_map : forall (A B C : Type) (f : A -> B) (h : B -> list C) l,
  flat_map h (map f l) = flat_map (fun x => h (f x)) l.
Proof. intros A B C f h l. induction l as [|x l IH]; cbn; [reflexivity|]. rewrite IH. reflexivity. Qed.

Lemma concat_perm_pointwise : forall (l l' : list (list nat)), Forall2 (@Permutation nat) l l' ->
  Permutation (concat l) (concat l').
Proof. intros l l' H. induction H as [|x y l l' Hxy H IH]; cbn; [constructor|]. apply Permutation_app; assumption. Qed.

Lemma NoDup_app_intro : forall (a b : list nat), NoDup a -> NoDup b -> (forall x, In x a -> ~ In x b) -> NoDup (a ++ b).
Proof.
  intros a. induction a as [|x a IH]; intros b Ha Hb Hd; cbn; [exact Hb|].
  apply NoDup_cons_iff in Ha. destruct Ha as [Hx Ha]. constructor.
  - rewrite in_app_iff. intros [H|H]; [exact (Hx H) | exact (Hd x (or_introl eq_refl) H)].
  - apply IH; [exact Ha | exact Hb | intros y Hy; apply Hd; right; exact Hy].
Qed.

(* disjointness of the pieces of a flat_map through a key *)
Lemma NoDup_flat_map_key : forall (A : Type) (F : A -> list nat) (kx : A -> nat) (key : nat -> nat) (l : list A),
  NoDup (map kx l) -> (forall x, In x l -> NoDup (F x)) -> (forall x u, In x l -> In u (F x) -> key u = kx x) ->
  NoDup (flat_map F l).
Proof.
  intros A F kx key l. induction l as [|x l IH]; intros Hk Hnd Hkey; cbn; [constructor|].
  cbn in Hk. apply NoDup_cons_iff in Hk. destruct Hk as [Hx Hl].
  apply NoDup_app_intro.
  - apply Hnd. left; reflexivity.
  - apply IH; [exact Hl | intros y Hy; apply Hnd; right; exact Hy | intros y u Hy; apply Hkey; right; exact Hy].
  - intros u Hu Hin. apply in_flat_map in Hin. destruct Hin as [y [Hy Huy]].
    apply Hx. apply in_map_iff. exists y. split; [|exact Hy].
    rewrite <- (Hkey y u (or_intror Hy) Huy). apply (Hkey x u (or_introl eq_refl) Hu).
Qed.

(* ---------- association lists ---------- *)
Lemma aget0_aadd : forall k x m k' y, In y (aget0 k' (aadd k x m)) <-> In y (aget0 k' m) \/ (k' = k /\ y = x).
Proof.
  intros k x m. induction m as [|[k0 v] m IH]; intros k' y.
  - unfold aget0. cbn. destruct (Nat.eqb k' k) eqn:E.
    + apply Nat.eqb_eq in E. cbn. split; [intros [H|[]]; right; split; [exact E | symmetry; exact H] | intros [[]|[_ H]]; left; symmetry; exact H].
    + apply Nat.eqb_neq in E. cbn. split; [intros [] | intros [[]|[H _]]; exact (E H)].
  - cbn [aadd]. destruct (Nat.eqb k k0) eqn:E.
    + apply Nat.eqb_eq in E. subst k0. unfold aget0. cbn [aget]. destruct (Nat.eqb k' k) eqn:E'.
      * apply Nat.eqb_eq in E'. rewrite In_set_add. split.
        -- intros [H|H]; [right; split; assumption | left; exact H].
        -- intros [H|[_ H]]; [right; exact H | left; exact H].
      * apply Nat.eqb_neq in E'. split; [intros H; left; exact H | intros [H|[H _]]; [exact H | exfalso; exact (E' H)]].
    + unfold aget0. cbn [aget]. destruct (Nat.eqb k' k0) eqn:E'.
      * apply Nat.eqb_eq in E'. subst k0. apply Nat.eqb_neq in E.
        split; [intros H; left; exact H | intros [H|[H _]]; [exact H | exfalso; apply E; symmetry; exact H]].
      * apply IH.
Qed.

Lemma aget_map_snd : forall (f : list nat -> list nat) m k,
  aget k (map (fun kv => (fst kv, f (snd kv))) m) = option_map f (aget k m).
Proof.
  intros f m k. induction m as [|[k0 v] m IH]; cbn; [reflexivity|].
  destruct (Nat.eqb k k0); [reflexivity | exact IH].
Qed.

Lemma aget_In : forall m k v, aget k m = Some v -> In (k, v) m.
Proof.
  intros m k v. induction m as [|[k0 v0] m IH]; cbn; [discriminate|].
  destruct (Nat.eqb k k0) eqn:E.
  - intros H. injection H as H. subst v0. apply Nat.eqb_eq in E. subst k0. left; reflexivity.
  - intros H. right. apply IH. exact H.
Qed.

Lemma aget_none : forall m k, aget k m = None <-> ~ In k (map fst m).
Proof.
  intros m k. induction m as [|[k0 v0] m IH]; cbn.
  - split; [intros _ [] | reflexivity].
  - destruct (Nat.eqb k k0) eqn:E.
    + apply Nat.eqb_eq in E. split; [discriminate | intros H; exfalso; apply H; left; symmetry; exact E].
    + apply Nat.eqb_neq in E. rewrite IH. split; [intros H [H'|H']; [apply E; symmetry; exact H' | exact (H H')] | intros H H'; apply H; right; exact H'].
Qed.
