(* Refinement: every trace of the protocol (Model/Worker.v) projects to an event list of Model/Orch.v whose run yields the
   protocol's orchestrator state (up to the ghost snapshot in `started` and the order of `done`), with the same outcome. *)
From Coq Require Import List Bool Arith Lia.
Import ListNotations.
Require Import MV.Model.Orch MV.Proofs.OrchP MV.Model.Worker MV.Spec.WorkerSpec MV.Proofs.WorkerP.

Notation vis := (visit false nofail).
Notation wd := worker_done.

(* ---------------------------------------------------------------- oeq is an equivalence respected by all operations *)
Lemma oeq_refl : forall a, oeq a a.
Proof. intros a. unfold oeq. repeat split; auto. Qed.
Lemma oeq_sym : forall a b, oeq a b -> oeq b a.
Proof. intros a b (E1&E2&E3&E4&E5&E6&E7&E8). unfold oeq. repeat split; auto; apply E4. Qed.
Lemma oeq_trans : forall a b d, oeq a b -> oeq b d -> oeq a d.
Proof.
  intros a b d (E1&E2&E3&E4&E5&E6&E7&E8) (F1&F2&F3&F4&F5&F6&F7&F8). unfold oeq.
  repeat split; try congruence; intros X; [apply F4, E4, X | apply E4, F4, X].
Qed.

Lemma mem_ext : forall x l l', (forall y, In y l <-> In y l') -> mem x l = mem x l'.
Proof.
  intros x l l' H. destruct (mem x l) eqn:E.
  - symmetry. apply mem_In, H, mem_In, E.
  - symmetry. apply mem_false. intros X. apply H in X. apply mem_In in X. congruence.
Qed.

Lemma started_ids_oeq : forall a b, oeq a b -> started_ids a = started_ids b.
Proof.
  intros a b (_&_&E3&_). unfold started_ids.
  assert (G : forall l : list (nat * (list nat * list nat)), map fst l = map fst (map (fun e => (fst e, fst (snd e))) l)).
  { intros l. rewrite map_map. reflexivity. }
  rewrite (G (started a)), (G (started b)), E3. reflexivity.
Qed.

Lemma oeq_visit : forall a b s, oeq a b -> oeq (vis a s) (vis b s).
Proof.
  intros a b s H. pose proof H as (E1&E2&E3&E4&E5&E6&E7&E8). unfold visit, cur_running.
  rewrite E1, E2, (mem_ext (sid s) (done a) (done b) E4).
  destruct (subset (uuids s) (finished b)); [exact H|].
  destruct (match uuids s with [] => false | u :: _ => mem u (running b) end).
  - destruct (mem (sid s) (done b)); [|exact H]. unfold oeq; cbn. rewrite E6. repeat split; try congruence; apply E4.
  - destruct (subset (req s) (finished b) && disjoint (uuids s) (running b)); [|exact H].
    unfold oeq; cbn. repeat split; try congruence; apply E4.
Qed.

Lemma oeq_fold_visit : forall l a b, oeq a b -> oeq (fold_left vis l a) (fold_left vis l b).
Proof. induction l as [|s l IH]; intros a b H; cbn; [exact H | apply IH, oeq_visit, H]. Qed.

Lemma oeq_wd : forall a b x ok, oeq a b -> oeq (wd a x ok) (wd b x ok).
Proof.
  intros a b x ok H. pose proof H as (E1&E2&E3&E4&E5&E6&E7&E8). unfold worker_done.
  rewrite (started_ids_oeq a b H), (mem_ext x (done a) (done b) E4), E5.
  destruct (mem x (started_ids b) && negb (mem x (done b)) && negb (mem x (failed b))); [|exact H].
  unfold oeq; cbn. repeat split; try congruence; destruct ok; cbn; try apply E4; try congruence.
  - intros [X|X]; [left; exact X | right; apply E4, X].
  - intros [X|X]; [left; exact X | right; apply E4, X].
Qed.

Lemma oeq_apply_evs : forall l a b, oeq a b -> oeq (apply_evs a l) (apply_evs b l).
Proof. unfold apply_evs. induction l as [|e l IH]; intros a b H; cbn; [exact H | apply IH, oeq_wd, H]. Qed.

Lemma oeq_bump : forall a b, oeq a b -> oeq (bump a) (bump b).
Proof. intros a b (E1&E2&E3&E4&E5&E6&E7&E8). unfold oeq; cbn. repeat split; try congruence; apply E4. Qed.
Lemma oeq_drain : forall a b, oeq a b -> oeq (drain a) (drain b).
Proof. intros a b (E1&E2&E3&E4&E5&E6&E7&E8). unfold oeq; cbn. repeat split; try congruence; apply E4. Qed.
Lemma oeq_loop_head : forall p a b, oeq a b -> loop_head p a = loop_head p b.
Proof. intros p a b (E1&E2&E3&E4&E5&E6&E7&E8). unfold loop_head. rewrite E1, E5. reflexivity. Qed.

(* ---------------------------------------------------------------- commutations *)
Lemma wd_started : forall a x ok, started (wd a x ok) = started a.
Proof. intros. unfold worker_done. destruct (_ && _ && _); reflexivity. Qed.
Lemma wd_started_ids : forall a x ok, started_ids (wd a x ok) = started_ids a.
Proof. intros. unfold started_ids. rewrite wd_started. reflexivity. Qed.
Lemma apply_evs_started_ids : forall l a, started_ids (apply_evs a l) = started_ids a.
Proof. unfold apply_evs. induction l as [|e l IH]; intros a; cbn; [reflexivity | rewrite IH; apply wd_started_ids]. Qed.

Lemma wd_bump : forall a x ok, wd (bump a) x ok = bump (wd a x ok).
Proof. intros. unfold worker_done, bump, started_ids; cbn. destruct (_ && _ && _); reflexivity. Qed.
Lemma wd_drain : forall a x ok, wd (drain a) x ok = drain (wd a x ok).
Proof. intros. unfold worker_done, drain, started_ids; cbn. destruct (_ && _ && _); reflexivity. Qed.
Lemma apply_evs_bump : forall l a, apply_evs (bump a) l = bump (apply_evs a l).
Proof. unfold apply_evs. induction l as [|e l IH]; intros a; cbn; [reflexivity | rewrite wd_bump; apply IH]. Qed.
Lemma apply_evs_drain : forall l a, apply_evs (drain a) l = drain (apply_evs a l).
Proof. unfold apply_evs. induction l as [|e l IH]; intros a; cbn; [reflexivity | rewrite wd_drain; apply IH]. Qed.

Lemma mem_cons_ne : forall x y l, x <> y -> mem x (y :: l) = mem x l.
Proof. intros x y l H. unfold mem. cbn. destruct (Nat.eqb x y) eqn:E; [apply Nat.eqb_eq in E; contradiction | reflexivity]. Qed.

(* a completion of x commutes with the visit of step s when it cannot influence that visit's done-test *)
Lemma visit_wd_commute : forall a s x b, (b = false \/ x <> sid s) -> (x <> sid s \/ mem x (started_ids a) = true) ->
  oeq (vis (wd a x b) s) (wd (vis a s) x b).
Proof.
  intros a s x b H1 H2.
  assert (Gd : done (vis a s) = done a) by (apply (ovisit_done a s)).
  assert (Gf : failed (vis a s) = failed a) by (apply (ovisit_failed a s)).
  assert (Gs : mem x (started_ids (vis a s)) = mem x (started_ids a)).
  { unfold visit, started_ids. destruct (subset (uuids s) (finished a)); [reflexivity|]. destruct (cur_running s a).
    - destruct (mem (sid s) (done a)); reflexivity.
    - destruct (subset (req s) (finished a) && disjoint (uuids s) (running a)); [|reflexivity]. cbn.
      destruct H2 as [H2|H2]; [apply (mem_cons_ne x (sid s)), H2|].
      unfold started_ids in H2. unfold mem in *. cbn. rewrite H2. apply orb_true_r. }
  unfold worker_done at 2. rewrite Gs, Gd, Gf. unfold worker_done.
  destruct (mem x (started_ids a) && negb (mem x (done a)) && negb (mem x (failed a))) eqn:G; [|apply oeq_refl].
  destruct b.
  - assert (Hx : sid s <> x) by (destruct H1 as [H1|H1]; [discriminate | congruence]).
    unfold visit, cur_running; cbn [finished running started done failed results yielded scans].
    rewrite (mem_cons_ne (sid s) x (done a) Hx).
    destruct (subset (uuids s) (finished a)); [apply oeq_refl|].
    destruct (match uuids s with [] => false | u :: _ => mem u (running a) end).
    + destruct (mem (sid s) (done a)); apply oeq_refl.
    + destruct (subset (req s) (finished a) && disjoint (uuids s) (running a)); [|apply oeq_refl].
      unfold oeq; cbn. repeat split; tauto.
  - unfold visit, cur_running; cbn [finished running started done failed results yielded scans].
    destruct (subset (uuids s) (finished a)); [apply oeq_refl|].
    destruct (match uuids s with [] => false | u :: _ => mem u (running a) end).
    + destruct (mem (sid s) (done a)); apply oeq_refl.
    + destruct (subset (req s) (finished a) && disjoint (uuids s) (running a)); [|apply oeq_refl].
      unfold oeq; cbn. repeat split; tauto.
Qed.

Lemma wd_wd_commute : forall a x b y b', x <> y -> (b = true \/ b' = true) -> oeq (wd (wd a x b) y b') (wd (wd a y b') x b).
Proof.
  intros a x b y b' Hne Hb.
  assert (G : forall z u ok, z <> u -> mem z (started_ids (wd a u ok)) && negb (mem z (done (wd a u ok))) && negb (mem z (failed (wd a u ok)))
                             = mem z (started_ids a) && negb (mem z (done a)) && negb (mem z (failed a))).
  { intros z u ok Hz. rewrite wd_started_ids. unfold worker_done. destruct (mem u (started_ids a) && negb (mem u (done a)) && negb (mem u (failed a))); [|reflexivity].
    cbn [done failed]. destruct ok; rewrite (mem_cons_ne z u _ Hz); reflexivity. }
  unfold worker_done at 1 3. rewrite (G y x b (not_eq_sym Hne)), (G x y b' Hne).
  unfold worker_done.
  destruct (mem x (started_ids a) && negb (mem x (done a)) && negb (mem x (failed a)));
    destruct (mem y (started_ids a) && negb (mem y (done a)) && negb (mem y (failed a))); try apply oeq_refl.
  unfold oeq; cbn. repeat split; auto; destruct b, b'; cbn; try tauto; try (destruct Hb; discriminate).
Qed.

Lemma loop_head_wd_true : forall p a x, loop_head p (wd a x true) = loop_head p a.
Proof. intros. unfold worker_done, loop_head. destruct (_ && _ && _); reflexivity. Qed.
Lemma wd_done_incl : forall a x b, incl (done a) (done (wd a x b)).
Proof. intros. unfold worker_done. destruct (_ && _ && _); cbn; [destruct b; [apply incl_tl|]|]; apply incl_refl. Qed.
Lemma wd_failed_incl : forall a x b, incl (failed a) (failed (wd a x b)).
Proof. intros. unfold worker_done. destruct (_ && _ && _); cbn; [destruct b; [|apply incl_tl]|]; apply incl_refl. Qed.
Lemma wd_guard_true : forall a x b, In x (started_ids a) -> ~ In x (done a) -> ~ In x (failed a) ->
  match b return Prop with true => In x (done (wd a x b)) | false => In x (failed (wd a x b)) end.
Proof.
  intros a x b H1 H2 H3. unfold worker_done. apply mem_In in H1. apply mem_false in H2, H3. rewrite H1, H2, H3. cbn.
  destruct b; left; reflexivity.
Qed.

Lemma firstn_S_nth : forall (A : Type) (l : list A) k x, nth_error l k = Some x -> firstn (S k) l = firstn k l ++ [x].
Proof.
  intros A l. induction l as [|y l IH]; intros k x H; [destruct k; discriminate|].
  destruct k; cbn in *; [inversion H; reflexivity | rewrite (IH k x H); reflexivity].
Qed.
Lemma firstn_none : forall (A : Type) (l : list A) k, nth_error l k = None -> firstn k l = l.
Proof. intros A l k H. apply firstn_all2. apply nth_error_None. exact H. Qed.
Lemma in_firstn_nth : forall (A : Type) (l : list A) k x, In x (firstn k l) -> exists j, j < k /\ nth_error l j = Some x.
Proof.
  intros A l. induction l as [|y l IH]; intros k x H; [destruct k; destruct H|].
  destruct k; [destruct H|]. cbn in H. destruct H as [<-|H]; [exists 0; split; [lia | reflexivity]|].
  destruct (IH k x H) as (j & Hj & E). exists (S j). split; [lia | exact E].
Qed.

Section Ref.
  Variable c : cfg.
  Notation p := (cplan c).
  Hypothesis Hp : plan_ok p.
  Hypothesis Hnd : NoDup (map sid p).
  Notation runp := (run (cstream c) false nofail p).

  Lemma posn_nth : forall (q : plan) j t, NoDup (map sid q) -> nth_error q j = Some t -> posn (sid t) q = Some j.
  Proof.
    induction q as [|s q IH]; intros j t N H; [destruct j; discriminate|]. cbn in N. inversion N as [|? ? Hn N']; subst.
    destruct j; cbn in *.
    - inversion H; subst. rewrite Nat.eqb_refl. reflexivity.
    - destruct (Nat.eqb (sid s) (sid t)) eqn:E.
      + apply Nat.eqb_eq in E. exfalso. apply Hn. rewrite E. apply in_map. eapply nth_error_In; eauto.
      + rewrite (IH j t N' H). reflexivity.
  Qed.
  Lemma posn_some : forall (q : plan) x j, posn x q = Some j -> exists t, nth_error q j = Some t /\ sid t = x.
  Proof.
    induction q as [|s q IH]; intros x j H; [discriminate|]. cbn in H. destruct (Nat.eqb (sid s) x) eqn:E.
    - inversion H; subst. exists s. split; [reflexivity | apply Nat.eqb_eq; exact E].
    - destruct (posn x q) as [j'|] eqn:E'; [|discriminate]. cbn in H. inversion H; subst.
      destruct (IH x j' E') as (t & Ht & Es). exists t. split; assumption.
  Qed.

  Lemma run_app : forall es es', runp (es ++ es') = fold_left (apply (cstream c) false nofail p) es' (runp es).
  Proof. intros. unfold run. apply fold_left_app. Qed.
  Lemma run_evs : forall l a, fold_left (apply (cstream c) false nofail p) (map to_ev l) a = apply_evs a l.
  Proof. unfold apply_evs. induction l as [|e l IH]; intros a; cbn; [reflexivity | apply IH]. Qed.

  Definition late_ok (a : ost) (i : option nat) (late : list (nat * bool)) : Prop :=
    forall y b, In (y, b) late ->
      In y (started_ids a) /\ (if b then In y (done a) else In y (failed a)) /\
      (b = true -> forall k j t, i = Some k -> k <= j -> nth_error p j = Some t -> sid t <> y).

  Definition RI (a : ost) (i : option nat) (acc : list event * list (nat * bool)) : Prop :=
    match i with
    | None => snd acc = [] /\ oeq a (runp (fst acc))
    | Some k => loop_head p (runp (fst acc)) = Looping /\
                oeq a (apply_evs (fold_left vis (firstn k p) (runp (fst acc))) (snd acc))
    end /\ late_ok a i (snd acc).

  Lemma late_ok_mono : forall a a' i late, late_ok a i late -> incl (started_ids a) (started_ids a') ->
    incl (done a) (done a') -> incl (failed a) (failed a') -> late_ok a' i late.
  Proof.
    intros a a' i late H Hs Hd Hf y b X. destruct (H y b X) as (A & B & C). repeat split; auto.
    destruct b; auto.
  Qed.

  (* completion of x commutes with all late events (distinct steps) *)
  Lemma wd_past_late : forall late F x, (forall y b, In (y, b) late -> y <> x) ->
    oeq (wd (apply_evs F late) x true) (apply_evs (wd F x true) late).
  Proof.
    unfold apply_evs. induction late as [|[y b] late IH]; intros F x H; cbn; [apply oeq_refl|].
    eapply oeq_trans; [apply IH; intros y' b' X; apply (H y' b'); right; exact X|].
    apply (oeq_apply_evs late). apply wd_wd_commute; [apply (H y b); left; reflexivity | right; reflexivity].
  Qed.

  Lemma wd_past_visits : forall l A x, (forall s, In s l -> sid s <> x) ->
    oeq (wd (fold_left vis l A) x true) (fold_left vis l (wd A x true)).
  Proof.
    induction l as [|s l IH]; intros A x H; cbn; [apply oeq_refl|].
    eapply oeq_trans; [apply IH; intros s' X; apply H; right; exact X|].
    apply oeq_fold_visit. apply oeq_sym. apply visit_wd_commute; [right | left]; intros E; apply (H s); [left; reflexivity | symmetry; exact E | left; reflexivity | symmetry; exact E].
  Qed.

  Lemma visit_past_late : forall late F s,
    (forall y b, In (y, b) late -> (b = false \/ y <> sid s) /\ mem y (started_ids F) = true) ->
    oeq (vis (apply_evs F late) s) (apply_evs (vis F s) late).
  Proof.
    unfold apply_evs. induction late as [|[y b] late IH]; intros F s H; cbn; [apply oeq_refl|].
    eapply oeq_trans.
    - apply IH. intros y' b' X. destruct (H y' b') as [A B]; [right; exact X|]. split; [exact A | rewrite wd_started_ids; exact B].
    - apply (oeq_apply_evs late). destruct (H y b) as [A B]; [left; reflexivity|]. apply visit_wd_commute; [exact A | right; exact B].
  Qed.

  Definition acc1 (i : option nat) (acc : list event * list (nat * bool)) (e : nat * bool) : list event * list (nat * bool) :=
    if is_early p i e then (fst acc ++ [to_ev e], snd acc) else (fst acc, snd acc ++ [e]).

  Lemma RI_event : forall a i acc x b, RI a i acc -> In x (started_ids a) -> ~ In x (done a) -> ~ In x (failed a) ->
    RI (wd a x b) i (acc1 i acc (x, b)).
  Proof.
    intros a i [es late] x b [R L] Hs Hd Hf. cbn [fst snd] in *.
    assert (Lne : forall y b', In (y, b') late -> y <> x).
    { intros y b' X ->. destruct (L x b' X) as (_ & B & _). destruct b'; contradiction. }
    assert (Lm : late_ok (wd a x b) i late).
    { eapply late_ok_mono; [exact L | rewrite wd_started_ids; apply incl_refl | apply wd_done_incl | apply wd_failed_incl]. }
    unfold acc1, is_early. destruct i as [k|]; cbn [fst snd].
    - destruct R as [Rh Ro]. destruct (b && match posn x p with Some j => Nat.leb k j | None => false end) eqn:Ee; cbn [fst snd].
      + (* early *)
        apply andb_true_iff in Ee. destruct Ee as [-> Ee]. destruct (posn x p) as [j|] eqn:Ep; [|discriminate]. apply Nat.leb_le in Ee.
        destruct (posn_some p x j Ep) as (t & Ht & Et).
        split; [|exact Lm]. unfold to_ev; cbn [fst snd]. rewrite run_app. cbn [fold_left apply]. split.
        * rewrite loop_head_wd_true. exact Rh.
        * eapply oeq_trans; [apply oeq_wd, Ro|]. eapply oeq_trans; [apply wd_past_late, Lne|].
          apply oeq_apply_evs. apply wd_past_visits. intros s Hin Es.
          destruct (in_firstn_nth _ _ _ _ Hin) as (j' & Hj' & Hn').
          pose proof (posn_nth p j' s Hnd Hn') as Ep'. rewrite Es, Ep in Ep'. inversion Ep'. lia.
      + (* late *)
        split.
        * split; [exact Rh|]. cbn [fst snd]. unfold apply_evs. rewrite fold_left_app. cbn [fold_left fst snd]. apply oeq_wd. exact Ro.
        * intros y b' X. apply in_app_or in X. destruct X as [X|[X|[]]]; [apply Lm, X|]. inversion X; subst y b'.
          split; [rewrite wd_started_ids; exact Hs|]. split; [apply wd_guard_true; assumption|].
          intros -> k' j t Ek Hj Hn Es. inversion Ek; subst k'. rewrite <- Es, (posn_nth p j t Hnd Hn) in Ee.
          cbn in Ee. apply Nat.leb_gt in Ee. lia.
    - destruct R as [Rl Ro]. cbn in Rl. subst late. split; [|exact Lm]. split; [reflexivity|].
      unfold to_ev; cbn [fst snd]. rewrite run_app. cbn [fold_left apply]. apply oeq_wd. exact Ro.
  Qed.

  Lemma RI_visit : forall a k acc s, RI a (Some k) acc -> nth_error p k = Some s -> RI (vis a s) (Some (S k)) acc.
  Proof.
    intros a k [es late] s [[Rh Ro] L] Hn. cbn [fst snd] in *. split; [split; [exact Rh|]|].
    - rewrite (firstn_S_nth _ p k s Hn), fold_left_app. cbn [fold_left].
      eapply oeq_trans; [apply oeq_visit, Ro|]. apply visit_past_late. intros y b X. destruct (L y b X) as (A & B & C). split.
      + destruct b; [right|left; reflexivity]. intros ->. apply (C eq_refl k k s eq_refl (le_n k) Hn). reflexivity.
      + apply mem_In. cbn [fst snd] in *. rewrite <- (apply_evs_started_ids late (fold_left vis (firstn k p) (runp es))). rewrite <- (started_ids_oeq _ _ Ro). exact A.
    - intros y b X. destruct (L y b X) as (A & B & C). split; [apply (ovisit_started a s), A|]. split.
      + change (vis a s) with (ovisit a s). rewrite ovisit_done, ovisit_failed. exact B.
      + intros Eb k' j t Ek Hj Hn'. inversion Ek; subst k'. apply (C Eb k j t eq_refl); [lia | exact Hn'].
  Qed.

  Lemma RI_endscan : forall a k acc, RI a (Some k) acc -> nth_error p k = None ->
    RI (if cstream c then drain (bump a) else bump a) None (fst acc ++ [EScan] ++ map to_ev (snd acc), []).
  Proof.
    intros a k [es late] [[Rh Ro] L] Hn. cbn [fst snd] in *. rewrite (firstn_none _ p k Hn) in Ro.
    split; [|intros y b []]. split; [reflexivity|]. cbn [fst].
    rewrite run_app. cbn [app fold_left apply]. rewrite run_evs. unfold scan. rewrite Rh.
    destruct (cstream c).
    - rewrite apply_evs_drain, apply_evs_bump. apply oeq_drain, oeq_bump, Ro.
    - rewrite apply_evs_bump. apply oeq_bump, Ro.
  Qed.

  (* ---- states ---- *)
  Definition PcSc (st : pst) : Prop :=
    match pc st with
    | PVisit i | PPolled i => sc st = Some i
    | PWait i _ => sc st = Some (S i)
    | PHead | PYield _ => sc st = None
    | PFinally x | PTerm x _ | PJoin x _ | PDrop x | PExited x =>
      match x with XNormal | XRaisedHead | XAbandon => sc st = None | _ => True end
    end.

  Definition G (st : pst) (acc : list event * list (nat * bool)) : Prop :=
    SInv c st /\ PcSc st /\ RI (o st) (sc st) acc.

  Definition poll_evs (taken : list (nat * rmsg)) : list (nat * bool) :=
    flat_map (fun wm => match snd wm with RDone s => [(s, true)] | RDropComplete => [] end) taken.

  Definition acc_evs (i : option nat) (acc : list event * list (nat * bool)) (evs : list (nat * bool)) :=
    (fst acc ++ map to_ev (filter (is_early p i) evs), snd acc ++ filter (fun e => negb (is_early p i e)) evs).

  Lemma acc_evs_nil : forall i acc, acc_evs i acc [] = acc.
  Proof. intros i [es late]. unfold acc_evs; cbn. rewrite !app_nil_r. reflexivity. Qed.
  Lemma acc_evs_cons : forall i acc e evs, acc_evs i acc (e :: evs) = acc_evs i (acc1 i acc e) evs.
  Proof.
    intros i [es late] e evs. unfold acc_evs, acc1; cbn. destruct (is_early p i e); cbn; rewrite <- app_assoc; reflexivity.
  Qed.

  Lemma RI_poll : forall rp sn taken f a f' a' i acc, Inv c a f rp sn -> RI a i acc -> poll f a taken = Some (f', a') ->
    RI a' i (acc_evs i acc (poll_evs taken)).
  Proof.
    intros rp sn taken. induction taken as [|[w m] t IH]; intros f a f' a' i acc H R P; cbn in P.
    - inversion P; subst. cbn. rewrite acc_evs_nil. exact R.
    - destruct (spawned (phase (f w))); [|discriminate]. destruct (take_msg (f w) m) as [x|] eqn:T; [|discriminate].
      pose proof (Inv_take c Hp a f rp sn w m x H T) as H'. destruct m as [s|].
      + destruct (Inv_infl_fresh c a f rp sn H w s (take_msg_infl _ s _ T)) as (G1 & G2 & G3).
        cbn [poll_evs flat_map snd app]. change (flat_map _ t) with (poll_evs t). rewrite acc_evs_cons.
        eapply IH; [exact H' | | exact P]. rewrite <- (worker_done_add_done a s G1 G2 G3). apply RI_event; assumption.
      + cbn [poll_evs flat_map snd app]. change (flat_map _ t) with (poll_evs t). eapply IH; [exact H' | exact R | exact P].
  Qed.

  Ltac des S := repeat (dm S; try discriminate S).

  Ltac pcsolve HP :=
    unfold PcSc in *; cbn in *;
    repeat match goal with E : pc _ = _ |- _ => rewrite E in HP; clear E end; cbn in *;
    first [ exact HP | reflexivity | exact I | congruence | (destruct HP; reflexivity) | idtac ].

  Lemma step_PcSc : forall st l st', PcSc st -> step c st l = Some st' -> PcSc st'.
  Proof.
    intros st l st' HP S. destruct l; cbn in S.
    - des S; inv_some S; pcsolve HP.
    - des S; inv_some S; pcsolve HP.
    - des S; inv_some S; pcsolve HP.
    - des S; inv_some S; pcsolve HP.
    - des S; inv_some S; pcsolve HP.
    - des S; inv_some S; pcsolve HP.
    - des S; inv_some S; pcsolve HP.
    - destruct (pc st) eqn:Epc; try discriminate S. destruct (nth_error p i) as [s|]; [|discriminate S].
      destruct (negb (is_fin s (o st)) && negb (cur_running s (o st)) && can_run s (o st)); [|discriminate S].
      destruct ok; [unfold submit in S; des S|]; inv_some S; unfold PcSc; cbn; auto.
    - des S; inv_some S; pcsolve HP.
    - des S; inv_some S; pcsolve HP.
    - des S; inv_some S; pcsolve HP.
    - des S; inv_some S; pcsolve HP; destruct ok; cbn; auto.
    - des S; inv_some S; pcsolve HP.
    - des S; inv_some S; pcsolve HP.
    - des S; inv_some S; pcsolve HP.
    - des S; inv_some S; pcsolve HP.
    - des S; inv_some S; pcsolve HP.
    - des S; inv_some S; pcsolve HP.
    - des S; inv_some S; pcsolve HP.
    - des S; inv_some S; pcsolve HP.
    - des S; inv_some S; pcsolve HP.
    - des S; inv_some S; pcsolve HP.
    - des S; inv_some S; unfold PcSc; cbn; auto.
    - des S; inv_some S; pcsolve HP.
  Qed.

  Lemma proj_step_noev : forall st l acc, evs_of c st l = [] -> l <> OEndScan -> proj_step c st l acc = acc.
  Proof.
    intros st l [es late] E Hl. unfold proj_step. rewrite E. cbn. rewrite !app_nil_r. destruct l; try reflexivity. congruence.
  Qed.
  Lemma proj_step_evs : forall st l acc, l <> OEndScan -> proj_step c st l acc = acc_evs (sc st) acc (evs_of c st l).
  Proof. intros st l [es late] Hl. unfold proj_step, acc_evs. destruct l; try reflexivity. congruence. Qed.
  Lemma acc_evs_single : forall i acc e, acc_evs i acc [e] = acc1 i acc e.
  Proof. intros. rewrite acc_evs_cons, acc_evs_nil. reflexivity. Qed.

  Lemma step_RI : forall st l st' acc, SInv c st -> PcSc st -> RI (o st) (sc st) acc -> step c st l = Some st' ->
    RI (o st') (sc st') (proj_step c st l acc).
  Proof.
    intros st l st' acc H HP R S. unfold SInv in H. destruct l; cbn in S.
    - (* OHead *)
      rewrite proj_step_noev; [|reflexivity|discriminate].
      destruct (pc st) eqn:Epc; try discriminate S. unfold PcSc in HP. rewrite Epc in HP.
      destruct (head_src p (o st)) eqn:Eh; inv_some S; cbn; try exact R.
      rewrite HP in R. destruct R as [[Rl Ro] L]. split; [|rewrite Rl; intros y b []]. split.
      + rewrite <- (oeq_loop_head p _ _ Ro). rewrite <- (head_src_loop_head_inv c Hp _ _ _ _ H). exact Eh.
      + rewrite Rl. cbn. exact Ro.
    - (* OVisit *)
      rewrite proj_step_noev; [|reflexivity|discriminate]. unfold PcSc in HP.
      destruct (pc st) eqn:Epc; try discriminate S; destruct (nth_error p i) as [s|] eqn:En; try discriminate S;
        des S; inv_some S; cbn; rewrite HP in R; apply RI_visit; assumption.
    - (* OPoll *)
      rewrite proj_step_evs; [|discriminate]. cbn [evs_of]. change (flat_map _ taken) with (poll_evs taken).
      des S; inv_some S; cbn; eapply RI_poll; eauto.
    - (* OCollect *)
      rewrite proj_step_noev; [|reflexivity|discriminate]. unfold PcSc in HP.
      destruct (pc st) eqn:Epc; try discriminate S. destruct (nth_error p i) as [s|] eqn:En; [|discriminate S]. rewrite HP in R.
      des S; inv_some S; cbn; try (apply RI_visit; assumption). rewrite HP. exact R.
    - (* ORequeue *) rewrite proj_step_noev; [|reflexivity|discriminate]. des S; inv_some S; exact R.
    - (* OGot *) rewrite proj_step_noev; [|reflexivity|discriminate]. des S; inv_some S; exact R.
    - (* OTimeout *) rewrite proj_step_noev; [|reflexivity|discriminate]. des S; inv_some S; exact R.
    - (* OExec *)
      rewrite proj_step_noev; [|reflexivity|discriminate]. unfold PcSc in HP.
      destruct (pc st) eqn:Epc; try discriminate S. destruct (nth_error p i) as [s|] eqn:En; [|discriminate S]. rewrite HP in R.
      destruct (negb (is_fin s (o st)) && negb (cur_running s (o st)) && can_run s (o st)); [|discriminate S].
      destruct ok; [unfold submit in S; des S|]; inv_some S; cbn; apply RI_visit; assumption.
    - (* OEndScan *)
      unfold PcSc in HP. destruct (pc st) eqn:Epc; try discriminate S. destruct (nth_error p i) eqn:En; [discriminate S|]. rewrite HP in R.
      pose proof (RI_endscan _ _ _ R En) as R'. destruct acc as [es late]. unfold proj_step. cbn [fst snd] in R'.
      destruct (cstream c); inv_some S; cbn; exact R'.
    - (* OResume *) rewrite proj_step_noev; [|reflexivity|discriminate]. des S; inv_some S; exact R.
    - (* OAbandon *) rewrite proj_step_noev; [|reflexivity|discriminate]. des S; inv_some S; exact R.
    - (* OArtifacts *) rewrite proj_step_noev; [|reflexivity|discriminate]. des S; inv_some S; exact R.
    - (* OTerminate *) rewrite proj_step_noev; [|reflexivity|discriminate]. des S; inv_some S; exact R.
    - (* OJoin *) rewrite proj_step_noev; [|reflexivity|discriminate]. des S; inv_some S; exact R.
    - (* OClose *) rewrite proj_step_noev; [|reflexivity|discriminate]. des S; inv_some S; exact R.
    - (* ODropAll *) rewrite proj_step_noev; [|reflexivity|discriminate]. des S; inv_some S; exact R.
    - (* WTake *) rewrite proj_step_noev; [|reflexivity|discriminate]. des S; inv_some S; exact R.
    - (* WUpload *) rewrite proj_step_noev; [|reflexivity|discriminate]. des S; inv_some S; exact R.
    - (* WDone *)
      destruct (phase (ws st w)) eqn:Eph; try discriminate S. destruct (wfail c s); [discriminate S|].
      assert (Hpe : In s (pend (ws st w))) by (unfold pend; rewrite Eph; left; reflexivity).
      destruct (Inv_pend_fresh c _ _ _ _ H w s Hpe) as (G1 & G2 & G3).
      destruct (mp c) eqn:Em; inv_some S; cbn.
      + rewrite proj_step_noev; [exact R | cbn; rewrite Em; reflexivity | discriminate].
      + rewrite proj_step_evs; [|discriminate]. cbn [evs_of]. rewrite Em, Eph, acc_evs_single.
        rewrite <- (worker_done_add_done _ s G1 G2 G3). apply RI_event; assumption.
    - (* WFail *)
      destruct (phase (ws st w)) eqn:Eph; try discriminate S. destruct (wfail c s); [|discriminate S].
      destruct (crashpt_eqb c0 c1); [|discriminate S]. inv_some S. cbn.
      assert (Hpe : In s (pend (ws st w))) by (unfold pend; rewrite Eph; left; reflexivity).
      destruct (Inv_pend_fresh c _ _ _ _ H w s Hpe) as (G1 & G2 & G3).
      rewrite proj_step_evs; [|discriminate]. cbn [evs_of]. rewrite Eph, acc_evs_single.
      rewrite <- (worker_done_add_failed _ s G1 G2 G3). apply RI_event; assumption.
    - (* WDropAck *) rewrite proj_step_noev; [|reflexivity|discriminate]. des S; inv_some S; exact R.
    - (* WDropCrash *) rewrite proj_step_noev; [|reflexivity|discriminate]. des S; inv_some S; exact R.
    - (* OSendFail *)
      rewrite proj_step_noev; [|reflexivity|discriminate]. unfold PcSc in HP.
      destruct (pc st) eqn:Epc; try discriminate S. destruct (nth_error p i) as [s|] eqn:En; [|discriminate S]. rewrite HP in R.
      des S; inv_some S; cbn; apply RI_visit; assumption.
    - (* ONext *) rewrite proj_step_noev; [|reflexivity|discriminate]. des S; inv_some S; exact R.
  Qed.

  Lemma G_init : G pinit ([], []).
  Proof.
    split; [unfold SInv, pinit; cbn; apply Inv_init|]. split; [reflexivity|]. unfold RI, pinit; cbn.
    split; [split; [reflexivity | apply oeq_refl] | intros y b []].
  Qed.

  Lemma exec_G : forall tr st0 acc0 st, G st0 acc0 -> exec c st0 tr = Some st -> G st (proj c st0 tr acc0).
  Proof.
    induction tr as [|l tr IH]; intros st0 acc0 st H0 E; cbn in *; [inversion E; subst; exact H0|].
    destruct (step c st0 l) as [st1|] eqn:S; [|discriminate]. apply IH; [|exact E].
    destruct H0 as (H & HP & R). split; [eapply step_SInv; eauto|]. split; [eapply step_PcSc; eauto | eapply step_RI; eauto].
  Qed.

  (* (3) refinement *)
  Lemma refinement_l : forall tr st, exec c pinit tr = Some st -> refines c st (proj c pinit tr ([], [])).
  Proof.
    intros tr st E. destruct (exec_G tr pinit ([], []) st G_init E) as (_ & _ & [R _]).
    unfold refines. unfold RI in R. destruct (sc st); exact R.
  Qed.

  (* the outcome of a run that leaves the loop at its head is the loop-head status of the projected Orch.v run *)
  Lemma refinement_outcome_l : forall tr st x s, exec c pinit tr = Some st -> xk (pc st) = Some x -> status_of x = Some s ->
    sc st = None /\ oeq (o st) (runp (fst (proj c pinit tr ([], [])))) /\ loop_head p (runp (fst (proj c pinit tr ([], [])))) = s.
  Proof.
    intros tr st x s E Ex Es. destruct (exec_G tr pinit ([], []) st G_init E) as (H & HP & [R _]).
    assert (R0 : reach c st) by (exists tr; exact E).
    pose proof (reach_XInv c Hp st R0) as [X1 X2].
    assert (Esc : sc st = None).
    { unfold PcSc in HP. destruct (pc st); cbn in Ex; try discriminate Ex; inversion Ex; subst x; destruct x0; cbn in Es; try discriminate Es; exact HP. }
    rewrite Esc in R. destruct R as [_ Ro]. split; [exact Esc|]. split; [exact Ro|].
    rewrite <- (oeq_loop_head p _ _ Ro). unfold loop_head. destruct x; cbn in Es; inversion Es; subst s.
    - destruct (X1 Ex) as (Ef & Hfin & Hall). rewrite Ef. destruct (finished (o st)) eqn:Efin; [congruence|].
      apply subset_incl in Hall. rewrite Hall. reflexivity.
    - pose proof (X2 Ex) as Hf. destruct (failed (o st)); [congruence | reflexivity].
  Qed.
End Ref.
