(* A failure that lands in the middle of a pass of the orchestrator's loop is indistinguishable from one that lands at the end
   of that pass: the visits of the for loop neither read nor write the error register, and a failed worker never sets
   step_is_done.  Hence traces with mid-pass failures add no behaviour to Model/Orch.v's traces, and every invariant of
   Proofs/OrchP.v transfers to them. *)
From Coq Require Import List Bool Arith.
Import ListNotations.
Require Import MV.Model.Orch MV.Model.OrchCheck MV.Model.OrchMid MV.Proofs.OrchP.

Section Mid.
  Variables (stream : bool) (fails : nat -> bool) (p : plan).
  Notation visit := (visit false fails).

  Lemma started_ids_visit_mono : forall st x s, mem s (started_ids st) = true -> mem s (started_ids (visit st x)) = true.
  Proof.
    intros st x s H. unfold Orch.visit.
    destruct (subset (uuids x) (finished st)); [exact H|].
    destruct (cur_running x st); [destruct (mem (sid x) (done st)); exact H|].
    destruct (subset (req x) (finished st) && disjoint (uuids x) (running st)); [|exact H].
    unfold started_ids, mem in *. cbn. rewrite H. apply orb_true_r.
  Qed.

  Lemma started_ids_fold_mono : forall l st s, mem s (started_ids st) = true -> mem s (started_ids (fold_left visit l st)) = true.
  Proof. induction l as [|x l IH]; intros st s H; [exact H|]. cbn. apply IH, started_ids_visit_mono, H. Qed.

  (* one visit commutes with a failure of an already started step *)
  Definition setf (st : ost) (s : nat) : ost :=
    {| finished := finished st; running := running st; started := started st; done := done st; failed := s :: failed st;
       results := results st; yielded := yielded st; scans := scans st |}.

  Lemma visit_done_failed : forall st x, done (visit st x) = done st /\ failed (visit st x) = failed st.
  Proof.
    intros st x. unfold Orch.visit.
    destruct (subset (uuids x) (finished st)); [split; reflexivity|].
    destruct (cur_running x st); [destruct (mem (sid x) (done st)); split; reflexivity|].
    destruct (subset (req x) (finished st) && disjoint (uuids x) (running st)); split; reflexivity.
  Qed.

  Lemma visit_setf : forall st x s, visit (setf st s) x = setf (visit st x) s.
  Proof.
    intros st x s. unfold Orch.visit, cur_running, setf. cbn [finished running started done failed results yielded scans].
    destruct (subset (uuids x) (finished st)); [reflexivity|].
    destruct (match uuids x with [] => false | u :: _ => mem u (running st) end);
      [destruct (mem (sid x) (done st)); reflexivity|].
    destruct (subset (req x) (finished st) && disjoint (uuids x) (running st)); reflexivity.
  Qed.

  Lemma wd_false_setf : forall st s, worker_done st s false =
    if mem s (started_ids st) && negb (mem s (done st)) && negb (mem s (failed st)) then setf st s else st.
  Proof. intros. unfold worker_done, setf. destruct (_ && _ && _); reflexivity. Qed.

  Lemma visit_fail_comm : forall st x s, mem s (started_ids st) = true ->
    visit (worker_done st s false) x = worker_done (visit st x) s false.
  Proof.
    intros st x s H. pose proof (started_ids_visit_mono st x s H) as H'.
    destruct (visit_done_failed st x) as [Hd Hf].
    rewrite !wd_false_setf, H, H', Hd, Hf.
    destruct (true && negb (mem s (done st)) && negb (mem s (failed st))); [apply visit_setf | reflexivity].
  Qed.

  Lemma fold_fail_comm : forall l st s, mem s (started_ids st) = true ->
    fold_left visit l (worker_done st s false) = worker_done (fold_left visit l st) s false.
  Proof.
    induction l as [|x l IH]; intros st s H; [reflexivity|]. cbn.
    rewrite visit_fail_comm by exact H. apply IH, started_ids_visit_mono, H.
  Qed.

  Lemma bump_wd : forall st s ok, bump (worker_done st s ok) = worker_done (bump st) s ok.
  Proof. intros. unfold worker_done, bump, started_ids. cbn. destruct (_ && _ && _); reflexivity. Qed.
  Lemma drain_wd : forall st s ok, drain (worker_done st s ok) = worker_done (drain st) s ok.
  Proof. intros. unfold worker_done, drain, started_ids. cbn. destruct (_ && _ && _); reflexivity. Qed.

  Lemma fold_firstn_skipn : forall k st, fold_left visit (skipn k p) (fold_left visit (firstn k p) st) = fold_left visit p st.
  Proof. intros. rewrite <- fold_left_app, firstn_skipn. reflexivity. Qed.

  (* THE commutation: a pass interrupted after k visits by the failure of a started step = the whole pass, then the failure *)
  Theorem midpass_failure_commutes_l : forall k s st,
    mem s (started_ids (mid_state fails p k st)) = true ->
    scan_mid stream fails p k s false st = worker_done (scan stream false fails p st) s false.
  Proof.
    intros k s st H. unfold scan_mid, scan, mid_state in *. destruct (loop_head p st); try reflexivity.
    rewrite fold_fail_comm by exact H. rewrite fold_firstn_skipn, bump_wd.
    destruct stream; [apply drain_wd | reflexivity].
  Qed.

  (* in particular no step is started, finished or collected because of it *)
  Lemma wd_false_fields : forall st s, started (worker_done st s false) = started st /\ finished (worker_done st s false) = finished st
    /\ done (worker_done st s false) = done st /\ results (worker_done st s false) = results st /\ running (worker_done st s false) = running st.
  Proof. intros. unfold worker_done. destruct (_ && _ && _); cbn; repeat split. Qed.

  Theorem midpass_failure_starts_nothing_l : forall k s st,
    mem s (started_ids (mid_state fails p k st)) = true ->
    let a := scan_mid stream fails p k s false st in let b := scan stream false fails p st in
    started a = started b /\ finished a = finished b /\ done a = done b /\ results a = results b.
  Proof.
    intros k s st H. cbn zeta. rewrite midpass_failure_commutes_l by exact H.
    destruct (wd_false_fields (scan stream false fails p st) s) as (? & ? & ? & ? & ?). repeat split; assumption.
  Qed.

  (* every trace with mid-pass failures is a trace of Model/Orch.v *)
  Lemma frun_coarse : forall es st, fvalid stream fails p es st = true ->
    frun stream fails p es st = fold_left (apply stream false fails p) (coarsen es) st.
  Proof.
    induction es as [|e es IH]; intros st H; [reflexivity|]. cbn in H. apply andb_true_iff in H. destruct H as [He Ht].
    unfold frun, coarsen in *. cbn [fold_left flat_map]. rewrite fold_left_app. rewrite IH by exact Ht. f_equal.
    destruct e as [|s ok|k s]; cbn; try reflexivity. apply midpass_failure_commutes_l, He.
  Qed.

  Theorem fine_trace_coarse_l : forall es, fvalid stream fails p es init = true ->
    frun stream fails p es init = run stream false fails p (coarsen es).
  Proof. intros es H. unfold run. apply frun_coarse, H. Qed.

  (* hence the order property for every trace with mid-pass failures *)
  Theorem fine_start_requires_l : forall es e, fvalid stream fails p es init = true ->
    In e (started (frun stream fails p es init)) -> start_ok p e.
  Proof. intros es e H. rewrite fine_trace_coarse_l by exact H. apply start_requires_l. Qed.

  Theorem fine_finished_sound_l : forall es u, fvalid stream fails p es init = true ->
    In u (finished (frun stream fails p es init)) ->
    exists s', In s' p /\ In u (uuids s') /\ In (sid s') (done (frun stream fails p es init)).
  Proof. intros es u H. rewrite fine_trace_coarse_l by exact H. apply finished_sound_l. Qed.
End Mid.

(* the contrast: if a failing worker ALSO reported completion (done and failed both set: what a `finally: step_is_done = True`
   in thread_worker would do), a dependent step is started in the same pass although its input never finished *)
Definition worker_fail_and_done (st : ost) (s : nat) : ost :=
  let st1 := worker_done st s false in
  {| finished := finished st1; running := running st1; started := started st1; done := s :: done st1; failed := failed st1;
     results := results st1; yielded := yielded st1; scans := scans st1 |}.

Definition two_chain : plan :=
  [ {| sid := 0; skind := KFG; uuids := [1]; req := []; requested := false |};
    {| sid := 1; skind := KFG; uuids := [2]; req := [1]; requested := true |} ].

Lemma fail_and_done_starts_dependent :
  let st0 := scan false false (fun _ => false) two_chain init in
  let mid := fold_left (visit false (fun _ => false)) (firstn 0 two_chain) st0 in
  let bad := fold_left (visit false (fun _ => false)) (skipn 0 two_chain) (worker_fail_and_done mid 0) in
  started_ids bad = [1; 0] /\ failed bad = [0] /\
  started_ids (scan_mid false (fun _ => false) two_chain 0 0 false st0) = [0].
Proof. vm_compute. repeat split. Qed.

(* ---- meaning of the history checker ---- *)
Lemma replay_rounds_m_frun : forall p rounds st st',
  replay_rounds_m p st rounds = Some st' ->
  (forall b r k, In (b, r, true, Some k) rounds -> False) ->
  st' = frun false (fun _ => false) p (rounds_events rounds) st.
Proof.
  intros p rounds. induction rounds as [|[[[b rel] ok] mk] t IH]; intros st st' H Hno; cbn in H.
  - inversion H. reflexivity.
  - destruct (set_eqb _ _ && mem rel b); [|discriminate].
    unfold rounds_events, frun in *. cbn [flat_map]. rewrite fold_left_app.
    rewrite (IH _ _ H) by (intros b' r' k' Hin; eapply Hno; right; exact Hin). f_equal.
    destruct mk as [k|]; cbn; [|reflexivity].
    destruct ok; [exfalso; eapply Hno; left; reflexivity | reflexivity].
Qed.

Theorem chk_gated_m_sound_l : forall p rounds o begins,
  chk_gated_m (p, (rounds, o, begins)) = true ->
  forall s, In s begins -> exists e, fst e = s /\ start_ok p e.
Proof.
  intros p rounds o begins H s Hs. unfold chk_gated_m in H.
  apply andb_true_iff in H. destruct H as [H H3]. apply andb_true_iff in H. destruct H as [H1 H2].
  destruct (replay_rounds_m p init rounds) as [st|] eqn:E; [|discriminate].
  assert (Hno : forall b r k, In (b, r, true, Some k) rounds -> False).
  { intros b r k Hin. unfold mid_fail_only in H1. rewrite forallb_forall in H1. specialize (H1 _ Hin). discriminate. }
  pose proof (replay_rounds_m_frun p rounds init st E Hno) as ->.
  set (nf := fun _ : nat => false) in *.
  set (st2 := scan false false nf p (scan false false nf p (frun false nf p (rounds_events rounds) init))) in *.
  apply andb_true_iff in H3. destruct H3 as [H3 _].
  apply andb_true_iff in H3. destruct H3 as [H3 _]. apply andb_true_iff in H3. destruct H3 as [_ H3].
  unfold set_eqb in H3. apply andb_true_iff in H3. destruct H3 as [_ H3].
  apply subset_incl in H3. specialize (H3 s Hs). unfold started_ids in H3. apply in_map_iff in H3.
  destruct H3 as (e & He & Hin). exists e. split; [exact He|].
  assert (Hv : fvalid false nf p (rounds_events rounds ++ [FScan; FScan]) init = true).
  { clear - H2. revert H2. generalize init. induction (rounds_events rounds) as [|x l IH]; intros st0 H; [reflexivity|].
    cbn in *. apply andb_true_iff in H. destruct H as [Ha Hb]. rewrite Ha. cbn. apply IH, Hb. }
  apply (fine_start_requires_l false nf p (rounds_events rounds ++ [FScan; FScan]) e Hv).
  unfold frun in *. rewrite fold_left_app. exact Hin.
Qed.
