(* Request-level composition for Model/PlannerO.v: decidable hypotheses are sound; every request of the fragment is decided
   (planned, cycle error, or one of the graph-stage errors); every accepted request terminates with every feature instance
   computed after its ancestors; an example request. *)
From Coq Require Import List Bool Arith Lia Permutation String ZArith.
Import ListNotations.
Require Import MV.Model.Orch MV.Model.OrchCheck MV.Model.Options MV.Model.Identity MV.Model.Grouping MV.Model.PlannerA MV.Model.PlannerO.
Require Import MV.Spec.OptionsSpec MV.Spec.GroupingSpec MV.Spec.PlannerASpec MV.Spec.PlannerOSpec.
Require Import MV.Proofs.OrchP MV.Proofs.OrchTermP MV.Proofs.PlannerASets MV.Proofs.PlannerAGraph MV.Proofs.PlanSimP MV.Proofs.PlannerAP.
Require Import MV.Proofs.PlannerOGroup MV.Proofs.PlannerOP MV.Proofs.PlannerODet MV.Proofs.PlannerOLabel MV.Proofs.PlannerOReq.
Open Scope string_scope.
Open Scope list_scope.
Open Scope nat_scope.

(* ---------- decidable hypotheses ---------- *)
Lemma nodup_str_sound : forall l, nodup_str l = true -> NoDup l.
Proof.
  intros l. induction l as [|x t IH]; intros H; [constructor|]. cbn in H. apply andb_true_iff in H. destruct H as [H1 H2].
  constructor; [|exact (IH H2)]. intros Hin. apply negb_true_iff in H1.
  assert (X : existsb (String.eqb x) t = true) by (apply existsb_exists; exists x; split; [exact Hin | apply String.eqb_refl]). congruence.
Qed.

Lemma spos_lt : forall x l a, spos x l = Some a -> a < List.length l.
Proof.
  intros x l. induction l as [|y t IH]; intros a H; cbn in H; [discriminate|].
  destruct (String.eqb x y); [injection H as H; subst a; cbn; lia|].
  destruct (spos x t) as [b|] eqn:E; [|discriminate]. cbn in H. injection H as H. subst a. specialize (IH b eq_refl). cbn. lia.
Qed.

Theorem odefs_okb_sound : forall defs rq, odefs_okb defs rq = true -> odefs_ok defs rq.
Proof.
  intros defs rq H. unfold odefs_okb in H. repeat (apply andb_true_iff in H; destruct H as [H ?]).
  rename H into A1, H3 into A2, H2 into A3, H1 into A4, H0 into A5.
  rewrite forallb_forall in A2, A3, A4, A5.
  split; [exact (nodup_str_sound _ A1)|]. split; [intros d Hd; exact (nodup_str_sound _ (A2 d Hd))|]. split; [|split].
  - intros d i Hd Hi. specialize (A3 d Hd). rewrite forallb_forall in A3. specialize (A3 i Hi). unfold defined in A3.
    destruct (odef_of defs (oi_name i)) as [d'|]; [exists d'; reflexivity | discriminate].
  - intros r Hr. specialize (A4 r Hr). unfold defined in A4. destruct (odef_of defs (rq_name r)) as [d|]; [exists d; reflexivity | discriminate].
  - exists (fun x => match spos x (map od_name defs) with Some a => a | None => 0 end). split.
    + intros d Hd. destruct (spos (od_name d) (map od_name defs)) as [a|] eqn:E.
      * pose proof (spos_lt _ _ _ E) as X. rewrite map_length in X. exact X.
      * destruct defs; [destruct Hd | cbn; lia].
    + intros d i Hd Hi. specialize (A5 d Hd). rewrite forallb_forall in A5. specialize (A5 i Hi).
      destruct (spos (oi_name i) (map od_name defs)) as [a|]; [|discriminate].
      destruct (spos (od_name d) (map od_name defs)) as [b|]; [|discriminate]. apply Nat.ltb_lt. exact A5.
Qed.

Theorem decl_okb_sound : forall defs rq, decl_okb defs rq = true -> decl_ok defs rq.
Proof.
  intros defs rq H. unfold decl_okb in H. apply andb_true_iff in H. destruct H as [H1 H2]. rewrite forallb_forall in H1, H2. split.
  - intros d i Hd Hi. specialize (H1 d Hd). rewrite forallb_forall in H1. exact (H1 i Hi).
  - exact H2.
Qed.

Theorem one_cfwb_sound : forall defs, one_cfwb defs = true -> one_cfw defs.
Proof.
  intros defs H d e Hd He. destruct defs as [|d0 t]; [destruct Hd|]. cbn [one_cfwb] in H. rewrite forallb_forall in H.
  pose proof (H d Hd) as X. pose proof (H e He) as Y. apply Nat.eqb_eq in X, Y. congruence.
Qed.

(* ---------- every request is decided ---------- *)
Theorem requests_decided_O : forall iord ord defs rq, iord_ok iord -> ord_ok ord -> decl_ok defs rq -> odefs_ok defs rq -> one_cfw defs ->
  (exists g, request_graph_O iord defs rq = inl g /\ graph_ok (base g) /\ strict (base g) /\
             (prepare_request iord ord defs rq = OPlanned (plan_O ord g) \/ prepare_request iord ord defs rq = ORejected 2)) \/
  (exists e, request_graph_O iord defs rq = inr e /\ prepare_request iord ord defs rq = ORejected e /\ (e = 3 \/ e = 4 \/ e = 5 \/ e = 6)).
Proof.
  intros iord ord defs rq Hiord Hord Hdecl Hdefs H1. unfold prepare_request.
  destruct (request_graph_O iord defs rq) as [g|e] eqn:E.
  - left. exists g. split; [reflexivity|]. destruct (request_graph_ok_O iord defs rq g Hiord Hdecl Hdefs H1 E) as [Hok Hs].
    split; [exact Hok|]. split; [exact Hs|].
    destruct (prepare_total_O ord g Hord Hok Hs) as [A|A]; rewrite A; [left | right]; reflexivity.
  - right. exists e. split; [reflexivity|]. split; [reflexivity|].
    unfold request_graph_O, request_xgraph in E. destruct (collect iord defs rq) as [st|e'] eqn:Ec; [discriminate|]. injection E as E. subst e'.
    destruct (collect_error_cases iord defs rq e Hiord Hdefs Ec) as [[A _]|[[A|[A|A]] _]]; tauto.
Qed.

Lemma request_graph_nonempty : forall iord defs rq g, iord_ok iord -> decl_ok defs rq -> rq <> [] ->
  request_graph_O iord defs rq = inl g -> g <> [].
Proof.
  intros iord defs rq g Hiord Hdecl Hne H Eg. subst g.
  unfold request_graph_O, request_xgraph in H. destruct (collect iord defs rq) as [st|e] eqn:Ec; [|discriminate]. injection H as H.
  destruct (collect_spec iord defs rq st Hiord Hdecl Ec) as (_ & _ & _ & _ & Hreq & _).
  destruct rq as [|r t]; [congruence|]. destruct (Hreq (req_feat defs r) (or_introl eq_refl)) as [x [Hx _]].
  assert (L : List.length (label_graph (xgraph_of st)) = 0) by (rewrite H; reflexivity).
  unfold label_graph in L. rewrite mapi_from_length in L. unfold xgraph_of in L. rewrite map_length in L. destruct st; [destruct Hx | discriminate].
Qed.

(* EVERY accepted request: the plan is well formed, the SYNC run exits normally within 2n+1 iterations, and whenever a step
   starts (any back end, failure oracle, event trace) all ancestors of its feature instances are finished *)
Theorem requests_terminate_O : forall iord ord defs rq g p, iord_ok iord -> ord_ok ord -> decl_ok defs rq -> odefs_ok defs rq -> one_cfw defs ->
  rq <> [] -> request_graph_O iord defs rq = inl g -> prepare_O ord g = Planned p ->
  p = plan_O ord g /\
  (exists order, wf_plan order p = true) /\
  (forall stream, exists n, n <= 2 * List.length p + 1 /\
     loop_head p (run stream true (fun _ => false) p (repeat EScan n)) = ExitNormal) /\
  (forall stream inline fails es i fs ds,
     In (i, (fs, ds)) (started (run stream inline fails p es)) ->
     exists s, In s p /\ sid s = i /\
       forall f a, In f (uuids s) -> anc (base g) a f ->
         In a fs /\ exists s', In s' p /\ In a (uuids s') /\ In (sid s') ds).
Proof.
  intros iord ord defs rq g p Hiord Hord Hdecl Hdefs H1 Hne Hg Hp.
  destruct (request_graph_ok_O iord defs rq g Hiord Hdecl Hdefs H1 Hg) as [Hok Hs].
  destruct (prepare_planned_inv_O ord g Hord Hok Hs p Hp) as [E Hwf]. split; [exact E|]. split; [exists (sim_order p); exact Hwf|]. split.
  - exact (graph_terminates_O ord g p Hord Hok Hs (request_graph_nonempty iord defs rq g Hiord Hdecl Hne Hg) Hp).
  - subst p. exact (features_after_ancestors_O ord g Hord Hok).
Qed.

(* ---------- an example request ----------
   root column a; group D1 = {base <- a}; D2 = {p <- base}, D3 = {t <- base}; D4 = {top <- p{k2: 5}, t};
   requested: top{k1: 2}, top{k1: 3}, t{k1: 2}  (the diamond of harness/planner_o.py) *)
Definition o_of (g : list (pykey * pyval)) : ostate := {| og := g; oc := []; opk := [] |}.
Definition ex_in (nm : string) (g : list (pykey * pyval)) : oin := {| oi_name := nm; oi_opt := o_of g; oi_ty := None |}.
Definition exO_defs : list odef :=
  [ {| od_name := "a"; od_grp := 1; od_cfw := 1; od_ins := [] |};
    {| od_name := "base"; od_grp := 2; od_cfw := 1; od_ins := [ex_in "a" []] |};
    {| od_name := "p"; od_grp := 3; od_cfw := 1; od_ins := [ex_in "base" []] |};
    {| od_name := "t"; od_grp := 4; od_cfw := 1; od_ins := [ex_in "base" []] |};
    {| od_name := "top"; od_grp := 5; od_cfw := 1; od_ins := [ex_in "p" [(KStr "k2", VInt 5%Z)]; ex_in "t" []] |} ].
Definition exO_rq : list oreq :=
  [ {| rq_name := "top"; rq_opt := o_of [(KStr "k1", VInt 2%Z)]; rq_ty := None |};
    {| rq_name := "top"; rq_opt := o_of [(KStr "k1", VInt 3%Z)]; rq_ty := None |};
    {| rq_name := "t"; rq_opt := o_of [(KStr "k1", VInt 2%Z)]; rq_ty := None |} ].

Lemma exO_hyps : odefs_ok exO_defs exO_rq /\ decl_ok exO_defs exO_rq /\ one_cfw exO_defs /\ iord_ok iord_id.
Proof.
  split; [apply odefs_okb_sound; vm_compute; reflexivity|]. split; [apply decl_okb_sound; vm_compute; reflexivity|].
  split; [apply one_cfwb_sound; vm_compute; reflexivity | intros k l; apply Permutation_refl].
Qed.

(* 15 nodes in creation order: 0 top{k1:2}, 1 p{k2:5,k1:2}, 2 base{k2:5,k1:2}, 3 a{k2:5,k1:2}, 4 t{k1:2}, 5 base{k1:2}, 6 a{k1:2};
   7..13 the same under k1:3; 14 the REQUESTED t{k1:2} (child_options None), whose input base{k1:2} is the stored node 5.
   14 steps: every (name, group options) instance has its own step, except that the two t{k1:2} nodes share one. *)
Lemma exO_plan_l :
  match request_graph_O iord_id exO_defs exO_rq with
  | inl g => List.length g = 15 /\ kf_ambiguous_O g = false /\
             map uuids (plan_O ord_id g) = [[3]; [6]; [10]; [13]; [2]; [5]; [9]; [12]; [1]; [8]; [0]; [7]; [4; 14]; [11]] /\
             map fins (base g) = [[1; 4]; [2]; [3]; []; [5]; [6]; []; [8; 11]; [9]; [10]; []; [12]; [13]; []; [5]] /\
             (exists p, prepare_O ord_id g = Planned p) /\ req_covers (plan_O ord_id g) (adj_of (base g)) = true
  | inr _ => False
  end.
Proof. vm_compute. repeat split; try reflexivity. eexists; reflexivity. Qed.

(* a conflicting value on an input edge is rejected; a protected key is not *)
Definition exO_defs_conflict : list odef :=
  [ {| od_name := "a"; od_grp := 1; od_cfw := 1; od_ins := [] |};
    {| od_name := "f1"; od_grp := 2; od_cfw := 1; od_ins := [ex_in "a" [(KStr "k1", VInt 2%Z)]] |} ].
Definition exO_defs_protected : list odef :=
  [ {| od_name := "a"; od_grp := 1; od_cfw := 1; od_ins := [] |};
    {| od_name := "f1"; od_grp := 2; od_cfw := 1;
       od_ins := [ex_in "a" [(KStr "k1", VInt 2%Z); (KStr "feature_chainer_parser_key", VTuple [VStr "k1"])]] |} ].
Definition exO_rq1 : list oreq := [ {| rq_name := "f1"; rq_opt := o_of [(KStr "k1", VInt 1%Z)]; rq_ty := None |} ].
Lemma exO_conflict_l :
  code_of (prepare_request iord_id ord_id exO_defs_conflict exO_rq1) = 3 /\
  code_of (prepare_request iord_id ord_id exO_defs_protected exO_rq1) = 0.
Proof. vm_compute. split; reflexivity. Qed.

(* two declared inputs fail in different ways (a: conflicting value, code 3; b: the consumer's group key is a context key of the
   input, code 4): the error that is reported is that of the input which the set input_features() yields first *)
Definition exO_defs_two : list odef :=
  [ {| od_name := "a"; od_grp := 1; od_cfw := 1; od_ins := [] |};
    {| od_name := "b"; od_grp := 1; od_cfw := 1; od_ins := [] |};
    {| od_name := "f1"; od_grp := 2; od_cfw := 1;
       od_ins := [ex_in "a" [(KStr "k1", VInt 2%Z)];
                  {| oi_name := "b"; oi_opt := {| og := []; oc := [(KStr "k1", VInt 1%Z)]; opk := [] |}; oi_ty := None |}] |} ].
Definition iord_rev : nat -> list oin -> list oin := fun _ l => rev l.
Lemma exO_two_errors_l :
  odefs_ok exO_defs_two exO_rq1 /\ decl_ok exO_defs_two exO_rq1 /\ one_cfw exO_defs_two /\ iord_ok iord_id /\ iord_ok iord_rev /\
  collect iord_id exO_defs_two exO_rq1 = inr 3 /\ collect iord_rev exO_defs_two exO_rq1 = inr 4.
Proof.
  split; [apply odefs_okb_sound; vm_compute; reflexivity|]. split; [apply decl_okb_sound; vm_compute; reflexivity|].
  split; [apply one_cfwb_sound; vm_compute; reflexivity|]. split; [intros k l; apply Permutation_refl|].
  split; [intros k l; apply Permutation_sym; apply Permutation_rev|]. split; vm_compute; reflexivity.
Qed.
