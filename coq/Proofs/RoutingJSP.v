(* Proofs about Model/RoutingJS.v: when every JoinStep has its own transform step (own_okb), the object a JoinStep merges is the
   one its own transform step created - never merged before, holding the table of the source that step converted - for any
   number of joins (sharing sources or not) and every begin order; the de-duplication of transform steps by their identity. *)
From Coq Require Import List Bool ZArith Arith Lia.
Import ListNotations.
Require Import MV.Spec.RefEval MV.Model.DataPlane MV.Model.Routing MV.Spec.Rel MV.Model.RoutingJ MV.Model.RoutingJS
               MV.Proofs.RoutingP MV.Proofs.RoutingJP.
Open Scope nat_scope.
Open Scope list_scope.

(* ------------------------------------------------------------------------------------------------------------------ *)
(* lists                                                                                                              *)
(* ------------------------------------------------------------------------------------------------------------------ *)
Lemma rmem_In : forall x l, rmem x l = true <-> In x l.
Proof.
  intros x l; induction l as [|y t IH]; cbn [rmem In]; [split; [discriminate | tauto]|].
  rewrite orb_true_iff, IH, Nat.eqb_eq. split; intros [H | H]; auto.
Qed.

Lemma rmem_false : forall x l, rmem x l = false <-> ~ In x l.
Proof.
  intros x l; rewrite <- rmem_In. destruct (rmem x l); split; intros H; try reflexivity; try discriminate;
    try (intros H'; discriminate). exfalso; apply H; reflexivity.
Qed.

Lemma nodupb_NoDup : forall l, nodupb l = true -> NoDup l.
Proof.
  induction l as [|x r IH]; cbn [nodupb]; intros H; [constructor|].
  apply andb_true_iff in H; destruct H as [H1 H2]. apply negb_true_iff in H1. apply rmem_false in H1.
  constructor; [exact H1 | exact (IH H2)].
Qed.

Lemma disjointb_spec : forall a b, disjointb a b = true -> forall x, In x a -> ~ In x b.
Proof.
  intros a b H x Hx. unfold disjointb in H. rewrite forallb_forall in H. specialize (H x Hx).
  apply negb_true_iff in H. apply rmem_false in H. exact H.
Qed.

Lemma NoDup_app_disj : forall {A} (a b : list A), NoDup (a ++ b) -> forall x, In x a -> In x b -> False.
Proof.
  intros A a; induction a as [|y t IH]; intros b Hnd x Ha Hb; [destruct Ha|].
  cbn [app] in Hnd. inversion Hnd as [|? ? Hn Hr]; subst. destruct Ha as [E | Ha].
  - subst y. apply Hn. apply in_or_app; right; exact Hb.
  - exact (IH b Hr x Ha Hb).
Qed.

Lemma NoDup_app_r : forall {A} (a b : list A), NoDup (a ++ b) -> NoDup b.
Proof. intros A a; induction a as [|y t IH]; intros b H; [exact H|]. cbn [app] in H; inversion H; subst; apply IH; assumption. Qed.

(* the elements of a flat_map without duplicates come from one place *)
Lemma NoDup_flat_map_inj : forall {A B} (f : A -> list B) (l : list A) x y z,
  NoDup (flat_map f l) -> In x l -> In y l -> In z (f x) -> In z (f y) -> x = y.
Proof.
  intros A B f l; induction l as [|a r IH]; intros x y z Hnd Hx Hy Hzx Hzy; [destruct Hx|].
  cbn [flat_map] in Hnd.
  assert (Hr : forall w, In w r -> In z (f w) -> In z (flat_map f r)) by (intros w Hw Hz; apply in_flat_map; exists w; split; assumption).
  destruct Hx as [Ex | Hx], Hy as [Ey | Hy].
  - subst; reflexivity.
  - subst a. exfalso. exact (NoDup_app_disj _ _ Hnd z Hzx (Hr y Hy Hzy)).
  - subst a. exfalso. exact (NoDup_app_disj _ _ Hnd z Hzy (Hr x Hx Hzx)).
  - exact (IH x y z (NoDup_app_r _ _ Hnd) Hx Hy Hzx Hzy).
Qed.

Lemma NoDup_map_inj : forall {A} (f : A -> nat) (l : list A) x y,
  NoDup (map f l) -> In x l -> In y l -> f x = f y -> x = y.
Proof.
  intros A f l; induction l as [|a r IH]; intros x y Hnd Hx Hy E; [destruct Hx|].
  cbn [map] in Hnd; inversion Hnd as [|? ? Hn Hr]; subst.
  destruct Hx as [Ex | Hx], Hy as [Ey | Hy].
  - subst; reflexivity.
  - subst a. exfalso; apply Hn. rewrite E. apply in_map; exact Hy.
  - subst a. exfalso; apply Hn. rewrite <- E. apply in_map; exact Hx.
  - exact (IH x y Hr Hx Hy E).
Qed.

Lemma NoDup_app_fresh : forall {A} (f : A -> nat) pre x post, NoDup (map f (pre ++ x :: post)) -> ~ In (f x) (map f pre).
Proof.
  intros A f pre x post H Hin. rewrite map_app in H. cbn [map] in H.
  apply (NoDup_app_disj _ _ H (f x) Hin). left; reflexivity.
Qed.

(* ------------------------------------------------------------------------------------------------------------------ *)
(* steps by kind                                                                                                      *)
(* ------------------------------------------------------------------------------------------------------------------ *)
Lemma in_tfs_list : forall steps st, In st (tfs_list steps) <-> exists tab, In (XB st tab) steps /\ rs_kind st = RTFS.
Proof.
  intros steps st; unfold tfs_list; rewrite in_flat_map; split.
  - intros (x & Hx & Hin). destruct x as [st' tab | j]; [|destruct Hin].
    destruct (rs_kind st') eqn:K; [destruct Hin|]. destruct Hin as [E | []]; subst st'. exists tab; split; assumption.
  - intros (tab & Hin & K). exists (XB st tab); split; [exact Hin|]. rewrite K; left; reflexivity.
Qed.

Lemma in_fg_list : forall steps g tab, In (g, tab) (fg_list steps) <-> In (XB g tab) steps /\ rs_kind g = RFG.
Proof.
  intros steps g tab; unfold fg_list; rewrite in_flat_map; split.
  - intros (x & Hx & Hin). destruct x as [st' tab' | j]; [|destruct Hin].
    destruct (rs_kind st') eqn:K; [|destruct Hin]. destruct Hin as [E | []]; inversion E; subst. split; assumption.
  - intros (Hin & K). exists (XB g tab); split; [exact Hin|]. rewrite K; left; reflexivity.
Qed.

Lemma in_join_list : forall steps j, In j (join_list steps) <-> In (XJ j) steps.
Proof.
  intros steps j; unfold join_list; rewrite in_flat_map; split.
  - intros (x & Hx & Hin). destruct x as [st' tab' | j']; [destruct Hin|]. destruct Hin as [E | []]; subst; exact Hx.
  - intros Hin. exists (XJ j); split; [exact Hin | left; reflexivity].
Qed.

Lemma in_link_of : forall st l, In l (link_of st) <-> rs_link st = Some l.
Proof.
  intros st l; unfold link_of; destruct (rs_link st) as [l'|]; cbn [In]; split; intros H.
  - destruct H as [E | []]; subst; reflexivity.
  - inversion H; left; reflexivity.
  - destruct H.
  - discriminate.
Qed.

Lemma in_tlinks : forall steps l, In l (tlinks steps) <-> exists st, In st (tfs_list steps) /\ rs_link st = Some l.
Proof.
  intros steps l; unfold tlinks; rewrite in_flat_map. split; intros (st & H1 & H2); exists st; (split; [exact H1|]); apply in_link_of; exact H2.
Qed.

Lemma tfs_list_app : forall a b, tfs_list (a ++ b) = tfs_list a ++ tfs_list b.
Proof. intros a b; unfold tfs_list; apply flat_map_app. Qed.

Lemma has_link_spec : forall st l, has_link st l = true <-> rs_link st = Some l.
Proof.
  intros st l; unfold has_link; destruct (rs_link st) as [l'|]; split; intros H; try discriminate.
  - apply Nat.eqb_eq in H; subst; reflexivity.
  - inversion H; apply Nat.eqb_refl.
Qed.

(* ------------------------------------------------------------------------------------------------------------------ *)
(* the premises as propositions                                                                                       *)
(* ------------------------------------------------------------------------------------------------------------------ *)
Record OwnOK (S : list xstep) : Prop := {
  ok_nodup : NoDup (map xsid S);
  ok_private : forall g tab l, In (g, tab) (fg_list S) -> In l (tlinks S) -> ~ In l (rs_cir g);
  ok_own : forall pre j post, S = pre ++ XJ j :: post ->
           exists st, In st (tfs_list pre) /\ rs_link st = Some (j_link j) /\ rs_cls st = j_cls j;
  ok_tl : NoDup (tlinks S);
  ok_jl : NoDup (map j_link (join_list S));
  ok_cls : forall c, In c (from_classes S) -> ~ In c (to_classes S);
  ok_writer : forall g T, In (g, Some T) (fg_list S) ->
              rs_tfs g = [] /\ ~ In (rs_any g) (tlinks S) /\
              forall g' tab', In (g', tab') (fg_list S) -> rs_sid g' <> rs_sid g -> ~ In (rs_any g) (rs_cir g');
  ok_left : forall j lu, In j (join_list S) -> hd_error (j_left j) = Some lu ->
            ~ In lu (tlinks S) /\ forall g tab, In (g, tab) (fg_list S) -> In lu (rs_cir g) -> ~ In (rs_cls g) (from_classes S)
}.

Lemma own_before_spec : forall rest pre, own_before pre rest = true ->
  forall p j q, rest = p ++ XJ j :: q ->
  exists st, In st (tfs_list (pre ++ p)) /\ rs_link st = Some (j_link j) /\ rs_cls st = j_cls j.
Proof.
  induction rest as [|x r IH]; intros pre H p j q E.
  - destruct p; discriminate.
  - cbn [own_before] in H. apply andb_true_iff in H; destruct H as [Hx Hr].
    destruct p as [|y p'].
    + cbn [app] in E. inversion E; subst x r. rewrite app_nil_r.
      apply existsb_exists in Hx. destruct Hx as (st & Hin & Hc). apply andb_true_iff in Hc; destruct Hc as [Hl Hc].
      exists st; split; [exact Hin|]. split; [apply has_link_spec; exact Hl | apply Nat.eqb_eq; exact Hc].
    + cbn [app] in E. inversion E; subst y r.
      destruct (IH (pre ++ [x]) Hr p' j q eq_refl) as (st & Hin & Hl & Hc).
      exists st; split; [|split; assumption]. rewrite <- app_assoc in Hin. exact Hin.
Qed.

Lemma own_okb_sound : forall S, own_okb S = true -> OwnOK S.
Proof.
  intros S H; unfold own_okb in H.
  apply andb_true_iff in H; destruct H as [H Q7]. apply andb_true_iff in H; destruct H as [H Q6].
  apply andb_true_iff in H; destruct H as [H Q5]. apply andb_true_iff in H; destruct H as [H Q4].
  apply andb_true_iff in H; destruct H as [H Q3]. apply andb_true_iff in H; destruct H as [H Q2].
  apply andb_true_iff in H; destruct H as [Q0 Q1]. constructor.
  - apply nodupb_NoDup; exact Q0.
  - intros g tab l Hg Hl. rewrite forallb_forall in Q1. specialize (Q1 (g, tab) Hg). cbn [fst] in Q1.
    exact (disjointb_spec _ _ Q1 l Hl).
  - intros pre j post E. destruct (own_before_spec S [] Q2 pre j post E) as (st & Hin & Hr). exists st; split; [exact Hin | exact Hr].
  - apply nodupb_NoDup; exact Q3.
  - apply nodupb_NoDup; exact Q4.
  - exact (disjointb_spec _ _ Q5).
  - intros g T Hg. rewrite forallb_forall in Q6. specialize (Q6 (g, Some T) Hg). unfold writer_ok in Q6; cbn [fst snd] in Q6.
    apply andb_true_iff in Q6; destruct Q6 as [Q6 Pc]. apply andb_true_iff in Q6; destruct Q6 as [Pa Pb].
    split; [destruct (rs_tfs g); [reflexivity | discriminate]|]. split.
    + apply rmem_false. apply negb_true_iff; exact Pb.
    + intros g' tab' Hg' Hne. rewrite forallb_forall in Pc. specialize (Pc (g', tab') Hg'). cbn [fst] in Pc.
      apply orb_true_iff in Pc; destruct Pc as [Pc | Pc]; [apply Nat.eqb_eq in Pc; contradiction|].
      apply rmem_false. apply negb_true_iff; exact Pc.
  - intros j lu Hj Hlu. rewrite forallb_forall in Q7. specialize (Q7 j Hj). unfold left_ok in Q7. rewrite Hlu in Q7.
    apply andb_true_iff in Q7; destruct Q7 as [Pa Pb]. split.
    + apply rmem_false. apply negb_true_iff; exact Pa.
    + intros g tab Hg Hin. rewrite forallb_forall in Pb. specialize (Pb (g, tab) Hg). cbn [fst] in Pb.
      apply orb_true_iff in Pb; destruct Pb as [Pb | Pb]; apply negb_true_iff in Pb; apply rmem_false in Pb; [contradiction | exact Pb].
Qed.

(* ------------------------------------------------------------------------------------------------------------------ *)
(* registry, merge relation, runs                                                                                     *)
(* ------------------------------------------------------------------------------------------------------------------ *)
Lemma children_of_in : forall reg o c ch, NoDup (map fst reg) -> In (o, (c, ch)) reg -> children_of reg o = ch.
Proof.
  induction reg as [|e r IH]; intros o c ch Hnd Hin; [destruct Hin|]. cbn [children_of map] in *.
  inversion Hnd as [|? ? Hn Hr]; subst. destruct Hin as [E | Hin].
  - subst e; cbn [fst snd]. rewrite Nat.eqb_refl; reflexivity.
  - destruct (Nat.eqb (fst e) o) eqn:Eo; [|eapply IH; eassumption].
    apply Nat.eqb_eq in Eo. exfalso; apply Hn; rewrite Eo. change o with (fst (o, (c, ch))). apply in_map; exact Hin.
Qed.

Lemma cls_of_entry : forall reg o c, cls_of reg o = Some c -> exists ch, In (o, (c, ch)) reg.
Proof.
  induction reg as [|e r IH]; intros o c H; cbn [cls_of] in H; [discriminate|]. destruct (Nat.eqb (fst e) o) eqn:E.
  - apply Nat.eqb_eq in E. inversion H; subst. destruct e as [o' [c' ch']]; cbn [fst snd] in *. exists ch'; left; reflexivity.
  - destruct (IH o c H) as (ch & Hin); exists ch; right; exact Hin.
Qed.

Lemma cls_of_app_in : forall reg ext o, In o (map fst reg) -> cls_of (reg ++ ext) o = cls_of reg o.
Proof.
  induction reg as [|e r IH]; intros ext o H; cbn [map] in H; [destruct H|]. cbn [app cls_of].
  destruct (Nat.eqb (fst e) o) eqn:E; [reflexivity|]. apply IH. destruct H as [H | H]; [|exact H].
  apply Nat.eqb_neq in E; contradiction.
Qed.

Lemma cls_of_app_new : forall reg o c ch, ~ In o (map fst reg) -> cls_of (reg ++ [(o, (c, ch))]) o = Some c.
Proof.
  induction reg as [|e r IH]; intros o c ch H; cbn [app cls_of fst snd].
  - rewrite Nat.eqb_refl; reflexivity.
  - destruct (Nat.eqb (fst e) o) eqn:E.
    + apply Nat.eqb_eq in E. exfalso; apply H; left; exact E.
    + apply IH. intros Hin; apply H; right; exact Hin.
Qed.

Lemma find_leftmost_unmerged : forall fuel rel o cls, mrel_get rel o = None -> find_leftmost fuel rel o cls = Some o.
Proof. intros fuel rel o cls H; unfold find_leftmost; rewrite H; reflexivity. Qed.

Lemma fl_loop_res : forall fuel rel u cls lm rho, fl_loop fuel rel u cls lm = Some rho ->
  rho = lm \/ exists k c, mrel_get rel k = Some (rho, c).
Proof.
  induction fuel as [|f IH]; intros rel u cls lm rho H; cbn [fl_loop] in H; [discriminate|].
  destruct (mrel_get rel u) as [[p c0]|] eqn:G; [|discriminate].
  destruct (Nat.eqb p u); [inversion H; left; reflexivity|].
  destruct (mrel_get rel p) as [[q c]|] eqn:Gp; [|discriminate].
  destruct (IH _ _ _ _ _ H) as [E | E]; [|right; exact E].
  destruct (Nat.eqb c cls); [subst rho; right; exists u, c0; exact G | left; exact E].
Qed.

Lemma find_leftmost_res : forall fuel rel o cls rho, find_leftmost fuel rel o cls = Some rho ->
  rho = o \/ exists k c, mrel_get rel k = Some (rho, c).
Proof.
  intros fuel rel o cls rho H; unfold find_leftmost in H.
  destruct (mrel_get rel o); [eapply fl_loop_res; exact H | inversion H; left; reflexivity].
Qed.

Lemma get_cfw_j_found : forall reg rel cls u rho, get_cfw_j reg rel cls u = Found rho ->
  exists o, get_cfw reg cls u = Some o /\ find_leftmost (fuel_of rel) rel o cls = Some rho.
Proof.
  intros reg rel cls u rho H; unfold get_cfw_j in H. destruct (get_cfw reg cls u) as [o|]; [|discriminate].
  destruct (find_leftmost (fuel_of rel) rel o cls) as [l|] eqn:F; [|discriminate]. inversion H; subst.
  exists o; split; [reflexivity | exact F].
Qed.

Lemma get_cfw_j_none : forall reg rel cls u, get_cfw reg cls u = None -> get_cfw_j reg rel cls u = NotFound.
Proof. intros reg rel cls u H; unfold get_cfw_j; rewrite H; reflexivity. Qed.

Lemma run_x_app : forall a b s, run_x s (a ++ b) = match run_x s a with (s', XOk) => run_x s' b | r => r end.
Proof.
  induction a as [|x a IH]; intros b s; cbn [app run_x]; [reflexivity|].
  destruct (exec_x s x) as [s1 o1]; destruct o1; try reflexivity. apply IH.
Qed.

Lemma run_x_snoc : forall pre x s s', run_x s (pre ++ [x]) = (s', XOk) ->
  exists s0, run_x s pre = (s0, XOk) /\ exec_x s0 x = (s', XOk).
Proof.
  intros pre x s s' H. rewrite run_x_app in H. destruct (run_x s pre) as [s0 o0]. destruct o0; try discriminate.
  exists s0; split; [reflexivity|]. cbn [run_x] in H. destruct (exec_x s0 x) as [s1 o1]. destruct o1; try discriminate. exact H.
Qed.

(* ------------------------------------------------------------------------------------------------------------------ *)
(* the invariant of runs of a step list S satisfying the premises                                                     *)
(* ------------------------------------------------------------------------------------------------------------------ *)
Section Own.
Variable S : list xstep.
Hypothesis HOK : OwnOK S.

Lemma same_sid : forall x y, In x S -> In y S -> xsid x = xsid y -> x = y.
Proof. intros x y Hx Hy E. apply (NoDup_map_inj xsid S); try assumption. exact (ok_nodup S HOK). Qed.

Lemma sid_kinds : forall st tab g tabg, In (XB st tab) S -> rs_kind st = RTFS -> In (XB g tabg) S -> rs_kind g = RFG ->
  rs_sid st <> rs_sid g.
Proof.
  intros st tab g tabg H1 K1 H2 K2 E. assert (H : XB st tab = XB g tabg) by (apply same_sid; assumption).
  inversion H; subst. rewrite K1 in K2; discriminate.
Qed.

Lemma tfs_unique : forall st st' l, In st (tfs_list S) -> In st' (tfs_list S) -> rs_link st = Some l -> rs_link st' = Some l -> st = st'.
Proof.
  intros st st' l H1 H2 L1 L2. apply (NoDup_flat_map_inj link_of (tfs_list S) st st' l);
    [exact (ok_tl S HOK) | assumption | assumption | apply in_link_of; assumption | apply in_link_of; assumption].
Qed.

Lemma tfs_same_sid : forall st st', In st (tfs_list S) -> In st' (tfs_list S) -> rs_sid st = rs_sid st' -> st = st'.
Proof.
  intros st st' H1 H2 E. apply in_tfs_list in H1; destruct H1 as (t1 & H1 & _). apply in_tfs_list in H2; destruct H2 as (t2 & H2 & _).
  assert (H : XB st t1 = XB st' t2) by (apply same_sid; assumption). inversion H; reflexivity.
Qed.

(* pre: the steps executed so far (all XOk), s: the state reached *)
Record Inv (pre : list xstep) (s : xstate) : Prop := {
  i_j : InvJ (x_reg s) (x_rel s);
  i_reg : forall o c ch, In (o, (c, ch)) (x_reg s) ->
      (exists g tab, In (XB g tab) pre /\ rs_kind g = RFG /\ o = rs_sid g /\ c = rs_cls g /\ ch = rs_cir g)
   \/ (exists st tab g tabg, In (XB st tab) pre /\ rs_kind st = RTFS /\ o = rs_sid st /\ c = rs_cls st /\
         In (XB g tabg) pre /\ rs_kind g = RFG /\ rs_cls g = rs_from st /\ ch = rs_cir g ++ link_of st);
  i_tfs : forall st tab, In (XB st tab) pre -> rs_kind st = RTFS ->
      exists ch, In (rs_sid st, (rs_cls st, ch)) (x_reg s) /\ incl (link_of st) ch;
  i_relp : forall k p c, mrel_get (x_rel s) k = Some (p, c) -> ~ In p (tfs_sids S) /\ In c (to_classes S);
  i_relk : forall k p c st, mrel_get (x_rel s) k = Some (p, c) -> In st (tfs_list S) -> k = rs_sid st ->
      exists j, In (XJ j) pre /\ rs_link st = Some (j_link j);
  i_store_tfs : forall st tab, In (XB st tab) pre -> rs_kind st = RTFS ->
      exists T g u, rs_get (x_store s) (rs_sid st) = Some T /\ In (XB g (Some T)) pre /\ rs_kind g = RFG /\
                    rs_cls g = rs_from st /\ right_u st = Some u /\ In u (rs_cir g);
  i_store_src : forall o T c, rs_get (x_store s) o = Some T -> cls_of (x_reg s) o = Some c -> In c (from_classes S) ->
      exists g, In (XB g (Some T)) pre /\ rs_kind g = RFG /\ rs_sid g = o;
  i_store_reg : forall o T, rs_get (x_store s) o = Some T -> In o (map fst (x_reg s))
}.

Lemma Inv_init : Inv [] x_init.
Proof.
  constructor; cbn.
  - exact InvJ_init.
  - intros o c ch [].
  - intros st tab [].
  - intros k p c H; discriminate.
  - intros k p c st H; discriminate.
  - intros st tab [].
  - intros o T c H; discriminate.
  - intros o T H; discriminate.
Qed.

Lemma reg_ids : forall pre s o, Inv pre s -> In o (map fst (x_reg s)) -> In o (map xsid pre).
Proof.
  intros pre s o I Ho. apply in_map_iff in Ho. destruct Ho as ([o' [c ch]] & Eo & Hin); cbn [fst] in Eo; subst o'.
  destruct (i_reg _ _ I o c ch Hin) as [(g & tab & Hg & _ & Eo & _) | (st & tab & g & tabg & Hst & _ & Eo & _)]; subst o.
  - change (rs_sid g) with (xsid (XB g tab)). apply in_map; exact Hg.
  - change (rs_sid st) with (xsid (XB st tab)). apply in_map; exact Hst.
Qed.

Lemma in_tlinks_of : forall st tab l, In (XB st tab) S -> rs_kind st = RTFS -> rs_link st = Some l -> In l (tlinks S).
Proof. intros st tab l H K L. apply in_tlinks. exists st; split; [apply in_tfs_list; exists tab; split; assumption | exact L]. Qed.

(* a registered object that has a link uuid among its children was created by the transform step carrying that link *)
Lemma get_link : forall pre s cls l o, (forall x, In x pre -> In x S) -> Inv pre s -> In l (tlinks S) ->
  get_cfw (x_reg s) cls l = Some o ->
  exists st tab, In (XB st tab) pre /\ rs_kind st = RTFS /\ o = rs_sid st /\ rs_link st = Some l /\ cls = rs_cls st.
Proof.
  intros pre s cls l o Hpre I Hl G. destruct (get_cfw_in _ _ _ _ G) as (e & Hin & Hm & Hf).
  destruct e as [o' [c ch]]; cbn [fst] in Hf; subst o'. unfold Routing.matches in Hm; cbn [fst snd] in Hm.
  apply andb_true_iff in Hm; destruct Hm as [Hc Hch]. apply Nat.eqb_eq in Hc. apply rmem_In in Hch.
  destruct (i_reg _ _ I o c ch Hin) as [(g & tab & Hg & Kg & Eo & Ec & Ech) | (st & tab & g & tabg & Hst & Kst & Eo & Ec & Hg & Kg & Ecls & Ech)]; subst ch.
  - exfalso. apply (ok_private S HOK g tab l); [apply in_fg_list; split; [apply Hpre; exact Hg | exact Kg] | exact Hl | exact Hch].
  - apply in_app_or in Hch. destruct Hch as [Hch | Hch].
    + exfalso. apply (ok_private S HOK g tabg l); [apply in_fg_list; split; [apply Hpre; exact Hg | exact Kg] | exact Hl | exact Hch].
    + exists st, tab. repeat split; try assumption; [apply in_link_of; exact Hch | rewrite <- Hc; exact Ec].
Qed.

(* the object of an executed transform step is what the lookup of its link uuid finds *)
Lemma own_found : forall pre s st tab l, (forall x, In x pre -> In x S) -> Inv pre s ->
  In (XB st tab) pre -> rs_kind st = RTFS -> rs_link st = Some l -> get_cfw (x_reg s) (rs_cls st) l = Some (rs_sid st).
Proof.
  intros pre s st tab l Hpre I Hin K L. destruct (i_tfs _ _ I st tab Hin K) as (ch & Hent & Hincl).
  assert (Hl : In l (tlinks S)) by (eapply in_tlinks_of; [apply Hpre; exact Hin | exact K | exact L]).
  destruct (get_cfw (x_reg s) (rs_cls st) l) as [o|] eqn:G.
  - destruct (get_link pre s _ l o Hpre I Hl G) as (st' & tab' & Hst' & K' & Eo & L' & _).
    assert (E : st' = st).
    { apply (tfs_unique st' st l); try assumption; apply in_tfs_list; [exists tab' | exists tab]; (split; [apply Hpre; assumption | assumption]). }
    subst st' o; reflexivity.
  - exfalso. apply get_cfw_none in G.
    assert (Hm : Routing.matches (rs_cls st) l (rs_sid st, (rs_cls st, ch)) = true).
    { unfold Routing.matches; cbn [fst snd]. rewrite Nat.eqb_refl; cbn [andb]. apply rmem_In. apply Hincl. apply in_link_of; exact L. }
    pose proof (hits_in_pos (x_reg s) (rs_cls st) l _ Hent Hm). lia.
Qed.

Lemma prefix_incl : forall pre x post, S = pre ++ x :: post -> (forall y, In y pre -> In y S) /\ In x S.
Proof.
  intros pre x post E; subst S; split; [intros y Hy; apply in_or_app; left; exact Hy | apply in_or_app; right; left; reflexivity].
Qed.

Lemma prefix_fresh : forall pre x post, S = pre ++ x :: post -> ~ In (xsid x) (map xsid pre).
Proof. intros pre x post E. pose proof (ok_nodup S HOK) as H. rewrite E in H. exact (NoDup_app_fresh xsid pre x post H). Qed.

Lemma inv_grow_reg : forall (pre : list xstep) (x : xstep) (P : list xstep -> Prop),
  (forall y, In y pre -> In y (pre ++ [x])).
Proof. intros pre x _ y Hy; apply in_or_app; left; exact Hy. Qed.

(* ---------------- JoinStep ---------------- *)
Lemma join_step : forall pre j post s s', S = pre ++ XJ j :: post -> Inv pre s -> exec_x s (XJ j) = (s', XOk) ->
  (exists st g T u w Tl,
      In st (tfs_list pre) /\ rs_link st = Some (j_link j) /\ rs_cls st = j_cls j /\
      In (XB g (Some T)) pre /\ rs_kind g = RFG /\ rs_cls g = rs_from st /\ right_u st = Some u /\ In u (rs_cir g) /\
      mrel_get (x_rel s) (rs_sid st) = None /\ ~ In w (tfs_sids S) /\
      rs_get (x_store s) w = Some Tl /\ rs_get (x_store s) (rs_sid st) = Some T /\
      x_store s' = (w, rel_join (j_jt j) (j_lk j) (j_rk j) Tl T) :: x_store s /\
      x_rel s' = mrel_add (x_rel s) w (rs_sid st) (j_cls j) /\
      x_feet s' = x_feet s ++ [(j_sid j, w, Some (rs_sid st))])
  /\ Inv (pre ++ [XJ j]) s'.
Proof.
  intros pre j post s s' E I Hexec.
  destruct (prefix_incl pre (XJ j) post E) as [Hpre HjS].
  pose proof (prefix_fresh pre (XJ j) post E) as Hfresh. cbn [xsid] in Hfresh.
  assert (Hfreshreg : ~ In (xsid (XJ j)) (map fst (x_reg s))) by (intros Hin; apply Hfresh; exact (reg_ids pre s _ I Hin)).
  pose proof (i_j _ _ I) as Hinvj.
  pose proof (proj1 (exec_x_inv s (XJ j) s' XOk Hinvj Hfreshreg Hexec)) as Hinvj'.
  destruct (ok_own S HOK pre j post E) as (stj & Hstj & Lj & Cj).
  pose proof Hstj as Hstj'. apply in_tfs_list in Hstj'. destruct Hstj' as (tabj & Hinj & Kj).
  assert (HstjS : In stj (tfs_list S)) by (apply in_tfs_list; exists tabj; split; [apply Hpre; exact Hinj | exact Kj]).
  (* the lookup of the link uuid finds the own transform object, which was never merged *)
  pose proof (own_found pre s stj tabj (j_link j) Hpre I Hinj Kj Lj) as Glink. rewrite Cj in Glink.
  assert (Hun : mrel_get (x_rel s) (rs_sid stj) = None).
  { destruct (mrel_get (x_rel s) (rs_sid stj)) as [[p c]|] eqn:G; [|reflexivity]. exfalso.
    destruct (i_relk _ _ I _ p c stj G HstjS eq_refl) as (j' & Hj' & Lj').
    assert (Ej : j' = j).
    { apply (NoDup_map_inj j_link (join_list S)); [exact (ok_jl S HOK) | apply in_join_list; apply Hpre; exact Hj' | apply in_join_list; exact HjS |].
      rewrite Lj in Lj'; inversion Lj'; reflexivity. }
    subst j'. apply Hfresh. change (j_sid j) with (xsid (XJ j)). apply in_map; exact Hj'. }
  assert (Gf : get_cfw_j (x_reg s) (x_rel s) (j_cls j) (j_link j) = Found (rs_sid stj)).
  { unfold get_cfw_j. rewrite Glink. rewrite (find_leftmost_unmerged _ _ _ _ Hun). reflexivity. }
  (* unfold the step *)
  unfold exec_x in Hexec. cbn [route_x] in Hexec. unfold route_join in Hexec.
  destruct (hd_error (j_left j)) as [lu|] eqn:Hlu; [|inversion Hexec].
  destruct (get_cfw_j_inv (x_reg s) (x_rel s) (j_cls j) lu Hinvj) as [N | (w & Gw & Hwroot & Hwcls & Hwc)];
    [rewrite N in Hexec; inversion Hexec|].
  rewrite Gw, Gf in Hexec.
  (* the left object is not a transform object *)
  assert (Hw : ~ In w (tfs_sids S)).
  { destruct (get_cfw_j_found _ _ _ _ _ Gw) as (o & Go & Fl).
    assert (Ho : ~ In o (tfs_sids S)).
    { destruct (get_cfw_in _ _ _ _ Go) as (e & Hin & Hm & Hf). destruct e as [o' [c ch]]; cbn [fst] in Hf; subst o'.
      unfold Routing.matches in Hm; cbn [fst snd] in Hm. apply andb_true_iff in Hm; destruct Hm as [_ Hch]. apply rmem_In in Hch.
      destruct (ok_left S HOK j lu (proj2 (in_join_list S j) HjS) Hlu) as [Hl1 Hl2].
      destruct (i_reg _ _ I o c ch Hin) as [(g & tab & Hg & Kg & Eo & Ec & Ech) | (st & tab & g & tabg & Hst & Kst & Eo & Ec & Hg & Kg & Ecls & Ech)]; subst ch.
      - intros Hin'. unfold tfs_sids in Hin'. apply in_map_iff in Hin'. destruct Hin' as (st' & Es & Hst').
        apply in_tfs_list in Hst'. destruct Hst' as (tab' & Hst' & K').
        apply (sid_kinds st' tab' g tab Hst' K' (Hpre _ Hg) Kg). rewrite Es; exact Eo.
      - exfalso. apply in_app_or in Hch. destruct Hch as [Hch | Hch].
        + apply (Hl2 g tabg); [apply in_fg_list; split; [apply Hpre; exact Hg | exact Kg] | exact Hch |].
          rewrite Ecls. unfold from_classes. apply in_map. apply in_tfs_list. exists tab; split; [apply Hpre; exact Hst | exact Kst].
        + apply Hl1. eapply in_tlinks_of; [apply Hpre; exact Hst | exact Kst | apply in_link_of; exact Hch]. }
    destruct (find_leftmost_res _ _ _ _ _ Fl) as [Ew | (k & c & Gk)]; [subst w; exact Ho | exact (proj1 (i_relp _ _ I k w c Gk))]. }
  destruct (i_store_tfs _ _ I stj tabj Hinj Kj) as (T & g & u & HT & Hg & Kg & Cg & Hu & Hug).
  rewrite HT in Hexec.
  destruct (rs_get (x_store s) w) as [Tl|] eqn:HTl; [|inversion Hexec].
  inversion Hexec; subst s'; clear Hexec. cbn [x_reg x_rel x_store x_feet x_seen xsid] in *.
  assert (Hgrow : forall y, In y pre -> In y (pre ++ [XJ j])) by (intros y Hy; apply in_or_app; left; exact Hy).
  assert (Hjto : In (j_cls j) (to_classes S)) by (rewrite <- Cj; unfold to_classes; apply in_map; exact HstjS).
  split.
  - exists stj, g, T, u, w, Tl. repeat split; try assumption; reflexivity.
  - constructor; cbn [x_reg x_rel x_store x_feet x_seen].
    + exact Hinvj'.
    + intros o c ch Hin. destruct (i_reg _ _ I o c ch Hin) as [(g0 & tab & Hg0 & R) | (st & tab & g0 & tabg & Hst & K1 & E1 & E2 & Hg0 & R)].
      * left; exists g0, tab; split; [apply Hgrow; exact Hg0 | exact R].
      * right; exists st, tab, g0, tabg. split; [apply Hgrow; exact Hst|]. split; [exact K1|]. split; [exact E1|]. split; [exact E2|].
        split; [apply Hgrow; exact Hg0 | exact R].
    + intros st tab Hin K. apply in_app_or in Hin. destruct Hin as [Hin | [Hin | []]]; [exact (i_tfs _ _ I st tab Hin K) | discriminate].
    + intros k p c G. rewrite mrel_get_add in G. destruct (Nat.eqb k (rs_sid stj)).
      * inversion G; subst. split; assumption.
      * destruct (Nat.eqb k w); [|exact (i_relp _ _ I k p c G)].
        destruct (mrel_get (x_rel s) w) as [v|] eqn:Gw'; [inversion G; subst v; exact (i_relp _ _ I w p c Gw') | inversion G; subst; split; assumption].
    + intros k p c st G Hst Ek. rewrite mrel_get_add in G. destruct (Nat.eqb k (rs_sid stj)) eqn:E1.
      * apply Nat.eqb_eq in E1. assert (st = stj) by (apply tfs_same_sid; [assumption | assumption | congruence]). subst st.
        exists j; split; [apply in_or_app; right; left; reflexivity | exact Lj].
      * destruct (Nat.eqb k w) eqn:E2.
        -- apply Nat.eqb_eq in E2. exfalso. apply Hw. rewrite <- E2, Ek. unfold tfs_sids. apply in_map; exact Hst.
        -- destruct (i_relk _ _ I k p c st G Hst Ek) as (j' & Hj' & L'). exists j'; split; [apply Hgrow; exact Hj' | exact L'].
    + intros st tab Hin K. apply in_app_or in Hin. destruct Hin as [Hin | [Hin | []]]; [|discriminate].
      destruct (i_store_tfs _ _ I st tab Hin K) as (T0 & g0 & u0 & HT0 & Hg0 & R).
      exists T0, g0, u0. split; [|split; [apply Hgrow; exact Hg0 | exact R]].
      cbn [rs_get]. destruct (Nat.eqb w (rs_sid st)) eqn:Ew; [|exact HT0].
      apply Nat.eqb_eq in Ew. exfalso; apply Hw. rewrite Ew. unfold tfs_sids. apply in_map. apply in_tfs_list. exists tab; split; [apply Hpre; exact Hin | exact K].
    + intros o T0 c G Hc Hfrom. cbn [rs_get] in G. destruct (Nat.eqb w o) eqn:Ew.
      * apply Nat.eqb_eq in Ew; subst o. rewrite Hwcls in Hc; inversion Hc; subst c. exfalso. exact (ok_cls S HOK _ Hfrom Hjto).
      * destruct (i_store_src _ _ I o T0 c G Hc Hfrom) as (g0 & Hg0 & R). exists g0; split; [apply Hgrow; exact Hg0 | exact R].
    + intros o T0 G. cbn [rs_get] in G. destruct (Nat.eqb w o) eqn:Ew.
      * apply Nat.eqb_eq in Ew; subst o. eapply cls_of_some_in; exact Hwcls.
      * exact (i_store_reg _ _ I o T0 G).
Qed.

(* ---------------- TransformFrameworkStep ---------------- *)
Lemma tfs_step : forall pre st tab post s s', S = pre ++ XB st tab :: post -> rs_kind st = RTFS -> Inv pre s ->
  exec_x s (XB st tab) = (s', XOk) -> Inv (pre ++ [XB st tab]) s'.
Proof.
  intros pre st tab post s s' E K I Hexec.
  destruct (prefix_incl pre (XB st tab) post E) as [Hpre HxS].
  pose proof (prefix_fresh pre (XB st tab) post E) as Hfresh. cbn [xsid] in Hfresh.
  assert (Hfreshreg : ~ In (xsid (XB st tab)) (map fst (x_reg s))) by (intros Hin; apply Hfresh; exact (reg_ids pre s _ I Hin)).
  pose proof (i_j _ _ I) as Hinvj.
  pose proof (proj1 (exec_x_inv s (XB st tab) s' XOk Hinvj Hfreshreg Hexec)) as Hinvj'.
  assert (HstS : In st (tfs_list S)) by (apply in_tfs_list; exists tab; split; assumption).
  assert (Hfrom : In (rs_from st) (from_classes S)) by (unfold from_classes; apply in_map; exact HstS).
  assert (Hto : In (rs_cls st) (to_classes S)) by (unfold to_classes; apply in_map; exact HstS).
  assert (Hnot_tfs_made : forall st' tab', In (XB st' tab') pre -> rs_kind st' = RTFS -> rs_cls st' <> rs_from st).
  { intros st' tab' H' K' Ec. apply (ok_cls S HOK _ Hfrom). rewrite <- Ec. unfold to_classes. apply in_map. apply in_tfs_list.
    exists tab'; split; [apply Hpre; exact H' | exact K']. }
  unfold exec_x in Hexec. cbn [route_x] in Hexec. rewrite K in Hexec. unfold route_tfs_j in Hexec.
  destruct (first_hit_j_inv (x_reg s) (x_rel s) (rs_from st) (rs_req st) Hinvj) as [N | (fo & F & _ & Hfocls & _)];
    [rewrite N in Hexec; inversion Hexec|]. rewrite F in Hexec.
  change (match rs_link st with Some l => [l] | None => [] end) with (link_of st) in Hexec.
  change (match rs_right st with Some u => Some u | None => hd_error (rs_req st) end) with (right_u st) in Hexec.
  destruct (right_u st) as [u|] eqn:Hu; [|inversion Hexec].
  (* the converted object was created by a feature-group step of the from-framework *)
  destruct (cls_of_entry _ _ _ Hfocls) as (chf & Hfoent).
  assert (Hfo : exists g tabg, In (XB g tabg) pre /\ rs_kind g = RFG /\ fo = rs_sid g /\ rs_cls g = rs_from st /\ chf = rs_cir g).
  { destruct (i_reg _ _ I fo _ chf Hfoent) as [(g & tabg & Hg & Kg & Eo & Ec & Ech) | (st' & tab' & g & tabg & Hst' & K' & _ & Ec & _)].
    - exists g, tabg; repeat split; try assumption. symmetry; exact Ec.
    - exfalso. apply (Hnot_tfs_made st' tab' Hst' K'). symmetry; exact Ec. }
  destruct Hfo as (g & tabg & Hg & Kg & Efo & Cg & Echf).
  rewrite (children_of_in (x_reg s) fo _ chf (proj1 Hinvj) Hfoent) in Hexec. subst chf.
  set (reg' := reg_add (x_reg s) (rs_sid st) (rs_cls st) (rs_cir g ++ link_of st)) in *.
  assert (Hinvr : InvJ reg' (x_rel s)) by (apply InvJ_reg_add; assumption).
  destruct (get_cfw_j_inv reg' (x_rel s) (rs_from st) u Hinvr) as [N2 | (ro & Gro & _ & Hrocls & _)];
    [rewrite N2 in Hexec; inversion Hexec|]. rewrite Gro in Hexec.
  destruct (rs_get (x_store s) ro) as [T|] eqn:HT; [|inversion Hexec].
  (* the object read is a never merged source object *)
  destruct (get_cfw_j_found _ _ _ _ _ Gro) as (o0 & Go0 & Fl).
  assert (Hun : mrel_get (x_rel s) o0 = None).
  { destruct (mrel_get (x_rel s) o0) as [[p c]|] eqn:G; [|reflexivity]. exfalso.
    destruct Hinvr as (Hnd' & _ & _ & Hc'). pose proof (Hc' _ _ _ G) as C1.
    rewrite (get_cfw_cls _ _ _ _ Hnd' Go0) in C1. inversion C1; subst c.
    exact (ok_cls S HOK _ Hfrom (proj2 (i_relp _ _ I _ _ _ G))). }
  rewrite (find_leftmost_unmerged _ _ _ _ Hun) in Fl. inversion Fl; subst o0; clear Fl.
  assert (Hro : exists g0 tab0, In (XB g0 tab0) pre /\ rs_kind g0 = RFG /\ ro = rs_sid g0 /\ rs_cls g0 = rs_from st /\ In u (rs_cir g0)
                                /\ cls_of (x_reg s) ro = Some (rs_from st)).
  { destruct (get_cfw_in _ _ _ _ Go0) as (e & Hin & Hm & Hf). destruct e as [o' [c ch]]; cbn [fst] in Hf; subst o'.
    unfold Routing.matches in Hm; cbn [fst snd] in Hm. apply andb_true_iff in Hm; destruct Hm as [Hc Hch].
    apply Nat.eqb_eq in Hc. apply rmem_In in Hch. subst c.
    unfold reg', reg_add in Hin. apply in_app_or in Hin. destruct Hin as [Hin | [Hin | []]].
    - pose proof (cls_of_in (x_reg s) _ (proj1 Hinvj) Hin) as Cro. cbn [fst snd] in Cro.
      destruct (i_reg _ _ I ro _ ch Hin) as [(g0 & tab0 & Hg0 & Kg0 & Eo & Ec & Ech) | (st' & tab' & _ & _ & Hst' & K' & _ & Ec & _)].
      + exists g0, tab0. subst ch. repeat split; try assumption. symmetry; exact Ec.
      + exfalso. apply (Hnot_tfs_made st' tab' Hst' K'). symmetry; exact Ec.
    - exfalso. inversion Hin as [[E1 E2 E3]]. apply (ok_cls S HOK _ Hfrom). rewrite <- E2. exact Hto. }
  destruct Hro as (g0 & tab0 & Hg0 & Kg0 & Ero & Cg0 & Hug0 & Crocls).
  destruct (i_store_src _ _ I ro T _ HT Crocls Hfrom) as (g1 & Hg1 & Kg1 & Eg1).
  assert (Eg : XB g1 (Some T) = XB g0 tab0) by (apply same_sid; [apply Hpre; exact Hg1 | apply Hpre; exact Hg0 | cbn [xsid]; congruence]).
  inversion Eg; subst g1 tab0; clear Eg.
  inversion Hexec; subst s'; clear Hexec. cbn [x_reg x_rel x_store x_feet x_seen xsid] in *.
  assert (Hgrow : forall y, In y pre -> In y (pre ++ [XB st tab])) by (intros y Hy; apply in_or_app; left; exact Hy).
  constructor; cbn [x_reg x_rel x_store x_feet x_seen].
  - exact Hinvj'.
  - intros o c ch Hin. unfold reg', reg_add in Hin. apply in_app_or in Hin. destruct Hin as [Hin | [Hin | []]].
    + destruct (i_reg _ _ I o c ch Hin) as [(g2 & tab2 & Hg2 & R) | (st2 & tab2 & g2 & tabg2 & Hst2 & K1 & E1 & E2 & Hg2 & R)].
      * left; exists g2, tab2; split; [apply Hgrow; exact Hg2 | exact R].
      * right; exists st2, tab2, g2, tabg2. split; [apply Hgrow; exact Hst2|]. split; [exact K1|]. split; [exact E1|]. split; [exact E2|].
        split; [apply Hgrow; exact Hg2 | exact R].
    + inversion Hin; subst o c ch. right. exists st, tab, g, tabg.
      split; [apply in_or_app; right; left; reflexivity|]. repeat split; try assumption; try reflexivity. apply Hgrow; exact Hg.
  - intros st' tab' Hin K'. apply in_app_or in Hin. destruct Hin as [Hin | [Hin | []]].
    + destruct (i_tfs _ _ I st' tab' Hin K') as (ch & Hent & Hincl). exists ch; split; [|exact Hincl].
      unfold reg', reg_add. apply in_or_app; left; exact Hent.
    + inversion Hin; subst st' tab'. exists (rs_cir g ++ link_of st). split; [unfold reg', reg_add; apply in_or_app; right; left; reflexivity|].
      apply incl_appr. apply incl_refl.
  - exact (i_relp _ _ I).
  - intros k p c st' G Hst' Ek. destruct (i_relk _ _ I k p c st' G Hst' Ek) as (j' & Hj' & L'). exists j'; split; [apply Hgrow; exact Hj' | exact L'].
  - intros st' tab' Hin K'. apply in_app_or in Hin. destruct Hin as [Hin | [Hin | []]].
    + destruct (i_store_tfs _ _ I st' tab' Hin K') as (T0 & g2 & u0 & HT0 & Hg2 & R).
      exists T0, g2, u0. split; [|split; [apply Hgrow; exact Hg2 | exact R]].
      cbn [rs_get]. destruct (Nat.eqb (rs_sid st) (rs_sid st')) eqn:Ew; [|exact HT0].
      apply Nat.eqb_eq in Ew. exfalso; apply Hfresh. rewrite Ew. change (rs_sid st') with (xsid (XB st' tab')). apply in_map; exact Hin.
    + inversion Hin; subst st' tab'. exists T, g0, u. cbn [rs_get]. rewrite Nat.eqb_refl.
      split; [reflexivity|]. split; [apply Hgrow; exact Hg1|]. repeat split; assumption.
  - intros o T0 c G Hc Hfr. cbn [rs_get] in G. destruct (Nat.eqb (rs_sid st) o) eqn:Ew.
    + apply Nat.eqb_eq in Ew; subst o. unfold reg', reg_add in Hc. rewrite (cls_of_app_new _ _ _ _ Hfreshreg) in Hc. inversion Hc; subst c.
      exfalso. exact (ok_cls S HOK _ Hfr Hto).
    + pose proof (i_store_reg _ _ I o T0 G) as Hreg. unfold reg', reg_add in Hc. rewrite (cls_of_app_in _ _ _ Hreg) in Hc.
      destruct (i_store_src _ _ I o T0 c G Hc Hfr) as (g2 & Hg2 & R). exists g2; split; [apply Hgrow; exact Hg2 | exact R].
  - intros o T0 G. cbn [rs_get] in G. unfold reg', reg_add. rewrite map_app. apply in_or_app. destruct (Nat.eqb (rs_sid st) o) eqn:Ew.
    + apply Nat.eqb_eq in Ew; subst o. right; left; reflexivity.
    + left. exact (i_store_reg _ _ I o T0 G).
Qed.

(* ---------------- FeatureGroupStep ---------------- *)
Lemma route_fg_j_shape : forall reg rel st reg' w rd, route_fg_j reg rel st = RoutedJ reg' w rd ->
  rd = None /\ (reg' = reg \/ (reg' = reg_add reg (rs_sid st) (rs_cls st) (rs_cir st) /\ w = rs_sid st)).
Proof.
  intros reg rel st reg' w rd H; unfold route_fg_j in H.
  destruct (first_hit_j reg rel (rs_cls st) (rs_tfs st)); try discriminate; [inversion H; subst; split; [reflexivity | left; reflexivity]|].
  destruct (get_cfw_j reg rel (rs_cls st) (rs_any st)); try discriminate; inversion H; subst; (split; [reflexivity|]).
  - left; reflexivity.
  - right; split; reflexivity.
Qed.

(* a source step creates a fresh object *)
Lemma writer_route : forall pre g T post s, S = pre ++ XB g (Some T) :: post -> rs_kind g = RFG -> Inv pre s ->
  route_fg_j (x_reg s) (x_rel s) g = RoutedJ (reg_add (x_reg s) (rs_sid g) (rs_cls g) (rs_cir g)) (rs_sid g) None.
Proof.
  intros pre g T post s E K I.
  destruct (prefix_incl pre _ post E) as [Hpre HxS].
  pose proof (prefix_fresh pre _ post E) as Hfresh. cbn [xsid] in Hfresh.
  destruct (ok_writer S HOK g T (proj2 (in_fg_list S g (Some T)) (conj HxS K))) as (Htfs & Hnl & Hnc).
  unfold route_fg_j. rewrite Htfs. cbn [first_hit_j].
  assert (G : get_cfw (x_reg s) (rs_cls g) (rs_any g) = None).
  { destruct (get_cfw (x_reg s) (rs_cls g) (rs_any g)) as [o|] eqn:G; [|reflexivity]. exfalso.
    destruct (get_cfw_in _ _ _ _ G) as (e & Hin & Hm & Hf). destruct e as [o' [c ch]]; cbn [fst] in Hf; subst o'.
    unfold Routing.matches in Hm; cbn [fst snd] in Hm. apply andb_true_iff in Hm; destruct Hm as [_ Hch]. apply rmem_In in Hch.
    assert (Hother : forall g' tab', In (XB g' tab') pre -> rs_kind g' = RFG -> ~ In (rs_any g) (rs_cir g')).
    { intros g' tab' Hg' K'. apply (Hnc g' tab'); [apply in_fg_list; split; [apply Hpre; exact Hg' | exact K']|].
      intros Es. apply Hfresh. rewrite <- Es. change (rs_sid g') with (xsid (XB g' tab')). apply in_map; exact Hg'. }
    destruct (i_reg _ _ I o c ch Hin) as [(g' & tab' & Hg' & Kg' & _ & _ & Ech) | (st & tab & g' & tabg & Hst & Kst & _ & _ & Hg' & Kg' & _ & Ech)]; subst ch.
    - exact (Hother g' tab' Hg' Kg' Hch).
    - apply in_app_or in Hch. destruct Hch as [Hch | Hch]; [exact (Hother g' tabg Hg' Kg' Hch)|].
      apply Hnl. eapply in_tlinks_of; [apply Hpre; exact Hst | exact Kst | apply in_link_of; exact Hch]. }
  rewrite (get_cfw_j_none _ _ _ _ G). reflexivity.
Qed.

Lemma fg_step : forall pre g tab post s s', S = pre ++ XB g tab :: post -> rs_kind g = RFG -> Inv pre s ->
  exec_x s (XB g tab) = (s', XOk) -> Inv (pre ++ [XB g tab]) s'.
Proof.
  intros pre g tab post s s' E K I Hexec.
  destruct (prefix_incl pre _ post E) as [Hpre HxS].
  pose proof (prefix_fresh pre _ post E) as Hfresh. cbn [xsid] in Hfresh.
  assert (Hfreshreg : ~ In (xsid (XB g tab)) (map fst (x_reg s))) by (intros Hin; apply Hfresh; exact (reg_ids pre s _ I Hin)).
  pose proof (i_j _ _ I) as Hinvj.
  pose proof (proj1 (exec_x_inv s (XB g tab) s' XOk Hinvj Hfreshreg Hexec)) as Hinvj'.
  assert (Hgrow : forall y, In y pre -> In y (pre ++ [XB g tab])) by (intros y Hy; apply in_or_app; left; exact Hy).
  (* what the new registry, relation and store look like *)
  assert (Hs' : x_rel s' = x_rel s /\
                (x_reg s' = x_reg s \/ x_reg s' = reg_add (x_reg s) (rs_sid g) (rs_cls g) (rs_cir g)) /\
                (x_store s' = x_store s \/
                 exists T, tab = Some T /\ x_store s' = (rs_sid g, T) :: x_store s /\
                           x_reg s' = reg_add (x_reg s) (rs_sid g) (rs_cls g) (rs_cir g))).
  { unfold exec_x in Hexec. cbn [route_x] in Hexec. rewrite K in Hexec. destruct tab as [T|].
    - rewrite (writer_route pre g T post s E K I) in Hexec. inversion Hexec; subst s'; cbn [x_reg x_rel x_store].
      split; [reflexivity|]. split; [right; reflexivity|]. right; exists T; repeat split; reflexivity.
    - destruct (route_fg_j (x_reg s) (x_rel s) g) as [reg' w rd| |] eqn:R; try (inversion Hexec; fail).
      destruct (route_fg_j_shape _ _ _ _ _ _ R) as [_ Hreg].
      destruct (rs_get (x_store s) w); inversion Hexec; subst s'; cbn [x_reg x_rel x_store].
      split; [reflexivity|]. split; [destruct Hreg as [Hr | [Hr _]]; [left | right]; exact Hr | left; reflexivity]. }
  destruct Hs' as (Erel & Ereg & Estore).
  assert (Hregsub : forall e, In e (x_reg s) -> In e (x_reg s')).
  { intros e He. destruct Ereg as [Er | Er]; rewrite Er; [exact He | unfold reg_add; apply in_or_app; left; exact He]. }
  assert (Hcls_old : forall o, In o (map fst (x_reg s)) -> cls_of (x_reg s') o = cls_of (x_reg s) o).
  { intros o Ho. destruct Ereg as [Er | Er]; rewrite Er; [reflexivity | unfold reg_add; apply cls_of_app_in; exact Ho]. }
  constructor.
  - exact Hinvj'.
  - intros o c ch Hin.
    assert (Hcase : In (o, (c, ch)) (x_reg s) \/ (o, (c, ch)) = (rs_sid g, (rs_cls g, rs_cir g))).
    { destruct Ereg as [Er | Er]; rewrite Er in Hin; [left; exact Hin|]. unfold reg_add in Hin. apply in_app_or in Hin.
      destruct Hin as [Hin | [Hin | []]]; [left; exact Hin | right; symmetry; exact Hin]. }
    destruct Hcase as [Hold | Hnew].
    + destruct (i_reg _ _ I o c ch Hold) as [(g2 & tab2 & Hg2 & R) | (st2 & tab2 & g2 & tabg2 & Hst2 & K1 & E1 & E2 & Hg2 & R)].
      * left; exists g2, tab2; split; [apply Hgrow; exact Hg2 | exact R].
      * right; exists st2, tab2, g2, tabg2. split; [apply Hgrow; exact Hst2|]. split; [exact K1|]. split; [exact E1|]. split; [exact E2|].
        split; [apply Hgrow; exact Hg2 | exact R].
    + inversion Hnew; subst o c ch. left; exists g, tab. split; [apply in_or_app; right; left; reflexivity|]. repeat split; assumption.
  - intros st tab' Hin K'. apply in_app_or in Hin. destruct Hin as [Hin | [Hin | []]].
    + destruct (i_tfs _ _ I st tab' Hin K') as (ch & Hent & Hincl). exists ch; split; [apply Hregsub; exact Hent | exact Hincl].
    + inversion Hin; subst st. rewrite K in K'; discriminate.
  - rewrite Erel. exact (i_relp _ _ I).
  - rewrite Erel. intros k p c st G Hst Ek. destruct (i_relk _ _ I k p c st G Hst Ek) as (j' & Hj' & L'). exists j'; split; [apply Hgrow; exact Hj' | exact L'].
  - intros st tab' Hin K'. apply in_app_or in Hin. destruct Hin as [Hin | [Hin | []]]; [|inversion Hin; subst st; rewrite K in K'; discriminate].
    destruct (i_store_tfs _ _ I st tab' Hin K') as (T0 & g2 & u0 & HT0 & Hg2 & R).
    exists T0, g2, u0. split; [|split; [apply Hgrow; exact Hg2 | exact R]].
    destruct Estore as [Es | (T & _ & Es & _)]; rewrite Es; [exact HT0|].
    cbn [rs_get]. destruct (Nat.eqb (rs_sid g) (rs_sid st)) eqn:Ew; [|exact HT0].
    apply Nat.eqb_eq in Ew. exfalso; apply Hfresh. rewrite Ew. change (rs_sid st) with (xsid (XB st tab')). apply in_map; exact Hin.
  - intros o T0 c G Hc Hfr. destruct Estore as [Es | (T & Et & Es & Er)].
    + rewrite Es in G. pose proof (i_store_reg _ _ I o T0 G) as Hreg. rewrite (Hcls_old o Hreg) in Hc.
      destruct (i_store_src _ _ I o T0 c G Hc Hfr) as (g2 & Hg2 & R). exists g2; split; [apply Hgrow; exact Hg2 | exact R].
    + rewrite Es in G. cbn [rs_get] in G. destruct (Nat.eqb (rs_sid g) o) eqn:Ew.
      * apply Nat.eqb_eq in Ew; subst o. inversion G; subst T0. exists g. subst tab.
        split; [apply in_or_app; right; left; reflexivity|]. split; [exact K | reflexivity].
      * pose proof (i_store_reg _ _ I o T0 G) as Hreg. rewrite (Hcls_old o Hreg) in Hc.
        destruct (i_store_src _ _ I o T0 c G Hc Hfr) as (g2 & Hg2 & R). exists g2; split; [apply Hgrow; exact Hg2 | exact R].
  - intros o T0 G. destruct Estore as [Es | (T & Et & Es & Er)].
    + rewrite Es in G. apply in_map_iff. pose proof (i_store_reg _ _ I o T0 G) as Hreg. apply in_map_iff in Hreg.
      destruct Hreg as (e & Ee & He). exists e; split; [exact Ee | apply Hregsub; exact He].
    + rewrite Es in G. cbn [rs_get] in G. rewrite Er. unfold reg_add. rewrite map_app. apply in_or_app.
      destruct (Nat.eqb (rs_sid g) o) eqn:Ew; [apply Nat.eqb_eq in Ew; subst o; right; left; reflexivity | left; exact (i_store_reg _ _ I o T0 G)].
Qed.

(* ---------------- runs ---------------- *)
Lemma inv_prefix : forall pre post s, S = pre ++ post -> run_x x_init pre = (s, XOk) -> Inv pre s.
Proof.
  induction pre as [|x pre IH] using rev_ind; intros post s E R.
  - cbn [run_x] in R. inversion R; subst s. exact Inv_init.
  - destruct (run_x_snoc pre x x_init s R) as (s0 & R0 & Ex).
    rewrite <- app_assoc in E. cbn [app] in E.
    pose proof (IH (x :: post) s0 E R0) as I0.
    destruct x as [st tab | j].
    + destruct (rs_kind st) eqn:K; [exact (fg_step pre st tab post s0 s E K I0 Ex) | exact (tfs_step pre st tab post s0 s E K I0 Ex)].
    + exact (proj2 (join_step pre j post s0 s E I0 Ex)).
Qed.

Lemma join_merges_own_source_S : forall pre j post s s',
  S = pre ++ XJ j :: post -> run_x x_init pre = (s, XOk) -> exec_x s (XJ j) = (s', XOk) ->
  exists st g T u w Tl,
      In st (tfs_list pre) /\ rs_link st = Some (j_link j) /\ rs_cls st = j_cls j /\
      In (XB g (Some T)) pre /\ rs_kind g = RFG /\ rs_cls g = rs_from st /\ right_u st = Some u /\ In u (rs_cir g) /\
      mrel_get (x_rel s) (rs_sid st) = None /\ ~ In w (tfs_sids S) /\
      rs_get (x_store s) w = Some Tl /\ rs_get (x_store s) (rs_sid st) = Some T /\
      x_store s' = (w, rel_join (j_jt j) (j_lk j) (j_rk j) Tl T) :: x_store s /\
      x_rel s' = mrel_add (x_rel s) w (rs_sid st) (j_cls j) /\
      x_feet s' = x_feet s ++ [(j_sid j, w, Some (rs_sid st))].
Proof.
  intros pre j post s s' E R Ex. exact (proj1 (join_step pre j post s s' E (inv_prefix pre (XJ j :: post) s E R) Ex)).
Qed.

End Own.

(* ------------------------------------------------------------------------------------------------------------------ *)
(* the theorems                                                                                                       *)
(* ------------------------------------------------------------------------------------------------------------------ *)
(* For every list of steps (any number of joins, sharing sources or not) in any begin order that satisfies own_okb: whenever a
   JoinStep executes, the object it reads is the one created by the transform step carrying its link uuid; that object has
   never been merged; it holds the table T of a source step g on the transform step's from-framework that has the transform
   step's right uuid among its children; and the table the JoinStep writes is rel_join of the left object's table with T. *)
Theorem join_merges_own_source_l : forall steps pre j post s s', own_okb steps = true ->
  steps = pre ++ XJ j :: post -> run_x x_init pre = (s, XOk) -> exec_x s (XJ j) = (s', XOk) ->
  exists st g T u w Tl,
      In st (tfs_list pre) /\ rs_link st = Some (j_link j) /\ rs_cls st = j_cls j /\
      In (XB g (Some T)) pre /\ rs_kind g = RFG /\ rs_cls g = rs_from st /\ right_u st = Some u /\ In u (rs_cir g) /\
      mrel_get (x_rel s) (rs_sid st) = None /\ ~ In w (tfs_sids steps) /\
      rs_get (x_store s) w = Some Tl /\ rs_get (x_store s) (rs_sid st) = Some T /\
      x_store s' = (w, rel_join (j_jt j) (j_lk j) (j_rk j) Tl T) :: x_store s /\
      x_rel s' = mrel_add (x_rel s) w (rs_sid st) (j_cls j) /\
      x_feet s' = x_feet s ++ [(j_sid j, w, Some (rs_sid st))].
Proof. intros steps pre j post s s' H. exact (join_merges_own_source_S steps (own_okb_sound steps H) pre j post s s'). Qed.

(* the routing half alone: a JoinStep that is routed at all reads its own, unmerged transform object, and never writes to one *)
Theorem join_reads_own_transform_l : forall steps pre j post s reg' w rd, own_okb steps = true ->
  steps = pre ++ XJ j :: post -> run_x x_init pre = (s, XOk) -> route_join (x_reg s) (x_rel s) j = RoutedJ reg' w rd ->
  exists st, In st (tfs_list pre) /\ rs_link st = Some (j_link j) /\ rd = Some (rs_sid st) /\
             mrel_get (x_rel s) (rs_sid st) = None /\
             get_cfw (x_reg s) (j_cls j) (j_link j) = Some (rs_sid st).
Proof.
  intros steps pre j post s reg' w rd H E R Hr. pose proof (own_okb_sound steps H) as HOK.
  pose proof (inv_prefix steps HOK pre (XJ j :: post) s E R) as I.
  destruct (prefix_incl steps HOK pre (XJ j) post E) as [Hpre HjS].
  pose proof (prefix_fresh steps HOK pre (XJ j) post E) as Hfresh. cbn [xsid] in Hfresh.
  destruct (ok_own steps HOK pre j post E) as (stj & Hstj & Lj & Cj).
  pose proof Hstj as Hstj'. apply in_tfs_list in Hstj'. destruct Hstj' as (tabj & Hinj & Kj).
  assert (HstjS : In stj (tfs_list steps)) by (apply in_tfs_list; exists tabj; split; [apply Hpre; exact Hinj | exact Kj]).
  pose proof (own_found steps HOK pre s stj tabj (j_link j) Hpre I Hinj Kj Lj) as Glink. rewrite Cj in Glink.
  assert (Hun : mrel_get (x_rel s) (rs_sid stj) = None).
  { destruct (mrel_get (x_rel s) (rs_sid stj)) as [[p c]|] eqn:G; [|reflexivity]. exfalso.
    destruct (i_relk _ _ _ I _ p c stj G HstjS eq_refl) as (j' & Hj' & Lj').
    assert (Ej : j' = j).
    { apply (NoDup_map_inj j_link (join_list steps)); [exact (ok_jl steps HOK) | apply in_join_list; apply Hpre; exact Hj' | apply in_join_list; exact HjS |].
      rewrite Lj in Lj'; inversion Lj'; reflexivity. }
    subst j'. apply Hfresh. change (j_sid j) with (xsid (XJ j)). apply in_map; exact Hj'. }
  exists stj. split; [exact Hstj|]. split; [exact Lj|]. split; [|split; [exact Hun | exact Glink]].
  unfold route_join in Hr. destruct (hd_error (j_left j)); [|discriminate].
  destruct (get_cfw_j (x_reg s) (x_rel s) (j_cls j) n); try discriminate.
  unfold get_cfw_j in Hr at 1. rewrite Glink, (find_leftmost_unmerged _ _ _ _ Hun) in Hr. inversion Hr; reflexivity.
Qed.

(* the plan side: transform steps whose identities differ in the consumer are all emitted ... *)
Lemma tfs_fresh_all : forall keys coll,
  NoDup (map tk_to_fg keys) -> (forall k c, In k keys -> In c coll -> tk_to_fg k <> tk_to_fg c) ->
  tfs_fresh tkey_eqb coll keys = map (fun _ => true) keys.
Proof.
  induction keys as [|k r IH]; intros coll Hnd Hc; cbn [tfs_fresh map]; [reflexivity|].
  assert (Hf : existsb (tkey_eqb k) coll = false).
  { destruct (existsb (tkey_eqb k) coll) eqn:Ex; [|reflexivity]. exfalso. apply existsb_exists in Ex. destruct Ex as (c & Hin & He).
    unfold tkey_eqb in He. apply andb_true_iff in He; destruct He as [_ He]. apply Nat.eqb_eq in He.
    exact (Hc k c (or_introl eq_refl) Hin He). }
  rewrite Hf; cbn [negb]. f_equal. cbn [map] in Hnd; inversion Hnd as [|? ? Hn Hr]; subst. apply IH; [exact Hr|].
  intros k' c Hk' [Ec | Hc']; [subst c; intros Eq; apply Hn; rewrite <- Eq; apply in_map; exact Hk' | apply Hc; [right; exact Hk' | exact Hc']].
Qed.

(* ... while an identity that forgets the consumer emits only the first of the conversions of one source between two frameworks *)
Lemma tfs_fresh_no_consumer : forall k1 k2 r, tk_from k1 = tk_from k2 -> tk_to k1 = tk_to k2 -> tk_from_fg k1 = tk_from_fg k2 ->
  exists fl, tfs_fresh tkey_eqb_no_consumer [] (k1 :: k2 :: r) = true :: false :: fl.
Proof.
  intros k1 k2 r E1 E2 E3; cbn [tfs_fresh existsb negb]. unfold tkey_eqb_no_consumer at 1. rewrite <- E1, <- E2, <- E3, !Nat.eqb_refl.
  cbn [andb orb negb]. eexists; reflexivity.
Qed.

(* the fallback of a JoinStep without a transform object of its own: the lookup by the right source's feature lands on another
   join's transform object t1, and once t1 has been merged into l the JoinStep reads l - a left object, not a converted source *)
Lemma missing_transform_reads_left_l : forall reg rel0 j lu ru w l t1 c,
  hd_error (j_left j) = Some lu -> hd_error (j_right j) = Some ru -> c = j_cls j ->
  get_cfw_j reg (mrel_add rel0 l t1 c) c lu = Found w ->
  get_cfw reg c (j_link j) = None -> get_cfw reg c ru = Some t1 ->
  l <> t1 -> mparent rel0 l = l -> (forall p cl, mrel_get rel0 l = Some (p, cl) -> cl = c) ->
  route_join reg (mrel_add rel0 l t1 c) j = RoutedJ reg w (Some l).
Proof.
  intros reg rel0 j lu ru w l t1 c Hlu Hru Ec Gw Gl Gr Hne Hroot Hcl; subst c. unfold route_join. rewrite Hlu, Gw.
  rewrite (get_cfw_j_none _ _ _ _ Gl). rewrite Hru. unfold get_cfw_j. rewrite Gr.
  rewrite (find_leftmost_redirect_l rel0 l t1 (j_cls j) _ Hne Hroot Hcl); [reflexivity|].
  unfold fuel_of, mrel_add. destruct (mrel_get ((t1, (l, j_cls j)) :: rel0) l); cbn [List.length]; lia.
Qed.
