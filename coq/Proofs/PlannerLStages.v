(* Stage lemmas of the link / join planner model that do not depend on the shape of the request: trekker dictionaries,
   order_links_by_frameworks without framework changes, the link queue, nested-loop fusion. *)
From Coq Require Import List Bool Arith Lia Permutation.
Import ListNotations.
Require Import MV.Model.Orch MV.Model.OrchCheck MV.Model.Grouping MV.Model.PlannerA MV.Model.LinkSel MV.Model.PlannerL.
Require Import MV.Spec.PlannerASpec MV.Spec.PlannerLSpec.
Require Import MV.Proofs.PlannerASets MV.Proofs.PlannerAOrder MV.Proofs.PlannerLBase MV.Proofs.PlannerLStar.
Open Scope nat_scope.

Lemma bool_false_iff : forall (b : bool) (P : Prop), (b = true <-> P) -> (b = false <-> ~ P).
Proof.
  intros b P H. destruct b; split; intros H'.
  - discriminate.
  - exfalso. apply H'. apply H. reflexivity.
  - intros HP. apply H in HP. discriminate.
  - reflexivity.
Qed.

(* ---------- keys ---------- *)
Lemma key_eqb_eq : forall a b, key_eqb a b = true <-> a = b.
Proof.
  intros [u [l r]] [u' [l' r']]. unfold key_eqb, k_uid, k_l, k_r. cbn [fst snd].
  rewrite !andb_true_iff, !Nat.eqb_eq. split; [intros [[-> ->] ->]; reflexivity | intros E; injection E as -> -> ->; auto].
Qed.
Lemma key_eqb_refl : forall a, key_eqb a a = true.
Proof. intros a. apply key_eqb_eq. reflexivity. Qed.
Lemma key_eqb_neq : forall a b, key_eqb a b = false <-> a <> b.
Proof. intros a b. apply bool_false_iff. apply key_eqb_eq. Qed.

Definition kmem (k : lkey) (l : list lkey) : bool := existsb (key_eqb k) l.
Lemma kmem_In : forall k l, kmem k l = true <-> In k l.
Proof.
  intros k l. unfold kmem. rewrite existsb_exists. split.
  - intros [y [Hy E]]. apply key_eqb_eq in E. subst y. exact Hy.
  - intros H. exists k. split; [exact H | apply key_eqb_refl].
Qed.
Lemma kmem_false : forall k l, kmem k l = false <-> ~ In k l.
Proof. intros k l. apply bool_false_iff. apply kmem_In. Qed.

(* first occurrences *)
Fixpoint kdedupe_acc (acc l : list lkey) : list lkey :=
  match l with [] => acc | k :: t => kdedupe_acc (if kmem k acc then acc else acc ++ [k]) t end.
Definition kdedupe (l : list lkey) : list lkey := kdedupe_acc [] l.

Lemma kdedupe_acc_spec : forall l acc, NoDup acc ->
  NoDup (kdedupe_acc acc l) /\ (forall k, In k (kdedupe_acc acc l) <-> In k acc \/ In k l).
Proof.
  intros l. induction l as [|x l IH]; intros acc Hnd; cbn [kdedupe_acc].
  - split; [exact Hnd | intros k; split; [intros H; left; exact H | intros [H|[]]; exact H]].
  - destruct (kmem x acc) eqn:E.
    + destruct (IH acc Hnd) as [H1 H2]. split; [exact H1|]. intros k. rewrite H2. apply kmem_In in E.
      split; [intros [H|H]; [left; exact H | right; right; exact H] | intros [H|[H|H]]; [left; exact H | subst k; left; exact E | right; exact H]].
    + apply kmem_false in E. destruct (IH (acc ++ [x]) (NoDup_snoc _ acc x Hnd E)) as [H1 H2]. split; [exact H1|].
      intros k. rewrite H2, in_app_iff. cbn [In]. tauto.
Qed.
Lemma kdedupe_nodup : forall l, NoDup (kdedupe l).
Proof. intros l. apply (kdedupe_acc_spec l []). constructor. Qed.
Lemma kdedupe_In : forall l k, In k (kdedupe l) <-> In k l.
Proof. intros l k. destruct (kdedupe_acc_spec l [] (NoDup_nil _)) as [_ H]. rewrite H. cbn [In]. tauto. Qed.

(* ---------- trekker dictionaries with one child ---------- *)
Definition tsingle (c : nat) (ks : list lkey) : tdata := map (fun k => (k, [c])) ks.

Lemma tkeys_tsingle : forall c ks, tkeys (tsingle c ks) = ks.
Proof. intros c ks. unfold tkeys, tsingle. rewrite map_map. cbn [fst]. apply map_id. Qed.

Lemma tget_tsingle_in : forall c ks k, In k ks -> tget k (tsingle c ks) = Some [c].
Proof.
  intros c ks k. induction ks as [|x ks IH]; intros H; [destruct H|]. cbn [tsingle map tget].
  destruct (key_eqb k x) eqn:E; [reflexivity|]. destruct H as [H|H]; [subst x; rewrite key_eqb_refl in E; discriminate | apply IH; exact H].
Qed.
Lemma tget_tsingle_notin : forall c ks k, ~ In k ks -> tget k (tsingle c ks) = None.
Proof.
  intros c ks k. induction ks as [|x ks IH]; intros H; [reflexivity|]. cbn [tsingle map tget].
  destruct (key_eqb k x) eqn:E; [apply key_eqb_eq in E; subst x; exfalso; apply H; left; reflexivity|].
  apply IH. intros H'. apply H. right. exact H'.
Qed.

Lemma tadd_tsingle : forall c ks k, tadd k c (tsingle c ks) = tsingle c (if kmem k ks then ks else ks ++ [k]).
Proof.
  intros c ks k. induction ks as [|x ks IH]; [reflexivity|]. cbn [tsingle map tadd kmem existsb].
  destruct (key_eqb k x) eqn:E.
  - cbn [orb]. apply key_eqb_eq in E. subst x. cbn [map]. unfold set_add. cbn [mem existsb]. rewrite Nat.eqb_refl. reflexivity.
  - cbn [orb]. fold (tsingle c ks). rewrite IH. fold (kmem k ks). destruct (kmem k ks); reflexivity.
Qed.

Lemma fold_tadd_tsingle : forall c l acc,
  fold_left (fun d k => tadd k c d) l (tsingle c acc) = tsingle c (kdedupe_acc acc l).
Proof.
  intros c l. induction l as [|k l IH]; intros acc; cbn [fold_left kdedupe_acc]; [reflexivity|].
  rewrite tadd_tsingle. apply IH.
Qed.

(* ---------- fold over nested lists ---------- *)
Lemma fold_left_flat_map : forall (A B C : Type) (F : A -> C -> A) (h : B -> list C) (l : list B) (a : A),
  fold_left F (flat_map h l) a = fold_left (fun a x => fold_left F (h x) a) l a.
Proof.
  intros A B C F h l. induction l as [|x l IH]; intros a; cbn [flat_map fold_left]; [reflexivity|].
  rewrite fold_left_app. apply IH.
Qed.
Lemma fold_left_map : forall (A B C : Type) (F : A -> C -> A) (h : B -> C) (l : list B) (a : A),
  fold_left F (map h l) a = fold_left (fun a x => F a (h x)) l a.
Proof. intros A B C F h l. induction l as [|x l IH]; intros a; cbn [map fold_left]; [reflexivity | apply IH]. Qed.
Lemma fold_left_id : forall (A B : Type) (l : list B) (a : A), fold_left (fun a _ => a) l a = a.
Proof. intros A B l. induction l as [|x l IH]; intros a; cbn; [reflexivity | apply IH]. Qed.
Lemma fold_left_filter : forall (A B : Type) (F : A -> B -> A) (Q : B -> bool) (l : list B) (a : A),
  fold_left (fun a x => if Q x then F a x else a) l a = fold_left F (filter Q l) a.
Proof.
  intros A B F Q l. induction l as [|x l IH]; intros a; cbn [fold_left filter]; [reflexivity|].
  destruct (Q x); cbn [fold_left]; apply IH.
Qed.

(* ---------- order_links_by_frameworks adds nothing when no two different links chain through different frameworks ---------- *)
Definition no_chain (keys : list lkey) : Prop :=
  forall k k', In k keys -> In k' keys ->
    k_uid k = k_uid k' \/ (k_r k = k_l k' /\ k_l k' = k_l k) \/ k_r k <> k_l k'.

Lemma olbf_no_chain : forall d order, no_chain (tkeys d) -> olbf d order = order.
Proof.
  intros d order H. unfold olbf.
  assert (Hin : forall l1 o, incl l1 (tkeys d) ->
            fold_left (fun o k => fold_left (fun o' k' =>
              if Nat.eqb (k_uid k) (k_uid k') then o'
              else if Nat.eqb (k_r k) (k_l k') && Nat.eqb (k_l k') (k_l k) then o'
              else if Nat.eqb (k_r k) (k_l k') then aadd (k_uid k') (k_uid k) o' else o') (tkeys d) o) l1 o = o).
  { intros l1. induction l1 as [|k l1 IH]; intros o Hsub; cbn [fold_left]; [reflexivity|].
    assert (Hk : In k (tkeys d)) by (apply Hsub; left; reflexivity).
    assert (E : forall l2 o2, incl l2 (tkeys d) ->
              fold_left (fun o' k' =>
                if Nat.eqb (k_uid k) (k_uid k') then o'
                else if Nat.eqb (k_r k) (k_l k') && Nat.eqb (k_l k') (k_l k) then o'
                else if Nat.eqb (k_r k) (k_l k') then aadd (k_uid k') (k_uid k) o' else o') l2 o2 = o2).
    { intros l2. induction l2 as [|k' l2 IH2]; intros o2 Hsub2; cbn [fold_left]; [reflexivity|].
      assert (Hk' : In k' (tkeys d)) by (apply Hsub2; left; reflexivity).
      destruct (H k k' Hk Hk') as [E|[[E1 E2]|E]].
      - apply Nat.eqb_eq in E. rewrite E. apply IH2. intros y Hy. apply Hsub2. right. exact Hy.
      - destruct (Nat.eqb (k_uid k) (k_uid k')); [apply IH2; intros y Hy; apply Hsub2; right; exact Hy|].
        apply Nat.eqb_eq in E1, E2. rewrite E1, E2. cbn [andb]. apply IH2. intros y Hy. apply Hsub2. right. exact Hy.
      - destruct (Nat.eqb (k_uid k) (k_uid k')); [apply IH2; intros y Hy; apply Hsub2; right; exact Hy|].
        apply Nat.eqb_neq in E. rewrite E. cbn [andb]. apply IH2. intros y Hy. apply Hsub2. right. exact Hy. }
    rewrite E by apply incl_refl. apply IH. intros y Hy. apply Hsub. right. exact Hy. }
  apply Hin. apply incl_refl.
Qed.

Lemma create_data_ordered_fresh : forall d, NoDup (tkeys d) -> create_data_ordered d [] [] = d.
Proof.
  intros d Hnd. unfold create_data_ordered. cbn [map fold_left].
  assert (H : forall l acc, NoDup (tkeys acc ++ tkeys l) ->
            fold_left (fun acc kv => if thas (fst kv) acc then acc else acc ++ [kv]) l acc = acc ++ l).
  { intros l. induction l as [|kv l IH]; intros acc Hn; cbn [fold_left]; [rewrite app_nil_r; reflexivity|].
    assert (Hf : thas (fst kv) acc = false).
    { unfold thas. destruct (tget (fst kv) acc) eqn:E; [|reflexivity]. exfalso.
      assert (Hin : In (fst kv) (tkeys acc)).
      { clear - E. induction acc as [|[k v] acc IH]; [discriminate|]. cbn [tget] in E. cbn [tkeys map fst].
        destruct (key_eqb (fst kv) k) eqn:Ek; [apply key_eqb_eq in Ek; left; symmetry; exact Ek | right; apply IH; exact E]. }
      cbn [tkeys map] in Hn. apply NoDup_remove_2 in Hn. apply Hn. apply in_app_iff. left. exact Hin. }
    rewrite Hf. rewrite IH; [rewrite <- app_assoc; reflexivity|].
    unfold tkeys in *. rewrite map_app. cbn [map]. rewrite <- app_assoc. exact Hn. }
  rewrite H; [reflexivity | exact Hnd].
Qed.

Lemma get_ordered_data_no_chain : forall d, NoDup (tkeys d) -> no_chain (tkeys d) ->
  get_ordered_data {| t_data := d; t_dor := []; t_order := [] |} = Ok {| t_data := d; t_dor := d; t_order := [] |}.
Proof.
  intros d Hnd Hnc. unfold get_ordered_data, order_links_by_frameworks. cbn [t_data t_order t_dor].
  rewrite (olbf_no_chain d [] Hnc). cbn [drop_circular map fold_left reorder_rel enumerate combine seq List.length snd].
  rewrite (create_data_ordered_fresh d Hnd). rewrite Nat.eqb_refl. reflexivity.
Qed.

(* ---------- the link queue when all Links hang on ONE feature c that is last in the queue ---------- *)
Lemma link_queue_single_child : forall (q : list nat) (c : nat) (ks : list lkey), ~ In c q -> NoDup ks ->
  link_queue (q ++ [c]) (tsingle c ks) = map QF q ++ map QL ks ++ [QF c].
Proof.
  intros q c ks Hc Hnd. unfold link_queue. rewrite fold_left_app. cbn [fold_left].
  set (inner := fun (u : nat) (st : list lkey * list qitem) =>
                  fold_left (fun (s : list lkey * list qitem) (kv : lkey * list nat) =>
                     if existsb (key_eqb (fst kv)) (fst s) then s
                     else if mem u (snd kv) then (fst s ++ [fst kv], snd s ++ [QL (fst kv)]) else s) (tsingle c ks) st).
  assert (Hq : forall l st, ~ In c l ->
            fold_left (fun st u => let st' := inner u st in (fst st', snd st' ++ [QF u])) l st = (fst st, snd st ++ map QF l)).
  { intros l. induction l as [|u l IH]; intros st Hl; cbn [fold_left map].
    - rewrite app_nil_r. destruct st; reflexivity.
    - assert (Hu : inner u st = st).
      { unfold inner. assert (Huc : u <> c) by (intros E; apply Hl; left; exact E).
        generalize ks. intros l0. revert st. induction l0 as [|k l0 IH0]; intros st; [reflexivity|].
        cbn [tsingle map fold_left fst snd]. destruct (existsb (key_eqb k) (fst st)); [apply IH0|].
        cbn [mem existsb]. apply Nat.eqb_neq in Huc. rewrite Huc. cbn [orb]. apply IH0. }
      cbv zeta. rewrite Hu. rewrite IH by (intros H; apply Hl; right; exact H). cbn [fst snd]. rewrite <- app_assoc. reflexivity. }
  change (fold_left _ q ([], [])) with (fold_left (fun st u => let st' := inner u st in (fst st', snd st' ++ [QF u])) q ([], [])).
  rewrite Hq by exact Hc. cbn [fst snd app].
  change (snd (let st' := inner c ([], map QF q) in (fst st', snd st' ++ [QF c])) = map QF q ++ map QL ks ++ [QF c]).
  cbv zeta. cbn [snd].
  assert (Hc2 : forall l (J : list lkey) Q, NoDup (J ++ l) ->
            fold_left (fun (s : list lkey * list qitem) (kv : lkey * list nat) =>
                     if existsb (key_eqb (fst kv)) (fst s) then s
                     else if mem c (snd kv) then (fst s ++ [fst kv], snd s ++ [QL (fst kv)]) else s) (tsingle c l) (J, Q)
            = (J ++ l, Q ++ map QL l)).
  { intros l. induction l as [|k l IH]; intros J Q Hn; cbn [tsingle map fold_left fst snd].
    - rewrite !app_nil_r. reflexivity.
    - assert (Hk : existsb (key_eqb k) J = false).
      { apply kmem_false. apply NoDup_remove_2 in Hn. intros H. apply Hn. apply in_app_iff. left. exact H. }
      rewrite Hk. cbn [mem existsb]. rewrite Nat.eqb_refl. cbn [orb]. fold (tsingle c l).
      rewrite IH by (rewrite <- app_assoc; exact Hn). rewrite <- !app_assoc. reflexivity. }
  unfold inner. rewrite Hc2 by exact Hnd. cbn [snd]. rewrite <- app_assoc. reflexivity.
Qed.

(* ---------- add_tfs when every JoinStep joins two tables of ONE framework ---------- *)
(* what add_tfs may change in that case: children_if_root, tfs_ids and any_uuid of feature-group steps *)
Definition fg_upd (x y : lstep) : Prop :=
  match x, y with
  | LFG s grp cfw _ _ _, LFG s' grp' cfw' _ _ _ => s = s' /\ grp = grp' /\ cfw = cfw'
  | LJOIN _ _ _ _ _ _, _ => x = y
  | LTFS _ _ _ _ _ _, _ => x = y
  | _, _ => False
  end.
Lemma fg_upd_refl : forall x, fg_upd x x.
Proof. intros x. destruct x; cbn; auto. Qed.
Lemma fg_upd_trans : forall x y z, fg_upd x y -> fg_upd y z -> fg_upd x z.
Proof.
  intros x y z H1 H2. destruct x, y; cbn in H1; try contradiction; try discriminate H1.
  - destruct z; cbn in H2; try contradiction; try discriminate H2. cbn. destruct H1 as (-> & -> & ->). exact H2.
  - injection H1 as <- <- <- <- <- <-. exact H2.
  - injection H1 as <- <- <- <- <- <-. exact H2.
Qed.
Lemma fg_upd_core : forall x y, fg_upd x y -> core x = core y.
Proof. intros x y H. destruct x, y; cbn in H; try contradiction; try discriminate H; cbn; [apply H | congruence | congruence]. Qed.
Lemma Forall2_refl_gen : forall (A : Type) (R : A -> A -> Prop) l, (forall x, R x x) -> Forall2 R l l.
Proof. intros A R l H. induction l; constructor; auto. Qed.
Lemma Forall2_trans_gen : forall (A : Type) (R : A -> A -> Prop) a b c,
  (forall x y z, R x y -> R y z -> R x z) -> Forall2 R a b -> Forall2 R b c -> Forall2 R a c.
Proof.
  intros A R a b c HR H1. revert c. induction H1; intros c H2; inversion H2; subst; constructor; eauto.
Qed.
Lemma Forall2_nth : forall (A : Type) (R : A -> A -> Prop) a b i y, Forall2 R a b -> nth_error b i = Some y ->
  exists x, nth_error a i = Some x /\ R x y.
Proof.
  intros A R a b i y H. revert i. induction H; intros i Hi; [destruct i; discriminate|].
  destruct i as [|i]; cbn in *; [injection Hi as <-; eauto | apply IHForall2; exact Hi].
Qed.
Lemma Forall2_map_eq : forall (A B : Type) (R : A -> A -> Prop) (h : A -> B) a b,
  (forall x y, R x y -> h x = h y) -> Forall2 R a b -> map h a = map h b.
Proof. intros A B R h a b Hh H. induction H; cbn; [reflexivity | rewrite (Hh _ _ H), IHForall2; reflexivity]. Qed.

Definition scj_body (ord : oparam) (uid : nat) (lus rus : list nat) (st : option nat * list lstep) (ie : nat * lstep)
  : option nat * list lstep :=
  match snd ie with
  | LFG s grp cfw cir tfs any =>
    let r := scan_uuids (ord (site_suu (fst ie)) (uuids s)) lus rus (fst st) in
    let cir' := if snd r then set_add uid cir else cir in
    match fst r with
    | None => (None, snd st ++ [LFG s grp cfw cir' tfs any])
    | Some v => if existsb (fun e => mem e (req s)) lus && existsb (fun e => mem e (req s)) rus
                then (Some v, snd st ++ [LFG s grp cfw cir' [v] v])
                else (Some v, snd st ++ [LFG s grp cfw cir' tfs any])
    end
  | x => (fst st, snd st ++ [x])
  end.
Lemma same_cfw_join_eq : forall ord uid lus rus cur,
  same_cfw_join ord uid lus rus cur = snd (fold_left (scj_body ord uid lus rus) (enumerate cur) (None, [])).
Proof. reflexivity. Qed.

Lemma scj_body_step : forall ord uid lus rus sv out n x,
  exists sv' y, scj_body ord uid lus rus (sv, out) (n, x) = (sv', out ++ [y]) /\ fg_upd x y.
Proof.
  intros ord uid lus rus sv out n x. unfold scj_body. cbn [fst snd].
  destruct x as [s grp cfw cir tfs any|s u a b c e|s a b c e lk].
  - destruct (scan_uuids (ord (site_suu n) (uuids s)) lus rus sv) as [[v|] hit]; cbn [fst snd].
    + destruct (existsb (fun e => mem e (req s)) lus && existsb (fun e => mem e (req s)) rus);
        eexists; eexists; (split; [reflexivity | cbn; auto]).
    + eexists; eexists; (split; [reflexivity | cbn; auto]).
  - eexists; eexists; (split; [reflexivity | reflexivity]).
  - eexists; eexists; (split; [reflexivity | reflexivity]).
Qed.

Lemma same_cfw_join_upd : forall ord uid lus rus cur, Forall2 fg_upd cur (same_cfw_join ord uid lus rus cur).
Proof.
  intros ord uid lus rus cur. rewrite same_cfw_join_eq. unfold enumerate.
  assert (H : forall l n sv out,
            exists l', snd (fold_left (scj_body ord uid lus rus) (combine (seq n (List.length l)) l) (sv, out)) = out ++ l'
                       /\ Forall2 fg_upd l l').
  { intros l. induction l as [|x l IH]; intros n sv out; cbn [List.length seq combine fold_left].
    - exists []. rewrite app_nil_r. split; [reflexivity | constructor].
    - destruct (scj_body_step ord uid lus rus sv out n x) as [sv' [y [E Hxy]]]. rewrite E.
      destruct (IH (S n) sv' (out ++ [y])) as [l' [E' F]]. exists (y :: l'). rewrite E', <- app_assoc. split; [reflexivity|].
      constructor; assumption. }
  destruct (H cur 0 None []) as [l' [E F]]. rewrite E. exact F.
Qed.

Lemma flat_map_no_ins : forall (cur : list lstep),
  flat_map (fun ie : nat * lstep => map snd (filter (fun it : nat * lstep => Nat.eqb (fst it) (fst ie)) []) ++ [snd ie]) (enumerate cur) = cur.
Proof.
  intros cur. transitivity (map snd (enumerate cur)); [|apply enumerate_snd].
  generalize (enumerate cur). intros l. induction l as [|ie l IH]; [reflexivity|]. cbn [flat_map]. rewrite IH. reflexivity.
Qed.

Section OneFramework.
  Variables (ord : oparam) (g : fgraph) (links : list plink) (cm : cfwmap) (c : nat).
  (* every feature that is an ancestor of something computes on framework c *)
  Hypothesis Hpar : forall a p, In p (aget0 a (p2c_of g)) -> cfw_now ord g cm p = c.

  Lemma fg_tfs_needed_same : forall cur any, fg_tfs_needed ord g cm cur c any = false.
  Proof.
    intros cur any. unfold fg_tfs_needed. apply not_true_is_false. intros H. apply existsb_exists in H. destruct H as [p [Hp H]].
    unfold PlannerL.cl in Hp. rewrite (Hpar any p Hp), Nat.eqb_refl in H. rewrite andb_false_r in H. discriminate.
  Qed.

  Definition one_fw_step (x : lstep) : Prop :=
    match x with LFG _ _ cfw _ _ _ => cfw = c | LJOIN _ _ lf rf _ _ => lf = rf | LTFS _ _ _ _ _ _ => False end.

  Lemma one_fw_upd : forall x y, fg_upd x y -> one_fw_step x -> one_fw_step y.
  Proof.
    intros x y H Hx. destruct x, y; cbn in H; try contradiction; try discriminate H; cbn in *.
    - destruct H as (_ & _ & <-). exact Hx.
    - injection H as <- <- <- <- <- <-. exact Hx.
  Qed.

  Definition tfs_body (jr : list (nat * list nat)) (st : list lstep * list tfs_key * list (nat * lstep) * bool) (i : nat)
    : list lstep * list tfs_key * list (nat * lstep) * bool :=
    match st with
    | (cur, tc, ins, outside) =>
      match nth_error cur i with
      | Some (LJOIN s uid lf rf lus rus) =>
        if Nat.eqb lf rf then (same_cfw_join ord uid lus rus cur, tc, ins, outside)
        else
          let key := join_tfs_key links uid lf rf in
          let fresh := negb (existsb (tfs_key_eqb key) tc) in
          let t := LTFS {| sid := 0; skind := KTFS; uuids := [tfs_uid uid]; req := req s; requested := false |}
                        (fst (fst key)) (snd (fst key)) (fst (snd key)) (snd (snd key)) (Some uid) in
          let req1 := if fresh then set_add (tfs_uid uid) (req s) else req s in
          let req2 := set_union req1 (aget0 uid jr) in
          (replace_nth i (LJOIN (set_req req2 s) uid lf rf lus rus) cur,
           if fresh then tc ++ [key] else tc, if fresh then ins ++ [(i, t)] else ins, outside)
      | Some (LFG s grp cfw cir tfs any) =>
        (cur, tc, ins, match uuids s with [] => outside | _ :: _ => outside || fg_tfs_needed ord g cm cur cfw any end)
      | _ => st
      end
    end.
  Lemma add_tfs_eq : forall jr p,
    add_tfs ord g links cm jr p =
    match fold_left (tfs_body jr) (seq 0 (List.length p)) (p, [], [], false) with
    | (cur, _, ins, outside) =>
      (flat_map (fun ie => map snd (filter (fun it => Nat.eqb (fst it) (fst ie)) ins) ++ [snd ie]) (enumerate cur), outside)
    end.
  Proof. reflexivity. Qed.

  Lemma add_tfs_one_framework : forall jr p, Forall one_fw_step p ->
    exists p', add_tfs ord g links cm jr p = (p', false) /\ Forall2 fg_upd p p'.
  Proof.
    intros jr p Hp. rewrite add_tfs_eq.
    assert (H : forall idxs cur, Forall2 fg_upd p cur ->
              exists cur', fold_left (tfs_body jr) idxs (cur, [], [], false) = (cur', [], [], false) /\ Forall2 fg_upd p cur').
    { intros idxs. induction idxs as [|i idxs IH]; intros cur Hcur; cbn [fold_left].
      - exists cur. split; [reflexivity | exact Hcur].
      - unfold tfs_body at 2. destruct (nth_error cur i) as [y|] eqn:En; [|apply IH; exact Hcur].
        destruct (Forall2_nth _ _ _ _ _ _ Hcur En) as [x [Ex Hxy]].
        assert (Hy : one_fw_step y).
        { apply (one_fw_upd x y Hxy). rewrite Forall_forall in Hp. apply Hp. exact (nth_error_In _ _ Ex). }
        destruct y as [s grp cfw cir tfs any|s uid lf rf lus rus|s a b cc0 e lk]; cbn in Hy.
        + subst cfw. rewrite fg_tfs_needed_same. cbn [orb]. destruct (uuids s); apply IH; exact Hcur.
        + subst rf. rewrite Nat.eqb_refl. apply IH.
          exact (Forall2_trans_gen _ _ _ _ _ fg_upd_trans Hcur (same_cfw_join_upd ord uid lus rus cur)).
        + contradiction. }
    destruct (H (seq 0 (List.length p)) p (Forall2_refl_gen _ _ _ fg_upd_refl)) as [cur' [E F]].
    rewrite E. exists cur'. split; [|exact F]. rewrite flat_map_no_ins. reflexivity.
  Qed.
End OneFramework.

(* ---------- a plan listed in a topological order is well formed ---------- *)
Require Import MV.Proofs.OrchP MV.Proofs.PlannerAP.

Lemma nodup_flat_map_split : forall (cores : list step) j j' s' x, NoDup (flat_map uuids cores) ->
  nth_error cores j' = Some s' -> In x (uuids s') -> In x (flat_map uuids (firstn j cores)) -> j' < j.
Proof.
  intros cores j j' s' x Hnd Hj' Hx Hin. destruct (Nat.lt_ge_cases j' j) as [H|H]; [exact H|]. exfalso.
  rewrite <- (firstn_skipn j cores) in Hnd. rewrite flat_map_app in Hnd.
  assert (Hs : In x (flat_map uuids (skipn j cores))).
  { apply in_flat_map. exists s'. split; [|exact Hx].
    assert (E : nth_error (skipn j cores) (j' - j) = Some s').
    { rewrite <- Hj'. rewrite <- (firstn_skipn j cores) at 2. rewrite nth_error_app2.
      - rewrite firstn_length_le; [reflexivity|]. apply Nat.lt_le_incl. apply (Nat.le_lt_trans _ j'); [exact H|].
        apply nth_error_Some. rewrite Hj'. discriminate.
      - rewrite firstn_length. lia. }
    exact (nth_error_In _ _ E). }
  revert Hnd Hin Hs. generalize (flat_map uuids (firstn j cores)) (flat_map uuids (skipn j cores)). intros a b Hnd Ha Hb.
  induction a as [|y a IH]; [destruct Ha|]. cbn in Hnd. apply NoDup_cons_iff in Hnd. destruct Hnd as [Hy Hnd].
  destruct Ha as [Ha|Ha]; [subst y; apply Hy; apply in_app_iff; right; exact Hb | exact (IH Hnd Ha)].
Qed.

Lemma topo_wf : forall (cores : list step),
  (forall s, In s cores -> uuids s <> []) -> NoDup (flat_map uuids cores) ->
  (forall i s, nth_error cores i = Some s -> forall x, In x (req s) -> In x (flat_map uuids (firstn i cores))) ->
  (exists order, wf_plan order (number 0 cores) = true) /\ validate_A (number 0 cores) = true.
Proof.
  intros cores Hne Hnd Htopo.
  assert (Hprod : forall s x, In s (number 0 cores) -> In x (req s) -> In x (all_uuids (number 0 cores))).
  { intros s x Hs Hx. rewrite all_uuids_number. apply In_number in Hs. destruct Hs as [j [s0 [Hj ->]]]. rewrite req_set_sid in Hx.
    specialize (Htopo j s0 Hj x Hx). apply in_flat_map in Htopo. destruct Htopo as [s1 [H1 H2]]. apply in_flat_map. exists s1.
    split; [|exact H2]. rewrite <- (firstn_skipn j cores). apply in_app_iff. left. exact H1. }
  split.
  - exists (order_upto (number 0 cores) (fun i => i) (List.length cores)). apply wf_plan_of_rank.
    + intros s Hs. apply In_number in Hs. destruct Hs as [j [s0 [Hj ->]]]. rewrite uuids_set_sid. apply Hne. exact (nth_error_In _ _ Hj).
    + rewrite map_sid_number. apply seq_NoDup.
    + rewrite all_uuids_number. exact Hnd.
    + intros s x Hs Hx. exact (Hprod s x Hs Hx).
    + intros s Hs. apply In_number in Hs. destruct Hs as [j [s0 [Hj ->]]]. rewrite sid_set_sid. cbn [plus].
      apply nth_error_Some. rewrite Hj. discriminate.
    + intros s s' x Hs Hs' Hx Hx'. apply In_number in Hs, Hs'. destruct Hs as [j [s0 [Hj ->]]], Hs' as [j' [s0' [Hj' ->]]].
      rewrite !sid_set_sid. cbn [plus]. rewrite req_set_sid in Hx. rewrite uuids_set_sid in Hx'.
      exact (nodup_flat_map_split cores j j' s0' x Hnd Hj' Hx' (Htopo j s0 Hj x Hx)).
  - unfold validate_A. apply forallb_forall. intros s Hs. apply subset_incl. intros x Hx. exact (Hprod s x Hs Hx).
Qed.
