(* In-place calculations, atomic level (C06).  Proofs about Model/DataPlaneInPlace.v:
   A. the Mazurkiewicz argument of Proofs/ConfluenceP.v for an arbitrary symmetric independence relation and arbitrary keys
   B. tables up to column order; DataPlane.step respects it; two calculations on one object touching different columns commute
   C. a calculation of several columns = the one-column calculations one after the other *)
From Coq Require Import List Bool ZArith Arith Lia Permutation.
Import ListNotations.
Require MV.Model.Orch MV.Model.OrchCheck.
Require Import MV.Spec.RefEval MV.Model.DataPlane MV.Model.DataPlaneConc MV.Proofs.ConfluenceP MV.Model.DataPlaneInPlace.
Local Open Scope nat_scope.

(* ------------------------------------------------------------------ A. generic traces *)
Section GenTraces.
  Variable K : Type.
  Variable ind : action -> action -> bool.

  Inductive gswaps : list action -> list action -> Prop :=
    | gsw_refl : forall l, gswaps l l
    | gsw_swap : forall l1 a b l2, ind a b = true -> gswaps (l1 ++ a :: b :: l2) (l1 ++ b :: a :: l2)
    | gsw_trans : forall l1 l2 l3, gswaps l1 l2 -> gswaps l2 l3 -> gswaps l1 l3.

  Fixpoint grespects (before : K -> K -> bool) (l : list (K * action)) : Prop :=
    match l with
    | [] => True
    | x :: t => (forall y, In y t -> before (fst y) (fst x) = false) /\ grespects before t
    end.

  Definition gdep_ordered (before : K -> K -> bool) (l : list (K * action)) : Prop :=
    forall x y, In x l -> In y l -> fst x <> fst y -> ind (snd x) (snd y) = false ->
                before (fst x) (fst y) = true \/ before (fst y) (fst x) = true.

  Lemma gswaps_cons : forall a l1 l2, gswaps l1 l2 -> gswaps (a :: l1) (a :: l2).
  Proof.
    intros a l1 l2 H. induction H as [l|l1 x y l2 Hi|l1 l2 l3 _ IH1 _ IH2].
    - apply gsw_refl.
    - apply (gsw_swap (a :: l1) x y l2 Hi).
    - eapply gsw_trans; eauto.
  Qed.

  Lemma gswaps_move_front : forall x p q, (forall y, In y p -> ind y x = true) -> gswaps (p ++ x :: q) (x :: p ++ q).
  Proof.
    intros x p q. induction p as [|y p IH]; intros H; cbn; [apply gsw_refl|].
    eapply gsw_trans.
    - apply gswaps_cons. apply IH. intros z Hz. apply H. right. exact Hz.
    - apply (gsw_swap [] y x (p ++ q)). apply H. left. reflexivity.
  Qed.

  Lemma grespects_app : forall before l r, grespects before (l ++ r) ->
    forall y z, In y l -> In z r -> before (fst z) (fst y) = false.
  Proof.
    intros before l r. induction l as [|x l IH]; intros H y z Hy Hz; [destruct Hy|].
    cbn in H. destruct H as [Hx Hr]. destruct Hy as [<-|Hy].
    - apply Hx. apply in_or_app. right. exact Hz.
    - exact (IH Hr y z Hy Hz).
  Qed.

  Lemma grespects_remove : forall before p x q, grespects before (p ++ x :: q) -> grespects before (p ++ q).
  Proof.
    intros before p x q. induction p as [|y p IH]; cbn; intros [H1 H2]; [exact H2|].
    split; [|apply IH; exact H2]. intros z Hz. apply H1. apply in_app_or in Hz. apply in_or_app.
    destruct Hz as [Hz|Hz]; [left; exact Hz | right; right; exact Hz].
  Qed.

  Lemma grespects_swaps : forall before l2 l1,
    NoDup (map fst l1) -> Permutation l1 l2 -> grespects before l1 -> grespects before l2 ->
    gdep_ordered before l1 -> gswaps (map snd l1) (map snd l2).
  Proof.
    intros before l2. induction l2 as [|x t2 IH]; intros l1 ND HP R1 R2 HD.
    - apply Permutation_sym, Permutation_nil in HP. subst. apply gsw_refl.
    - assert (Hx : In x l1) by (apply (Permutation_in x (Permutation_sym HP)); left; reflexivity).
      apply in_split in Hx. destruct Hx as (p & q & ->).
      assert (HP' : Permutation (p ++ q) t2).
      { apply Permutation_sym. apply (Permutation_cons_app_inv p q (a := x)). apply Permutation_sym. exact HP. }
      rewrite map_app in ND. cbn [map] in ND.
      assert (Hind : forall y, In y p -> ind (snd y) (snd x) = true).
      { intros y Hy. destruct (ind (snd y) (snd x)) eqn:I; [reflexivity|]. exfalso.
        assert (Hne : fst y <> fst x).
        { intros E. apply (NoDup_remove_2 _ _ _ ND). apply in_or_app. left. rewrite <- E. apply in_map. exact Hy. }
        assert (B1 : before (fst x) (fst y) = false) by (apply (grespects_app before p (x :: q) R1 y x Hy); left; reflexivity).
        assert (B2 : before (fst y) (fst x) = false).
        { cbn in R2. destruct R2 as [R2 _]. apply R2. apply (Permutation_in y HP'). apply in_or_app. left. exact Hy. }
        destruct (HD y x) as [B|B]; try congruence.
        - apply in_or_app. left. exact Hy.
        - apply in_or_app. right. left. reflexivity. }
      rewrite map_app. cbn [map]. eapply gsw_trans.
      + apply gswaps_move_front. intros a Ha. apply in_map_iff in Ha. destruct Ha as [y [<- Hy]]. apply Hind. exact Hy.
      + rewrite <- map_app. apply gswaps_cons. apply IH.
        * rewrite map_app. apply (NoDup_remove_1 _ _ _ ND).
        * exact HP'.
        * apply (grespects_remove before p x q R1).
        * cbn in R2. apply R2.
        * intros y z Hy Hz. apply HD; apply in_app_or in Hy; apply in_app_or in Hz; apply in_or_app.
          -- destruct Hy as [Hy|Hy]; [left; exact Hy | right; right; exact Hy].
          -- destruct Hz as [Hz|Hz]; [left; exact Hz | right; right; exact Hz].
  Qed.
End GenTraces.

(* ------------------------------------------------------------------ B. tables up to column order *)
Lemma table_eqv_refl : forall t, table_eqv t t.
Proof. intros t f. reflexivity. Qed.
Lemma table_eqv_sym : forall a b, table_eqv a b -> table_eqv b a.
Proof. intros a b H f. symmetry. apply H. Qed.
Lemma table_eqv_trans : forall a b c, table_eqv a b -> table_eqv b c -> table_eqv a c.
Proof. intros a b c H1 H2 f. rewrite H1. apply H2. Qed.

Lemma otable_eqv_refl : forall a, otable_eqv a a.
Proof. intros [t|]; cbn; auto using table_eqv_refl. Qed.
Lemma otable_eqv_sym : forall a b, otable_eqv a b -> otable_eqv b a.
Proof. intros [a|] [b|]; cbn; auto using table_eqv_sym. Qed.
Lemma otable_eqv_trans : forall a b c, otable_eqv a b -> otable_eqv b c -> otable_eqv a c.
Proof. intros [a|] [b|] [c|]; cbn; try tauto. apply table_eqv_trans. Qed.

Lemma store_eqv_refl : forall s, store_eqv s s.
Proof. intros s o. apply otable_eqv_refl. Qed.
Lemma store_eqv_sym : forall a b, store_eqv a b -> store_eqv b a.
Proof. intros a b H o. apply otable_eqv_sym, H. Qed.
Lemma store_eqv_trans : forall a b c, store_eqv a b -> store_eqv b c -> store_eqv a c.
Proof. intros a b c H1 H2 o. eapply otable_eqv_trans; [apply H1 | apply H2]. Qed.
Lemma store_eq_eqv : forall a b, store_eq a b -> store_eqv a b.
Proof. intros a b H o. rewrite (H o). apply otable_eqv_refl. Qed.

Lemma outcome_eqv_refl : forall o, outcome_eqv o o.
Proof. intros [s| |]; cbn; auto using store_eqv_refl. Qed.
Lemma outcome_eqv_sym : forall a b, outcome_eqv a b -> outcome_eqv b a.
Proof. intros [a| |] [b| |]; cbn; auto using store_eqv_sym. Qed.
Lemma outcome_eqv_trans : forall a b c, outcome_eqv a b -> outcome_eqv b c -> outcome_eqv a c.
Proof. intros [a| |] [b| |] [c| |]; cbn; try tauto. apply store_eqv_trans. Qed.
Lemma outcome_eq_eqv : forall a b, outcome_eq a b -> outcome_eqv a b.
Proof. intros [a| |] [b| |]; cbn; auto using store_eq_eqv. Qed.

Lemma store_eqv_set : forall s1 s2 o t1 t2, store_eqv s1 s2 -> table_eqv t1 t2 -> store_eqv (set_obj s1 o t1) (set_obj s2 o t2).
Proof. intros s1 s2 o t1 t2 H Ht o'. rewrite !get_set. destruct (Nat.eqb o o'); [exact Ht | apply H]. Qed.

Lemma lookup_app : forall a b f, lookup (a ++ b) f = match lookup a f with Some c => Some c | None => lookup b f end.
Proof.
  induction a as [|[k v] a IH]; intros b f; [reflexivity|]. cbn. destruct (Nat.eqb k f); [reflexivity | apply IH].
Qed.

Lemma lookup_notin : forall t f, ~ In f (map fst t) -> lookup t f = None.
Proof.
  induction t as [|[k v] t IH]; intros f H; [reflexivity|]. cbn in *. destruct (Nat.eqb k f) eqn:E.
  - apply Nat.eqb_eq in E. exfalso. apply H. left. exact E.
  - apply IH. intros X. apply H. right. exact X.
Qed.

Lemma lookup_in : forall t f, In f (map fst t) -> exists c, lookup t f = Some c.
Proof.
  induction t as [|[k v] t IH]; intros f H; [destruct H|]. cbn in *. destruct (Nat.eqb k f) eqn:E; [eexists; reflexivity|].
  destruct H as [H|H]; [apply Nat.eqb_neq in E; contradiction | apply IH; exact H].
Qed.

Lemma table_eqv_app : forall a b1 b2, table_eqv b1 b2 -> table_eqv (a ++ b1) (a ++ b2).
Proof. intros a b1 b2 H f. rewrite !lookup_app, (H f). reflexivity. Qed.

(* two blocks of columns with different names may be exchanged *)
Lemma table_eqv_swap : forall a b t, (forall f, In f (map fst a) -> ~ In f (map fst b)) -> table_eqv (a ++ b ++ t) (b ++ a ++ t).
Proof.
  intros a b t H f. rewrite !lookup_app.
  destruct (lookup a f) as [c|] eqn:Ea; [|destruct (lookup b f); reflexivity].
  destruct (lookup b f) as [c'|] eqn:Eb; [|reflexivity]. exfalso.
  assert (Ia : In f (map fst a)).
  { destruct (in_dec Nat.eq_dec f (map fst a)) as [I|I]; [exact I|]. rewrite (lookup_notin a f I) in Ea. discriminate. }
  assert (Ib : In f (map fst b)).
  { destruct (in_dec Nat.eq_dec f (map fst b)) as [I|I]; [exact I|]. rewrite (lookup_notin b f I) in Eb. discriminate. }
  exact (H f Ia Ib).
Qed.

Lemma disjointb_spec : forall a b, disjointb a b = true -> forall x, In x a -> ~ In x b.
Proof.
  intros a b H x Hx Hb. unfold disjointb in H. rewrite forallb_forall in H. specialize (H x Hx).
  apply mem_In in Hb. rewrite Hb in H. discriminate.
Qed.

Lemma nodupb_NoDup : forall l, nodupb l = true -> NoDup l.
Proof.
  induction l as [|x l IH]; intros H; [constructor|]. cbn in H. apply andb_true_iff in H. destruct H as [H1 H2].
  constructor; [|apply IH; exact H2]. intros X. apply mem_In in X. rewrite X in H1. discriminate.
Qed.

(* calc_cols looks at the table only through the input columns *)
Lemma calc_cols_ext : forall n ds t t', (forall f, In f (reads ds) -> lookup t f = lookup t' f) -> calc_cols n t ds = calc_cols n t' ds.
Proof.
  intros n. induction ds as [|d ds IH]; intros t t' H; [reflexivity|]. cbn [calc_cols].
  assert (E : map (lookup t) (inputs d) = map (lookup t') (inputs d)).
  { apply map_ext_in. intros f Hf. apply H. unfold reads. cbn. apply in_or_app. left. exact Hf. }
  rewrite E. rewrite (IH t t'); [reflexivity|]. intros f Hf. apply H. unfold reads. cbn. apply in_or_app. right. exact Hf.
Qed.

Lemma calc_cols_names : forall n ds t new, calc_cols n t ds = inl new -> map fst new = names ds.
Proof.
  intros n. induction ds as [|d ds IH]; intros t new H; cbn in H.
  - injection H as <-. reflexivity.
  - destruct (all_some (map (lookup t) (inputs d))) as [cols|]; [|discriminate].
    destruct (calc_cols n t ds) as [rest|f] eqn:E; [|discriminate]. injection H as <-. cbn. f_equal. exact (IH t rest E).
Qed.

Lemma calc_cols_eqv : forall n ds t t', table_eqv t t' -> calc_cols n t ds = calc_cols n t' ds.
Proof. intros n ds t t' H. apply calc_cols_ext. intros f _. apply H. Qed.

(* same failure, or both succeed with equivalent stores *)
Definition outcome_eqvx (o1 o2 : outcome) : Prop :=
  match o1, o2 with
  | Ok s1, Ok s2 => store_eqv s1 s2
  | Ok _, _ => False
  | _, Ok _ => False
  | _, _ => o1 = o2
  end.
Lemma outcome_eqvx_loose : forall a b, outcome_eqvx a b -> outcome_eqv a b.
Proof. intros [a| |] [b| |]; cbn; auto. Qed.

Lemma step_eqv : forall n a s1 s2, store_eqv s1 s2 -> outcome_eqvx (step n s1 a) (step n s2 a).
Proof.
  intros n [o cols|o ds|a b] s1 s2 H; cbn [step].
  - cbn. apply store_eqv_set; [exact H | apply table_eqv_refl].
  - pose proof (H o) as Ho. destruct (get_obj s1 o) as [t1|], (get_obj s2 o) as [t2|]; cbn in Ho; try contradiction; [|reflexivity].
    rewrite (calc_cols_eqv n ds t1 t2 Ho). destruct (calc_cols n t2 ds) as [new|f]; cbn; [|reflexivity].
    apply store_eqv_set; [exact H | apply table_eqv_app; exact Ho].
  - pose proof (H a) as Ho. destruct (get_obj s1 a) as [t1|], (get_obj s2 a) as [t2|]; cbn in Ho; try contradiction; [|reflexivity].
    cbn. apply store_eqv_set; assumption.
Qed.

Lemma exec_eqv : forall n l s1 s2, store_eqv s1 s2 -> outcome_eqvx (exec n s1 l) (exec n s2 l).
Proof.
  intros n l. induction l as [|a l IH]; intros s1 s2 H; cbn [exec]; [exact H|].
  pose proof (step_eqv n a s1 s2 H) as E.
  destruct (step n s1 a) as [t1|f1|o1], (step n s2 a) as [t2|f2|o2]; cbn in E; try contradiction;
    try (apply IH; exact E); exact E.
Qed.

Lemma obind_eqv : forall n l o1 o2, outcome_eqv o1 o2 ->
  outcome_eqv (obind o1 (fun s => exec n s l)) (obind o2 (fun s => exec n s l)).
Proof.
  intros n l [s1| |] [s2| |] H; cbn in *; try contradiction; auto.
  apply outcome_eqvx_loose, exec_eqv. exact H.
Qed.

Lemma aindep_sym : forall a b, aindep a b = aindep b a.
Proof.
  intros a b. unfold aindep. rewrite (independent_sym a b). f_equal.
  destruct a as [o1 c1|o1 ds1|a1 b1], b as [o2 c2|o2 ds2|a2 b2]; try reflexivity. cbn.
  rewrite (Nat.eqb_sym o1 o2). f_equal. unfold cols_compat.
  assert (D : forall x y, disjointb x y = disjointb y x).
  { intros x y. destruct (disjointb x y) eqn:E1, (disjointb y x) eqn:E2; try reflexivity; exfalso.
    - unfold disjointb in E2. apply not_true_iff_false in E2. apply E2. apply forallb_forall. intros z Hz.
      destruct (Orch.mem z x) eqn:M; [|reflexivity]. apply mem_In in M. exfalso. exact (disjointb_spec x y E1 z M Hz).
    - unfold disjointb in E1. apply not_true_iff_false in E1. apply E1. apply forallb_forall. intros z Hz.
      destruct (Orch.mem z y) eqn:M; [|reflexivity]. apply mem_In in M. exfalso. exact (disjointb_spec y x E2 z M Hz). }
  rewrite (D (names ds1) (names ds2)).
  destruct (disjointb (names ds2) (names ds1)), (disjointb (reads ds1) (names ds2)), (disjointb (reads ds2) (names ds1)); reflexivity.
Qed.

(* two calculations on one object that touch different columns: both orders give the same columns *)
Lemma ipc_commute : forall n s a b, ipc a b = true -> outcome_eqv (exec n s [a; b]) (exec n s [b; a]).
Proof.
  intros n s [o1 c1|o1 ds1|a1 b1] [o2 c2|o2 ds2|a2 b2] H; try discriminate H. cbn in H.
  apply andb_true_iff in H. destruct H as [Ho H]. apply Nat.eqb_eq in Ho. subst o2.
  unfold cols_compat in H. apply andb_true_iff in H. destruct H as [H H3]. apply andb_true_iff in H. destruct H as [H1 H2].
  rewrite !exec_two. cbn [step]. destruct (get_obj s o1) as [t|] eqn:G; [|exact I].
  destruct (calc_cols n t ds1) as [n1|f1] eqn:C1, (calc_cols n t ds2) as [n2|f2] eqn:C2; cbn [step]; rewrite ?get_set, ?Nat.eqb_refl.
  - assert (E2 : calc_cols n (n1 ++ t) ds2 = inl n2).
    { rewrite <- C2. apply calc_cols_ext. intros f Hf. rewrite lookup_app, lookup_notin; [reflexivity|].
      rewrite (calc_cols_names n ds1 t n1 C1). exact (disjointb_spec _ _ H3 f Hf). }
    assert (E1 : calc_cols n (n2 ++ t) ds1 = inl n1).
    { rewrite <- C1. apply calc_cols_ext. intros f Hf. rewrite lookup_app, lookup_notin; [reflexivity|].
      rewrite (calc_cols_names n ds2 t n2 C2). exact (disjointb_spec _ _ H2 f Hf). }
    rewrite E1, E2. cbn. intros o. rewrite !get_set. destruct (Nat.eqb o1 o); [|apply otable_eqv_refl]. cbn.
    apply table_eqv_swap. rewrite (calc_cols_names n ds1 t n1 C1), (calc_cols_names n ds2 t n2 C2).
    intros f Ha Hb. exact (disjointb_spec _ _ H1 f Hb Ha).
  - assert (E2 : calc_cols n (n1 ++ t) ds2 = inr f2).
    { rewrite <- C2. apply calc_cols_ext. intros f Hf. rewrite lookup_app, lookup_notin; [reflexivity|].
      rewrite (calc_cols_names n ds1 t n1 C1). exact (disjointb_spec _ _ H3 f Hf). }
    rewrite E2. exact I.
  - assert (E1 : calc_cols n (n2 ++ t) ds1 = inr f1).
    { rewrite <- C1. apply calc_cols_ext. intros f Hf. rewrite lookup_app, lookup_notin; [reflexivity|].
      rewrite (calc_cols_names n ds2 t n2 C2). exact (disjointb_spec _ _ H2 f Hf). }
    rewrite E1. exact I.
  - exact I.
Qed.

Lemma aindep_commute : forall n s a b, aindep a b = true -> outcome_eqv (exec n s [a; b]) (exec n s [b; a]).
Proof.
  intros n s a b H. unfold aindep in H. apply orb_true_iff in H. destruct H as [H|H].
  - apply outcome_eq_eqv, pair_commute_l. exact H.
  - apply ipc_commute. exact H.
Qed.

Lemma gswaps_outcome : forall n l1 l2, gswaps aindep l1 l2 -> forall s, outcome_eqv (exec n s l1) (exec n s l2).
Proof.
  intros n l1 l2 H. induction H as [l|l1 a b l2 Hi|l1 l2 l3 _ IH1 _ IH2]; intros s.
  - apply outcome_eqv_refl.
  - rewrite !exec_app. destruct (exec n s l1) as [s0| |]; cbn [obind outcome_eqv]; auto.
    change (a :: b :: l2) with ([a; b] ++ l2). change (b :: a :: l2) with ([b; a] ++ l2).
    rewrite !exec_app. apply obind_eqv. apply aindep_commute. exact Hi.
  - eapply outcome_eqv_trans; [apply IH1 | apply IH2].
Qed.

(* ------------------------------------------------------------------ C. one column at a time *)
Definition expand (x : xaction) : list action :=
  match x with XRepl a => [a] | XInpl _ o ds => map (fun d => ACalc o [d]) ds end.

Lemma calc_cols_one : forall n t d, calc_cols n t [d] =
  match all_some (map (lookup t) (inputs d)) with Some cols => inl [(fname d, compute n d cols)] | None => inr (fname d) end.
Proof. intros n t d. cbn. destruct (all_some (map (lookup t) (inputs d))); reflexivity. Qed.

(* running the one-column calculations of ds on an object whose table u agrees with t on the inputs of ds *)
Lemma expand_run : forall n o ds t u s l,
  NoDup (names ds) -> (forall f, In f (reads ds) -> ~ In f (names ds)) ->
  get_obj s o = Some u -> (forall f, In f (reads ds) -> lookup u f = lookup t f) ->
  match calc_cols n t ds with
  | inl new => exists s' u', exec n s (map (fun d => ACalc o [d]) ds ++ l) = exec n s' l
                             /\ get_obj s' o = Some u' /\ table_eqv u' (new ++ u)
                             /\ (forall o', o' <> o -> get_obj s' o' = get_obj s o')
  | inr f => exists e, exec n s (map (fun d => ACalc o [d]) ds ++ l) = e /\ forall s', e <> Ok s'
  end.
Proof.
  intros n o. induction ds as [|d ds IH]; intros t u s l ND HR G HA.
  - cbn. exists s, u. repeat split; auto; try apply table_eqv_refl.
  - cbn [map app exec step]. rewrite G, calc_cols_one. cbn [calc_cols].
    assert (E : map (lookup u) (inputs d) = map (lookup t) (inputs d)).
    { apply map_ext_in. intros f Hf. apply HA. unfold reads. cbn. apply in_or_app. left. exact Hf. }
    rewrite E. destruct (all_some (map (lookup t) (inputs d))) as [cols|].
    + cbn in ND. apply NoDup_cons_iff in ND. destruct ND as [N1 N2].
      set (u1 := [(fname d, compute n d cols)] ++ u). set (s1 := set_obj s o u1).
      specialize (IH t u1 s1 l N2).
      assert (HR' : forall f, In f (reads ds) -> ~ In f (names ds)).
      { intros f Hf X. apply (HR f); [unfold reads; cbn; apply in_or_app; right; exact Hf | right; exact X]. }
      assert (G1 : get_obj s1 o = Some u1) by (unfold s1; rewrite get_set, Nat.eqb_refl; reflexivity).
      assert (HA1 : forall f, In f (reads ds) -> lookup u1 f = lookup t f).
      { intros f Hf. unfold u1. cbn [app lookup]. destruct (Nat.eqb (fname d) f) eqn:Ef.
        - apply Nat.eqb_eq in Ef. exfalso. apply (HR f); [unfold reads; cbn; apply in_or_app; right; exact Hf | left; exact Ef].
        - apply HA. unfold reads. cbn. apply in_or_app. right. exact Hf. }
      specialize (IH HR' G1 HA1). destruct (calc_cols n t ds) as [rest|f] eqn:CR.
      * destruct IH as (s' & u' & X1 & X2 & X3 & X4). exists s', u'. split; [exact X1|]. split; [exact X2|]. split.
        -- eapply table_eqv_trans; [exact X3|]. unfold u1.
           change (((fname d, compute n d cols) :: rest) ++ u) with ([(fname d, compute n d cols)] ++ rest ++ u).
           apply table_eqv_swap. intros f Hf [Hd|[]]. cbn in Hd. subst f.
           rewrite (calc_cols_names n ds t rest CR) in Hf. exact (N1 Hf).
        -- intros o' Ho. rewrite (X4 o' Ho). unfold s1. rewrite get_set.
           destruct (Nat.eqb o o') eqn:Eo; [apply Nat.eqb_eq in Eo; congruence | reflexivity].
      * exact IH.
    + eexists. split; [reflexivity | intros s'; discriminate].
Qed.

Lemma self_ok_inpl : forall sty o ds, self_ok (XInpl sty o ds) = true ->
  ds <> [] /\ NoDup (names ds) /\ (forall f, In f (reads ds) -> ~ In f (names ds)).
Proof.
  intros sty o ds H. cbn in H. apply andb_true_iff in H. destruct H as [H H3]. apply andb_true_iff in H. destruct H as [H1 H2].
  split; [intros ->; discriminate H1|]. split; [apply nodupb_NoDup; exact H2 | exact (disjointb_spec _ _ H3)].
Qed.

Lemma expand_step : forall n x s l, self_ok x = true -> outcome_eqv (exec n s (expand x ++ l)) (exec n s (base x :: l)).
Proof.
  intros n [a|sty o ds] s l H; [apply outcome_eqv_refl|].
  destruct (self_ok_inpl sty o ds H) as (Hne & ND & HR). cbn [expand base]. cbn [exec step].
  destruct (get_obj s o) as [t|] eqn:G.
  - pose proof (expand_run n o ds t t s l ND HR G (fun f _ => eq_refl)) as X.
    destruct (calc_cols n t ds) as [new|f].
    + destruct X as (s' & u' & X1 & X2 & X3 & X4). rewrite X1. apply outcome_eqvx_loose, exec_eqv.
      intros o'. rewrite get_set. destruct (Nat.eqb o o') eqn:E.
      * apply Nat.eqb_eq in E. subst o'. rewrite X2. exact X3.
      * rewrite X4; [apply otable_eqv_refl | apply Nat.eqb_neq in E; congruence].
    + destruct X as (e & -> & X). destruct e as [s'| |]; [exfalso; exact (X s' eq_refl) | exact I | exact I].
  - destruct ds as [|d ds]; [congruence|]. cbn [map app exec step]. rewrite G. exact I.
Qed.

Lemma expand_all : forall n xs s, (forall x, In x xs -> self_ok x = true) ->
  outcome_eqv (exec n s (flat_map expand xs)) (exec n s (map base xs)).
Proof.
  intros n. induction xs as [|x xs IH]; intros s H; [apply outcome_eqv_refl|]. cbn [flat_map map].
  eapply outcome_eqv_trans; [apply expand_step; apply H; left; reflexivity|]. cbn [exec].
  destruct (step n s (base x)) as [s'| |]; [|exact I|exact I]. apply IH. intros y Hy. apply H. right. exact Hy.
Qed.
