(* Stage B1, part 3: where add_tfs has no choice to make (PlannerB.kf_tfs_choice ord g = false: the features of every step
   have the same ancestors, and no two constructed TransformFrameworkSteps are equal for __eq__) every constructed step is
   kept, and the plan satisfies the STRONG form of the transform-step specification: every feature-group step directly
   requires, for each of its maximal inputs on another framework, a transform step that directly requires that input. *)
From Coq Require Import List Bool Arith Lia Permutation.
Import ListNotations.
Require Import MV.Model.Orch MV.Model.OrchCheck MV.Model.Grouping MV.Model.PlannerA MV.Spec.PlannerASpec.
Require Import MV.Model.PlannerB MV.Spec.PlannerBSpec.
Require Import MV.Proofs.OrchP MV.Proofs.OrchTermP MV.Proofs.PlannerASets MV.Proofs.PlannerAGraph MV.Proofs.PlannerAQueue.
Require Import MV.Proofs.PlannerALevels MV.Proofs.PlannerAOrder MV.Proofs.PlanSimP MV.Proofs.PlannerAP MV.Proofs.PlannerBErase.
Require Import MV.Proofs.PlannerBP MV.Proofs.PlannerBWf.

Lemma knodup_NoDup : forall l, knodup l = true -> NoDup l.
Proof.
  intros l. induction l as [|k l IH]; intros H; [constructor|]. cbn in H. apply andb_true_iff in H. destruct H as [H1 H2].
  constructor; [|exact (IH H2)]. apply negb_true_iff in H1. apply kmem_false. exact H1.
Qed.

Lemma NoDup_app_parts : forall (A : Type) (a b : list A), NoDup (a ++ b) -> NoDup a /\ NoDup b /\ (forall x, In x a -> ~ In x b).
Proof.
  intros A a b H. induction a as [|x a IH]; cbn in H.
  - split; [constructor|]. split; [exact H|]. intros x [].
  - apply NoDup_cons_iff in H. destruct H as [Hx H]. destruct (IH H) as (I1 & I2 & I3). split; [|split; [exact I2|]].
    + constructor; [|exact I1]. intros Hin. apply Hx. apply in_or_app. left. exact Hin.
    + intros y [Hy|Hy]; [subst y; intros Hb; apply Hx; apply in_or_app; right; exact Hb | exact (I3 y Hy)].
Qed.

Lemma filter_all_true : forall (A : Type) (f : A -> bool) l, (forall x, In x l -> f x = true) -> filter f l = l.
Proof.
  intros A f l H. induction l as [|x l IH]; [reflexivity|]. cbn. rewrite (H x (or_introl eq_refl)). f_equal. apply IH.
  intros y Hy. apply H. right. exact Hy.
Qed.

Lemma set_eqb_spec_local : forall a b, set_eqb a b = true -> forall x, In x a <-> In x b.
Proof.
  intros a b H x. unfold set_eqb in H. apply andb_true_iff in H. destruct H as [H1 H2].
  apply subset_incl in H1, H2. split; [apply H1 | apply H2].
Qed.

Section Choice.
  Variables (ord : oparam) (g : fgraph).
  Hypothesis Hord : ord_ok ord.
  Hypothesis Hok : graph_ok g.
  Hypothesis Hgc : group_cfw g.

  Local Notation cl := (p2c_of g).
  Local Notation R := (raw_plan ord g).
  Local Notation P := (raw_plan_B ord g).
  Local Notation XP := (plan_B ord g).

  Definition dkeys (raw : list step) : list tkey := flat_map (fun s => map (key_of g (any_of s)) (dem ord g s)) raw.

  Lemma demand_keys_dkeys : demand_keys ord g = dkeys R.
  Proof. reflexivity. Qed.

  (* when all demanded keys are distinct, every constructed transform step is kept *)
  Lemma all_new_gen : forall raw keys nc nd, NoDup (keys ++ dkeys raw) ->
    forall x, In x (evs_of ord g (keys, nc, nd) raw) -> forall e, In e (snd x) -> te_new e = true.
  Proof.
    intros raw. induction raw as [|s t IH]; intros keys nc nd Hnd x Hx e He; [destruct Hx|].
    cbn [evs_of] in Hx. cbn [dkeys flat_map] in Hnd. fold (dkeys t) in Hnd.
    destruct (NoDup_app_parts _ _ _ Hnd) as (_ & Hr & Hdisj).
    destruct (NoDup_app_parts _ _ _ Hr) as (Hds & _ & _).
    assert (Hfresh : forall e0, In e0 (snd (tfs_loop (tbase g) (key_of g (any_of s)) (keys, nc, nd) (dem ord g s))) -> te_new e0 = true).
    { apply (tfs_loop_fresh (tbase g) (key_of g (any_of s)) (dem ord g s) keys nc nd Hds).
      intros p Hp Hin. apply (Hdisj _ Hin). apply in_or_app. left. apply (in_map (key_of g (any_of s))). exact Hp. }
    destruct Hx as [Hx|Hx].
    - subst x. cbn [snd] in He. exact (Hfresh e He).
    - destruct (tfs_loop_spec (tbase g) (key_of g (any_of s)) (dem ord g s) keys nc nd)
        as (k1 & c1 & d1 & E1 & _ & _ & L3 & L4 & _ & _ & L7 & _).
      rewrite E1 in Hx. refine (IH k1 c1 d1 _ x Hx e He).
      rewrite L7, (filter_all_true _ _ _ Hfresh).
      set (EV := snd (tfs_loop (tbase g) (key_of g (any_of s)) (keys, nc, nd) (dem ord g s))) in *.
      assert (Ek : map te_key EV = map (key_of g (any_of s)) (dem ord g s)).
      { transitivity (map (key_of g (any_of s)) (map te_parent EV)); [|rewrite L3; reflexivity].
        rewrite map_map. apply map_ext_in. intros a Ha. exact (L4 a Ha). }
      rewrite Ek, <- app_assoc. exact Hnd.
  Qed.

  Hypothesis Hfree : kf_tfs_choice ord g = false.

  Lemma choice_uniform : forall s, In s R -> forall f a, In f (uuids s) -> (In a (aget0 f cl) <-> In a (aget0 (any_of s) cl)).
  Proof.
    intros s Hs f a Hf. unfold kf_tfs_choice in Hfree. apply negb_false_iff in Hfree. apply andb_true_iff in Hfree.
    destruct Hfree as [Hu _]. rewrite forallb_forall in Hu. specialize (Hu s Hs). unfold step_uniform in Hu.
    rewrite forallb_forall in Hu. specialize (Hu f Hf). exact (set_eqb_spec_local _ _ Hu a).
  Qed.

  Lemma choice_all_new : forall x, In x (E0 ord g) -> forall e, In e (snd x) -> te_new e = true.
  Proof.
    unfold kf_tfs_choice in Hfree. apply negb_false_iff in Hfree. apply andb_true_iff in Hfree. destruct Hfree as [_ Hk].
    apply knodup_NoDup in Hk. rewrite demand_keys_dkeys in Hk. unfold E0. apply all_new_gen. cbn [app]. exact Hk.
  Qed.

  Theorem choice_free_direct : tfs_spec_direct g XP.
  Proof.
    intros c u Hc Hfg [[f [Hf Hanc]] Hmax] Hcf.
    destruct (in_plan_B ord g c Hc) as (j & b0 & _ & Ec & Hb0). subst c.
    assert (Hfg0 : is_fg b0 = true) by exact Hfg.
    apply (in_planB_raw ord g) in Hb0. destruct Hb0 as [x [Hx [Eb|[e0 [_ [_ Eb]]]]]]; subst b0;
      [|unfold is_fg in Hfg0; rewrite kind_mk_tfs in Hfg0; discriminate].
    destruct (E0_spec ord g) as (_ & _ & _ & S3). destruct (S3 x Hx) as (Hs & Hd & Hk).
    set (s := fst x) in *. set (evs := snd x) in *.
    cbn [bs bset_sid mk_fg uuids set_sid b_cfw] in Hf, Hcf, Hmax.
    pose proof (any_in_step ord g Hord Hok Hgc s Hs) as Hany.
    (* u is a maximal cross-framework ancestor of any_uuid *)
    assert (Hua : anc g u (any_of s)).
    { apply (closure_anc g Hok). apply (choice_uniform s Hs f u Hf). apply (closure_anc g Hok). exact Hanc. }
    assert (Hdem : In u (dem ord g s)).
    { apply (dem_spec ord g Hord Hok). split; [exact Hua|]. split.
      - intros v Hv. apply Hmax. exists (any_of s). split; [exact Hany | exact Hv].
      - exact Hcf. }
    rewrite <- Hd in Hdem. apply in_map_iff in Hdem. destruct Hdem as [e [Ee He]].
    pose proof (choice_all_new x Hx e He) as Hnew.
    assert (Ht0 : In (mk_tfs e) P).
    { apply (in_planB_raw ord g). exists x. split; [exact Hx|]. right. exists e. repeat split; assumption. }
    destruct (In_nth_error _ _ Ht0) as [k Hk0]. pose proof (bnumber_In P 0 k (mk_tfs e) Hk0) as Ht.
    exists (bset_sid (0 + k) (mk_tfs e)). unfold serves_directly. split; [exact Ht|].
    pose proof (key_mk_tfs e) as Ekey. rewrite (Hk e He), Ee in Ekey. unfold key_of in Ekey. injection Ekey as K1 K2 K3 K4.
    split; [unfold is_tfs; cbn [bs bset_sid]; unfold set_sid; cbn [skind]; rewrite kind_mk_tfs; reflexivity|].
    cbn [b_from b_cfw b_fgrp b_grp bset_sid mk_fg bs uuids req set_sid].
    split; [exact K1|]. split; [exact K2|]. split; [exact K3|]. split; [exact K4|]. split.
    - exists (te_id e). split; [apply uuids_mk_tfs|]. apply in_or_app. right. apply in_map. apply filter_In. split; assumption.
    - rewrite req_mk_tfs, Ee. left. reflexivity.
  Qed.
End Choice.
