(* Lemmas for the time part of C11: conversion of aware datetimes to UTC (Model/TimeFilter.v). *)
From Coq Require Import List String ZArith Bool Lia.
Import ListNotations.
Require Import MV.Spec.Filter MV.Model.TimeFilter.
Open Scope Z_scope.

(* equal instants give equal strings, whatever wall clock / offset they were written with *)
Lemma utc_same_instant_l : forall x y ox oy,
  off x = Some ox -> off y = Some oy -> instant x ox = instant y oy -> convert x = convert y.
Proof. intros x y ox oy Hx Hy H. unfold convert. now rewrite Hx, Hy, H. Qed.

Lemma naive_rejected_l : forall x, off x = None -> convert x = TValueError.
Proof. intros x H. unfold convert. now rewrite H. Qed.

(* ---------- the calendar round trip, by evaluation over a finite range of days ---------- *)
Fixpoint all_from (n : nat) (d : Z) (p : Z -> bool) : bool :=
  match n with
  | 0%nat => true
  | S n' => p d && all_from n' (d + 1) p
  end.

Lemma all_from_spec : forall n d p, all_from n d p = true -> forall z, d <= z < d + Z.of_nat n -> p z = true.
Proof.
  induction n as [|n IH]; intros d p H z Hz.
  - simpl in Hz. lia.
  - simpl in H. apply andb_true_iff in H. destruct H as [H1 H2].
    destruct (Z.eq_dec z d) as [->|Hne]; [exact H1|].
    apply (IH (d + 1) p H2). lia.
Qed.

Definition day_ok (d : Z) : bool :=
  match civil_from_days d with
  | (y, m, dd) => (days_from_civil y m dd =? d) && (1 <=? m) && (m <=? 12) && (1 <=? dd) && (dd <=? 31)
                  && (1900 <=? y) && (y <? 2200)
  end.

(* 1900-01-01 .. 2199-12-31 *)
Definition DAY_LO : Z := -25567.
Definition DAY_HI : Z := 84006.

Lemma days_checked : all_from (Z.to_nat (DAY_HI - DAY_LO)) DAY_LO day_ok = true.
Proof. vm_cast_no_check (eq_refl true). Qed.   (* checked by the kernel's VM at Qed, once *)

Lemma day_ok_range : forall d, DAY_LO <= d < DAY_HI -> day_ok d = true.
Proof.
  intros d H. apply (all_from_spec _ _ _ days_checked).
  rewrite Z2Nat.id by (unfold DAY_HI, DAY_LO; lia). lia.
Qed.

Lemma day_ok_fields : forall d y m dd, DAY_LO <= d < DAY_HI -> civil_from_days d = (y, m, dd) ->
  days_from_civil y m dd = d /\ 1 <= m <= 12 /\ 1 <= dd <= 31 /\ 1900 <= y < 2200.
Proof.
  intros d y m dd Hd E. pose proof (day_ok_range d Hd) as Hok. unfold day_ok in Hok. rewrite E in Hok.
  repeat (apply andb_true_iff in Hok; destruct Hok as [Hok ?]).
  apply Z.eqb_eq in Hok. lia.
Qed.

Lemma clock_recompose : forall r, 0 <= r < US_DAY ->
  let sod := r / US_SEC in
  clock_us (sod / 3600) ((sod mod 3600) / 60) ((sod mod 3600) mod 60) (r mod US_SEC) = r.
Proof.
  intros r Hr sod. unfold clock_us. subst sod. unfold US_SEC, US_DAY in *.
  pose proof (Z.div_mod r 1000000 ltac:(lia)) as E1.
  set (sod := r / 1000000) in *.
  pose proof (Z.div_mod sod 3600 ltac:(lia)) as E2.
  pose proof (Z.div_mod (sod mod 3600) 60 ltac:(lia)) as E3.
  set (a := sod / 3600) in *. set (b := sod mod 3600) in *.
  set (c := b / 60) in *. set (e := b mod 60) in *. set (u := r mod 1000000) in *.
  lia.
Qed.

Lemma clock_fields_range : forall r, 0 <= r < US_DAY ->
  let sod := r / US_SEC in
  0 <= sod / 3600 < 24 /\ 0 <= (sod mod 3600) / 60 < 60 /\ 0 <= (sod mod 3600) mod 60 < 60 /\ 0 <= r mod US_SEC < US_SEC.
Proof.
  intros r Hr sod. subst sod. unfold US_SEC, US_DAY in *.
  assert (0 <= r / 1000000 < 86400) as Hs.
  { split; [apply Z.div_pos; lia | apply Z.div_lt_upper_bound; lia]. }
  set (sod := r / 1000000) in *.
  pose proof (Z.mod_pos_bound sod 3600 ltac:(lia)) as Hb.
  repeat split; try (apply Z.mod_pos_bound; lia); try (apply Z.div_pos; lia);
    try (apply Z.div_lt_upper_bound; lia).
Qed.

(* the UTC fields produced for an instant denote that instant (1900 <= year < 2200) *)
Lemma utc_denotes_instant_l : forall i, DAY_LO * US_DAY <= i < DAY_HI * US_DAY ->
  instant (utc_of_instant i) 0 = i /\ off (utc_of_instant i) = Some 0.
Proof.
  intros i Hi. unfold utc_of_instant.
  assert (0 < US_DAY) as Hpos by (unfold US_DAY; lia).
  assert (DAY_LO <= i / US_DAY < DAY_HI) as Hd.
  { split; [apply Z.div_le_lower_bound; lia | apply Z.div_lt_upper_bound; lia]. }
  destruct (civil_from_days (i / US_DAY)) as [[y m] d] eqn:E.
  destruct (day_ok_fields _ _ _ _ Hd E) as (Hok & _).
  split; [|reflexivity].
  unfold instant, wall_us; simpl. rewrite Hok.
  rewrite (clock_recompose (i mod US_DAY)) by (apply Z.mod_pos_bound; lia).
  pose proof (Z.div_mod i US_DAY ltac:(lia)). lia.
Qed.

(* hence different instants never get the same UTC fields *)
Lemma utc_injective_l : forall i j,
  DAY_LO * US_DAY <= i < DAY_HI * US_DAY -> DAY_LO * US_DAY <= j < DAY_HI * US_DAY ->
  utc_of_instant i = utc_of_instant j -> i = j.
Proof.
  intros i j Hi Hj H.
  destruct (utc_denotes_instant_l i Hi) as [<- _]. destruct (utc_denotes_instant_l j Hj) as [<- _]. now rewrite H.
Qed.

Lemma utc_fields_range_l : forall i, DAY_LO * US_DAY <= i < DAY_HI * US_DAY ->
  let u := utc_of_instant i in
  1900 <= yr u < 2200 /\ 1 <= mo u <= 12 /\ 1 <= dy u <= 31 /\ 0 <= hh u < 24 /\ 0 <= mi u < 60 /\ 0 <= ss u < 60 /\
  0 <= us u < 1000000.
Proof.
  intros i Hi. unfold utc_of_instant.
  assert (0 < US_DAY) as Hpos by (unfold US_DAY; lia).
  assert (DAY_LO <= i / US_DAY < DAY_HI) as Hd.
  { split; [apply Z.div_le_lower_bound; lia | apply Z.div_lt_upper_bound; lia]. }
  destruct (civil_from_days (i / US_DAY)) as [[y m] d] eqn:E.
  destruct (day_ok_fields _ _ _ _ Hd E) as (Hok & Hm & Hdd & Hy).
  destruct (clock_fields_range (i mod US_DAY) ltac:(apply Z.mod_pos_bound; lia)) as (K1 & K2 & K3 & K4).
  simpl. unfold US_SEC in *. lia.
Qed.

(* the range filter added for a time window carries exactly the two converted bounds *)
Lemma time_filter_denotes_l : forall col a b excl f,
  time_filter col a b excl = Some f ->
  exists sa sb, convert a = TOk sa /\ convert b = TOk sb /\ f_col f = col /\
                denote f = Some (CRange (VStr sa) (VStr sb) excl).
Proof.
  intros col a b excl f H. unfold time_filter in H.
  destruct (convert a) as [sa| |]; try discriminate. destruct (convert b) as [sb| |]; try discriminate.
  inversion H; subst. exists sa, sb. repeat split.
Qed.
