(* Source-text tie, C15 (round 2): Options.update_with_protected_keys and the two OptionsValidator conflict checks regenerated
   from options.py / options_validator.py (Gen/SrcOpt.v) against Options.o_update.  The value under feature_chainer_parser_key
   (possibly a set) and the set of protected keys are iterated in an order the program does not determine: the generated
   definition takes an oracle `ord : nat -> list pykey -> list pykey`; the theorem holds for every oracle that returns the
   same keys (kmem-equivalent lists), which is all an iteration order can change. *)
From Coq Require Import List Bool ZArith String Arith.
Import ListNotations.
Require Import MV.Model.PySem MV.Gen.SrcOpt.
Require Import MV.Model.Options MV.Model.PyObjOpt MV.Spec.OptionsSpec MV.Proofs.OptionsP MV.Proofs.SrcTieOptP.

Local Notation loop1 := Options_update_with_protected_keys_loop1.
Local Notation loop2 := Options_update_with_protected_keys_loop2.
Local Notation loop3 := Options_update_with_protected_keys_loop3.

Lemma filter_ext_local : forall (A : Type) (f g : A -> bool) l, (forall x, f x = g x) -> filter f l = filter g l.
Proof. intros A f g l H. induction l as [|x l IH]; [reflexivity|]. cbn [filter]. rewrite H, IH. reflexivity. Qed.

(* ---------- the two validators ---------- *)
Lemma inter_nonempty : forall a b, py_nonempty (py_inter key_eqb a b) = existsb (fun k => kmem k b) a.
Proof.
  intros a b. unfold py_inter. induction a as [|x a IH]; [reflexivity|].
  cbn [filter existsb]. change (py_in key_eqb x b) with (kmem x b). destruct (kmem x b); [reflexivity|exact IH].
Qed.

Lemma validate_no_group_context_conflicts_src : forall a b,
  OptionsValidator_validate_no_group_context_conflicts a b = if existsb (fun k => kmem k b) a then Raise ValueError else Ok tt.
Proof. intros. unfold OptionsValidator_validate_no_group_context_conflicts. cbv zeta. rewrite inter_nonempty. reflexivity. Qed.

Lemma validate_no_context_group_conflicts_src : forall a b,
  OptionsValidator_validate_no_context_group_conflicts a b = if existsb (fun k => kmem k b) a then Raise ValueError else Ok tt.
Proof. intros. unfold OptionsValidator_validate_no_context_group_conflicts. cbv zeta. rewrite inter_nonempty. reflexivity. Qed.

(* ---------- protected_keys.add(key) for every key of the parser-key value ---------- *)
Lemma kmem_union_single : forall k pk x, kmem k (py_union key_eqb pk [x]) = (kmem k pk || key_eqb k x)%bool.
Proof.
  intros k pk x. unfold py_union, py_diff. cbn [filter]. change (py_in key_eqb x pk) with (kmem x pk).
  unfold kmem at 1. rewrite existsb_app. fold (kmem k pk).
  destruct (kmem x pk) eqn:Ex; cbn [negb existsb]; [|rewrite orb_false_r; reflexivity].
  rewrite orb_false_r. destruct (key_eqb k x) eqn:Ekx; [|rewrite orb_false_r; reflexivity].
  rewrite (kmem_congr k x pk Ekx), Ex. reflexivity.
Qed.

Lemma update_loop1_src : forall l pk, exists pk', loop1 l pk = Fall pk' /\ forall k, kmem k pk' = (kmem k pk || kmem k l)%bool.
Proof.
  induction l as [|x l IH]; intros pk.
  - exists pk. split; [reflexivity|]. intros k. cbn. rewrite orb_false_r. reflexivity.
  - cbn [Options_update_with_protected_keys_loop1]. cbv zeta.
    destruct (IH (py_union key_eqb pk [x])) as [pk' [H1 H2]]. exists pk'. split; [exact H1|].
    intros k. rewrite H2, kmem_union_single. unfold kmem at 4. cbn [existsb]. fold (kmem k l). rewrite orb_assoc. reflexivity.
Qed.

(* ---------- for protected_key in protected_keys: if protected_key in copy: del copy[protected_key] ---------- *)
Lemma filter_true_in : forall (A : Type) (f : A -> bool) l, (forall x, In x l -> f x = true) -> filter f l = l.
Proof.
  intros A f l. induction l as [|x l IH]; intros H; [reflexivity|].
  cbn [filter]. rewrite (H x (or_introl eq_refl)), IH; [reflexivity|]. intros y Hy. apply H. right. exact Hy.
Qed.

Lemma dict_del_filter : forall k (d : dict), nodupk (dkeys d) -> py_dict_mem key_eqb k d = true ->
  py_dict_del key_eqb d k = Ok (filter (fun kv => negb (key_eqb k (fst kv))) d).
Proof.
  intros k d. induction d as [|[k' v] d IH]; intros ND Hm; [discriminate|].
  unfold nodupk in ND. cbn [dkeys map fst nodupkb] in ND. apply andb_true_iff in ND. destruct ND as [Hk' ND].
  cbn [py_dict_del filter fst]. destruct (key_eqb k k') eqn:E; cbn [negb].
  - f_equal. symmetry. apply filter_true_in. intros kv Hin.
    destruct (key_eqb k (fst kv)) eqn:E2; [|reflexivity]. exfalso.
    apply negb_true_iff in Hk'.
    assert (kmem k' (map fst d) = true) as C.
    { unfold kmem. apply existsb_exists. exists (fst kv). split; [apply in_map; exact Hin|].
      apply (key_eqb_trans k' k (fst kv)); [rewrite key_eqb_sym; exact E|exact E2]. }
    rewrite C in Hk'. discriminate.
  - unfold py_dict_mem in Hm. cbn [existsb fst] in Hm. rewrite E in Hm. cbn [orb] in Hm.
    rewrite (IH ND Hm). reflexivity.
Qed.

Lemma dict_not_mem_filter : forall k (d : dict), py_dict_mem key_eqb k d = false ->
  filter (fun kv => negb (key_eqb k (fst kv))) d = d.
Proof.
  intros k d H. apply filter_true_in. intros kv Hin. destruct (key_eqb k (fst kv)) eqn:E; [|reflexivity].
  exfalso. unfold py_dict_mem in H. assert (existsb (fun kv0 => key_eqb k (fst kv0)) d = true) as C.
  { apply existsb_exists. exists kv. split; assumption. }
  rewrite C in H. discriminate.
Qed.

Lemma nodupk_filter : forall (f : pykey * pyval -> bool) (d : dict), nodupk (dkeys d) -> nodupk (dkeys (filter f d)).
Proof.
  intros f d. unfold nodupk, dkeys. induction d as [|kv d IH]; intros ND; [reflexivity|].
  cbn [map nodupkb] in ND. apply andb_true_iff in ND. destruct ND as [H1 H2]. cbn [filter].
  destruct (f kv); [|exact (IH H2)].
  cbn [map nodupkb]. rewrite (IH H2), andb_true_r. apply negb_true_iff. apply negb_true_iff in H1.
  destruct (kmem (fst kv) (map fst (filter f d))) eqn:E; [|reflexivity].
  unfold kmem in E. apply existsb_exists in E. destruct E as [k [Hin Hk]]. apply in_map_iff in Hin. destruct Hin as [e [He Hin]].
  apply filter_In in Hin. destruct Hin as [Hin _].
  assert (kmem (fst kv) (map fst d) = true) as C.
  { unfold kmem. apply existsb_exists. exists k. split; [subst k; apply in_map; exact Hin|exact Hk]. }
  rewrite C in H1. discriminate.
Qed.

Lemma update_loop2_src : forall self L (d : dict), nodupk (dkeys d) ->
  loop2 self L d = Fall (filter (fun kv => negb (kmem (fst kv) L)) d).
Proof.
  intros self L. induction L as [|k L IH]; intros d ND.
  - cbn. symmetry. f_equal. apply filter_true_in. intros. reflexivity.
  - cbn [Options_update_with_protected_keys_loop2].
    assert (E : filter (fun kv => negb (kmem (fst kv) (k :: L))) d
                = filter (fun kv => negb (kmem (fst kv) L)) (filter (fun kv => negb (key_eqb k (fst kv))) d)).
    { clear. induction d as [|kv d IH]; [reflexivity|]. cbn [filter]. unfold kmem at 1. cbn [existsb]. fold (kmem (fst kv) L).
      rewrite (key_eqb_sym (fst kv) k). destruct (key_eqb k (fst kv)); cbn [negb orb]; [exact IH|].
      cbn [filter]. rewrite IH. reflexivity. }
    rewrite E. destruct (py_dict_mem key_eqb k d) eqn:Hm.
    + rewrite (dict_del_filter k d ND Hm). cbv zeta. apply IH. apply nodupk_filter. exact ND.
    + rewrite (dict_not_mem_filter k d Hm). apply IH. exact ND.
Qed.

(* ---------- self.group.update(copy) / self.context.update(propagating) ---------- *)
Lemma py_dict_update_dupdate : forall (o d : dict), py_dict_update key_eqb d o = dupdate d o.
Proof.
  unfold py_dict_update, dupdate. induction o as [|kv o IH]; intros d; [reflexivity|].
  cbn [fold_left]. rewrite py_dict_set_dset. apply IH.
Qed.

(* ---------- the conflict loop over the propagated context entries ---------- *)
Definition ctx_conflict (c : dict) (kv : pykey * pyval) : bool :=
  match dget (fst kv) c with Some v0 => negb (py_eq v0 (snd kv)) | None => false end.

Lemma update_loop3_src : forall self pr,
  loop3 self pr = if existsb (ctx_conflict (oc self)) pr then Exit (Raise ValueError, self) else Fall tt.
Proof.
  intros self pr. induction pr as [|[k v] pr IH]; [reflexivity|].
  cbn [Options_update_with_protected_keys_loop3 existsb]. unfold ctx_conflict at 1. cbn [fst snd].
  rewrite py_dict_mem_dget, py_dict_getitem_dget. destruct (dget k (oc self)) as [v0|]; cbn [orb]; [|exact IH].
  destruct (py_eq v0 v); cbn [negb orb]; [exact IH|reflexivity].
Qed.

(* ---------- Options.update_with_protected_keys ---------- *)
(* o_update once the protected keys are known *)
Definition upd_tail (pk : list pykey) (other s : ostate) : ostate * option oerr :=
  let ogc := filter (fun kv => negb (kmem (fst kv) pk)) (og other) in
  if existsb (fun k => kmem k (dkeys (oc s))) (dkeys ogc) then (s, Some EValue)
  else
    let g' := dupdate (og s) ogc in
    let s1 := {| og := g'; oc := oc s; opk := opk s |} in
    if is_nil (opk other) then (s1, None)
    else
      let pr := filter (fun kv => kmem (fst kv) (opk other) && negb (kmem (fst kv) pk)) (oc other) in
      if existsb (fun k => kmem k (dkeys g')) (dkeys pr) then (s1, Some EValue)
      else if existsb (ctx_conflict (oc s)) pr then (s1, Some EValue)
      else ({| og := g'; oc := dupdate (oc s) pr; opk := opk s |}, None).

Lemma o_update_tail : forall other prot s,
  o_update other prot s
  = match (match prot with Some p => Some p | None => default_protected s end) with
    | None => (s, Some EType)
    | Some pk => upd_tail pk other s
    end.
Proof. reflexivity. Qed.

Lemma upd_tail_ext : forall pk pk' other s, (forall k, kmem k pk = kmem k pk') -> upd_tail pk other s = upd_tail pk' other s.
Proof.
  intros pk pk' other s H. unfold upd_tail.
  rewrite (filter_ext_local _ (fun kv => negb (kmem (fst kv) pk)) (fun kv => negb (kmem (fst kv) pk'))) by (intros; rewrite H; reflexivity).
  rewrite (filter_ext_local _ (fun kv => kmem (fst kv) (opk other) && negb (kmem (fst kv) pk))
                              (fun kv => kmem (fst kv) (opk other) && negb (kmem (fst kv) pk'))) by (intros; rewrite H; reflexivity).
  reflexivity.
Qed.

(* the code after the protected keys P are determined (it occurs three times in the generated definition: the continuation of an
   `if` is translated once per branch) *)
Ltac tail_tac ord Hord ND :=
  match goal with
  | |- context [loop2 ?s (ord 1%nat ?P) (og ?other)] =>
    rewrite (update_loop2_src s (ord 1%nat P) (og other) ND);
    rewrite (filter_ext_local _ (fun kv => negb (kmem (fst kv) (ord 1%nat P))) (fun kv => negb (kmem (fst kv) P)))
      by (intros; rewrite Hord; reflexivity);
    cbv zeta; rewrite validate_no_group_context_conflicts_src;
    unfold upd_tail; cbv zeta; change (@py_dict_keys pykey pyval) with dkeys;
    match goal with |- context [existsb ?f ?l] => destruct (existsb f l); [reflexivity|] end;
    rewrite py_dict_update_dupdate; cbn [og oc opk ost_set_group ost_set_context];
    destruct (opk other) as [|pk0 pks] eqn:Eopk; cbn [py_nonempty is_nil]; [reflexivity|];
    rewrite validate_no_context_group_conflicts_src;
    rewrite (filter_ext_local _ (fun '(k, v) => (py_in key_eqb k (pk0 :: pks) && negb (py_in key_eqb k P))%bool)
                                (fun kv => (kmem (fst kv) (pk0 :: pks) && negb (kmem (fst kv) P))%bool))
      by (intros [? ?]; reflexivity);
    change (@py_dict_keys pykey pyval) with dkeys;
    match goal with |- context [existsb ?f ?l] => destruct (existsb f l); [reflexivity|] end;
    unfold py_dict_items; rewrite update_loop3_src; cbn [og oc opk ost_set_group ost_set_context];
    match goal with |- context [existsb ?f ?l] => destruct (existsb f l); [reflexivity|] end;
    rewrite py_dict_update_dupdate; reflexivity
  end.

Lemma update_with_protected_keys_src : forall ord, (forall site l k, kmem k (ord site l) = kmem k l) ->
  forall s other prot, nodupk (dkeys (og other)) ->
  Options_update_with_protected_keys ord s other prot = of_oerr (o_update other prot s).
Proof.
  intros ord Hord s other prot ND. rewrite o_update_tail. unfold Options_update_with_protected_keys.
  destruct prot as [p|].
  - tail_tac ord Hord ND.
  - unfold default_protected. rewrite !options_get_src. change (KStr "feature_chainer_parser_key") with k_chainer.
    destruct (truthy (o_get k_chainer s)).
    + unfold any_iter_keys. destruct (iter_keys (o_get k_chainer s)) as [ks|]; [|reflexivity]. cbn [option_map].
      destruct (update_loop1_src (ord 0%nat ks) [KStr "in_features"]) as [P [H1 H2]]. rewrite H1.
      rewrite (upd_tail_ext (k_in_features :: ks) P other s).
      * tail_tac ord Hord ND.
      * intros k. rewrite H2, Hord. unfold kmem, k_in_features. cbn [existsb]. rewrite orb_false_r. reflexivity.
    + unfold k_in_features. tail_tac ord Hord ND.
Qed.

(* Features.merge_options with the callee it really calls, update_with_protected_keys(child) with the default argument None *)
Lemma merge_options_full : forall ord, (forall site l k, kmem k (ord site l) = kmem k l) ->
  forall s child, nodupk (dkeys (og child)) ->
  Features_merge_options (fun fo co => Options_update_with_protected_keys ord fo co None) s child = of_oerr (o_merge child s).
Proof.
  intros ord Hord s child ND. rewrite merge_options_src. unfold o_merge.
  destruct (default_protected s) as [pk|]; [|reflexivity].
  unfold merge_conflict, conflict_pair.
  destruct (existsb _ (o_items child)); [reflexivity|].
  apply update_with_protected_keys_src; assumption.
Qed.
