(* Source-text tie, C04 (planner, round 2): ExecutionPlan._validate_required_uuids_are_produced regenerated from
   execution_plan.py (Gen/SrcPlan.v) against PlannerA.validate_A.  The final call of _validate_steps_do_not_wait_in_a_cycle
   (a `while` loop: outside the translated subset) is a parameter of the generated definition. *)
From Coq Require Import List Bool ZArith Arith.
Import ListNotations.
Require Import MV.Model.PySem MV.Gen.SrcPlan.
Require Import MV.Model.Orch MV.Model.PlannerA MV.Proofs.SrcTieLemP.
Open Scope nat_scope.

Lemma mem_py_union : forall x a b, mem x (py_union Nat.eqb a b) = (mem x a || mem x b)%bool.
Proof. intros. unfold py_union. rewrite mem_app_or, mem_py_diff. destruct (mem x a), (mem x b); reflexivity. Qed.

(* produced = set(); for step in plan: produced.update(step.get_uuids())  has the members of all_uuids *)
Lemma produced_loop_src : forall l acc,
  exists r, ExecutionPlan_validate_required_uuids_are_produced_loop1 l acc = Fall r
            /\ forall x, mem x r = (mem x acc || mem x (flat_map uuids l))%bool.
Proof.
  induction l as [|s l IH]; intros acc.
  - exists acc. split; [reflexivity|]. intros x. cbn. rewrite orb_false_r. reflexivity.
  - cbn [ExecutionPlan_validate_required_uuids_are_produced_loop1 flat_map]. cbv zeta.
    destruct (IH (py_union Nat.eqb acc (uuids s))) as [r [H1 H2]]. exists r. split; [exact H1|].
    intros x. rewrite H2, mem_py_union, mem_app_or. rewrite orb_assoc. reflexivity.
Qed.

Lemma missing_empty : forall rq produced, negb (py_nonempty (py_diff Nat.eqb rq produced)) = subset rq produced.
Proof.
  intros rq produced. unfold py_diff, subset. induction rq as [|x rq IH]; [reflexivity|].
  cbn [filter forallb]. change (py_in Nat.eqb x produced) with (mem x produced).
  destruct (mem x produced); cbn [negb andb py_nonempty]; [exact IH|reflexivity].
Qed.

Lemma subset_mem_ext : forall rq a b, (forall x, mem x a = mem x b) -> subset rq a = subset rq b.
Proof. intros rq a b H. unfold subset. induction rq as [|x rq IH]; [reflexivity|]. cbn [forallb]. rewrite H, IH. reflexivity. Qed.

Lemma missing_loop_src : forall self produced l,
  ExecutionPlan_validate_required_uuids_are_produced_loop2 self produced l
  = if forallb (fun s => subset (req s) produced) l then Fall tt else Exit (Raise ValueError, self).
Proof.
  intros self produced l. induction l as [|s l IH]; [reflexivity|].
  cbn [ExecutionPlan_validate_required_uuids_are_produced_loop2 forallb]. cbv zeta.
  rewrite <- missing_empty. destruct (py_nonempty (py_diff Nat.eqb (req s) produced)); cbn [negb andb]; [reflexivity|exact IH].
Qed.

(* for EVERY callee: ValueError (plan unchanged) unless validate_A, else the call *)
Lemma validate_required_uuids_are_produced_src : forall (cyc : plan -> res unit * plan) p,
  ExecutionPlan_validate_required_uuids_are_produced cyc p = if validate_A p then cyc p else (Raise ValueError, p).
Proof.
  intros cyc p. unfold ExecutionPlan_validate_required_uuids_are_produced. cbv zeta.
  destruct (produced_loop_src p []) as [r [H1 H2]]. rewrite H1, missing_loop_src.
  assert (E : forallb (fun s => subset (req s) r) p = validate_A p).
  { unfold validate_A, all_uuids. generalize p at 1 3. intros q. induction q as [|s q IH]; [reflexivity|].
    cbn [forallb]. rewrite IH. f_equal. apply subset_mem_ext. intros x. rewrite H2. reflexivity. }
  rewrite E. destruct (validate_A p); [|reflexivity].
  destruct (cyc p) as [[[]|e] p']; reflexivity.
Qed.

(* with the callee as PlannerA models it (runsim_accepts) the two validations are the last two tests of prepare_A / prepare_L *)
Definition cycle_model (p : plan) : res unit * plan := if runsim_accepts p then (Ok tt, p) else (Raise ValueError, p).

Lemma validate_required_uuids_are_produced_model : forall p,
  fst (ExecutionPlan_validate_required_uuids_are_produced cycle_model p) = Ok tt <-> validate_A p && runsim_accepts p = true.
Proof.
  intros p. rewrite validate_required_uuids_are_produced_src. unfold cycle_model.
  destruct (validate_A p), (runsim_accepts p); cbn; split; intros H; try reflexivity; discriminate.
Qed.
