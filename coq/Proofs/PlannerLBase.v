(* Basic lemmas about the link / join planner model (Model/PlannerL.v) and the conservative-extension theorem:
   without Links prepare_L is prepare_A (same decision, same steps). *)
From Coq Require Import List Bool Arith Lia Permutation.
Import ListNotations.
Require Import MV.Model.Orch MV.Model.OrchCheck MV.Model.Grouping MV.Model.PlannerA MV.Model.LinkSel MV.Model.PlannerL.
Require Import MV.Spec.PlannerASpec MV.Spec.PlannerLSpec.
Require Import MV.Proofs.PlannerASets MV.Proofs.PlannerAOrder.
Open Scope nat_scope.

(* ---------- oracles on small sets ---------- *)
Lemma ord_nil : forall ord k, ord_ok ord -> ord k [] = [].
Proof. intros ord k H. apply Permutation_nil. apply Permutation_sym. apply H. Qed.
Lemma ord_single : forall ord k x, ord_ok ord -> ord k [x] = [x].
Proof. intros ord k x H. apply Permutation_length_1_inv. apply Permutation_sym. apply H. Qed.
Lemma ord_In : forall ord k l x, ord_ok ord -> (In x (ord k l) <-> In x l).
Proof.
  intros ord k l x H. split; intros Hx.
  - exact (Permutation_in _ (H k l) Hx).
  - exact (Permutation_in _ (Permutation_sym (H k l)) Hx).
Qed.
Lemma ord_nonempty : forall ord k l, ord_ok ord -> l <> [] -> ord k l <> [].
Proof. intros ord k l H Hne E. apply Hne. specialize (H k l). rewrite E in H. apply Permutation_nil. exact H. Qed.

(* ---------- list helpers ---------- *)
Lemma fold_left_app_acc : forall (A B : Type) (f : B -> list A) (l : list B) (acc : list A),
  fold_left (fun a x => a ++ f x) l acc = acc ++ flat_map f l.
Proof.
  intros A B f l. induction l as [|x l IH]; intros acc; cbn.
  - rewrite app_nil_r. reflexivity.
  - rewrite IH. rewrite app_assoc. reflexivity.
Qed.

Lemma enumerate_length : forall (A : Type) (l : list A), List.length (enumerate l) = List.length l.
Proof. intros A l. unfold enumerate. rewrite combine_length, seq_length. apply Nat.min_id. Qed.

Lemma combine_seq_snd : forall (A : Type) (l : list A) n, map snd (combine (seq n (List.length l)) l) = l.
Proof. intros A l. induction l as [|x l IH]; intros n; cbn; [reflexivity | rewrite IH; reflexivity]. Qed.
Lemma enumerate_snd : forall (A : Type) (l : list A), map snd (enumerate l) = l.
Proof. intros A l. apply combine_seq_snd. Qed.

Lemma map_core_number_L : forall p i, map core (number_L i p) = number i (map core p).
Proof.
  intros p. induction p as [|x p IH]; intros i; cbn [number_L map number]; [reflexivity|].
  rewrite IH. f_equal. destruct x; reflexivity.
Qed.

(* ---------- the stages without Links ---------- *)
Section NoLinks.
  Variables (ord : oparam) (g : fgraph) (mro : cls -> list cls).
  Hypothesis Hord : ord_ok ord.

  Lemma link_queue_nil : forall q, link_queue q [] = map QF q.
  Proof.
    intros q. unfold link_queue.
    assert (H : forall l st, snd (fold_left (fun (st : list lkey * list qitem) u =>
                 let st' := fold_left (fun (s : list lkey * list qitem) (kv : lkey * list nat) =>
                               if existsb (key_eqb (fst kv)) (fst s) then s
                               else if mem u (snd kv) then (fst s ++ [fst kv], snd s ++ [QL (fst kv)]) else s) (@nil (lkey * list nat)) st in
                 (fst st', snd st' ++ [QF u])) l st) = snd st ++ map QF l).
    { intros l. induction l as [|u l IH]; intros st; cbn [fold_left map].
      - rewrite app_nil_r. reflexivity.
      - rewrite IH. cbn [fst snd]. rewrite <- app_assoc. reflexivity. }
    rewrite H. reflexivity.
  Qed.

  Definition pg_of (e : nat * list nat) : pitem := PG (fst e) (snd e).

  Lemma planned_queue_L_nolinks : forall q, planned_queue_L g q (map QF q) = map pg_of (planned_queue g q).
  Proof.
    intros q. unfold planned_queue_L, planned_queue.
    assert (H : forall l (st : list nat * list pitem) (st' : list nat * list (nat * list nat)),
              fst st = fst st' -> snd st = map pg_of (snd st') ->
              snd (fold_left (fun (st : list nat * list pitem) it =>
                     match it with
                     | QL k => (fst st, snd st ++ [PL k])
                     | QF u => if mem u (fst st) then st
                               else let ms := members g q (grp_of g u) in (fst st ++ ms, snd st ++ [PG (grp_of g u) ms])
                     end) (map QF l) st)
              = map pg_of (snd (fold_left (fun (st : list nat * list (nat * list nat)) u =>
                     if mem u (fst st) then st
                     else let ms := members g q (grp_of g u) in (fst st ++ ms, snd st ++ [(grp_of g u, ms)])) l st'))).
    { intros l. induction l as [|u l IH]; intros st st' E1 E2; cbn [fold_left map].
      - exact E2.
      - apply IH.
        + cbv beta iota. rewrite E1. destruct (mem u (fst st')); [exact E1 | cbn [fst]; reflexivity].
        + cbv beta iota. rewrite E1. destruct (mem u (fst st')); [exact E2 | cbn [snd]; rewrite E2, map_app; reflexivity]. }
    apply H; reflexivity.
  Qed.

  Definition t_empty : trek := {| t_data := []; t_dor := []; t_order := [] |}.

  Lemma rcf_fold_nolinks : forall (l : list (nat * list nat)) cm,
    fold_left (rcf_group ord g []) (map pg_of l) (Ok (t_empty, cm)) = Ok (t_empty, cm).
  Proof.
    intros l. induction l as [|e l IH]; intros cm; cbn [fold_left map]; [reflexivity|].
    unfold rcf_group at 2. cbn [pg_of]. destruct (ord (site_first (fst e)) (snd e)); [apply IH|]. cbn. apply IH.
  Qed.

  Lemma order_queue_nil_orders : forall pq, order_queue ord [] pq = pq.
  Proof.
    intros pq. unfold order_queue.
    assert (H : forall l new added, fold_left (oq_step ord []) l (new, added, []) = (new ++ l, set_union added
                 (flat_map (fun p => match p with PL k => [k_uid k] | PG _ _ => [] end) l), [])).
    { intros l. induction l as [|p l IH]; intros new added; cbn [fold_left flat_map].
      - rewrite app_nil_r. reflexivity.
      - destruct p as [grp ms|k]; cbn [oq_step blocked find fold_left fst snd].
        + rewrite IH. rewrite <- app_assoc. reflexivity.
        + rewrite IH. rewrite <- app_assoc. cbn [app]. f_equal. }
    rewrite H. reflexivity.
  Qed.

  Lemma links_pre_nil : forall ms, links_pre [] ms = [].
  Proof.
    intros ms. unfold links_pre.
    assert (H : forall l acc, fold_left (fun acc u => set_union acc (child_links [] u)) l acc = acc).
    { intros l. induction l as [|u l IH]; intros acc; cbn [fold_left]; [reflexivity|]. apply IH. }
    apply H.
  Qed.

  Lemma cfw_now_nil : forall u, cfw_now ord g [] u = cfw_of g u.
  Proof. intros u. unfold cfw_now, cfws_of. cbn [aget]. rewrite (ord_single ord _ _ Hord). reflexivity. Qed.

  Definition lift_fg (grp : nat) (s : step) : lstep :=
    LFG s grp (cfw_of g (hd 0 (uuids s))) (cir_of (p2c_of g) (uuids s)) [] (hd 0 (uuids s)).

  Lemma mk_step_L_nolinks : forall grp lvl, mk_step_L ord g [] [] grp lvl = lift_fg grp (mk_step ord g (p2c_of g) lvl).
  Proof. intros grp lvl. unfold mk_step_L, lift_fg, mk_step. cbn [uuids]. rewrite cfw_now_nil. reflexivity. Qed.

  Lemma steps_of_group_L_nolinks : forall grp ms,
    steps_of_group_L ord g [] [] grp ms = map (lift_fg grp) (steps_of_group ord g (p2c_of g) ms).
  Proof.
    intros grp ms. unfold steps_of_group_L, steps_of_group, levels_of_group_L, levels_of_group.
    replace (map (item_L g []) (ord 0 ms)) with (map (item_of g) (ord 0 ms)) by reflexivity.
    unfold PlannerL.cl.
    generalize (map (fun its => split_levels (fun u => aget0 u (p2c_of g)) (ord 1 (map it_id its)))
                    (group_items (map (item_of g) (ord 0 ms)))).
    intros L. induction L as [|lv L IH]; cbn [flat_map map]; [reflexivity|].
    rewrite map_app, IH. f_equal. rewrite map_map. apply map_ext. intros lvl. apply mk_step_L_nolinks.
  Qed.

  Definition xs_of (e : nat * list nat) : list xitem :=
    map XS (map (lift_fg (fst e)) (steps_of_group ord g (p2c_of g) (snd e))).

  Lemma pre_plan_nolinks : forall (l : list (nat * list nat)), pre_plan ord g [] [] (map pg_of l) = flat_map xs_of l.
  Proof.
    intros l. unfold pre_plan. induction l as [|e l IH]; cbn [map flat_map]; [reflexivity|].
    rewrite IH. f_equal. cbn [pg_of]. rewrite links_pre_nil, steps_of_group_L_nolinks. reflexivity.
  Qed.

  Lemma add_joinstep_xs : forall cm t (ss : list lstep), add_joinstep ord g mro [] cm t (map XS ss) = Ok (ss, []).
  Proof.
    intros cm t ss. unfold add_joinstep.
    assert (H : forall l out jc jr,
              fold_left (fun st x =>
                 match st with
                 | Err e => Err e
                 | Ok (out, jc, jr) =>
                   match x with
                   | XS s => Ok (out ++ [s], jc, jr)
                   | XL k =>
                     match run_link ord g mro [] cm t (fsc_of (map XS ss)) k with
                     | Err e => Err e
                     | Ok None => Ok (out, jc, jr)
                     | Ok (Some js) =>
                       match js with
                       | LJOIN _ uid lf rf _ _ => Ok (out ++ [js], jc ++ [(uid, (lf, rf))], jr ++ [(uid, jc_required jc lf rf)])
                       | _ => Ok (out ++ [js], jc, jr)
                       end
                     end
                   end
                 end) (map XS l) (Ok (out, jc, jr)) = Ok (out ++ l, jc, jr)).
    { intros l. induction l as [|s l IH]; intros out jc jr; cbn [fold_left map].
      - rewrite app_nil_r. reflexivity.
      - rewrite IH, <- app_assoc. reflexivity. }
    rewrite H. reflexivity.
  Qed.

  Definition is_fg (x : lstep) : bool := match x with LFG _ _ _ _ _ _ => true | _ => false end.

  (* add_tfs on a plan of feature-group steps: nothing is inserted or changed; outside = some step needs a transform step *)
  Definition fg_needs (cm : cfwmap) (cur : list lstep) (x : lstep) : bool :=
    match x with
    | LFG s _ cfw _ _ any => match uuids s with [] => false | _ :: _ => fg_tfs_needed ord g cm cur cfw any end
    | _ => false
    end.

  Lemma add_tfs_fg_only : forall cm jr p, forallb is_fg p = true ->
    add_tfs ord g [] cm jr p = (p, existsb (fg_needs cm p) p).
  Proof.
    intros cm jr p Hfg. unfold add_tfs.
    assert (H : forall idxs o, (forall i, In i idxs -> i < List.length p) ->
              fold_left (fun (st : list lstep * list tfs_key * list (nat * lstep) * bool) i =>
                match st with
                | (cur, tc, ins, outside) =>
                  match nth_error cur i with
                  | Some (LJOIN s uid lf rf lus rus) =>
                    if Nat.eqb lf rf then (same_cfw_join ord uid lus rus cur, tc, ins, outside)
                    else
                      let key := join_tfs_key [] uid lf rf in
                      let fresh := negb (existsb (tfs_key_eqb key) tc) in
                      let t := LTFS {| sid := 0; skind := KTFS; uuids := [tfs_uid uid]; req := req s; requested := false |}
                                    (fst (fst key)) (snd (fst key)) (fst (snd key)) (snd (snd key)) (Some uid) in
                      let req1 := if fresh then set_add (tfs_uid uid) (req s) else req s in
                      let req2 := set_union req1 (aget0 uid jr) in
                      (replace_nth i (LJOIN (set_req req2 s) uid lf rf lus rus) cur,
                       if fresh then tc ++ [key] else tc, if fresh then ins ++ [(i, t)] else ins, outside)
                  | Some (LFG s grp cfw cir tfs any) =>
                    (cur, tc, ins, match uuids s with [] => outside | _ :: _ => outside || fg_tfs_needed ord g cm cur cfw any end)
                  | _ => st
                  end
                end) idxs (p, [], [], o)
              = (p, [], [], o || existsb (fun i => match nth_error p i with Some x => fg_needs cm p x | None => false end) idxs)).
    { intros idxs. induction idxs as [|i idxs IH]; intros o Hlt; cbn [fold_left existsb].
      - rewrite orb_false_r. reflexivity.
      - assert (Hi : i < List.length p) by (apply Hlt; left; reflexivity).
        destruct (nth_error p i) as [x|] eqn:En; [|apply nth_error_None in En; lia].
        assert (Hx : is_fg x = true).
        { rewrite forallb_forall in Hfg. apply Hfg. exact (nth_error_In _ _ En). }
        destruct x as [s grp cfw cir tfs any| |]; try discriminate Hx.
        rewrite IH by (intros j Hj; apply Hlt; right; exact Hj).
        cbn [fg_needs]. destruct (uuids s); [cbn; reflexivity|]. rewrite orb_assoc. reflexivity. }
    rewrite H by (intros i Hi; apply in_seq in Hi; lia).
    cbn [orb]. f_equal.
    - assert (E : forall (l : list (nat * lstep)), flat_map (fun ie => map snd (filter (fun it : nat * lstep => Nat.eqb (fst it) (fst ie)) []) ++ [snd ie]) l = map snd l).
      { intros l. induction l as [|ie l IH]; [reflexivity|]. cbn [flat_map]. rewrite IH. reflexivity. }
      rewrite E. apply enumerate_snd.
    - (* existsb over the indices = existsb over the list *)
      assert (E : forall (l : list lstep) n (F : lstep -> bool) (q : list lstep),
                (forall j x, nth_error l j = Some x -> nth_error q (n + j) = Some x) ->
                existsb (fun i => match nth_error q i with Some x => F x | None => false end) (seq n (List.length l)) = existsb F l).
      { intros l. induction l as [|x l IH]; intros n F q Hq; cbn [seq List.length existsb]; [reflexivity|].
        specialize (Hq 0 x eq_refl) as H0. replace (n + 0) with n in H0 by lia. rewrite H0. f_equal.
        apply IH. intros j y Hj. replace (S n + j) with (n + S j) by lia. apply Hq. exact Hj. }
      apply E. intros j x Hj. exact Hj.
  Qed.
End NoLinks.

(* ---------- (a) the conservative-extension theorem ---------- *)
Lemma flat_map_map_XS : forall (A : Type) (F : A -> list lstep) (l : list A),
  flat_map (fun e => map XS (F e)) l = map XS (flat_map F l).
Proof. intros A F l. induction l as [|e l IH]; cbn [flat_map map]; [reflexivity | rewrite IH, map_app; reflexivity]. Qed.

Lemma existsb_number : forall (F : step -> bool) p i, (forall j s, F (set_sid j s) = F s) -> existsb F (number i p) = existsb F p.
Proof.
  intros F p. induction p as [|s p IH]; intros i HF; cbn [number existsb]; [reflexivity|]. rewrite HF, IH by exact HF. reflexivity.
Qed.

Lemma existsb_ext_in : forall (A : Type) (F G : A -> bool) l, (forall x, In x l -> F x = G x) -> existsb F l = existsb G l.
Proof.
  intros A F G l. induction l as [|x l IH]; intros H; cbn [existsb]; [reflexivity|].
  rewrite (H x (or_introl eq_refl)), IH; [reflexivity|]. intros y Hy. apply H. right. exact Hy.
Qed.

Theorem no_links_is_PlannerA : forall ord g mro, ord_ok ord ->
  agrees_with_A g (prepare_A ord g) (plan_of ord g) (prepare_L ord g mro []).
Proof.
  intros ord g mro Hord.
  set (PQ := planned_queue g (queue_of g)).
  set (ss := flat_map (fun e => map (lift_fg g (fst e)) (steps_of_group ord g (p2c_of g) (snd e))) PQ).
  assert (Hcore : map core ss = raw_plan ord g).
  { unfold ss, raw_plan. fold PQ. generalize PQ. intros l. induction l as [|e l IH]; cbn [flat_map map]; [reflexivity|].
    rewrite map_app, IH. f_equal. rewrite map_map. cbn [core lift_fg]. apply map_id. }
  assert (Hfg : forallb is_fg ss = true).
  { apply forallb_forall. intros x Hx. unfold ss in Hx. apply in_flat_map in Hx. destruct Hx as [e [_ Hx]].
    apply in_map_iff in Hx. destruct Hx as [s [E _]]. subst x. reflexivity. }
  assert (Hplain : Forall (plain_fg g) (number_L 0 ss)).
  { assert (H : forall l i, Forall (plain_fg g) l -> Forall (plain_fg g) (number_L i l)).
    { intros l. induction l as [|x l IH]; intros i Hl; cbn [number_L]; [constructor|].
      inversion Hl; subst. constructor; [|apply IH; assumption].
      destruct x; cbn in *; try contradiction. assumption. }
    apply H. apply Forall_forall. intros x Hx. unfold ss in Hx. apply in_flat_map in Hx. destruct Hx as [e [_ Hx]].
    apply in_map_iff in Hx. destruct Hx as [s [E _]]. subst x. cbn. repeat split; reflexivity. }
  assert (Hst : stages_L ord g mro [] = Ok ({| st_data0 := []; st_trek0 := t_empty; st_lq := map QF (queue_of g);
                    st_pq0 := map pg_of PQ; st_pq1 := map pg_of PQ; st_trek1 := t_empty; st_cm := []; st_raw := ss |},
                  existsb (fg_needs ord g [] ss) ss)).
  { unfold stages_L. cbn [map validate_rejects any_pair existsb orb no_self_link forallb negb].
    unfold trek_data. cbn [conflicting_data tkeys map existsb].
    unfold get_ordered_data, order_links_by_frameworks. cbn.
    rewrite link_queue_nil, planned_queue_L_nolinks. fold PQ.
    unfold rcf_links. fold t_empty. rewrite (rcf_fold_nolinks ord g). cbn [t_data t_order t_dor t_empty].
    unfold order_links_by_frameworks. cbn [olbf tkeys map fold_left drop_circular].
    rewrite order_queue_nil_orders.
    rewrite (pre_plan_nolinks ord g Hord). unfold xs_of. rewrite flat_map_map_XS. fold ss.
    rewrite add_joinstep_xs. rewrite (add_tfs_fg_only ord g [] [] ss Hfg). reflexivity. }
  assert (Hneeds : existsb (fg_needs ord g [] ss) ss = existsb (tfs_needed g (p2c_of g)) (plan_of ord g)).
  { unfold plan_of. rewrite existsb_number by (intros; reflexivity). rewrite <- Hcore.
    assert (Hnoj : forall (F : lstep -> bool), (forall x, is_fg x = true -> F x = false) -> existsb F ss = false).
    { intros F HF. apply not_true_is_false. intros H. apply existsb_exists in H. destruct H as [x [Hx Fx]].
      rewrite forallb_forall in Hfg. rewrite (HF x (Hfg x Hx)) in Fx. discriminate. }
    assert (Hmap : forall (G : step -> bool) l, existsb G (map core l) = existsb (fun x => G (core x)) l).
    { intros G l. induction l as [|x l IH]; cbn [existsb map]; [reflexivity | rewrite IH; reflexivity]. }
    rewrite Hmap. apply existsb_ext_in. intros x Hx. unfold ss in Hx. apply in_flat_map in Hx. destruct Hx as [e [_ Hx]].
    apply in_map_iff in Hx. destruct Hx as [s [E _]]. subst x. cbn [fg_needs lift_fg core]. unfold tfs_needed.
    destruct (uuids s) as [|a us]; [reflexivity|]. cbn [hd]. unfold fg_tfs_needed. fold (PlannerL.cl g).
    apply existsb_ext_in. intros p _. rewrite Hnoj.
    - cbn [negb andb]. rewrite (cfw_now_nil ord g Hord). reflexivity.
    - intros x Hx. destruct x; try discriminate Hx. reflexivity. }
  unfold prepare_L. rewrite Hst, Hneeds. unfold prepare_A.
  destruct (existsb (tfs_needed g (p2c_of g)) (plan_of ord g)); [reflexivity|].
  unfold plan_of_L. cbn [st_raw]. rewrite map_core_number_L, Hcore. fold (plan_of ord g).
  destruct (validate_A (plan_of ord g)); cbn [negb].
  - destruct (runsim_accepts (plan_of ord g)).
    + exists (number_L 0 ss). split; [reflexivity|]. split; [|exact Hplain]. rewrite map_core_number_L, Hcore. reflexivity.
    + exists (number_L 0 ss). split; [reflexivity|]. split; [|exact Hplain]. rewrite map_core_number_L, Hcore. reflexivity.
  - exists (number_L 0 ss). split; [reflexivity|]. split; [|exact Hplain]. rewrite map_core_number_L, Hcore. reflexivity.
Qed.
