(* C16 — the option and JSON notations resolve like the chained name. *)
From Coq Require Import List Bool Ascii Arith Lia.
Import ListNotations.
Require Import MV.Model.ChainParser MV.Model.ConfigLoader MV.Spec.ChainName MV.Spec.Notations.
Require Import MV.Proofs.ChainParserP MV.Proofs.ChainResolveP.
Open Scope list_scope.

Lemma str_eqb_sym : forall a b, str_eqb a b = str_eqb b a.
Proof.
  intros a b. destruct (str_eqb a b) eqn:E.
  - apply str_eqb_eq in E; subst. symmetry; apply str_eqb_refl.
  - symmetry. apply str_eqb_neq. apply str_eqb_neq in E. congruence.
Qed.

(* ---------------------------------------------------------------------------------------------------------- *)
(* spellings of in_features                                                                                    *)
Lemma dedup_single : forall x, dedup [x] = [x].
Proof. reflexivity. Qed.

Lemma spellings_agree_l : forall s, s <> [] -> contains comma s = false ->
  get_in_features (PStr s) = Ok [feat s] /\
  get_in_features (PList [PStr s]) = Ok [feat s] /\
  (forall b, get_in_features (PSet b [PStr s]) = Ok [feat s]) /\
  get_in_features (feat s) = Ok [feat s] /\
  get_in_features (PList [feat s]) = Ok [feat s] /\
  (forall b, get_in_features (PSet b [feat s]) = Ok [feat s]).
Proof.
  intros s N C. destruct s as [|c s]; [congruence|].
  repeat split; try intros b; unfold get_in_features; cbn [truthy negb]; try rewrite C; reflexivity.
Qed.

Lemma good_spelling_str : forall s, s <> [] -> contains comma s = false -> good_spelling (PStr s) (feat s).
Proof.
  intros s N C. split; [apply spellings_agree_l; auto|]. destruct s; [congruence|]. reflexivity.
Qed.
Lemma good_spelling_frozen_str : forall s, good_spelling (PSet true [PStr s]) (feat s).
Proof. intros s; split; reflexivity. Qed.
Lemma good_spelling_feat : forall n g c, good_spelling (PFeat n g c) (PFeat n g c).
Proof. intros; split; reflexivity. Qed.
Lemma good_spelling_frozen_feat : forall n g c, good_spelling (PSet true [PFeat n g c]) (PFeat n g c).
Proof. intros; split; reflexivity. Qed.

Lemma good_wrap_id : good_wrap (fun f => f).
Proof. intros n g c; apply good_spelling_feat. Qed.
Lemma good_wrap_frozen : good_wrap (fun f => PSet true [f]).
Proof. intros n g c; apply good_spelling_frozen_feat. Qed.

(* the unhashable spellings (known finding): the property-mapping validation raises TypeError *)
Lemma unhashable_spelling_check : forall l,
  check_required false [] (PList l) = Err EType /\ check_required false [] (PSet false l) = Err EType.
Proof. intros; split; reflexivity. Qed.

(* ---------------------------------------------------------------------------------------------------------- *)
(* options of one configured level                                                                             *)
Definition two (key op : str) (v : pv) : list (str * pv) := [(key, PStr op); (k_in_features, v)].

Lemma options_get_two : forall (in_group : bool) key op v k,
  (if in_group then options_get k (two key op v) [] else options_get k [] (two key op v)) =
  if str_eqb k key then PStr op else if str_eqb k k_in_features then v else PNone.
Proof.
  intros [] key op v k; unfold options_get, two; cbn [assoc];
    destruct (str_eqb k key); auto; destruct (str_eqb k k_in_features); auto.
Qed.

Lemma existsb_false_in : forall (a : str) l d, existsb (str_eqb a) l = false -> In d l -> str_eqb a d = false.
Proof.
  intros a l d H I. destruct (str_eqb a d) eqn:E; auto.
  assert (X : existsb (str_eqb a) l = true) by (apply existsb_exists; eauto). congruence.
Qed.

Lemma mapped_key_key : forall gs g, In g gs -> mapped_key gs (g_key g) = true.
Proof.
  intros gs g I. unfold mapped_key. apply orb_true_iff; right. apply existsb_exists. exists g; split; auto.
  rewrite str_eqb_refl. reflexivity.
Qed.
Lemma mapped_key_default : forall gs g d, In g gs -> In d (g_defaults g) -> mapped_key gs d = true.
Proof.
  intros gs g d I J. unfold mapped_key. apply orb_true_iff; right. apply existsb_exists. exists g; split; auto.
  apply orb_true_iff; right. apply existsb_exists. exists d; split; auto. apply str_eqb_refl.
Qed.

Lemma check_defaults_all_none : forall ks gr cx, (forall d, In d ks -> options_get d gr cx = PNone) ->
  check_defaults ks gr cx = Ok true.
Proof.
  induction ks as [|k ks IH]; intros gr cx H; cbn [check_defaults]; auto.
  rewrite (H k (or_introl eq_refl)). cbn [check_default]. apply IH. intros d I. apply H. right; exact I.
Qed.

Section Level.
  Variables (gs : list grp) (gr cx : list (str * pv)) (name key op : str) (v inner : pv) (i : nat).
  Hypothesis U : universe_ok gs = true.
  Hypothesis Li : i < List.length gs.
  Hypothesis Hkey : key = g_key (grp_at gs i).
  Hypothesis Hname : has_dunder name = false.
  Hypothesis Hop : op_ok_cfg gs (i, op) = true.
  Hypothesis Hv : good_spelling v inner.
  Hypothesis Hlo : level_options gs gr cx key op v.

  Lemma level_defaults : forall g, In g gs -> existsb (str_eqb key) (g_defaults g) = false ->
    existsb (str_eqb k_in_features) (g_defaults g) = false -> check_defaults (g_defaults g) gr cx = Ok true.
  Proof.
    intros g I A B. destruct Hlo as (_ & _ & H3). apply check_defaults_all_none. intros d J.
    apply H3; [eapply mapped_key_default; eauto | |]; rewrite str_eqb_sym; eapply existsb_false_in; eauto.
  Qed.

  Lemma level_claims : claims gs 0 name gr cx = Ok [i].
  Proof.
    pose proof U as U'. unfold universe_ok in U'. apply andb_true_iff in U' as [Ug Up].
    pose proof (grp_at_nth_error gs i Li) as Ni.
    destruct Hlo as (H1 & H2 & H3).
    rewrite (claims_spec gs (onehot (List.length gs) i)); [rewrite idx_true_onehot; auto|].
    apply Forall2_onehot. intros j g Nj. unfold match_criteria.
    rewrite (parse_no_separator _ _ Hname).
    pose proof (nth_error_In _ _ Nj) as Ig.
    destruct (group_ok_parts _ (forallb_nth_error _ _ _ _ Ug Nj)) as (_ & _ & _ & Kin & Kd & _ & Kdi).
    destruct Hv as [_ Hc].
    unfold op_ok_cfg in Hop; cbn [fst snd] in Hop. apply andb_true_iff in Hop as [_ Hvoc].
    destruct (Nat.eqb j i) eqn:E.
    - apply Nat.eqb_eq in E; subst j. rewrite Ni in Nj. injection Nj as <-.
      unfold validate_options. rewrite <- Hkey in *. rewrite H1, H2, Hc.
      rewrite (level_defaults _ Ig Kd Kdi).
      unfold check_required, process_found. cbn [hashable map elem_name forallb in_vocab dedup existsb List.length].
      destruct (g_strict (grp_at gs i)) eqn:S; cbn [andb]; [|reflexivity].
      cbn [orb negb] in Hvoc. rewrite Hvoc. reflexivity.
    - apply Nat.eqb_neq in E.
      pose proof (pairwise_nth _ _ _ _ _ _ Up E Nj Ni) as A1.
      pose proof (pairwise_nth _ _ _ _ _ _ Up (not_eq_sym E) Ni Nj) as A2.
      unfold groups_apart in A1, A2. repeat (apply andb_true_iff in A1 as [A1 ?]). repeat (apply andb_true_iff in A2 as [A2 ?]).
      apply negb_true_iff in H, H0, H4, H5.
      unfold validate_options.
      rewrite (H3 (g_key g) (mapped_key_key gs g Ig)); [| rewrite Hkey; exact H0 | exact Kin].
      rewrite H2, Hc. rewrite (level_defaults _ Ig); [reflexivity | rewrite Hkey; exact H4 | exact Kdi].
  Qed.

  Lemma resolve_step_level : resolve_step gs (PFeat (PStr name) gr cx) = SOne i (PStr op) [inner].
  Proof.
    pose proof U as U'. unfold universe_ok in U'. apply andb_true_iff in U' as [Ug Up].
    pose proof (grp_at_nth_error gs i Li) as Ni.
    destruct (group_ok_parts _ (forallb_nth_error _ _ _ _ Ug Ni)) as (_ & _ & _ & Kin & _ & C1 & _).
    destruct Hlo as (H1 & H2 & H3).
    unfold resolve_step. rewrite level_claims, Ni.
    unfold input_features, extract_op. rewrite (parse_no_separator _ _ Hname).
    rewrite <- Hkey. rewrite H1, H2.
    destruct Hv as [Hg _]. rewrite Hg. cbn [List.length]. rewrite C1. rewrite Hname.
    unfold op_ok_cfg in Hop; cbn [fst snd] in Hop. apply andb_true_iff in Hop as [_ Hvoc].
    destruct (g_name_strict (grp_at gs i)) eqn:S.
    - rewrite orb_true_r in Hvoc. cbn [negb orb] in Hvoc. cbn [hashable negb in_vocab]. rewrite Hvoc. reflexivity.
    - reflexivity.
  Qed.
End Level.

(* the two-entry dictionaries of the option notation are level options *)
Lemma level_options_two : forall gs (in_group : bool) key op v, str_eqb k_in_features key = false ->
  level_options gs (if in_group then two key op v else []) (if in_group then [] else two key op v) key op v.
Proof.
  intros gs in_group key op v K.
  assert (G : forall k, options_get k (if in_group then two key op v else []) (if in_group then [] else two key op v) =
                        if str_eqb k key then PStr op else if str_eqb k k_in_features then v else PNone).
  { intros k. pose proof (options_get_two in_group key op v k) as H. destruct in_group; exact H. }
  repeat split.
  - rewrite G, str_eqb_refl. reflexivity.
  - rewrite G, K, str_eqb_refl. reflexivity.
  - intros k _ A B. rewrite G, A, B. reflexivity.
Qed.

(* any description resolves to the chain it describes *)
Lemma describes_resolves_l : forall gs rops src f, universe_ok gs = true -> has_dunder src = false ->
  forallb (op_ok_cfg gs) rops = true -> describes gs rops src f ->
  resolve_chain gs (S (List.length rops)) f = walk_of rops src.
Proof.
  intros gs rops src f U Hsrc Hops D. induction D as [i op name gr cx v src Hn Hlo Hv | i op name gr cx v n' g' c' rops src Hn Hlo Hv Nr D IH].
  - cbn [forallb] in Hops. apply andb_true_iff in Hops as [Ho _].
    pose proof Ho as Ho'. unfold op_ok_cfg in Ho'. cbn [fst snd] in Ho'. apply andb_true_iff in Ho' as [Li _]. apply Nat.ltb_lt in Li.
    rewrite resolve_chain_S.
    rewrite (resolve_step_level gs gr cx name (g_key (grp_at gs i)) op v (feat src) i U Li eq_refl Hn Ho Hv Hlo).
    cbn [List.length resolve_chain]. rewrite (resolve_step_atom gs src Hsrc). reflexivity.
  - cbn [forallb] in Hops. apply andb_true_iff in Hops as [Ho Hops].
    pose proof Ho as Ho'. unfold op_ok_cfg in Ho'. cbn [fst snd] in Ho'. apply andb_true_iff in Ho' as [Li _]. apply Nat.ltb_lt in Li.
    rewrite resolve_chain_S.
    rewrite (resolve_step_level gs gr cx name (g_key (grp_at gs i)) op v (PFeat n' g' c') i U Li eq_refl Hn Ho Hv Hlo).
    change (List.length ((i, op) :: rops)) with (S (List.length rops)).
    rewrite (IH Hsrc Hops). reflexivity.
Qed.

(* ---------------------------------------------------------------------------------------------------------- *)
(* the whole option-configured chain                                                                           *)
Lemma opt_chain_is_feat : forall gs ph in_group wrap v0 x rops, exists n g c,
  opt_chain gs ph in_group wrap v0 (x :: rops) = PFeat n g c.
Proof. intros gs ph [] wrap v0 [i op] rops; cbn [opt_chain]; unfold opt_feature; eauto. Qed.

Lemma opt_chain_describes : forall gs ph in_group wrap v0 src rops,
  forallb group_ok gs = true -> (forall n, has_dunder (ph n) = false) -> good_wrap wrap ->
  good_spelling v0 (feat src) -> forallb (op_ok_cfg gs) rops = true -> rops <> [] ->
  describes gs rops src (opt_chain gs ph in_group wrap v0 rops).
Proof.
  intros gs ph in_group wrap v0 src rops Ug Hph Hw Hv0. induction rops as [|[i op] rops IH]; intros Hops N; [congruence|].
  cbn [forallb] in Hops. apply andb_true_iff in Hops as [Ho Hops].
  pose proof Ho as Ho'. unfold op_ok_cfg in Ho'. cbn [fst snd] in Ho'. apply andb_true_iff in Ho' as [Li _]. apply Nat.ltb_lt in Li.
  destruct (group_ok_parts _ (forallb_nth_error _ _ _ _ Ug (grp_at_nth_error gs i Li))) as (_ & _ & _ & K & _).
  rewrite str_eqb_sym in K.
  cbn [opt_chain]. unfold opt_feature.
  destruct rops as [|y rops'].
  - pose proof (level_options_two gs in_group (g_key (grp_at gs i)) op v0 K) as L. unfold two in L.
    destruct in_group; eapply D_last; eauto.
  - destruct (opt_chain_is_feat gs ph in_group wrap v0 y rops') as (n & g & c & E).
    pose proof (level_options_two gs in_group (g_key (grp_at gs i)) op (wrap (opt_chain gs ph in_group wrap v0 (y :: rops'))) K) as L.
    unfold two in L. pose proof (IH Hops ltac:(discriminate)) as D.
    pose proof (Hw n g c) as Gs. rewrite E in *.
    destruct in_group;
      (eapply (D_more gs i op _ _ _ (wrap (PFeat n g c)) n g c); [apply Hph | exact L | exact Gs | discriminate | exact D]).
Qed.

Lemma opt_chain_resolves_l : forall gs ph in_group wrap v0 src rops,
  universe_ok gs = true -> (forall n, has_dunder (ph n) = false) -> good_wrap wrap ->
  good_spelling v0 (feat src) -> has_dunder src = false ->
  forallb (op_ok_cfg gs) rops = true -> rops <> [] ->
  resolve_chain gs (S (List.length rops)) (opt_chain gs ph in_group wrap v0 rops) = walk_of rops src.
Proof.
  intros gs ph in_group wrap v0 src rops U Hph Hw Hv0 Hsrc Hops N.
  pose proof U as U'. unfold universe_ok in U'. apply andb_true_iff in U' as [Ug _].
  apply describes_resolves_l; auto. apply opt_chain_describes; auto.
Qed.

(* ---------------------------------------------------------------------------------------------------------- *)
(* the JSON document loads to the group-placed option chain                                                    *)
Lemma key_not_in_features : forall gs i, forallb group_ok gs = true -> i < List.length gs ->
  str_eqb k_in_features (g_key (grp_at gs i)) = false.
Proof.
  intros gs i Ug Li. destruct (group_ok_parts _ (forallb_nth_error _ _ _ _ Ug (grp_at_nth_error gs i Li))) as (_ & _ & _ & K & _).
  rewrite str_eqb_sym. exact K.
Qed.

Lemma mkfeat_nested : forall gs ph src rops, forallb group_ok gs = true -> (forall n, truthy (PStr (ph n)) = true) ->
  forallb (op_ok_cfg gs) rops = true -> rops <> [] ->
  mkfeat (to_pv (json_nested gs ph src rops)) = Ok (opt_chain gs ph true (fun f => f) (PStr src) rops).
Proof.
  intros gs ph src rops Ug Hph. induction rops as [|[i op] rops IH]; intros Hops N; [congruence|].
  cbn [forallb] in Hops. apply andb_true_iff in Hops as [Ho Hops].
  unfold op_ok_cfg in Ho. cbn [fst snd] in Ho. apply andb_true_iff in Ho as [Li _]. apply Nat.ltb_lt in Li.
  pose proof (key_not_in_features gs i Ug Li) as K.
  cbn [json_nested to_pv map fst snd]. cbn [mkfeat].
  change (assoc k_name ((k_name, PStr (ph (List.length ((i, op) :: rops)))) :: _)) with (Some (PStr (ph (List.length ((i, op) :: rops))))).
  pose proof (Hph (List.length ((i, op) :: rops))) as Tn. cbn [truthy] in Tn. cbn [truthy]. rewrite Tn. cbn [negb].
  change (str_eqb k_options k_name) with false. change (str_eqb k_options k_options) with true. cbn iota.
  cbn [pnf].
  change (str_eqb k_in_features k_name) with false. change (str_eqb k_in_features k_options) with false.
  change (str_eqb k_in_features k_in_features) with true. cbn iota.
  destruct rops as [|y rops'].
  - cbn [to_pv map truthy negb]. cbn [opt_chain]. unfold opt_feature. cbn [assoc_set]. rewrite K. reflexivity.
  - assert (T : truthy (to_pv (json_nested gs ph src (y :: rops'))) = true) by (destruct y; reflexivity).
    rewrite T. cbn [negb].
    assert (D : exists d, to_pv (json_nested gs ph src (y :: rops')) = PDict d) by (destruct y; cbn; eauto).
    destruct D as (d & D). rewrite D. rewrite <- D. rewrite (IH Hops ltac:(discriminate)).
    cbn [opt_chain]. unfold opt_feature. cbn [assoc_set]. rewrite K. reflexivity.
Qed.

Lemma load_json_chain : forall gs ph src rops, forallb group_ok gs = true -> (forall n, truthy (PStr (ph n)) = true) ->
  forallb (op_ok_cfg gs) rops = true -> rops <> [] ->
  load (json_chain gs ph src rops) =
  Ok [match rops with
      | [(i, op)] => opt_feature false (ph 1) (g_key (grp_at gs i)) op (PSet true [PStr src])
      | _ => opt_chain gs ph true (fun f => f) (PStr src) rops
      end].
Proof.
  intros gs ph src rops Ug Hph Hops N. destruct rops as [|[i op] rops]; [congruence|].
  pose proof Hops as Hops'. cbn [forallb] in Hops'. apply andb_true_iff in Hops' as [Ho Hops'].
  unfold op_ok_cfg in Ho. cbn [fst snd] in Ho. apply andb_true_iff in Ho as [Li _]. apply Nat.ltb_lt in Li.
  pose proof (key_not_in_features gs i Ug Li) as K.
  destruct rops as [|y rops'].
  - unfold load, json_chain. cbn [to_pv map fst snd load_pv load_items load_item].
    unfold mk_config.
    change (forallb _ _) with true. cbn [negb].
    change (assoc k_name _) with (Some (PStr (ph 1))). cbn iota.
    unfold get_or.
    change (assoc k_options _) with (@None pv). change (assoc k_in_features _) with (Some (PList [PStr src])).
    change (assoc k_group_options _) with (@None pv).
    change (assoc k_context_options _) with (Some (PDict [(g_key (grp_at gs i), PStr op)])).
    change (assoc k_column_index _) with (@None pv).
    cbn [c_options c_group c_context truthy andb orb].
    unfold load_config, feature_name. cbn [c_column c_name c_group c_context c_in_features c_options is_none negb orb truthy].
    unfold or_empty. cbn [truthy frozen_of forallb hashable andb dedup existsb assoc_set].
    rewrite K. unfold mk_options, dup_key. cbn [existsb fst]. reflexivity.
  - unfold load, json_chain. cbn [to_pv map fst snd load_pv load_items load_item].
    unfold mk_config.
    change (forallb _ _) with true. cbn [negb].
    change (assoc k_name _) with (Some (PStr (ph (List.length ((i, op) :: y :: rops'))))). cbn iota.
    unfold get_or.
    change (assoc k_in_features _) with (@None pv). change (assoc k_group_options _) with (@None pv).
    change (assoc k_context_options _) with (@None pv). change (assoc k_column_index _) with (@None pv).
    change (assoc k_options ((k_name, ?a) :: (k_options, ?b) :: nil)) with (Some b).
    cbn [c_options c_group c_context truthy andb orb].
    unfold load_config, feature_name. cbn [c_column c_name c_group c_context c_in_features c_options is_none negb orb truthy].
    cbn [pnf].
    assert (D : exists d, to_pv (json_nested gs ph src (y :: rops')) = PDict d) by (destruct y; cbn; eauto).
    destruct D as (d & D). rewrite D. rewrite <- D.
    change (str_eqb k_in_features k_in_features) with true. cbn iota.
    rewrite (mkfeat_nested gs ph src (y :: rops') Ug Hph Hops' ltac:(discriminate)).
    cbn [opt_chain]. unfold opt_feature. reflexivity.
Qed.

(* ---------------------------------------------------------------------------------------------------------- *)
(* the three notations                                                                                         *)
Lemma three_notations_agree_l : forall gs ph ops src in_group wrap v0,
  universe_ok gs = true -> (forall n, has_dunder (ph n) = false /\ ph n <> []) ->
  chain_ok gs ops = true -> forallb (op_ok_cfg gs) ops = true -> ops <> [] ->
  wf_atom src = true -> contains comma src = false ->
  good_wrap wrap -> good_spelling v0 (feat src) ->
  resolve_chain gs (S (List.length ops)) (feat (chain_name gs src ops)) = expected_walk ops src /\
  resolve_chain gs (S (List.length ops)) (opt_chain gs ph in_group wrap v0 (rev ops)) = expected_walk ops src /\
  exists f, load (json_chain gs ph src (rev ops)) = Ok [f] /\
            resolve_chain gs (S (List.length ops)) f = expected_walk ops src.
Proof.
  intros gs ph ops src in_group wrap v0 U Hph C Cc N A Hc Hw Hv.
  assert (W : expected_walk ops src = walk_of (rev ops) src) by (unfold expected_walk, walk_of; rewrite map_rev; reflexivity).
  assert (Cr : forallb (op_ok_cfg gs) (rev ops) = true).
  { rewrite forallb_forall in *. intros x I. apply Cc. apply in_rev. exact I. }
  assert (Nr : rev ops <> []) by (intros E; apply N; rewrite <- (rev_involutive ops), E; reflexivity).
  assert (Hd : has_dunder src = false).
  { unfold wf_atom in A. apply andb_true_iff in A as [A _]. apply andb_true_iff in A as [_ A]. apply negb_true_iff in A. exact A. }
  assert (Hs : src <> []).
  { unfold wf_atom in A. apply andb_true_iff in A as [A _]. apply andb_true_iff in A as [A _]. apply wf_src_parts in A as [A _]. exact A. }
  pose proof U as U'. unfold universe_ok in U'. apply andb_true_iff in U' as [Ug _].
  split; [apply chain_left_to_right_l; auto|].
  rewrite W, <- (rev_length ops).
  split; [apply opt_chain_resolves_l; auto; intros n; apply Hph|].
  rewrite (load_json_chain gs ph src (rev ops) Ug); auto.
  - eexists; split; [reflexivity|].
    destruct (rev ops) as [|[i op] [|y r]] eqn:E; [congruence | |].
    + change (opt_feature false (ph 1) (g_key (grp_at gs i)) op (PSet true [PStr src]))
        with (opt_chain gs ph false (fun f => f) (PSet true [PStr src]) [(i, op)]).
      apply opt_chain_resolves_l; auto; [intros n; apply Hph | apply good_wrap_id | apply good_spelling_frozen_str].
    + apply opt_chain_resolves_l; auto; [intros n; apply Hph | apply good_wrap_id | apply good_spelling_str; auto].
  - intros n. destruct (Hph n) as [_ Hn]. destruct (ph n); [congruence | reflexivity].
Qed.

(* ---------------------------------------------------------------------------------------------------------- *)
(* rejected configurations                                                                                     *)
Require Import MV.Spec.ConfigSchema.

Lemma load_items_err : forall l x e, In x l -> load_item x = Err e -> exists e', load_items l = Err e'.
Proof.
  induction l as [|y l IH]; intros x e I H; [contradiction|]. cbn [load_items].
  destruct I as [->|I].
  - rewrite H. eauto.
  - destruct (load_item y); eauto. destruct (IH _ _ I H) as (e' & ->). eauto.
Qed.

Lemma keys_map : forall kv,
  forallb (fun p : str * pv => existsb (str_eqb (fst p)) config_keys) (map (fun p => (fst p, to_pv (snd p))) kv) =
  forallb (fun p : str * json => existsb (str_eqb (fst p)) config_keys) kv.
Proof. induction kv as [|[k v] kv IH]; cbn [map forallb fst snd]; auto. rewrite IH. reflexivity. Qed.

Lemma assoc_map : forall k kv, assoc k (map (fun p => (fst p, to_pv (snd p))) kv) =
  match jassoc k kv with Some v => Some (to_pv v) | None => None end.
Proof.
  induction kv as [|[k' v] kv IH]; cbn [map assoc jassoc fst snd]; auto.
  destruct (str_eqb k k'); auto.
Qed.

Lemma bad_item_rejected : forall x, item_structure_ok x = false -> exists e, load_item (to_pv x) = Err e.
Proof.
  intros x H. destruct x as [| b | z | s | l | kv]; cbn [to_pv load_item]; eauto; [discriminate|].
  cbn [item_structure_ok] in H. unfold mk_config. rewrite keys_map, assoc_map.
  destruct (forallb _ kv); cbn [negb]; eauto.
  cbn [andb] in H. unfold has_key in H. destruct (jassoc k_name kv); [discriminate | eauto].
Qed.

Lemma structurally_invalid_rejected_l : forall j, structure_ok j = false -> accepted j = false.
Proof.
  intros j H. unfold accepted, load. destruct j as [| b | z | s | l | kv]; cbn [to_pv load_pv]; auto.
  cbn [structure_ok] in H.
  assert (X : exists x, In x l /\ item_structure_ok x = false).
  { induction l as [|a l IH]; cbn [forallb] in H; [discriminate|].
    destruct (item_structure_ok a) eqn:E; [destruct (IH H) as (x & I & F); exists x; split; [right|]; auto|].
    exists a; split; [left|]; auto. }
  destruct X as (x & I & F). destruct (bad_item_rejected x F) as (e & Er).
  destruct (load_items_err (map to_pv l) (to_pv x) e (in_map to_pv l x I) Er) as (e' & ->). reflexivity.
Qed.

Lemma truthy_nonempty_obj : forall o, j_nonempty_obj o = true -> truthy (to_pv o) = true.
Proof. intros [| | | | |[|p kv]]; cbn; intros; try discriminate; auto. Qed.

Lemma exclusive_clash_rejected_l : forall l x, In x l -> item_structure_ok x = true -> item_exclusive_clash x = true ->
  accepted (JArr l) = false.
Proof.
  intros l x I S C. unfold accepted, load. cbn [to_pv load_pv].
  assert (Er : load_item (to_pv x) = Err EValue).
  { destruct x as [| | | | |kv]; try discriminate. cbn [to_pv load_item]. unfold mk_config.
    cbn [item_structure_ok] in S. apply andb_true_iff in S as [S1 S2].
    rewrite keys_map, S1. cbn [negb]. rewrite !assoc_map. unfold has_key in S2.
    destruct (jassoc k_name kv); [|discriminate]. unfold get_or. rewrite !assoc_map.
    cbn [item_exclusive_clash] in C. apply andb_true_iff in C as [C1 C2].
    destruct (jassoc k_options kv) as [o|]; [|discriminate]. cbn [c_options c_group c_context].
    rewrite (truthy_nonempty_obj o C1). cbn [andb].
    apply orb_true_iff in C2 as [C2|C2].
    - destruct (jassoc k_group_options kv) as [g|]; [|discriminate]. rewrite (truthy_nonempty_obj g C2). reflexivity.
    - destruct (jassoc k_context_options kv) as [g|]; [|discriminate]. rewrite (truthy_nonempty_obj g C2).
      rewrite orb_true_r. reflexivity. }
  destruct (load_items_err (map to_pv l) (to_pv x) EValue (in_map to_pv l x I) Er) as (e' & ->). reflexivity.
Qed.
