(* The theorems of Props/PlannerL.v in terms of the readable definitions of Spec/PlannerLSpec.v, derived from the exact-plan
   lemmas of PlannerLStarPlan.v (one framework, n roots) and PlannerLTwo.v (two frameworks, two roots). *)
From Coq Require Import List Bool Arith Lia Permutation String.
Import ListNotations.
Require Import MV.Model.Orch MV.Model.OrchCheck MV.Model.Grouping MV.Model.PlannerA MV.Model.LinkSel MV.Model.PlannerL.
Require Import MV.Spec.PlannerASpec MV.Spec.PlannerLSpec.
Require Import MV.Proofs.PlannerASets MV.Proofs.PlannerAOrder MV.Proofs.PlannerAGraph MV.Proofs.PlannerADet.
Require Import MV.Proofs.OrchP MV.Proofs.PlanSimP MV.Proofs.PlannerAP.
Require Import MV.Proofs.PlannerLBase MV.Proofs.PlannerLStar MV.Proofs.PlannerLStages MV.Proofs.PlannerLStarData.
Require Import MV.Proofs.PlannerLStarPlan MV.Proofs.PlannerLTwo.
Open Scope nat_scope.
Open Scope list_scope.

(* ---------- two roots, two frameworks ---------- *)
Section TwoCor.
  Variables (ord : oparam) (mro : cls -> list cls) (l : plink).
  Variables (ra rb : sroot) (rs : list sroot) (f C cc : nat) (ps : list nat).
  Hypothesis Hord : ord_ok ord.
  Hypothesis Hrs : Permutation [ra; rb] rs.
  Hypothesis Hok : star_ok rs f C ps.
  Hypothesis Hlinks : links_ok [l] (f :: map sr_id rs).
  Hypothesis Hflat : flat_roots mro rs.
  Hypothesis HL : lfg (pl_l l) = sr_grp ra.
  Hypothesis HR : rfg (pl_l l) = sr_grp rb.
  Hypothesis Hcross : sr_cfw ra <> sr_cfw rb.
  Hypothesis Hcc : cc = sr_cfw ra \/ cc = sr_cfw rb.

  Lemma final2_two_plan : final2 ord l ra rb rs f C cc ps = two_plan ord (star_g rs f C cc ps) l ra rb ps f C cc.
  Proof.
    unfold final2, two_plan, a_left, cn, is_right, two_left_cfw. f_equal. f_equal.
    - unfold tfs2, jstep', two_tfs_step, two_join_step, join_tfs_key, jt_of, lfg_of, rfg_of, plink_of. cbn [find]. rewrite Nat.eqb_refl.
      destruct (Nat.eqb (if jt_eqb (jt (pl_l l)) RIGHT then sr_cfw rb else cc) (sr_cfw ra)); destruct (jt (pl_l l)); reflexivity.
  Qed.

  Theorem two_root_plan :
    prepare_L ord (star_g rs f C cc ps) mro [l] =
      if is_set_jt (jt (pl_l l)) then LRejected e_appendunion []
      else LPlanned (number_L 0 (two_plan ord (star_g rs f C cc ps) l ra rb ps f C cc)).
  Proof.
    rewrite (two_root_cross ord mro l ra rb rs f C cc ps Hord Hrs Hok Hlinks Hflat HL HR Hcross Hcc). rewrite final2_two_plan. reflexivity.
  Qed.

  Theorem two_root_plan_wf :
    (exists order, wf_plan order (map core (number_L 0 (two_plan ord (star_g rs f C cc ps) l ra rb ps f C cc))) = true).
  Proof.
    rewrite <- final2_two_plan. rewrite map_core_number_L.
    exact (proj1 (final2_wf ord l ra rb rs f C cc ps Hord Hrs Hok Hlinks HL HR Hcross Hcc)).
  Qed.
End TwoCor.

(* the plan of a two-root request does not depend on the oracle, except for the order inside the consumer's required set *)
Lemma two_plan_oracle : forall ord ord' g l ra rb ps f C cc, ord_ok ord -> ord_ok ord' ->
  Forall2 step_equiv (map core (two_plan ord g l ra rb ps f C cc)) (map core (two_plan ord' g l ra rb ps f C cc)).
Proof.
  intros ord ord' g l ra rb ps f C cc Ho Ho'. unfold two_plan. rewrite !map_app. apply Forall2_app; [apply Forall2_refl_gen; apply step_equiv_refl|].
  apply Forall2_app; [apply Forall2_refl_gen; apply step_equiv_refl|]. constructor; [|constructor].
  cbn [map core two_cons_step]. repeat split; cbn; try apply Permutation_refl.
  apply (Permutation_trans (Ho 3 _)). apply Permutation_sym. apply Ho'.
Qed.

(* ---------- stars on one framework ---------- *)
Section StarCor.
  Variables (ord : oparam) (mro : cls -> list cls) (links : list plink).
  Variables (rs : list sroot) (f C cc : nat) (ps : list nat).
  Hypothesis Hord : ord_ok ord.
  Hypothesis Hok : star_ok rs f C ps.
  Hypothesis Hlinks : links_ok links (f :: map sr_id rs).
  Hypothesis Hflat : flat_roots mro rs.
  Hypothesis Hone : forall r, In r rs -> sr_cfw r = cc.
  Let g := star_g rs f C cc ps.
  Let KS := ks ord mro links rs f C cc ps.

  (* the Links of the trekker keys, in trekker order *)
  Definition KSL : list plink := flat_map (fun k => match plink_of links (k_uid k) with Some l => [l] | None => [] end) KS.

  Lemma KS_link : forall k, In k KS -> exists l, plink_of links (k_uid k) = Some l /\ In l links /\ pl_uid l = k_uid k /\
    exists ri rj, needed_by rs l ri rj.
  Proof.
    intros k Hk. apply (ks_In ord mro links rs f C cc ps Hord Hok Hlinks Hflat) in Hk. destruct Hk as [l [ri [rj [Hl [Hn Ek]]]]].
    exists l. subst k. cbn [k_uid fst]. split; [exact (plink_of_In links rs f Hlinks l Hl)|]. split; [exact Hl|]. split; [reflexivity|].
    exists ri, rj. exact Hn.
  Qed.

  Lemma KSL_map : forall (A : Type) (F : lkey -> A) (G : plink -> A),
    (forall k l, In k KS -> plink_of links (k_uid k) = Some l -> F k = G l) -> map F KS = map G KSL.
  Proof.
    intros A F G H. unfold KSL.
    assert (Hg : forall lst, incl lst KS ->
              map F lst = map G (flat_map (fun k => match plink_of links (k_uid k) with Some l => [l] | None => [] end) lst)).
    { intros lst. induction lst as [|k lst IH]; intros Hin; [reflexivity|]. cbn [map flat_map].
      destruct (KS_link k (Hin k (or_introl eq_refl))) as [l [El _]]. rewrite El. cbn [app map]. f_equal.
      - apply H; [apply Hin; left; reflexivity | exact El].
      - apply IH. intros x Hx. apply Hin. right. exact Hx. }
    apply Hg. apply incl_refl.
  Qed.

  Lemma KSL_uids : map pl_uid KSL = map k_uid KS.
  Proof.
    symmetry. apply KSL_map. intros k l Hk El. apply (plink_of_Some links) in El. symmetry. apply El.
  Qed.

  Lemma KSL_nodup : NoDup KSL.
  Proof.
    apply (NoDup_map_inv pl_uid). rewrite KSL_uids. exact (ks_uids_nodup ord mro links rs f C cc ps Hord Hok Hlinks Hflat).
  Qed.

  Lemma KSL_In : forall l, In l KSL <-> In l links /\ exists ri rj, needed_by rs l ri rj.
  Proof.
    intros l. unfold KSL. rewrite in_flat_map. split.
    - intros [k [Hk Hl]]. destruct (KS_link k Hk) as [l' [El [Hl' [_ Hn]]]]. rewrite El in Hl. destruct Hl as [<-|[]]. split; assumption.
    - intros [Hl [ri [rj Hn]]]. exists (pl_uid l, (sr_cfw ri, sr_cfw rj)). split.
      + apply (ks_In ord mro links rs f C cc ps Hord Hok Hlinks Hflat). exists l, ri, rj. repeat split; try assumption; apply Hn.
      + cbn [k_uid fst]. rewrite (plink_of_In links rs f Hlinks l Hl). left. reflexivity.
  Qed.

  Lemma plan0_star_plan : plan0 ord mro links rs f C cc ps = star_plan ord g rs ps f C cc KSL.
  Proof.
    unfold plan0, star_plan.
    assert (E2 : map (join_step links rs cc ps) KS = map (star_join_step rs ps cc) KSL).
    { apply (KSL_map lstep (join_step links rs cc ps) (star_join_step rs ps cc)).
      intros k l Hk El. unfold join_step, star_join_step, lfg_of, rfg_of. rewrite El.
      apply (plink_of_Some links) in El. destruct El as [_ <-]. reflexivity. }
    assert (E3 : cons_step ord mro links rs f C cc ps = star_cons_step ord g ps f C cc KSL).
    { unfold cons_step, star_cons_step. rewrite KSL_uids. reflexivity. }
    fold KS. rewrite E2, E3. reflexivity.
  Qed.

  Definition links_of (lst : list lkey) : list plink :=
    flat_map (fun k => match plink_of links (k_uid k) with Some l => [l] | None => [] end) lst.
  Lemma find_bad_gen : forall lst, incl lst KS ->
    match find (bad_key links) lst with
    | Some k => exists l, find (fun l => negb (plain_jt (jt (pl_l l)))) (links_of lst) = Some l /\ err_of links k = reject_code (jt (pl_l l))
    | None => find (fun l => negb (plain_jt (jt (pl_l l)))) (links_of lst) = None
    end.
  Proof.
    intros lst. induction lst as [|k lst IH]; intros Hin; [reflexivity|]. cbn [find links_of flat_map].
    destruct (KS_link k (Hin k (or_introl eq_refl))) as [l [El _]]. rewrite El. cbn [app find].
    assert (Ee : err_of links k = reject_code (jt (pl_l l))).
    { unfold err_of, jt_of. rewrite El. unfold reject_code. destruct (jt (pl_l l)); reflexivity. }
    assert (Eb : bad_key links k = negb (plain_jt (jt (pl_l l)))).
    { unfold bad_key, jt_of. rewrite El. destruct (jt (pl_l l)); reflexivity. }
    rewrite Eb. destruct (negb (plain_jt (jt (pl_l l)))) eqn:E.
    - exists l. split; [reflexivity | exact Ee].
    - apply IH. intros x Hx. apply Hin. right. exact Hx.
  Qed.
  Lemma find_bad_KSL :
    match find (bad_key links) KS with
    | Some k => exists l, find (fun l => negb (plain_jt (jt (pl_l l)))) KSL = Some l /\ err_of links k = reject_code (jt (pl_l l))
    | None => find (fun l => negb (plain_jt (jt (pl_l l)))) KSL = None
    end.
  Proof. exact (find_bad_gen KS (incl_refl _)). Qed.

  (* the plan of a star request on one framework *)
  Theorem star_plan_theorem : links <> [] ->
    exists KSl : list plink,
      NoDup KSl /\ (forall l, In l KSl <-> In l links /\ exists ri rj, needed_by rs l ri rj) /\
      match find (fun l => negb (plain_jt (jt (pl_l l)))) KSl with
      | Some l => prepare_L ord g mro links = LRejected (reject_code (jt (pl_l l))) []
      | None => exists p, prepare_L ord g mro links = LPlanned p /\
                          Forall2 same_steps (number_L 0 (star_plan ord g rs ps f C cc KSl)) p /\
                          exists order, wf_plan order (map core p) = true
      end.
  Proof.
    intros Hne. exists KSL. split; [exact KSL_nodup|]. split; [exact KSL_In|].
    pose proof (star_prepare_single ord mro links rs f C cc ps Hord Hok Hlinks Hflat Hone Hne) as H.
    pose proof find_bad_KSL as Hb. fold KS in H. destruct (find (bad_key links) KS) as [k|].
    - destruct Hb as [l [El Ee]]. rewrite El. rewrite <- Ee. exact H.
    - rewrite Hb. destruct H as [p [Hp Hf]]. exists p. split; [exact Hp|]. split; [rewrite <- plan0_star_plan; exact Hf|].
      rewrite <- (Forall2_map_eq _ _ fg_upd core _ p fg_upd_core Hf). rewrite map_core_number_L, plan0_cores.
      exact (cores_wf ord mro links rs f C cc ps Hord Hok Hlinks Hflat).
  Qed.
End StarCor.

(* ---------- facts about star_plan itself ---------- *)
Lemma same_steps_core : forall x y, same_steps x y -> core x = core y.
Proof. exact fg_upd_core. Qed.

Lemma same_steps_cores : forall a b, Forall2 same_steps a b -> map core a = map core b.
Proof. intros a b H. exact (Forall2_map_eq _ _ same_steps core a b same_steps_core H). Qed.

(* JoinSteps are kept as they are *)
Lemma same_steps_join : forall a b x s uid lf rf lus rus, Forall2 same_steps a b -> x = LJOIN s uid lf rf lus rus -> (In x a <-> In x b).
Proof.
  intros a b x s uid lf rf lus rus H ->. induction H as [|y z a b Hyz H IH]; [reflexivity|]. cbn [In]. rewrite IH.
  assert (E : y = LJOIN s uid lf rf lus rus <-> z = LJOIN s uid lf rf lus rus).
  { destruct y, z; cbn in Hyz; try contradiction; try discriminate Hyz; split; intros E; try discriminate E; congruence. }
  rewrite E. reflexivity.
Qed.

(* determinism: two oracles give the same plan up to the order of the JoinSteps and of the lists inside the steps *)
Lemma star_plan_equiv : forall ord ord' g rs ps f C cc KS KS', ord_ok ord -> ord_ok ord' -> Permutation KS KS' ->
  plan_equiv (number 0 (map core (star_plan ord g rs ps f C cc KS))) (number 0 (map core (star_plan ord' g rs ps f C cc KS'))).
Proof.
  intros ord ord' g rs ps f C cc KS KS' Ho Ho' Hperm.
  set (P := map core (star_plan ord g rs ps f C cc KS)). set (P' := map core (star_plan ord' g rs ps f C cc KS')).
  set (X := map core (map (star_root_step g cc) ps) ++ map core (map (star_join_step rs ps cc) KS) ++ [core (star_cons_step ord' g ps f C cc KS')]).
  assert (H1 : Forall2 step_equiv P X).
  { unfold P, X, star_plan. rewrite !map_app. apply Forall2_app; [apply Forall2_refl_gen; apply step_equiv_refl|].
    apply Forall2_app; [apply Forall2_refl_gen; apply step_equiv_refl|]. constructor; [|constructor].
    cbn [map core star_cons_step]. repeat split; cbn; try apply Permutation_refl.
    apply (Permutation_trans (Ho 3 _)). apply (Permutation_trans (Permutation_app_head ps (Permutation_map pl_uid Hperm))).
    apply Permutation_sym. apply Ho'. }
  assert (H2 : Permutation X P').
  { unfold X, P', star_plan. rewrite !map_app. apply Permutation_app_head. apply Permutation_app_tail.
    apply Permutation_map. apply Permutation_map. exact Hperm. }
  assert (H0 : Forall2 step_equiv (number 0 P) X).
  { apply (PlannerADet.Forall2_trans_gen _ _ step_equiv_trans _ P); [apply number_equiv | exact H1]. }
  assert (H3 : Forall2 step_equiv P' (number 0 P')).
  { apply (Forall2_sym_gen _ _ step_equiv_sym). apply number_equiv. }
  destruct (Permutation_Forall2 H2 (Forall2_flip _ _ _ _ _ H0)) as [q [Hq1 Hq2]].
  exists q. split; [exact Hq1|].
  apply (PlannerADet.Forall2_trans_gen _ _ step_equiv_trans _ P'); [|exact H3].
  apply Forall2_flip in Hq2. exact Hq2.
Qed.

(* in a star plan no JoinStep waits for another JoinStep: they all wait for the roots only *)
Lemma star_joins_unordered : forall ord g rs ps f C cc KS x y,
  In x (map (star_join_step rs ps cc) KS) -> In y (star_plan ord g rs ps f C cc KS) ->
  (forall u, In u ps -> forall l, In l KS -> u <> pl_uid l /\ u <> js_uid (pl_uid l)) ->
  match y with LJOIN s _ _ _ _ _ => forall u, In u (uuids s) -> ~ In u (req (core x)) | _ => True end.
Proof.
  intros ord g rs ps f C cc KS x y Hx Hy Hfresh. destruct y as [| s uid lf rf lus rus |]; try exact I.
  intros u Hu Hr. apply in_map_iff in Hx. destruct Hx as [lx [<- _]]. cbn [core star_join_step req] in Hr.
  unfold star_plan in Hy. apply in_app_iff in Hy. destruct Hy as [Hy|Hy].
  - apply in_map_iff in Hy. destruct Hy as [p [E _]]. discriminate E.
  - apply in_app_iff in Hy. destruct Hy as [Hy|[Hy|[]]]; [|discriminate Hy].
    apply in_map_iff in Hy. destruct Hy as [ly [E Hly]]. injection E as <- <- <- <- <- <-. cbn [uuids] in Hu.
    destruct (Hfresh u Hr ly Hly) as [N1 N2]. destruct Hu as [E|[E|[]]]; [apply N2 | apply N1]; symmetry; exact E.
Qed.
