(* py_eq a b -> canon a == canon b : equal option values have equal canonical forms (C15).
   Ingredients: an induction principle for the nested value type, the order on keys of one class is a total order
   (transitivity of String.leb is proved here, the standard library has none), insertion sort of entries with pairwise
   different keys does not depend on the input order, and is monotone for a key-respecting relation. *)
From Coq Require Import List Bool ZArith NArith String Ascii Arith Lia Permutation.
Import ListNotations.
Require Import MV.Model.Options MV.Spec.OptionsSpec MV.Proofs.OptionsP.
Open Scope Z_scope.

(* ---------- induction principle ---------- *)
Section PyvalInd.
  Variable P : pyval -> Prop.
  Hypothesis HNone : P VNone.
  Hypothesis HBool : forall b, P (VBool b).
  Hypothesis HInt : forall z, P (VInt z).
  Hypothesis HStr : forall s, P (VStr s).
  Hypothesis HList : forall l, Forall P l -> P (VList l).
  Hypothesis HTuple : forall l, Forall P l -> P (VTuple l).
  Hypothesis HSet : forall l, Forall P l -> P (VSet l).
  Hypothesis HFSet : forall l, Forall P l -> P (VFSet l).
  Hypothesis HDict : forall d, Forall (fun kv => P (snd kv)) d -> P (VDict d).
  Hypothesis HOpq : forall n h, P (VOpq n h).
  Fixpoint pyval_ind' (v : pyval) : P v :=
    let go := fix go (l : list pyval) : Forall P l :=
      match l with [] => Forall_nil P | x :: t => Forall_cons x (pyval_ind' x) (go t) end in
    match v with
    | VNone => HNone
    | VBool b => HBool b
    | VInt z => HInt z
    | VStr s => HStr s
    | VList l => HList l (go l)
    | VTuple l => HTuple l (go l)
    | VSet l => HSet l (go l)
    | VFSet l => HFSet l (go l)
    | VDict d => HDict d ((fix god (d : list (pykey * pyval)) : Forall (fun kv => P (snd kv)) d :=
                             match d with
                             | [] => Forall_nil _
                             | kv :: t => Forall_cons kv (pyval_ind' (snd kv)) (god t)
                             end) d)
    | VOpq n h => HOpq n h
    end.
End PyvalInd.

(* ---------- order on keys ---------- *)
Lemma str_cmp_trans : forall a b c,
  String.compare a b <> Gt -> String.compare b c <> Gt -> String.compare a c <> Gt.
Proof.
  induction a as [|c1 a IH]; destruct b as [|c2 b], c as [|c3 c]; cbn; try congruence.
  unfold Ascii.compare.
  destruct (N.compare_spec (N_of_ascii c1) (N_of_ascii c2)), (N.compare_spec (N_of_ascii c2) (N_of_ascii c3)),
           (N.compare_spec (N_of_ascii c1) (N_of_ascii c3)); intros Hx1 Hx2; try congruence; try lia.
  eapply IH; eassumption.
Qed.

Lemma str_leb_trans : forall a b c, String.leb a b = true -> String.leb b c = true -> String.leb a c = true.
Proof.
  intros a b c. unfold String.leb. intros H1 H2.
  assert (String.compare a c <> Gt).
  { apply (str_cmp_trans a b c); [destruct (String.compare a b) | destruct (String.compare b c)]; congruence. }
  destruct (String.compare a c); congruence.
Qed.

Lemma kclass_congr : forall a b, key_eqb a b = true -> kclass a = kclass b.
Proof. intros a b H; destruct a, b; cbn in *; try discriminate; reflexivity. Qed.

Lemma key_leb_norm : forall a b, key_leb a b = key_leb (knorm a) (knorm b).
Proof. intros a b; destruct a, b; reflexivity. Qed.
Lemma key_leb_congr : forall a a' b b', key_eqb a a' = true -> key_eqb b b' = true -> key_leb a b = key_leb a' b'.
Proof.
  intros a a' b b' H1 H2. apply key_eqb_norm in H1, H2.
  rewrite (key_leb_norm a b), (key_leb_norm a' b'), H1, H2. reflexivity.
Qed.

Lemma key_leb_total : forall a b, key_leb a b = false -> key_leb b a = true.
Proof.
  intros a b; destruct a, b; cbn; intros H; try discriminate; try reflexivity; try (apply Z.leb_gt in H; apply Z.leb_le; lia).
  destruct (String.leb_total s s0) as [E|E]; congruence.
Qed.

Lemma key_leb_antisym : forall a b, kclass a = kclass b -> kclass a <> 0%nat ->
  key_leb a b = true -> key_leb b a = true -> key_eqb a b = true.
Proof.
  intros a b; destruct a, b; cbn; intros Hc Hn H1 H2; try discriminate; try congruence;
    try (apply Z.leb_le in H1; apply Z.leb_le in H2; apply Z.eqb_eq; lia).
  apply String.eqb_eq. apply String.leb_antisym; assumption.
Qed.

Lemma key_leb_trans : forall a b c, kclass a = kclass b -> kclass b = kclass c -> kclass a <> 0%nat ->
  key_leb a b = true -> key_leb b c = true -> key_leb a c = true.
Proof.
  intros a b c; destruct a, b, c; cbn; intros Hc1 Hc2 Hn H1 H2; try discriminate; try congruence;
    try (apply Z.leb_le in H1; apply Z.leb_le in H2; apply Z.leb_le; lia).
  eapply str_leb_trans; eassumption.
Qed.

(* ---------- insertion sort on entries of one key class ---------- *)
Section SortLemmas.
  Variable c : nat.
  Hypothesis c_pos : c <> 0%nat.
  Notation entry := (pykey * pyval)%type.
  Definition uniform (l : list entry) : Prop := forall e, In e l -> kclass (fst e) = c.

  Lemma insert_in : forall (e x : entry) l, In x (insert_entry e l) <-> x = e \/ In x l.
  Proof.
    intros e x l; induction l as [|y t IH]; cbn.
    - split; [intros [H|[]]; left; auto | intros [H|[]]; left; auto].
    - destruct (key_leb (fst e) (fst y)); cbn.
      + split; [intros [H|H]; auto | intros [H|H]; auto].
      + rewrite IH. split; [intros [H|[H|H]]; auto | intros [H|[H|H]]; auto].
  Qed.

  Lemma isort_in : forall (x : entry) l, In x (isort_entries l) <-> In x l.
  Proof.
    intros x l; induction l as [|y t IH]; cbn; [reflexivity|].
    rewrite insert_in, IH. split; [intros [H|H]; auto | intros [H|H]; auto].
  Qed.

  Lemma insert_length : forall (e : entry) l, List.length (insert_entry e l) = S (List.length l).
  Proof.
    intros e l; induction l as [|y t IH]; cbn; [reflexivity|].
    destruct (key_leb (fst e) (fst y)); cbn; [reflexivity | rewrite IH; reflexivity].
  Qed.

  Lemma insert_comm : forall l (a b : entry),
    kclass (fst a) = c -> kclass (fst b) = c -> uniform l -> key_eqb (fst a) (fst b) = false ->
    insert_entry a (insert_entry b l) = insert_entry b (insert_entry a l).
  Proof.
    intros l a b Ha Hb Hl Hne.
    assert (Hab : key_leb (fst a) (fst b) = true -> key_leb (fst b) (fst a) = true -> False).
    { intros H1 H2. rewrite (key_leb_antisym _ _ (eq_trans Ha (eq_sym Hb)) (eq_ind_r (fun n => n <> 0%nat) c_pos Ha) H1 H2) in Hne.
      discriminate. }
    induction l as [|x t IH].
    - cbn. destruct (key_leb (fst a) (fst b)) eqn:E1, (key_leb (fst b) (fst a)) eqn:E2; try reflexivity.
      + exfalso; auto.
      + rewrite (key_leb_total _ _ E1) in E2. discriminate.
    - assert (Hx : kclass (fst x) = c) by (apply Hl; left; reflexivity).
      assert (Ht : uniform t) by (intros e He; apply Hl; right; exact He).
      cbn. destruct (key_leb (fst b) (fst x)) eqn:Ebx, (key_leb (fst a) (fst x)) eqn:Eax; cbn; rewrite ?Ebx, ?Eax.
      + destruct (key_leb (fst a) (fst b)) eqn:E1, (key_leb (fst b) (fst a)) eqn:E2; try reflexivity.
        * exfalso; auto.
        * rewrite (key_leb_total _ _ E1) in E2. discriminate.
      + destruct (key_leb (fst a) (fst b)) eqn:E1; [|reflexivity].
        assert (key_leb (fst a) (fst x) = true); [|congruence].
        apply (key_leb_trans (fst a) (fst b) (fst x)); try congruence.
      + destruct (key_leb (fst b) (fst a)) eqn:E2; [|reflexivity].
        assert (key_leb (fst b) (fst x) = true); [|congruence].
        apply (key_leb_trans (fst b) (fst a) (fst x)); try congruence.
      + rewrite (IH Ht). reflexivity.
  Qed.

  Lemma isort_uniform : forall l, uniform l -> uniform (isort_entries l).
  Proof. intros l H e He. apply H. apply isort_in. exact He. Qed.

  (* taking an entry out of the middle and inserting it last gives the same sorted list *)
  Lemma isort_extract : forall p e q, uniform (p ++ e :: q) -> nodupk (map fst (p ++ e :: q)) ->
    isort_entries (p ++ e :: q) = insert_entry e (isort_entries (p ++ q)).
  Proof.
    induction p as [|x p IH]; intros e q Hu Hn; [reflexivity|].
    cbn [app isort_entries fold_right]. change (fold_right insert_entry [] (p ++ e :: q)) with (isort_entries (p ++ e :: q)).
    change (fold_right insert_entry [] (p ++ q)) with (isort_entries (p ++ q)).
    unfold nodupk in Hn. cbn in Hn. apply andb_true_iff in Hn. destruct Hn as [Hn1 Hn2].
    rewrite IH; [| intros y Hy; apply Hu; right; exact Hy | exact Hn2].
    apply insert_comm.
    - apply Hu. left. reflexivity.
    - apply Hu. apply in_or_app. right. left. reflexivity.
    - apply isort_uniform. intros y Hy. apply Hu. right. apply in_app_or in Hy. apply in_or_app.
      destruct Hy as [Hy|Hy]; [left; exact Hy | right; right; exact Hy].
    - apply negb_true_iff in Hn1. rewrite map_app in Hn1. cbn in Hn1.
      rewrite kmem_app in Hn1. apply orb_false_elim in Hn1. destruct Hn1 as [_ Hn1].
      unfold kmem in Hn1. cbn in Hn1. apply orb_false_elim in Hn1. exact (proj1 Hn1).
  Qed.
End SortLemmas.

Lemma nodupk_remove_mid : forall (p q : list pykey) k, nodupk (p ++ k :: q) -> nodupk (p ++ q) /\ kmem k (p ++ q) = false.
Proof.
  unfold nodupk. induction p as [|x p IH]; intros q k H; cbn in *.
  - apply andb_true_iff in H. destruct H as [H1 H2]. split; [exact H2 | apply negb_true_iff; exact H1].
  - apply andb_true_iff in H. destruct H as [H1 H2]. destruct (IH q k H2) as [H3 H4].
    apply negb_true_iff in H1. rewrite kmem_app in H1. apply orb_false_elim in H1. destruct H1 as [H1a H1b].
    unfold kmem in H1b. cbn in H1b. apply orb_false_elim in H1b. destruct H1b as [H1b H1c].
    split.
    + rewrite H3, andb_true_r. apply negb_true_iff. rewrite kmem_app. unfold kmem at 2. rewrite H1a, H1c. reflexivity.
    + unfold kmem. cbn. fold (kmem k (p ++ q)). rewrite H4, orb_false_r. rewrite key_eqb_sym. exact H1b.
Qed.

(* ---------- a key-respecting relation between entries ---------- *)
Section Pointwise.
  Variable Q : pyval -> pyval -> Prop.
  Notation entry := (pykey * pyval)%type.
  Definition erel (e e' : entry) : Prop := key_eqb (fst e) (fst e') = true /\ Q (snd e) (snd e').

  Lemma insert_Forall2 : forall l l' x x', Forall2 erel l l' -> erel x x' ->
    Forall2 erel (insert_entry x l) (insert_entry x' l').
  Proof.
    intros l l' x x' H Hx; induction H as [|y y' t t' Hy Ht IH]; cbn.
    - constructor; [exact Hx | constructor].
    - rewrite (key_leb_congr _ _ _ _ (proj1 Hx) (proj1 Hy)).
      destruct (key_leb (fst x') (fst y')); constructor; try assumption. constructor; assumption.
  Qed.

  Lemma sorted_pointwise : forall c, c <> 0%nat -> forall l1 l2 : list entry,
    List.length l1 = List.length l2 -> nodupk (map fst l1) -> nodupk (map fst l2) ->
    uniform c l1 -> uniform c l2 ->
    (forall e, In e l1 -> exists e', In e' l2 /\ erel e e') ->
    Forall2 erel (isort_entries l1) (isort_entries l2).
  Proof.
    intros c Hc; induction l1 as [|e t IH]; intros l2 Hlen Hn1 Hn2 Hu1 Hu2 Hm.
    - destruct l2; [constructor | discriminate].
    - destruct (Hm e (or_introl eq_refl)) as (e' & Hin & He).
      apply in_split in Hin. destruct Hin as (p & q & ->).
      rewrite (isort_extract c Hc p e' q Hu2 Hn2). cbn [isort_entries fold_right].
      change (fold_right insert_entry [] t) with (isort_entries t).
      rewrite map_app in Hn2. cbn [map] in Hn2. destruct (nodupk_remove_mid _ _ _ Hn2) as [Hn2' Hk].
      rewrite <- map_app in Hn2', Hk.
      unfold nodupk in Hn1. cbn in Hn1. apply andb_true_iff in Hn1. destruct Hn1 as [Hn1a Hn1b].
      apply insert_Forall2; [|exact He]. apply IH.
      + rewrite app_length in *. cbn in Hlen. lia.
      + exact Hn1b.
      + exact Hn2'.
      + intros y Hy. apply Hu1. right. exact Hy.
      + intros y Hy. apply Hu2. apply in_app_or in Hy. apply in_or_app. destruct Hy; [left | right; right]; assumption.
      + intros x Hx. destruct (Hm x (or_intror Hx)) as (x' & Hx' & Hr). exists x'. split; [|exact Hr].
        apply in_app_or in Hx'. apply in_or_app. destruct Hx' as [Hx'|[Hx'|Hx']]; [left; exact Hx' | | right; exact Hx'].
        exfalso. subst x'. apply negb_true_iff in Hn1a.
        assert (kmem (fst e) (map fst t) = true); [|congruence].
        apply kmem_true. exists (fst x). split; [apply in_map; exact Hx|].
        apply (key_eqb_trans _ (fst e')); [exact (proj1 He) | rewrite key_eqb_sym; exact (proj1 Hr)].
  Qed.
End Pointwise.

(* ---------- seq_opt helpers ---------- *)
Lemma seq_opt_length : forall A (l : list (option A)) r, seq_opt l = Some r -> List.length r = List.length l.
Proof.
  induction l as [|[x|] t IH]; cbn; intros r H; try discriminate.
  - injection H as <-. reflexivity.
  - destruct (seq_opt t) as [r0|]; [|discriminate]. injection H as <-. cbn. rewrite (IH r0 eq_refl). reflexivity.
Qed.

Lemma seq_opt_map_in : forall A B (f : A -> option B) l r, seq_opt (map f l) = Some r ->
  (forall y, In y r -> exists x, In x l /\ f x = Some y) /\ (forall x, In x l -> exists y, In y r /\ f x = Some y).
Proof.
  induction l as [|a t IH]; cbn; intros r H.
  - injection H as <-. split; intros ? [].
  - destruct (f a) as [b|] eqn:Ea; [|discriminate]. destruct (seq_opt (map f t)) as [r0|] eqn:Et; [|discriminate].
    injection H as <-. destruct (IH r0 eq_refl) as [H1 H2]. split.
    + intros y [<-|Hy]; [exists a; auto|]. destruct (H1 y Hy) as (x & Hx & Hf). exists x. auto.
    + intros x [<-|Hx]; [exists b; split; [left; reflexivity | exact Ea]|]. destruct (H2 x Hx) as (y & Hy & Hf). exists y. split; [right; exact Hy | exact Hf].
Qed.

Lemma seq_opt_map_all2 : forall (f : pyval -> option pyval) (R : pyval -> pyval -> bool) x y cx cy,
  (forall a b ca cb, In a x -> In b y -> R a b = true -> f a = Some ca -> f b = Some cb -> R ca cb = true) ->
  all2 R x y = true -> seq_opt (map f x) = Some cx -> seq_opt (map f y) = Some cy -> all2 R cx cy = true.
Proof.
  induction x as [|a x IH]; intros y cx cy HR Hal Hx Hy; destruct y as [|b y]; cbn in *; try discriminate.
  - injection Hx as <-. injection Hy as <-. reflexivity.
  - destruct (f a) as [fa|] eqn:Ea; [|discriminate]. destruct (seq_opt (map f x)) as [rx|] eqn:Ex; [|discriminate].
    destruct (f b) as [fb|] eqn:Eb; [|discriminate]. destruct (seq_opt (map f y)) as [ry|] eqn:Ey; [|discriminate].
    injection Hx as <-. injection Hy as <-. apply andb_true_iff in Hal. destruct Hal as [H1 H2]. cbn.
    rewrite (HR a b fa fb (or_introl eq_refl) (or_introl eq_refl) H1 Ea Eb). cbn.
    apply (IH y rx ry); auto. intros a' b' ca cb Ha Hb. apply HR; right; assumption.
Qed.

Lemma py_eq_val_of_key : forall k k', py_eq (val_of_key k) (val_of_key k') = key_eqb k k'.
Proof. intros k k'; destruct k, k'; reflexivity. Qed.

(* canonical dict entries keep the keys *)
Definition centry (kv : pykey * pyval) : option (pykey * pyval) := option_map (pair (fst kv)) (canon (snd kv)).
Lemma centries_keys : forall d cd, seq_opt (map centry d) = Some cd -> map fst cd = map fst d.
Proof.
  induction d as [|[k v] t IH]; cbn; intros cd H.
  - injection H as <-. reflexivity.
  - unfold centry at 1 in H. cbn in H. destruct (canon v); cbn in H; [|discriminate].
    destruct (seq_opt (map centry t)) as [r0|] eqn:Et; [|discriminate]. injection H as <-. cbn. rewrite (IH r0 eq_refl). reflexivity.
Qed.

Lemma sortable_cases : forall (l : list (pykey * pyval)), sortable l = true ->
  (List.length l <= 1)%nat \/ uniform 1 l \/ uniform 2 l.
Proof.
  intros l H. destruct l as [|a [|b t]]; [left; cbn; lia | left; cbn; lia |].
  right. unfold sortable in H. apply orb_true_iff in H. destruct H as [H|H]; [left | right];
    intros e He; rewrite forallb_forall in H; apply Nat.eqb_eq; apply H; exact He.
Qed.

Lemma forallb_In : forall A (f : A -> bool) l x, forallb f l = true -> In x l -> f x = true.
Proof. intros A f l x H Hin. rewrite forallb_forall in H. apply H. exact Hin. Qed.

(* ---------- main theorem ---------- *)
Definition canon_resp (a : pyval) : Prop := forall b ca cb,
  wfv a -> wfv b -> nofs a -> nofs b -> py_eq a b = true -> canon a = Some ca -> canon b = Some cb -> py_eq ca cb = true.

Lemma canon_resp_seq : forall x y cx cy, Forall canon_resp x ->
  forallb wfvb x = true -> forallb wfvb y = true -> forallb nofsb x = true -> forallb nofsb y = true ->
  all2 py_eq x y = true -> seq_opt (map canon x) = Some cx -> seq_opt (map canon y) = Some cy ->
  all2 py_eq cx cy = true.
Proof.
  intros x y cx cy HF Hwx Hwy Hnx Hny Hal Hx Hy.
  apply (seq_opt_map_all2 canon py_eq x y cx cy); try assumption.
  intros a b ca cb Ha Hb Hab Hca Hcb. rewrite Forall_forall in HF.
  apply (HF a Ha b ca cb); try assumption; unfold wfv, nofs.
  - exact (forallb_In _ _ _ _ Hwx Ha).
  - exact (forallb_In _ _ _ _ Hwy Hb).
  - exact (forallb_In _ _ _ _ Hnx Ha).
  - exact (forallb_In _ _ _ _ Hny Hb).
Qed.

Lemma canon_resp_set : forall x y cx cy, Forall canon_resp x ->
  forallb wfvb x = true -> forallb wfvb y = true -> forallb nofsb x = true -> forallb nofsb y = true ->
  Nat.eqb (List.length x) (List.length y) && forallb (fun e => existsb (py_eq e) y) x = true ->
  seq_opt (map canon x) = Some cx -> seq_opt (map canon y) = Some cy ->
  Nat.eqb (List.length cx) (List.length cy) && forallb (fun e => existsb (py_eq e) cy) cx = true.
Proof.
  intros x y cx cy HF Hwx Hwy Hnx Hny H Hx Hy. apply andb_true_iff in H. destruct H as [Hl Hall].
  apply andb_true_iff. split.
  - rewrite (seq_opt_length _ _ _ Hx), (seq_opt_length _ _ _ Hy), !map_length. exact Hl.
  - apply forallb_forall. intros ce Hce.
    destruct (seq_opt_map_in _ _ canon x cx Hx) as [Hx1 _]. destruct (seq_opt_map_in _ _ canon y cy Hy) as [_ Hy2].
    destruct (Hx1 ce Hce) as (e & He & Hec).
    pose proof (forallb_In _ _ _ _ Hall He) as Hex. apply existsb_exists in Hex. destruct Hex as (e' & He' & Heq).
    destruct (Hy2 e' He') as (ce' & Hce' & Hec'). apply existsb_exists. exists ce'. split; [exact Hce'|].
    rewrite Forall_forall in HF. apply (HF e He e' ce ce'); try assumption; unfold wfv, nofs.
    + exact (forallb_In _ _ _ _ Hwx He).
    + exact (forallb_In _ _ _ _ Hwy He').
    + exact (forallb_In _ _ _ _ Hnx He).
    + exact (forallb_In _ _ _ _ Hny He').
Qed.

Lemma uniform_class_clash : forall (l1 l2 : list (pykey * pyval)) Q,
  uniform 1 l1 -> uniform 2 l2 -> l1 <> [] -> (forall e, In e l1 -> exists e', In e' l2 /\ erel Q e e') -> False.
Proof.
  intros l1 l2 Q H1 H2 Hne Hm. destruct l1 as [|e t]; [congruence|].
  destruct (Hm e (or_introl eq_refl)) as (e' & Hin & Hk & _).
  pose proof (H1 e (or_introl eq_refl)) as A. pose proof (H2 e' Hin) as B.
  apply kclass_congr in Hk. congruence.
Qed.
Lemma uniform_class_clash' : forall (l1 l2 : list (pykey * pyval)) Q,
  uniform 2 l1 -> uniform 1 l2 -> l1 <> [] -> (forall e, In e l1 -> exists e', In e' l2 /\ erel Q e e') -> False.
Proof.
  intros l1 l2 Q H1 H2 Hne Hm. destruct l1 as [|e t]; [congruence|].
  destruct (Hm e (or_introl eq_refl)) as (e' & Hin & Hk & _).
  pose proof (H1 e (or_introl eq_refl)) as A. pose proof (H2 e' Hin) as B.
  apply kclass_congr in Hk. congruence.
Qed.

Lemma sorted_pointwise_any : forall Q (l1 l2 : list (pykey * pyval)),
  List.length l1 = List.length l2 -> nodupk (map fst l1) -> nodupk (map fst l2) ->
  sortable l1 = true -> sortable l2 = true ->
  (forall e, In e l1 -> exists e', In e' l2 /\ erel Q e e') ->
  Forall2 (erel Q) (isort_entries l1) (isort_entries l2).
Proof.
  intros Q l1 l2 Hlen Hn1 Hn2 Hs1 Hs2 Hm.
  destruct (sortable_cases _ Hs1) as [H1|H1].
  - (* at most one entry *)
    destruct l1 as [|e [|e2 t]]; cbn in H1; try lia.
    + destruct l2; [constructor | discriminate].
    + destruct l2 as [|e' [|e2' t']]; try discriminate. cbn.
      destruct (Hm e (or_introl eq_refl)) as (x & [<-|[]] & Hr). constructor; [exact Hr | constructor].
  - assert (Hne : l1 <> [] -> l2 <> []) by (intros A B; subst l2; destruct l1; [congruence | discriminate]).
    destruct (sortable_cases _ Hs2) as [H2|H2].
    + destruct l2 as [|e' [|e2' t']]; cbn in H2; try lia.
      * destruct l1; [constructor | discriminate].
      * destruct l1 as [|e [|e2 t]]; try discriminate. cbn.
        destruct (Hm e (or_introl eq_refl)) as (x & [<-|[]] & Hr). constructor; [exact Hr | constructor].
    + destruct l1 as [|e0 t0] eqn:El1; [destruct l2; [constructor | discriminate]|]. rewrite <- El1 in *.
      assert (Hnn : l1 <> []) by (rewrite El1; discriminate).
      destruct H1 as [H1|H1], H2 as [H2|H2].
      * apply (sorted_pointwise Q 1%nat); auto.
      * exfalso. eapply uniform_class_clash; eassumption.
      * exfalso. eapply uniform_class_clash'; eassumption.
      * apply (sorted_pointwise Q 2%nat); auto.
Qed.

Lemma canon_resp_dict : forall x y ca cb, Forall (fun kv => canon_resp (snd kv)) x ->
  wfv (VDict x) -> wfv (VDict y) -> nofs (VDict x) -> nofs (VDict y) ->
  py_eq (VDict x) (VDict y) = true -> canon (VDict x) = Some ca -> canon (VDict y) = Some cb -> py_eq ca cb = true.
Proof.
  intros x y ca cb HF Hwx Hwy Hnx Hny Heq Hca Hcb.
  unfold wfv, nofs in *. cbn [wfvb nofsb] in *.
  apply andb_true_iff in Hwx, Hwy. destruct Hwx as [Hdx Hwx], Hwy as [Hdy Hwy].
  cbn [canon] in Hca, Hcb. fold centry in Hca, Hcb.
  change (map (fun kv => option_map (pair (fst kv)) (canon (snd kv))) x) with (map centry x) in Hca.
  change (map (fun kv => option_map (pair (fst kv)) (canon (snd kv))) y) with (map centry y) in Hcb.
  destruct (seq_opt (map centry x)) as [cdx|] eqn:Ex; [|discriminate].
  destruct (seq_opt (map centry y)) as [cdy|] eqn:Ey; [|discriminate].
  unfold sort_entries in Hca, Hcb.
  destruct (sortable cdx) eqn:Sx; [|discriminate]. destruct (sortable cdy) eqn:Sy; [|discriminate].
  cbn in Hca, Hcb. injection Hca as <-. injection Hcb as <-.
  cbn [py_eq] in Heq. apply andb_true_iff in Heq. destruct Heq as [Hlen Hall]. apply Nat.eqb_eq in Hlen.
  assert (HF2 : Forall2 (erel (fun v v' => py_eq v v' = true)) (isort_entries cdx) (isort_entries cdy)).
  { apply sorted_pointwise_any; try assumption.
    - rewrite (seq_opt_length _ _ _ Ex), (seq_opt_length _ _ _ Ey), !map_length. exact Hlen.
    - rewrite (centries_keys _ _ Ex). exact Hdx.
    - rewrite (centries_keys _ _ Ey). exact Hdy.
    - intros [k cv] He.
      destruct (seq_opt_map_in _ _ centry x cdx Ex) as [Hx1 _]. destruct (seq_opt_map_in _ _ centry y cdy Ey) as [_ Hy2].
      destruct (Hx1 _ He) as ([k0 v] & Hin & Hc). unfold centry in Hc. cbn in Hc.
      destruct (canon v) as [cv0|] eqn:Ecv; [|discriminate]. cbn in Hc. injection Hc as -> ->.
      pose proof (forallb_In _ _ _ _ Hall Hin) as Hm. cbn [fst snd] in Hm.
      destruct (find (fun kv' => key_eqb k (fst kv')) y) as [[k' v']|] eqn:Ef; [|discriminate].
      apply find_some in Ef. destruct Ef as [Hin' Hk]. cbn [fst snd] in *.
      destruct (Hy2 _ Hin') as ([k2 cv'] & Hin2 & Hc2). unfold centry in Hc2. cbn in Hc2.
      destruct (canon v') as [cv1|] eqn:Ecv'; [|discriminate]. cbn in Hc2. injection Hc2 as <- <-.
      exists (k', cv1). split; [exact Hin2|]. split; [exact Hk|]. cbn [snd].
      rewrite Forall_forall in HF. apply (HF _ Hin v' cv cv1); try assumption; cbn [snd]; unfold wfv, nofs.
      + apply (forallb_In _ (fun kv => wfvb (snd kv)) x (k, v) Hwx Hin).
      + apply (forallb_In _ (fun kv => wfvb (snd kv)) y (k', v') Hwy Hin').
      + apply (forallb_In _ (fun kv => nofsb (snd kv)) x (k, v) Hnx Hin).
      + apply (forallb_In _ (fun kv => nofsb (snd kv)) y (k', v') Hny Hin'). }
  cbn [py_eq]. induction HF2 as [|e e' t t' [Hk Hv] _ IH]; cbn; [reflexivity|].
  rewrite py_eq_val_of_key, Hk, Hv, IH. reflexivity.
Qed.

Lemma canon_respects_eq_l : forall a, canon_resp a.
Proof.
  induction a using pyval_ind'; unfold canon_resp; intros v ca cb Hwa Hwb Hna Hnb Heq Hca Hcb.
  - destruct v; cbn in Heq; try discriminate. cbn in Hca, Hcb. injection Hca as <-. injection Hcb as <-. reflexivity.
  - destruct v; cbn in Heq; try discriminate; cbn in Hca, Hcb; injection Hca as <-; injection Hcb as <-; exact Heq.
  - destruct v; cbn in Heq; try discriminate; cbn in Hca, Hcb; injection Hca as <-; injection Hcb as <-; exact Heq.
  - destruct v; cbn in Heq; try discriminate; cbn in Hca, Hcb; injection Hca as <-; injection Hcb as <-; exact Heq.
  - destruct v; cbn in Heq; try discriminate. cbn [canon] in Hca, Hcb.
    destruct (seq_opt (map canon l)) eqn:Ex; [|discriminate]. destruct (seq_opt (map canon l0)) eqn:Ey; [|discriminate].
    cbn in Hca, Hcb. injection Hca as <-. injection Hcb as <-. cbn [py_eq].
    eapply canon_resp_seq; eassumption.
  - destruct v; cbn in Heq; try discriminate. cbn [canon] in Hca, Hcb.
    destruct (seq_opt (map canon l)) eqn:Ex; [|discriminate]. destruct (seq_opt (map canon l0)) eqn:Ey; [|discriminate].
    cbn in Hca, Hcb. injection Hca as <-. injection Hcb as <-. cbn [py_eq].
    eapply canon_resp_seq; eassumption.
  - destruct v; cbn in Heq; try discriminate. cbn [canon] in Hca, Hcb.
    destruct (seq_opt (map canon l)) eqn:Ex; [|discriminate]. destruct (seq_opt (map canon l0)) eqn:Ey; [|discriminate].
    cbn in Hca, Hcb. injection Hca as <-. injection Hcb as <-. cbn [py_eq].
    eapply canon_resp_set; eassumption.
  - discriminate Hna.
  - destruct v; try (cbn in Heq; discriminate). eapply canon_resp_dict; eassumption.
  - destruct v; cbn in Heq; try discriminate. cbn in Hca, Hcb. injection Hca as <-. injection Hcb as <-. exact Heq.
Qed.

(* ---------- where _make_hashable is total ---------- *)
Lemma seq_opt_some : forall A B (f : A -> option B) l, (forall x, In x l -> exists y, f x = Some y) ->
  exists r, seq_opt (map f l) = Some r.
Proof.
  induction l as [|a t IH]; intros H; cbn; [eexists; reflexivity|].
  destruct (H a (or_introl eq_refl)) as (y & ->). destruct IH as (r & ->); [intros x Hx; apply H; right; exact Hx|].
  eexists; reflexivity.
Qed.

Definition sortable_k (ks : list pykey) : bool :=
  match ks with
  | [] | [_] => true
  | _ => forallb (fun k => Nat.eqb (kclass k) 1) ks || forallb (fun k => Nat.eqb (kclass k) 2) ks
  end.
Lemma sortable_keys : forall (l : list (pykey * pyval)), sortable l = sortable_k (map fst l).
Proof.
  intros l. destruct l as [|a [|b t]]; try reflexivity. unfold sortable, sortable_k. cbn [map].
  f_equal; change (fst a :: fst b :: map fst t) with (map fst (a :: b :: t)); generalize (a :: b :: t); intros l;
    induction l as [|x l IH]; cbn; [reflexivity | rewrite IH; reflexivity | reflexivity | rewrite IH; reflexivity].
Qed.

Lemma canon_total_l : forall v, orderable v -> exists c, canon v = Some c.
Proof.
  unfold orderable. induction v using pyval_ind'; cbn [orderableb canon]; intros Ho; try (eexists; reflexivity).
  - destruct (seq_opt_some _ _ canon l) as (r & ->); [|eexists; reflexivity].
    intros x Hx. rewrite Forall_forall in H. apply (H x Hx). exact (forallb_In _ _ _ _ Ho Hx).
  - destruct (seq_opt_some _ _ canon l) as (r & ->); [|eexists; reflexivity].
    intros x Hx. rewrite Forall_forall in H. apply (H x Hx). exact (forallb_In _ _ _ _ Ho Hx).
  - destruct (seq_opt_some _ _ canon l) as (r & ->); [|eexists; reflexivity].
    intros x Hx. rewrite Forall_forall in H. apply (H x Hx). exact (forallb_In _ _ _ _ Ho Hx).
  - apply andb_true_iff in Ho. destruct Ho as [Hs Ho].
    change (map (fun kv => option_map (pair (fst kv)) (canon (snd kv))) d) with (map centry d).
    destruct (seq_opt_some _ _ centry d) as (r & Hr).
    { intros [k v] Hx. rewrite Forall_forall in H. destruct (H _ Hx) as (cv & Hcv).
      - exact (forallb_In _ (fun kv => orderableb (snd kv)) d (k, v) Ho Hx).
      - cbn in Hcv. unfold centry. cbn. rewrite Hcv. eexists; reflexivity. }
    rewrite Hr. unfold sort_entries. rewrite sortable_keys, (centries_keys _ _ Hr), <- sortable_keys, Hs.
    eexists; reflexivity.
Qed.

Lemma canon_total_conv_l : forall v c, canon v = Some c -> orderable v.
Proof.
  unfold orderable. induction v using pyval_ind'; cbn [orderableb canon]; intros c Hc; try reflexivity.
  - destruct (seq_opt (map canon l)) as [r|] eqn:E; [|discriminate]. apply forallb_forall. intros x Hx.
    destruct (seq_opt_map_in _ _ canon l r E) as [_ H2]. destruct (H2 x Hx) as (y & _ & Hy).
    rewrite Forall_forall in H. exact (H x Hx y Hy).
  - destruct (seq_opt (map canon l)) as [r|] eqn:E; [|discriminate]. apply forallb_forall. intros x Hx.
    destruct (seq_opt_map_in _ _ canon l r E) as [_ H2]. destruct (H2 x Hx) as (y & _ & Hy).
    rewrite Forall_forall in H. exact (H x Hx y Hy).
  - destruct (seq_opt (map canon l)) as [r|] eqn:E; [|discriminate]. apply forallb_forall. intros x Hx.
    destruct (seq_opt_map_in _ _ canon l r E) as [_ H2]. destruct (H2 x Hx) as (y & _ & Hy).
    rewrite Forall_forall in H. exact (H x Hx y Hy).
  - change (map (fun kv => option_map (pair (fst kv)) (canon (snd kv))) d) with (map centry d) in Hc.
    destruct (seq_opt (map centry d)) as [r|] eqn:E; [|discriminate].
    unfold sort_entries in Hc. destruct (sortable r) eqn:Sr; [|discriminate].
    rewrite sortable_keys, (centries_keys _ _ E), <- sortable_keys in Sr. rewrite Sr. cbn.
    apply forallb_forall. intros [k v] Hx.
    destruct (seq_opt_map_in _ _ centry d r E) as [_ H2]. destruct (H2 _ Hx) as (y & _ & Hy).
    unfold centry in Hy. cbn in Hy. destruct (canon v) as [cv|] eqn:Ecv; [|discriminate].
    rewrite Forall_forall in H. exact (H _ Hx cv Ecv).
Qed.

(* ---------- consequences for hashing ---------- *)
Lemma hash_key_respects_eq_l : forall a b ha hb, wfv a -> wfv b -> nofs a -> nofs b ->
  py_eq a b = true -> hash_key a = Some ha -> hash_key b = Some hb -> py_eq ha hb = true.
Proof.
  intros a b ha hb Hwa Hwb Hna Hnb Heq Ha Hb. unfold hash_key in *.
  destruct (canon a) as [ca|] eqn:Ea; [|discriminate]. destruct (canon b) as [cb|] eqn:Eb; [|discriminate].
  destruct (hashable ca); [|discriminate]. destruct (hashable cb); [|discriminate].
  injection Ha as <-. injection Hb as <-. exact (canon_respects_eq_l a b ca cb Hwa Hwb Hna Hnb Heq Ea Eb).
Qed.
