(* Lemmas about Spec/Rel.v: canonical rows, bag equality, algebra of the join operators.
   Standard library only; no axioms. *)
From Coq Require Import List String Ascii ZArith NArith Bool Permutation Sorted Lia.
Import ListNotations.
Require Import MV.Spec.Rel.
Open Scope string_scope.
Open Scope list_scope.

(* ==================================================================================================== *)
(* values *)

Lemma val_eqb_eq : forall a b, val_eqb a b = true <-> a = b.
Proof.
  destruct a, b; simpl; split; intro H; try discriminate; try reflexivity.
  - apply Z.eqb_eq in H. now subst.
  - inversion H. apply Z.eqb_refl.
  - apply String.eqb_eq in H. now subst.
  - inversion H. apply String.eqb_refl.
Qed.

Lemma val_eqb_refl : forall a, val_eqb a a = true.
Proof. intro a. now apply val_eqb_eq. Qed.

(* ==================================================================================================== *)
(* a strict total order on column names *)

Definition slt (a b : string) : Prop := String.compare a b = Lt.

Lemma ascii_compare_refl : forall a, Ascii.compare a a = Eq.
Proof. intro a. unfold Ascii.compare. apply N.compare_refl. Qed.

Lemma ascii_lt_trans : forall a b c,
  Ascii.compare a b = Lt -> Ascii.compare b c = Lt -> Ascii.compare a c = Lt.
Proof.
  unfold Ascii.compare. intros a b c H1 H2.
  rewrite N.compare_lt_iff in *. eapply N.lt_trans; eauto.
Qed.

Lemma scompare_refl : forall a, String.compare a a = Eq.
Proof. induction a; simpl; auto. rewrite ascii_compare_refl. exact IHa. Qed.

Lemma slt_irrefl : forall a, ~ slt a a.
Proof. unfold slt. intros a H. rewrite scompare_refl in H. discriminate. Qed.

Lemma slt_trans : forall a b c, slt a b -> slt b c -> slt a c.
Proof.
  unfold slt. induction a as [|x a IH]; destruct b as [|y b], c as [|z c]; simpl; intros H1 H2;
    try discriminate; auto.
  destruct (Ascii.compare x y) eqn:E1; try discriminate;
    destruct (Ascii.compare y z) eqn:E2; try discriminate.
  - apply Ascii.compare_eq_iff in E1. apply Ascii.compare_eq_iff in E2. subst.
    rewrite ascii_compare_refl. eapply IH; eauto.
  - apply Ascii.compare_eq_iff in E1. subst. now rewrite E2.
  - apply Ascii.compare_eq_iff in E2. subst. now rewrite E1.
  - now rewrite (ascii_lt_trans _ _ _ E1 E2).
Qed.

Lemma scompare_gt_lt : forall a b, String.compare a b = Gt -> slt b a.
Proof. unfold slt. intros a b H. rewrite String.compare_antisym, H. reflexivity. Qed.

(* ==================================================================================================== *)
(* sort_u: strictly sorted, duplicate free, same elements *)

Definition ssorted (l : list col) : Prop := StronglySorted slt l.

Lemma insert_u_in : forall c l x, In x (insert_u c l) <-> x = c \/ In x l.
Proof.
  induction l as [|d t IH]; simpl; intros x.
  - intuition.
  - destruct (String.compare c d) eqn:E; simpl.
    + apply String.compare_eq_iff in E. subst. intuition.
    + intuition.
    + rewrite IH. intuition.
Qed.

Lemma insert_u_sorted : forall c l, ssorted l -> ssorted (insert_u c l).
Proof.
  unfold ssorted. induction l as [|d t IH]; simpl; intros H.
  - constructor; constructor.
  - destruct (String.compare c d) eqn:E.
    + exact H.
    + constructor; [exact H|]. inversion H as [|? ? H2 H3]; subst. constructor; [exact E|].
      rewrite Forall_forall in *. intros x Hx. eapply slt_trans; [exact E|]. apply H3; auto.
    + inversion H; subst. constructor; auto.
      rewrite Forall_forall in *. intros x Hx. apply insert_u_in in Hx. destruct Hx as [->|Hx].
      * now apply scompare_gt_lt.
      * auto.
Qed.

Lemma sort_u_in : forall l x, In x (sort_u l) <-> In x l.
Proof.
  induction l as [|c t IH]; simpl; intros x; [tauto|].
  rewrite insert_u_in, IH. intuition.
Qed.

Lemma sort_u_sorted : forall l, ssorted (sort_u l).
Proof. induction l; simpl; [constructor | now apply insert_u_sorted]. Qed.

Lemma ssorted_unique : forall l1 l2, ssorted l1 -> ssorted l2 -> (forall x, In x l1 <-> In x l2) -> l1 = l2.
Proof.
  unfold ssorted. induction l1 as [|a l1 IH]; destruct l2 as [|b l2]; intros S1 S2 E; auto.
  - destruct (proj2 (E b)); simpl; auto.
  - destruct (proj1 (E a)); simpl; auto.
  - inversion S1 as [|? ? S1' F1]; inversion S2 as [|? ? S2' F2]; subst.
    rewrite Forall_forall in F1, F2.
    assert (a = b).
    { destruct (proj1 (E a) (or_introl eq_refl)) as [Hb|Hb]; auto.
      destruct (proj2 (E b) (or_introl eq_refl)) as [Ha|Ha]; auto.
      exfalso. apply (slt_irrefl a). eapply slt_trans; [apply F1; exact Ha | apply F2; exact Hb]. }
    subst b. f_equal. apply IH; auto.
    intro x; split; intro Hx.
    + destruct (proj1 (E x) (or_intror Hx)) as [<-|]; auto. exfalso. apply (slt_irrefl a). auto.
    + destruct (proj2 (E x) (or_intror Hx)) as [<-|]; auto. exfalso. apply (slt_irrefl a). auto.
Qed.

Lemma sort_u_ext : forall l1 l2, (forall x, In x l1 <-> In x l2) -> sort_u l1 = sort_u l2.
Proof.
  intros l1 l2 E. apply ssorted_unique; try apply sort_u_sorted.
  intro x. rewrite !sort_u_in. apply E.
Qed.

(* ==================================================================================================== *)
(* lookup / get / mem *)

Lemma mem_in : forall c l, mem c l = true <-> In c l.
Proof.
  unfold mem. intros c l. rewrite existsb_exists. split.
  - intros [x [Hx E]]. apply String.eqb_eq in E. now subst.
  - intro H. exists c. split; auto. apply String.eqb_refl.
Qed.

Lemma mem_false : forall c l, mem c l = false <-> ~ In c l.
Proof. intros c l. rewrite <- mem_in. destruct (mem c l); split; congruence. Qed.

Lemma mem_app : forall c a b, mem c (a ++ b) = mem c a || mem c b.
Proof. intros. unfold mem. apply existsb_app. Qed.

Lemma lookup_none : forall c r, lookup c r = None <-> has_col c r = false.
Proof.
  unfold has_col, row_cols. induction r as [|[d v] t IH]; simpl.
  - tauto.
  - rewrite (String.eqb_sym c d). destruct (String.eqb d c); simpl.
    + split; discriminate.
    + exact IH.
Qed.

Lemma get_no_col : forall c r, has_col c r = false -> get c r = VNull.
Proof. intros c r H. unfold get. apply lookup_none in H. now rewrite H. Qed.

Lemma get_nonnull_has_col : forall c r, get c r <> VNull -> has_col c r = true.
Proof. intros c r H. destruct (has_col c r) eqn:E; auto. exfalso. apply H. now apply get_no_col. Qed.

Lemma lookup_app : forall c a b, lookup c (a ++ b) = match lookup c a with Some v => Some v | None => lookup c b end.
Proof.
  induction a as [|[d v] t IH]; simpl; intros b; auto.
  destruct (String.eqb d c); auto.
Qed.

Lemma get_app : forall c a b, get c (a ++ b) = if has_col c a then get c a else get c b.
Proof.
  intros c a b. unfold get. rewrite lookup_app.
  destruct (lookup c a) eqn:E.
  - destruct (has_col c a) eqn:H; auto. apply lookup_none in H. congruence.
  - apply lookup_none in E. now rewrite E.
Qed.

Lemma has_col_app : forall c a b, has_col c (a ++ b) = has_col c a || has_col c b.
Proof. intros. unfold has_col, row_cols. rewrite map_app. apply mem_app. Qed.

Lemma get_nil : forall c, get c [] = VNull.
Proof. reflexivity. Qed.

(* a row given by a function on a list of columns *)
Lemma lookup_map_fun : forall (f : col -> val) c cs,
  lookup c (map (fun x => (x, f x)) cs) = if mem c cs then Some (f c) else None.
Proof.
  induction cs as [|d t IH]; simpl; auto.
  rewrite (String.eqb_sym c d). destruct (String.eqb d c) eqn:E; simpl; auto.
  apply String.eqb_eq in E. now subst.
Qed.

Lemma get_map_fun : forall (f : col -> val) c cs,
  get c (map (fun x => (x, f x)) cs) = if mem c cs then f c else VNull.
Proof. intros. unfold get. rewrite lookup_map_fun. destruct (mem c cs); auto. Qed.

Lemma has_col_map_fun : forall (f : col -> val) c cs, has_col c (map (fun x => (x, f x)) cs) = mem c cs.
Proof. intros. unfold has_col, row_cols. rewrite map_map. simpl. now rewrite map_id. Qed.

Lemma has_col_table_cols : forall c r t, In r t -> has_col c r = true -> mem c (table_cols t) = true.
Proof.
  intros c r t Hr H. apply mem_in. unfold table_cols. apply in_flat_map. exists r. split; auto.
  now apply mem_in.
Qed.

(* ==================================================================================================== *)
(* canon *)

Lemma live_cols_in : forall r c, In c (live_cols r) <-> get c r <> VNull.
Proof.
  intros r c. unfold live_cols. rewrite filter_In. split.
  - intros [_ H] E. rewrite E in H. discriminate.
  - intro H. split.
    + apply mem_in. now apply get_nonnull_has_col.
    + destruct (get c r); simpl; congruence.
Qed.

Theorem canon_ext : forall r1 r2, row_equiv r1 r2 -> canon r1 = canon r2.
Proof.
  intros r1 r2 E. unfold canon.
  rewrite (sort_u_ext (live_cols r1) (live_cols r2)).
  - apply map_ext. intro c. now rewrite E.
  - intro c. rewrite !live_cols_in. now rewrite E.
Qed.

Lemma get_canon : forall r c, get c (canon r) = get c r.
Proof.
  intros r c. unfold canon. rewrite get_map_fun.
  destruct (mem c (sort_u (live_cols r))) eqn:M; auto.
  apply mem_false in M. rewrite sort_u_in, live_cols_in in M.
  destruct (get c r); auto; exfalso; apply M; discriminate.
Qed.

Theorem canon_equiv : forall r1 r2, canon r1 = canon r2 <-> row_equiv r1 r2.
Proof.
  intros r1 r2. split; [|apply canon_ext].
  intros E c. rewrite <- (get_canon r1), <- (get_canon r2). now rewrite E.
Qed.

Lemma canon_idem : forall r, canon (canon r) = canon r.
Proof. intro r. apply canon_ext. intro c. apply get_canon. Qed.

(* the canonical row has no null binding and binds no column twice *)
Lemma canon_no_null : forall r c v, In (c, v) (canon r) -> v <> VNull.
Proof.
  unfold canon. intros r c v H. apply in_map_iff in H. destruct H as [x [E Hx]]. inversion E; subst.
  apply (proj1 (sort_u_in _ _)) in Hx. now apply (proj1 (live_cols_in _ _)) in Hx.
Qed.

(* ==================================================================================================== *)
(* decidable row / bag equality *)

Lemma row_eqb_eq : forall a b, row_eqb a b = true <-> a = b.
Proof.
  induction a as [|[c v] a IH]; destruct b as [|[d w] b]; simpl; split; intro H; try discriminate; auto.
  - apply andb_true_iff in H. destruct H as [H H3]. apply andb_true_iff in H. destruct H as [H1 H2].
    apply String.eqb_eq in H1. apply val_eqb_eq in H2. apply IH in H3. now subst.
  - inversion H; subst. rewrite String.eqb_refl, val_eqb_refl. simpl. now apply IH.
Qed.

Lemma row_eqb_refl : forall a, row_eqb a a = true.
Proof. intro. now apply row_eqb_eq. Qed.

Lemma row_equivb_spec : forall r1 r2, row_equivb r1 r2 = true <-> row_equiv r1 r2.
Proof. intros. unfold row_equivb. rewrite row_eqb_eq. apply canon_equiv. Qed.

Lemma remove_first_perm : forall x l l', remove_first x l = Some l' -> Permutation l (x :: l').
Proof.
  induction l as [|y t IH]; simpl; intros l' H; [discriminate|].
  destruct (row_eqb x y) eqn:E.
  - apply row_eqb_eq in E. inversion H; subst. apply Permutation_refl.
  - destruct (remove_first x t) as [t'|] eqn:R; [|discriminate]. inversion H; subst.
    eapply perm_trans; [apply perm_skip; apply IH; reflexivity | apply perm_swap].
Qed.

Lemma remove_first_in : forall x l, In x l -> exists l', remove_first x l = Some l'.
Proof.
  induction l as [|y t IH]; simpl; intros H; [tauto|].
  destruct (row_eqb x y) eqn:E; [eauto|].
  destruct H as [->|H]; [rewrite row_eqb_refl in E; discriminate|].
  destruct (IH H) as [l' ->]. eauto.
Qed.

Lemma perm_eqb_spec : forall l1 l2, perm_eqb l1 l2 = true <-> Permutation l1 l2.
Proof.
  induction l1 as [|x t IH]; simpl; intros l2.
  - destruct l2; split; intro H; auto; try discriminate.
    apply Permutation_nil in H. discriminate.
  - split.
    + destruct (remove_first x l2) as [l2'|] eqn:R; [|discriminate]. intro H.
      apply IH in H. apply remove_first_perm in R.
      eapply perm_trans; [apply perm_skip; exact H | now apply Permutation_sym].
    + intro H. assert (In x l2) by (eapply Permutation_in; [exact H | now left]).
      destruct (remove_first_in _ _ H0) as [l2' R]. rewrite R. apply IH.
      apply remove_first_perm in R. eapply Permutation_cons_inv. eapply perm_trans; eauto.
Qed.

Theorem bag_eqb_spec : forall t1 t2, bag_eqb t1 t2 = true <-> bag_eq t1 t2.
Proof. intros. unfold bag_eqb, bag_eq. apply perm_eqb_spec. Qed.

(* ==================================================================================================== *)
(* bag_eq is an equivalence; finer relations *)

(* same canonical rows in the same order *)
Definition teq (t1 t2 : table) : Prop := map canon t1 = map canon t2.

Lemma bag_eq_refl : forall t, bag_eq t t.
Proof. intro. apply Permutation_refl. Qed.
Lemma bag_eq_sym : forall a b, bag_eq a b -> bag_eq b a.
Proof. unfold bag_eq. intros. now apply Permutation_sym. Qed.
Lemma bag_eq_trans : forall a b c, bag_eq a b -> bag_eq b c -> bag_eq a c.
Proof. unfold bag_eq. intros. eapply perm_trans; eauto. Qed.
Lemma perm_bag_eq : forall a b, Permutation a b -> bag_eq a b.
Proof. unfold bag_eq. intros. now apply Permutation_map. Qed.
Lemma teq_bag_eq : forall a b, teq a b -> bag_eq a b.
Proof. unfold bag_eq, teq. intros a b H. rewrite H. apply Permutation_refl. Qed.
Lemma bag_eq_app : forall a b c d, bag_eq a b -> bag_eq c d -> bag_eq (a ++ c) (b ++ d).
Proof. unfold bag_eq. intros. rewrite !map_app. now apply Permutation_app. Qed.

Lemma teq_refl : forall t, teq t t.
Proof. reflexivity. Qed.
Lemma teq_trans : forall a b c, teq a b -> teq b c -> teq a c.
Proof. unfold teq. intros. congruence. Qed.
Lemma teq_sym : forall a b, teq a b -> teq b a.
Proof. unfold teq. intros. congruence. Qed.
Lemma teq_app : forall a b c d, teq a b -> teq c d -> teq (a ++ c) (b ++ d).
Proof. unfold teq. intros. rewrite !map_app. congruence. Qed.
Lemma teq_nil : teq [] [].
Proof. reflexivity. Qed.
Lemma teq_cons : forall r1 r2 a b, row_equiv r1 r2 -> teq a b -> teq (r1 :: a) (r2 :: b).
Proof. unfold teq. intros. simpl. f_equal; auto. now apply canon_ext. Qed.
Lemma teq_single : forall r1 r2, row_equiv r1 r2 -> teq [r1] [r2].
Proof. intros. apply teq_cons; auto. apply teq_nil. Qed.

Lemma teq_map : forall (A : Type) (f g : A -> row) l,
  (forall x, In x l -> row_equiv (f x) (g x)) -> teq (map f l) (map g l).
Proof.
  induction l as [|x t IH]; simpl; intros H; [apply teq_nil|].
  apply teq_cons; auto.
Qed.

Lemma teq_flat_map : forall (A : Type) (f g : A -> table) l,
  (forall x, In x l -> teq (f x) (g x)) -> teq (flat_map f l) (flat_map g l).
Proof.
  induction l as [|x t IH]; simpl; intros H; [apply teq_nil|].
  apply teq_app; auto.
Qed.

Lemma row_equiv_refl : forall r, row_equiv r r.
Proof. intros r c. reflexivity. Qed.
Lemma row_equiv_sym : forall a b, row_equiv a b -> row_equiv b a.
Proof. intros a b H c. now rewrite H. Qed.
Lemma row_equiv_trans : forall a b c, row_equiv a b -> row_equiv b c -> row_equiv a c.
Proof. intros a b c H1 H2 x. now rewrite H1. Qed.

(* ==================================================================================================== *)
(* row_union and pad *)

Lemma get_filter_cols : forall (p : col -> bool) c r,
  get c (filter (fun cv => p (fst cv)) r) = if p c then get c r else VNull.
Proof.
  intros p c r. unfold get. induction r as [|[d v] t IH]; simpl.
  - now destruct (p c).
  - destruct (p d) eqn:P; simpl.
    + destruct (String.eqb d c) eqn:E; auto. apply String.eqb_eq in E. subst. now rewrite P.
    + destruct (String.eqb d c) eqn:E; auto. apply String.eqb_eq in E. subst.
      rewrite P in IH. rewrite P. exact IH.
Qed.

Lemma get_row_union : forall c l r, get c (row_union l r) = if has_col c l then get c l else get c r.
Proof.
  intros. unfold row_union. rewrite get_app.
  destruct (has_col c l) eqn:H; auto.
  rewrite (get_filter_cols (fun x => negb (has_col x l))). now rewrite H.
Qed.

Lemma pad_equiv : forall cols r, row_equiv (pad cols r) r.
Proof.
  intros cols r c. unfold pad. rewrite get_app.
  destruct (has_col c r) eqn:H; auto.
  rewrite (get_map_fun (fun _ => VNull)). rewrite get_no_col; auto. now destruct (mem c _).
Qed.

(* padding really binds every requested column *)
Lemma pad_has_cols : forall cols r c, In c cols -> has_col c (pad cols r) = true.
Proof.
  intros cols r c H. unfold pad. rewrite has_col_app.
  destruct (has_col c r) eqn:E; auto. simpl.
  rewrite (has_col_map_fun (fun _ => VNull)). apply mem_in. apply filter_In. split; auto. now rewrite E.
Qed.

(* ==================================================================================================== *)
(* keys *)

Lemma keys_match_spec : forall a b,
  keys_match a b = true <-> a = b /\ forallb (fun v => negb (is_null v)) a = true.
Proof.
  induction a as [|x a IH]; destruct b as [|y b]; simpl; split; intro H; try discriminate; auto;
    try (destruct H; discriminate).
  - apply andb_true_iff in H. destruct H as [H H3]. apply andb_true_iff in H. destruct H as [H1 H2].
    apply val_eqb_eq in H2. apply IH in H3. destruct H3. subst. rewrite H1. auto.
  - destruct H as [E H]. inversion E; subst. apply andb_true_iff in H. destruct H as [H1 H2].
    rewrite H1, val_eqb_refl. simpl. apply IH. auto.
Qed.

(* ==================================================================================================== *)
(* permutation toolbox *)

Lemma perm_filter_split : forall (A : Type) (p : A -> bool) l,
  Permutation l (filter p l ++ filter (fun x => negb (p x)) l).
Proof.
  induction l as [|x t IH]; simpl; auto.
  destruct (p x); simpl.
  - now apply perm_skip.
  - eapply perm_trans; [apply perm_skip; exact IH | apply Permutation_middle].
Qed.

Lemma flat_map_app_fun : forall (A B : Type) (f g : A -> list B) l,
  Permutation (flat_map (fun x => f x ++ g x) l) (flat_map f l ++ flat_map g l).
Proof.
  induction l as [|x t IH]; simpl; auto.
  eapply perm_trans; [apply Permutation_app_head; exact IH|].
  rewrite <- !app_assoc. apply Permutation_app_head.
  rewrite !app_assoc. apply Permutation_app_tail. apply Permutation_app_comm.
Qed.

Lemma flat_map_nil_fun : forall (A B : Type) (l : list A), flat_map (fun _ => @nil B) l = [].
Proof. induction l; simpl; auto. Qed.

(* exchanging two nested loops *)
Lemma flat_map_swap : forall (A B C : Type) (f : A -> B -> list C) la lb,
  Permutation (flat_map (fun a => flat_map (fun b => f a b) lb) la)
              (flat_map (fun b => flat_map (fun a => f a b) la) lb).
Proof.
  induction la as [|a ta IH]; simpl; intros lb.
  - now rewrite flat_map_nil_fun.
  - eapply perm_trans; [apply Permutation_app_head; apply IH|].
    apply Permutation_sym. apply flat_map_app_fun.
Qed.

Lemma flat_map_perm_ext : forall (A B : Type) (f g : A -> list B) l,
  (forall x, In x l -> Permutation (f x) (g x)) -> Permutation (flat_map f l) (flat_map g l).
Proof.
  induction l as [|x t IH]; simpl; intros H; auto.
  apply Permutation_app; auto.
Qed.

Lemma map_filter_flat_map : forall (A B : Type) (p : A -> bool) (f : A -> B) l,
  map f (filter p l) = flat_map (fun x => if p x then [f x] else []) l.
Proof.
  induction l as [|x t IH]; simpl; auto.
  destruct (p x); simpl; now rewrite IH.
Qed.

(* ==================================================================================================== *)
(* nested-loop presentations of the outer joins *)

Section Nested.
  Variables lk rk : list col.
  Notation matches := (matches lk rk).

  (* for every left row: its partners, or the padded row itself *)
  Definition left_nested (L R : table) : table :=
    flat_map (fun l => if existsb (matches l) R
                       then map (fun r => row_union l r) (filter (matches l) R)
                       else [pad (table_cols R) l]) L.

  (* for every right row: its partners, or the padded row itself *)
  Definition right_nested (L R : table) : table :=
    flat_map (fun r => if existsb (fun l => matches l r) L
                       then map (fun l => row_union l r) (filter (fun l => matches l r) L)
                       else [pad (table_cols L) r]) R.

  Lemma filter_none : forall (A : Type) (p : A -> bool) l, existsb p l = false -> filter p l = [].
  Proof.
    induction l as [|x t IH]; simpl; auto. intro H. apply orb_false_iff in H. destruct H as [H1 H2].
    rewrite H1. auto.
  Qed.

  Lemma left_nested_perm : forall L R, Permutation (left_nested L R) (rel_left lk rk L R).
  Proof.
    intros L R. unfold left_nested, rel_left, inner_rows, left_only.
    rewrite map_filter_flat_map.
    eapply perm_trans; [|apply flat_map_app_fun].
    apply flat_map_perm_ext. intros l _.
    destruct (existsb (matches l) R) eqn:E; simpl.
    - rewrite app_nil_r. apply Permutation_refl.
    - rewrite (filter_none _ _ _ E). simpl. apply Permutation_refl.
  Qed.

  Lemma inner_rows_swap : forall L R,
    Permutation (inner_rows lk rk L R)
                (flat_map (fun r => map (fun l => row_union l r) (filter (fun l => matches l r) L)) R).
  Proof.
    intros L R. unfold inner_rows.
    eapply perm_trans; [| eapply perm_trans; [apply (flat_map_swap _ _ _
        (fun l r => if matches l r then [row_union l r] else []) L R)|]].
    - apply flat_map_perm_ext. intros l _. rewrite map_filter_flat_map. apply Permutation_refl.
    - apply flat_map_perm_ext. intros r _.
      rewrite (map_filter_flat_map _ _ (fun l => matches l r) (fun l => row_union l r)). apply Permutation_refl.
  Qed.

  Lemma right_nested_perm : forall L R, Permutation (right_nested L R) (rel_right lk rk L R).
  Proof.
    intros L R. unfold right_nested, rel_right, right_only.
    eapply perm_trans; [|apply Permutation_app_tail; apply Permutation_sym; apply inner_rows_swap].
    rewrite map_filter_flat_map.
    eapply perm_trans; [|apply flat_map_app_fun].
    apply flat_map_perm_ext. intros r _.
    destruct (existsb (fun l => matches l r) L) eqn:E; simpl.
    - rewrite app_nil_r. apply Permutation_refl.
    - rewrite (filter_none _ _ _ E). simpl. apply Permutation_refl.
  Qed.

  (* outer = left join plus the right rows without partner *)
  Lemma rel_outer_left : forall L R,
    rel_outer lk rk L R = rel_left lk rk L R ++ map (pad (table_cols L)) (right_only lk rk L R).
  Proof. intros. unfold rel_outer, rel_left. now rewrite app_assoc. Qed.
End Nested.

(* ==================================================================================================== *)
(* algebra *)

(* append is associative (as lists, hence as bags) *)
Theorem rel_append_assoc : forall A B C, rel_append (rel_append A B) C = rel_append A (rel_append B C).
Proof. intros. unfold rel_append. now rewrite app_assoc. Qed.

(* --- union --- *)

Lemma distinct_from_covered : forall t seen,
  (forall r, In r t -> existsb (row_eqb (canon r)) seen = true) -> distinct_from seen t = [].
Proof.
  induction t as [|r t IH]; simpl; intros seen H; auto.
  rewrite (H r (or_introl eq_refl)). apply IH. intros; apply H; auto.
Qed.

Lemma existsb_row_eqb_in : forall x seen, existsb (row_eqb x) seen = true <-> In x seen.
Proof.
  intros. rewrite existsb_exists. split.
  - intros [y [Hy E]]. apply row_eqb_eq in E. now subst.
  - intro H. exists x. split; auto. apply row_eqb_refl.
Qed.

(* invariant: after a pass the seen set is the old one plus the canonical rows of the input *)
Lemma distinct_from_app : forall a b seen,
  exists seen', distinct_from seen (a ++ b) = distinct_from seen a ++ distinct_from seen' b
                /\ (forall x, In x seen' <-> In x seen \/ In x (map canon a)).
Proof.
  induction a as [|r a IH]; simpl; intros b seen.
  - exists seen. split; auto. intuition.
  - destruct (existsb (row_eqb (canon r)) seen) eqn:E.
    + destruct (IH b seen) as [s' [H1 H2]]. exists s'. split; auto.
      intro x. rewrite H2. apply existsb_row_eqb_in in E. intuition. subst. auto.
    + destruct (IH b (canon r :: seen)) as [s' [H1 H2]]. exists s'. split.
      * simpl. now rewrite H1.
      * intro x. rewrite H2. simpl. intuition.
Qed.

(* the result of distinct contains no two equivalent rows, and exactly the rows of the input up to equivalence *)
Lemma distinct_from_in : forall t seen x,
  In x (map canon (distinct_from seen t)) <-> In x (map canon t) /\ ~ In x seen.
Proof.
  induction t as [|r t IH]; simpl; intros seen x.
  - tauto.
  - destruct (existsb (row_eqb (canon r)) seen) eqn:E.
    + rewrite IH. apply existsb_row_eqb_in in E. intuition. subst. contradiction.
    + simpl. rewrite IH. simpl.
      assert (~ In (canon r) seen) by (rewrite <- existsb_row_eqb_in; congruence).
      destruct (row_eqb (canon r) x) eqn:EX.
      * apply row_eqb_eq in EX. subst. intuition.
      * assert (canon r <> x) by (intro; subst; rewrite row_eqb_refl in EX; discriminate). intuition.
Qed.

Lemma distinct_from_nodup : forall t seen, NoDup (map canon (distinct_from seen t)).
Proof.
  induction t as [|r t IH]; simpl; intros seen.
  - constructor.
  - destruct (existsb (row_eqb (canon r)) seen) eqn:E; auto.
    simpl. constructor; auto. rewrite distinct_from_in. simpl. intuition.
Qed.

(* union is the duplicate-free concatenation *)
Theorem rel_union_spec : forall L R,
  NoDup (map canon (rel_union L R)) /\
  (forall x, In x (map canon (rel_union L R)) <-> In x (map canon (L ++ R))).
Proof.
  intros. unfold rel_union, distinct. split.
  - apply distinct_from_nodup.
  - intro x. rewrite distinct_from_in. simpl. tauto.
Qed.

(* idempotence: adding a table to itself adds nothing *)
Theorem rel_union_idem : forall T, rel_union T T = distinct T.
Proof.
  intro T. unfold rel_union, distinct.
  destruct (distinct_from_app T T []) as [s' [H1 H2]]. rewrite H1.
  rewrite (distinct_from_covered T s'); [apply app_nil_r|].
  intros r Hr. apply existsb_row_eqb_in. apply H2. right. now apply in_map.
Qed.

Lemma distinct_from_id : forall t seen,
  NoDup (map canon t) -> (forall x, In x (map canon t) -> ~ In x seen) -> distinct_from seen t = t.
Proof.
  induction t as [|r t IH]; simpl; intros seen ND H; auto.
  inversion ND; subst.
  destruct (existsb (row_eqb (canon r)) seen) eqn:E.
  - apply existsb_row_eqb_in in E. exfalso. eapply H; eauto.
  - f_equal. apply IH; auto. intros x Hx [<-|Hs]; auto. eapply H; eauto.
Qed.

Theorem rel_union_idem_nodup : forall T, NoDup (map canon T) -> rel_union T T = T.
Proof.
  intros T ND. rewrite rel_union_idem. unfold distinct. apply distinct_from_id; auto.
Qed.

(* --- swapping sides --- *)

Lemma combine_swap_exists : forall (p : col -> col -> bool) lk rk,
  (forall a b, p a b = p b a) ->
  existsb (fun ab => p (fst ab) (snd ab)) (combine lk rk) = existsb (fun ab => p (fst ab) (snd ab)) (combine rk lk).
Proof.
  induction lk as [|a lk IH]; destruct rk as [|b rk]; simpl; intros H; auto.
  rewrite (H a b). f_equal. now apply IH.
Qed.

Lemma shared_key_swap : forall lk rk c, shared_key lk rk c = shared_key rk lk c.
Proof.
  intros. unfold shared_key.
  apply (combine_swap_exists (fun a b => String.eqb a c && String.eqb b c)).
  intros a b. apply andb_comm.
Qed.

Lemma shared_key_get : forall lk rk c l r,
  shared_key lk rk c = true -> key_of lk l = key_of rk r -> get c l = get c r.
Proof.
  induction lk as [|a lk IH]; destruct rk as [|b rk]; simpl; intros c l r H E; try discriminate.
  unfold shared_key in H. simpl in H. inversion E as [[E1 E2]].
  apply orb_true_iff in H. destruct H as [H|H].
  - apply andb_true_iff in H. destruct H as [Ha Hb].
    apply String.eqb_eq in Ha. apply String.eqb_eq in Hb. now subst.
  - eapply IH; eauto.
Qed.

Lemma overlap_free_spec : forall lk rk L R,
  overlap_free lk rk L R = true <->
  (forall c, mem c (table_cols L) = true -> mem c (table_cols R) = true -> shared_key lk rk c = true).
Proof.
  intros. unfold overlap_free. rewrite forallb_forall. split.
  - intros H c HL HR. apply mem_in in HL. specialize (H c HL). rewrite HR in H. exact H.
  - intros H c HL. destruct (mem c (table_cols R)) eqn:HR; auto. simpl. apply H; auto. now apply mem_in.
Qed.

Lemma overlap_free_swap : forall lk rk L R, overlap_free lk rk L R = overlap_free rk lk R L.
Proof.
  intros. apply eq_true_iff_eq. rewrite !overlap_free_spec. split; intros H c H1 H2.
  - rewrite shared_key_swap. auto.
  - rewrite shared_key_swap. auto.
Qed.

Lemma keys_match_sym : forall a b, keys_match a b = keys_match b a.
Proof.
  intros. apply eq_true_iff_eq. rewrite !keys_match_spec. split; intros [E H]; subst; auto.
Qed.

Lemma matches_swap : forall lk rk l r, matches lk rk l r = matches rk lk r l.
Proof. intros. unfold matches. apply keys_match_sym. Qed.

(* for matched rows of overlap-free tables the two orientations of row_union are the same row *)
Lemma row_union_comm : forall lk rk L R l r,
  overlap_free lk rk L R = true -> In l L -> In r R -> matches lk rk l r = true ->
  row_equiv (row_union l r) (row_union r l).
Proof.
  intros lk rk L R l r OF Hl Hr M c. rewrite !get_row_union.
  destruct (has_col c l) eqn:Hcl, (has_col c r) eqn:Hcr; auto.
  - unfold matches in M. apply keys_match_spec in M. destruct M as [M _].
    eapply shared_key_get; eauto.
    eapply (proj1 (overlap_free_spec _ _ _ _) OF); eapply has_col_table_cols; eauto.
  - now rewrite !get_no_col.
Qed.

Lemma inner_rows_comm : forall lk rk L R,
  overlap_free lk rk L R = true -> bag_eq (inner_rows lk rk L R) (inner_rows rk lk R L).
Proof.
  intros lk rk L R OF.
  eapply bag_eq_trans; [apply perm_bag_eq; apply inner_rows_swap|].
  apply teq_bag_eq. unfold inner_rows. apply teq_flat_map. intros r Hr.
  rewrite (filter_ext _ (matches rk lk r)) by (intro; apply matches_swap).
  apply teq_map. intros l Hl. apply filter_In in Hl. destruct Hl as [Hl M].
  rewrite <- matches_swap in M. eapply row_union_comm; eauto.
Qed.

(* inner join is commutative up to column order *)
Theorem rel_inner_comm : forall lk rk L R,
  overlap_free lk rk L R = true -> bag_eq (rel_join JInner lk rk L R) (rel_join JInner rk lk R L).
Proof. intros. simpl. unfold rel_inner. now apply inner_rows_comm. Qed.

Lemma right_only_swap : forall lk rk L R, right_only lk rk L R = left_only rk lk R L.
Proof.
  intros. unfold right_only, left_only. apply filter_ext. intro r. f_equal.
  induction L as [|l L IH]; simpl; auto. now rewrite matches_swap, IH.
Qed.

(* right join = left join with the sides exchanged, up to column order *)
Theorem rel_right_left_swap : forall lk rk L R,
  overlap_free lk rk L R = true -> bag_eq (rel_join JRight lk rk L R) (rel_join JLeft rk lk R L).
Proof.
  intros. simpl. unfold rel_right, rel_left. apply bag_eq_app.
  - now apply inner_rows_comm.
  - rewrite right_only_swap. apply bag_eq_refl.
Qed.

(* full outer join is commutative up to column order *)
Theorem rel_outer_comm : forall lk rk L R,
  overlap_free lk rk L R = true -> bag_eq (rel_join JOuter lk rk L R) (rel_join JOuter rk lk R L).
Proof.
  intros. simpl. unfold rel_outer. apply bag_eq_app.
  - now apply inner_rows_comm.
  - rewrite right_only_swap. rewrite <- (right_only_swap rk lk R L).
    apply perm_bag_eq. apply Permutation_app_comm.
Qed.
