(* Lemmas for the multi-feature / history part of C10 (Model/ResolveHist.v against Spec/ResolveHistRule.v). *)
From Coq Require Import List Bool String Arith Lia Permutation.
Require Import MV.Model.Resolve MV.Spec.ResolveRule MV.Proofs.ResolveP MV.Model.ResolveHist MV.Spec.ResolveHistRule.
Import ListNotations.
Open Scope string_scope.
Open Scope list_scope.

(* ================= 1. resolve does not depend on the order of the framework lists ================= *)
Lemma mem_perm : forall x l l', Permutation l l' -> mem x l = mem x l'.
Proof. intros. unfold mem. apply existsb_perm. assumption. Qed.

Lemma forallb_ext_l : forall A (f g : A -> bool) l, (forall x, f x = g x) -> forallb f l = forallb g l.
Proof. intros A f g l H. induction l as [|a l IH]; cbn; [reflexivity | rewrite H, IH; reflexivity]. Qed.

Lemma forallb_perm : forall A (f : A -> bool) l l', Permutation l l' -> forallb f l = forallb f l'.
Proof.
  intros A f l l' H. induction H; cbn; try congruence.
  destruct (f x), (f y); reflexivity.
Qed.

Lemma subset_perm : forall a a' b b', Permutation a a' -> Permutation b b' -> subset a b = subset a' b'.
Proof.
  intros a a' b b' Ha Hb. unfold subset.
  rewrite (forallb_ext_l _ (fun x => mem x b) (fun x => mem x b') a) by (intros; apply mem_perm; assumption).
  apply forallb_perm. exact Ha.
Qed.

Lemma set_eqb_perm : forall a a' b b', Permutation a a' -> Permutation b b' -> set_eqb a b = set_eqb a' b'.
Proof. intros. unfold set_eqb. rewrite (subset_perm a a' b b'), (subset_perm b b' a a'); auto. Qed.

Definition env_equiv (e e' : env) : Prop :=
  Permutation (existing e) (existing e') /\ Permutation (available e) (available e').

Lemma filter_perm_ext : forall A (f g : A -> bool) l l', (forall x, f x = g x) -> Permutation l l' ->
  Permutation (filter f l) (filter g l').
Proof. intros A f g l l' H P. rewrite (filter_ext f g H). apply filter_perm. exact P. Qed.

Lemma api_set_equiv : forall e e' rq, env_equiv e e' -> Permutation (api_set e rq) (api_set e' rq).
Proof. intros e e' rq [H _]. unfold api_set. destruct (api rq); [exact H | apply filter_perm; exact H]. Qed.

Lemma usable_equiv : forall e e' rq, env_equiv e e' -> Permutation (usable e rq) (usable e' rq).
Proof.
  intros e e' rq H. unfold usable. apply filter_perm_ext; [|apply api_set_equiv; exact H].
  intros x. apply mem_perm. apply H.
Qed.

Lemma group_fws_equiv : forall e e' rq c, env_equiv e e' -> Permutation (group_fws e rq c) (group_fws e' rq c).
Proof.
  intros e e' rq c H. unfold group_fws. apply filter_perm_ext.
  - intros x. apply mem_perm. apply usable_equiv. exact H.
  - unfold cfd. destruct (rule c); [apply Permutation_refl | apply H].
Qed.

Lemma precheck_equiv : forall e e' u rq, env_equiv e e' -> precheck e u rq = precheck e' u rq.
Proof.
  intros e e' u rq H. unfold precheck.
  assert (M : forall x, mem x (existing e) = mem x (existing e')) by (intros; apply mem_perm; apply H).
  assert (A : forall x, mem x (api_set e rq) = mem x (api_set e' rq)) by (intros; apply mem_perm, api_set_equiv; exact H).
  rewrite (nonempty_perm _ _ _ (api_set_equiv e e' rq H)).
  destruct (ffw rq) as [y|]; [rewrite M, A|]; reflexivity.
Qed.

(* pairs (class, frameworks) related when the class is the same and the frameworks are a permutation *)
Definition pr (p q : fgclass * list fw) : Prop := fst p = fst q /\ Permutation (snd p) (snd q).

Lemma accessible_equiv : forall e e' rq u, env_equiv e e' -> Forall2 pr (accessible e rq u) (accessible e' rq u).
Proof.
  intros e e' rq u H. unfold accessible. induction (filter (applicable rq) u) as [|c l IH]; cbn; constructor; [|exact IH].
  split; [reflexivity | apply group_fws_equiv; exact H].
Qed.

Lemma keep_pr : forall rq p q, pr p q -> keep rq p = keep rq q.
Proof.
  intros rq [c gf] [c' gf'] [E P]. cbn in E, P. subst c'. unfold keep, fw_ok. cbn [fst snd].
  rewrite (nonempty_perm _ _ _ P). destruct (ffw rq); [rewrite (mem_perm _ _ _ P)|]; reflexivity.
Qed.

Lemma Forall2_filter : forall A (R : A -> A -> Prop) (f : A -> bool) l l',
  (forall x y, R x y -> f x = f y) -> Forall2 R l l' -> Forall2 R (filter f l) (filter f l').
Proof.
  intros A R f l l' Hf H. induction H as [|x y l l' Hxy H IH]; cbn; [constructor|].
  rewrite (Hf x y Hxy). destruct (f y); [constructor; assumption | exact IH].
Qed.

Lemma existsb_Forall2 : forall A (R : A -> A -> Prop) (f g : A -> bool) l l',
  (forall x y, R x y -> f x = g y) -> Forall2 R l l' -> existsb f l = existsb g l'.
Proof. intros A R f g l l' Hf H. induction H as [|x y l l' Hxy H IH]; cbn; [reflexivity|]. rewrite (Hf x y Hxy), IH. reflexivity. Qed.

Lemma popped_pr : forall l l' o o', Forall2 pr l l' -> pr o o' -> popped l o = popped l' o'.
Proof.
  intros l l' [c gf] [c' gf'] H [E P]. cbn in E, P. subst c'. unfold popped. apply (existsb_Forall2 _ pr); [|exact H].
  intros [i gi] [i' gi'] [Ei Pi]. cbn in Ei, Pi. subst i'. cbn [fst snd]. rewrite (set_eqb_perm gi gi' gf gf' Pi P). reflexivity.
Qed.

Lemma filter_subclasses_pr : forall l l', Forall2 pr l l' -> Forall2 pr (filter_subclasses l) (filter_subclasses l').
Proof.
  intros l l' H. unfold filter_subclasses.
  assert (G : forall m m', Forall2 pr m m' ->
              Forall2 pr (filter (fun o => negb (popped l o)) m) (filter (fun o => negb (popped l' o)) m')).
  { intros m m' Hm. induction Hm as [|x y m m' Hxy Hm IH]; cbn; [constructor|].
    rewrite (popped_pr l l' x y H Hxy). destruct (popped l' y); cbn; [exact IH | constructor; assumption]. }
  apply G. exact H.
Qed.

Lemma survivors_equiv : forall e e' rq u, env_equiv e e' -> Forall2 pr (survivors e rq u) (survivors e' rq u).
Proof.
  intros e e' rq u H. unfold survivors, identified. apply filter_subclasses_pr.
  apply Forall2_filter; [intros x y; apply keep_pr | apply accessible_equiv; exact H].
Qed.

Lemma validate_pr : forall l l', Forall2 pr l l' -> result_equiv (validate l) (validate l').
Proof.
  intros l l' H. destruct H as [|[c gf] [c' gf'] l l' [E P] H]; cbn; [reflexivity|]. cbn in E, P. subst c'.
  destruct H as [|q q' t t' _ _].
  - destruct gf as [|g gf0].
    + apply Permutation_nil in P. subst. cbn. reflexivity.
    + destruct gf' as [|g' gf0']; [apply Permutation_sym, Permutation_nil in P; discriminate|]. cbn. split; [reflexivity | exact P].
  - destruct gf, gf'; cbn; reflexivity.
Qed.

Lemma resolve_env_equiv : forall e e' u rq, env_equiv e e' -> result_equiv (resolve e u rq) (resolve e' u rq).
Proof.
  intros e e' u rq H. unfold resolve. rewrite (precheck_equiv e e' u rq H).
  destruct (precheck e' u rq) as [er|]; [cbn; reflexivity|].
  pose proof (validate_pr _ _ (survivors_equiv e e' rq u H)) as V.
  destruct (validate (survivors e rq u)) as [n gf|a], (validate (survivors e' rq u)) as [n' gf'|b]; cbn in V; try contradiction.
  - destruct V as [-> P]. unfold set_cfw. destruct (ffw rq) as [y|].
    + rewrite (mem_perm y gf gf' P). destruct (mem y gf'); cbn; auto.
    + cbn. auto.
  - subst. cbn. reflexivity.
Qed.

Lemma result_equiv_refl : forall r, result_equiv r r.
Proof. intros [n gf|a]; cbn; auto. Qed.

Lemma resolve_perm_equiv_l : forall e e' u u' rq, Permutation u u' -> env_equiv e e' ->
  result_equiv (resolve e u rq) (resolve e' u' rq).
Proof. intros e e' u u' rq Hu He. rewrite (resolve_perm_invariant_l e rq u u' Hu). apply resolve_env_equiv. exact He. Qed.

(* the API list and the collector sets are only used through membership *)
Definition req_equiv (rq rq' : request) : Prop :=
  Permutation (api rq) (api rq') /\
  (match collector rq, collector rq' with
   | None, None => True
   | Some (en, dis), Some (en', dis') => Permutation en en' /\ Permutation dis dis'
   | _, _ => False end) /\
  fname rq = fname rq' /\ fdom rq = fdom rq' /\ ffw rq = ffw rq' /\
  (match links rq, links rq' with
   | None, None => True
   | Some l, Some l' => Permutation l l'
   | _, _ => False end).

Lemma applicable_req : forall rq rq' c, req_equiv rq rq' -> applicable rq c = applicable rq' c.
Proof.
  intros rq rq' c [_ [H _]]. unfold applicable. destruct (collector rq) as [[en dis]|], (collector rq') as [[en' dis']|]; try tauto.
  destruct H as [He Hd]. rewrite (mem_perm _ _ _ Hd).
  destruct en as [|a en0].
  - apply Permutation_nil in He. subst. reflexivity.
  - destruct en' as [|a' en0']; [apply Permutation_sym, Permutation_nil in He; discriminate|]. rewrite (mem_perm _ _ _ He). reflexivity.
Qed.

Lemma api_set_req : forall e rq rq', req_equiv rq rq' -> api_set e rq = api_set e rq'.
Proof.
  intros e rq rq' [H _]. unfold api_set. destruct (api rq) as [|a l].
  - apply Permutation_nil in H. rewrite H. reflexivity.
  - destruct (api rq') as [|a' l']; [apply Permutation_sym, Permutation_nil in H; discriminate|].
    apply filter_ext. intros x. apply mem_perm. exact H.
Qed.

Lemma links_ok_req : forall rq rq' c, req_equiv rq rq' -> links_ok rq c = links_ok rq' c.
Proof.
  intros rq rq' c [_ [_ [_ [_ [_ H]]]]]. unfold links_ok. destruct (idxcols c); [|reflexivity].
  destruct (links rq), (links rq'); try tauto. apply existsb_perm. exact H.
Qed.

Lemma resolve_req_equiv : forall e u rq rq', req_equiv rq rq' -> resolve e u rq = resolve e u rq'.
Proof.
  intros e u rq rq' H. pose proof H as [Ha [_ [En [Ed [Ef _]]]]].
  assert (A : api_set e rq = api_set e rq') by (apply api_set_req; exact H).
  assert (F : filter (applicable rq) u = filter (applicable rq') u) by (apply filter_ext; intros; apply applicable_req; exact H).
  assert (P : precheck e u rq = precheck e u rq').
  { unfold precheck. rewrite A, F, Ef, (nonempty_perm _ _ _ Ha). reflexivity. }
  assert (G : forall c, group_fws e rq c = group_fws e rq' c) by (intros; unfold group_fws, usable; rewrite A; reflexivity).
  assert (S : survivors e rq u = survivors e rq' u).
  { unfold survivors, identified, accessible. rewrite F. f_equal.
    rewrite (map_ext _ _ (fun c => f_equal (pair c) (G c))).
    apply filter_ext. intros [c gf]. unfold keep, criteria, domain_ok, fw_ok. cbn [fst snd].
    rewrite En, Ed, Ef, (links_ok_req rq rq' c H). reflexivity. }
  unfold resolve. rewrite P, S. unfold set_cfw. rewrite Ef. reflexivity.
Qed.
