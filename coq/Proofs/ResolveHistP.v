(* Lemmas for the multi-feature / history part of C10 (Model/ResolveHist.v against Spec/ResolveHistRule.v). *)
From Coq Require Import List Bool String Arith Lia Permutation.
Require Import MV.Model.Resolve MV.Spec.ResolveRule MV.Proofs.ResolveP MV.Proofs.ResolveNamesP MV.Model.ResolveHist MV.Spec.ResolveHistRule.
Import ListNotations.
Open Scope string_scope.
Open Scope list_scope.

(* ================= 1. resolve does not depend on the order of the framework lists ================= *)
Lemma mem_perm : forall x l l', Permutation l l' -> mem x l = mem x l'.
Proof. intros. unfold mem. apply existsb_perm. assumption. Qed.

Lemma forallb_ext_l : forall A (f g : A -> bool) l, (forall x, f x = g x) -> forallb f l = forallb g l.
Proof. intros A f g l H. induction l as [|a l IH]; cbn; [reflexivity | rewrite H, IH; reflexivity]. Qed.

Lemma forallb_perm : forall A (f : A -> bool) l l', Permutation l l' -> forallb f l = forallb f l'.
Proof.
  intros A f l l' H. induction H; cbn; try congruence.
  destruct (f x), (f y); reflexivity.
Qed.

Lemma subset_perm : forall a a' b b', Permutation a a' -> Permutation b b' -> subset a b = subset a' b'.
Proof.
  intros a a' b b' Ha Hb. unfold subset.
  rewrite (forallb_ext_l _ (fun x => mem x b) (fun x => mem x b') a) by (intros; apply mem_perm; assumption).
  apply forallb_perm. exact Ha.
Qed.

Lemma set_eqb_perm : forall a a' b b', Permutation a a' -> Permutation b b' -> set_eqb a b = set_eqb a' b'.
Proof. intros. unfold set_eqb. rewrite (subset_perm a a' b b'), (subset_perm b b' a a'); auto. Qed.

Definition env_equiv (e e' : env) : Prop :=
  Permutation (existing e) (existing e') /\ Permutation (available e) (available e') /\ (forall x, cname e x = cname e' x).

Lemma filter_perm_ext : forall A (f g : A -> bool) l l', (forall x, f x = g x) -> Permutation l l' ->
  Permutation (filter f l) (filter g l').
Proof. intros A f g l l' H P. rewrite (filter_ext f g H). apply filter_perm. exact P. Qed.

Lemma existsb_ext_l : forall A (f g : A -> bool) l, (forall x, f x = g x) -> existsb f l = existsb g l.
Proof. intros A f g l H. induction l as [|a l IH]; cbn; [reflexivity | rewrite H, IH; reflexivity]. Qed.

Lemma api_set_equiv : forall e e' rq, env_equiv e e' -> Permutation (api_set e rq) (api_set e' rq).
Proof.
  intros e e' rq [H [_ Hn]]. unfold api_set. destruct (api rq) as [|a l]; [exact H|]. apply filter_perm_ext; [|exact H].
  intros x. unfold api_selects. apply existsb_ext_l. intros [n|y]; cbn; [rewrite Hn|]; reflexivity.
Qed.

Lemma usable_equiv : forall e e' rq, env_equiv e e' -> Permutation (usable e rq) (usable e' rq).
Proof.
  intros e e' rq H. unfold usable. apply filter_perm_ext; [|apply api_set_equiv; exact H].
  intros x. apply mem_perm. apply H.
Qed.

Lemma group_fws_equiv : forall e e' rq c, env_equiv e e' -> Permutation (group_fws e rq c) (group_fws e' rq c).
Proof.
  intros e e' rq c H. unfold group_fws. apply filter_perm_ext.
  - intros x. apply mem_perm. apply usable_equiv. exact H.
  - unfold cfd. destruct (rule c); [apply Permutation_refl | apply H].
Qed.

Lemma precheck_equiv : forall e e' u rq, env_equiv e e' -> precheck e u rq = precheck e' u rq.
Proof.
  intros e e' u rq H. unfold precheck.
  assert (M : forall x, mem x (existing e) = mem x (existing e')) by (intros; apply mem_perm; apply H).
  assert (A : forall x, mem x (api_set e rq) = mem x (api_set e' rq)) by (intros; apply mem_perm, api_set_equiv; exact H).
  rewrite (nonempty_perm _ _ _ (api_set_equiv e e' rq H)).
  destruct (ffw rq) as [y|]; [rewrite M, A|]; reflexivity.
Qed.

(* pairs (class, frameworks) related when the class is the same and the frameworks are a permutation *)
Definition pr (p q : fgclass * list fw) : Prop := fst p = fst q /\ Permutation (snd p) (snd q).

Lemma accessible_equiv : forall e e' rq u, env_equiv e e' -> Forall2 pr (accessible e rq u) (accessible e' rq u).
Proof.
  intros e e' rq u H. unfold accessible. induction (filter (applicable rq) u) as [|c l IH]; cbn; constructor; [|exact IH].
  split; [reflexivity | apply group_fws_equiv; exact H].
Qed.

Lemma keep_pr : forall rq p q, pr p q -> keep rq p = keep rq q.
Proof.
  intros rq [c gf] [c' gf'] [E P]. cbn in E, P. subst c'. unfold keep, fw_ok. cbn [fst snd].
  rewrite (nonempty_perm _ _ _ P). destruct (ffw rq); [rewrite (mem_perm _ _ _ P)|]; reflexivity.
Qed.

Lemma Forall2_filter : forall A (R : A -> A -> Prop) (f : A -> bool) l l',
  (forall x y, R x y -> f x = f y) -> Forall2 R l l' -> Forall2 R (filter f l) (filter f l').
Proof.
  intros A R f l l' Hf H. induction H as [|x y l l' Hxy H IH]; cbn; [constructor|].
  rewrite (Hf x y Hxy). destruct (f y); [constructor; assumption | exact IH].
Qed.

Lemma existsb_Forall2 : forall A (R : A -> A -> Prop) (f g : A -> bool) l l',
  (forall x y, R x y -> f x = g y) -> Forall2 R l l' -> existsb f l = existsb g l'.
Proof. intros A R f g l l' Hf H. induction H as [|x y l l' Hxy H IH]; cbn; [reflexivity|]. rewrite (Hf x y Hxy), IH. reflexivity. Qed.

Lemma popped_pr : forall l l' o o', Forall2 pr l l' -> pr o o' -> popped l o = popped l' o'.
Proof.
  intros l l' [c gf] [c' gf'] H [E P]. cbn in E, P. subst c'. unfold popped. apply (existsb_Forall2 _ pr); [|exact H].
  intros [i gi] [i' gi'] [Ei Pi]. cbn in Ei, Pi. subst i'. cbn [fst snd]. rewrite (set_eqb_perm gi gi' gf gf' Pi P). reflexivity.
Qed.

Lemma filter_subclasses_pr : forall l l', Forall2 pr l l' -> Forall2 pr (filter_subclasses l) (filter_subclasses l').
Proof.
  intros l l' H. unfold filter_subclasses.
  assert (G : forall m m', Forall2 pr m m' ->
              Forall2 pr (filter (fun o => negb (popped l o)) m) (filter (fun o => negb (popped l' o)) m')).
  { intros m m' Hm. induction Hm as [|x y m m' Hxy Hm IH]; cbn; [constructor|].
    rewrite (popped_pr l l' x y H Hxy). destruct (popped l' y); cbn; [exact IH | constructor; assumption]. }
  apply G. exact H.
Qed.

Lemma survivors_equiv : forall e e' rq u, env_equiv e e' -> Forall2 pr (survivors e rq u) (survivors e' rq u).
Proof.
  intros e e' rq u H. unfold survivors, identified. apply filter_subclasses_pr.
  apply Forall2_filter; [intros x y; apply keep_pr | apply accessible_equiv; exact H].
Qed.

Lemma validate_pr : forall l l', Forall2 pr l l' -> result_equiv (validate l) (validate l').
Proof.
  intros l l' H. destruct H as [|[c gf] [c' gf'] l l' [E P] H]; cbn; [reflexivity|]. cbn in E, P. subst c'.
  destruct H as [|q q' t t' _ _].
  - destruct gf as [|g gf0].
    + apply Permutation_nil in P. subst. cbn. reflexivity.
    + destruct gf' as [|g' gf0']; [apply Permutation_sym, Permutation_nil in P; discriminate|]. cbn. split; [reflexivity | exact P].
  - destruct gf, gf'; cbn; reflexivity.
Qed.

Lemma resolve_env_equiv : forall e e' u rq, env_equiv e e' -> result_equiv (resolve e u rq) (resolve e' u rq).
Proof.
  intros e e' u rq H. unfold resolve. rewrite (precheck_equiv e e' u rq H).
  destruct (precheck e' u rq) as [er|]; [cbn; reflexivity|].
  pose proof (validate_pr _ _ (survivors_equiv e e' rq u H)) as V.
  destruct (validate (survivors e rq u)) as [n gf|a], (validate (survivors e' rq u)) as [n' gf'|b]; cbn in V; try contradiction.
  - destruct V as [-> P]. unfold set_cfw. destruct (ffw rq) as [y|].
    + rewrite (mem_perm y gf gf' P). destruct (mem y gf'); cbn; auto.
    + cbn. auto.
  - subst. cbn. reflexivity.
Qed.

Lemma result_equiv_refl : forall r, result_equiv r r.
Proof. intros [n gf|a]; cbn; auto. Qed.

Lemma resolve_perm_equiv_l : forall e e' u u' rq, Permutation u u' -> env_equiv e e' ->
  result_equiv (resolve e u rq) (resolve e' u' rq).
Proof. intros e e' u u' rq Hu He. rewrite (resolve_perm_invariant_l e rq u u' Hu). apply resolve_env_equiv. exact He. Qed.

(* the API list and the collector sets are only used through membership *)
Definition req_equiv (rq rq' : request) : Prop :=
  Permutation (api rq) (api rq') /\
  (match collector rq, collector rq' with
   | None, None => True
   | Some (en, dis), Some (en', dis') => Permutation en en' /\ Permutation dis dis'
   | _, _ => False end) /\
  fname rq = fname rq' /\ fdom rq = fdom rq' /\ ffw rq = ffw rq' /\
  (match links rq, links rq' with
   | None, None => True
   | Some l, Some l' => Permutation l l'
   | _, _ => False end).

Lemma applicable_req : forall rq rq' c, req_equiv rq rq' -> applicable rq c = applicable rq' c.
Proof.
  intros rq rq' c [_ [H _]]. unfold applicable. destruct (collector rq) as [[en dis]|], (collector rq') as [[en' dis']|]; try tauto.
  destruct H as [He Hd]. rewrite (mem_perm _ _ _ Hd).
  destruct en as [|a en0].
  - apply Permutation_nil in He. subst. reflexivity.
  - destruct en' as [|a' en0']; [apply Permutation_sym, Permutation_nil in He; discriminate|]. rewrite (mem_perm _ _ _ He). reflexivity.
Qed.

Lemma api_set_req : forall e rq rq', req_equiv rq rq' -> api_set e rq = api_set e rq'.
Proof.
  intros e rq rq' [H _]. unfold api_set. destruct (api rq) as [|a l].
  - apply Permutation_nil in H. rewrite H. reflexivity.
  - destruct (api rq') as [|a' l']; [apply Permutation_sym, Permutation_nil in H; discriminate|].
    apply filter_ext. intros x. unfold api_selects. apply existsb_perm. exact H.
Qed.

Lemma links_ok_req : forall rq rq' c, req_equiv rq rq' -> links_ok rq c = links_ok rq' c.
Proof.
  intros rq rq' c [_ [_ [_ [_ [_ H]]]]]. unfold links_ok. destruct (idxcols c); [|reflexivity].
  destruct (links rq), (links rq'); try tauto. apply existsb_perm. exact H.
Qed.

Lemma resolve_req_equiv : forall e u rq rq', req_equiv rq rq' -> resolve e u rq = resolve e u rq'.
Proof.
  intros e u rq rq' H. pose proof H as [Ha [_ [En [Ed [Ef _]]]]].
  assert (A : api_set e rq = api_set e rq') by (apply api_set_req; exact H).
  assert (F : filter (applicable rq) u = filter (applicable rq') u) by (apply filter_ext; intros; apply applicable_req; exact H).
  assert (P : precheck e u rq = precheck e u rq').
  { unfold precheck. rewrite A, F, Ef, (nonempty_perm _ _ _ Ha). reflexivity. }
  assert (G : forall c, group_fws e rq c = group_fws e rq' c) by (intros; unfold group_fws, usable; rewrite A; reflexivity).
  assert (S : survivors e rq u = survivors e rq' u).
  { unfold survivors, identified, accessible. rewrite F. f_equal.
    rewrite (map_ext _ _ (fun c => f_equal (pair c) (G c))).
    apply filter_ext. intros [c gf]. unfold keep, criteria, domain_ok, fw_ok. cbn [fst snd].
    rewrite En, Ed, Ef, (links_ok_req rq rq' c H). reflexivity. }
  unfold resolve. rewrite P, S. unfold set_cfw. rewrite Ef. reflexivity.
Qed.

(* ================= 2. one feature of a request ================= *)
Lemma criteria_as_class : forall mrq ls f c, criteria (as_request mrq ls f) (as_class f c) = crit_eval (x_crit c) f.
Proof.
  intros. unfold criteria, as_class, as_request. cbn [fname accepts]. destruct (crit_eval (x_crit c) f); cbn; [|reflexivity].
  rewrite String.eqb_refl. reflexivity.
Qed.

Lemma x_admissible_char : forall e mrq ls f c,
  admissible e (as_request mrq ls f) (as_class f c) <-> x_admissible e mrq ls f c.
Proof.
  intros e mrq ls f c. unfold admissible, x_admissible.
  assert (A : In (fname (as_request mrq ls f)) (accepts (as_class f c)) <-> crit_eval (x_crit c) f = true).
  { rewrite <- smem_In. pose proof (criteria_as_class mrq ls f c) as H. unfold criteria in H. rewrite H. tauto. }
  rewrite A. cbn [fdom as_request dom as_class]. tauto.
Qed.

Lemma resolve_feat_chosen_l : forall e u mrq ls f n gf, resolve_feat e u mrq ls f = Chosen n gf ->
  exists c, In c u /\ x_cid c = n /\ x_admissible e mrq ls f c /\
            forall x, In x (feature_fws (as_request mrq ls f) gf) <-> admissible_fw e (as_request mrq ls f) (as_class f c) x.
Proof.
  intros e u mrq ls f n gf H. apply framework_admissible_l in H. destruct H as [c0 [Hu [En [Had Hx]]]].
  apply in_map_iff in Hu. destruct Hu as [c [<- Hu]]. exists c. split; [exact Hu|]. split; [exact En|].
  split; [apply x_admissible_char; exact Had | exact Hx].
Qed.

(* links only matter to classes that declare index columns *)
Definition with_links (rq : request) (l : option (list (index * index))) : request :=
  {| api := api rq; collector := collector rq; fname := fname rq; fdom := fdom rq; ffw := ffw rq; links := l |}.

Lemma resolve_links_irrelevant : forall e u rq l, (forall c, In c u -> idxcols c = None) ->
  resolve e u (with_links rq l) = resolve e u rq.
Proof.
  intros e u rq l H.
  assert (S : survivors e (with_links rq l) u = survivors e rq u).
  { unfold survivors, identified. change (accessible e (with_links rq l) u) with (accessible e rq u). f_equal.
    apply filter_ext_in. intros [c gf] Hin. unfold accessible in Hin. apply in_map_iff in Hin.
    destruct Hin as [c0 [E Hc]]. injection E as -> _. apply filter_In in Hc. destruct Hc as [Hu _].
    unfold keep, links_ok. cbn [fst snd]. rewrite (H c Hu). reflexivity. }
  unfold resolve. rewrite S. reflexivity.
Qed.

Lemma resolve_feat_links_irrelevant : forall e u mrq ls ls' f, existsb has_idx u = false ->
  resolve_feat e u mrq ls f = resolve_feat e u mrq ls' f.
Proof.
  intros e u mrq ls ls' f H. unfold resolve_feat.
  assert (N : forall c, In c (map (as_class f) u) -> idxcols c = None).
  { intros c0 Hc. apply in_map_iff in Hc. destruct Hc as [c [<- Hu]]. cbn.
    destruct (x_idx c) eqn:E; [|reflexivity]. exfalso.
    assert (T : existsb has_idx u = true) by (apply existsb_exists; exists c; split; [exact Hu | unfold has_idx; rewrite E; reflexivity]).
    congruence. }
  rewrite <- (resolve_links_irrelevant e _ (as_request mrq ls f) ls' N). reflexivity.
Qed.

(* ================= 3. the features of one request, one after the other ================= *)
Lemma removelast_cons2 : forall A (a b : A) l, removelast (a :: b :: l) = a :: removelast (b :: l).
Proof. reflexivity. Qed.

Lemma resolve_seq_map_nolink : forall e u mrq fs ls coll, existsb has_link (removelast fs) = false ->
  map fst (resolve_seq e u mrq ls coll fs) = map (resolve_feat e u mrq ls) fs.
Proof.
  intros e u mrq fs. induction fs as [|f t IH]; intros ls coll H; [reflexivity|].
  destruct t as [|g t'].
  - cbn. destruct (resolve_feat e u mrq ls f) as [n gf|er]; [|reflexivity].
    destruct (is_stored coll n f _); reflexivity.
  - rewrite removelast_cons2 in H. cbn [existsb] in H. apply orb_false_iff in H. destruct H as [Hf Ht].
    assert (L : f_link f = None) by (unfold has_link in Hf; destruct (f_link f); [discriminate | reflexivity]).
    cbn [resolve_seq map]. destruct (resolve_feat e u mrq ls f) as [n gf|er].
    + destruct (is_stored coll n f _); cbn [map fst]; f_equal.
      * apply IH. exact Ht.
      * rewrite L. cbn [add_link]. apply IH. exact Ht.
    + cbn [map fst]. f_equal. apply IH. exact Ht.
Qed.

Lemma resolve_seq_map_noidx : forall e u mrq fs ls ls0 coll, existsb has_idx u = false ->
  map fst (resolve_seq e u mrq ls coll fs) = map (resolve_feat e u mrq ls0) fs.
Proof.
  intros e u mrq fs. induction fs as [|f t IH]; intros ls ls0 coll H; [reflexivity|].
  cbn [resolve_seq map]. rewrite (resolve_feat_links_irrelevant e u mrq ls ls0 f H).
  destruct (resolve_feat e u mrq ls0 f) as [n gf|er].
  - destruct (is_stored coll n f _); cbn [map fst]; f_equal; apply IH; exact H.
  - cbn [map fst]. f_equal. apply IH. exact H.
Qed.

Lemma resolve_all_map_l : forall e u mrq, kf_feature_link u (m_feats mrq) = false ->
  map fst (resolve_all e u mrq) = map (resolve_feat e u mrq (m_links mrq)) (m_feats mrq).
Proof.
  intros e u mrq H. unfold kf_feature_link in H. apply andb_false_iff in H. unfold resolve_all. destruct H as [H | H].
  - apply resolve_seq_map_nolink. exact H.
  - apply resolve_seq_map_noidx. exact H.
Qed.

Lemma resolve_all_single_l : forall e u mrq f,
  map fst (resolve_all e u (single mrq f)) = [resolve_feat e u mrq (m_links mrq) f].
Proof.
  intros. unfold resolve_all, single. cbn [m_links m_feats resolve_seq].
  change (resolve_feat e u {| m_api := m_api mrq; m_collector := m_collector mrq; m_links := m_links mrq; m_feats := [f] |}
            (m_links mrq) f) with (resolve_feat e u mrq (m_links mrq) f).
  destruct (resolve_feat e u mrq (m_links mrq) f) as [n gf|er]; reflexivity.
Qed.

(* each feature of the request is resolved like the request made of that feature alone *)
Lemma resolve_all_each_alone_l : forall e u mrq, kf_feature_link u (m_feats mrq) = false ->
  forall i f, nth_error (m_feats mrq) i = Some f ->
  option_map (fun r => [r]) (nth_error (map fst (resolve_all e u mrq)) i) = Some (map fst (resolve_all e u (single mrq f))).
Proof.
  intros e u mrq H i f Hi. rewrite (resolve_all_map_l e u mrq H), resolve_all_single_l.
  rewrite (map_nth_error _ _ _ Hi). reflexivity.
Qed.

Definition with_feats (mrq : mrequest) (fs : list feat) : mrequest :=
  {| m_api := m_api mrq; m_collector := m_collector mrq; m_links := m_links mrq; m_feats := fs |}.

Lemma resolve_all_order_l : forall e u mrq fs fs', Permutation fs fs' ->
  kf_feature_link u fs = false -> kf_feature_link u fs' = false ->
  Permutation (map fst (resolve_all e u (with_feats mrq fs))) (map fst (resolve_all e u (with_feats mrq fs'))).
Proof.
  intros e u mrq fs fs' P H H'.
  rewrite (resolve_all_map_l e u (with_feats mrq fs) H), (resolve_all_map_l e u (with_feats mrq fs') H').
  cbn [m_feats m_links with_feats].
  change (resolve_feat e u (with_feats mrq fs)) with (resolve_feat e u mrq).
  change (resolve_feat e u (with_feats mrq fs')) with (resolve_feat e u mrq).
  apply Permutation_map. exact P.
Qed.

(* ================= 4. what prepare reports ================= *)
Lemma first_err_In : forall p rs er, first_err p rs = Some er -> In (Rejected er) rs /\ p er = true.
Proof.
  intros p rs er. induction rs as [|r t IH]; cbn; [discriminate|]. destruct r as [n gf|a].
  - intros H. destruct (IH H). auto.
  - destruct (p a) eqn:E.
    + intros H. injection H as ->. auto.
    + intros H. destruct (IH H). auto.
Qed.

Lemma first_err_none_all : forall rs, first_err (fun _ => true) rs = None -> forall r, In r rs -> exists n gf, r = Chosen n gf.
Proof.
  induction rs as [|r t IH]; cbn; intros H r0 Hin; [contradiction|]. destruct r as [n gf|a]; [|discriminate].
  destruct Hin as [<- | Hin]; [eauto | apply IH; assumption].
Qed.

Lemma first_err_all_chosen : forall p rs, (forall r, In r rs -> exists n gf, r = Chosen n gf) -> first_err p rs = None.
Proof.
  intros p rs. induction rs as [|r t IH]; cbn; intros H; [reflexivity|].
  destruct (H r (or_introl eq_refl)) as [n [gf ->]]. apply IH. intros r0 H0. apply H. now right.
Qed.

Lemma answered_of_all_chosen : forall rs, (forall r, In r (map fst rs) -> exists n gf, r = Chosen n gf) ->
  map (fun x => Chosen (fst (fst x)) (snd (fst x))) (answered_of rs) = map fst rs.
Proof.
  induction rs as [|[r b] t IH]; cbn; intros H; [reflexivity|].
  destruct (H r (or_introl eq_refl)) as [n [gf ->]]. cbn. f_equal. apply IH. intros r0 H0. apply H. now right.
Qed.

Lemma request_answered_l : forall e u mrq l, request_outcome e u mrq = RAnswered l ->
  features_check (m_feats mrq) = None /\
  map (fun x => Chosen (fst (fst x)) (snd (fst x))) l = map fst (resolve_all e u mrq) /\
  map snd l = map snd (resolve_all e u mrq).
Proof.
  intros e u mrq l. unfold request_outcome.
  destruct (first_err is_unknown _); [discriminate|].
  destruct (features_check (m_feats mrq)); [discriminate|].
  destruct (first_err is_noapi _); [discriminate|]. destruct (first_err is_notinapi _); [discriminate|].
  destruct (first_err is_noacc _); [discriminate|]. cbn [orelse].
  destruct (first_err (fun _ => true) (map fst (resolve_all e u mrq))) eqn:E; [discriminate|].
  intros H. injection H as <-. split; [reflexivity|].
  pose proof (first_err_none_all _ E) as A. split; [apply answered_of_all_chosen; exact A|].
  clear E. induction (resolve_all e u mrq) as [|[r b] t IH]; cbn; [reflexivity|].
  destruct (A r (or_introl eq_refl)) as [n [gf ->]]. cbn. f_equal. apply IH. intros r0 H0. apply A. now right.
Qed.

Lemma features_check_not_err : forall fs seen er, features_check_from seen fs <> Some (RErr er).
Proof.
  induction fs as [|f t IH]; intros seen er; cbn; [discriminate|].
  destruct (in_coll f seen); try discriminate. apply IH.
Qed.

Lemma request_rejected_l : forall e u mrq er, request_outcome e u mrq = RRejected (RErr er) ->
  In (Rejected er) (map fst (resolve_all e u mrq)).
Proof.
  intros e u mrq er. unfold request_outcome.
  destruct (first_err is_unknown _) eqn:E0; [intros H; injection H as ->; apply (first_err_In _ _ _ E0)|].
  destruct (features_check (m_feats mrq)) eqn:EF;
    [intros H; injection H as ->; exfalso; exact (features_check_not_err _ _ _ EF)|].
  destruct (first_err is_noapi _) eqn:E1; [cbn; intros H; injection H as ->; apply (first_err_In _ _ _ E1)|].
  destruct (first_err is_notinapi _) eqn:E2; [cbn; intros H; injection H as ->; apply (first_err_In _ _ _ E2)|].
  destruct (first_err is_noacc _) eqn:E3; [cbn; intros H; injection H as ->; apply (first_err_In _ _ _ E3)|].
  cbn. destruct (first_err (fun _ => true) _) eqn:E4; [|discriminate].
  intros H; injection H as ->; apply (first_err_In _ _ _ E4).
Qed.

Lemma request_accepted_l : forall e u mrq, features_check (m_feats mrq) = None ->
  (forall r, In r (map fst (resolve_all e u mrq)) -> exists n gf, r = Chosen n gf) ->
  request_outcome e u mrq = RAnswered (answered_of (resolve_all e u mrq)).
Proof.
  intros e u mrq Hc H. unfold request_outcome. rewrite Hc. rewrite !(first_err_all_chosen _ _ H). reflexivity.
Qed.

(* ---- the duplicate check of Features(...) ---- *)
Lemma feat_cmp_nomix : forall g f, feat_mix g f = false ->
  feat_cmp g f = if feat_same g f then CmpEq else CmpNe.
Proof.
  intros g f. unfold feat_mix, feat_cmp, feat_same. destruct (base_same g f); cbn; [|reflexivity].
  destruct (eff_dom g) as [d|], (eff_dom f) as [d'|]; cbn; try discriminate; intros _.
  - destruct (String.eqb d d'); cbn; [|reflexivity]. destruct (ofw_eqb _ _); reflexivity.
  - destruct (ofw_eqb _ _); reflexivity.
Qed.

Lemma in_coll_nomix : forall f seen, existsb (fun g => feat_mix g f) seen = false ->
  in_coll f seen = if existsb (fun g => feat_same g f) seen then CmpEq else CmpNe.
Proof.
  intros f seen. induction seen as [|g t IH]; cbn; [reflexivity|]. intros H. apply orb_false_iff in H. destruct H as [H1 H2].
  rewrite (feat_cmp_nomix g f H1). destruct (feat_same g f); cbn; [reflexivity | apply IH; exact H2].
Qed.

Lemma features_check_from_l : forall fs seen, kf_domain_mix_from seen fs = false ->
  features_check_from seen fs = if dup_free_from seen fs then None else Some RDuplicate.
Proof.
  induction fs as [|f t IH]; intros seen; cbn; [reflexivity|]. intros H. apply orb_false_iff in H. destruct H as [H1 H2].
  rewrite (in_coll_nomix f seen H1). destruct (existsb (fun g => feat_same g f) seen); cbn; [reflexivity | apply IH; exact H2].
Qed.

Lemma features_check_partial_l : forall fs, kf_domain_mix fs = false ->
  features_check fs = if dup_free fs then None else Some RDuplicate.
Proof. intros fs H. apply features_check_from_l. exact H. Qed.

(* ================= 5. order of the universe / of the framework lists: whole requests ================= *)
Definition sr (p q : (nat * feat) * list fw) : Prop := fst p = fst q /\ Permutation (snd p) (snd q).
Definition rb (x y : result * bool) : Prop := result_equiv (fst x) (fst y) /\ snd x = snd y.

Lemma resolve_feat_equiv : forall e e' u u' mrq ls f, Permutation u u' -> env_equiv e e' ->
  result_equiv (resolve_feat e u mrq ls f) (resolve_feat e' u' mrq ls f).
Proof. intros. unfold resolve_feat. apply resolve_perm_equiv_l; [apply Permutation_map|]; assumption. Qed.

Lemma is_stored_sr : forall coll coll' n f ff ff', Forall2 sr coll coll' -> Permutation ff ff' ->
  is_stored coll n f ff = is_stored coll' n f ff'.
Proof.
  intros coll coll' n f ff ff' H P. unfold is_stored. apply (existsb_Forall2 _ sr); [|exact H].
  intros [[m g] gf] [[m' g'] gf'] [E Pg]. cbn in E, Pg. injection E as -> ->. cbn [fst snd]. unfold post_eq.
  rewrite (set_eqb_perm gf gf' ff ff' Pg P). reflexivity.
Qed.

Lemma Forall2_app_one : forall A (R : A -> A -> Prop) l l' a b, Forall2 R l l' -> R a b -> Forall2 R (l ++ [a]) (l' ++ [b]).
Proof. intros. apply Forall2_app; [assumption | constructor; [assumption | constructor]]. Qed.

Lemma resolve_seq_equiv : forall e e' u u' mrq, Permutation u u' -> env_equiv e e' ->
  forall fs ls coll coll', Forall2 sr coll coll' ->
  Forall2 rb (resolve_seq e u mrq ls coll fs) (resolve_seq e' u' mrq ls coll' fs).
Proof.
  intros e e' u u' mrq Hu He fs. induction fs as [|f t IH]; intros ls coll coll' Hc; cbn [resolve_seq]; [constructor|].
  pose proof (resolve_feat_equiv e e' u u' mrq ls f Hu He) as R.
  destruct (resolve_feat e u mrq ls f) as [n gf|a], (resolve_feat e' u' mrq ls f) as [n' gf'|b]; cbn in R; try contradiction.
  - destruct R as [<- P].
    assert (PF : Permutation (feature_fws (as_request mrq ls f) gf) (feature_fws (as_request mrq ls f) gf')).
    { unfold feature_fws. destruct (ffw _); [apply Permutation_refl | exact P]. }
    rewrite (is_stored_sr coll coll' n f _ _ Hc PF). destruct (is_stored coll' n f _).
    + constructor; [split; [cbn; auto | reflexivity] | apply IH; exact Hc].
    + constructor; [split; [cbn; auto | reflexivity]|]. apply IH. apply Forall2_app_one; [exact Hc|]. split; [reflexivity | exact PF].
  - subst b. constructor; [split; [cbn; reflexivity | reflexivity] | apply IH; exact Hc].
Qed.

Lemma first_err_equiv : forall p l l', Forall2 result_equiv l l' -> first_err p l = first_err p l'.
Proof.
  intros p l l' H. induction H as [|r r' l l' Hr H IH]; cbn; [reflexivity|].
  destruct r as [n gf|a], r' as [n' gf'|b]; cbn in Hr; try contradiction; [exact IH|]. subst b. rewrite IH. reflexivity.
Qed.

Lemma Forall2_map_fst_rb : forall l l', Forall2 rb l l' -> Forall2 result_equiv (map fst l) (map fst l').
Proof. intros l l' H. induction H as [|x y l l' [Hxy _] H IH]; cbn; constructor; assumption. Qed.

Lemma answered_of_equiv : forall l l', Forall2 rb l l' -> Forall2 answered_equiv (answered_of l) (answered_of l').
Proof.
  intros l l' H. induction H as [|[r b] [r' b'] l l' [Hr Hb] H IH]; cbn; [constructor|]. cbn in Hr, Hb. subst b'.
  destruct r as [n gf|a], r' as [n' gf'|a']; cbn in Hr; try contradiction; [|exact IH].
  destruct Hr as [<- P]. cbn. constructor; [|exact IH]. repeat split; cbn; auto.
Qed.

Lemma request_outcome_equiv : forall e e' u u' mrq, Permutation u u' -> env_equiv e e' ->
  routcome_equiv (request_outcome e u mrq) (request_outcome e' u' mrq).
Proof.
  intros e e' u u' mrq Hu He. unfold request_outcome.
  assert (S : Forall2 rb (resolve_all e u mrq) (resolve_all e' u' mrq)) by (apply resolve_seq_equiv; auto).
  pose proof (Forall2_map_fst_rb _ _ S) as S1.
  rewrite !(first_err_equiv _ _ _ S1).
  destruct (first_err is_unknown _); [cbn; reflexivity|].
  destruct (features_check (m_feats mrq)); [cbn; reflexivity|].
  destruct (orelse _ _); [cbn; reflexivity|]. cbn. apply answered_of_equiv. exact S.
Qed.

Lemma routcome_equiv_refl : forall o, routcome_equiv o o.
Proof.
  intros [l|a]; cbn; [|reflexivity]. induction l as [|x l IH]; constructor; [|exact IH]. repeat split; auto.
Qed.

Lemma routcome_equiv_sym : forall o o', routcome_equiv o o' -> routcome_equiv o' o.
Proof.
  intros [l|a] [l'|a']; cbn; try tauto; [|congruence]. intros H. induction H as [|x y l l' [H1 [H2 H3]] H IH]; constructor; [|exact IH].
  repeat split; auto. apply Permutation_sym. exact H2.
Qed.

Lemma routcome_equiv_trans : forall o1 o2 o3, routcome_equiv o1 o2 -> routcome_equiv o2 o3 -> routcome_equiv o1 o3.
Proof.
  intros [l1|a1] [l2|a2] [l3|a3]; cbn; try tauto; [|congruence]. intros H. revert l3.
  induction H as [|x y l l' [H1 [H2 H3]] H IH]; intros l3 H'; inversion H' as [|y' z l2' l3' [G1 [G2 G3]] H'']; subst; constructor.
  - repeat split; [congruence | eapply Permutation_trans; eassumption | congruence].
  - apply IH. exact H''.
Qed.

(* ================= 6. histories ================= *)
Lemma env_with_equiv : forall nm ex ex' av av', Permutation ex ex' -> Permutation av av' ->
  env_equiv (env_with nm ex av) (env_with nm ex' av').
Proof.
  intros nm ex ex' av av' H1 H2. unfold env_equiv, env_with. cbn. split; [apply Permutation_map; exact H1|].
  split; [|reflexivity]. apply Permutation_map, filter_perm. exact H2.
Qed.

Lemma answer_equiv : forall nm w st st' rq, walk_ok w -> state_equiv st st' ->
  routcome_equiv (answer nm w st rq) (request_outcome (env_of nm (p_fws st')) (p_groups st') rq).
Proof.
  intros nm w st st' rq [Hg [Hf Ha]] [Sg Sf]. unfold answer, env_of. apply request_outcome_equiv.
  - eapply Permutation_trans; [apply Hg | exact Sg].
  - apply env_with_equiv; (eapply Permutation_trans; [|exact Sf]); [apply Hf | apply Ha].
Qed.

Lemma state_equiv_refl : forall st, state_equiv st st.
Proof. intros. split; apply Permutation_refl. Qed.

(* invariant of the fold: the state is exactly the classes defined so far, and every answer given so far is the one the
   specification lists *)
Lemma run_history_inv : forall nm ws, (forall k, walk_ok (ws k)) -> forall ops st outs,
  fst (fold_left (step nm ws) ops (st, outs)) = final_state st ops /\
  exists outs', snd (fold_left (step nm ws) ops (st, outs)) = outs ++ outs' /\
                Forall2 routcome_equiv outs' (spec_answers nm st ops).
Proof.
  intros nm ws Hw ops. induction ops as [|o t IH]; intros st outs.
  - cbn. split; [reflexivity|]. exists []. rewrite app_nil_r. split; [reflexivity | constructor].
  - destruct o as [c|n|rq]; cbn [fold_left step fst snd final_state spec_answers define].
    + apply (IH _ outs).
    + apply (IH _ outs).
    + destruct (IH st (outs ++ [answer nm (ws (List.length outs)) st rq])) as [F [outs' [E S]]].
      split; [exact F|]. exists (answer nm (ws (List.length outs)) st rq :: outs'). split.
      * rewrite E, <- app_assoc. reflexivity.
      * constructor; [|exact S]. apply answer_equiv; [apply Hw | apply state_equiv_refl].
Qed.

Lemma history_invariant_l : forall nm ws, (forall k, walk_ok (ws k)) -> forall st ops,
  fst (run_history nm ws st ops) = final_state st ops /\
  Forall2 routcome_equiv (snd (run_history nm ws st ops)) (spec_answers nm st ops).
Proof.
  intros nm ws Hw st ops. unfold run_history. destruct (run_history_inv nm ws Hw ops st []) as [F [outs' [E S]]].
  split; [exact F|]. rewrite E. exact S.
Qed.

(* the state reached depends only on the definitions, and a permutation of the definitions gives an equivalent state *)
Lemma final_state_defs : forall ops st, final_state st ops = final_state st (defs ops).
Proof.
  induction ops as [|o t IH]; intros st; [reflexivity|]. destruct o as [c|n|rq]; cbn; try apply IH.
Qed.

Definition groups_of (ops : list op) : list xclass := flat_map (fun o => match o with DefGroup c => [c] | _ => [] end) ops.
Definition fws_of (ops : list op) : list fwnode := flat_map (fun o => match o with DefFw n => [n] | _ => [] end) ops.

Lemma final_state_lists : forall ops st,
  p_groups (final_state st ops) = p_groups st ++ groups_of ops /\ p_fws (final_state st ops) = p_fws st ++ fws_of ops.
Proof.
  induction ops as [|o t IH]; intros st; cbn.
  - rewrite !app_nil_r. auto.
  - destruct (IH (define st o)) as [G F]. unfold final_state in G, F. rewrite G, F.
    destruct o as [c|n|rq]; cbn; rewrite <- ?app_assoc; auto.
Qed.

Lemma flat_map_perm : forall A B (f : A -> list B) l l', Permutation l l' -> Permutation (flat_map f l) (flat_map f l').
Proof.
  intros A B f l l' H. induction H; cbn.
  - constructor.
  - apply Permutation_app_head. assumption.
  - rewrite !app_assoc. apply Permutation_app_tail, Permutation_app_comm.
  - eapply Permutation_trans; eassumption.
Qed.

Lemma groups_of_defs : forall ops, groups_of (defs ops) = groups_of ops.
Proof. unfold groups_of, defs. induction ops as [|o t IH]; [reflexivity|]. destruct o; cbn; rewrite ?IH; reflexivity. Qed.
Lemma fws_of_defs : forall ops, fws_of (defs ops) = fws_of ops.
Proof. unfold fws_of, defs. induction ops as [|o t IH]; [reflexivity|]. destruct o; cbn; rewrite ?IH; reflexivity. Qed.

Lemma final_state_perm : forall st h1 h2, Permutation (defs h1) (defs h2) ->
  state_equiv (final_state st h1) (final_state st h2).
Proof.
  intros st h1 h2 P. destruct (final_state_lists h1 st) as [G1 F1]. destruct (final_state_lists h2 st) as [G2 F2].
  split; [rewrite G1, G2 | rewrite F1, F2]; apply Permutation_app_head.
  - rewrite <- (groups_of_defs h1), <- (groups_of_defs h2). apply flat_map_perm. exact P.
  - rewrite <- (fws_of_defs h1), <- (fws_of_defs h2). apply flat_map_perm. exact P.
Qed.

Lemma run_history_last : forall nm ws st h rq,
  snd (run_history nm ws st (h ++ [Request rq])) =
  snd (run_history nm ws st h) ++ [answer nm (ws (List.length (snd (run_history nm ws st h)))) (fst (run_history nm ws st h)) rq].
Proof. intros. unfold run_history. rewrite fold_left_app. reflexivity. Qed.

(* history independence: the answer to a request depends only on which classes exist when it is made *)
Lemma history_independent_l : forall nm ws ws', (forall k, walk_ok (ws k)) -> (forall k, walk_ok (ws' k)) ->
  forall st h1 h2 rq, Permutation (defs h1) (defs h2) ->
  exists a1 a2, last (snd (run_history nm ws st (h1 ++ [Request rq]))) (RRejected RDuplicate) = a1 /\
                last (snd (run_history nm ws' st (h2 ++ [Request rq]))) (RRejected RDuplicate) = a2 /\
                routcome_equiv a1 a2 /\
                routcome_equiv a1 (request_outcome (env_of nm (p_fws (final_state st h1))) (p_groups (final_state st h1)) rq).
Proof.
  intros nm ws ws' Hw Hw' st h1 h2 rq P. rewrite !run_history_last, !last_last.
  destruct (history_invariant_l nm ws Hw st h1) as [F1 _]. destruct (history_invariant_l nm ws' Hw' st h2) as [F2 _].
  rewrite F1, F2. eexists. eexists. split; [reflexivity|]. split; [reflexivity|].
  pose proof (answer_equiv nm (ws (List.length (snd (run_history nm ws st h1)))) (final_state st h1) (final_state st h1) rq
                (Hw _) (state_equiv_refl _)) as A1.
  pose proof (answer_equiv nm (ws' (List.length (snd (run_history nm ws' st h2)))) (final_state st h2) (final_state st h1) rq
                (Hw' _)) as A2.
  split; [|exact A1]. eapply routcome_equiv_trans; [exact A1|]. apply routcome_equiv_sym, A2.
  destruct (final_state_perm st h1 h2 P) as [G F]. split; apply Permutation_sym; assumption.
Qed.

(* ================= 7. witnesses ================= *)
Definition hw_e := {| existing := [0]; available := [0]; cname := fun x => x |}.
Definition hw_cls i names ix := {| x_cid := i; x_supers := []; x_crit := CNames names; x_dom := "default_domain";
                                   x_rule := None; x_idx := ix |}.
(* G1 (index column j) and G2 both serve "r"; GX serves "x" *)
Definition hw_u := [hw_cls 1 ["r"] (Some [["j"]]); hw_cls 2 ["r"] None; hw_cls 3 ["x"] None].
Definition hw_feat nm l := {| f_name := nm; f_group := []; f_ctx := []; f_dom := None; f_ffw := None; f_link := l |}.
Definition hw_x := hw_feat "x" (Some (["k"], ["k"])).       (* carries a Link on index k *)
Definition hw_r := hw_feat "r" None.
Definition hw_rq fs := {| m_api := []; m_collector := None; m_links := None; m_feats := fs |}.

Lemma feature_link_refuted_l :
  kf_feature_link hw_u [hw_x; hw_r] = true /\
  (* "r" alone: two admissible groups, rejected *)
  map fst (resolve_all hw_e hw_u (single (hw_rq [hw_x; hw_r]) hw_r)) = [Rejected EMultiple] /\
  (* "r" after "x": the Link of x filters G1, G2 is chosen *)
  map fst (resolve_all hw_e hw_u (hw_rq [hw_x; hw_r])) = [Chosen 3 [0]; Chosen 2 [0]] /\
  map fst (resolve_all hw_e hw_u (hw_rq [hw_x; hw_r])) <>
    map (resolve_feat hw_e hw_u (hw_rq [hw_x; hw_r]) None) [hw_x; hw_r] /\
  (* the order in which the two features are listed decides between an answer and a rejection *)
  request_outcome hw_e hw_u (hw_rq [hw_x; hw_r]) = RAnswered [((3, [0]), true); ((2, [0]), true)] /\
  request_outcome hw_e hw_u (hw_rq [hw_r; hw_x]) = RRejected (RErr EMultiple).
Proof. repeat split; try reflexivity. vm_compute. discriminate. Qed.

(* the same feature name with and without a domain: each alone is answered, together the duplicate check raises *)
Definition hw_rd := {| f_name := "r"; f_group := []; f_ctx := []; f_dom := Some "default_domain"; f_ffw := None; f_link := None |}.
Lemma domain_mix_refuted_l :
  kf_domain_mix [hw_r; hw_rd] = true /\ dup_free [hw_r; hw_rd] = true /\
  features_check [hw_r; hw_rd] = Some RDomainCompare /\
  request_outcome hw_e [hw_cls 2 ["r"] None] (hw_rq [hw_r]) = RAnswered [((2, [0]), true)] /\
  request_outcome hw_e [hw_cls 2 ["r"] None] (hw_rq [hw_rd]) = RAnswered [((2, [0]), true)] /\
  request_outcome hw_e [hw_cls 2 ["r"] None] (hw_rq [hw_r; hw_rd]) = RRejected RDomainCompare.
Proof. repeat split; reflexivity. Qed.

(* a process that remembers the frameworks of open-rule groups and refreshes them only when a DIRECT subclass of
   ComputeFramework appears is NOT history independent: planning, then a framework derived from framework 0, then a request
   on it *)
Definition hm_st := {| p_groups := [hw_cls 2 ["r"] None]; p_fws := [{| fid := 0; froot := 0; favail := true |}] |}.
Definition hm_late := {| fid := 5; froot := 0; favail := true |}.
Definition hm_rq a := {| m_api := a; m_collector := None; m_links := None; m_feats := [hw_r] |}.
Definition hm_nm : fw -> fwname := fun x => x.
Lemma memo_refuted_l :
  spec_answers hm_nm hm_st [Request (hm_rq [AClass 0]); DefFw hm_late; Request (hm_rq [AClass 5])]
    = [RAnswered [((2, [0]), true)]; RAnswered [((2, [5]), true)]] /\
  snd (run_history hm_nm (fun _ => id_walk) hm_st [Request (hm_rq [AClass 0]); DefFw hm_late; Request (hm_rq [AClass 5])])
    = [RAnswered [((2, [0]), true)]; RAnswered [((2, [5]), true)]] /\
  run_memo hm_nm hm_st [Request (hm_rq [AClass 0]); DefFw hm_late; Request (hm_rq [AClass 5])]
    = [RAnswered [((2, [0]), true)]; RRejected (RErr ENoGroup)] /\
  (* ... although the same process answers correctly when nothing was planned before the class appeared *)
  run_memo hm_nm hm_st [DefFw hm_late; Request (hm_rq [AClass 5])] = [RAnswered [((2, [5]), true)]].
Proof. repeat split; reflexivity. Qed.

Lemma id_walk_ok : walk_ok id_walk.
Proof. repeat split; intros; apply Permutation_refl. Qed.

(* ================= 8. classes that do not match are irrelevant (frame) ================= *)
Lemma resolve_frame_l : forall e u rq c, criteria rq c = false -> precheck e u rq = None ->
  resolve e (c :: u) rq = resolve e u rq.
Proof.
  intros e u rq c Hc Hp.
  assert (P : precheck e (c :: u) rq = None).
  { unfold precheck in *.
    destruct (match ffw rq with Some x => negb (mem x (existing e)) | None => false end); [discriminate|].
    destruct (nonempty (api rq) && negb (nonempty (api_set e rq))); [discriminate|].
    destruct (match ffw rq with Some x => negb (mem x (api_set e rq)) | None => false end); [discriminate|].
    destruct (negb (nonempty (filter (applicable rq) u))) eqn:E; [discriminate|].
    cbn [filter]. destruct (applicable rq c); [reflexivity|]. rewrite E. reflexivity. }
  assert (S : survivors e rq (c :: u) = survivors e rq u).
  { unfold survivors, identified, accessible. cbn [filter]. destruct (applicable rq c); [|reflexivity].
    cbn [map filter]. unfold keep at 1. cbn [fst snd]. rewrite Hc. reflexivity. }
  unfold resolve. rewrite P, Hp, S. reflexivity.
Qed.

(* ================= 9. a feature-level framework given by name ================= *)
(* outside kf_ffw_name_twins (the name is carried by at most one existing class) the request written with a framework NAME is
   answered alike under every iteration order of the class sets *)
Lemma resolve_named_order_l : forall e e' u u' rq fn, Permutation u u' -> env_equiv e e' ->
  kf_ffw_name_twins e fn = false -> result_equiv (resolve_named e u rq fn) (resolve_named e' u' rq fn).
Proof.
  intros e e' u u' rq fn Hu He K. unfold resolve_named. destruct fn as [n|].
  - rewrite <- (feature_fw_of_name_order_l e e' n); [| apply He | apply He | exact K].
    destruct (feature_fw_of_name e n) as [x|]; [|cbn; reflexivity]. apply resolve_perm_equiv_l; assumption.
  - apply resolve_perm_equiv_l; assumption.
Qed.
