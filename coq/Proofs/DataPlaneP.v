From Coq Require Import List Bool ZArith Arith Lia.
Import ListNotations.
Require Import MV.Spec.RefEval MV.Model.DataPlane.
Open Scope Z_scope.

Lemma list_eqb_nat : forall a b : list nat,
  Nat.eqb (length a) (length b) && forallb (fun xy => Nat.eqb (fst xy) (snd xy)) (combine a b) = true -> a = b.
Proof.
  induction a as [|x a IH]; intros [|y b] H; cbn in H; try discriminate; [reflexivity|].
  apply andb_true_iff in H. destruct H as [Hl H]. apply andb_true_iff in H. destruct H as [Hx H].
  apply Nat.eqb_eq in Hx. cbn in Hx. subst y. f_equal. apply IH. rewrite Hl, H. reflexivity.
Qed.
Lemma list_eqb_Z : forall a b : list Z,
  Nat.eqb (length a) (length b) && forallb (fun xy => Z.eqb (fst xy) (snd xy)) (combine a b) = true -> a = b.
Proof.
  induction a as [|x a IH]; intros [|y b] H; cbn in H; try discriminate; [reflexivity|].
  apply andb_true_iff in H. destruct H as [Hl H]. apply andb_true_iff in H. destruct H as [Hx H].
  apply Z.eqb_eq in Hx. cbn in Hx. subst y. f_equal. apply IH. rewrite Hl, H. reflexivity.
Qed.

Lemma col_eqb_eq : forall a b, col_eqb a b = true -> a = b.
Proof.
  unfold col_eqb. induction a as [|x a IH]; intros [|y b] H; cbn in H; try discriminate; [reflexivity|].
  apply andb_true_iff in H. destruct H as [Hl H]. apply andb_true_iff in H. destruct H as [Hx H].
  assert (x = y).
  { destruct x as [x|], y as [y|]; try discriminate; [apply Z.eqb_eq in Hx; subst; reflexivity | reflexivity]. }
  subst y. f_equal. apply IH. rewrite Hl, H. reflexivity.
Qed.
Lemma col_eqb_refl : forall a, col_eqb a a = true.
Proof.
  unfold col_eqb. induction a as [|x a IH]; [reflexivity|]. cbn. apply andb_true_iff in IH. destruct IH as [Hl H].
  rewrite Hl, H. destruct x; [rewrite Z.eqb_refl|]; reflexivity.
Qed.

Lemma fdef_eqb_eq : forall a b, fdef_eqb a b = true -> a = b.
Proof.
  intros [fa ia ca ka] [fb ib cb kb] H. unfold fdef_eqb in H. cbn in H.
  apply andb_true_iff in H. destruct H as [H Hk]. apply andb_true_iff in H. destruct H as [H Hc].
  apply andb_true_iff in H. destruct H as [Hf Hi].
  apply Nat.eqb_eq in Hf. apply Z.eqb_eq in Hc. apply list_eqb_nat in Hi. apply list_eqb_Z in Hk. subst. reflexivity.
Qed.

Lemma lookup_In : forall e f c, lookup e f = Some c -> In (f, c) e.
Proof.
  induction e as [|[k v] e IH]; intros f c H; cbn in H; [discriminate|].
  destruct (Nat.eqb k f) eqn:E; [apply Nat.eqb_eq in E; injection H as <-; subst; left; reflexivity | right; apply IH; exact H].
Qed.

Lemma lookup_app : forall a b f, lookup (a ++ b) f = match lookup a f with Some c => Some c | None => lookup b f end.
Proof.
  induction a as [|[k v] a IH]; intros b f; cbn; [reflexivity|]. destruct (Nat.eqb k f); [reflexivity | apply IH].
Qed.

(* equality form of agreement *)
Definition agrees_eq (e : env) (s : store) : Prop :=
  forall o t f c, In (o, t) s -> lookup t f = Some c -> lookup e f = Some c.

Lemma get_obj_In : forall s o t, get_obj s o = Some t -> In (o, t) s.
Proof.
  induction s as [|[k v] s IH]; intros o t H; cbn in H; [discriminate|].
  destruct (Nat.eqb k o) eqn:E; [apply Nat.eqb_eq in E; injection H as <-; subst; left; reflexivity | right; apply IH; exact H].
Qed.

Section Sound.
  Variables (n : nat) (src : env) (defs : list fdef) (e : env).
  Hypothesis Hsol : solution n src defs e = true.

  Lemma src_in_e : forall f c, lookup src f = Some c -> lookup e f = Some c.
  Proof.
    intros f c H. unfold solution in Hsol. apply andb_true_iff in Hsol. destruct Hsol as [Hs _].
    rewrite forallb_forall in Hs. specialize (Hs (f, c) (lookup_In _ _ _ H)). cbn in Hs.
    destruct (lookup e f) as [c'|]; [|discriminate]. apply col_eqb_eq in Hs. subst. reflexivity.
  Qed.

  Lemma def_in_e : forall d c cols, In d defs -> lookup e (fname d) = Some c ->
    all_some (map (lookup e) (inputs d)) = Some cols -> c = compute n d cols.
  Proof.
    intros d c cols Hd Hc Hcols. unfold solution in Hsol. apply andb_true_iff in Hsol. destruct Hsol as [_ Hd'].
    rewrite forallb_forall in Hd'. specialize (Hd' d Hd). rewrite Hc, Hcols in Hd'. apply col_eqb_eq; exact Hd'.
  Qed.

  (* looking the inputs up in a table that agrees with e gives e's columns *)
  Lemma inputs_agree : forall t ins cols, (forall f c, lookup t f = Some c -> lookup e f = Some c) ->
    all_some (map (lookup t) ins) = Some cols -> all_some (map (lookup e) ins) = Some cols.
  Proof.
    intros t ins. induction ins as [|i ins IH]; intros cols Ht H; cbn in *; [exact H|].
    destruct (lookup t i) as [c|] eqn:Ei; [|discriminate]. rewrite (Ht i c Ei).
    destruct (all_some (map (lookup t) ins)) as [r|] eqn:Er; [|discriminate]. injection H as <-.
    rewrite (IH r Ht eq_refl). reflexivity.
  Qed.

  Lemma calc_cols_agree : forall t ds new, (forall f c, lookup t f = Some c -> lookup e f = Some c) ->
    forallb (fun d => existsb (fdef_eqb d) defs && match lookup e (fname d) with Some _ => true | None => false end) ds = true ->
    calc_cols n t ds = inl new -> forall f c, lookup new f = Some c -> lookup e f = Some c.
  Proof.
    intros t ds. induction ds as [|d ds IH]; intros new Ht Hok H f c Hl; cbn in *.
    - injection H as <-. discriminate.
    - apply andb_true_iff in Hok. destruct Hok as [Hd Hok]. apply andb_true_iff in Hd. destruct Hd as [Hin Hdef].
      destruct (all_some (map (lookup t) (inputs d))) as [cols|] eqn:Ec; [|discriminate].
      destruct (calc_cols n t ds) as [rest|] eqn:Er; [|discriminate]. injection H as <-. cbn in Hl.
      destruct (Nat.eqb (fname d) f) eqn:Ef.
      + apply Nat.eqb_eq in Ef. subst f. injection Hl as <-.
        apply existsb_exists in Hin. destruct Hin as [d' [Hd' Heq]]. apply fdef_eqb_eq in Heq. subst d'.
        destruct (lookup e (fname d)) as [c'|] eqn:Ee; [|discriminate].
        rewrite (def_in_e d c' cols Hd' Ee (inputs_agree t _ _ Ht Ec)). reflexivity.
      + apply (IH rest Ht Hok eq_refl f c Hl).
  Qed.

  Lemma step_agrees : forall s a s', agrees_eq e s -> action_ok src defs e a = true -> step n s a = Ok s' -> agrees_eq e s'.
  Proof.
    intros s a s' Hag Hok Hst. destruct a as [o cols|o ds|a b]; cbn in Hst.
    - injection Hst as <-. intros o' t f c [Heq|Hin] Hl; [|eapply Hag; eauto]. injection Heq as <- <-.
      cbn in Hok. rewrite forallb_forall in Hok. specialize (Hok (f, c) (lookup_In _ _ _ Hl)). cbn in Hok.
      destruct (lookup src f) as [c'|] eqn:Es; [|discriminate]. apply col_eqb_eq in Hok. subst c'. apply src_in_e; exact Es.
    - destruct (get_obj s o) as [t|] eqn:Eg; [|discriminate].
      destruct (calc_cols n t ds) as [new|] eqn:Ec; [|discriminate]. injection Hst as <-.
      assert (Ht : forall f c, lookup t f = Some c -> lookup e f = Some c) by (intros f c; apply (Hag o t f c (get_obj_In _ _ _ Eg))).
      intros o' t' f c [Heq|Hin] Hl; [|eapply Hag; eauto]. injection Heq as <- <-.
      rewrite lookup_app in Hl. destruct (lookup new f) as [c'|] eqn:En.
      + injection Hl as <-. apply (calc_cols_agree t ds new Ht Hok Ec f c' En).
      + apply Ht; exact Hl.
    - destruct (get_obj s a) as [t|] eqn:Eg; [|discriminate]. injection Hst as <-.
      intros o' t' f c [Heq|Hin] Hl; [|eapply Hag; eauto]. injection Heq as <- <-.
      apply (Hag a t f c (get_obj_In _ _ _ Eg) Hl).
  Qed.

  (* Whatever order the steps run in and whichever object each step is routed to: if the execution succeeds, every
     column of every object equals the reference value *)
  Lemma exec_sound_l : forall acts s s', agrees_eq e s -> forallb (action_ok src defs e) acts = true ->
    exec n s acts = Ok s' -> agrees_eq e s'.
  Proof.
    induction acts as [|a acts IH]; intros s s' Hag Hok H; cbn in *; [injection H as <-; exact Hag|].
    apply andb_true_iff in Hok. destruct Hok as [Ha Hok].
    destruct (step n s a) as [s1| |] eqn:Es; try discriminate. apply (IH s1 s' (step_agrees s a s1 Hag Ha Es) Hok H).
  Qed.
End Sound.

(* two solutions of an acyclic system agree wherever both are defined: the reference value is unique *)
Lemma exec_from_empty_l : forall n src defs e acts s', solution n src defs e = true ->
  forallb (action_ok src defs e) acts = true -> exec n [] acts = Ok s' ->
  forall o t f c, In (o, t) s' -> lookup t f = Some c -> lookup e f = Some c.
Proof.
  intros n src defs e acts s' Hsol Hok H. apply (exec_sound_l n src defs e Hsol acts [] s'); auto. intros o t f c [].
Qed.
