(* Concrete traces of the protocol model (kernel-checked by vm_compute): non-vacuity examples and the witnesses of the
   crash points at which the clean-up / reporting guarantees do NOT hold. *)
From Coq Require Import List Bool Arith.
Import ListNotations.
Require Import MV.Model.Orch MV.Proofs.OrchP MV.Proofs.OrchTermP MV.Model.Worker MV.Spec.WorkerSpec MV.Proofs.WorkerP.

Lemma wf_plan_ok : forall order p, wf_plan order p = true -> plan_ok p /\ NoDup (map sid p).
Proof.
  intros order p H. destruct (wf_plan_props order p H) as (A & B & C & _). split; [constructor; assumption|].
  unfold wf_plan in H. repeat (apply andb_true_iff in H; destruct H as [H ?]).
  apply nodupb_NoDup. assumption.
Qed.

Definition fg (i : nat) (us rq : list nat) (r : bool) : Orch.step := {| sid := i; skind := KFG; uuids := us; req := rq; requested := r |}.

(* two independent requested steps *)
Definition wp2 : plan := [fg 0 [1] [] true; fg 1 [2] [] true].
(* MULTIPROCESSING, both steps on one object (worker 5) whose children are exactly the two features *)
Definition wc_mp (fl : nat -> option crashpt) : cfg :=
  {| cplan := wp2; mp := true; cstream := false; wof := fun _ => 5; wdrop := fun _ => 5; children := fun _ => [1; 2]; wfail := fl |}.
Definition wc_thr (fl : nat -> option crashpt) : cfg :=
  {| cplan := wp2; mp := false; cstream := false; wof := fun _ => 0; wdrop := fun _ => 0; children := fun _ => []; wfail := fl |}.
Definition nof : nat -> option crashpt := fun _ => None.

Lemma wp2_ok : plan_ok wp2 /\ NoDup (map sid wp2).
Proof. apply (wf_plan_ok (topo_order wp2)). vm_compute. reflexivity. Qed.

(* a complete fault-free MULTIPROCESSING run: two commands, two results, two drop commands, last drop removes the key *)
Definition tr_mp_ok : list label :=
  [OHead; OExec true; OExec true; OEndScan; WTake 5; WUpload 5; WDone 5; WTake 5; WDone 5;
   OHead; OPoll [(5, RDone 0)]; OCollect true; WTake 5; WDropAck 5 false false; ORequeue 5 1; OGot 5;
          OPoll [(5, RDone 1)]; OCollect true; WTake 5; WDropAck 5 true true; OGot 5; OEndScan;
   OHead; OArtifacts true; OTerminate 5; OJoin 5; OClose; ODropAll true].

Lemma ex_mp_ok_l : exists st, exec (wc_mp nof) pinit tr_mp_ok = Some st /\ pc st = PExited XNormal /\ flight st = [] /\
  replies st = [(1, true); (0, true)] /\ results (o st) = [1; 0] /\ phase (ws st 5) = WExited /\ joined (ws st 5) = true.
Proof. eexists. split; [vm_compute; reflexivity|]. vm_compute. repeat split. Qed.

(* THREADING, step 1 fails in its thread while step 0 succeeds: raised at the next loop head, both threads joined *)
Definition fail1 : nat -> option crashpt := fun s => if Nat.eqb s 1 then Some CCalc else None.
Definition tr_thr_fail : list label :=
  [OHead; OExec true; OExec true; WFail 1 CCalc; OEndScan; WDone 0; OHead; OArtifacts true; OJoin 0; OJoin 1; OClose; ODropAll true].
Lemma ex_thr_fail_l : exists st, exec (wc_thr fail1) pinit tr_thr_fail = Some st /\ pc st = PExited XRaisedHead /\
  failed (o st) = [1] /\ done (o st) = [0] /\ results (o st) = [] /\ joined (ws st 0) = true /\ joined (ws st 1) = true.
Proof. eexists. split; [vm_compute; reflexivity|]. vm_compute. repeat split. Qed.

(* ---- crash point CArtifacts: the first statement of the finally block raises -> join() is never reached ---- *)
Definition tr_artifacts : list label := [OHead; OExec true; OExec false; OArtifacts false].
Lemma cleanup_artifacts_refuted_l : exists st, exec (wc_mp nof) pinit tr_artifacts = Some st /\ pc st = PExited XFinallyCrash /\
  In 5 (tasks st) /\ alive (phase (ws st 5)) = true /\ joined (ws st 5) = false /\ terminated (ws st 5) = false /\
  cmdq (ws st 5) = [CStep 0].
Proof. eexists. split; [vm_compute; reflexivity|]. vm_compute. repeat split. left. reflexivity. Qed.

(* ---- crash point CFinalDrop: drop_tables raises in _drop_uploaded_datasets (swallowed) -> the key stays ---- *)
Definition tr_finaldrop : list label :=
  [OHead; OExec true; OExec true; OEndScan; WTake 5; WUpload 5; WDone 5; WTake 5; WDone 5;
   OHead; OPoll [(5, RDone 0)]; OCollect true; WTake 5; WDropAck 5 false false; ORequeue 5 1; OGot 5;
          OPoll [(5, RDone 1)]; OCollect true; WTake 5; WDropAck 5 true false; OGot 5; OEndScan;
   OHead; OArtifacts true; OTerminate 5; OJoin 5; OClose; ODropAll false].
Lemma store_leak_final_drop_refuted_l : exists st, exec (wc_mp nof) pinit tr_finaldrop = Some st /\ pc st = PExited XNormal /\
  flight st = [5] /\ dropfail st = true.
Proof. eexists. split; [vm_compute; reflexivity|]. vm_compute. repeat split. Qed.

(* ---- crash point CWorkerDrop: the worker dies in _handle_data_dropping (outside its try): nothing is reported, the main
        thread waits 5 s and goes on, the call returns normally ---- *)
Definition tr_workerdrop : list label :=
  [OHead; OExec true; OExec true; OEndScan; WTake 5; WUpload 5; WDone 5; WTake 5; WDone 5;
   OHead; OPoll [(5, RDone 0)]; OCollect true; WTake 5; WDropAck 5 false false; ORequeue 5 1; OGot 5;
          OPoll [(5, RDone 1)]; OCollect true; WTake 5; WDropCrash 5; OTimeout 5; OEndScan;
   OHead; OArtifacts true; OTerminate 5; OJoin 5; OClose; ODropAll true].
Lemma worker_drop_failure_lost_refuted_l : exists st, exec (wc_mp nof) pinit tr_workerdrop = Some st /\ pc st = PExited XNormal /\
  phase (ws st 5) = WCrashed /\ failed (o st) = [] /\ flight st = [].
Proof. eexists. split; [vm_compute; reflexivity|]. vm_compute. repeat split. Qed.

(* ---- the late DROP_COMPLETE (finding C06-mp-stale-drop-complete, repaired by 10693fe).  NO fault anywhere (oracle = no step
        fails, no crash label): a DROP_COMPLETE that arrives after wait_for_drop_completion timed out is taken by
        poll_result_queues.  Steps 0 and 1 share worker 5, step 2 runs on worker 6. ---- *)
Definition wp3 : plan := [fg 0 [1] [] true; fg 1 [2] [] true; fg 2 [3] [] true].
Definition wc_stale : cfg :=
  {| cplan := wp3; mp := true; cstream := false; wof := fun s => if Nat.ltb s 2 then 5 else 6; wdrop := fun s => if Nat.ltb s 2 then 5 else 6;
     children := fun w => if Nat.eqb w 5 then [1; 2; 9] else [3]; wfail := nof |}.
(* up to and including the poll that takes the stale acknowledgement *)
Definition tr_stale_prefix : list label :=
  [OHead; OExec true; OExec true; OExec true; OEndScan; WTake 5; WDone 5; WTake 6;
   OHead; OPoll [(5, RDone 0)]; OCollect true; OTimeout 5; OPoll []; OVisit; OPoll []; OVisit; OEndScan;
   WTake 5; WDone 5; WTake 5; WDropAck 5 false false;
   OHead; OVisit; OPoll [(5, RDone 1)]; OCollect true; OGot 5; OPoll []; OVisit; OEndScan;
   WTake 5; WDropAck 5 false false;
   OHead; OVisit; OVisit; OPoll [(5, RDropComplete)]].
(* PRE-10693fe behaviour (Model/Worker.v step_old = the code before the repair): UUID(tuple) raises inside the poll, the run
   goes to the finally block and raises although nothing failed.  This history is the regression input of the harness. *)
Definition tr_stale : list label :=
  tr_stale_prefix ++ [OArtifacts true; OTerminate 5; OJoin 5; OTerminate 6; OJoin 6; OClose; ODropAll true].
Lemma stale_drop_complete_old_refuted_l : exists st, exec_old wc_stale pinit tr_stale = Some st /\ pc st = PExited XRaisedBody /\
  failed (o st) = [] /\ replies st = [(1, true); (0, true)] /\ phase (ws st 6) = WKilled.
Proof. eexists. split; [vm_compute; reflexivity|]. vm_compute. repeat split. Qed.
(* the repaired code does not behave like that any more: the old history is not a trace of the model ... *)
Lemma stale_old_history_rejected_l : exec wc_stale pinit tr_stale = None /\ first_bad wc_stale pinit tr_stale 0 = Some (List.length tr_stale_prefix).
Proof. vm_compute. split; reflexivity. Qed.
(* ... the poll consumes the acknowledgement and the run completes: the third step is collected, normal exit, 3 results *)
Definition tr_stale_fixed : list label :=
  tr_stale_prefix ++ [OVisit; OEndScan; WUpload 6; WDone 6;
   OHead; OVisit; OVisit; OPoll [(6, RDone 2)]; OCollect true; WTake 6; WDropAck 6 true true; OGot 6; OEndScan;
   OHead; OArtifacts true; OTerminate 5; OJoin 5; OTerminate 6; OJoin 6; OClose; ODropAll true].
Lemma stale_drop_complete_fixed_l : exists st, exec wc_stale pinit tr_stale_fixed = Some st /\ pc st = PExited XNormal /\
  failed (o st) = [] /\ replies st = [(2, true); (1, true); (0, true)] /\ results (o st) = [2; 1; 0] /\ flight st = [] /\
  resq (ws st 5) = [] /\ phase (ws st 5) = WKilled /\ phase (ws st 6) = WExited.
Proof. eexists. split; [vm_compute; reflexivity|]. vm_compute. repeat split. Qed.
Lemma stale_fixed_fault_free_l : fault_free tr_stale_fixed.
Proof. intros l H. vm_compute in H. repeat (destruct H as [<-|H]; [reflexivity|]). destruct H. Qed.

(* ---- crash point CSend (d86b7a0): the second step cannot be pickled: send_command raises after the first worker was
        started; the run raises, the worker (still holding the first command) is terminated and joined ---- *)
Definition tr_sendfail : list label := [OHead; OExec true; OSendFail; OArtifacts true; OTerminate 5; OJoin 5; OClose; ODropAll true].
Lemma ex_sendfail_l : exists st, exec (wc_mp nof) pinit tr_sendfail = Some st /\ pc st = PExited XRaisedBody /\
  sent st = [(5, 0)] /\ phase (ws st 5) = WKilled /\ joined (ws st 5) = true /\ running (o st) = [2; 1].
Proof. eexists. split; [vm_compute; reflexivity|]. vm_compute. repeat split. Qed.
(* ... and when it is the first command for its object: the worker process exists although nothing was ever sent to it *)
Definition tr_sendfail_new : list label := [OHead; OSendFail; OArtifacts true; OTerminate 5; OJoin 5; OClose; ODropAll true].
Lemma ex_sendfail_new_l : exists st, exec (wc_mp nof) pinit tr_sendfail_new = Some st /\ pc st = PExited XRaisedBody /\
  sent st = [] /\ tasks st = [5] /\ phase (ws st 5) = WKilled /\ joined (ws st 5) = true.
Proof. eexists. split; [vm_compute; reflexivity|]. vm_compute. repeat split. Qed.

Lemma wp3_ok : plan_ok wp3 /\ NoDup (map sid wp3).
Proof. apply (wf_plan_ok (topo_order wp3)). vm_compute. reflexivity. Qed.

(* ---- a stream closed in the middle of a drain: both steps are collected in one scan, the consumer takes the first item
        (the most recently collected: dict.popitem) and closes the generator: the other result is never delivered; clean-up as
        on every exit ---- *)
Definition wc_thr_stream : cfg :=
  {| cplan := wp2; mp := false; cstream := true; wof := fun _ => 0; wdrop := fun _ => 0; children := fun _ => []; wfail := nof |}.
Definition tr_partial_prefix : list label :=
  [OHead; OExec true; OExec true; OEndScan; WDone 0; WDone 1; OHead; OPoll []; OCollect true; OPoll []; OCollect true; OEndScan].
Definition tr_partial_abandon : list label := tr_partial_prefix ++ [OAbandon; OArtifacts true; OJoin 0; OJoin 1; OClose; ODropAll true].
Lemma ex_partial_abandon_l : exists st, exec wc_thr_stream pinit tr_partial_abandon = Some st /\ pc st = PExited XAbandon /\
  yielded (o st) = [1; 0] /\ undelivered st = [0] /\ joined (ws st 0) = true /\ joined (ws st 1) = true.
Proof. eexists. split; [vm_compute; reflexivity|]. vm_compute. repeat split. Qed.
(* the same run consumed to the end: second item, then the loop head finds everything finished *)
Definition tr_partial_full : list label := tr_partial_prefix ++ [ONext; OResume; OHead; OArtifacts true; OJoin 0; OJoin 1; OClose; ODropAll true].
Lemma ex_partial_full_l : exists st, exec wc_thr_stream pinit tr_partial_full = Some st /\ pc st = PExited XNormal /\
  yielded (o st) = [1; 0] /\ undelivered st = [].
Proof. eexists. split; [vm_compute; reflexivity|]. vm_compute. repeat split. Qed.

(* the projection of the fault-free run onto Orch.v events, and its outcome *)
Lemma ex_projection_l : fst (proj (wc_mp nof) pinit tr_mp_ok ([], [])) = [EScan; EDone 0 true; EDone 1 true; EScan] /\
  loop_head wp2 (run false false nofail wp2 (fst (proj (wc_mp nof) pinit tr_mp_ok ([], [])))) = ExitNormal.
Proof. vm_compute. split; reflexivity. Qed.
