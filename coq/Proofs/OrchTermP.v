(* Termination / progress of the orchestrator loop model (Model/Orch.v), on top of the invariants of Proofs/OrchP.v.

     wf_plan_props         what the boolean check wf_plan gives propositionally
     no_deadlock           any back end: a looping, failure-free state either has a step still executing or the
                           next scan makes progress (the measure mu strictly increases)
     terminates_sync       SYNC back end without failures: the loop exits normally within 2*|p|+1 scans
     dangling_never_exits  a requirement produced by no step blocks the normal exit for ever

   Everything is closed under the global context (see the Print Assumptions at the end). *)
From Coq Require Import List Bool Arith Lia Permutation.
Import ListNotations.
Require Import MV.Model.Orch MV.Proofs.OrchP.

(* ---------- list helpers ---------- *)
Lemma nodupb_NoDup : forall l, nodupb l = true -> NoDup l.
Proof.
  intros l. induction l as [|x t IH]; intros H; [constructor|].
  cbn in H. apply andb_true_iff in H. destruct H as [Hx Ht].
  apply negb_true_iff in Hx. apply mem_false in Hx.
  constructor; [exact Hx | apply IH; exact Ht].
Qed.

Lemma NoDup_map_inj : forall (A : Type) (f : A -> nat) (l : list A), NoDup (map f l) ->
  forall x y, In x l -> In y l -> f x = f y -> x = y.
Proof.
  intros A f l. induction l as [|a t IH]; intros Hnd x y Hx Hy E; [destruct Hx|].
  cbn in Hnd. apply NoDup_cons_iff in Hnd. destruct Hnd as [Hna Hnt].
  destruct Hx as [Hx|Hx]; destruct Hy as [Hy|Hy].
  - subst x y. reflexivity.
  - subst x. exfalso. apply Hna. rewrite E. apply in_map. exact Hy.
  - subst y. exfalso. apply Hna. rewrite <- E. apply in_map. exact Hx.
  - apply IH; assumption.
Qed.

Lemma NoDup_app_disj : forall (a b : list nat) u, NoDup (a ++ b) -> In u a -> In u b -> False.
Proof.
  intros a. induction a as [|x a IH]; intros b u Hnd Ha Hb; [destruct Ha|].
  cbn in Hnd. apply NoDup_cons_iff in Hnd. destruct Hnd as [Hnx Hnt]. destruct Ha as [Ha|Ha].
  - subst x. apply Hnx. apply in_or_app. right. exact Hb.
  - exact (IH b u Hnt Ha Hb).
Qed.

Lemma NoDup_app_tail : forall (a b : list nat), NoDup (a ++ b) -> NoDup b.
Proof.
  intros a. induction a as [|x a IH]; intros b Hnd; [exact Hnd|].
  cbn in Hnd. apply NoDup_cons_iff in Hnd. destruct Hnd as [_ Hnt]. apply IH. exact Hnt.
Qed.

Lemma NoDup_flat_map_disj : forall (A : Type) (f : A -> list nat) (l : list A), NoDup (flat_map f l) ->
  forall x y u, In x l -> In y l -> In u (f x) -> In u (f y) -> x = y.
Proof.
  intros A f l. induction l as [|a t IH]; intros Hnd x y u Hx Hy Hux Huy; [destruct Hx|].
  cbn in Hnd. destruct Hx as [Hx|Hx]; destruct Hy as [Hy|Hy].
  - subst x y. reflexivity.
  - subst x. exfalso. apply (NoDup_app_disj _ _ u Hnd Hux). apply in_flat_map. exists y. split; assumption.
  - subst y. exfalso. apply (NoDup_app_disj _ _ u Hnd Huy). apply in_flat_map. exists x. split; assumption.
  - apply (IH (NoDup_app_tail _ _ Hnd) x y u); assumption.
Qed.

Lemma filter_len_mono : forall (A : Type) (f g : A -> bool) (l : list A),
  (forall x, In x l -> f x = true -> g x = true) -> length (filter f l) <= length (filter g l).
Proof.
  intros A f g l. induction l as [|a t IH]; intros H; [apply le_n|]. cbn.
  assert (IH' : length (filter f t) <= length (filter g t)).
  { apply IH. intros x Hx. apply H. right. exact Hx. }
  destruct (f a) eqn:Ef.
  - rewrite (H a (or_introl eq_refl) Ef). cbn. lia.
  - destruct (g a); cbn; lia.
Qed.

Lemma filter_len_strict : forall (A : Type) (f g : A -> bool) (l : list A),
  (forall x, In x l -> f x = true -> g x = true) ->
  (exists x, In x l /\ f x = false /\ g x = true) -> length (filter f l) < length (filter g l).
Proof.
  intros A f g l. induction l as [|a t IH]; intros H [x [Hx [Hf Hg]]]; [destruct Hx|]. cbn.
  assert (Ht : forall y, In y t -> f y = true -> g y = true).
  { intros y Hy. apply H. right. exact Hy. }
  destruct Hx as [Hx|Hx].
  - subst x. rewrite Hf, Hg. cbn. pose proof (filter_len_mono A f g t Ht) as Hm. lia.
  - assert (IH' : length (filter f t) < length (filter g t)).
    { apply IH; [exact Ht|]. exists x. repeat split; assumption. }
    destruct (f a) eqn:Ef.
    + rewrite (H a (or_introl eq_refl) Ef). cbn. lia.
    + destruct (g a); cbn; lia.
Qed.

Lemma filter_len_le : forall (A : Type) (f : A -> bool) (l : list A), length (filter f l) <= length l.
Proof.
  intros A f l. induction l as [|a t IH]; [apply le_n|]. cbn. destruct (f a); cbn; lia.
Qed.

Lemma repeat_snoc : forall (A : Type) (a : A) n, repeat a (S n) = repeat a n ++ [a].
Proof.
  intros A a n. induction n as [|n IH]; [reflexivity|].
  change (a :: repeat a (S n) = (a :: repeat a n) ++ [a]). rewrite IH at 1. reflexivity.
Qed.

Lemma nonempty_In : forall (A : Type) (l : list A), l <> [] -> exists x, In x l.
Proof. intros A l H. destruct l as [|x t]; [congruence | exists x; left; reflexivity]. Qed.

Lemma subset_false_In : forall a b u, In u a -> ~ In u b -> subset a b = false.
Proof.
  intros a b u Hu Hn. destruct (subset a b) eqn:E; [|reflexivity].
  exfalso. apply Hn. apply subset_incl in E. apply E. exact Hu.
Qed.

(* ---------- 1. what wf_plan means ---------- *)
Theorem wf_plan_props : forall order p, wf_plan order p = true ->
  (forall s s', In s p -> In s' p -> sid s = sid s' -> s = s') /\
  (forall s, In s p -> uuids s <> []) /\
  (forall s s' u, In s p -> In s' p -> In u (uuids s) -> In u (uuids s') -> s = s') /\
  (forall s u, In s p -> In u (req s) -> exists s', In s' p /\ In u (uuids s')) /\
  (forall s u, In s p -> In u (req s) ->
     exists s' i j, In s' p /\ In u (uuids s') /\
                    pos (sid s) order = Some i /\ pos (sid s') order = Some j /\ j < i).
Proof.
  intros order p H. unfold wf_plan in H.
  apply andb_true_iff in H. destruct H as [H Hord].
  apply andb_true_iff in H. destruct H as [H Hprod].
  apply andb_true_iff in H. destruct H as [H Hndu].
  apply andb_true_iff in H. destruct H as [Hne Hnds].
  assert (Hearlier : forall s u, In s p -> In u (req s) ->
     exists s' i j, In s' p /\ In u (uuids s') /\
                    pos (sid s) order = Some i /\ pos (sid s') order = Some j /\ j < i).
  { intros s u Hs Hu. unfold respects_order in Hord. rewrite forallb_forall in Hord. specialize (Hord s Hs).
    destruct (pos (sid s) order) as [i|] eqn:Ei; [|discriminate].
    rewrite forallb_forall in Hord. specialize (Hord u Hu).
    destruct (find_producer p u) as [s'|] eqn:Ef; [|discriminate].
    destruct (pos (sid s') order) as [j|] eqn:Ej; [|discriminate].
    apply Nat.ltb_lt in Hord. unfold find_producer in Ef. apply find_some in Ef. destruct Ef as [Hin Hm].
    apply mem_In in Hm. exists s', i, j. repeat split; assumption. }
  split; [|split; [|split; [|split]]].
  - apply NoDup_map_inj. apply nodupb_NoDup. exact Hnds.
  - intros s Hs E. rewrite forallb_forall in Hne. specialize (Hne s Hs). rewrite E in Hne. discriminate.
  - intros s s' u Hs Hs' Hu Hu'. apply nodupb_NoDup in Hndu. unfold all_uuids in Hndu.
    exact (NoDup_flat_map_disj step uuids p Hndu s s' u Hs Hs' Hu Hu').
  - intros s u Hs Hu. destruct (Hearlier s u Hs Hu) as (s' & i & j & Hin & Hus & _).
    exists s'. split; assumption.
  - exact Hearlier.
Qed.

Lemma wf_plan_pos : forall order p, wf_plan order p = true ->
  forall s, In s p -> exists i, pos (sid s) order = Some i.
Proof.
  intros order p H s Hs. unfold wf_plan in H. apply andb_true_iff in H. destruct H as [_ Hord].
  unfold respects_order in Hord. rewrite forallb_forall in Hord. specialize (Hord s Hs).
  destruct (pos (sid s) order) as [i|]; [exists i; reflexivity | discriminate].
Qed.

(* ---------- the progress measure ---------- *)
Definition is_fin (st : ost) (s : step) : bool := subset (uuids s) (finished st).
Definition fin_count (p : plan) (st : ost) : nat := length (filter (is_fin st) p).
(* number of finished steps + number of starts *)
Definition mu (p : plan) (st : ost) : nat := fin_count p st + length (started st).

Lemma fin_count_le : forall p st st', incl (finished st) (finished st') -> fin_count p st <= fin_count p st'.
Proof.
  intros p st st' Hi. unfold fin_count. apply filter_len_mono. intros x _ Hx. unfold is_fin in *.
  apply subset_incl. apply subset_incl in Hx. intros u Hu. apply Hi, Hx, Hu.
Qed.

Lemma fin_count_eq : forall p st st', finished st' = finished st -> fin_count p st' = fin_count p st.
Proof. intros p st st' E. unfold fin_count, is_fin. rewrite E. reflexivity. Qed.

Lemma mu_lt_finish : forall p st st' s, In s p -> subset (uuids s) (finished st) = false ->
  incl (finished st) (finished st') -> incl (uuids s) (finished st') -> started st' = started st ->
  mu p st < mu p st'.
Proof.
  intros p st st' s Hs Hf Hi Hu Est. unfold mu. rewrite Est.
  assert (Hlt : fin_count p st < fin_count p st').
  { unfold fin_count. apply filter_len_strict.
    - intros x _ Hx. unfold is_fin in *. apply subset_incl. apply subset_incl in Hx. intros u Hux. apply Hi, Hx, Hux.
    - exists s. split; [exact Hs|]. unfold is_fin. split; [exact Hf | apply subset_incl; exact Hu]. }
  lia.
Qed.

Lemma mu_lt_start : forall p st st' e, finished st' = finished st -> started st' = e :: started st ->
  mu p st < mu p st'.
Proof.
  intros p st st' e Ef Est. unfold mu. rewrite (fin_count_eq p st st' Ef), Est. cbn. lia.
Qed.

Lemma mu_bump : forall p st, mu p (bump st) = mu p st.
Proof. intros p st. reflexivity. Qed.
Lemma mu_drain : forall p st, mu p (drain st) = mu p st.
Proof. intros p st. reflexivity. Qed.

Section Progress.
  Variables (stream inline : bool) (fails : nat -> bool) (p : plan).
  Notation visit := (visit inline fails).
  Notation run := (run stream inline fails p).

  (* a visit either changes nothing or strictly increases mu *)
  Lemma mu_visit : forall st s, In s p -> visit st s = st \/ mu p st < mu p (visit st s).
  Proof.
    intros st s Hs. destruct (visit_cases inline fails st s) as [|Hdone Hc Hf|d f Hrq Hdj Hc Hf _ _ _ _].
    - left. reflexivity.
    - right. apply (mu_lt_finish p st _ s Hs Hf); cbn.
      + apply incl_appr, incl_refl.
      + apply incl_appl, incl_refl.
      + reflexivity.
    - right. apply (mu_lt_start p st _ (sid s, (finished st, done st))); reflexivity.
  Qed.

  Lemma mu_visit_le : forall st s, In s p -> mu p st <= mu p (visit st s).
  Proof. intros st s Hs. destruct (mu_visit st s Hs) as [E|H]; [rewrite E; apply le_n | lia]. Qed.

  Lemma mu_fold_le : forall l st, incl l p -> mu p st <= mu p (fold_left visit l st).
  Proof.
    intros l. induction l as [|x l IH]; intros st Hl; [apply le_n|]. cbn.
    assert (Hx : In x p) by (apply Hl; left; reflexivity).
    assert (Hl' : incl l p) by (intros y Hy; apply Hl; right; exact Hy).
    pose proof (mu_visit_le st x Hx) as H1. pose proof (IH (visit st x) Hl') as H2. lia.
  Qed.

  Lemma mu_fold_lt : forall l st, incl l p -> (exists s, In s l /\ mu p st < mu p (visit st s)) ->
    mu p st < mu p (fold_left visit l st).
  Proof.
    intros l. induction l as [|x l IH]; intros st Hl [s [Hs Hlt]]; [destruct Hs|]. cbn.
    assert (Hx : In x p) by (apply Hl; left; reflexivity).
    assert (Hl' : incl l p) by (intros y Hy; apply Hl; right; exact Hy).
    destruct (mu_visit st x Hx) as [E|Hx_lt].
    - rewrite E. destruct Hs as [Hs|Hs].
      + subst x. rewrite E in Hlt. lia.
      + apply IH; [exact Hl'|]. exists s. split; assumption.
    - pose proof (mu_fold_le l (visit st x) Hl') as H2. lia.
  Qed.

  Lemma mu_scan_lt : forall st, loop_head p st = Looping ->
    (exists s, In s p /\ mu p st < mu p (visit st s)) -> mu p st < mu p (scan stream inline fails p st).
  Proof.
    intros st Hl Hex. unfold scan. rewrite Hl.
    pose proof (mu_fold_lt p st (incl_refl p) Hex) as H.
    destruct stream; [rewrite mu_drain|]; rewrite mu_bump; exact H.
  Qed.

  Lemma run_snoc : forall es e, run (es ++ [e]) = apply stream inline fails p (run es) e.
  Proof. intros es e. unfold Orch.run. rewrite fold_left_app. reflexivity. Qed.

  Hypothesis sid_inj : forall s s', In s p -> In s' p -> sid s = sid s' -> s = s'.
  Hypothesis uuids_nonempty : forall s, In s p -> uuids s <> [].
  Hypothesis uuids_disjoint : forall s s' u, In s p -> In s' p -> In u (uuids s) -> In u (uuids s') -> s = s'.

  (* a step that is not finished and whose requirements are finished either is still executing or its visit
     makes progress *)
  Lemma ready_progress : forall st s0, I3 p st -> In s0 p ->
    subset (uuids s0) (finished st) = false -> subset (req s0) (finished st) = true ->
    (In (sid s0) (started_ids st) /\ ~ In (sid s0) (done st)) \/ mu p st < mu p (visit st s0).
  Proof.
    intros st s0 HI3 Hs0 Hf Hrq. pose proof HI3 as [_ H3]. destruct (cur_running s0 st) eqn:Ec.
    - destruct (mem (sid s0) (done st)) eqn:Ed.
      + right. unfold Orch.visit. rewrite Hf, Ec, Ed. apply (mu_lt_finish p st _ s0 Hs0 Hf); cbn.
        * apply incl_appr, incl_refl.
        * apply incl_appl, incl_refl.
        * reflexivity.
      + left. split; [|apply mem_false; exact Ed].
        destruct (in_dec Nat.eq_dec (sid s0) (started_ids st)) as [Hin|Hnin]; [exact Hin|]. exfalso.
        destruct (cur_running_In s0 st Ec) as [u [Hu Hr]].
        exact (proj1 (proj2 (H3 s0 Hs0) Hnin u Hu) Hr).
    - right. pose proof (not_started_when_startable p uuids_nonempty st s0 HI3 Hs0 Ec Hf) as Hnin.
      assert (Hdj : disjoint (uuids s0) (running st) = true).
      { apply disjoint_spec. intros u Hu. exact (proj1 (proj2 (H3 s0 Hs0) Hnin u Hu)). }
      unfold Orch.visit. rewrite Hf, Ec, Hrq, Hdj. cbn [andb].
      apply (mu_lt_start p st _ (sid s0, (finished st, done st))); reflexivity.
  Qed.

  (* number of starts is bounded by the plan *)
  Lemma started_bound : forall es, length (started (run es)) <= length p.
  Proof.
    intros es. pose proof (start_once_l stream inline fails p sid_inj uuids_nonempty uuids_disjoint es) as Hnd.
    assert (Hi : incl (started_ids (run es)) (map sid p)).
    { intros x Hx. unfold started_ids in Hx. apply in_map_iff in Hx. destruct Hx as [e [Ee He]].
      pose proof (start_requires_l stream inline fails p es e He) as Hok.
      destruct e as [i [fs ds]]. cbn in Ee. subst x. cbn in Hok. destruct Hok as (s & Hs & Es & _).
      apply in_map_iff. exists s. split; assumption. }
    pose proof (NoDup_incl_length Hnd Hi) as Hlen. unfold started_ids in Hlen. rewrite !map_length in Hlen. exact Hlen.
  Qed.

  Lemma mu_bound : forall es, mu p (run es) <= 2 * length p.
  Proof.
    intros es. unfold mu, fin_count. pose proof (filter_len_le step (is_fin (run es)) p) as H1.
    pose proof (started_bound es) as H2. lia.
  Qed.
End Progress.

(* ---------- choosing a ready step ---------- *)
Section Ready.
  Variables (order : list nat) (p : plan).
  Hypothesis Hwf : wf_plan order p = true.

  (* from any unfinished step, walking down the wait-for relation reaches an unfinished step whose requirements
     are all finished: the walk strictly decreases the position in `order` *)
  Lemma pick_ready : forall (fin : list nat) n s, In s p -> pos (sid s) order = Some n -> subset (uuids s) fin = false ->
    exists s0, In s0 p /\ subset (uuids s0) fin = false /\ subset (req s0) fin = true.
  Proof.
    intros fin n. induction n as [n IH] using lt_wf_ind. intros s Hs Hpos Hf.
    destruct (subset (req s) fin) eqn:Erq.
    - exists s. repeat split; assumption.
    - destruct (not_subset _ _ Erq) as [u [Hu Hn]].
      destruct (wf_plan_props order p Hwf) as (_ & _ & _ & _ & Hearlier).
      destruct (Hearlier s u Hs Hu) as (s' & i & j & Hs' & Hus' & Hi & Hj & Hlt).
      rewrite Hpos in Hi. injection Hi as Hi. subst i.
      apply (IH j Hlt s' Hs' Hj). exact (subset_false_In _ _ u Hus' Hn).
  Qed.

  Lemma looping_unfinished : forall st, p <> [] -> loop_head p st = Looping ->
    exists s, In s p /\ subset (uuids s) (finished st) = false.
  Proof.
    intros st Hp Hl. destruct (wf_plan_props order p Hwf) as (_ & Hne & _).
    unfold loop_head in Hl. destruct (failed st) as [|x0 t0]; [|discriminate].
    destruct (finished st) as [|a l] eqn:Efin.
    - destruct (nonempty_In step p Hp) as [s Hs]. exists s. split; [exact Hs|].
      pose proof (Hne s Hs) as Hus. destruct (uuids s) as [|u us]; [congruence | reflexivity].
    - destruct (subset (all_uuids p) (a :: l)) eqn:Esub; [discriminate|].
      destruct (not_subset _ _ Esub) as [u [Hu Hn]]. unfold all_uuids in Hu. apply in_flat_map in Hu.
      destruct Hu as [s [Hs Hus]]. exists s. split; [exact Hs|]. exact (subset_false_In _ _ u Hus Hn).
  Qed.

  Lemma looping_ready : forall st, p <> [] -> loop_head p st = Looping ->
    exists s0, In s0 p /\ subset (uuids s0) (finished st) = false /\ subset (req s0) (finished st) = true.
  Proof.
    intros st Hp Hl. destruct (looping_unfinished st Hp Hl) as [s [Hs Hf]].
    destruct (wf_plan_pos order p Hwf s Hs) as [n Hn]. exact (pick_ready (finished st) n s Hs Hn Hf).
  Qed.
End Ready.

(* ---------- 3. no deadlock: fairness form of termination, any back end ---------- *)
Theorem no_deadlock : forall order stream inline fails p es,
  wf_plan order p = true -> p <> [] ->
  failed (run stream inline fails p es) = [] ->
  loop_head p (run stream inline fails p es) = Looping ->
  (exists s, In s (started_ids (run stream inline fails p es)) /\ ~ In s (done (run stream inline fails p es))) \/
  mu p (run stream inline fails p es) < mu p (run stream inline fails p (es ++ [EScan])).
Proof.
  intros order stream inline fails p es Hwf Hp _ Hl.
  destruct (wf_plan_props order p Hwf) as (Hinj & Hne & Hdj & _ & _).
  destruct (I23_run stream inline fails p Hinj Hne Hdj es) as [HI3 _].
  destruct (looping_ready order p Hwf _ Hp Hl) as (s0 & Hs0 & Hf & Hrq).
  destruct (ready_progress inline fails p Hne _ s0 HI3 Hs0 Hf Hrq) as [[Hst Hnd]|Hlt].
  - left. exists (sid s0). split; assumption.
  - right. rewrite run_snoc. cbn [apply]. apply mu_scan_lt; [exact Hl|]. exists s0. split; assumption.
Qed.

(* ---------- 2. SYNC back end without failures terminates normally ---------- *)
Lemma sync_inv : forall stream p,
  (forall s s', In s p -> In s' p -> sid s = sid s' -> s = s') ->
  (forall s, In s p -> uuids s <> []) ->
  (forall s s' u, In s p -> In s' p -> In u (uuids s) -> In u (uuids s') -> s = s') ->
  forall es, failed (run stream true (fun _ => false) p es) = [] /\
             incl (started_ids (run stream true (fun _ => false) p es)) (done (run stream true (fun _ => false) p es)).
Proof.
  intros stream p Hinj Hne Hdj es.
  destruct (I23_run stream true (fun _ => false) p Hinj Hne Hdj es) as [_ (_ & _ & _ & H4 & H5)].
  assert (Hf : failed (run stream true (fun _ => false) p es) = []).
  { destruct (failed (run stream true (fun _ => false) p es)) as [|x t] eqn:E; [reflexivity|].
    exfalso. specialize (H4 eq_refl x (or_introl eq_refl)). discriminate. }
  split; [exact Hf|]. intros x Hx. destruct (H5 eq_refl x Hx) as [Hd|Hfl]; [exact Hd|].
  rewrite Hf in Hfl. destruct Hfl.
Qed.

Theorem terminates_sync : forall order stream p, p <> [] -> wf_plan order p = true ->
  exists n, n <= 2 * length p + 1 /\
            loop_head p (run stream true (fun _ => false) p (repeat EScan n)) = ExitNormal.
Proof.
  intros order stream p Hp Hwf.
  destruct (wf_plan_props order p Hwf) as (Hinj & Hne & Hdj & _ & _).
  set (R := fun k => run stream true (fun _ => false) p (repeat EScan k)).
  assert (Hclaim : forall k, (exists j, j <= k /\ loop_head p (R j) = ExitNormal) \/ k <= mu p (R k)).
  { intros k. induction k as [|k IH]; [right; lia|].
    destruct IH as [[j [Hj He]]|Hmu]; [left; exists j; split; [lia | exact He]|].
    destruct (sync_inv stream p Hinj Hne Hdj (repeat EScan k)) as [Hfl Hsd].
    destruct (loop_head p (R k)) eqn:El.
    - right. destruct (no_deadlock order stream true (fun _ => false) p (repeat EScan k) Hwf Hp Hfl El)
        as [[x [Hx Hnd]]|Hlt].
      + exfalso. apply Hnd, Hsd, Hx.
      + unfold R. rewrite repeat_snoc. fold (R k) in Hlt. lia.
    - left. exists k. split; [lia | exact El].
    - exfalso. unfold R, loop_head in El. rewrite Hfl in El.
      destruct (finished (run stream true (fun _ => false) p (repeat EScan k))) as [|a l]; [discriminate|].
      destruct (subset (all_uuids p) (a :: l)); discriminate. }
  destruct (Hclaim (2 * length p + 1)) as [[j [Hj He]]|Hmu].
  - exists j. split; [exact Hj | exact He].
  - exfalso. pose proof (mu_bound stream true (fun _ => false) p Hinj Hne Hdj (repeat EScan (2 * length p + 1))) as Hb.
    unfold R in Hmu. lia.
Qed.

(* once the loop has exited, further scans change nothing: the exit is final *)
Lemma exit_final : forall stream inline fails p es k,
  loop_head p (run stream inline fails p es) = ExitNormal ->
  run stream inline fails p (es ++ repeat EScan k) = run stream inline fails p es.
Proof.
  intros stream inline fails p es k He. induction k as [|k IH]; [rewrite app_nil_r; reflexivity|].
  rewrite repeat_snoc, app_assoc, run_snoc, IH. cbn [apply]. unfold scan. rewrite He. reflexivity.
Qed.

(* ---------- 4. a requirement nobody produces blocks the normal exit for ever ---------- *)
Theorem dangling_never_exits : forall stream inline fails p es s u,
  (forall s s', In s p -> In s' p -> sid s = sid s' -> s = s') ->
  (forall s, In s p -> uuids s <> []) ->
  (forall s s' u, In s p -> In s' p -> In u (uuids s) -> In u (uuids s') -> s = s') ->
  In s p -> In u (req s) -> produced p u = false ->
  loop_head p (run stream inline fails p es) <> ExitNormal.
Proof.
  intros stream inline fails p es s u Hinj Hne Hdj Hs Hu Hnp Hex.
  destruct (exit_all_done_l stream inline fails p Hinj Hne Hdj es Hex s Hs) as [Hst _].
  unfold started_ids in Hst. apply in_map_iff in Hst. destruct Hst as [e [Ee He]].
  pose proof (start_requires_l stream inline fails p es e He) as Hok.
  destruct e as [i [fs ds]]. cbn in Ee. subst i. cbn in Hok.
  destruct Hok as (s2 & Hs2 & Es2 & Hrq & Hprod).
  assert (s2 = s) by (apply Hinj; assumption). subst s2.
  destruct (Hprod u (Hrq u Hu)) as (s' & Hs' & Hus' & _).
  apply mem_false in Hnp. apply Hnp. unfold all_uuids. apply in_flat_map. exists s'. split; assumption.
Qed.

(* the step with the dangling requirement is never even started *)
Lemma dangling_never_starts : forall stream inline fails p es s u,
  (forall s s', In s p -> In s' p -> sid s = sid s' -> s = s') ->
  In s p -> In u (req s) -> produced p u = false ->
  ~ In (sid s) (started_ids (run stream inline fails p es)).
Proof.
  intros stream inline fails p es s u Hinj Hs Hu Hnp Hst.
  unfold started_ids in Hst. apply in_map_iff in Hst. destruct Hst as [e [Ee He]].
  pose proof (start_requires_l stream inline fails p es e He) as Hok.
  destruct e as [i [fs ds]]. cbn in Ee. subst i. cbn in Hok.
  destruct Hok as (s2 & Hs2 & Es2 & Hrq & Hprod).
  assert (s2 = s) by (apply Hinj; assumption). subst s2.
  destruct (Hprod u (Hrq u Hu)) as (s' & Hs' & Hus' & _).
  apply mem_false in Hnp. apply Hnp. unfold all_uuids. apply in_flat_map. exists s'. split; assumption.
Qed.

(* ---------- instances for the canonical order computed by topo_order ---------- *)
Corollary terminates_sync_auto : forall stream p, p <> [] -> wf_plan_auto p = true ->
  exists n, n <= 2 * length p + 1 /\
            loop_head p (run stream true (fun _ => false) p (repeat EScan n)) = ExitNormal.
Proof. intros stream p Hp Hwf. exact (terminates_sync (topo_order p) stream p Hp Hwf). Qed.

Corollary no_deadlock_auto : forall stream inline fails p es,
  wf_plan_auto p = true -> p <> [] ->
  failed (run stream inline fails p es) = [] ->
  loop_head p (run stream inline fails p es) = Looping ->
  (exists s, In s (started_ids (run stream inline fails p es)) /\ ~ In s (done (run stream inline fails p es))) \/
  mu p (run stream inline fails p es) < mu p (run stream inline fails p (es ++ [EScan])).
Proof. intros stream inline fails p es Hwf. exact (no_deadlock (topo_order p) stream inline fails p es Hwf). Qed.

(* ---------- non-vacuity: a small diamond plan, listed in an order that is NOT topological ---------- *)
Definition ex_plan : plan :=
  [ {| sid := 4; skind := KJOIN; uuids := [40; 41]; req := [20; 30]; requested := false |};
    {| sid := 2; skind := KTFS;  uuids := [20];     req := [10];     requested := false |};
    {| sid := 3; skind := KFG;   uuids := [30; 31]; req := [10];     requested := true  |};
    {| sid := 1; skind := KFG;   uuids := [10];     req := [];       requested := false |} ].
Example ex_plan_wf : wf_plan_auto ex_plan = true.
Proof. vm_compute. reflexivity. Qed.
(* reverse listing: one step per scan, the bound 2*|p|+1 = 9 is not reached but more than |p| scans are needed *)
Example ex_plan_exit : loop_head ex_plan (run false true (fun _ => false) ex_plan (repeat EScan 6)) = ExitNormal
                    /\ loop_head ex_plan (run false true (fun _ => false) ex_plan (repeat EScan 5)) = Looping.
Proof. vm_compute. split; reflexivity. Qed.
(* the same plan with the producer of 10 removed has a dangling requirement and is rejected by wf_plan *)
Example ex_dangling : wf_plan_auto (removelast ex_plan) = false /\ produced (removelast ex_plan) 10 = false.
Proof. vm_compute. split; reflexivity. Qed.

Print Assumptions wf_plan_props.
Print Assumptions terminates_sync.
Print Assumptions no_deadlock.
Print Assumptions dangling_never_exits.
