(* Lemmas for C10 about compute-framework IDENTITY vs. NAME (Model/Resolve.v: apient, entry_selects, api_set,
   feature_fw_of_name, resolve_named, names_only; Spec/ResolveRule.v: entry_allows, api_allows, kf_ffw_name_twins). *)
From Coq Require Import List Bool String Arith Lia Permutation.
Require Import MV.Model.Resolve MV.Spec.ResolveRule MV.Proofs.ResolveP.
Import ListNotations.
Open Scope string_scope.
Open Scope list_scope.

(* ---------- what the entries of the API list select ---------- *)
Lemma api_set_char_l : forall e rq s, In s (api_set e rq) <-> In s (existing e) /\ api_allows e rq s.
Proof. intros. rewrite api_set_spec. tauto. Qed.

(* a list made of class objects only selects exactly the listed classes (that exist): never a same-named twin *)
Lemma api_class_entries_l : forall e rq, api rq <> [] -> (forall a, In a (api rq) -> exists x, a = AClass x) ->
  forall s, In s (api_set e rq) <-> In (AClass s) (api rq) /\ In s (existing e).
Proof.
  intros e rq Hne Hc s. rewrite api_set_spec. unfold api_allows. split.
  - intros [[H | [a [Ha Hal]]] Hex]; [contradiction|]. destruct (Hc a Ha) as [x ->]. cbn in Hal. subst x. split; assumption.
  - intros [Ha Hex]. split; [right; exists (AClass s); split; [exact Ha | reflexivity] | exact Hex].
Qed.

Lemma api_class_entry_l : forall e rq x, api rq = [AClass x] ->
  forall s, In s (api_set e rq) <-> s = x /\ In x (existing e).
Proof.
  intros e rq x E s. rewrite (api_class_entries_l e rq).
  - rewrite E. cbn. split.
    + intros [[H | []] Hex]. injection H as ->. split; [reflexivity | exact Hex].
    + intros [-> Hex]. split; [left; reflexivity | exact Hex].
  - rewrite E. discriminate.
  - rewrite E. intros a [<- | []]. exists x. reflexivity.
Qed.

(* a class entry never admits another class, whatever the names are *)
Lemma api_class_entry_excludes_twin_l : forall e rq x y, api rq = [AClass x] -> y <> x -> ~ In y (api_set e rq).
Proof. intros e rq x y E Hne H. apply (api_class_entry_l e rq x E) in H. destruct H as [H _]. contradiction. Qed.

(* a string entry selects every existing class of that name *)
Lemma api_name_entry_l : forall e rq n, api rq = [AName n] ->
  forall s, In s (api_set e rq) <-> In s (existing e) /\ cname e s = n.
Proof.
  intros e rq n E s. rewrite api_set_spec. unfold api_allows. rewrite E. cbn. split.
  - intros [[H | [a [[<- | []] Hal]]] Hex]; [discriminate|]. cbn in Hal. split; assumption.
  - intros [Hex Hn]. split; [right; exists (AName n); split; [now left | exact Hn] | exact Hex].
Qed.

(* ---------- admissibility, spelled out with identities ---------- *)
Lemma framework_admissible_identity_l : forall e u rq n gf, resolve e u rq = Chosen n gf ->
  forall x, In x (feature_fws rq gf) ->
    (api rq = [] \/ exists a, In a (api rq) /\ match a with AName m => cname e x = m | AClass y => x = y end) /\
    In x (existing e) /\ In x (available e) /\
    (exists c, In c u /\ cid c = n /\ match rule c with None => True | Some s => In x s end) /\
    match ffw rq with None => True | Some y => x = y end.
Proof.
  intros e u rq n gf H x Hx. destruct (framework_admissible_l e u rq n gf H) as [c [Hu [En [_ Hc]]]].
  apply Hc in Hx. destruct Hx as [[Ha [Hr [Hex Hav]]] Hf].
  split; [exact Ha|]. split; [exact Hex|]. split; [exact Hav|]. split; [|exact Hf].
  exists c. split; [exact Hu|]. split; [exact En | exact Hr].
Qed.

(* ---------- Feature(compute_framework="N") ---------- *)
Lemma feature_fw_of_name_some_l : forall e n x, feature_fw_of_name e n = Some x -> In x (existing e) /\ cname e x = n.
Proof.
  intros e n x H. unfold feature_fw_of_name in H. apply find_some in H. destruct H as [H1 H2].
  split; [exact H1 | apply Nat.eqb_eq; exact H2].
Qed.

Lemma feature_fw_of_name_none_l : forall e n, feature_fw_of_name e n = None <-> forall x, In x (existing e) -> cname e x <> n.
Proof.
  intros e n. unfold feature_fw_of_name. split.
  - intros H x Hx. apply Nat.eqb_neq. exact (find_none _ _ H x Hx).
  - intros H. destruct (find _ _) as [x|] eqn:E; [|reflexivity]. apply find_some in E. destruct E as [E1 E2].
    apply Nat.eqb_eq in E2. exfalso. exact (H x E1 E2).
Qed.

Lemma find_filter_hd : forall A (f : A -> bool) l, find f l = hd_error (filter f l).
Proof. intros A f l. induction l as [|a l IH]; cbn; [reflexivity|]. destruct (f a); [reflexivity | exact IH]. Qed.

Lemma perm_short : forall A (l l' : list A), Permutation l l' -> match l with _ :: _ :: _ => False | _ => True end -> l = l'.
Proof.
  intros A l l' P H. destruct l as [|a [|b t]]; [| |contradiction].
  - apply Permutation_nil in P. congruence.
  - apply Permutation_length_1_inv in P. congruence.
Qed.

(* outside kf_ffw_name_twins the class found does not depend on the iteration order of the set of framework classes *)
Lemma feature_fw_of_name_order_l : forall e e' n, Permutation (existing e) (existing e') ->
  (forall x, cname e x = cname e' x) -> kf_ffw_name_twins e (Some n) = false ->
  feature_fw_of_name e n = feature_fw_of_name e' n.
Proof.
  intros e e' n P Hn K. unfold feature_fw_of_name. rewrite !find_filter_hd.
  rewrite (filter_ext (fun s => Nat.eqb (cname e' s) n) (fun s => Nat.eqb (cname e s) n)) by (intros; rewrite Hn; reflexivity).
  f_equal. apply perm_short; [apply filter_perm; exact P|]. unfold kf_ffw_name_twins, named in K.
  destruct (filter _ (existing e)) as [|a [|b t]]; [exact I | exact I | discriminate].
Qed.

Lemma with_ffw_None_named : forall e u rq, resolve_named e u rq None = resolve e u (with_ffw rq None).
Proof. reflexivity. Qed.

(* a named feature framework that is answered: the class has that name, exists, and all identity-level theorems apply *)
Lemma resolve_named_chosen_l : forall e u rq n0 g gf, resolve_named e u rq (Some n0) = Chosen g gf ->
  exists x, feature_fw_of_name e n0 = Some x /\ cname e x = n0 /\ In x (existing e) /\
            resolve e u (with_ffw rq (Some x)) = Chosen g gf /\ feature_fws (with_ffw rq (Some x)) gf = [x].
Proof.
  intros e u rq n0 g gf H. unfold resolve_named in H. destruct (feature_fw_of_name e n0) as [x|] eqn:E; [|discriminate].
  destruct (feature_fw_of_name_some_l e n0 x E) as [H1 H2]. exists x. repeat split; try assumption.
Qed.

Lemma resolve_named_unknown_l : forall e u rq n0,
  (forall x, In x (existing e) -> cname e x <> n0) -> resolve_named e u rq (Some n0) = Rejected EFwUnknown.
Proof. intros e u rq n0 H. unfold resolve_named. apply feature_fw_of_name_none_l in H. rewrite H. reflexivity. Qed.

(* ---------- witnesses: two same-named twins 0 and 1 (name 7), framework 2 named 8 ---------- *)
Definition tw_e := {| existing := [0; 1; 2]; available := [0; 1; 2]; cname := fun x => match x with 2 => 8 | _ => 7 end |}.
Definition tw_e' := {| existing := [1; 0; 2]; available := [0; 1; 2]; cname := fun x => match x with 2 => 8 | _ => 7 end |}.
Definition tw_cls i nm r := {| cid := i; supers := []; accepts := [nm]; dom := "default_domain"; rule := r; idxcols := None |}.
(* GA serves "a" on twin 0 only, GB serves "b" on twin 1 only, XA / XB both serve "x" on one twin each, T serves "t" anywhere *)
Definition tw_u := [tw_cls 0 "a" (Some [0]); tw_cls 1 "b" (Some [1]); tw_cls 2 "x" (Some [0]); tw_cls 3 "x" (Some [1]);
                    tw_cls 4 "t" None].
Definition tw_rq a nm := {| api := a; collector := None; fname := nm; fdom := None; ffw := None; links := None |}.

(* the implementation (model): a class entry admits that class only; "normalised to names" admits the twin as well *)
Lemma names_only_refuted_l :
  (* class entry {twin 0} *)
  resolve tw_e tw_u (tw_rq [AClass 0] "a") = Chosen 0 [0] /\
  resolve tw_e tw_u (tw_rq [AClass 0] "b") = Rejected ENoGroup /\
  resolve tw_e tw_u (tw_rq [AClass 0] "x") = Chosen 2 [0] /\
  resolve tw_e tw_u (tw_rq [AClass 0] "t") = Chosen 4 [0] /\
  (* the same request with the class entry replaced by its name: the twin becomes admissible *)
  resolve tw_e tw_u (names_only tw_e (tw_rq [AClass 0] "b")) = Chosen 1 [1] /\
  resolve tw_e tw_u (names_only tw_e (tw_rq [AClass 0] "x")) = Rejected EMultiple /\
  resolve tw_e tw_u (names_only tw_e (tw_rq [AClass 0] "t")) = Chosen 4 [0; 1] /\
  (* ... and twin 1 is NOT a framework the API list {twin 0} admits *)
  ~ api_allows tw_e (tw_rq [AClass 0] "b") 1 /\
  In 1 (api_set tw_e (names_only tw_e (tw_rq [AClass 0] "b"))) /\
  (* a string entry does select both twins *)
  resolve tw_e tw_u (tw_rq [AName 7] "t") = Chosen 4 [0; 1] /\
  resolve tw_e tw_u (tw_rq [AName 7] "b") = Chosen 1 [1].
Proof.
  repeat split; try reflexivity.
  - intros [H | [a [[<- | []] Hal]]]; [discriminate | cbn in Hal; discriminate].
  - cbn. tauto.
Qed.

(* Feature(compute_framework="<name of the twins>"): the class found, and with it answered vs. rejected and the group that
   computes the feature, depends on the iteration order of the set of framework classes *)
Lemma ffw_name_twins_refuted_l :
  Permutation (existing tw_e) (existing tw_e') /\ kf_ffw_name_twins tw_e (Some 7) = true /\
  feature_fw_of_name tw_e 7 = Some 0 /\ feature_fw_of_name tw_e' 7 = Some 1 /\
  resolve_named tw_e tw_u (tw_rq [] "a") (Some 7) = Chosen 0 [0] /\
  resolve_named tw_e' tw_u (tw_rq [] "a") (Some 7) = Rejected ENoGroup /\
  resolve_named tw_e tw_u (tw_rq [] "x") (Some 7) = Chosen 2 [0] /\
  resolve_named tw_e' tw_u (tw_rq [] "x") (Some 7) = Chosen 3 [1] /\
  (* a name carried by one class only is unaffected *)
  kf_ffw_name_twins tw_e (Some 8) = false /\
  resolve_named tw_e tw_u (tw_rq [] "t") (Some 8) = Chosen 4 [0; 1; 2] /\
  resolve_named tw_e' tw_u (tw_rq [] "t") (Some 8) = Chosen 4 [1; 0; 2].
Proof. split; [apply perm_swap | repeat split; reflexivity]. Qed.
