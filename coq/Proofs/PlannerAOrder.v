(* Generic helpers for the planner theorems: numbering of steps, an explicit topological order from a rank function,
   the single group produced by the C15 grouping model on untyped features with one framework. *)
From Coq Require Import List Bool Arith Lia Permutation.
Import ListNotations.
Require Import MV.Model.Orch MV.Model.OrchCheck MV.Model.Grouping MV.Model.PlannerA MV.Spec.PlannerASpec.
Require Import MV.Proofs.OrchP MV.Proofs.OrchTermP MV.Proofs.PlannerASets.

(* ---------- group_features_by_compute_framework_and_options on the fragment ---------- *)
Lemma pass1_untyped : forall its c u, (forall x, In x its -> it_ty x = None) ->
  fold_left pass1_step its (c, u) = (c, u ++ its).
Proof.
  intros its. induction its as [|x its IH]; intros c u H; cbn [fold_left].
  - rewrite app_nil_r. reflexivity.
  - unfold pass1_step at 2. rewrite (H x (or_introl eq_refl)). cbn [fst snd].
    rewrite IH by (intros y Hy; apply H; right; exact Hy). rewrite <- app_assoc. reflexivity.
Qed.

Lemma add_untyped_single : forall its kb pre, pre <> [] -> (forall x, In x pre -> it_kb x = kb) ->
  (forall x, In x its -> it_kb x = kb) ->
  fold_left add_untyped its [((kb, None), pre)] = [((kb, None), pre ++ its)].
Proof.
  intros its. induction its as [|x its IH]; intros kb pre Hne Hpre Hits; cbn [fold_left].
  - rewrite app_nil_r. reflexivity.
  - assert (Hx : it_kb x = kb) by (apply Hits; left; reflexivity).
    assert (Hstep : add_untyped [((kb, None), pre)] x = [((kb, None), pre ++ [x])]).
    { unfold add_untyped. cbn [find]. unfold base_matches. cbn [snd]. destruct pre as [|m pre']; [congruence|].
      cbn [any_base]. rewrite (Hpre m (or_introl eq_refl)), Hx, Nat.eqb_refl. cbn [coll_add].
      assert (Hk : gkey_eqb (kb, None) (kb, None) = true) by (unfold gkey_eqb; cbn; rewrite Nat.eqb_refl; reflexivity).
      rewrite Hk. reflexivity. }
    rewrite Hstep. rewrite IH.
    + rewrite <- app_assoc. reflexivity.
    + intros E. apply app_eq_nil in E. destruct E as [_ E]. discriminate.
    + intros y Hy. apply in_app_iff in Hy. destruct Hy as [Hy|[Hy|[]]]; [apply Hpre; exact Hy | subst y; exact Hx].
    + intros y Hy. apply Hits. right. exact Hy.
Qed.

Theorem group_items_single : forall its, its <> [] -> (forall x, In x its -> it_ty x = None) ->
  (forall x y, In x its -> In y its -> it_kb x = it_kb y) -> group_items its = [its].
Proof.
  intros its Hne Hty Hkb.
  assert (E : pass1 its = ([], its)) by (unfold pass1; apply (pass1_untyped its [] [] Hty)).
  unfold group_items, group_coll. rewrite E. cbv zeta. cbn [fst snd].
  destruct its as [|x its']; [congruence|]. cbn [fold_left].
  assert (Hfirst : add_untyped [] x = [((it_kb x, None), [x])]) by reflexivity.
  rewrite Hfirst. rewrite (add_untyped_single its' (it_kb x) [x]).
  - reflexivity.
  - discriminate.
  - intros y [Hy|[]]. subst y. reflexivity.
  - intros y Hy. apply Hkb; [right; exact Hy | left; reflexivity].
Qed.

(* ---------- numbering ---------- *)
Lemma number_nth : forall p i j, nth_error (number i p) j = option_map (set_sid (i + j)) (nth_error p j).
Proof.
  intros p. induction p as [|s p IH]; intros i j; cbn [number].
  - destruct j; reflexivity.
  - destruct j as [|j]; cbn [nth_error option_map].
    + rewrite Nat.add_0_r. reflexivity.
    + rewrite IH. replace (S i + j) with (i + S j) by lia. reflexivity.
Qed.

Lemma In_number : forall p i s, In s (number i p) -> exists j s0, nth_error p j = Some s0 /\ s = set_sid (i + j) s0.
Proof.
  intros p i s H. apply In_nth_error in H. destruct H as [j Hj]. rewrite number_nth in Hj.
  destruct (nth_error p j) as [s0|] eqn:E; [|discriminate]. cbn in Hj. injection Hj as Hj.
  exists j, s0. split; [exact E | symmetry; exact Hj].
Qed.

Lemma number_In : forall p i j s0, nth_error p j = Some s0 -> In (set_sid (i + j) s0) (number i p).
Proof.
  intros p i j s0 H. apply (nth_error_In _ j). rewrite number_nth, H. reflexivity.
Qed.

Lemma map_sid_number : forall p i, map sid (number i p) = seq i (List.length p).
Proof. intros p. induction p as [|s p IH]; intros i; cbn; [reflexivity | rewrite IH; reflexivity]. Qed.

Lemma all_uuids_number : forall p i, all_uuids (number i p) = flat_map uuids p.
Proof.
  intros p. induction p as [|s p IH]; intros i; cbn [number]; [reflexivity|].
  unfold all_uuids in *. cbn [flat_map]. rewrite IH. reflexivity.
Qed.

Lemma length_number : forall p i, List.length (number i p) = List.length p.
Proof. intros p. induction p as [|s p IH]; intros i; cbn; [reflexivity | rewrite IH; reflexivity]. Qed.

(* ---------- pos ---------- *)
Lemma pos_notin : forall x l, ~ In x l -> pos x l = None.
Proof.
  intros x l. induction l as [|y l IH]; intros H; cbn; [reflexivity|].
  destruct (Nat.eqb x y) eqn:E.
  - exfalso. apply Nat.eqb_eq in E. apply H. left. symmetry. exact E.
  - rewrite IH; [reflexivity | intros Hin; apply H; right; exact Hin].
Qed.

Lemma pos_In : forall x l, In x l -> exists i, pos x l = Some i /\ i < List.length l.
Proof.
  intros x l. induction l as [|y l IH]; intros H; [destruct H|]. cbn.
  destruct (Nat.eqb x y) eqn:E.
  - exists 0. split; [reflexivity | lia].
  - destruct H as [H|H]; [subst y; rewrite Nat.eqb_refl in E; discriminate|].
    destruct (IH H) as [i [Hi Hlt]]. exists (S i). rewrite Hi. split; [reflexivity | lia].
Qed.

Lemma pos_lt : forall x l i, pos x l = Some i -> i < List.length l.
Proof.
  intros x l. induction l as [|y l IH]; intros i H; cbn in H; [discriminate|].
  destruct (Nat.eqb x y).
  - injection H as H. subst i. cbn. lia.
  - destruct (pos x l) as [j|] eqn:E; [|discriminate]. cbn in H. injection H as H. subst i. specialize (IH j eq_refl). cbn. lia.
Qed.

Lemma pos_app_l : forall x a b i, pos x a = Some i -> pos x (a ++ b) = Some i.
Proof.
  intros x a. induction a as [|y a IH]; intros b i H; cbn in *; [discriminate|].
  destruct (Nat.eqb x y); [exact H|].
  destruct (pos x a) as [j|] eqn:E; [|discriminate]. rewrite (IH b j eq_refl). exact H.
Qed.

Lemma pos_app_r : forall x a b j, pos x a = None -> pos x b = Some j -> pos x (a ++ b) = Some (List.length a + j).
Proof.
  intros x a. induction a as [|y a IH]; intros b j Ha Hb; cbn in *; [exact Hb|].
  destruct (Nat.eqb x y); [discriminate|].
  destruct (pos x a) as [k|] eqn:E; [discriminate|]. rewrite (IH b j eq_refl Hb). reflexivity.
Qed.

(* ---------- a topological order from a rank on step ids ---------- *)
Definition bucket (p : plan) (rk : nat -> nat) (r : nat) : list nat := map sid (filter (fun s => Nat.eqb (rk (sid s)) r) p).
Definition order_upto (p : plan) (rk : nat -> nat) (n : nat) : list nat := flat_map (bucket p rk) (seq 0 n).

Lemma order_upto_S : forall p rk n, order_upto p rk (S n) = order_upto p rk n ++ bucket p rk n.
Proof.
  intros p rk n. unfold order_upto. rewrite seq_S, flat_map_app. cbn. rewrite app_nil_r. reflexivity.
Qed.

Lemma order_upto_sound : forall p rk n x, In x (order_upto p rk n) -> exists s, In s p /\ sid s = x /\ rk x < n.
Proof.
  intros p rk n. induction n as [|n IH]; intros x H; [destruct H|].
  rewrite order_upto_S in H. apply in_app_iff in H. destruct H as [H|H].
  - destruct (IH x H) as [s [Hs [E Hlt]]]. exists s. repeat split; [exact Hs | exact E | lia].
  - unfold bucket in H. apply in_map_iff in H. destruct H as [s [E Hs]]. apply filter_In in Hs. destruct Hs as [Hs Hr].
    apply Nat.eqb_eq in Hr. exists s. repeat split; [exact Hs | exact E | subst x; lia].
Qed.

Lemma order_upto_pos : forall p rk n s, In s p -> rk (sid s) < n ->
  exists i, pos (sid s) (order_upto p rk n) = Some i /\
            forall s', In s' p -> rk (sid s') < rk (sid s) -> exists j, pos (sid s') (order_upto p rk n) = Some j /\ j < i.
Proof.
  intros p rk n. induction n as [|n IH]; intros s Hs Hlt; [lia|].
  rewrite order_upto_S. destruct (Nat.eq_dec (rk (sid s)) n) as [E|E].
  - assert (Hnot : ~ In (sid s) (order_upto p rk n)).
    { intros H. destruct (order_upto_sound p rk n _ H) as [_ [_ [_ Hl]]]. lia. }
    assert (Hb : In (sid s) (bucket p rk n)).
    { unfold bucket. apply in_map. apply filter_In. split; [exact Hs | apply Nat.eqb_eq; exact E]. }
    destruct (pos_In _ _ Hb) as [k [Hk _]].
    exists (List.length (order_upto p rk n) + k). split; [apply pos_app_r; [apply pos_notin; exact Hnot | exact Hk]|].
    intros s' Hs' Hlt'. assert (Hlt2 : rk (sid s') < n) by lia.
    destruct (IH s' Hs' Hlt2) as [j [Hj _]]. exists j. split; [apply pos_app_l; exact Hj|].
    pose proof (pos_lt _ _ _ Hj) as Hb2. lia.
  - assert (Hlt2 : rk (sid s) < n) by lia. destruct (IH s Hs Hlt2) as [i [Hi Hrest]].
    exists i. split; [apply pos_app_l; exact Hi|]. intros s' Hs' Hlt'.
    destruct (Hrest s' Hs' Hlt') as [j [Hj Hji]]. exists j. split; [apply pos_app_l; exact Hj | exact Hji].
Qed.

(* ---------- booleans from propositions ---------- *)
Lemma NoDup_nodupb : forall l, NoDup l -> nodupb l = true.
Proof.
  intros l H. induction H as [|x l Hx H IH]; cbn; [reflexivity|].
  rewrite IH, andb_true_r. apply negb_true_iff. apply mem_false. exact Hx.
Qed.

Lemma find_producer_some : forall p s u, In s p -> In u (uuids s) -> exists s', find_producer p u = Some s' /\ In s' p /\ In u (uuids s').
Proof.
  intros p s u Hs Hu. unfold find_producer. destruct (find (fun s0 => mem u (uuids s0)) p) as [s'|] eqn:E.
  - exists s'. apply find_some in E. destruct E as [H1 H2]. apply mem_In in H2. repeat split; assumption.
  - exfalso. apply (find_none _ _ E) in Hs. apply mem_false in Hs. exact (Hs Hu).
Qed.

(* wf_plan from its five propositional ingredients, for the order built from a rank *)
Theorem wf_plan_of_rank : forall (p : plan) (rk : nat -> nat) (R : nat),
  (forall s, In s p -> uuids s <> []) -> NoDup (map sid p) -> NoDup (all_uuids p) ->
  (forall s u, In s p -> In u (req s) -> In u (all_uuids p)) ->
  (forall s, In s p -> rk (sid s) < R) ->
  (forall s s' u, In s p -> In s' p -> In u (req s) -> In u (uuids s') -> rk (sid s') < rk (sid s)) ->
  wf_plan (order_upto p rk R) p = true.
Proof.
  intros p rk R Hne Hsid Huu Hprod Hbound Hrank. unfold wf_plan.
  repeat (apply andb_true_iff; split).
  - apply forallb_forall. intros s Hs. specialize (Hne s Hs). destruct (uuids s); [congruence | reflexivity].
  - apply NoDup_nodupb. exact Hsid.
  - apply NoDup_nodupb. exact Huu.
  - apply forallb_forall. intros s Hs. apply forallb_forall. intros u Hu. unfold produced. apply mem_In. exact (Hprod s u Hs Hu).
  - unfold respects_order. apply forallb_forall. intros s Hs.
    destruct (order_upto_pos p rk R s Hs (Hbound s Hs)) as [i [Hi Hrest]]. rewrite Hi.
    apply forallb_forall. intros u Hu.
    pose proof (Hprod s u Hs Hu) as Hin. unfold all_uuids in Hin. apply in_flat_map in Hin. destruct Hin as [s0 [Hs0 Hu0]].
    destruct (find_producer_some p s0 u Hs0 Hu0) as [s' [Ef [Hs' Hu']]]. rewrite Ef.
    destruct (Hrest s' Hs' (Hrank s s' u Hs Hs' Hu Hu')) as [j [Hj Hji]]. rewrite Hj. apply Nat.ltb_lt. exact Hji.
Qed.

(* ---------- small list facts ---------- *)
Lemma fold_left_ext : forall (A B : Type) (f f' : A -> B -> A) l i, (forall a b, f a b = f' a b) -> fold_left f l i = fold_left f' l i.
Proof. intros A B f f' l. induction l as [|x l IH]; intros i H; cbn; [reflexivity|]. rewrite H. apply IH. exact H. Qed.

Lemma flat_map_ext_in : forall (A B : Type) (f f' : A -> list B) l, (forall x, In x l -> f x = f' x) -> flat_map f l = flat_map f' l.
Proof.
  intros A B f f' l. induction l as [|x l IH]; intros H; cbn; [reflexivity|].
  rewrite (H x (or_introl eq_refl)), IH; [reflexivity | intros y Hy; apply H; right; exact Hy].
Qed.

Lemma concat_len_ge : forall (L : list (list nat)), (forall l, In l L -> l <> []) -> List.length L <= List.length (concat L).
Proof.
  intros L. induction L as [|l L IH]; intros H; cbn; [lia|].
  rewrite app_length. assert (Hl : l <> []) by (apply H; left; reflexivity).
  assert (IH' : List.length L <= List.length (concat L)) by (apply IH; intros x Hx; apply H; right; exact Hx).
  destruct l as [|a t]; [congruence|]. cbn. lia.
Qed.

Lemma perm_nonempty : forall (l l' : list nat), Permutation l l' -> l' <> [] -> l <> [].
Proof. intros l l' H Hne E. subst l. apply Permutation_nil in H. contradiction. Qed.

Lemma In_req_of_level : forall cl lvl a, In a (req_of_level cl lvl) <-> exists u, In u lvl /\ In a (aget0 u cl).
Proof.
  intros cl lvl a. unfold req_of_level.
  rewrite (fold_left_ext _ _ _ (fun acc u => set_union acc (aget0 u cl))).
  - rewrite In_fold_union. split; [intros [[]|H]; exact H | intros H; right; exact H].
  - intros acc u. unfold aget0. destruct (aget u cl); reflexivity.
Qed.

Lemma NoDup_req_of_level : forall cl lvl, NoDup (req_of_level cl lvl).
Proof.
  intros cl lvl. unfold req_of_level.
  rewrite (fold_left_ext _ _ _ (fun acc u => set_union acc (aget0 u cl))).
  - apply NoDup_fold_union. constructor.
  - intros acc u. unfold aget0. destruct (aget u cl); reflexivity.
Qed.
