(* Source-text tie, C15 (round 2): Options.get, Options.items and Features.merge_options regenerated from options.py /
   feature_collection.py (Gen/SrcOpt.v) against Model/Options.v.  Data model of the objects: Model/PyObjOpt.v. *)
From Coq Require Import List Bool ZArith String Arith.
Import ListNotations.
Require Import MV.Model.PySem MV.Gen.SrcOpt.
Require Import MV.Model.Options MV.Model.PyObjOpt MV.Proofs.OptionsP.

(* ---------- dict operations of Model/PySem.v on the association lists of Model/Options.v ---------- *)
Lemma py_dict_mem_dget : forall k (d : dict),
  py_dict_mem key_eqb k d = match dget k d with Some _ => true | None => false end.
Proof.
  intros k d. unfold py_dict_mem. induction d as [|[k' v] d IH]; [reflexivity|].
  cbn [existsb fst dget]. destruct (key_eqb k k'); [reflexivity|exact IH].
Qed.
Lemma py_dict_getitem_dget : forall k (d : dict),
  py_dict_getitem key_eqb d k = match dget k d with Some v => Ok v | None => Raise KeyError end.
Proof.
  intros k d. induction d as [|[k' v] d IH]; [reflexivity|].
  cbn [py_dict_getitem dget]. destruct (key_eqb k k'); [reflexivity|exact IH].
Qed.
Lemma py_dict_getd_dget : forall k (d : dict) dflt,
  py_dict_getd key_eqb d k dflt = match dget k d with Some v => v | None => dflt end.
Proof.
  intros k d dflt. induction d as [|[k' v] d IH]; [reflexivity|].
  cbn [py_dict_getd dget]. destruct (key_eqb k k'); [reflexivity|exact IH].
Qed.

(* ---------- Options.get / Options.items ---------- *)
(* never a KeyError: self.group[key] is read under `if key in self.group` *)
Lemma options_get_src : forall s k, Options_get s k = Ok (o_get k s).
Proof.
  intros s k. unfold Options_get, o_get. rewrite py_dict_mem_dget, py_dict_getitem_dget, py_dict_getd_dget.
  destruct (dget k (og s)); reflexivity.
Qed.

Lemma options_items_src : forall s, Options_items s = o_items s.
Proof. reflexivity. Qed.

(* ---------- Features.merge_options ---------- *)
Lemma existsb_ext_local : forall (A : Type) (f g : A -> bool) l, (forall x, f x = g x) -> existsb f l = existsb g l.
Proof. intros A f g l H. induction l as [|x l IH]; [reflexivity|]. cbn [existsb]. rewrite H, IH. reflexivity. Qed.

(* protected_keys = {in_features}; protected_keys.update(keys): the same SET as in_features :: keys *)
Lemma kmem_union1 : forall k a l, kmem k (py_union key_eqb [a] l) = kmem k (a :: l).
Proof.
  intros k a l. unfold py_union, py_diff, py_in, kmem. cbn [app existsb].
  destruct (key_eqb k a) eqn:Eka; cbn [orb]; [reflexivity|].
  induction l as [|y l IH]; [reflexivity|].
  cbn [filter existsb]. rewrite orb_false_r. destruct (key_eqb y a) eqn:Eya; cbn [negb existsb].
  - rewrite IH. destruct (key_eqb k y) eqn:Eky; [|reflexivity].
    rewrite (key_eqb_trans k y a Eky Eya) in Eka. discriminate.
  - rewrite IH. reflexivity.
Qed.

Definition conflict_pair (pk : list pykey) (c p : pykey * pyval) : bool :=
  key_eqb (fst c) (fst p) && negb (kmem (fst p) pk) && negb (py_eq (snd c) (snd p)).

Lemma merge_loop2_src : forall s pk kc vc l,
  Features_merge_options_loop2 s pk kc vc l
  = if existsb (conflict_pair pk (kc, vc)) l then Exit (Raise ValueError, s) else Fall tt.
Proof.
  intros s pk kc vc l. induction l as [|[kp vp] l IH]; [reflexivity|].
  cbn [Features_merge_options_loop2 existsb]. unfold conflict_pair at 1. cbn [fst snd].
  change (py_in key_eqb kp pk) with (kmem kp pk).
  destruct (key_eqb kc kp); cbn [andb orb]; [|exact IH].
  destruct (kmem kp pk); cbn [negb andb orb]; [exact IH|].
  destruct (py_eq vc vp); cbn [negb orb]; [exact IH|reflexivity].
Qed.

Lemma merge_loop1_src : forall s pk l,
  Features_merge_options_loop1 s pk l
  = if existsb (fun c => existsb (conflict_pair pk c) (o_items s)) l then Exit (Raise ValueError, s) else Fall tt.
Proof.
  intros s pk l. induction l as [|[kc vc] l IH]; [reflexivity|].
  cbn [Features_merge_options_loop1 existsb]. rewrite merge_loop2_src. change (Options_items s) with (o_items s).
  destruct (existsb (conflict_pair pk (kc, vc)) (o_items s)); cbn [orb]; [reflexivity|exact IH].
Qed.

Definition merge_conflict (pk : list pykey) (s child : ostate) : bool :=
  existsb (fun c => existsb (conflict_pair pk c) (o_items s)) (o_items child).

Lemma merge_conflict_ext : forall pk pk' s child, (forall k, kmem k pk = kmem k pk') ->
  merge_conflict pk s child = merge_conflict pk' s child.
Proof.
  intros pk pk' s child H. unfold merge_conflict. apply existsb_ext_local. intros c. apply existsb_ext_local. intros p.
  unfold conflict_pair. rewrite H. reflexivity.
Qed.

(* for EVERY callee update_with_protected_keys: TypeError when the parser-key value cannot be iterated, ValueError when a key
   that is not protected has different values on the two sides (nothing is changed in both cases), else the call *)
Lemma merge_options_src : forall (upd : ostate -> ostate -> res unit * ostate) s child,
  Features_merge_options upd s child
  = match default_protected s with
    | None => (Raise TypeError, s)
    | Some pk => if merge_conflict pk s child then (Raise ValueError, s) else upd s child
    end.
Proof.
  intros upd s child. unfold Features_merge_options, default_protected. cbv zeta.
  rewrite !options_get_src. change (KStr "feature_chainer_parser_key") with k_chainer.
  assert (U : forall pk, (match Features_merge_options_loop1 s pk (Options_items child) with
                          | Exit r_ => r_
                          | Fall _ => match upd s child with
                                      | (Raise e_, fo) => (Raise e_, fo)
                                      | (Ok _, fo) => (Ok tt, fo)
                                      end
                          end) = if merge_conflict pk s child then (Raise ValueError, s) else upd s child).
  { intros pk. rewrite merge_loop1_src. change (Options_items child) with (o_items child). unfold merge_conflict.
    destruct (existsb (fun c => existsb (conflict_pair pk c) (o_items s)) (o_items child)); [reflexivity|].
    destruct (upd s child) as [[[]|e] s']; reflexivity. }
  destruct (truthy (o_get k_chainer s)).
  - unfold any_iter_keys. destruct (iter_keys (o_get k_chainer s)) as [ks|]; [|reflexivity].
    cbn [option_map]. rewrite U. apply f_equal with (f := fun b : bool => if b then _ else _).
    apply merge_conflict_ext. intros k. apply kmem_union1.
  - apply U.
Qed.

(* with the callee as Model/Options.v has it (o_update with the default protected keys) the method is o_merge *)
Definition update_model (s child : ostate) : res unit * ostate := of_oerr (o_update child None s).

Lemma merge_options_model : forall s child, Features_merge_options update_model s child = of_oerr (o_merge child s).
Proof.
  intros s child. rewrite merge_options_src. unfold o_merge.
  destruct (default_protected s) as [pk|]; [|reflexivity].
  unfold merge_conflict, conflict_pair.
  destruct (existsb _ (o_items child)); reflexivity.
Qed.

(* ---------- Options.add / add_to_group / OptionsValidator.validate_can_add_to_group ---------- *)
Lemma py_dict_mem_kmem : forall k (d : dict), py_dict_mem key_eqb k d = kmem k (dkeys d).
Proof.
  intros k d. unfold py_dict_mem, kmem, dkeys. induction d as [|[k' v] d IH]; [reflexivity|].
  cbn [existsb map fst]. rewrite IH. reflexivity.
Qed.
Lemma py_dict_set_dset : forall (d : dict) k v, py_dict_set key_eqb d k v = dset k v d.
Proof.
  induction d as [|[k' v'] d IH]; intros k v; [reflexivity|].
  cbn [py_dict_set dset]. rewrite IH. reflexivity.
Qed.

Definition add_group_rejects (k : pykey) (v : pyval) (g c : dict) : bool :=
  (match dget k g with Some v0 => negb (py_eq v v0) | None => false end) || kmem k (dkeys c).

Lemma validate_can_add_to_group_src : forall k v g c,
  OptionsValidator_validate_can_add_to_group k v g c = if add_group_rejects k v g c then Raise ValueError else Ok tt.
Proof.
  intros k v g c. unfold OptionsValidator_validate_can_add_to_group, add_group_rejects.
  rewrite py_dict_mem_dget, py_dict_getitem_dget, py_dict_mem_kmem.
  destruct (dget k g) as [v0|]; cbn [orb].
  - destruct (py_eq v v0); cbn [negb orb]; [|reflexivity]. destruct (kmem k (dkeys c)); reflexivity.
  - destruct (kmem k (dkeys c)); reflexivity.
Qed.

Lemma options_add_to_group_src : forall s k v, Options_add_to_group s k v = of_oerr (o_add_group k v s).
Proof.
  intros s k v. unfold Options_add_to_group, o_add_group. rewrite validate_can_add_to_group_src. unfold add_group_rejects.
  destruct (match dget k (og s) with Some v0 => negb (py_eq v v0) | None => false end); cbn [orb]; [reflexivity|].
  destruct (kmem k (dkeys (oc s))); [reflexivity|].
  rewrite py_dict_set_dset. reflexivity.
Qed.

Lemma options_add_src : forall s k v, Options_add s k v = of_oerr (o_step s (OpAdd k v)).
Proof.
  intros s k v. unfold Options_add. rewrite options_add_to_group_src. cbn [o_step].
  destruct (o_add_group k v s) as [s' [[]|]]; reflexivity.
Qed.

(* ---------- Options.add_to_context / validate_can_add_to_context / Options.set ---------- *)
Lemma validate_can_add_to_context_src : forall k v g c,
  OptionsValidator_validate_can_add_to_context k v g c = if add_group_rejects k v c g then Raise ValueError else Ok tt.
Proof.
  intros k v g c. unfold OptionsValidator_validate_can_add_to_context, add_group_rejects.
  rewrite (py_dict_mem_kmem k g), py_dict_mem_dget, py_dict_getitem_dget.
  destruct (dget k c) as [v0|]; cbn [orb].
  - destruct (py_eq v v0); cbn [negb orb]; [|reflexivity]. destruct (kmem k (dkeys g)); reflexivity.
  - destruct (kmem k (dkeys g)); reflexivity.
Qed.

Lemma options_add_to_context_src : forall s k v, Options_add_to_context s k v = of_oerr (o_add_context k v s).
Proof.
  intros s k v. unfold Options_add_to_context, o_add_context. rewrite validate_can_add_to_context_src. unfold add_group_rejects.
  destruct (match dget k (oc s) with Some v0 => negb (py_eq v v0) | None => false end); cbn [orb]; [reflexivity|].
  destruct (kmem k (dkeys (og s))); [reflexivity|].
  rewrite py_dict_set_dset. reflexivity.
Qed.

(* Options.set never raises *)
Lemma options_set_src : forall s k v, Options_set s k v = (tt, fst (o_set k v s)) /\ snd (o_set k v s) = None.
Proof.
  intros s k v. unfold Options_set, o_set. rewrite !py_dict_mem_kmem, !py_dict_set_dset.
  destruct (kmem k (dkeys (og s))); [split; reflexivity|].
  destruct (kmem k (dkeys (oc s))); split; reflexivity.
Qed.
