(* C16 — the calculation reads what the planner declared (Model/ChainSources.v). *)
From Coq Require Import List Bool Ascii Arith Lia.
Import ListNotations.
Require Import MV.Model.ChainParser MV.Model.ChainSources MV.Spec.ChainName.
Require Import MV.Proofs.ChainParserP MV.Proofs.ChainResolveP.
Open Scope list_scope.

(* the planning side of this file IS the tied model of input_features *)
Lemma plan_sources_is_input_features : forall g name gr cx, plan_sources g name gr cx = input_features g name gr cx.
Proof. reflexivity. Qed.

(* ---------------------------------------------------------------------------------------------------------- *)
(* dedup on Features made from names                                                                           *)
Lemma dedup_sub : forall l x, In x (dedup l) -> In x l.
Proof.
  induction l as [|a l IH]; intros x H; cbn [dedup] in H; auto.
  destruct (existsb (pv_eqb a) l); [right; auto|]. destruct H as [H|H]; [left; auto | right; auto].
Qed.

Lemma pv_eqb_feat : forall a b, pv_eqb (feat a) (feat b) = str_eqb a b.
Proof. intros a b. unfold feat. cbn. rewrite !andb_true_r. reflexivity. Qed.

Lemma existsb_feat : forall a l, existsb (pv_eqb (feat a)) (map feat l) = true <-> In a l.
Proof.
  intros a l. rewrite existsb_exists. split.
  - intros (y & Hy & E). apply in_map_iff in Hy as (b & <- & Hb). rewrite pv_eqb_feat in E. apply str_eqb_eq in E. subst; auto.
  - intros H. exists (feat a). split; [apply in_map; auto | rewrite pv_eqb_feat; apply str_eqb_refl].
Qed.

Lemma dedup_feat_in : forall l s, In (feat s) (dedup (map feat l)) <-> In s l.
Proof.
  induction l as [|a l IH]; intros s; cbn [map dedup]; [tauto|].
  destruct (existsb (pv_eqb (feat a)) (map feat l)) eqn:E.
  - rewrite IH. apply existsb_feat in E. split; [right; auto|]. intros [<-|H]; auto.
  - cbn [In]. rewrite IH. split; intros [H|H]; auto.
    + left. unfold feat in H. congruence.
    + left. congruence.
Qed.

Lemma names_dedup_feat : forall l x, In x (names_of (dedup (map feat l))) <-> In x (map PStr l).
Proof.
  intros l x. unfold names_of. rewrite !in_map_iff. split.
  - intros (f & <- & Hf). pose proof (dedup_sub _ _ Hf) as Hm. apply in_map_iff in Hm as (s & <- & Hs).
    exists s; split; auto.
  - intros (s & <- & Hs). exists (feat s). split; [reflexivity | apply dedup_feat_in; auto].
Qed.

(* ---------------------------------------------------------------------------------------------------------- *)
(* the pair                                                                                                    *)
Lemma calc_reads_planned_of : forall g p inf fs, plan_of g p inf = Ok fs ->
  exists ns, calc_of p inf = Ok ns /\ same_names ns fs.
Proof.
  intros g p inf fs H. unfold plan_of in H. unfold calc_of.
  assert (FB : (match get_in_features inf with
                | Err e => Err e
                | Ok fs0 => if count_ok g (List.length fs0) then Ok fs0 else Err EValue
                end = Ok fs) ->
               exists ns, match get_in_features inf with Err e => Err e | Ok fs0 => Ok (names_of fs0) end = Ok ns
                          /\ same_names ns fs).
  { intros F. destruct (get_in_features inf) as [fs0|e]; [|discriminate].
    destruct (count_ok g (List.length fs0)); [|discriminate]. injection F as <-.
    exists (names_of fs0). split; [reflexivity | intros x; tauto]. }
  destruct p as [op src| |]; [|auto|discriminate].
  destruct src as [|c s]; [auto|].
  destruct (count_ok g (List.length (split_on amp (c :: s)))); [|discriminate]. injection H as <-.
  exists (map PStr (split_on amp (c :: s))). split; [reflexivity|].
  intros x. symmetry. apply names_dedup_feat.
Qed.

Lemma calc_reads_what_was_planned_l : forall g name gr cx fs, plan_sources g name gr cx = Ok fs ->
  exists ns, calc_sources g name gr cx = Ok ns /\ same_names ns fs.
Proof. intros g name gr cx fs H. exact (calc_reads_planned_of _ _ _ _ H). Qed.

(* a name that parses governs BOTH sides, whatever is configured *)
Lemma chained_name_governs_l : forall g op src inf inf', src <> [] ->
  calc_of (Parsed op src) inf = Ok (map PStr (split_on amp src)) /\
  calc_of (Parsed op src) inf = calc_of (Parsed op src) inf' /\
  plan_of g (Parsed op src) inf = plan_of g (Parsed op src) inf'.
Proof. intros g op src inf inf' N. destruct src; [congruence|]. repeat split. Qed.

(* a name that does not parse: both sides read the configuration *)
Lemma plain_name_reads_config_l : forall g inf fs, get_in_features inf = Ok fs -> count_ok g (List.length fs) = true ->
  plan_of g NoParse inf = Ok fs /\ calc_of NoParse inf = Ok (names_of fs).
Proof. intros g inf fs G C. unfold plan_of, calc_of. rewrite G, C. split; reflexivity. Qed.

(* a single-input name: planned [Feature(src)], read column src — for ANY options *)
Lemma single_source_l : forall g name op src gr cx,
  parse_feature_name (g_sufs g) name = Parsed op src -> contains amp src = false -> count_ok g 1 = true ->
  plan_sources g name gr cx = Ok [feat src] /\ calc_sources g name gr cx = Ok [PStr src] /\
  calc_column g name gr cx = Ok (PStr src).
Proof.
  intros g name op src gr cx P A C.
  destruct (parse_never_empty_source _ _ _ _ P) as (N & _).
  unfold calc_column, plan_sources, calc_sources. rewrite P. unfold plan_of, calc_of.
  destruct src as [|c s]; [congruence|]. rewrite (split_on_none amp (c :: s) A). cbn [List.length]. rewrite C.
  repeat split.
Qed.

(* chains of every length: the last link of source "__" op1 ... "__" opk plans and reads  source "__" ... "__" op(k-1),
   whatever in_features (the root, an ancestor, another column) the feature carries next to its name *)
Lemma chain_last_link_l : forall gs ops i op src gr cx,
  universe_ok gs = true -> chain_ok gs (ops ++ [(i, op)]) = true -> wf_atom src = true ->
  plan_sources (grp_at gs i) (chain_name gs src (ops ++ [(i, op)])) gr cx = Ok [feat (chain_name gs src ops)] /\
  calc_sources (grp_at gs i) (chain_name gs src (ops ++ [(i, op)])) gr cx = Ok [PStr (chain_name gs src ops)] /\
  calc_column (grp_at gs i) (chain_name gs src (ops ++ [(i, op)])) gr cx = Ok (PStr (chain_name gs src ops)).
Proof.
  intros gs ops i op src gr cx U C A.
  unfold chain_ok in C. rewrite forallb_app in C. apply andb_true_iff in C as [C Co]. cbn [forallb] in Co.
  rewrite andb_true_r in Co.
  pose proof U as U'. unfold universe_ok in U'. apply andb_true_iff in U' as [Ug _].
  unfold wf_atom in A. apply andb_true_iff in A as [A Aa]. apply andb_true_iff in A as [As _]. apply negb_true_iff in Aa.
  destruct (chain_name_wf gs Ug ops src C As Aa) as (Wn & An).
  unfold op_ok in Co. cbn [fst snd] in Co. apply andb_true_iff in Co as [Co _]. apply andb_true_iff in Co as [Li Wo].
  apply Nat.ltb_lt in Li. pose proof (grp_at_nth_error gs i Li) as Ni.
  destruct (group_ok_parts _ (forallb_nth_error _ _ _ _ Ug Ni)) as (s & Ss & Ws & _ & _ & C1 & _).
  assert (Gs : g_suf (grp_at gs i) = s) by (unfold g_suf; rewrite Ss; reflexivity).
  assert (E : chain_name gs src (ops ++ [(i, op)]) = render (chain_name gs src ops) op s).
  { unfold chain_name. rewrite map_app, render_chain_app. cbn [map render_chain fst snd]. rewrite Gs. reflexivity. }
  rewrite E. apply (single_source_l (grp_at gs i) _ op); auto.
  rewrite Ss. apply roundtrip_l; auto.
Qed.

(* ---------------------------------------------------------------------------------------------------------- *)
(* the other precedence                                                                                        *)
Lemma cfgfirst_agrees_outside_l : forall p inf, kf_both p inf = false -> calc_of_cfgfirst p inf = calc_of p inf.
Proof.
  intros p inf K. unfold kf_both in K. unfold calc_of_cfgfirst, calc_of.
  destruct (truthy inf) eqn:T.
  - cbn [andb] in K. destruct p as [op [|c s]| |]; try discriminate; reflexivity.
  - destruct p as [op [|c s]| |]; reflexivity.
Qed.

(* time window: the column read is the planned source; the reference-time feature is the only other planned input *)
Lemma pv_eqb_feat_name : forall f t, pv_eqb f (feat t) = true -> elem_name f = PStr t.
Proof.
  intros f t E. destruct f as [| | | | | | |n g c]; try discriminate E.
  unfold feat in E. cbn [pv_eqb] in E. repeat (apply andb_true_iff in E as [E _]).
  destruct n; try discriminate E. cbn [pv_eqb] in E. apply str_eqb_eq in E. subst. reflexivity.
Qed.

Lemma tw_calc_reads_planned_l : forall t p inf fs,
  (forall op, p <> Parsed op []) -> (forall op src, p = Parsed op src -> contains amp src = false) ->
  plan_tw_of t p inf = Ok fs ->
  exists c, calc_of p inf = Ok [c] /\ In c (names_of fs) /\ forall x, In x (names_of fs) -> x = c \/ x = PStr t.
Proof.
  intros t p inf fs NE NA H. unfold plan_tw_of in H. unfold calc_of.
  destruct p as [op src| |]; [| |discriminate].
  - destruct src as [|c0 s]; [exfalso; apply (NE op); reflexivity|].
    rewrite (split_on_none amp (c0 :: s) (NA _ _ eq_refl)). injection H as <-.
    exists (PStr (c0 :: s)). split; [reflexivity|]. split.
    + apply (names_dedup_feat [c0 :: s; t]). left; reflexivity.
    + intros x Hx. apply (names_dedup_feat [c0 :: s; t]) in Hx. destruct Hx as [<-|[<-|[]]]; auto.
  - destruct (get_in_features inf) as [[|f [|f2 r]]|e]; try discriminate. injection H as <-.
    exists (elem_name f). split; [reflexivity|].
    cbn [dedup existsb]. rewrite orb_false_r. destruct (pv_eqb f (feat t)) eqn:E.
    + rewrite (pv_eqb_feat_name _ _ E). cbn. split; [left; reflexivity|]. intros x [<-|[]]; auto.
    + cbn. split; [left; reflexivity|]. intros x [<-|[<-|[]]]; auto.
Qed.
