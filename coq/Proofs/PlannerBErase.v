(* Stage B1 reuses Stage A: forgetting the compute frameworks of a graph in which every feature group computes on one
   framework (group_cfw) changes nothing in the pipeline up to ExecutionPlan.add_feature_group_step.

     raw_plan_erase : graph_ok g -> group_cfw g -> raw_plan ord g = raw_plan ord (erase g)

   and erase g is a strict Stage-A graph with the same parent / ancestor relation, so every theorem of Props/PlannerA.v
   about plan_of ord (erase g) is a theorem about the feature-group steps of the multi-framework graph g. *)
From Coq Require Import List Bool Arith Lia Permutation.
Import ListNotations.
Require Import MV.Model.Orch MV.Model.OrchCheck MV.Model.Grouping MV.Model.PlannerA MV.Spec.PlannerASpec.
Require Import MV.Model.PlannerB MV.Spec.PlannerBSpec.
Require Import MV.Proofs.PlannerASets MV.Proofs.PlannerAGraph MV.Proofs.PlannerAQueue MV.Proofs.PlannerAOrder MV.Proofs.PlannerAP.

(* ---------- any relabelling of the nodes that keeps uuid and inputs ---------- *)
Section Remap.
  Variable f : fnode -> fnode.
  Hypothesis Hfid : forall n, fid (f n) = fid n.
  Hypothesis Hfins : forall n, fins (f n) = fins n.

  Lemma ids_remap : forall g, ids (map f g) = ids g.
  Proof. intros g. unfold ids. rewrite map_map. apply map_ext. exact Hfid. Qed.

  Lemma edges_remap : forall g, edges (map f g) = edges g.
  Proof.
    intros g. unfold edges. rewrite flat_map_map. apply flat_map_ext_in. intros n _. rewrite Hfid, Hfins. reflexivity.
  Qed.

  Lemma node_order_remap : forall g, node_order (map f g) = node_order g.
  Proof.
    intros g. unfold node_order. f_equal. rewrite flat_map_map. apply flat_map_ext_in. intros n _. rewrite Hfid, Hfins. reflexivity.
  Qed.

  Lemma children_remap : forall g p, children (map f g) p = children g p.
  Proof. intros g p. unfold children. rewrite edges_remap. reflexivity. Qed.

  Lemma adj_keys_remap : forall g, adj_keys (map f g) = adj_keys g.
  Proof. intros g. unfold adj_keys. rewrite edges_remap. reflexivity. Qed.

  Lemma indeg_remap : forall g u, indeg (map f g) u = indeg g u.
  Proof. intros g u. unfold indeg. rewrite edges_remap. reflexivity. Qed.

  Lemma roots_remap : forall g, roots (map f g) = roots g.
  Proof.
    intros g. unfold roots. rewrite node_order_remap. apply filter_ext. intros u. rewrite indeg_remap. reflexivity.
  Qed.

  Lemma dfs_remap : forall fuel g node st, dfs fuel (map f g) node st = dfs fuel g node st.
  Proof.
    intros fuel g. induction fuel as [|k IH]; intros node st; cbn [dfs]; [reflexivity|].
    destruct (mem node (fst st)); [reflexivity|]. rewrite children_remap.
    apply fold_left_ext. intros st' c. apply IH.
  Qed.

  Lemma queue_of_remap : forall g, queue_of (map f g) = queue_of g.
  Proof.
    intros g. unfold queue_of, dfs_all. rewrite roots_remap, map_length. f_equal.
    apply fold_left_ext. intros st r. apply dfs_remap.
  Qed.

  Lemma gdp_remap : forall fuel g par chs acc, gdp fuel (map f g) par chs acc = gdp fuel g par chs acc.
  Proof.
    intros fuel g. induction fuel as [|k IH]; intros par chs acc; cbn [gdp].
    - reflexivity.
    - apply fold_left_ext. intros acc' c. rewrite children_remap. apply IH.
  Qed.

  Lemma pbd_of_remap : forall g, pbd_of (map f g) = pbd_of g.
  Proof.
    intros g. unfold pbd_of. rewrite adj_keys_remap, map_length. apply fold_left_ext. intros acc p.
    rewrite children_remap. apply gdp_remap.
  Qed.

  Lemma p2c_of_remap : forall g, p2c_of (map f g) = p2c_of g.
  Proof. intros g. unfold p2c_of. rewrite pbd_of_remap, map_length. reflexivity. Qed.

  Lemma parent_remap : forall g p c, parent (map f g) p c <-> parent g p c.
  Proof.
    intros g p c. unfold parent. split.
    - intros [n [Hn [E Hp]]]. apply in_map_iff in Hn. destruct Hn as [m [Em Hm]]. subst n. rewrite Hfid in E. rewrite Hfins in Hp.
      exists m. repeat split; assumption.
    - intros [n [Hn [E Hp]]]. exists (f n). repeat split; [apply in_map; exact Hn | rewrite Hfid; exact E | rewrite Hfins; exact Hp].
  Qed.

  Lemma anc_remap : forall g a c, anc (map f g) a c <-> anc g a c.
  Proof.
    intros g a c. split; intros H.
    - induction H as [p c Hpc|a m c _ IH Hmc]; [apply anc_direct; apply parent_remap; exact Hpc|].
      apply (anc_step g a m c IH). apply parent_remap. exact Hmc.
    - induction H as [p c Hpc|a m c _ IH Hmc]; [apply anc_direct; apply parent_remap; exact Hpc|].
      apply (anc_step _ a m c IH). apply parent_remap. exact Hmc.
  Qed.

  Lemma graph_ok_remap : forall g, graph_ok g -> graph_ok (map f g).
  Proof.
    intros g (H1 & H2 & H3 & [rk H4]). split; [rewrite ids_remap; exact H1|]. split; [|split].
    - intros p c Hpc. rewrite ids_remap. apply (H2 p c). apply parent_remap. exact Hpc.
    - intros n Hn. apply in_map_iff in Hn. destruct Hn as [m [E Hm]]. subst n. rewrite Hfins. exact (H3 m Hm).
    - exists rk. intros p c Hpc. apply H4. apply parent_remap. exact Hpc.
  Qed.
End Remap.

Lemma erase_fid : forall n, fid (erase_node n) = fid n. Proof. reflexivity. Qed.
Lemma erase_fins : forall n, fins (erase_node n) = fins n. Proof. reflexivity. Qed.

Lemma ids_erase : forall g, ids (erase g) = ids g.
Proof. exact (ids_remap erase_node erase_fid). Qed.
Lemma length_erase : forall g, List.length (erase g) = List.length g.
Proof. intros g. unfold erase. apply map_length. Qed.
Lemma queue_of_erase : forall g, queue_of (erase g) = queue_of g.
Proof. exact (queue_of_remap erase_node erase_fid erase_fins). Qed.
Lemma p2c_of_erase : forall g, p2c_of (erase g) = p2c_of g.
Proof. exact (p2c_of_remap erase_node erase_fid erase_fins). Qed.

Lemma node_of_erase : forall g u, node_of (erase g) u = option_map erase_node (node_of g u).
Proof.
  intros g u. unfold node_of, erase. induction g as [|n g IH]; cbn; [reflexivity|].
  destruct (Nat.eqb (fid n) u); [reflexivity | exact IH].
Qed.

Lemma grp_of_erase : forall g u, grp_of (erase g) u = grp_of g u.
Proof. intros g u. unfold grp_of. rewrite node_of_erase. destruct (node_of g u); reflexivity. Qed.
Lemma isreq_erase : forall g u, isreq (erase g) u = isreq g u.
Proof. intros g u. unfold isreq. rewrite node_of_erase. destruct (node_of g u); reflexivity. Qed.
Lemma cfw_of_erase : forall g u, cfw_of (erase g) u = 0.
Proof. intros g u. unfold cfw_of. rewrite node_of_erase. destruct (node_of g u); reflexivity. Qed.

Lemma members_erase : forall g q k, members (erase g) q k = members g q k.
Proof.
  intros g q k. unfold members. f_equal. apply filter_ext. intros u. rewrite grp_of_erase. reflexivity.
Qed.

Lemma planned_queue_erase : forall g q, planned_queue (erase g) q = planned_queue g q.
Proof.
  intros g q. unfold planned_queue. f_equal. apply fold_left_ext. intros st u.
  rewrite grp_of_erase, members_erase. reflexivity.
Qed.

Lemma existsb_ext_local : forall (A : Type) (f f' : A -> bool) l, (forall x, f x = f' x) -> existsb f l = existsb f' l.
Proof. intros A f f' l H. induction l as [|x l IH]; cbn; [reflexivity | rewrite H, IH; reflexivity]. Qed.

Lemma mk_step_erase : forall ord g cl lvl, mk_step ord (erase g) cl lvl = mk_step ord g cl lvl.
Proof.
  intros ord g cl lvl. unfold mk_step. f_equal. apply existsb_ext_local. intros u. apply isreq_erase.
Qed.

(* ---------- the relations of the specification ---------- *)
Lemma parent_erase : forall g p c, parent (erase g) p c <-> parent g p c.
Proof. exact (parent_remap erase_node erase_fid erase_fins). Qed.
Lemma anc_erase : forall g a c, anc (erase g) a c <-> anc g a c.
Proof. exact (anc_remap erase_node erase_fid erase_fins). Qed.
Lemma graph_ok_erase : forall g, graph_ok g -> graph_ok (erase g).
Proof. exact (graph_ok_remap erase_node erase_fid erase_fins). Qed.

Lemma strict_erase : forall g, strict (erase g).
Proof.
  intros g n m Hn Hm. unfold erase in Hn, Hm. apply in_map_iff in Hn, Hm.
  destruct Hn as [n0 [E1 _]]. destruct Hm as [m0 [E2 _]]. subst n m. reflexivity.
Qed.

Lemma adj_of_erase : forall g, adj_of (erase g) = adj_of g.
Proof. intros g. unfold adj_of, erase. rewrite map_map. reflexivity. Qed.

(* ---------- the feature-group steps do not depend on the frameworks ---------- *)
Section Erase.
  Variables (ord : oparam) (g : fgraph).
  Hypothesis Hord : ord_ok ord.
  Hypothesis Hok : graph_ok g.
  Hypothesis Hgc : group_cfw g.

  Lemma cfw_same_group : forall x y, In x (ids g) -> In y (ids g) -> grp_of g x = grp_of g y -> cfw_of g x = cfw_of g y.
  Proof.
    intros x y Hx Hy E. destruct Hok as (Hnd & _). unfold ids in Hx, Hy. apply in_map_iff in Hx, Hy.
    destruct Hx as [n [En Hn]]. destruct Hy as [m [Em Hm]]. subst x y.
    rewrite (grp_of_node g n Hnd Hn), (grp_of_node g m Hnd Hm) in E.
    rewrite (cfw_of_node g n Hnd Hn), (cfw_of_node g m Hnd Hm). apply Hgc; assumption.
  Qed.

  Lemma levels_of_group_erase : forall cl k ms, incl ms (ids g) -> (forall u, In u ms -> grp_of g u = k) ->
    levels_of_group ord (erase g) cl ms = levels_of_group ord g cl ms.
  Proof.
    intros cl k ms Hsub Hk. unfold levels_of_group.
    assert (Hperm : Permutation (ord 0 ms) ms) by apply Hord.
    destruct (ord 0 ms) as [|u0 rest] eqn:E0; [reflexivity|].
    assert (Hne : u0 :: rest <> []) by discriminate.
    rewrite (group_items_single (map (item_of (erase g)) (u0 :: rest))), (group_items_single (map (item_of g) (u0 :: rest))).
    - cbn [map]. rewrite !map_map. reflexivity.
    - intros E. apply map_eq_nil in E. exact (Hne E).
    - intros x Hx. apply in_map_iff in Hx. destruct Hx as [u [E _]]. subst x. reflexivity.
    - intros x y Hx Hy. apply in_map_iff in Hx, Hy. destruct Hx as [u [Eu Hu]]. destruct Hy as [v [Ev Hv]]. subst x y.
      cbn [it_kb item_of].
      assert (Hu' : In u ms) by (apply (Permutation_in _ Hperm); exact Hu).
      assert (Hv' : In v ms) by (apply (Permutation_in _ Hperm); exact Hv).
      apply cfw_same_group; [apply Hsub; exact Hu' | apply Hsub; exact Hv' | rewrite (Hk u Hu'), (Hk v Hv'); reflexivity].
    - intros E. apply map_eq_nil in E. exact (Hne E).
    - intros x Hx. apply in_map_iff in Hx. destruct Hx as [u [E _]]. subst x. reflexivity.
    - intros x y Hx Hy. apply in_map_iff in Hx, Hy. destruct Hx as [u [Eu _]]. destruct Hy as [v [Ev _]]. subst x y.
      cbn [it_kb item_of]. rewrite !cfw_of_erase. reflexivity.
  Qed.

  Theorem raw_plan_erase : raw_plan ord (erase g) = raw_plan ord g.
  Proof.
    unfold raw_plan. rewrite p2c_of_erase, queue_of_erase, planned_queue_erase.
    apply flat_map_ext_in. intros e He.
    destruct (planned_queue_spec g (queue_of g)) as (_ & P2 & _). destruct (P2 e He) as [E _].
    unfold steps_of_group.
    rewrite (levels_of_group_erase (p2c_of g) (fst e) (snd e)).
    - apply flat_map_ext_in. intros lv _. apply map_ext. intros lvl. apply mk_step_erase.
    - intros u Hu. rewrite E in Hu. apply members_spec in Hu. apply (queue_complete g Hok). apply Hu.
    - intros u Hu. rewrite E in Hu. apply members_spec in Hu. apply Hu.
  Qed.

  Theorem plan_of_erase : plan_of ord (erase g) = plan_of ord g.
  Proof. unfold plan_of. rewrite raw_plan_erase. reflexivity. Qed.
End Erase.

Theorem group_cfwb_sound : forall g, group_cfwb g = true -> group_cfw g.
Proof.
  intros g H n m Hn Hm E. unfold group_cfwb in H. rewrite forallb_forall in H. specialize (H n Hn).
  rewrite forallb_forall in H. specialize (H m Hm). apply orb_true_iff in H. destruct H as [H|H].
  - apply negb_true_iff, Nat.eqb_neq in H. contradiction.
  - apply Nat.eqb_eq. exact H.
Qed.

Lemma strict_group_cfw : forall g, strict g -> group_cfw g.
Proof. intros g H n m Hn Hm _. apply H; assumption. Qed.
