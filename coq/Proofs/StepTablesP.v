(* C03 — every requested feature instance is produced by exactly one step and returned in exactly one table
   (Model/StepTables.v), from the partition theorems of the grouping (Proofs/PlannerOGroup.v group_items_perm) and of the
   O-planner (Proofs/PlannerOP.v plan_uuids_O). *)
From Coq Require Import List Bool Arith Lia Permutation.
Import ListNotations.
Require Import MV.Model.Orch MV.Model.OrchCheck MV.Model.Options MV.Model.Identity MV.Model.Grouping MV.Model.PlannerA MV.Model.PlannerO.
Require Import MV.Model.StepTables.
Require Import MV.Spec.GroupingSpec MV.Spec.PlannerASpec.
Require Import MV.Proofs.GroupingP MV.Proofs.PlannerOGroup MV.Proofs.PlannerOP.

(* ---------- lists ---------- *)
Lemma concat_filter_nonempty : forall A (l : list (list A)), concat (filter nonemptyb l) = concat l.
Proof.
  intros A l. induction l as [|x l IH]; [reflexivity|]. cbn [filter]. destruct x as [|a x]; cbn [nonemptyb concat].
  - exact IH.
  - rewrite IH. reflexivity.
Qed.

Lemma filter_app_l : forall A (f : A -> bool) (a b : list A), filter f (a ++ b) = filter f a ++ filter f b.
Proof.
  intros A f a b. induction a as [|x a IH]; [reflexivity|]. cbn [app filter]. destruct (f x); [cbn [app]; rewrite IH|]; auto.
Qed.

Lemma concat_map_filter : forall A (f : A -> bool) (l : list (list A)), concat (map (filter f) l) = filter f (concat l).
Proof.
  intros A f l. induction l as [|x l IH]; [reflexivity|]. cbn [map concat]. rewrite filter_app_l, IH. reflexivity.
Qed.

Lemma tables_concat : forall rq steps, concat (tables_of_steps rq steps) = filter rq (concat steps).
Proof. intros rq steps. unfold tables_of_steps, requested_of. rewrite concat_filter_nonempty. apply concat_map_filter. Qed.

Lemma filter_perm : forall A (f : A -> bool) (l l' : list A), Permutation l l' -> Permutation (filter f l) (filter f l').
Proof.
  intros A f l l' H. induction H as [|x l l' H IH|x y l|l l' l'' H1 IH1 H2 IH2]; cbn [filter].
  - constructor.
  - destruct (f x); [constructor|]; exact IH.
  - destruct (f x), (f y); try apply Permutation_refl. apply perm_swap.
  - exact (Permutation_trans IH1 IH2).
Qed.

Lemma count_perm : forall (l l' : list nat) u, Permutation l l' -> count_occ Nat.eq_dec l u = count_occ Nat.eq_dec l' u.
Proof.
  intros l l' u H. induction H as [|x l l' H IH|x y l|l l' l'' H1 IH1 H2 IH2]; cbn [count_occ].
  - reflexivity.
  - destruct (Nat.eq_dec x u); rewrite IH; reflexivity.
  - destruct (Nat.eq_dec x u), (Nat.eq_dec y u); reflexivity.
  - congruence.
Qed.

Lemma count_filter : forall (f : nat -> bool) l u,
  count_occ Nat.eq_dec (filter f l) u = if f u then count_occ Nat.eq_dec l u else 0.
Proof.
  intros f l u. induction l as [|x l IH]; [destruct (f u); reflexivity|]. cbn [filter count_occ].
  destruct (Nat.eq_dec x u) as [E|N].
  - subst x. destruct (f u) eqn:F; cbn [count_occ].
    + destruct (Nat.eq_dec u u); [|congruence]. rewrite IH. reflexivity.
    + exact IH.
  - destruct (f x); cbn [count_occ]; [destruct (Nat.eq_dec x u); [congruence|]|]; exact IH.
Qed.

Lemma holds_in : forall u l, holds u l = true <-> In u l.
Proof.
  intros u l. unfold holds. rewrite existsb_exists. split.
  - intros [x [Hx E]]. apply Nat.eqb_eq in E. subst x. exact Hx.
  - intros H. exists u. split; [exact H | apply Nat.eqb_refl].
Qed.

Lemma in_nth_concat : forall (tabs : list (list nat)) k u, In u (nth k tabs []) -> In u (concat tabs).
Proof.
  intros tabs. induction tabs as [|t tabs IH]; intros k u H.
  - destruct k; destruct H.
  - cbn [concat]. apply in_or_app. destruct k as [|k]; [left; exact H | right; exact (IH k u H)].
Qed.

(* an instance that occurs once over all tables sits in exactly one of them, once: the membership relation is the graph of
   the function step_of *)
Lemma occurrences_one_unique : forall tabs u, occurrences u tabs = 1 ->
  (forall k, In u (nth k tabs []) <-> k = step_of tabs u) /\
  count_occ Nat.eq_dec (nth (step_of tabs u) tabs []) u = 1.
Proof.
  unfold occurrences. intros tabs u. induction tabs as [|t tabs IH]; intros H; [discriminate H|].
  cbn [concat] in H. rewrite count_occ_app in H. unfold step_of. cbn [first_idx].
  destruct (holds u t) eqn:Ht.
  - apply holds_in in Ht. pose proof (proj1 (count_occ_In Nat.eq_dec t u) Ht) as Hpos.
    assert (H0 : count_occ Nat.eq_dec (concat tabs) u = 0) by lia.
    assert (H1 : count_occ Nat.eq_dec t u = 1) by lia.
    apply count_occ_not_In in H0. split; [|exact H1].
    intros k. split.
    + intros Hin. destruct k as [|k]; [reflexivity|]. exfalso. apply H0. exact (in_nth_concat tabs k u Hin).
    + intros ->. exact Ht.
  - assert (Hn : ~ In u t) by (intros Hin; apply holds_in in Hin; congruence).
    apply (count_occ_not_In Nat.eq_dec) in Hn. rewrite Hn in H. cbn in H.
    destruct (IH H) as [I1 I2]. split; [|exact I2].
    intros k. destruct k as [|k].
    + split; [|discriminate]. cbn [nth]. intros Hin. exfalso. apply (count_occ_not_In Nat.eq_dec) in Hn. exact (Hn Hin).
    + cbn [nth]. rewrite (I1 k). unfold step_of. split; [intros ->; reflexivity | intros E; injection E; auto].
Qed.

(* ---------- any list of steps that partitions the instances ---------- *)
Section Partition.
  Variables (steps : list (list nat)) (idl : list nat).
  Hypothesis HP : Permutation (concat steps) idl.
  Hypothesis HN : NoDup idl.

  Lemma part_one_step : forall u, In u idl -> occurrences u steps = 1.
  Proof.
    intros u Hu. unfold occurrences. rewrite (count_perm _ _ u HP).
    pose proof (proj1 (NoDup_count_occ Nat.eq_dec idl) HN u) as Hle.
    pose proof (proj1 (count_occ_In Nat.eq_dec idl u) Hu). lia.
  Qed.

  Lemma part_tables_perm : forall rq, Permutation (concat (tables_of_steps rq steps)) (filter rq idl).
  Proof. intros rq. rewrite tables_concat. apply filter_perm. exact HP. Qed.

  Lemma part_occurrences : forall rq u,
    occurrences u (tables_of_steps rq steps) = if rq u && existsb (Nat.eqb u) idl then 1 else 0.
  Proof.
    intros rq u. unfold occurrences. rewrite tables_concat, count_filter. destruct (rq u); cbn [andb]; [|reflexivity].
    fold (holds u idl). destruct (holds u idl) eqn:Hh.
    - apply holds_in in Hh. exact (part_one_step u Hh).
    - rewrite (count_perm _ _ u HP). apply count_occ_not_In. intros Hin. apply holds_in in Hin. congruence.
  Qed.

  Lemma part_one_table : forall rq u, In u idl -> rq u = true -> occurrences u (tables_of_steps rq steps) = 1.
  Proof.
    intros rq u Hu Hr. rewrite part_occurrences, Hr. apply holds_in in Hu. unfold holds in Hu. rewrite Hu. reflexivity.
  Qed.

  Lemma part_nothing_else : forall rq u, In u (concat (tables_of_steps rq steps)) <-> In u idl /\ rq u = true.
  Proof.
    intros rq u. rewrite tables_concat, filter_In. split; intros [A B]; (split; [|exact B]).
    - exact (Permutation_in _ HP A).
    - exact (Permutation_in _ (Permutation_sym HP) A).
  Qed.
End Partition.

(* every returned table is the non-empty requested part of one step *)
Lemma table_of_a_step : forall rq steps t, In t (tables_of_steps rq steps) ->
  t <> [] /\ exists s, In s steps /\ t = requested_of rq s.
Proof.
  intros rq steps t H. unfold tables_of_steps in H. apply filter_In in H. destruct H as [H Hne]. split.
  - intros ->. discriminate Hne.
  - apply in_map_iff in H. destruct H as [s [E Hs]]. exists s. split; [exact Hs | symmetry; exact E].
Qed.

(* ---------- one feature group: the grouping function ---------- *)
Lemma group_steps_perm : forall its, Permutation (concat (group_steps its)) (map it_id its).
Proof.
  intros its. unfold group_steps. rewrite <- concat_map. apply Permutation_map. apply group_items_perm.
Qed.

Theorem one_step_l : forall its, NoDup (map it_id its) -> forall u, In u (map it_id its) ->
  occurrences u (group_steps its) = 1 /\
  (forall k, In u (nth k (group_steps its) []) <-> k = step_of (group_steps its) u).
Proof.
  intros its HN u Hu. pose proof (part_one_step _ _ (group_steps_perm its) HN u Hu) as H1.
  split; [exact H1 | exact (proj1 (occurrences_one_unique _ _ H1))].
Qed.

Theorem one_table_l : forall rq its, NoDup (map it_id its) -> forall u, In u (map it_id its) -> rq u = true ->
  occurrences u (group_tables rq its) = 1 /\
  (forall k, In u (nth k (group_tables rq its) []) <-> k = step_of (group_tables rq its) u).
Proof.
  intros rq its HN u Hu Hr. pose proof (part_one_table _ _ (group_steps_perm its) HN rq u Hu Hr) as H1.
  split; [exact H1 | exact (proj1 (occurrences_one_unique _ _ H1))].
Qed.

Theorem tables_exact_l : forall rq its,
  Permutation (concat (group_tables rq its)) (filter rq (map it_id its)) /\
  (forall u, In u (concat (group_tables rq its)) <-> In u (map it_id its) /\ rq u = true) /\
  (forall t, In t (group_tables rq its) -> t <> [] /\ exists s, In s (group_steps its) /\ t = requested_of rq s).
Proof.
  intros rq its. split; [|split].
  - unfold group_tables. rewrite tables_concat. apply filter_perm. apply group_steps_perm.
  - intros u. unfold group_tables. rewrite tables_concat, filter_In. split; intros [A B]; (split; [|exact B]).
    + exact (Permutation_in _ (group_steps_perm its) A).
    + exact (Permutation_in _ (Permutation_sym (group_steps_perm its)) A).
  - intros t. apply table_of_a_step.
Qed.

(* the number of tables an instance is returned in does not depend on the iteration order of the feature set *)
Theorem occurrences_order_independent_l : forall rq its its', Permutation its its' -> NoDup (map it_id its) ->
  forall u, occurrences u (group_tables rq its) = occurrences u (group_tables rq its').
Proof.
  intros rq its its' HP HN u.
  assert (HN' : NoDup (map it_id its')) by (exact (Permutation_NoDup (Permutation_map it_id HP) HN)).
  unfold group_tables. rewrite (part_occurrences _ _ (group_steps_perm its) HN), (part_occurrences _ _ (group_steps_perm its') HN').
  destruct (rq u); cbn [andb]; [|reflexivity].
  fold (holds u (map it_id its)) (holds u (map it_id its')).
  destruct (holds u (map it_id its)) eqn:A, (holds u (map it_id its')) eqn:B; try reflexivity; exfalso.
  - apply holds_in in A. apply (Permutation_in _ (Permutation_map it_id HP)) in A. apply holds_in in A. congruence.
  - apply holds_in in B. apply (Permutation_in _ (Permutation_sym (Permutation_map it_id HP))) in B. apply holds_in in B. congruence.
Qed.

(* ---------- a whole plan of the O-fragment ---------- *)
Lemma plan_steps_perm : forall ord g, ord_ok ord -> graph_ok (base g) -> Permutation (concat (plan_steps ord g)) (ids (base g)).
Proof.
  intros ord g Hord Hok. unfold plan_steps. rewrite <- flat_map_concat_map. exact (plan_uuids_O ord g Hord Hok).
Qed.

Theorem plan_one_table_l : forall ord g, ord_ok ord -> graph_ok (base g) ->
  forall u, In u (ids (base g)) ->
  occurrences u (plan_steps ord g) = 1 /\
  (isreq (base g) u = true ->
     occurrences u (plan_tables ord g) = 1 /\
     (forall k, In u (nth k (plan_tables ord g) []) <-> k = step_of (plan_tables ord g) u)) /\
  (isreq (base g) u = false -> occurrences u (plan_tables ord g) = 0).
Proof.
  intros ord g Hord Hok u Hu. pose proof (plan_steps_perm ord g Hord Hok) as HP. destruct Hok as [HN _].
  split; [exact (part_one_step _ _ HP HN u Hu)|]. split.
  - intros Hr. pose proof (part_one_table _ _ HP HN _ u Hu Hr) as H1. split; [exact H1 | exact (proj1 (occurrences_one_unique _ _ H1))].
  - intros Hr. unfold plan_tables. rewrite (part_occurrences _ _ HP HN), Hr. reflexivity.
Qed.

Theorem plan_tables_exact_l : forall ord g, ord_ok ord -> graph_ok (base g) ->
  Permutation (concat (plan_tables ord g)) (filter (isreq (base g)) (ids (base g))) /\
  (forall t, In t (plan_tables ord g) -> t <> [] /\ exists s, In s (plan_O ord g) /\ t = requested_of (isreq (base g)) (uuids s)).
Proof.
  intros ord g Hord Hok. split.
  - exact (part_tables_perm _ _ (plan_steps_perm ord g Hord Hok) _).
  - intros t Ht. destruct (table_of_a_step _ _ _ Ht) as [Hne [s [Hs E]]]. split; [exact Hne|].
    unfold plan_steps in Hs. apply in_map_iff in Hs. destruct Hs as [st [E' Hst]]. exists st. split; [exact Hst | rewrite E'; exact E].
Qed.

(* ---------- the variant without `break` is not a partition ---------- *)
Definition wit_items : list item :=
  [ {| it_id := 0; it_kb := 0; it_ty := Some 0 |};      (* a : INT32 *)
    {| it_id := 1; it_kb := 0; it_ty := Some 1 |};      (* b : INT64 *)
    {| it_id := 2; it_kb := 0; it_ty := None |} ].      (* "c" *)

Lemma every_refuted_l :
  NoDup (map it_id wit_items) /\
  group_steps wit_items = [[0; 2]; [1]] /\ group_steps (rev wit_items) = [[1; 2]; [0]] /\
  map (map it_id) (group_items_every wit_items) = [[0; 2]; [1; 2]] /\
  ~ Permutation (concat (group_items_every wit_items)) wit_items /\
  group_tables (fun _ => true) wit_items = [[0; 2]; [1]] /\
  group_tables_every (fun _ => true) wit_items = [[0; 2]; [1; 2]] /\
  occurrences 2 (group_tables (fun _ => true) wit_items) = 1 /\
  occurrences 2 (group_tables (fun _ => true) (rev wit_items)) = 1 /\
  occurrences 2 (group_tables_every (fun _ => true) wit_items) = 2.
Proof.
  split; [repeat constructor; cbn; intuition discriminate|].
  repeat (split; [vm_compute; reflexivity|]).
  split; [|repeat (split; [vm_compute; reflexivity|]); vm_compute; reflexivity].
  intros H. apply Permutation_length in H. vm_compute in H. discriminate H.
Qed.

(* outside the ambiguity domain of C15 (an untyped feature compatible with typed features of two different types) the variant
   computes the same groups: the seed needs exactly that domain *)
Example every_same_outside_example :
  let its := [ {| it_id := 0; it_kb := 0; it_ty := Some 0 |}; {| it_id := 1; it_kb := 1; it_ty := Some 1 |};
               {| it_id := 2; it_kb := 0; it_ty := None |}; {| it_id := 3; it_kb := 2; it_ty := None |} ] in
  kf_ambiguous its = false /\ group_items_every its = group_items its.
Proof. vm_compute. split; reflexivity. Qed.

(* ---------- outside C15's ambiguity domain the variant without `break` computes the same groups ---------- *)
Definition members_in (its : list item) (c : coll) : Prop := forall k ms m, In (k, ms) c -> In m ms -> In m its.

Lemma members_coll_add : forall its k x c, members_in its c -> In x its -> members_in its (coll_add k x c).
Proof.
  intros its k x c H Hx k' ms' m Hin Hm. destruct (coll_add_in _ _ _ _ _ Hin) as [(ms0 & Hc & [->|[-> ->]])|[-> ->]].
  - exact (H _ _ _ Hc Hm).
  - apply in_app_or in Hm. destruct Hm as [Hm|[<-|[]]]; [exact (H _ _ _ Hc Hm) | exact Hx].
  - destruct Hm as [<-|[]]. exact Hx.
Qed.

Lemma members_pass1 : forall its l st, members_in its (fst st) -> (forall x, In x l -> In x its) ->
  members_in its (fst (fold_left pass1_step l st)).
Proof.
  intros its l. induction l as [|x l IH]; intros st H Hl; [exact H|]. cbn [fold_left]. apply IH.
  - unfold pass1_step. destruct (it_ty x); cbn [fst]; [|exact H]. apply members_coll_add; [exact H | apply Hl; left; reflexivity].
  - intros y Hy. apply Hl. right. exact Hy.
Qed.

(* the shape of a dict key *)
Lemma key_shape : forall its m, In m its ->
  (exists t ty, In t its /\ is_typed t = true /\ it_kb t = it_kb m /\ it_ty t = Some ty /\ gk its m = (it_kb m, Some ty)) \/
  (gk its m = (it_kb m, None) /\ forall t, In t its -> is_typed t = true -> it_kb t <> it_kb m).
Proof.
  intros its m Hm. destruct (it_ty m) as [ty|] eqn:Em.
  - left. exists m, ty. repeat split; try assumption; [unfold is_typed; rewrite Em; reflexivity | apply gk_typed; exact Em].
  - rewrite (gk_untyped its m Em). destruct (find (typed_with (it_kb m)) its) as [t|] eqn:Ef.
    + left. apply find_some in Ef. destruct Ef as [Ht Hw]. unfold typed_with in Hw. apply andb_true_iff in Hw. destruct Hw as [Hty Hk].
      apply Nat.eqb_eq in Hk. unfold is_typed in Hty. destruct (it_ty t) as [ty|] eqn:Et; [|discriminate].
      exists t, ty. repeat split; try assumption; [unfold is_typed; rewrite Et; reflexivity | rewrite Hk; reflexivity].
    + right. split; [reflexivity|]. intros t Ht Hty Hk. pose proof (find_none _ _ Ef t Ht) as Hn. unfold typed_with in Hn.
      rewrite Hty, Hk, Nat.eqb_refl in Hn. discriminate.
Qed.

(* with the collector's invariant a group matches base b iff its key does *)
Lemma base_matches_fst : forall its c b g, cinv its c -> In g c -> base_matches b g = Nat.eqb (fst (fst g)) b.
Proof.
  intros its c b [k ms] [H1 _ H3] Hin. unfold base_matches. cbn.
  destruct ms as [|m ms']; [exfalso; exact (H3 _ Hin eq_refl)|]. cbn.
  rewrite <- (H1 k (m :: ms') m Hin (or_introl eq_refl)), gk_fst. reflexivity.
Qed.

(* outside the ambiguity domain at most one key of the collector has the base class of an untyped feature *)
Lemma one_matching_key : forall its c u, kf_ambiguous its = false -> cinv its c -> members_in its c ->
  In u its -> it_ty u = None ->
  forall g1 g2, In g1 c -> In g2 c -> base_matches (it_kb u) g1 = true -> base_matches (it_kb u) g2 = true -> fst g1 = fst g2.
Proof.
  intros its c u Hk Hc Hmem Hu Htu [k1 ms1] [k2 ms2] H1 H2 B1 B2.
  rewrite (base_matches_fst its c _ _ Hc H1) in B1. rewrite (base_matches_fst its c _ _ Hc H2) in B2.
  cbn [fst] in *. apply Nat.eqb_eq in B1. apply Nat.eqb_eq in B2.
  destruct Hc as [Hs _ Hne].
  destruct ms1 as [|m1 r1]; [exfalso; exact (Hne _ H1 eq_refl)|].
  destruct ms2 as [|m2 r2]; [exfalso; exact (Hne _ H2 eq_refl)|].
  pose proof (Hs _ _ m1 H1 (or_introl eq_refl)) as G1. pose proof (Hs _ _ m2 H2 (or_introl eq_refl)) as G2.
  pose proof (Hmem _ _ m1 H1 (or_introl eq_refl)) as I1. pose proof (Hmem _ _ m2 H2 (or_introl eq_refl)) as I2.
  assert (K1 : it_kb m1 = it_kb u) by (rewrite <- B1, <- G1, gk_fst; reflexivity).
  assert (K2 : it_kb m2 = it_kb u) by (rewrite <- B2, <- G2, gk_fst; reflexivity).
  assert (Uu : is_typed u = false) by (unfold is_typed; rewrite Htu; reflexivity).
  destruct (key_shape its m1 I1) as [(t1 & ty1 & T1 & Y1 & Kb1 & E1 & S1)|[S1 N1]];
  destruct (key_shape its m2 I2) as [(t2 & ty2 & T2 & Y2 & Kb2 & E2 & S2)|[S2 N2]].
  - rewrite <- G1, <- G2, S1, S2, K1, K2.
    pose proof (not_ambiguous its Hk u t1 t2 Hu T1 T2 Uu Y1 Y2 (eq_trans Kb1 K1) (eq_trans Kb2 K2)) as E.
    rewrite E1, E2 in E. injection E as ->. reflexivity.
  - exfalso. apply (N2 t1 T1 Y1). rewrite Kb1, K1, K2. reflexivity.
  - exfalso. apply (N1 t2 T2 Y2). rewrite Kb2, K2, K1. reflexivity.
  - rewrite <- G1, <- G2, S1, S2, K1, K2. reflexivity.
Qed.

Lemma find_existsb_none : forall A (p : A -> bool) l, existsb p l = false -> find p l = None.
Proof. intros A p l. induction l as [|x l IH]; cbn; [reflexivity|]. destruct (p x); [discriminate | exact IH]. Qed.

(* adding to every matching group = coll_add under the only matching key *)
Lemma map_every_is_coll_add : forall (p : gkey * list item -> bool) k u c,
  NoDup (map fst c) ->
  (forall g, In g c -> p g = true -> fst g = k) ->
  (exists g, In g c /\ p g = true) ->
  map (fun g => if p g then (fst g, snd g ++ [u]) else g) c = coll_add k u c.
Proof.
  intros p k u c. induction c as [|[k' ms] t IH]; intros Hnd Hone Hex; [destruct Hex as [g [[] _]]|].
  cbn [map coll_add fst snd]. cbn [map fst] in Hnd. apply NoDup_cons_iff in Hnd. destruct Hnd as [Hk' Hnd].
  destruct (gkey_eqb k k') eqn:E.
  - apply gkey_eqb_eq in E. subst k'.
    assert (Ht : forall g, In g t -> p g = false).
    { intros g Hg. destruct (p g) eqn:Pg; [|reflexivity]. exfalso. apply Hk'. rewrite <- (Hone g (or_intror Hg) Pg).
      apply in_map. exact Hg. }
    assert (Hp : p (k, ms) = true).
    { destruct Hex as [g [[<-|Hg] Pg]]; [exact Pg | rewrite (Ht g Hg) in Pg; discriminate]. }
    rewrite Hp. f_equal. clear -Ht. induction t as [|g t IH]; [reflexivity|]. cbn [map].
    rewrite (Ht g (or_introl eq_refl)), IH; [reflexivity|]. intros g' Hg'. apply Ht. right. exact Hg'.
  - assert (Hp : p (k', ms) = false).
    { destruct (p (k', ms)) eqn:Pg; [|reflexivity]. pose proof (Hone _ (or_introl eq_refl) Pg) as Ek. cbn in Ek. subst k'.
      rewrite gkey_eqb_refl in E. discriminate. }
    rewrite Hp. f_equal. apply IH; [exact Hnd | intros g Hg; apply Hone; right; exact Hg|].
    destruct Hex as [g [[<-|Hg] Pg]]; [rewrite Hp in Pg; discriminate | exists g; split; assumption].
Qed.

Lemma add_untyped_every_same : forall its c u, kf_ambiguous its = false -> cinv its c -> members_in its c ->
  In u its -> it_ty u = None -> add_untyped_every c u = add_untyped c u.
Proof.
  intros its c u Hk Hc Hmem Hu Htu. unfold add_untyped_every, add_untyped.
  destruct (existsb (base_matches (it_kb u)) c) eqn:Ex.
  - destruct (find (base_matches (it_kb u)) c) as [[k ms]|] eqn:Ef.
    + apply find_some in Ef. destruct Ef as [Hin Hb].
      apply map_every_is_coll_add.
      * destruct Hc as [_ Hnd _]. exact Hnd.
      * intros g Hg Pg. exact (one_matching_key its c u Hk Hc Hmem Hu Htu g (k, ms) Hg Hin Pg Hb).
      * exists (k, ms). split; assumption.
    + exfalso. apply existsb_exists in Ex. destruct Ex as [g [Hg Pg]]. rewrite (find_none _ _ Ef g Hg) in Pg. discriminate.
  - rewrite (find_existsb_none _ _ _ Ex). reflexivity.
Qed.

Lemma every_fold_same : forall its us done c, kf_ambiguous its = false ->
  (forall u, In u us -> In u its /\ it_ty u = None) -> p2inv its done c -> members_in its c ->
  fold_left add_untyped_every us c = fold_left add_untyped us c.
Proof.
  intros its us. induction us as [|u us IH]; intros done c Hk Hus Hinv Hmem; [reflexivity|]. cbn [fold_left].
  destruct (Hus u (or_introl eq_refl)) as [Hu Htu].
  rewrite (add_untyped_every_same its c u Hk (proj1 Hinv) Hmem Hu Htu).
  apply (IH (done ++ [u])); [exact Hk | intros v Hv; apply Hus; right; exact Hv | apply p2inv_step; assumption|].
  rewrite (add_untyped_target its done c u Hinv Htu). apply members_coll_add; assumption.
Qed.

Theorem every_same_outside_l : forall its, kf_ambiguous its = false -> group_items_every its = group_items its.
Proof.
  intros its Hk. unfold group_items_every, group_items, group_coll. f_equal.
  destruct (p1inv_pass1 its) as (Hc & Hin & Hus & Hf).
  apply (every_fold_same its _ []); [exact Hk | | |].
  - intros u Hu. rewrite Hus in Hu. apply filter_In in Hu. destruct Hu as [Hi Hu]. split; [exact Hi|].
    unfold is_typed in Hu. destruct (it_ty u); [discriminate | reflexivity].
  - split; [exact Hc | split; [exact Hin | split; [intros ? [] |]]].
    intros b. specialize (Hf b). destruct (find (typed_with b) its) as [t|]; cbn in Hf.
    + exact Hf.
    + intros g Hg. rewrite Hg in Hf. discriminate.
  - unfold pass1. apply members_pass1; [intros ? ? ? [] | auto].
Qed.
