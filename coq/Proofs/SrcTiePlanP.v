(* Source-text tie, C04 (planner, round 2): the definitions regenerated from joinstep_collection.py, join_step.py,
   resolve_compute_frameworks.py, resolve_links.py (Gen/SrcPlan.v) equal the definitions of Model/PlannerL.v.
   Lemmas with proofs; statements are repeated in Props/SrcTie.v. *)
From Coq Require Import List Bool ZArith Arith Lia.
Import ListNotations.
Require Import MV.Model.PySem MV.Gen.SrcPlan.
Require Import MV.Model.Orch MV.Model.PlannerA MV.Model.PyObj MV.Proofs.SrcTieLemP.
Require MV.Model.PlannerL.
Open Scope nat_scope.

(* ---------- JoinStep.get_uuids ---------- *)
Lemma joinstep_get_uuids_src : forall s, JoinStep_get_uuids s = [PlannerL.js_uid (fst s); fst s].
Proof. reflexivity. Qed.

(* ---------- JoinStepCollection.similar_dependent_joins_uuids ---------- *)
Lemma similar_loop_src : forall lf rf l acc,
  JoinStepCollection_similar_dependent_joins_uuids_loop1 lf rf l acc
  = Fall (fold_left (fun acc e => let l := fst (snd e) in let r := snd (snd e) in
                       if (Nat.eqb l lf || Nat.eqb r lf || Nat.eqb l rf || Nat.eqb r rf)%bool
                       then set_union acc [PlannerL.js_uid (fst e); fst e] else acc) l acc).
Proof.
  intros lf rf l. induction l as [|e l IH]; intros acc; [reflexivity|].
  cbn [JoinStepCollection_similar_dependent_joins_uuids_loop1 fold_left].
  unfold js_left, js_right. cbv zeta.
  destruct (Nat.eqb (fst (snd e)) lf || Nat.eqb (snd (snd e)) lf || Nat.eqb (fst (snd e)) rf || Nat.eqb (snd (snd e)) rf)%bool.
  - rewrite joinstep_get_uuids_src, py_union_add2; [apply IH|].
    unfold PlannerL.js_uid. apply Nat.eqb_neq. lia.
  - apply IH.
Qed.

Lemma similar_dependent_joins_uuids_src : forall self lf rf,
  JoinStepCollection_similar_dependent_joins_uuids self lf rf = PlannerL.jc_required (py_dict_keys self) lf rf.
Proof.
  intros. unfold JoinStepCollection_similar_dependent_joins_uuids. cbv zeta. rewrite similar_loop_src. reflexivity.
Qed.

(* ---------- JoinStepCollection.add ---------- *)
Lemma joinstep_collection_add_src : forall self js,
  JoinStepCollection_add self js
  = (tt, py_dict_set jstep_eqb self js (PlannerL.jc_required (py_dict_keys self) (js_left js) (js_right js))).
Proof. intros. unfold JoinStepCollection_add. cbv zeta. rewrite similar_dependent_joins_uuids_src. reflexivity. Qed.

(* a JoinStep that is not yet a key (every JoinStep object has its own uuid4): the state PlannerL.add_joinstep keeps,
   jc = the keys, jr = (link uuid, value) *)
Lemma joinstep_collection_add_fresh : forall self js,
  py_dict_mem jstep_eqb js self = false ->
  JoinStepCollection_add self js
  = (tt, self ++ [(js, PlannerL.jc_required (py_dict_keys self) (js_left js) (js_right js))]).
Proof. intros. rewrite joinstep_collection_add_src, py_dict_set_fresh by assumption. reflexivity. Qed.
