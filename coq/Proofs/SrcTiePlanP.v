(* Source-text tie, C04 (planner, round 2): the definitions regenerated from joinstep_collection.py, join_step.py,
   resolve_compute_frameworks.py, resolve_links.py (Gen/SrcPlan.v) equal the definitions of Model/PlannerL.v.
   Lemmas with proofs; statements are repeated in Props/SrcTie.v. *)
From Coq Require Import List Bool ZArith Arith Lia.
Import ListNotations.
Require Import MV.Model.PySem MV.Gen.SrcPlan.
Require Import MV.Model.Orch MV.Model.PlannerA MV.Model.PyObj.
Require MV.Model.PlannerL.
Open Scope nat_scope.

(* ---------- Python set operations of Model/PySem.v = the set operations of the planner models ---------- *)
Lemma py_in_nat_mem : forall x l, py_in Nat.eqb x l = mem x l.
Proof. reflexivity. Qed.

Lemma py_union_add1 : forall l x, py_union Nat.eqb l [x] = set_add x l.
Proof.
  intros l x. unfold py_union, py_diff, set_add, py_in. cbn [filter]. fold (mem x l).
  destruct (mem x l); cbn [negb]; [apply app_nil_r|reflexivity].
Qed.

Lemma mem_app_single : forall x l y, mem x (l ++ [y]) = (mem x l || Nat.eqb x y)%bool.
Proof. intros. unfold mem. rewrite existsb_app. cbn [existsb]. rewrite orb_false_r. reflexivity. Qed.

(* s.update({a, b}) for two different a, b *)
Lemma py_union_add2 : forall l a b, Nat.eqb b a = false -> py_union Nat.eqb l [a; b] = set_union l [a; b].
Proof.
  intros l a b Hab. unfold py_union, py_diff, set_union, py_in. cbn [filter fold_left]. fold (mem a l). fold (mem b l).
  unfold set_add at 2. destruct (mem a l) eqn:Ea; cbn [negb].
  - unfold set_add. destruct (mem b l); cbn [negb]; [apply app_nil_r|reflexivity].
  - unfold set_add. rewrite mem_app_single, Hab, orb_false_r.
    destruct (mem b l); cbn [negb]; [reflexivity|]. rewrite <- app_assoc. reflexivity.
Qed.

(* ---------- dicts ---------- *)
Lemma py_dict_set_fresh : forall (K V : Type) (eqb : K -> K -> bool) (d : list (K * V)) k v,
  py_dict_mem eqb k d = false -> py_dict_set eqb d k v = d ++ [(k, v)].
Proof.
  intros K V eqb d k v. induction d as [|[k' v'] d IH]; intros H; [reflexivity|].
  unfold py_dict_mem in H. cbn [existsb fst] in H. apply orb_false_iff in H. destruct H as [H1 H2].
  cbn [py_dict_set app]. rewrite H1. f_equal. apply IH. exact H2.
Qed.

(* ---------- JoinStep.get_uuids ---------- *)
Lemma joinstep_get_uuids_src : forall s, JoinStep_get_uuids s = [PlannerL.js_uid (fst s); fst s].
Proof. reflexivity. Qed.

(* ---------- JoinStepCollection.similar_dependent_joins_uuids ---------- *)
Lemma similar_loop_src : forall lf rf l acc,
  JoinStepCollection_similar_dependent_joins_uuids_loop1 lf rf l acc
  = Fall (fold_left (fun acc e => let l := fst (snd e) in let r := snd (snd e) in
                       if (Nat.eqb l lf || Nat.eqb r lf || Nat.eqb l rf || Nat.eqb r rf)%bool
                       then set_union acc [PlannerL.js_uid (fst e); fst e] else acc) l acc).
Proof.
  intros lf rf l. induction l as [|e l IH]; intros acc; [reflexivity|].
  cbn [JoinStepCollection_similar_dependent_joins_uuids_loop1 fold_left].
  unfold js_left, js_right. cbv zeta.
  destruct (Nat.eqb (fst (snd e)) lf || Nat.eqb (snd (snd e)) lf || Nat.eqb (fst (snd e)) rf || Nat.eqb (snd (snd e)) rf)%bool.
  - rewrite joinstep_get_uuids_src, py_union_add2; [apply IH|].
    unfold PlannerL.js_uid. apply Nat.eqb_neq. lia.
  - apply IH.
Qed.

Lemma similar_dependent_joins_uuids_src : forall self lf rf,
  JoinStepCollection_similar_dependent_joins_uuids self lf rf = PlannerL.jc_required (py_dict_keys self) lf rf.
Proof.
  intros. unfold JoinStepCollection_similar_dependent_joins_uuids. cbv zeta. rewrite similar_loop_src. reflexivity.
Qed.

(* ---------- JoinStepCollection.add ---------- *)
Lemma joinstep_collection_add_src : forall self js,
  JoinStepCollection_add self js
  = (tt, py_dict_set jstep_eqb self js (PlannerL.jc_required (py_dict_keys self) (js_left js) (js_right js))).
Proof. intros. unfold JoinStepCollection_add. cbv zeta. rewrite similar_dependent_joins_uuids_src. reflexivity. Qed.

(* a JoinStep that is not yet a key (every JoinStep object has its own uuid4): the state PlannerL.add_joinstep keeps,
   jc = the keys, jr = (link uuid, value) *)
Lemma joinstep_collection_add_fresh : forall self js,
  py_dict_mem jstep_eqb js self = false ->
  JoinStepCollection_add self js
  = (tt, self ++ [(js, PlannerL.jc_required (py_dict_keys self) (js_left js) (js_right js))]).
Proof. intros. rewrite joinstep_collection_add_src, py_dict_set_fresh by assumption. reflexivity. Qed.
