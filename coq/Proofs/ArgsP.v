(* Proofs about Model/Args.v: what prepare / run_all writes into the caller's argument objects. *)
From Coq Require Import List Bool Arith ZArith String Lia.
Import ListNotations.
Require Import MV.Model.Args MV.Spec.Reuse.
Open Scope list_scope.

(* ------------------------------------------------------------------ heap primitives *)
Lemma upd_length : forall A (l : list A) a f, List.length (upd l a f) = List.length l.
Proof. induction l as [|x l IH]; intros [|a] f; cbn; auto. Qed.

Lemma nth_error_upd : forall A (l : list A) a b f,
  nth_error (upd l a f) b = if Nat.eqb a b then option_map f (nth_error l a) else nth_error l b.
Proof.
  induction l as [|x l IH]; intros a b f.
  - destruct a, b; cbn; try reflexivity; destruct (Nat.eqb a b); reflexivity.
  - destruct a as [|a], b as [|b]; cbn; try reflexivity. apply IH.
Qed.

Lemma nth_error_upd_same : forall A (l : list A) a f x, nth_error l a = Some x -> nth_error (upd l a f) a = Some (f x).
Proof. intros. rewrite nth_error_upd, Nat.eqb_refl, H. reflexivity. Qed.
Lemma nth_error_upd_other : forall A (l : list A) a b f, a <> b -> nth_error (upd l a f) b = nth_error l b.
Proof. intros. rewrite nth_error_upd. destruct (Nat.eqb a b) eqn:E; [apply Nat.eqb_eq in E; contradiction | reflexivity]. Qed.

Lemma firstn_pointwise : forall A n (l l' : list A), n <= List.length l -> n <= List.length l' ->
  (forall a, a < n -> nth_error l' a = nth_error l a) -> firstn n l' = firstn n l.
Proof.
  induction n as [|n IH]; intros l l' H1 H2 H; [reflexivity|].
  destruct l as [|x l]; [cbn in H1; lia|]. destruct l' as [|y l']; [cbn in H2; lia|].
  cbn. pose proof (H 0 ltac:(lia)) as H0. cbn in H0. injection H0 as ->. f_equal.
  apply IH; [cbn in H1; lia | cbn in H2; lia |]. intros a Ha. apply (H (S a)). lia.
Qed.

(* ------------------------------------------------------------------ how a single object may evolve *)
Definition f_evolves (f f' : fobj) : Prop :=
  f_dom f' = f_dom f /\
  f_name f' = f_name f /\ f_opt f' = f_opt f /\ f_uuid f' = f_uuid f /\ f_link f' = f_link f /\
  (f_flag f = true -> f_flag f' = true) /\ (forall c, f_cfw f = Some c -> f_cfw f' = Some c) /\
  (f_dtype f' = f_dtype f \/ f_dtype f = None).
Definition o_evolves (o o' : oobj) : Prop :=
  oc o' = oc o /\ exists ext, og o' = og o ++ ext /\ forall kv, In kv ext -> fst kv = api_key \/ fst kv = strict_key.

Lemma f_evolves_refl : forall f, f_evolves f f.
Proof. intros f. repeat split; auto. Qed.
Lemma f_evolves_trans : forall a b c, f_evolves a b -> f_evolves b c -> f_evolves a c.
Proof.
  intros a b c (A0 & A1 & A2 & A3 & A4 & A5 & A6 & A7) (B0 & B1 & B2 & B3 & B4 & B5 & B6 & B7).
  split; [congruence|]. split; [congruence|]. split; [congruence|]. split; [congruence|]. split; [congruence|].
  split; [auto|]. split; [intros x Hx; apply B6, A6, Hx|].
  destruct A7 as [A7|A7]; [|right; exact A7]. destruct B7 as [B7|B7]; [left; congruence | right; congruence].
Qed.
Lemma o_evolves_refl : forall o, o_evolves o o.
Proof. intros o. split; [reflexivity|]. exists []. rewrite app_nil_r. split; [reflexivity | intros ? []]. Qed.
Lemma o_evolves_trans : forall a b c, o_evolves a b -> o_evolves b c -> o_evolves a c.
Proof.
  intros a b c [A1 (e1 & A2 & A3)] [B1 (e2 & B2 & B3)]. split; [congruence|].
  exists (e1 ++ e2). split; [rewrite B2, A2, app_assoc; reflexivity|].
  intros kv H. apply in_app_or in H. destruct H; auto.
Qed.

Lemma set_flag_evolves : forall f, f_evolves f (set_flag f).
Proof. intros f. repeat split; auto. Qed.
Lemma set_cfw_dtype_evolves : forall f gi cf dt, cfw_check f gi = inr cf -> dtype_check f gi = Some dt ->
  f_evolves f (set_cfw_dtype cf dt f).
Proof.
  intros f gi cf dt Hc Hd. unfold f_evolves; cbn. repeat split; auto.
  - intros c Hfc. unfold cfw_check in Hc. rewrite Hfc in Hc. destruct c as [|x [|y c]]; try discriminate.
    destruct (existsb _ _); [injection Hc as <-; reflexivity | discriminate].
  - unfold dtype_check in Hd. destruct (f_dtype f) as [a|]; [|right; reflexivity]. left.
    destruct (gi_dtype gi) as [b|]; [|injection Hd as <-; reflexivity].
    destruct (Nat.eqb a b) eqn:E; [|discriminate]. apply Nat.eqb_eq in E. subst. injection Hd as <-. reflexivity.
Qed.
Lemma set_cfw_only_evolves : forall f gi cf, cfw_check f gi = inr cf -> f_evolves f (set_cfw_dtype cf (f_dtype f) f).
Proof.
  intros f gi cf Hc. unfold f_evolves; cbn. repeat split; auto.
  intros c Hfc. unfold cfw_check in Hc. rewrite Hfc in Hc. destruct c as [|x [|y c]]; try discriminate.
  destruct (existsb _ _); [injection Hc as <-; reflexivity | discriminate].
Qed.

Lemma opt_add_evolves : forall o k v o', (k = api_key \/ k = strict_key) -> opt_add o k v = Some o' -> o_evolves o o'.
Proof.
  intros o k v o' Hk H. unfold opt_add in H. destruct (lookup k (og o)) as [v'|].
  - destruct (val_eqb v v'); [|discriminate]. destruct (has k (oc o)); [discriminate|]. injection H as <-. apply o_evolves_refl.
  - destruct (has k (oc o)); [discriminate|]. injection H as <-. split; [reflexivity|].
    exists [(k, v)]. split; [reflexivity|]. intros kv [<-|[]]. exact Hk.
Qed.

(* ------------------------------------------------------------------ the invariant of the planning writes *)
Section Inv.
  Variables (addrs : list nat) (h0 : heap).

  Definition Inv (h : heap) : Prop :=
    List.length (fst h) = List.length (fst h0) /\ List.length (snd h) = List.length (snd h0) /\
    (forall a f0 f, nth_error (fst h0) a = Some f0 -> nth_error (fst h) a = Some f ->
       f_evolves f0 f /\ (~ In a addrs -> f = f0)) /\
    (forall oa o0 o, nth_error (snd h0) oa = Some o0 -> nth_error (snd h) oa = Some o ->
       o_evolves o0 o /\ ((forall a f0, In a addrs -> nth_error (fst h0) a = Some f0 -> f_opt f0 <> oa) -> o = o0)).

  Lemma Inv_init : Inv h0.
  Proof.
    split; [reflexivity|]. split; [reflexivity|]. split.
    - intros a f0 f H H0. rewrite H in H0. injection H0 as <-. split; [apply f_evolves_refl | reflexivity].
    - intros oa o0 o H H0. rewrite H in H0. injection H0 as <-. split; [apply o_evolves_refl | reflexivity].
  Qed.

  Lemma nth_some_both : forall A (l l' : list A) a x, List.length l = List.length l' -> nth_error l a = Some x ->
    exists y, nth_error l' a = Some y.
  Proof.
    intros A l l' a x HL H. assert (a < List.length l') by (rewrite <- HL; apply nth_error_Some; congruence).
    destruct (nth_error l' a) eqn:E; [eauto|]. apply nth_error_None in E. lia.
  Qed.

  (* a write to the feature at a requested address *)
  Lemma Inv_upd_F : forall h a g, Inv h -> In a addrs ->
    (forall f, nth_error (fst h) a = Some f -> f_evolves f (g f)) -> Inv (upd (fst h) a g, snd h).
  Proof.
    intros h a g (L1 & L2 & IF & IO) Ha Hg. split; [cbn; rewrite upd_length; exact L1|]. split; [exact L2|]. split.
    - cbn [fst snd]. intros b f0 f H0 H. rewrite nth_error_upd in H. destruct (Nat.eqb a b) eqn:E.
      + apply Nat.eqb_eq in E. subst b. destruct (nth_error (fst h) a) as [f1|] eqn:E1; [|discriminate].
        cbn in H. injection H as <-. destruct (IF a f0 f1 H0 E1) as [Ev _]. split.
        * eapply f_evolves_trans; [exact Ev | apply Hg; reflexivity].
        * intros N. contradiction.
      + apply (IF b f0 f H0 H).
    - cbn [fst snd]. exact IO.
  Qed.

  (* a write to the Options object of the feature at a requested address *)
  Lemma Inv_upd_O : forall h a f o', Inv h -> In a addrs -> nth_error (fst h) a = Some f ->
    (forall o, nth_error (snd h) (f_opt f) = Some o -> o_evolves o o') ->
    Inv (fst h, upd (snd h) (f_opt f) (fun _ => o')).
  Proof.
    intros h a f o' (L1 & L2 & IF & IO) Ha Hf Ho. split; [exact L1|]. split; [cbn; rewrite upd_length; exact L2|]. split.
    - cbn [fst snd]. exact IF.
    - cbn [fst snd]. intros oa o0 o H0 H. rewrite nth_error_upd in H. destruct (Nat.eqb (f_opt f) oa) eqn:E.
      + apply Nat.eqb_eq in E. subst oa. destruct (nth_error (snd h) (f_opt f)) as [o1|] eqn:E1; [|discriminate].
        cbn in H. injection H as <-. destruct (IO _ o0 o1 H0 E1) as [Ev _]. split.
        * eapply o_evolves_trans; [exact Ev | apply Ho; reflexivity].
        * intros N. exfalso.
          destruct (nth_some_both _ (fst h) (fst h0) a f L1 Hf) as [f0 Hf0].
          destruct (IF a f0 f Hf0 Hf) as [(_ & _ & E2 & _) _]. apply (N a f0 Ha Hf0). symmetry; exact E2.
      + apply (IO oa o0 o H0 H).
  Qed.

  Lemma Inv_heap_add : forall h a f k v h', Inv h -> In a addrs -> nth_error (fst h) a = Some f ->
    (k = api_key \/ k = strict_key) -> heap_add h (f_opt f) k v = Some h' -> Inv h'.
  Proof.
    intros h a f k v h' HI Ha Hf Hk H. unfold heap_add in H.
    destruct (nth_error (snd h) (f_opt f)) as [o|] eqn:E; [|discriminate].
    destruct (opt_add o k v) as [o'|] eqn:E2; [|discriminate]. injection H as <-.
    apply (Inv_upd_O h a f o' HI Ha Hf). intros o1 H1. rewrite E in H1. injection H1 as <-.
    eapply opt_add_evolves; eauto.
  Qed.

  Lemma Inv_phase1_one : forall api strict h a, Inv h -> In a addrs -> Inv (fst (phase1_one api strict h a)).
  Proof.
    intros api strict h a HI Ha. unfold phase1_one. destruct (nth_error (fst h) a) as [f|] eqn:Hf; [|exact HI].
    set (h1 := (upd (fst h) a set_flag, snd h)).
    assert (H1 : Inv h1) by (apply Inv_upd_F; [exact HI | exact Ha | intros; apply set_flag_evolves]).
    assert (Hf1 : nth_error (fst h1) a = Some (set_flag f)) by (apply nth_error_upd_same; exact Hf).
    assert (G : forall r2 : heap * option perr,
              r2 = match nonempty_api api with
                   | Some c => match heap_add h1 (f_opt f) api_key (VCols c) with Some h2 => (h2, None) | None => (h1, Some EAddConflict) end
                   | None => (h1, None) end ->
              Inv (fst r2) /\ nth_error (fst (fst r2)) a = Some (set_flag f)).
    { intros r2 ->. destruct (nonempty_api api) as [c|]; [|split; assumption].
      destruct (heap_add h1 (f_opt f) api_key (VCols c)) as [h2|] eqn:E; [|split; assumption]. cbn [fst]. split.
      - apply (Inv_heap_add h1 a (set_flag f) api_key (VCols c) h2); [exact H1 | exact Ha | exact Hf1 | left; reflexivity | exact E].
      - unfold heap_add in E. destruct (nth_error (snd h1) (f_opt f)); [|discriminate].
        destruct (opt_add _ _ _); [|discriminate]. injection E as <-. exact Hf1. }
    match goal with |- context [match snd ?r with _ => _ end] => destruct (G r eq_refl) as [I2 F2]; destruct (snd r) eqn:Es end.
    - exact I2.
    - match goal with |- context [if ?b then _ else _] => destruct b end; [|exact I2].
      match goal with |- context [heap_add ?hh ?oa ?k ?v] => destruct (heap_add hh oa k v) as [h3|] eqn:E3 end; [|exact I2].
      cbn [fst]. eapply (Inv_heap_add _ a (set_flag f) strict_key); [exact I2 | exact Ha | exact F2 | right; reflexivity | exact E3].
  Qed.

  Lemma Inv_phase1 : forall api strict l h, Inv h -> incl l addrs -> Inv (fst (phase1 api strict h l)).
  Proof.
    intros api strict l. induction l as [|a l IH]; intros h HI Hl; [exact HI|]. cbn [phase1].
    pose proof (Inv_phase1_one api strict h a HI (Hl a (or_introl eq_refl))) as H1.
    destruct (phase1_one api strict h a) as [h' [e|]]; cbn [fst] in *; [exact H1|].
    apply IH; [exact H1 | intros x Hx; apply Hl; right; exact Hx].
  Qed.

  Lemma Inv_phase2_one : forall vr u fuel uf st a, Inv (p_heap st) -> In a addrs ->
    Inv (p_heap (fst (phase2_one vr u fuel uf st a))).
  Proof.
    intros vr u fuel uf st a HI Ha. unfold phase2_one.
    destruct (nth_error (fst (p_heap st)) a) as [f|] eqn:Hf; [|exact HI].
    destruct (nth_error (snd (p_heap st)) (f_opt f)) as [o|]; [|exact HI].
    destruct (resolve u (f_name f) (f_dom f) (f_cfw f) (og o) (oc o)) as [e0|gi]; [exact HI|].
    destruct (cfw_check f gi) as [e|cf] eqn:Hc; [exact HI|].
    destruct (dtype_check f gi) as [dt|] eqn:Hd.
    - assert (I2 : Inv (upd (fst (p_heap st)) a (set_cfw_dtype cf dt), snd (p_heap st))).
      { apply Inv_upd_F; [exact HI | exact Ha|]. intros f1 H1. rewrite Hf in H1. injection H1 as <-.
        eapply set_cfw_dtype_evolves; eauto. }
      destruct (proc _ _ _ _ _ _ _ _ _ _ _ _ _); exact I2.
    - cbn [fst p_heap]. apply Inv_upd_F; [exact HI | exact Ha|]. intros f1 H1. rewrite Hf in H1. injection H1 as <-.
      eapply set_cfw_only_evolves; eauto.
  Qed.

  Lemma Inv_phase2 : forall vr u fuel uf l st, Inv (p_heap st) -> incl l addrs ->
    Inv (p_heap (fst (phase2 vr u fuel uf st l))).
  Proof.
    intros vr u fuel uf l. induction l as [|a l IH]; intros st HI Hl; [exact HI|]. cbn [phase2].
    pose proof (Inv_phase2_one vr u fuel uf st a HI (Hl a (or_introl eq_refl))) as H1.
    destruct (phase2_one vr u fuel uf st a) as [st' [e|]]; cbn [fst] in *; [exact H1|].
    apply IH; [exact H1 | intros x Hx; apply Hl; right; exact Hx].
  Qed.
End Inv.

(* ------------------------------------------------------------------ the Engine's filter objects during planning *)
(* identity_matched_filters as implemented (domain() on the deep copy) writes none of the filter objects it iterates over *)
Lemma match_one_keeps : forall vr u gid gdom fdom fcfw g c x x' m, v_domain_on_copy vr = true ->
  match_one vr u gid gdom fdom fcfw g c x = inr (x', m) -> x' = x.
Proof.
  intros vr u gid gdom fdom fcfw g c x x' m Hv H. unfold match_one in H. rewrite Hv in H.
  destruct (crit u gid (enrich x g c)).
  - destruct (domain_step gdom fdom (enrich x g c)); [injection H as <- _; reflexivity | injection H as <- _; reflexivity | discriminate].
  - injection H as <- _. reflexivity.
Qed.

Lemma identity_matched_keeps : forall vr u gid gdom fdom fcfw g c fl fl' ms, v_domain_on_copy vr = true ->
  identity_matched vr u gid gdom fdom fcfw g c fl = inr (fl', ms) -> fl' = fl.
Proof.
  intros vr u gid gdom fdom fcfw g c fl. induction fl as [|x t IH]; intros fl' ms Hv H; cbn [identity_matched] in H.
  - injection H as <- _. reflexivity.
  - destruct (match_one vr u gid gdom fdom fcfw g c x) as [e|[x' m]] eqn:E1; [discriminate|].
    destruct (identity_matched vr u gid gdom fdom fcfw g c t) as [e|[t' ms']] eqn:E2; [discriminate|].
    injection H as <- _. rewrite (match_one_keeps _ _ _ _ _ _ _ _ _ _ _ Hv E1), (IH t' ms' Hv eq_refl). reflexivity.
Qed.

Lemma seek_flts : forall p st s, seek p st = inr s -> r_flts s = r_flts st.
Proof.
  intros p st s H. unfold seek in H. destruct (existsb _ _); [|injection H as <-; reflexivity].
  destruct (r_hz st); [discriminate | injection H as <-; reflexivity].
Qed.

Lemma record_one_flts : forall gid n ir st x s, record_one gid n ir st x = inr s -> r_flts s = r_flts st.
Proof.
  intros gid n ir st x s H. unfold record_one in H. destruct (stored_in _ _); [|injection H as <-; reflexivity].
  destruct ir; [apply seek_flts in H; exact H | injection H as <-; reflexivity].
Qed.

Lemma record_matches_flts : forall gid n ir ms st s, record_matches gid n ir ms st = inr s -> r_flts s = r_flts st.
Proof.
  intros gid n ir ms. induction ms as [|x ms IH]; intros st s H; cbn [record_matches] in H; [injection H as <-; reflexivity|].
  destruct (record_one gid n ir st x) as [e|st'] eqn:E; [discriminate|].
  rewrite (IH _ _ H). exact (record_one_flts _ _ _ _ _ _ E).
Qed.

Lemma add_filter_feature_flts : forall vr u st gi n fdom fcfw g c ir s, v_domain_on_copy vr = true ->
  add_filter_feature vr u st gi n fdom fcfw g c ir = inr s -> r_flts s = r_flts st.
Proof.
  intros vr u st gi n fdom fcfw g c ir s Hv H. unfold add_filter_feature in H.
  destruct (identity_matched vr u (gi_id gi) (gi_dom gi) fdom fcfw g c (r_flts st)) as [e|[fl' ms]] eqn:E; [discriminate|].
  rewrite (record_matches_flts _ _ _ _ _ _ H). cbn. exact (identity_matched_keeps _ _ _ _ _ _ _ _ _ _ _ Hv E).
Qed.

Lemma fold_inl : forall A B E (f : E + A -> B -> E + A), (forall e b, f (inl e) b = inl e) ->
  forall l e, fold_left f l (inl e) = inl e.
Proof. intros A B E f Hf l. induction l as [|b l IH]; intros e; [reflexivity|]. cbn. rewrite Hf. apply IH. Qed.

Lemma proc_flts : forall vr u uf, v_domain_on_copy vr = true -> forall fuel st n dom rcf g c l dt0 child s,
  proc vr u uf fuel st n dom rcf g c l dt0 child = inr s -> r_flts s = r_flts st.
Proof.
  intros vr u uf Hv. induction fuel as [|k IH]; intros st n dom rcf g c l dt0 child s H; [discriminate|].
  cbn [proc] in H. destruct (resolve u n dom rcf g c) as [e|gi]; [discriminate|].
  match type of H with match ?X with _ => _ end = _ => destruct X as [e|s1] eqn:E1 end; [discriminate|].
  assert (G : r_flts s1 = r_flts st).
  { destruct (stored_in _ (r_stored st)).
    - exact (seek_flts _ _ _ E1).
    - match type of E1 with fold_left _ _ (inr ?s0) = _ =>
        assert (E0 : r_flts s0 = r_flts st) by reflexivity; revert E0 E1; generalize s0 end.
      generalize (gi_inputs gi) as ins. induction ins as [|il ins IHi]; intros s0 E0 E1.
      + cbn in E1. injection E1 as <-. exact E0.
      + cbn [fold_left] in E1.
        destruct (proc vr u uf k s0 (i_name il) (eff_dom il dom) None g [] (i_link il) None (Some g)) as [e|s2] eqn:E2.
        * rewrite fold_inl in E1 by reflexivity. discriminate.
        * apply (IHi s2); [rewrite (IH _ _ _ _ _ _ _ _ _ _ E2); exact E0 | exact E1]. }
  destruct uf.
  - rewrite (add_filter_feature_flts _ _ _ _ _ _ _ _ _ _ _ Hv H). exact G.
  - injection H as <-. exact G.
Qed.

Lemma phase2_one_flts : forall vr u fuel uf st a, v_domain_on_copy vr = true ->
  r_flts (p_r (fst (phase2_one vr u fuel uf st a))) = r_flts (p_r st).
Proof.
  intros vr u fuel uf st a Hv. unfold phase2_one.
  destruct (nth_error _ a) as [f|]; [|reflexivity]. destruct (nth_error _ (f_opt f)) as [o|]; [|reflexivity].
  destruct (resolve _ _ _ _ _ _) as [e0|gi]; [reflexivity|]. destruct (cfw_check f gi) as [e|cf]; [reflexivity|].
  destruct (dtype_check f gi) as [dt|]; [|reflexivity].
  destruct (proc vr u uf fuel (p_r st) (f_name f) (f_dom f) (f_cfw f) (og o) (oc o) (f_link f) dt None) as [e|r] eqn:E; [reflexivity|].
  cbn. exact (proc_flts vr u uf Hv _ _ _ _ _ _ _ _ _ _ _ E).
Qed.

Lemma phase2_flts : forall vr u fuel uf, v_domain_on_copy vr = true -> forall l st,
  r_flts (p_r (fst (phase2 vr u fuel uf st l))) = r_flts (p_r st).
Proof.
  intros vr u fuel uf Hv l. induction l as [|a l IH]; intros st; [reflexivity|]. cbn [phase2].
  pose proof (phase2_one_flts vr u fuel uf st a Hv) as H1.
  destruct (phase2_one vr u fuel uf st a) as [st' [e|]]; cbn [fst] in *; [exact H1 | rewrite IH; exact H1].
Qed.

(* the Engine's own filter objects are, when planning ends, what they were when it started *)
Lemma engine_filters_invariant_l : forall vr u fuel w c, v_domain_on_copy vr = true ->
  call_engine_filters_v vr u fuel w c = w_filters w.
Proof.
  intros vr u fuel w c Hv. unfold call_engine_filters_v, traverse_v.
  destruct (phase1 _ _ _ _) as [h1 [e|]]; [reflexivity|].
  pose proof (phase2_flts vr u fuel (c_filter c) Hv
                (if c_copy c then map (fun a => a + List.length (hF w)) (c_feats c) else c_feats c)
                {| p_heap := h1; p_r := rst0 (w_filters w) (c_hz c) |}) as H.
  destruct (phase2 _ _ _ _ _ _) as [st e]. exact H.
Qed.

(* ------------------------------------------------------------------ the heap handed back by plan_call *)
Definition work_heap (w : world) (c : call) : heap := if c_copy c then deepcopy_heap (hF w) (hO w) else (hF w, hO w).
Definition work_addrs (w : world) (c : call) : list nat :=
  if c_copy c then map (fun a => a + List.length (hF w)) (c_feats c) else c_feats c.

Lemma plan_call_heap : forall vr u fuel w c, exists h,
  Inv (work_addrs w c) (work_heap w c) h /\
  hF (fst (plan_call_v vr u fuel w c)) = firstn (List.length (hF w)) (fst h) /\
  hO (fst (plan_call_v vr u fuel w c)) = firstn (List.length (hO w)) (snd h).
Proof.
  intros vr u fuel w c. unfold plan_call_v, traverse_v. fold (work_heap w c). fold (work_addrs w c).
  pose proof (Inv_phase1 (work_addrs w c) (work_heap w c) (c_api c) (c_strict c) (work_addrs w c) (work_heap w c)
                (Inv_init _ _) (incl_refl _)) as I1.
  destruct (phase1 (c_api c) (c_strict c) (work_heap w c) (work_addrs w c)) as [h1 [e|]]; cbn [fst] in I1.
  - exists h1. cbn. auto.
  - pose proof (Inv_phase2 (work_addrs w c) (work_heap w c) vr u fuel (c_filter c) (work_addrs w c)
                  {| p_heap := h1; p_r := rst0 (w_filters w) (c_hz c) |} I1 (incl_refl _)) as I2.
    destruct (phase2 vr u fuel (c_filter c) {| p_heap := h1; p_r := rst0 (w_filters w) (c_hz c) |} (work_addrs w c)) as [st e].
    cbn [fst] in I2. destruct (c_links c && negb (validate_links (w_links w))).
    + exists h1. cbn. auto.
    + exists (p_heap st). cbn. auto.
Qed.

Lemma firstn_app_exact : forall A (l l' : list A), firstn (List.length l) (l ++ l') = l.
Proof. intros. rewrite firstn_app, Nat.sub_diag, firstn_all. cbn. apply app_nil_r. Qed.

(* copy_features=True: the caller's Feature and Options objects are exactly what they were (every variant) *)
Lemma copy_features_frame_v_l : forall vr u fuel w c, c_copy c = true ->
  hF (fst (plan_call_v vr u fuel w c)) = hF w /\ hO (fst (plan_call_v vr u fuel w c)) = hO w.
Proof.
  intros vr u fuel w c Hc. destruct (plan_call_heap vr u fuel w c) as (h & (L1 & L2 & IF & IO) & EF & EO).
  unfold work_heap, work_addrs in *. rewrite Hc in *. unfold deepcopy_heap in *. cbn [fst snd] in *.
  rewrite EF, EO. split.
  - rewrite <- (firstn_app_exact _ (hF w) (map (shiftF (List.length (hO w))) (hF w))) at 2.
    apply firstn_pointwise.
    + rewrite app_length. lia.
    + rewrite L1, app_length. lia.
    + intros a Ha.
      destruct (nth_error (hF w ++ map (shiftF (List.length (hO w))) (hF w)) a) as [f0|] eqn:E0.
      2:{ apply nth_error_None in E0. rewrite app_length in E0. lia. }
      destruct (nth_error (fst h) a) as [f|] eqn:E.
      2:{ apply nth_error_None in E. rewrite L1, app_length in E. lia. }
      destruct (IF a f0 f E0 E) as [_ Eq]. f_equal. apply Eq.
      intros Hin. apply in_map_iff in Hin. destruct Hin as (x & Hx & _). lia.
  - rewrite <- (firstn_app_exact _ (hO w) (hO w)) at 2.
    apply firstn_pointwise.
    + rewrite app_length. lia.
    + rewrite L2, app_length. lia.
    + intros oa Ha.
      destruct (nth_error (hO w ++ hO w) oa) as [o0|] eqn:E0.
      2:{ apply nth_error_None in E0. rewrite app_length in E0. lia. }
      destruct (nth_error (snd h) oa) as [o|] eqn:E.
      2:{ apply nth_error_None in E. rewrite L2, app_length in E. lia. }
      destruct (IO oa o0 o E0 E) as [_ Eq]. f_equal. apply Eq.
      intros a f0 Hin Hf0. apply in_map_iff in Hin. destruct Hin as (x & Hx & _). subst a.
      rewrite nth_error_app2 in Hf0 by lia.
      replace (x + List.length (hF w) - List.length (hF w)) with x in Hf0 by lia.
      rewrite nth_error_map in Hf0. destruct (nth_error (hF w) x); [|discriminate]. cbn in Hf0. injection Hf0 as <-.
      cbn. lia.
Qed.
Lemma copy_features_frame_l : forall u fuel w c, c_copy c = true ->
  hF (fst (plan_call u fuel w c)) = hF w /\ hO (fst (plan_call u fuel w c)) = hO w.
Proof. exact (copy_features_frame_v_l as_implemented). Qed.

(* ... and over any sequence of such calls *)
Lemma copy_features_frame_history_l : forall u fuel cs w, forallb c_copy cs = true ->
  hF (after world call outcome (plan_call u fuel) w cs) = hF w /\ hO (after world call outcome (plan_call u fuel) w cs) = hO w.
Proof.
  intros u fuel cs. induction cs as [|c cs IH]; intros w H; [split; reflexivity|].
  cbn in H. apply andb_true_iff in H. destruct H as [Hc Hcs]. cbn [after].
  destruct (IH (fst (plan_call u fuel w c)) Hcs) as [A B]. destruct (copy_features_frame_l u fuel w c Hc) as [C D].
  split; congruence.
Qed.

(* ------------------------------------------------------------------ the links set and the GlobalFilter are only read *)
(* the links set and the collection: every variant.  The filter objects: as soon as ONE of the two copies is made --
   the Engine's deepcopy of the GlobalFilter, or identity_matched_filters working on a copy of each filter. *)
Lemma caller_containers_untouched_v_l : forall vr u fuel w c,
  w_links (fst (plan_call_v vr u fuel w c)) = w_links w /\ w_coll (fst (plan_call_v vr u fuel w c)) = w_coll w.
Proof.
  intros vr u fuel w c. unfold plan_call_v. destruct (traverse_v vr u fuel w c) as [h1 [e|[st e]]]; [cbn; auto|].
  destruct (c_links c && negb (validate_links (w_links w))); cbn; auto.
Qed.

Lemma filter_objects_frame_v_l : forall vr u fuel w c, v_engine_deepcopy vr = true \/ v_domain_on_copy vr = true ->
  w_filters (fst (plan_call_v vr u fuel w c)) = w_filters w.
Proof.
  intros vr u fuel w c Hv.
  assert (EF : v_engine_deepcopy vr = false -> call_engine_filters_v vr u fuel w c = w_filters w).
  { intros Hd. destruct Hv as [Hv|Hv]; [congruence | apply engine_filters_invariant_l; exact Hv]. }
  unfold plan_call_v, call_engine_filters_v in *. destruct (traverse_v vr u fuel w c) as [h1 [e|[st e]]].
  - cbn. destruct (v_engine_deepcopy vr); reflexivity.
  - destruct (c_links c && negb (validate_links (w_links w))); cbn; destruct (v_engine_deepcopy vr); auto.
Qed.

Lemma caller_objects_untouched_l : forall u fuel w c,
  w_links (fst (plan_call u fuel w c)) = w_links w /\
  w_filters (fst (plan_call u fuel w c)) = w_filters w /\
  w_coll (fst (plan_call u fuel w c)) = w_coll w.
Proof.
  intros u fuel w c. destruct (caller_containers_untouched_v_l as_implemented u fuel w c) as [A B].
  split; [exact A|]. split; [|exact B]. apply (filter_objects_frame_v_l as_implemented). left; reflexivity.
Qed.

Lemma links_set_untouched_l : forall u fuel w c, w_links (fst (plan_call u fuel w c)) = w_links w.
Proof. intros u fuel w c. exact (proj1 (caller_objects_untouched_l u fuel w c)). Qed.
Lemma filter_object_untouched_l : forall u fuel w c,
  w_filters (fst (plan_call u fuel w c)) = w_filters w /\ w_coll (fst (plan_call u fuel w c)) = w_coll w.
Proof. intros u fuel w c. exact (proj2 (caller_objects_untouched_l u fuel w c)). Qed.

(* what prepare / run_all writes into the caller's Feature and Options objects, for both values of copy_features:
   lengths kept; name, domain, options reference, uuid, link of a feature and the context of an Options object never
   written; flag only raised, compute_frameworks only set when unset, data_type only set when unset; group options only
   extended by the keys ApiInputData / strict_type_enforcement; and nothing at all unless copy_features=False and the
   object is a requested feature / the Options object of a requested feature. *)
Lemma prepare_args_effect_l : forall u fuel w c,
  Inv (if c_copy c then [] else c_feats c) (hF w, hO w)
      (hF (fst (plan_call u fuel w c)), hO (fst (plan_call u fuel w c))).
Proof.
  intros u fuel w c. destruct (c_copy c) eqn:Hc.
  - destruct (copy_features_frame_l u fuel w c Hc) as [-> ->]. apply Inv_init.
  - destruct (plan_call_heap as_implemented u fuel w c) as (h & HI & EF & EO). fold plan_call in EF, EO.
    unfold work_heap, work_addrs in HI. rewrite Hc in HI. destruct HI as (L1 & L2 & IF & IO). cbn [fst snd] in *.
    assert (E1 : firstn (List.length (hF w)) (fst h) = fst h) by (rewrite <- L1; apply firstn_all).
    assert (E2 : firstn (List.length (hO w)) (snd h) = snd h) by (rewrite <- L2; apply firstn_all).
    rewrite EF, EO, E1, E2. split; [exact L1|]. split; [exact L2|]. split; [exact IF | exact IO].
Qed.

Lemma prepare_args_effect_full_l : forall u fuel w c,
  Inv (if c_copy c then [] else c_feats c) (hF w, hO w)
      (hF (fst (plan_call u fuel w c)), hO (fst (plan_call u fuel w c))) /\
  w_links (fst (plan_call u fuel w c)) = w_links w /\
  w_filters (fst (plan_call u fuel w c)) = w_filters w /\
  w_coll (fst (plan_call u fuel w c)) = w_coll w.
Proof.
  intros u fuel w c. split; [exact (prepare_args_effect_l u fuel w c) | exact (caller_objects_untouched_l u fuel w c)].
Qed.

Lemma key_eqb_eq : forall a b, key_eqb a b = true <-> a = b.
Proof.
  intros [a1 a2] [b1 b2]. unfold key_eqb; cbn. rewrite andb_true_iff, Nat.eqb_eq, String.eqb_eq.
  split; [intros [-> ->]; reflexivity | intros H; injection H as -> ->; auto].
Qed.

Lemma link_add_incl : forall s x, incl s (link_add s x).
Proof. intros s x y Hy. unfold link_add. destruct (link_in x s); [exact Hy | apply in_or_app; left; exact Hy]. Qed.
Lemma link_add_new : forall s x y, In y (link_add s x) -> In y s \/ y = x.
Proof.
  intros s x y H. unfold link_add in H. destruct (link_in x s); [left; exact H|].
  apply in_app_or in H. destruct H as [H|[H|[]]]; auto.
Qed.

(* the links the Engine adds to ITS set during a call *)
Definition call_ladds (u : universe) (fuel : nat) (w : world) (c : call) : list link :=
  match traverse u fuel w c with (_, inr (st, _)) => r_ladds (p_r st) | (_, inl _) => [] end.

(* ------------------------------------------------------------------ invariants of the traversal *)
Definition PInv (st : rst) : Prop :=
  (forall x, In x (r_ladds st) -> exists p, In p (r_stored st) /\ pf_link p = Some x) /\
  (forall kx, In kx (r_fadds st) -> touches (r_stored st) (fst kx) = true).

Lemma touches_incl : forall s s' k, incl s s' -> touches s k = true -> touches s' k = true.
Proof.
  intros s s' k Hi H. unfold touches in *. apply existsb_exists in H. destruct H as (p & Hp & E).
  apply existsb_exists. exists p. split; [apply Hi; exact Hp | exact E].
Qed.

Lemma PInv_ext : forall st st', r_stored st' = r_stored st -> r_ladds st' = r_ladds st -> r_fadds st' = r_fadds st ->
  PInv st -> PInv st'.
Proof. intros st st' A B C [P Q]. split; [rewrite A, B; exact P | rewrite A, C; exact Q]. Qed.

Lemma seek_spec : forall p st s, seek p st = inr s ->
  r_stored s = r_stored st /\ r_ladds s = r_ladds st /\ r_fadds s = r_fadds st.
Proof.
  intros p st s H. unfold seek in H. destruct (existsb _ _); [|injection H as <-; auto].
  destruct (r_hz st); [discriminate | injection H as <-; auto].
Qed.

Lemma record_one_spec : forall gid n ir st x s, record_one gid n ir st x = inr s ->
  PInv st -> touches (r_stored st) (gid, n) = true ->
  PInv s /\ incl (r_stored st) (r_stored s) /\ r_ladds s = r_ladds st.
Proof.
  intros gid n ir st x s H HP HT. unfold record_one in H.
  set (ff := {| pf_gid := gid; pf_name := ft_name x; pf_g := ft_opts x; pf_c := []; pf_link := None; pf_dtype := None;
                pf_child := None; pf_dom := ft_dom x |}) in *.
  assert (K : forall stored', incl (r_stored st) stored' ->
            PInv {| r_stored := stored'; r_ladds := r_ladds st; r_fadds := r_fadds st ++ [((gid, n), x)];
                    r_flts := r_flts st; r_hz := r_hz st |}).
  { intros stored' Hi. destruct HP as [A B]. split; cbn [r_ladds r_fadds r_stored].
    - intros y Hy. destruct (A y Hy) as (p & Hp & E). exists p. split; [apply Hi; exact Hp | exact E].
    - intros kx Hk. apply in_app_or in Hk. destruct Hk as [Hk|[<-|[]]].
      + eapply touches_incl; [exact Hi | apply B; exact Hk].
      + cbn [fst]. eapply touches_incl; [exact Hi | exact HT]. }
  destruct (stored_in ff (r_stored st)).
  - destruct ir.
    + destruct (seek_spec _ _ _ H) as (A & B & C). split; [|split].
      * exact (PInv_ext _ s A B C (K (r_stored st) (incl_refl _))).
      * rewrite A. cbn. apply incl_refl.
      * rewrite B. reflexivity.
    + injection H as <-. split; [apply (K (r_stored st)), incl_refl | split; [apply incl_refl | reflexivity]].
  - injection H as <-. split; [apply K, incl_appl, incl_refl | split; [cbn; apply incl_appl, incl_refl | reflexivity]].
Qed.

Lemma record_matches_spec : forall gid n ir ms st s, record_matches gid n ir ms st = inr s ->
  PInv st -> touches (r_stored st) (gid, n) = true ->
  PInv s /\ incl (r_stored st) (r_stored s) /\ r_ladds s = r_ladds st.
Proof.
  intros gid n ir. induction ms as [|x ms IH]; intros st s H HP HT; cbn [record_matches] in H.
  - injection H as <-. auto using incl_refl.
  - destruct (record_one gid n ir st x) as [e|st1] eqn:E; [discriminate|].
    destruct (record_one_spec _ _ _ _ _ _ E HP HT) as (P1 & I1 & L1).
    destruct (IH st1 s H P1 (touches_incl _ _ _ I1 HT)) as (P2 & I2 & L2).
    split; [exact P2|]. split; [eapply incl_tran; eassumption | congruence].
Qed.

Lemma add_filter_feature_spec : forall vr u st gi n fdom fcfw g c ir s,
  add_filter_feature vr u st gi n fdom fcfw g c ir = inr s ->
  PInv st -> touches (r_stored st) (gi_id gi, n) = true ->
  PInv s /\ incl (r_stored st) (r_stored s) /\ r_ladds s = r_ladds st.
Proof.
  intros vr u st gi n fdom fcfw g c ir s H HP HT. unfold add_filter_feature in H.
  destruct (identity_matched _ _ _ _ _ _ _ _ _) as [e|[fl' ms]]; [discriminate|].
  apply (record_matches_spec _ _ _ _ _ _ H).
  - destruct HP as [A B]. split; cbn; assumption.
  - exact HT.
Qed.

Lemma pf_eqb_key : forall p q, pf_eqb p q = true -> pf_gid p = pf_gid q /\ pf_name p = pf_name q.
Proof.
  intros p q H. unfold pf_eqb in H. rewrite !andb_true_iff in H. destruct H as [[[[[[H1 H2] _] _] _] _] _].
  apply Nat.eqb_eq in H1. apply String.eqb_eq in H2. auto.
Qed.

Lemma proc_spec : forall vr u uf fuel st n dom rcf g c l dt0 child s,
  PInv st -> proc vr u uf fuel st n dom rcf g c l dt0 child = inr s -> PInv s /\ incl (r_stored st) (r_stored s).
Proof.
  intros vr u uf fuel. induction fuel as [|k IH]; intros st n dom rcf g c l dt0 child s HP H; [discriminate|].
  cbn [proc] in H. destruct (resolve u n dom rcf g c) as [e0|gi]; [discriminate|].
  set (p := {| pf_gid := gi_id gi; pf_name := n; pf_g := g; pf_c := c; pf_link := l;
               pf_dtype := match dt0 with Some a => Some a | None => gi_dtype gi end; pf_child := child; pf_dom := dom |}) in *.
  match type of H with match ?X with _ => _ end = _ => destruct X as [e1|s1] eqn:E1 end; [discriminate|].
  assert (G : PInv s1 /\ incl (r_stored st) (r_stored s1) /\ touches (r_stored s1) (gi_id gi, n) = true).
  { destruct (stored_in p (r_stored st)) eqn:Es.
    - destruct (seek_spec _ _ _ E1) as (A & B & C).
      split; [exact (PInv_ext st s1 A B C HP)|]. rewrite A. split; [apply incl_refl|].
      unfold stored_in in Es. apply existsb_exists in Es. destruct Es as (q & Hq & Eq).
      apply pf_eqb_key in Eq. cbn in Eq. destruct Eq as [E3 E2].
      unfold touches. apply existsb_exists. exists q. split; [exact Hq|]. cbn.
      rewrite <- E3, <- E2, Nat.eqb_refl, String.eqb_refl. reflexivity.
    - set (st0 := {| r_stored := r_stored st ++ [p];
                     r_ladds := match l with Some x => r_ladds st ++ [x] | None => r_ladds st end;
                     r_fadds := r_fadds st; r_flts := r_flts st; r_hz := r_hz st |}) in *.
      assert (P0 : PInv st0).
      { destruct HP as [A B]. split; cbn [st0 r_stored r_ladds r_fadds].
        - intros x Hx. assert (Hx' : In x (r_ladds st) \/ l = Some x).
          { destruct l as [y|]; [apply in_app_or in Hx; destruct Hx as [Hx|[<-|[]]]; auto | auto]. }
          destruct Hx' as [Hx'| ->].
          + destruct (A x Hx') as (q & Hq & E). exists q. split; [apply in_or_app; left; exact Hq | exact E].
          + exists p. split; [apply in_or_app; right; left; reflexivity | reflexivity].
        - intros kx Hk. eapply touches_incl; [apply incl_appl, incl_refl | apply B; exact Hk]. }
      assert (I0 : incl (r_stored st) (r_stored st0)) by (cbn; apply incl_appl, incl_refl).
      assert (T0 : touches (r_stored st0) (gi_id gi, n) = true).
      { unfold touches. apply existsb_exists. exists p. split; [cbn; apply in_or_app; right; left; reflexivity|].
        cbn. rewrite Nat.eqb_refl, String.eqb_refl. reflexivity. }
      revert E1. generalize (gi_inputs gi) as ins. generalize dependent st0. clear Es.
      intros st0 P0 I0 T0 ins. revert st0 P0 I0 T0.
      induction ins as [|il ins IHi]; intros st0 P0 I0 T0 E1.
      + cbn in E1. injection E1 as <-. auto.
      + cbn [fold_left] in E1.
        destruct (proc vr u uf k st0 (i_name il) (eff_dom il dom) None g [] (i_link il) None (Some g)) as [e2|s2] eqn:E2.
        * rewrite fold_inl in E1 by reflexivity. discriminate.
        * destruct (IH _ _ _ _ _ _ _ _ _ _ P0 E2) as [P2 I2].
          apply (IHi s2 P2 (incl_tran I0 I2) (touches_incl _ _ _ I2 T0) E1). }
  destruct G as (P1 & I1 & T1). destruct uf.
  - destruct (add_filter_feature_spec _ _ _ _ _ _ _ _ _ _ _ H P1 T1) as (P2 & I2 & _).
    split; [exact P2 | eapply incl_tran; eassumption].
  - injection H as <-. split; assumption.
Qed.

Lemma phase2_spec : forall vr u fuel uf l st, PInv (p_r st) -> PInv (p_r (fst (phase2 vr u fuel uf st l))).
Proof.
  intros vr u fuel uf l. induction l as [|a l IH]; intros st HP; [exact HP|]. cbn [phase2].
  assert (H1 : PInv (p_r (fst (phase2_one vr u fuel uf st a)))).
  { unfold phase2_one. destruct (nth_error _ a) as [f|]; [|exact HP]. destruct (nth_error _ (f_opt f)) as [o|]; [|exact HP].
    destruct (resolve _ _ _ _ _ _) as [e0|gi]; [exact HP|]. destruct (cfw_check f gi) as [e|cf]; [exact HP|].
    destruct (dtype_check f gi) as [dt|]; [|exact HP].
    destruct (proc vr u uf fuel (p_r st) (f_name f) (f_dom f) (f_cfw f) (og o) (oc o) (f_link f) dt None) as [e|r] eqn:E; [exact HP|].
    cbn. apply (proc_spec _ _ _ _ _ _ _ _ _ _ _ _ _ _ HP E). }
  destruct (phase2_one vr u fuel uf st a) as [st' [e|]]; cbn [fst] in *; [exact H1 | apply IH; exact H1].
Qed.

Lemma PInv_rst0 : forall fl hz, PInv (rst0 fl hz).
Proof. intros fl hz. split; intros ? []. Qed.

(* every link the call adds to the caller's set is the link attached to a feature the call stored, and every key under
   which it records a filter is (group, name) of a feature it stored *)
Lemma call_adds_provenance_l : forall u fuel w c,
  (forall x, In x (call_ladds u fuel w c) -> exists p, In p (snd (call_products u fuel w c)) /\ pf_link p = Some x) /\
  (forall kx, In kx (fst (call_products u fuel w c)) -> touches (snd (call_products u fuel w c)) (fst kx) = true).
Proof.
  intros u fuel w c. unfold call_ladds, call_products, call_products_v, traverse, traverse_v.
  destruct (phase1 _ _ _ _) as [h1 [e|]]; [split; intros ? []|].
  pose proof (phase2_spec as_implemented u fuel (c_filter c)
                (if c_copy c then map (fun a => a + List.length (hF w)) (c_feats c) else c_feats c)
                {| p_heap := h1; p_r := rst0 (w_filters w) (c_hz c) |} (PInv_rst0 _ _)) as HP.
  destruct (phase2 _ _ _ _ _ _) as [st e]. exact HP.
Qed.

(* ------------------------------------------------------------------ the order of the links set is irrelevant *)
Lemma list_eqb_eq : forall A (e : A -> A -> bool), (forall x y, e x y = true <-> x = y) ->
  forall a b, list_eqb e a b = true <-> a = b.
Proof.
  intros A e He. induction a as [|x a IH]; intros [|y b]; cbn; try (split; [discriminate | discriminate]); [tauto|].
  rewrite andb_true_iff, He, IH. split; [intros [-> ->]; reflexivity | intros H; injection H as -> ->; auto].
Qed.
Lemma link_eqb_eq : forall a b, link_eqb a b = true <-> a = b.
Proof.
  intros [j1 l1 r1 a1 b1] [j2 l2 r2 a2 b2]. unfold link_eqb; cbn.
  rewrite !andb_true_iff, !Nat.eqb_eq, !(list_eqb_eq _ String.eqb String.eqb_eq).
  split; [intros [[[[-> ->] ->] ->] ->]; reflexivity | intros H; injection H as -> -> -> -> ->; auto].
Qed.
Lemma link_in_In : forall x s, link_in x s = true <-> In x s.
Proof.
  intros x s. unfold link_in. rewrite existsb_exists. split.
  - intros (y & Hy & E). apply link_eqb_eq in E. subst. exact Hy.
  - intros H. exists x. split; [exact H | apply link_eqb_eq; reflexivity].
Qed.
Lemma links_sub_incl : forall a b, links_sub a b = true <-> incl a b.
Proof.
  intros a b. unfold links_sub. rewrite forallb_forall. split; intros H x Hx; [apply link_in_In, H, Hx | apply link_in_In, H, Hx].
Qed.
Definition same_links (a b : list link) : Prop := forall x, In x a <-> In x b.
Lemma links_eqb_same : forall a b, links_eqb a b = true <-> same_links a b.
Proof.
  intros a b. unfold links_eqb. rewrite andb_true_iff, !links_sub_incl. unfold same_links, incl. split.
  - intros [H1 H2] x. split; auto.
  - intros H. split; intros x; apply H.
Qed.

Lemma link_add_In : forall s x y, In y (link_add s x) <-> In y s \/ y = x.
Proof.
  intros s x y. split; [apply link_add_new|]. intros [H| ->]; [apply link_add_incl; exact H|].
  unfold link_add. destruct (link_in x s) eqn:E; [apply link_in_In; exact E | apply in_or_app; right; left; reflexivity].
Qed.
Lemma apply_links_In : forall log L y, In y (apply_links L log) <-> In y L \/ In y log.
Proof.
  induction log as [|x log IH]; intros L y; [cbn; tauto|].
  change (apply_links L (x :: log)) with (apply_links (link_add L x) log). rewrite IH, link_add_In. cbn.
  intuition congruence.
Qed.
Lemma apply_links_same : forall L1 L2 log, same_links L1 L2 -> same_links (apply_links L1 log) (apply_links L2 log).
Proof. intros L1 L2 log H x. rewrite !apply_links_In, (H x). tauto. Qed.

Lemma forallb_same : forall A (f : A -> bool) a b, (forall x, In x a <-> In x b) -> forallb f a = forallb f b.
Proof.
  intros A f a b H. destruct (forallb f a) eqn:E1, (forallb f b) eqn:E2; try reflexivity.
  - rewrite forallb_forall in E1. assert (forallb f b = true) by (apply forallb_forall; intros x Hx; apply E1, H, Hx). congruence.
  - rewrite forallb_forall in E2. assert (forallb f a = true) by (apply forallb_forall; intros x Hx; apply E2, H, Hx). congruence.
Qed.
Lemma forallb_ext' : forall A (f g : A -> bool) l, (forall x, f x = g x) -> forallb f l = forallb g l.
Proof. intros A f g l H. induction l as [|x l IH]; [reflexivity|]. cbn. rewrite H, IH. reflexivity. Qed.
Lemma validate_links_same : forall a b, same_links a b -> validate_links a = validate_links b.
Proof.
  intros a b H. unfold validate_links. rewrite (forallb_same _ _ a b H).
  apply forallb_ext'. intros i. apply forallb_same. exact H.
Qed.

(* outcomes up to the order of the links set *)
Definition outcome_sim (o1 o2 : outcome) : Prop :=
  match o1, o2 with
  | Accepted s1 l1, Accepted s2 l2 => s1 = s2 /\ same_links l1 l2
  | Failed e1, Failed e2 => e1 = e2
  | _, _ => False
  end.
Lemma outcome_sim_refl : forall o, outcome_sim o o.
Proof. intros [s l|e]; cbn; [split; [reflexivity | intros x; tauto] | reflexivity]. Qed.

(* two worlds that differ only in the ORDER of the links set (and not at all when links=None is passed) *)
Lemma links_reuse_partial_l : forall u fuel w1 w2 c,
  hF w1 = hF w2 -> hO w1 = hO w2 -> w_filters w1 = w_filters w2 -> w_coll w1 = w_coll w2 ->
  (c_links c = true -> same_links (w_links w1) (w_links w2)) ->
  outcome_sim (snd (plan_call u fuel w1 c)) (snd (plan_call u fuel w2 c)).
Proof.
  intros u fuel w1 w2 c EF EO Ef Ec HL. unfold plan_call.
  assert (ET : traverse_v as_implemented u fuel w1 c = traverse_v as_implemented u fuel w2 c)
    by (unfold traverse_v; rewrite EF, EO, Ef; reflexivity).
  unfold plan_call_v. rewrite ET. cbn [v_engine_deepcopy as_implemented]. rewrite Ec.
  destruct (traverse_v as_implemented u fuel w2 c) as [h1 [e|[st e]]]; [cbn; reflexivity|].
  destruct (c_links c) eqn:El; cbn [andb].
  - rewrite (validate_links_same _ _ (HL eq_refl)). destruct (negb (validate_links (w_links w2))); [cbn; reflexivity|].
    cbn [snd]. destruct e as [e|]; [cbn; reflexivity|].
    pose proof (apply_links_same _ _ (r_ladds (p_r st)) (HL eq_refl)) as HS.
    unfold filter_outcome. destruct (c_filter c).
    + destruct (attach _ _ _); cbn; [split; [reflexivity | exact HS] | reflexivity].
    + cbn. split; [reflexivity | exact HS].
  - cbn [snd]. apply outcome_sim_refl.
Qed.

(* ------------------------------------------------------------------ histories *)
Notation after_w u fuel := (after world call outcome (plan_call u fuel)).

Lemma world_eq : forall w w', hF w' = hF w -> hO w' = hO w -> w_links w' = w_links w -> w_filters w' = w_filters w ->
  w_coll w' = w_coll w -> w' = w.
Proof. intros [a b c d e] [a' b' c' d' e']; cbn; intros; subst; reflexivity. Qed.

(* a call with copy_features=True leaves the whole world of the caller as it was *)
Lemma call_leaves_world_l : forall u fuel w c, c_copy c = true -> fst (plan_call u fuel w c) = w.
Proof.
  intros u fuel w c Hc. destruct (copy_features_frame_l u fuel w c Hc) as [A B].
  destruct (caller_objects_untouched_l u fuel w c) as (C & D & E). apply world_eq; assumption.
Qed.

Lemma history_leaves_world_l : forall u fuel cs w, forallb c_copy cs = true -> after_w u fuel w cs = w.
Proof.
  intros u fuel cs. induction cs as [|c cs IH]; intros w H; [reflexivity|]. cbn in H. apply andb_true_iff in H.
  destruct H as [Hc Hcs]. cbn [after]. rewrite (call_leaves_world_l u fuel w c Hc). apply IH. exact Hcs.
Qed.

(* The reuse half of the property at full strength: after ANY sequence of copy_features=True calls, a call given the same
   Feature / Options / links / GlobalFilter objects returns exactly what it returns given the pristine objects (and
   leaves them in the same state). *)
Lemma args_reuse_l : forall u fuel w0 cs c, forallb c_copy cs = true ->
  plan_call u fuel (after_w u fuel w0 cs) c = plan_call u fuel w0 c.
Proof. intros u fuel w0 cs c H. rewrite (history_leaves_world_l u fuel cs w0 H). reflexivity. Qed.

Lemma args_prefix_independent_l : forall u fuel w0,
  prefix_independent world call outcome (plan_call u fuel) (fun _ pre _ => forallb c_copy pre = true) eq w0.
Proof. intros u fuel w0 pre c H. cbv beta in H. rewrite (args_reuse_l u fuel w0 pre c H). reflexivity. Qed.


(* whatever copy_features is, however the calls end: the caller's links set, filter objects (every modelled attribute:
   name, options, type, parameter, domain, compute_frameworks) and filter collection are, after any sequence of calls,
   what they were *)
Lemma containers_frame_history_l : forall u fuel cs w,
  w_links (after_w u fuel w cs) = w_links w /\ w_filters (after_w u fuel w cs) = w_filters w /\
  w_coll (after_w u fuel w cs) = w_coll w.
Proof.
  intros u fuel cs. induction cs as [|c cs IH]; intros w; [auto|]. cbn [after].
  destruct (IH (fst (plan_call u fuel w c))) as (A & B & C). destruct (caller_objects_untouched_l u fuel w c) as (D & E & F).
  repeat split; congruence.
Qed.

(* the same for every variant that makes at least one of the two copies *)
Lemma filter_objects_frame_history_v_l : forall vr u fuel, v_engine_deepcopy vr = true \/ v_domain_on_copy vr = true ->
  forall cs w, w_filters (after world call outcome (plan_call_v vr u fuel) w cs) = w_filters w.
Proof.
  intros vr u fuel Hv cs. induction cs as [|c cs IH]; intros w; [reflexivity|]. cbn [after].
  rewrite IH. apply filter_objects_frame_v_l. exact Hv.
Qed.

(* the matched filters of a call are a function of the universe, the Feature / Options objects and the filter objects *)
Lemma matched_reads_l : forall vr u fuel w1 w2 c, hF w1 = hF w2 -> hO w1 = hO w2 -> w_filters w1 = w_filters w2 ->
  call_matched_v vr u fuel w1 c = call_matched_v vr u fuel w2 c.
Proof.
  intros vr u fuel w1 w2 c A B C. unfold call_matched_v, call_products_v, traverse_v. rewrite A, B, C. reflexivity.
Qed.

(* hence, after any sequence of calls sharing the argument objects, each call's matched-filter set is that of the same
   call given fresh equal arguments *)
Lemma matched_filters_reuse_l : forall u fuel w0 cs c, forallb c_copy cs = true ->
  call_matched u fuel (after_w u fuel w0 cs) c = call_matched u fuel w0 c.
Proof. intros u fuel w0 cs c H. rewrite (history_leaves_world_l u fuel cs w0 H). reflexivity. Qed.

(* copy_features=False calls in between may have written the requested FEATURES; the filters a later call is matched
   against are the pristine ones all the same *)
Lemma matched_filters_reuse_any_l : forall u fuel w0 cs c,
  call_matched u fuel (after_w u fuel w0 cs) c
  = call_matched u fuel {| hF := hF (after_w u fuel w0 cs); hO := hO (after_w u fuel w0 cs); w_links := w_links w0;
                           w_filters := w_filters w0; w_coll := w_coll w0 |} c.
Proof.
  intros u fuel w0 cs c. destruct (containers_frame_history_l u fuel cs w0) as (_ & B & _).
  apply matched_reads_l; cbn; auto.
Qed.
(* ------------------------------------------------------------------ concrete instances (closed terms, vm_compute) *)
Open Scope string_scope.
Definition gR (i : nat) : ginfo :=
  {| gi_id := i; gi_cfw := [0]; gi_api := false; gi_dtype := None; gi_inputs := []; gi_dom := 0 |}.
Definition inp0 (n : string) : inp := {| i_name := n; i_link := None; i_dom := None |}.
(* group 0: root with columns a, b;  group 1: root with column c;  group 2: g1 = f(a, c) *)
Definition exu : universe :=
  [("a", gR 0); ("b", gR 0); ("c", gR 1);
   ("g1", {| gi_id := 2; gi_cfw := [0]; gi_api := false; gi_dtype := None; gi_inputs := [inp0 "a"; inp0 "c"]; gi_dom := 0 |})].
Definition mkfd (n : string) (o : nat) (l : option link) (d : option nat) : fobj :=
  {| f_name := n; f_opt := o; f_cfw := None; f_flag := false; f_dtype := None; f_uuid := 0; f_link := l; f_dom := d |}.
Definition mkf (n : string) (o : nat) (l : option link) : fobj := mkfd n o l None.
Definition Linner : link := {| l_jt := 0; l_left := 0; l_right := 1; l_li := ["k"]; l_ri := ["j"] |}.
Definition Lleft : link := {| l_jt := 1; l_left := 0; l_right := 1; l_li := ["k"]; l_ri := ["j"] |}.
Definition mkflt (n : string) (d : option nat) (cf : option (list nat)) : flt :=
  {| ft_name := n; ft_opts := []; ft_type := "min"; ft_param := [("value", 20%Z)]; ft_dom := d; ft_cfw := cf |}.
Definition fb : flt := mkflt "b" None None.
(* the caller's objects: F0 = b{x:1}, F1 = a{x:2}, F2 = a{x:1}, F3 = b{x:2}, F4 = a with link inner(0,1), F5 = g1,
   F6 = a with link left(0,1); Options O0 = {x:1}, O1 = {x:2}, O2 = {}; a GlobalFilter with the filter b >= 20 *)
Definition exw (links : list link) : world :=
  {| hF := [mkf "b" 0 None; mkf "a" 1 None; mkf "a" 0 None; mkf "b" 1 None; mkf "a" 2 (Some Linner); mkf "g1" 2 None;
            mkf "a" 2 (Some Lleft)];
     hO := [ {| og := [("x", VZ 1)]; oc := [] |}; {| og := [("x", VZ 2)]; oc := [] |}; {| og := []; oc := [] |} ];
     w_links := links; w_filters := [fb]; w_coll := [] |}.
Definition cl (fs : list nat) (copy lnk fil : bool) (api : option cols) : call :=
  {| c_feats := fs; c_copy := copy; c_strict := false; c_api := api; c_links := lnk; c_filter := fil; c_hz := 100 |}.
Definition is_accepted (o : outcome) : bool := match o with Accepted _ _ => true | _ => false end.
Definition seen_links (o : outcome) : list link := match o with Accepted _ l => l | _ => [] end.

(* the former witnesses of the two repaired findings now behave like fresh objects:
   [b{x:1}] then [a{x:2}] with the same GlobalFilter; [a{x:1}] then [a{x:2}, b{x:2}]; a feature carrying a Link and the
   caller's (empty) set S, then g1 with S; S = {inner}, a feature carrying left(0,1), then g1 with S *)
Lemma former_witnesses_l :
  let run2 w c1 c2 := snd (plan_call exu 8 (fst (plan_call exu 8 w c1)) c2) in
  is_accepted (run2 (exw []) (cl [0] true false true None) (cl [1] true false true None)) = true /\
  is_accepted (run2 (exw []) (cl [2] true false true None) (cl [1; 3] true false true None)) = true /\
  w_coll (fst (plan_call exu 8 (exw []) (cl [2] true false true None))) = [] /\
  w_links (fst (plan_call exu 8 (exw []) (cl [4] true true false None))) = [] /\
  seen_links (snd (plan_call exu 8 (exw []) (cl [4] true true false None))) = [Linner] /\
  seen_links (run2 (exw []) (cl [4] true true false None) (cl [5] true true false None)) = [] /\
  w_links (fst (plan_call exu 8 (exw [Linner]) (cl [6] true true false None))) = [Linner] /\
  is_accepted (run2 (exw [Linner]) (cl [6] true true false None) (cl [5] true true false None)) = true.
Proof. vm_compute. repeat split; reflexivity. Qed.

(* copy_features=False: the feature and its Options object are written (flag, compute framework, ApiInputData key); passing
   the same feature again with api data of another shape is rejected by Options.add, a fresh equal feature is accepted *)
Lemma feature_reuse_nocopy_refuted_l :
  let api1 : cols := [("K", ["a"; "b"])] in let api2 : cols := [("K", ["a"; "b"; "z"])] in
  let c1 := cl [1] false false false (Some api1) in let c2 := cl [1] false false false (Some api2) in
  let w1 := fst (plan_call exu 8 (exw []) c1) in
  nth_error (hF w1) 1 = Some {| f_name := "a"; f_opt := 1; f_cfw := Some [0]; f_flag := true; f_dtype := None; f_uuid := 0;
                                f_link := None; f_dom := None |} /\
  nth_error (hO w1) 1 = Some {| og := [("x", VZ 2); (api_key, VCols api1)]; oc := [] |} /\
  snd (plan_call exu 8 w1 c2) = Failed EAddConflict /\ is_accepted (snd (plan_call exu 8 (exw []) c2)) = true /\
  (* the same two calls with copy_features=True *)
  is_accepted (snd (plan_call exu 8 (fst (plan_call exu 8 (exw []) (cl [1] true false false (Some api1))))
                              (cl [1] true false false (Some api2)))) = true.
Proof. vm_compute. repeat split; reflexivity. Qed.

(* a non-trivial instance of args_reuse: filtered calls, a link-carrying feature, then a joined feature *)
Lemma args_reuse_example_l :
  let cs := [cl [2] true false true None; cl [0; 1] true false true None; cl [4] true true false None] in
  let c := cl [5; 2] true true true None in
  after world call outcome (plan_call exu 8) (exw [Linner]) cs = exw [Linner] /\
  is_accepted (snd (plan_call exu 8 (after world call outcome (plan_call exu 8) (exw [Linner]) cs) c)) = true.
Proof. vm_compute. split; reflexivity. Qed.

(* ---- domains.  Group 0: root "sales" (domain 1) with columns v, p;  group 1: root "finance" (domain 2) with columns
   v, q;  group 2: root in the default domain with column w.  The caller's objects: F0 = v@sales, F1 = v@finance, F2 = w,
   F3 = p (no domain; its group has one), F4 = v (no domain: ambiguous); one Options object {}; a GlobalFilter with the
   domain-less filter  v >= 20  (add_filter("v", "min", {"value": 20})). *)
Definition gD (i d : nat) : ginfo :=
  {| gi_id := i; gi_cfw := [0]; gi_api := false; gi_dtype := None; gi_inputs := []; gi_dom := d |}.
Definition exd : universe := [("v", gD 0 1); ("p", gD 0 1); ("v", gD 1 2); ("q", gD 1 2); ("w", gD 2 0)].
Definition fv : flt := mkflt "v" None None.
Definition exwd (fl : list flt) : world :=
  {| hF := [mkfd "v" 0 None (Some 1); mkfd "v" 0 None (Some 2); mkfd "w" 0 None None; mkfd "p" 0 None None;
            mkfd "v" 0 None None];
     hO := [ {| og := []; oc := [] |} ]; w_links := []; w_filters := fl; w_coll := [] |}.
Definition step_filters_of (o : outcome) : list (nat * list flt) :=
  match o with Accepted s _ => map (fun x => (fst (fst x), snd x)) s | Failed _ => [] end.

(* The regression (Engine shares the caller's SingleFilter objects AND domain() is applied to the filter object itself):
   the first call (v@sales) writes domain 1 into the caller's filter; the second call (v@finance) given the same objects
   matches nothing and plans an unfiltered step, given fresh equal objects it matches the filter.  As implemented -- and
   with either one of the two changes alone -- the two calls agree and the caller's filter is untouched. *)
Lemma domain_on_shared_original_refuted_l :
  let c1 := cl [0] true false true None in let c2 := cl [1] true false true None in
  let w1 := fst (plan_call_v regression exd 8 (exwd [fv]) c1) in
  w_filters w1 = [mkflt "v" (Some 1) None] /\
  call_matched_v regression exd 8 w1 c2 = [] /\
  call_matched_v regression exd 8 (exwd [fv]) c2 = [((1, "v"), mkflt "v" (Some 2) (Some [0]))] /\
  step_filters_of (snd (plan_call_v regression exd 8 w1 c2)) = [(1, [])] /\
  step_filters_of (snd (plan_call_v regression exd 8 (exwd [fv]) c2)) = [(1, [mkflt "v" (Some 2) (Some [0])])] /\
  fst (plan_call exd 8 (exwd [fv]) c1) = exwd [fv] /\
  call_matched exd 8 (fst (plan_call exd 8 (exwd [fv]) c1)) c2 = [((1, "v"), mkflt "v" (Some 2) (Some [0]))] /\
  (forall vr, In vr [ {| v_engine_deepcopy := true; v_domain_on_copy := false |};
                      {| v_engine_deepcopy := false; v_domain_on_copy := true |} ] ->
     fst (plan_call_v vr exd 8 (exwd [fv]) c1) = exwd [fv] /\
     call_matched_v vr exd 8 (fst (plan_call_v vr exd 8 (exwd [fv]) c1)) c2 = [((1, "v"), mkflt "v" (Some 2) (Some [0]))]).
Proof.
  vm_compute. repeat (split; [reflexivity|]).
  intros vr [<-|[<-|[]]]; vm_compute; split; reflexivity.
Qed.

(* a non-trivial instance with domains, as implemented: five calls sharing ONE filter object across three domains, an
   ambiguous request (v without domain), a feature without domain in a group with a domain; a filter feature with its own
   domain matches its domain only, and raises for a domain-less feature of another group's domain *)
Lemma domains_example_l :
  let cs := [cl [0] true false true None; cl [1] true false true None; cl [2] true false true None;
             cl [4] true false true None; cl [0; 1] true false true None] in
  after world call outcome (plan_call exd 8) (exwd [fv]) cs = exwd [fv] /\
  map (fun c => step_filters_of (snd (plan_call exd 8 (exwd [fv]) c))) cs
    = [ [(0, [mkflt "v" (Some 1) (Some [0])])]; [(1, [mkflt "v" (Some 2) (Some [0])])]; [(2, [])]; [];
        [(0, [mkflt "v" (Some 1) (Some [0])]); (1, [mkflt "v" (Some 2) (Some [0])])] ] /\
  snd (plan_call exd 8 (exwd [fv]) (cl [4] true false true None)) = Failed EMulti /\
  call_matched exd 8 (exwd [mkflt "p" None None]) (cl [3] true false true None) = [((0, "p"), mkflt "p" (Some 1) (Some [0]))] /\
  call_matched exd 8 (exwd [mkflt "v" (Some 1) None]) (cl [0; 1] true false true None) = [((0, "v"), mkflt "v" (Some 1) (Some [0]))] /\
  snd (plan_call exd 8 (exwd [mkflt "p" (Some 2) None]) (cl [3] true false true None)) = Failed EDomCmp /\
  call_matched exd 8 (exwd [mkflt "v" None (Some [1])]) (cl [0] true false true None) = [].
Proof. vm_compute. repeat split; reflexivity. Qed.

(* The look-up of an equal stored feature may compare a domain-less feature with its domain-carrying namesake first
   (set iteration order, c_hz).  Group 0 (domain 3) provides x, y; t2 = f(x, y) in a default-domain group; the caller's
   domain-less filter on x: while y is processed the filter feature x@3 -- stored when x was processed -- is looked up
   in a collection that also holds the input feature x without domain. *)
Definition exg : universe :=
  [("x", gD 0 3); ("y", gD 0 3);
   ("t2", {| gi_id := 1; gi_cfw := [0]; gi_api := false; gi_dtype := None; gi_inputs := [inp0 "x"; inp0 "y"]; gi_dom := 0 |})].
Definition exwg : world :=
  {| hF := [mkf "t2" 0 None]; hO := [ {| og := []; oc := [] |} ]; w_links := []; w_filters := [mkflt "x" None None]; w_coll := [] |}.
Lemma set_order_hazard_l :
  snd (plan_call exg 8 exwg (with_hz (cl [0] true false true None) 0)) = Failed EDomCmp /\
  step_filters_of (snd (plan_call exg 8 exwg (with_hz (cl [0] true false true None) 1)))
    = [(1, []); (0, [mkflt "x" (Some 3) (Some [0])])] /\
  fst (plan_call exg 8 exwg (with_hz (cl [0] true false true None) 0)) = exwg.
Proof. vm_compute. repeat split; reflexivity. Qed.
