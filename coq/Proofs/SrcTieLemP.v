(* Source-text tie, round 2: lemmas that relate the constructs of Model/PySem.v to the set / dict operations of the planner
   models.  They depend on NO generated file, so that a target that fails closed breaks only the proof file of its own group. *)
From Coq Require Import List Bool ZArith Arith Lia.
Import ListNotations.
Require Import MV.Model.PySem.
Require Import MV.Model.Orch MV.Model.PlannerA MV.Model.PyObj.
Require MV.Model.PlannerL.
Open Scope nat_scope.

(* ---------- Python set operations of Model/PySem.v = the set operations of the planner models ---------- *)
Lemma py_in_nat_mem : forall x l, py_in Nat.eqb x l = mem x l.
Proof. reflexivity. Qed.

Lemma py_union_add1 : forall l x, py_union Nat.eqb l [x] = set_add x l.
Proof.
  intros l x. unfold py_union, py_diff, set_add, py_in. cbn [filter]. fold (mem x l).
  destruct (mem x l); cbn [negb]; [apply app_nil_r|reflexivity].
Qed.

Lemma mem_app_single : forall x l y, mem x (l ++ [y]) = (mem x l || Nat.eqb x y)%bool.
Proof. intros. unfold mem. rewrite existsb_app. cbn [existsb]. rewrite orb_false_r. reflexivity. Qed.

(* s.update({a, b}) for two different a, b *)
Lemma py_union_add2 : forall l a b, Nat.eqb b a = false -> py_union Nat.eqb l [a; b] = set_union l [a; b].
Proof.
  intros l a b Hab. unfold py_union, py_diff, set_union, py_in. cbn [filter fold_left]. fold (mem a l). fold (mem b l).
  unfold set_add at 2. destruct (mem a l) eqn:Ea; cbn [negb].
  - unfold set_add. destruct (mem b l); cbn [negb]; [apply app_nil_r|reflexivity].
  - unfold set_add. rewrite mem_app_single, Hab, orb_false_r.
    destruct (mem b l); cbn [negb]; [reflexivity|]. rewrite <- app_assoc. reflexivity.
Qed.

(* ---------- dicts ---------- *)
Lemma py_dict_set_fresh : forall (K V : Type) (eqb : K -> K -> bool) (d : list (K * V)) k v,
  py_dict_mem eqb k d = false -> py_dict_set eqb d k v = d ++ [(k, v)].
Proof.
  intros K V eqb d k v. induction d as [|[k' v'] d IH]; intros H; [reflexivity|].
  unfold py_dict_mem in H. cbn [existsb fst] in H. apply orb_false_iff in H. destruct H as [H1 H2].
  cbn [py_dict_set app]. rewrite H1. f_equal. apply IH. exact H2.
Qed.

(* ---------- membership ---------- *)
Lemma mem_app_or : forall x a b, mem x (a ++ b) = (mem x a || mem x b)%bool.
Proof. intros. unfold mem. apply existsb_app. Qed.

Lemma mem_py_diff : forall x a b, mem x (py_diff Nat.eqb a b) = (mem x a && negb (mem x b))%bool.
Proof.
  intros x a b. unfold py_diff, py_in, mem. induction a as [|y a IH]; [reflexivity|].
  cbn [filter existsb]. destruct (existsb (Nat.eqb y) b) eqn:Eyb; cbn [negb existsb]; rewrite IH;
    destruct (Nat.eqb x y) eqn:Exy; cbn [orb]; try reflexivity;
    apply Nat.eqb_eq in Exy; subst y; rewrite Eyb; cbn [negb andb]; rewrite ?andb_false_r; reflexivity.
Qed.

(* ---------- the LinkTrekker record ---------- *)
Lemma trek_set_order_twice : forall t a b, trek_set_order (trek_set_order t a) b = trek_set_order t b.
Proof. reflexivity. Qed.
Lemma trek_set_order_same : forall t, trek_set_order t (PlannerL.t_order t) = t.
Proof. destruct t; reflexivity. Qed.
