(* In-place calculations (C06): conflict_free_ip => confluent.
   1. (Proofs/InPlaceSimP.v) a legal scheduled interleaving = DataPlane.exec over the atomic actions of its events;
   2. these actions, keyed by (step, column), are a linearisation of the same partial order as the one-column expansion of any
      sequential order `lin`; all dependent items are ordered, so the two lists differ by swaps of independent neighbours
      (Mazurkiewicz, Proofs/InPlaceTraceP.v section A) and have the same outcome up to column order;
   3. the one-column expansion of a step equals the step (section C);
   4. bridge to the executable classifier OrchCheck.conflict_free_ip / ip_cols_ok;  5. executable premises are sound. *)
From Coq Require Import List Bool ZArith Arith Lia Permutation.
Import ListNotations.
Require MV.Model.Orch MV.Model.OrchCheck.
Require Import MV.Spec.RefEval MV.Model.DataPlane MV.Model.DataPlaneConc MV.Proofs.ConfluenceP MV.Model.DataPlaneInPlace.
Require Import MV.Proofs.InPlaceTraceP MV.Proofs.InPlaceSimP.
Local Open Scope nat_scope.

Definition ikey := (nat * nat)%type.
Definition item := (ikey * action)%type.

Definition ev_item (steps : list xstep) (e : xevent) : list item :=
  match e with
  | ECalc i => match aget steps i with Some (XRepl a) => [((i, 0), a)] | _ => [] end
  | EIns i k => match aget steps i with
                | Some (XInpl _ o ds) => match nth_error ds k with Some d => [((i, k), ACalc o [d])] | None => [] end
                | _ => []
                end
  | _ => []
  end.
Definition ev_items (steps : list xstep) (ev : list xevent) : list item := flat_map (ev_item steps) ev.

Fixpoint number {A : Type} (k : nat) (l : list A) : list (nat * A) :=
  match l with [] => [] | x :: t => (k, x) :: number (S k) t end.
Definition x_items (ix : xstep) : list item :=
  match snd ix with
  | XRepl a => [((fst ix, 0), a)]
  | XInpl _ o ds => map (fun kd => ((fst ix, fst kd), ACalc o [snd kd])) (number 0 ds)
  end.
Definition lin_items (lin : list xstep) : list item := flat_map x_items lin.

(* items of different steps are ordered as the steps are; items of one step are not ordered *)
Definition kbefore (before : nat -> nat -> bool) (k1 k2 : ikey) : bool :=
  negb (Nat.eqb (fst k1) (fst k2)) && before (fst k1) (fst k2).

(* what an item of the plan is *)
Definition is_item (steps : list xstep) (it : item) : Prop :=
  match it with
  | ((i, k), a) =>
      (k = 0 /\ aget steps i = Some (XRepl a))
      \/ (exists sty o ds d, aget steps i = Some (XInpl sty o ds) /\ nth_error ds k = Some d /\ a = ACalc o [d])
  end.

Lemma map_snd_ev_items : forall steps ev, map snd (ev_items steps ev) = flat_map (eff steps) ev.
Proof.
  intros steps. induction ev as [|e ev IH]; [reflexivity|].
  change (ev_items steps (e :: ev)) with (ev_item steps e ++ ev_items steps ev).
  change (flat_map (eff steps) (e :: ev)) with (eff steps e ++ flat_map (eff steps) ev). rewrite map_app. f_equal; [|exact IH].
  destruct e as [i|i|i k|i]; cbn; try reflexivity.
  - destruct (aget steps i) as [[a|sty o ds]|]; reflexivity.
  - destruct (aget steps i) as [[a|sty o ds]|]; try reflexivity. destruct (nth_error ds k); reflexivity.
Qed.

Lemma In_number : forall (A : Type) (l : list A) k0 k x, In (k, x) (number k0 l) <-> k0 <= k /\ nth_error l (k - k0) = Some x.
Proof.
  intros A. induction l as [|y l IH]; intros k0 k x; cbn [number].
  - split; [intros [] | intros [_ H]; destruct (k - k0); discriminate H].
  - cbn [In]. rewrite IH. split.
    + intros [H|[L H]].
      * injection H as <- <-. split; [lia|]. rewrite Nat.sub_diag. reflexivity.
      * split; [lia|]. replace (k - k0) with (S (k - S k0)) by lia. exact H.
    + intros [L H]. destruct (Nat.eq_dec k k0) as [->|Hne].
      * left. rewrite Nat.sub_diag in H. injection H as ->. reflexivity.
      * right. split; [lia|]. replace (k - k0) with (S (k - S k0)) in H by lia. exact H.
Qed.

Lemma map_snd_lin_items : forall lin, map snd (lin_items lin) = flat_map expand (map snd lin).
Proof.
  induction lin as [|[i x] lin IH]; [reflexivity|].
  change (lin_items ((i, x) :: lin)) with (x_items (i, x) ++ lin_items lin).
  change (flat_map expand (map snd ((i, x) :: lin))) with (expand x ++ flat_map expand (map snd lin)). rewrite map_app. f_equal; [|exact IH].
  destruct x as [a|sty o ds]; [reflexivity|]. unfold x_items. cbn [snd fst expand]. rewrite map_map. cbn [snd].
  generalize 0. induction ds as [|d ds IHd]; intros k0; [reflexivity|]. cbn. f_equal. apply IHd.
Qed.

Lemma In_x_items : forall i x it, In it (x_items (i, x)) <->
  match it with
  | ((j, k), a) => j = i /\ match x with
                            | XRepl a0 => k = 0 /\ a = a0
                            | XInpl _ o ds => exists d, nth_error ds k = Some d /\ a = ACalc o [d]
                            end
  end.
Proof.
  intros i x [[j k] a]. unfold x_items. cbn [fst snd]. destruct x as [a0|sty o ds].
  - split.
    + intros [H|[]]. injection H as <- <- <-. auto.
    + intros (-> & -> & ->). left. reflexivity.
  - rewrite in_map_iff. split.
    + intros [[k' d] [H Hin]]. cbn [fst snd] in H. injection H as <- <- <-. apply In_number in Hin. destruct Hin as [_ Hin].
      rewrite Nat.sub_0_r in Hin. split; [reflexivity|]. exists d. auto.
    + intros (-> & d & Hd & ->). exists (k, d). split; [reflexivity|]. apply In_number. split; [lia|]. rewrite Nat.sub_0_r. exact Hd.
Qed.

Lemma ev_item_len : forall steps e, length (ev_item steps e) <= 1.
Proof.
  intros steps [j|j|j k|j]; cbn; try lia.
  - destruct (aget steps j) as [[a0|sty o ds]|]; cbn; lia.
  - destruct (aget steps j) as [[a0|sty o ds]|]; cbn; try lia. destruct (nth_error ds k); cbn; lia.
Qed.

Lemma NoDup_app_intro : forall (A : Type) (l1 l2 : list A),
  NoDup l1 -> NoDup l2 -> (forall x, In x l1 -> In x l2 -> False) -> NoDup (l1 ++ l2).
Proof.
  intros A. induction l1 as [|x l1 IH]; intros l2 N1 N2 H; [exact N2|]. cbn. apply NoDup_cons_iff in N1. destruct N1 as [Nx N1].
  constructor.
  - intros X. apply in_app_or in X. destruct X as [X|X]; [exact (Nx X) | exact (H x (or_introl eq_refl) X)].
  - apply IH; [exact N1 | exact N2 |]. intros y Hy. apply H. right. exact Hy.
Qed.

Lemma grespects_all : forall (K : Type) (bf : K -> K -> bool) (l : list (K * action)),
  (forall x y, In x l -> In y l -> bf (fst y) (fst x) = false) -> grespects K bf l.
Proof.
  intros K bf. induction l as [|x l IH]; intros H; [exact I|]. split.
  - intros y Hy. apply H; [left; reflexivity | right; exact Hy].
  - apply IH. intros a b Ha Hb. apply H; right; assumption.
Qed.

Lemma grespects_app_intro : forall (K : Type) (bf : K -> K -> bool) (l1 l2 : list (K * action)),
  grespects K bf l1 -> grespects K bf l2 -> (forall x y, In x l1 -> In y l2 -> bf (fst y) (fst x) = false) -> grespects K bf (l1 ++ l2).
Proof.
  intros K bf. induction l1 as [|x l1 IH]; intros l2 R1 R2 H; [exact R2|]. cbn in *. destruct R1 as [Rx R1]. split.
  - intros y Hy. apply in_app_or in Hy. destruct Hy as [Hy|Hy]; [exact (Rx y Hy) | apply H; [left; reflexivity | exact Hy]].
  - apply IH; [exact R1 | exact R2 |]. intros a b Ha Hb. apply H; [right; exact Ha | exact Hb].
Qed.

Lemma disjointb_intro : forall a b, (forall x, In x a -> ~ In x b) -> disjointb a b = true.
Proof.
  intros a b H. unfold disjointb. apply forallb_forall. intros x Hx. destruct (Orch.mem x b) eqn:M; [|reflexivity].
  apply mem_In in M. exfalso. exact (H x Hx M).
Qed.

Lemma x_items_key : forall i x it, In it (x_items (i, x)) -> fst (fst it) = i.
Proof. intros i x [[j k] a] H. apply In_x_items in H. cbn. apply H. Qed.

Lemma number_keys : forall (A : Type) (l : list A) k0 k, In k (map fst (number k0 l)) -> k0 <= k.
Proof.
  intros A l k0 k H. apply in_map_iff in H. destruct H as [[k' x] [E H]]. cbn in E. subst k'. apply In_number in H. apply H.
Qed.

Lemma x_items_nodup : forall i x, NoDup (map fst (x_items (i, x))).
Proof.
  intros i [a|sty o ds]; unfold x_items; cbn [fst snd]; [repeat constructor; intros []|].
  rewrite map_map. cbn [fst]. generalize 0. induction ds as [|d ds IH]; intros k0; [constructor|]. cbn. constructor; [|apply IH].
  intros X. apply in_map_iff in X. destruct X as [[k' d'] [E X]]. cbn in E. injection E as ->.
  assert (L : S k0 <= k0) by (apply (number_keys _ ds (S k0) k0); apply in_map_iff; exists (k0, d'); auto). lia.
Qed.

Lemma lin_items_nodup : forall lin, NoDup (map fst lin) -> NoDup (map fst (lin_items lin)).
Proof.
  induction lin as [|[i x] lin IH]; intros ND; [constructor|]. cbn in ND. apply NoDup_cons_iff in ND. destruct ND as [N1 N2].
  change (lin_items ((i, x) :: lin)) with (x_items (i, x) ++ lin_items lin). rewrite map_app.
  apply NoDup_app_intro; [apply x_items_nodup | apply IH; exact N2 |].
  intros kx H1 H2. apply in_map_iff in H1. destruct H1 as [it [<- H1]]. apply in_map_iff in H2. destruct H2 as [it' [E H2]].
  unfold lin_items in H2. apply in_flat_map in H2. destruct H2 as [[j y] [Hj H2]].
  apply x_items_key in H1. apply x_items_key in H2. apply N1. apply in_map_iff. exists (j, y). split; [|exact Hj]. cbn. congruence.
Qed.

Lemma item_foot : forall i x it, In it (x_items (i, x)) -> wr (snd it) = wr (base x) /\ rd (snd it) = rd (base x).
Proof.
  intros i x [[j k] a] H. apply In_x_items in H. destruct H as [_ H]. destruct x as [a0|sty o ds]; cbn [snd].
  - destruct H as [_ ->]. auto.
  - destruct H as (d & _ & ->). auto.
Qed.

Lemma cols_compat_sub : forall ds1 ds2 d1 d2, cols_compat ds1 ds2 = true -> In d1 ds1 -> In d2 ds2 -> cols_compat [d1] [d2] = true.
Proof.
  intros ds1 ds2 d1 d2 H I1 I2. unfold cols_compat in *. apply andb_true_iff in H. destruct H as [H H3]. apply andb_true_iff in H.
  destruct H as [H1 H2].
  assert (N1 : In (fname d1) (names ds1)) by (apply in_map; exact I1).
  assert (N2 : In (fname d2) (names ds2)) by (apply in_map; exact I2).
  assert (R1 : forall f, In f (inputs d1) -> In f (reads ds1)) by (intros f Hf; unfold reads; apply in_flat_map; exists d1; auto).
  assert (R2 : forall f, In f (inputs d2) -> In f (reads ds2)) by (intros f Hf; unfold reads; apply in_flat_map; exists d2; auto).
  rewrite !andb_true_iff. repeat split; apply disjointb_intro; unfold names, reads; cbn; rewrite ?app_nil_r.
  - intros f [<-|[]] [X|[]]. rewrite X in N2. exact (disjointb_spec _ _ H1 _ N1 N2).
  - intros f Hf [X|[]]. subst f. exact (disjointb_spec _ _ H2 _ (R1 _ Hf) N2).
  - intros f Hf [X|[]]. subst f. exact (disjointb_spec _ _ H3 _ (R2 _ Hf) N1).
Qed.

Lemma items_indep : forall i x j y it1 it2, xindep x y = true -> In it1 (x_items (i, x)) -> In it2 (x_items (j, y)) ->
  aindep (snd it1) (snd it2) = true.
Proof.
  intros i x j y it1 it2 H H1 H2. unfold aindep. unfold xindep in H. apply orb_true_iff in H. destruct H as [H|H].
  - destruct (item_foot i x it1 H1) as [W1 R1]. destruct (item_foot j y it2 H2) as [W2 R2].
    unfold independent in *. rewrite W1, W2, R1, R2, H. reflexivity.
  - destruct x as [a0|s1 o1 ds1], y as [b0|s2 o2 ds2]; try discriminate H. cbn in H. apply andb_true_iff in H. destruct H as [Ho Hc].
    destruct it1 as [[i' k] a], it2 as [[j' l] b]. apply In_x_items in H1, H2. destruct H1 as (_ & d1 & Hd1 & ->). destruct H2 as (_ & d2 & Hd2 & ->).
    cbn [snd ipc]. rewrite Ho, (cols_compat_sub ds1 ds2 d1 d2 Hc (nth_error_In _ _ Hd1) (nth_error_In _ _ Hd2)). apply orb_true_r.
Qed.

Lemma same_step_indep : forall i x k l a b, self_ok x = true -> In ((i, k), a) (x_items (i, x)) -> In ((i, l), b) (x_items (i, x)) -> k <> l ->
  aindep a b = true.
Proof.
  intros i x k l a b S H1 H2 Hkl. apply In_x_items in H1, H2. destruct x as [a0|sty o ds].
  - destruct H1 as (_ & -> & _), H2 as (_ & -> & _). congruence.
  - destruct H1 as (_ & d1 & Hd1 & ->), H2 as (_ & d2 & Hd2 & ->). destruct (self_ok_inpl sty o ds S) as (_ & ND & HR).
    unfold aindep. cbn [ipc]. rewrite Nat.eqb_refl. cbn [andb].
    assert (C : cols_compat [d1] [d2] = true).
    { unfold cols_compat. rewrite !andb_true_iff.
      assert (R1 : forall f, In f (inputs d1) -> In f (reads ds)) by (intros f Hf; unfold reads; apply in_flat_map; exists d1; split; [exact (nth_error_In _ _ Hd1) | exact Hf]).
      assert (R2 : forall f, In f (inputs d2) -> In f (reads ds)) by (intros f Hf; unfold reads; apply in_flat_map; exists d2; split; [exact (nth_error_In _ _ Hd2) | exact Hf]).
      assert (N1 : In (fname d1) (names ds)) by (apply in_map; exact (nth_error_In _ _ Hd1)).
      assert (N2 : In (fname d2) (names ds)) by (apply in_map; exact (nth_error_In _ _ Hd2)).
      repeat split; apply disjointb_intro; unfold names, reads; cbn; rewrite ?app_nil_r.
      - intros f [<-|[]] [X|[]]. apply Hkl.
        assert (L1 : k < length (names ds)) by (unfold names; rewrite map_length; apply nth_error_Some; congruence).
        apply (proj1 (NoDup_nth_error (names ds)) ND k l L1). unfold names. rewrite !nth_error_map, Hd1, Hd2. cbn. congruence.
      - intros f Hf [X|[]]. subst f. exact (HR _ (R1 _ Hf) N2).
      - intros f Hf [X|[]]. subst f. exact (HR _ (R2 _ Hf) N1). }
    rewrite C. apply orb_true_r.
Qed.

Section Assembly.
  Variable n : nat.
  Variable steps : list xstep.
  Variable before : nat -> nat -> bool.
  Variable ev : list xevent.
  Hypothesis NDs : NoDup (map fst steps).
  Hypothesis WF : wf_x steps ev.
  Hypothesis SCH : scheduled_x before steps ev.
  Hypothesis DEP : xdep_ordered before steps.
  Hypothesis SELF : forall x, In x steps -> self_ok (snd x) = true.

  Lemma In_ev_items : forall it, In it (ev_items steps ev) <-> is_item steps it.
  Proof.
    intros [[i k] a]. unfold ev_items. rewrite in_flat_map. destruct WF as (_ & EX & _). split.
    - intros [e [He Hi]]. destruct e as [j|j|j l|j]; cbn in Hi; [destruct Hi | | | destruct Hi].
      + destruct (aget steps j) as [[a0|sty o ds]|] eqn:A; [|destruct Hi|destruct Hi]. destruct Hi as [Hi|[]]. injection Hi as <- <- <-.
        left. auto.
      + destruct (aget steps j) as [[a0|sty o ds]|] eqn:A; [destruct Hi| |destruct Hi]. destruct (nth_error ds l) as [d|] eqn:Hd; [|destruct Hi].
        destruct Hi as [Hi|[]]. injection Hi as <- <- <-. right. exists sty, o, ds, d. auto.
    - intros [[-> A]|(sty & o & ds & d & A & Hd & ->)].
      + exists (ECalc i). split; [apply EX; cbn; exists a; exact A|]. cbn. rewrite A. left. reflexivity.
      + exists (EIns i k). split.
        * apply EX. cbn. exists sty, o, ds. split; [exact A|]. apply nth_error_Some. congruence.
        * cbn. rewrite A, Hd. left. reflexivity.
  Qed.

  Lemma In_lin_items : forall lin it, Permutation steps lin -> (In it (lin_items lin) <-> is_item steps it).
  Proof.
    intros lin [[i k] a] HP. unfold lin_items. rewrite in_flat_map. split.
    - intros [[j x] [Hj Hi]]. apply In_x_items in Hi. destruct Hi as [-> Hi].
      assert (A : aget steps j = Some x) by (apply In_aget; [exact NDs | exact (Permutation_in _ (Permutation_sym HP) Hj)]).
      destruct x as [a0|sty o ds].
      + destruct Hi as [-> ->]. left. auto.
      + destruct Hi as (d & Hd & ->). right. exists sty, o, ds, d. auto.
    - intros [[-> A]|(sty & o & ds & d & A & Hd & ->)].
      + exists (i, XRepl a). split; [apply (Permutation_in _ HP); apply aget_In; exact A|]. apply In_x_items. auto.
      + exists (i, XInpl sty o ds). split; [apply (Permutation_in _ HP); apply aget_In; exact A|]. apply In_x_items.
        split; [reflexivity|]. exists d. auto.
  Qed.

  Lemma ev_item_key : forall e it, In it (ev_item steps e) ->
    (fst (fst it) = match e with ERead i => i | ECalc i => i | EIns i _ => i | EWrite i => i end)
    /\ ((exists a0, e = ECalc (fst (fst it)) /\ snd (fst it) = 0 /\ aget steps (fst (fst it)) = Some (XRepl a0))
        \/ (exists sty o ds, e = EIns (fst (fst it)) (snd (fst it)) /\ aget steps (fst (fst it)) = Some (XInpl sty o ds))).
  Proof.
    intros e it H. destruct e as [j|j|j l|j]; cbn in H; [destruct H | | | destruct H].
    - destruct (aget steps j) as [[a0|sty o ds]|] eqn:A; [|destruct H|destruct H]. destruct H as [<-|[]]. cbn. split; [reflexivity|].
      left. exists a0. auto.
    - destruct (aget steps j) as [[a0|sty o ds]|] eqn:A; [destruct H| |destruct H]. destruct (nth_error ds l); [|destruct H].
      destruct H as [<-|[]]. cbn. split; [reflexivity|]. right. exists sty, o, ds. auto.
  Qed.

  Lemma ev_items_nodup : forall l, NoDup l -> NoDup (map fst (ev_items steps l)).
  Proof.
    induction l as [|e l IH]; intros ND; [constructor|]. apply NoDup_cons_iff in ND. destruct ND as [N1 N2].
    change (ev_items steps (e :: l)) with (ev_item steps e ++ ev_items steps l). rewrite map_app.
    assert (NDh : NoDup (map fst (ev_item steps e))).
    { pose proof (ev_item_len steps e) as L. destruct (ev_item steps e) as [|x [|y t]]; [constructor | repeat constructor; intros [] |].
      cbn in L. lia. }
    apply NoDup_app_intro; [exact NDh | apply IH; exact N2 |].
    intros kx H1 H2. apply in_map_iff in H1. destruct H1 as [x [<- Hx]]. apply in_map_iff in H2. destruct H2 as [y [Ey Hy]].
    unfold ev_items in Hy. apply in_flat_map in Hy. destruct Hy as [e' [He' Hy]].
    destruct (ev_item_key e x Hx) as [_ Kx]. destruct (ev_item_key e' y Hy) as [_ Ky]. rewrite Ey in Ky.
    destruct Kx as [(a0 & -> & Z & A)|(sty & o & ds & -> & A)], Ky as [(a1 & -> & Z' & A')|(sty' & o' & ds' & -> & A')];
      try congruence; apply N1; exact He'.
  Qed.

  Lemma is_item_x : forall i k a, is_item steps ((i, k), a) -> exists x, aget steps i = Some x /\ In ((i, k), a) (x_items (i, x)).
  Proof.
    intros i k a [[-> A]|(sty & o & ds & d & A & Hd & ->)].
    - exists (XRepl a). split; [exact A|]. apply In_x_items. auto.
    - exists (XInpl sty o ds). split; [exact A|]. apply In_x_items. split; [reflexivity|]. exists d. auto.
  Qed.

  (* R1: the effect order of a legal schedule is a linearisation *)
  Lemma ev_items_respects : forall suf pre, ev = pre ++ suf -> grespects ikey (kbefore before) (ev_items steps suf).
  Proof.
    induction suf as [|e suf IH]; intros pre E; [exact I|].
    assert (E2 : ev = (pre ++ [e]) ++ suf) by (rewrite <- app_assoc; exact E).
    change (ev_items steps (e :: suf)) with (ev_item steps e ++ ev_items steps suf).
    pose proof (ev_item_len steps e) as L. destruct (ev_item steps e) as [|x [|x' t]] eqn:Q; [exact (IH _ E2) | | cbn in L; lia].
    cbn [app grespects]. split; [|exact (IH _ E2)].
    intros y Hy. unfold kbefore. destruct (Nat.eqb (fst (fst y)) (fst (fst x))) eqn:Qe; [reflexivity|]. cbn [negb andb].
    destruct (before (fst (fst y)) (fst (fst x))) eqn:B; [exfalso | reflexivity].
    assert (Hx : In x (ev_item steps e)) by (rewrite Q; left; reflexivity).
    unfold ev_items in Hy. apply in_flat_map in Hy. destruct Hy as [e' [He' Hy]].
    destruct (split_facts steps ev WF e pre suf E) as (N & Iev & _ & _ & _).
    assert (Iev' : In e' ev) by (rewrite E; apply in_or_app; right; right; exact He').
    assert (Lee : idx e ev < idx e' ev).
    { destruct WF as (ND & _ & _). rewrite E in ND. destruct (NoDup_split_notin pre e suf ND) as [_ N2].
      assert (Np : ~ In e' pre).
      { intros X. apply (NoDup_app_disjoint _ _ _ e' ND X). right. exact He'. }
      rewrite E, (idx_at_split e pre suf N), (idx_app_notin e' pre _ Np). cbn [idx].
      destruct (xevent_eqb e e') eqn:Qx; [apply xevent_eqb_eq in Qx; subst e'; contradiction | lia]. }
    set (i := fst (fst x)) in *. set (j := fst (fst y)) in *.
    assert (Ai : exists xi, aget steps i = Some xi /\ idx (ERead i) ev < idx e ev).
    { destruct (ev_item_key e x Hx) as [_ [(a0 & -> & _ & A)|(sty & o & ds & -> & A)]];
        (eexists; split; [exact A|]); apply (order_of steps ev WF _ Iev). }
    assert (Aj : exists yj, aget steps j = Some yj /\ idx e' ev < idx (EWrite j) ev).
    { destruct (ev_item_key e' y Hy) as [_ [(a0 & -> & _ & A)|(sty & o & ds & -> & A)]];
        (eexists; split; [exact A|]); apply (order_of steps ev WF _ Iev'). }
    destruct Ai as (xi & Axi & L1). destruct Aj as (yj & Ayj & L2).
    pose proof (SCH j i B (aget_fst _ _ _ _ Ayj) (aget_fst _ _ _ _ Axi)). lia.
  Qed.

  (* R2: the one-column expansion of a sequential order is a linearisation *)
  Lemma lin_items_respects : forall lin, respects_x before lin -> grespects ikey (kbefore before) (lin_items lin).
  Proof.
    induction lin as [|[i x] lin IH]; intros R; [exact I|]. cbn in R. destruct R as [Rx R].
    change (lin_items ((i, x) :: lin)) with (x_items (i, x) ++ lin_items lin). apply grespects_app_intro; [| exact (IH R) |].
    - apply grespects_all. intros a b Ha Hb. unfold kbefore. rewrite (x_items_key i x a Ha), (x_items_key i x b Hb), Nat.eqb_refl. reflexivity.
    - intros a b Ha Hb. unfold lin_items in Hb. apply in_flat_map in Hb. destruct Hb as [[j y] [Hj Hb]].
      unfold kbefore. rewrite (x_items_key i x a Ha), (x_items_key j y b Hb). pose proof (Rx (j, y) Hj) as Z. cbn [fst] in Z. rewrite Z. apply andb_false_r.
  Qed.

  (* D: every two dependent items are ordered *)
  Lemma items_dep_ordered : gdep_ordered ikey aindep (kbefore before) (ev_items steps ev).
  Proof.
    intros [[i k] a] [[j l] b] Hx Hy Hk Hd. cbn [fst snd] in *. apply In_ev_items in Hx, Hy.
    destruct (is_item_x i k a Hx) as (x & Ax & Ix). destruct (is_item_x j l b Hy) as (y & Ay & Iy).
    destruct (Nat.eq_dec i j) as [->|Hne].
    - exfalso. assert (y = x) by congruence. subst y. assert (Hkl : k <> l) by congruence.
      rewrite (same_step_indep j x k l a b (SELF (j, x) (aget_In _ _ _ _ Ax)) Ix Iy Hkl) in Hd. discriminate.
    - assert (X : xindep x y = false).
      { destruct (xindep x y) eqn:X; [|reflexivity]. pose proof (items_indep i x j y _ _ X Ix Iy) as Z. cbn [snd] in Z. congruence. }
      unfold kbefore. cbn [fst]. destruct (DEP (i, x) (j, y) (aget_In _ _ _ _ Ax) (aget_In _ _ _ _ Ay) Hne X) as [B|B]; cbn [fst] in B; rewrite B.
      + left. apply Nat.eqb_neq in Hne. rewrite Hne. reflexivity.
      + right. assert (Hne' : j <> i) by congruence. apply Nat.eqb_neq in Hne'. rewrite Hne'. reflexivity.
  Qed.

  (* the atomic actions of the events, in event order, give what any sequential order of the steps gives *)
  Lemma effects_sequential : forall lin s, Permutation steps lin -> respects_x before lin ->
    outcome_eqv (exec n s (flat_map (eff steps) ev)) (exec n s (map base (map snd lin))).
  Proof.
    intros lin s HP HR.
    assert (NDl : NoDup (map fst lin)) by (apply (Permutation_NoDup (Permutation_map fst HP)); exact NDs).
    assert (P : Permutation (ev_items steps ev) (lin_items lin)).
    { apply NoDup_Permutation.
      - apply (NoDup_map_inv fst). apply ev_items_nodup. apply WF.
      - apply (NoDup_map_inv fst). apply lin_items_nodup. exact NDl.
      - intros it. rewrite In_ev_items, (In_lin_items lin it HP). reflexivity. }
    eapply outcome_eqv_trans.
    - rewrite <- map_snd_ev_items. apply gswaps_outcome.
      apply (grespects_swaps ikey aindep (kbefore before) (lin_items lin) (ev_items steps ev)).
      + apply ev_items_nodup. apply WF.
      + exact P.
      + apply (ev_items_respects ev []). reflexivity.
      + apply lin_items_respects. exact HR.
      + exact items_dep_ordered.
    - rewrite map_snd_lin_items. apply expand_all. intros x Hx. apply in_map_iff in Hx. destruct Hx as [[i x'] [<- Hx]].
      apply (SELF (i, x')). exact (Permutation_in _ (Permutation_sym HP) Hx).
  Qed.
End Assembly.

Lemma xout_rel_eqv : forall xo o1 o2, xout_rel xo o1 -> outcome_eqv o1 o2 -> xoutcome_eqv xo o2.
Proof.
  intros [st|e] o1 o2 R H; cbn in R.
  - destruct o1 as [s1| |]; try contradiction. destruct o2 as [s2| |]; cbn in H; try contradiction. cbn.
    intros ob. rewrite R. apply H.
  - subst o1. destruct e, o2; cbn in *; auto.
Qed.

(* MAIN: every legal interleaving that respects `before` of a plan in which every two steps that are not xindep (independent,
   or both in place on one object with different columns) are ordered by `before` yields what every sequential order yields *)
Lemma inplace_schedules_l : forall n before steps ev lin st0 s0,
  NoDup (map fst steps) -> (forall x, In x steps -> self_ok (snd x) = true) -> xdep_ordered before steps ->
  wf_x steps ev -> scheduled_x before steps ev ->
  Permutation steps lin -> respects_x before lin ->
  hst_wf st0 -> (forall o, obs st0 o = get_obj s0 o) ->
  xoutcome_eqv (xrun n steps st0 [] ev) (exec n s0 (map base (map snd lin))).
Proof.
  intros n before steps ev lin st0 s0 ND SELF DEP WF SCH HP HR W A.
  eapply xout_rel_eqv.
  - exact (xrun_exec_l n before steps ev st0 s0 ND WF SCH DEP W A).
  - exact (effects_sequential n steps before ev ND WF SCH DEP SELF lin s0 HP HR).
Qed.

(* ------------------------------------------------------------------ 4. bridge to OrchCheck.conflict_free_ip *)
Lemma flat_map_nil_intro : forall (A B : Type) (f : A -> list B) l, (forall x, In x l -> f x = []) -> flat_map f l = [].
Proof.
  intros A B f. induction l as [|y l IH]; intros H; [reflexivity|]. cbn. rewrite (H y (or_introl eq_refl)). apply IH.
  intros x Hx. apply H. right. exact Hx.
Qed.

Lemma foot_of_xsteps_act : forall steps i,
  OrchCheck.foot_of (foot_of_xsteps steps) i = option_map (fun x => (wr (base x), rd (base x))) (aget steps i).
Proof. induction steps as [|[k x] t IH]; intros i; [reflexivity|]. cbn. destruct (Nat.eqb k i); [reflexivity | apply IH]. Qed.

Lemma style_of_xsteps_act : forall steps i x, aget steps i = Some x -> OrchCheck.style_of (styles_of_xsteps steps) i = is_inpl x.
Proof.
  induction steps as [|[k y] t IH]; intros i x H; [discriminate H|]. cbn in *. destruct (Nat.eqb k i); [congruence | apply IH; exact H].
Qed.

Lemma cols_of_xsteps_act : forall steps i x, aget steps i = Some x -> OrchCheck.cols_of (cols_of_xsteps steps) i = (xwrites x, xreads x).
Proof.
  induction steps as [|[k y] t IH]; intros i x H; [discriminate H|]. cbn in *. destruct (Nat.eqb k i); [congruence | apply IH; exact H].
Qed.

Lemma conflicting_xindependent : forall steps i j x y, aget steps i = Some x -> aget steps j = Some y ->
  OrchCheck.conflicting (foot_of_xsteps steps) i j = negb (independent (base x) (base y)).
Proof.
  intros steps i j x y Ai Aj. unfold OrchCheck.conflicting. rewrite !foot_of_xsteps_act, Ai, Aj. cbn.
  unfold independent. rewrite negb_involutive. reflexivity.
Qed.

Lemma ip_pair_inpl : forall steps i j s1 s2 o ds1 ds2, aget steps i = Some (XInpl s1 o ds1) -> aget steps j = Some (XInpl s2 o ds2) ->
  OrchCheck.ip_pair (foot_of_xsteps steps) (styles_of_xsteps steps) i j = true.
Proof.
  intros steps i j s1 s2 o ds1 ds2 Ai Aj. unfold OrchCheck.ip_pair.
  rewrite (style_of_xsteps_act steps i _ Ai), (style_of_xsteps_act steps j _ Aj), !foot_of_xsteps_act, Ai, Aj. cbn.
  rewrite !Nat.eqb_refl. reflexivity.
Qed.

Lemma ip_pair_shape : forall steps i j x y, aget steps i = Some x -> aget steps j = Some y ->
  OrchCheck.ip_pair (foot_of_xsteps steps) (styles_of_xsteps steps) i j = true ->
  exists s1 s2 o ds1 ds2, x = XInpl s1 o ds1 /\ y = XInpl s2 o ds2.
Proof.
  intros steps i j x y Ai Aj H. unfold OrchCheck.ip_pair in H.
  rewrite (style_of_xsteps_act steps i _ Ai), (style_of_xsteps_act steps j _ Aj), !foot_of_xsteps_act, Ai, Aj in H. cbn in H.
  destruct x as [a|s1 o1 ds1]; [discriminate H|]. destruct y as [b|s2 o2 ds2]; [discriminate H|]. cbn in H.
  apply andb_true_iff in H. destruct H as [H _]. apply andb_true_iff in H. destruct H as [H _]. apply Nat.eqb_eq in H. subst o2.
  exists s1, s2, o1, ds1, ds2. auto.
Qed.

Lemma conflict_free_ip_pairs : forall p f y, OrchCheck.conflict_free_ip p f y = true ->
  forall a b, In a p -> In b p -> Orch.sid a < Orch.sid b -> OrchCheck.conflicting f (Orch.sid a) (Orch.sid b) = true ->
  OrchCheck.unordered p a b = true -> OrchCheck.ip_pair f y (Orch.sid a) (Orch.sid b) = true.
Proof.
  intros p f y H a b Ha Hb Hlt Hc Hu. unfold OrchCheck.conflict_free_ip in H.
  destruct (OrchCheck.unordered_conflicts_ip p f y) as [|z l] eqn:E; [|discriminate H]. unfold OrchCheck.unordered_conflicts_ip in E.
  pose proof (flat_map_nil _ _ _ _ E a Ha) as E1. cbn beta in E1. pose proof (flat_map_nil _ _ _ _ E1 b Hb) as E2. cbn beta in E2.
  apply Nat.ltb_lt in Hlt. rewrite Hlt, Hc, Hu in E2. cbn [andb] in E2.
  destruct (OrchCheck.ip_pair f y (Orch.sid a) (Orch.sid b)); [reflexivity | discriminate E2].
Qed.

(* a plan the classifier accepts (footprints, styles and columns of its steps) satisfies the premises of inplace_schedules_l *)
Lemma conflict_free_ip_premises_l : forall p steps,
  NoDup (map fst steps) ->
  (forall i, In i (map fst steps) -> exists st, In st p /\ Orch.sid st = i) ->
  OrchCheck.conflict_free_ip p (foot_of_xsteps steps) (styles_of_xsteps steps) = true ->
  OrchCheck.ip_cols_ok p (foot_of_xsteps steps) (styles_of_xsteps steps) (cols_of_xsteps steps) = true ->
  xdep_ordered (waits_before p) steps /\ (forall x, In x steps -> self_ok (snd x) = true).
Proof.
  intros p steps ND Hp HC HK. unfold OrchCheck.ip_cols_ok in HK. apply andb_true_iff in HK. destruct HK as [HK1 HK2].
  rewrite forallb_forall in HK1, HK2. split.
  - intros [i x] [j y] Hx Hy Hne Hdep. cbn [fst snd] in *.
    destruct (Hp i (in_map fst _ _ Hx)) as [si [Hsi Ei]]. destruct (Hp j (in_map fst _ _ Hy)) as [sj [Hsj Ej]].
    pose proof (In_aget _ steps i x ND Hx) as Ai. pose proof (In_aget _ steps j y ND Hy) as Aj.
    destruct (Orch.mem i (OrchCheck.waits_for p sj)) eqn:M1.
    { left. unfold waits_before. apply existsb_exists. exists sj. split; [exact Hsj|]. rewrite Ej, Nat.eqb_refl, M1. reflexivity. }
    destruct (Orch.mem j (OrchCheck.waits_for p si)) eqn:M2.
    { right. unfold waits_before. apply existsb_exists. exists si. split; [exact Hsi|]. rewrite Ei, Nat.eqb_refl, M2. reflexivity. }
    exfalso. unfold xindep in Hdep. apply orb_false_iff in Hdep. destruct Hdep as [D1 D2].
    assert (Uij : OrchCheck.unordered p si sj = true) by (unfold OrchCheck.unordered; rewrite Ei, Ej, M1, M2; reflexivity).
    assert (Uji : OrchCheck.unordered p sj si = true) by (unfold OrchCheck.unordered; rewrite Ei, Ej, M1, M2; reflexivity).
    assert (Sh : exists s1 s2 o ds1 ds2, x = XInpl s1 o ds1 /\ y = XInpl s2 o ds2).
    { destruct (Nat.lt_trichotomy i j) as [L|[L|L]]; [| contradiction |].
      - apply (ip_pair_shape steps i j x y Ai Aj). rewrite <- Ei, <- Ej.
        apply (conflict_free_ip_pairs p _ _ HC si sj Hsi Hsj); [rewrite Ei, Ej; exact L | | exact Uij].
        rewrite Ei, Ej, (conflicting_xindependent steps i j x y Ai Aj), D1. reflexivity.
      - destruct (ip_pair_shape steps j i y x Aj Ai) as (s2 & s1 & o & ds2 & ds1 & -> & ->).
        + rewrite <- Ei, <- Ej. apply (conflict_free_ip_pairs p _ _ HC sj si Hsj Hsi); [rewrite Ei, Ej; exact L | | exact Uji].
          rewrite Ei, Ej, (conflicting_xindependent steps j i y x Aj Ai), independent_sym, D1. reflexivity.
        + exists s1, s2, o, ds1, ds2. auto. }
    destruct Sh as (s1 & s2 & o & ds1 & ds2 & -> & ->).
    specialize (HK2 si Hsi). rewrite forallb_forall in HK2. specialize (HK2 sj Hsj). rewrite Ei, Ej in HK2.
    rewrite (ip_pair_inpl steps i j s1 s2 o ds1 ds2 Ai Aj), Uij in HK2. apply Nat.eqb_neq in Hne. rewrite Hne in HK2. cbn [negb andb orb] in HK2.
    rewrite (cols_of_xsteps_act steps i _ Ai), (cols_of_xsteps_act steps j _ Aj) in HK2. cbn [fst snd xwrites xreads base] in HK2.
    cbn [ip_ok] in D2. rewrite Nat.eqb_refl in D2. cbn [andb] in D2. unfold cols_compat, disjointb in D2.
    unfold OrchCheck.ip_disj in HK2. rewrite D2 in HK2. discriminate HK2.
  - intros [i x] Hx. cbn [snd]. destruct x as [a|sty o ds]; [reflexivity|].
    destruct (Hp i (in_map fst _ _ Hx)) as [si [Hsi Ei]]. pose proof (In_aget _ steps i _ ND Hx) as Ai.
    specialize (HK1 si Hsi). rewrite Ei, (style_of_xsteps_act steps i _ Ai), (cols_of_xsteps_act steps i _ Ai) in HK1.
    cbn [is_inpl negb orb fst snd xwrites xreads base] in HK1. unfold self_ok, names. unfold names in HK1. rewrite map_length in HK1.
    assert (Q : forall l, OrchCheck.ip_nodup l = nodupb l) by (induction l as [|z l IHl]; [reflexivity | cbn; rewrite IHl; reflexivity]).
    rewrite Q in HK1. exact HK1.
Qed.

(* the weakened classifier accepts everything the old one accepts *)
Lemma conflict_free_ip_weaker : forall p f y, OrchCheck.conflict_free p f = true -> OrchCheck.conflict_free_ip p f y = true.
Proof.
  intros p f y H. unfold OrchCheck.conflict_free in H. destruct (OrchCheck.unordered_conflicts p f) as [|z l] eqn:E; [|discriminate H].
  unfold OrchCheck.conflict_free_ip.
  assert (X : OrchCheck.unordered_conflicts_ip p f y = []).
  { unfold OrchCheck.unordered_conflicts_ip, OrchCheck.unordered_conflicts in *.
    apply flat_map_nil_intro. intros a Ha. apply flat_map_nil_intro. intros b Hb.
    pose proof (flat_map_nil _ _ _ _ E a Ha) as E1. cbn beta in E1. pose proof (flat_map_nil _ _ _ _ E1 b Hb) as E2. cbn beta in E2.
    unfold OrchCheck.unordered.
    destruct (Nat.ltb (Orch.sid a) (Orch.sid b)), (negb (Orch.mem (Orch.sid a) (OrchCheck.waits_for p b))),
      (negb (Orch.mem (Orch.sid b) (OrchCheck.waits_for p a))), (OrchCheck.conflicting f (Orch.sid a) (Orch.sid b));
      cbn in *; try reflexivity; discriminate E2. }
  rewrite X. reflexivity.
Qed.

(* ------------------------------------------------------------------ 5. executable premises are sound *)
Lemma memxev_In : forall e l, memxev e l = true <-> In e l.
Proof.
  intros e l. unfold memxev. rewrite existsb_exists. split.
  - intros [y [Hy E]]. apply xevent_eqb_eq in E. subst. exact Hy.
  - intros H. exists e. split; [exact H | apply xevent_eqb_refl].
Qed.

Lemma nodup_xev_NoDup : forall l, nodup_xev l = true -> NoDup l.
Proof.
  induction l as [|x l IH]; intros H; [constructor|]. cbn in H. apply andb_true_iff in H. destruct H as [H1 H2].
  constructor; [|apply IH; exact H2]. intros X. apply memxev_In in X. rewrite X in H1. discriminate H1.
Qed.

Lemma expectedb_sound : forall steps e, expectedb steps e = true -> expected steps e.
Proof.
  intros steps [i|i|i k|i] H; cbn in *.
  - apply mem_In. exact H.
  - destruct (aget steps i) as [[a|sty o ds]|]; try discriminate H. exists a. reflexivity.
  - destruct (aget steps i) as [[a|sty o ds]|]; try discriminate H. exists sty, o, ds. split; [reflexivity|]. apply Nat.ltb_lt. exact H.
  - apply mem_In. exact H.
Qed.

Lemma expected_events_of : forall steps e, expected steps e -> In e (flat_map events_of steps).
Proof.
  intros steps e H. apply in_flat_map. destruct e as [i|i|i k|i]; cbn in H.
  - apply in_map_iff in H. destruct H as [[j x] [E H]]. cbn in E. subst j. exists (i, x). split; [exact H|]. left. reflexivity.
  - destruct H as [a A]. exists (i, XRepl a). split; [apply aget_In; exact A|]. right. right. left. reflexivity.
  - destruct H as (sty & o & ds & A & L). exists (i, XInpl sty o ds). split; [apply aget_In; exact A|]. right. right. cbn [fst snd].
    apply in_map. apply in_seq. lia.
  - apply in_map_iff in H. destruct H as [[j x] [E H]]. cbn in E. subst j. exists (i, x). split; [exact H|]. right. left. reflexivity.
Qed.

Lemma wf_xb_sound : forall steps ev, wf_xb steps ev = true -> NoDup (map fst steps) /\ wf_x steps ev.
Proof.
  intros steps ev H. unfold wf_xb in H. rewrite !andb_true_iff in H. destruct H as ((((H0 & H1) & H2) & H3) & H4).
  rewrite forallb_forall in H2, H3, H4. split; [apply nodupb_NoDup; exact H0|]. split; [apply nodup_xev_NoDup; exact H1|]. split.
  - intros e. split.
    + intros He. apply expectedb_sound. exact (H2 e He).
    + intros He. apply memxev_In. apply H3. apply expected_events_of. exact He.
  - intros e He. specialize (H4 e He). destruct e as [i|i|i k|i]; cbn in H4; [exact I | | |].
    + apply andb_true_iff in H4. destruct H4 as [A B]. apply Nat.ltb_lt in A, B. auto.
    + apply andb_true_iff in H4. destruct H4 as [A B]. apply Nat.ltb_lt in A, B. auto.
    + apply Nat.ltb_lt in H4. exact H4.
Qed.

Lemma scheduled_xb_sound : forall before steps ev, scheduled_xb before steps ev = true -> scheduled_x before steps ev.
Proof.
  intros before steps ev H i j B Hi Hj. unfold scheduled_xb in H. rewrite forallb_forall in H. specialize (H i Hi).
  rewrite forallb_forall in H. specialize (H j Hj). rewrite B in H. cbn in H. apply Nat.ltb_lt. exact H.
Qed.

Lemma xdep_orderedb_sound : forall before steps, xdep_orderedb before steps = true -> xdep_ordered before steps.
Proof.
  intros before steps H x y Hx Hy Hne Hdep. unfold xdep_orderedb in H. rewrite forallb_forall in H.
  specialize (H x Hx). rewrite forallb_forall in H. specialize (H y Hy).
  rewrite Hdep in H. apply Nat.eqb_neq in Hne. rewrite Hne in H. cbn in H. apply orb_true_iff in H. exact H.
Qed.

Lemma respects_xb_sound : forall before l, respects_xb before l = true -> respects_x before l.
Proof.
  intros before. induction l as [|x l IH]; intros H; [exact I|]. cbn in H. apply andb_true_iff in H. destruct H as [H1 H2].
  split; [|apply IH; exact H2]. intros y Hy. rewrite forallb_forall in H1. apply negb_true_iff. exact (H1 y Hy).
Qed.

Lemma all_self_ok_sound : forall steps, all_self_ok steps = true -> forall x, In x steps -> self_ok (snd x) = true.
Proof. intros steps H x Hx. unfold all_self_ok in H. rewrite forallb_forall in H. exact (H x Hx). Qed.

(* ------------------------------------------------------------------ 6. conflict_free_ip => confluent *)
Lemma conflict_free_ip_confluent_l : forall n p steps s ev lin,
  NoDup (map fst steps) ->
  (forall i, In i (map fst steps) -> exists st, In st p /\ Orch.sid st = i) ->
  OrchCheck.conflict_free_ip p (foot_of_xsteps steps) (styles_of_xsteps steps) = true ->
  OrchCheck.ip_cols_ok p (foot_of_xsteps steps) (styles_of_xsteps steps) (cols_of_xsteps steps) = true ->
  wf_x steps ev -> scheduled_x (waits_before p) steps ev ->
  Permutation steps lin -> respects_x (waits_before p) lin ->
  xoutcome_eqv (xrun n steps (inject s) [] ev) (exec n s (map base (map snd lin))).
Proof.
  intros n p steps s ev lin ND Hp HC HK WF SCH HP HR.
  destruct (conflict_free_ip_premises_l p steps ND Hp HC HK) as [DEP SELF].
  apply (inplace_schedules_l n (waits_before p) steps ev lin (inject s) s ND SELF DEP WF SCH HP HR (hst_wf_inject s) (obs_inject s)).
Qed.

Lemma xoutcome_eqv_has_col : forall xo o obj f, xoutcome_eqv xo o -> hhas_col xo obj f = has_col o obj f.
Proof.
  intros [st|e] [s|f0|o0] obj f H; cbn in H; try contradiction; try reflexivity. unfold hhas_col, has_col.
  specialize (H obj). destruct (obs st obj) as [t1|], (get_obj s obj) as [t2|]; cbn in H; try contradiction; [|reflexivity].
  rewrite (H f). reflexivity.
Qed.
