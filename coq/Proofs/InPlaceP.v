(* In-place calculations (C06): conflict_free_ip => confluent.
   1. (Proofs/InPlaceSimP.v) a legal scheduled interleaving = DataPlane.exec over the atomic actions of its events;
   2. these actions, keyed by (step, column), are a linearisation of the same partial order as the one-column expansion of any
      sequential order `lin`; all dependent items are ordered, so the two lists differ by swaps of independent neighbours
      (Mazurkiewicz, Proofs/InPlaceTraceP.v section A) and have the same outcome up to column order;
   3. the one-column expansion of a step equals the step (section C);
   4. bridge to the executable classifier OrchCheck.conflict_free_ip / ip_cols_ok;  5. executable premises are sound. *)
From Coq Require Import List Bool ZArith Arith Lia Permutation.
Import ListNotations.
Require MV.Model.Orch MV.Model.OrchCheck.
Require Import MV.Spec.RefEval MV.Model.DataPlane MV.Model.DataPlaneConc MV.Proofs.ConfluenceP MV.Model.DataPlaneInPlace.
Require Import MV.Proofs.InPlaceTraceP MV.Proofs.InPlaceSimP.
Local Open Scope nat_scope.

Definition ikey := (nat * nat)%type.
Definition item := (ikey * action)%type.

Definition ev_item (steps : list xstep) (e : xevent) : list item :=
  match e with
  | ECalc i => match aget steps i with Some (XRepl a) => [((i, 0), a)] | _ => [] end
  | EIns i k => match aget steps i with
                | Some (XInpl _ o ds) => match nth_error ds k with Some d => [((i, k), ACalc o [d])] | None => [] end
                | _ => []
                end
  | _ => []
  end.
Definition ev_items (steps : list xstep) (ev : list xevent) : list item := flat_map (ev_item steps) ev.

Fixpoint number {A : Type} (k : nat) (l : list A) : list (nat * A) :=
  match l with [] => [] | x :: t => (k, x) :: number (S k) t end.
Definition x_items (ix : xstep) : list item :=
  match snd ix with
  | XRepl a => [((fst ix, 0), a)]
  | XInpl _ o ds => map (fun kd => ((fst ix, fst kd), ACalc o [snd kd])) (number 0 ds)
  end.
Definition lin_items (lin : list xstep) : list item := flat_map x_items lin.

(* items of different steps are ordered as the steps are; items of one step are not ordered *)
Definition kbefore (before : nat -> nat -> bool) (k1 k2 : ikey) : bool :=
  negb (Nat.eqb (fst k1) (fst k2)) && before (fst k1) (fst k2).

(* what an item of the plan is *)
Definition is_item (steps : list xstep) (it : item) : Prop :=
  match it with
  | ((i, k), a) =>
      (k = 0 /\ aget steps i = Some (XRepl a))
      \/ (exists sty o ds d, aget steps i = Some (XInpl sty o ds) /\ nth_error ds k = Some d /\ a = ACalc o [d])
  end.

Lemma map_snd_ev_items : forall steps ev, map snd (ev_items steps ev) = flat_map (eff steps) ev.
Proof.
  intros steps. induction ev as [|e ev IH]; [reflexivity|].
  change (ev_items steps (e :: ev)) with (ev_item steps e ++ ev_items steps ev).
  change (flat_map (eff steps) (e :: ev)) with (eff steps e ++ flat_map (eff steps) ev). rewrite map_app. f_equal; [|exact IH].
  destruct e as [i|i|i k|i]; cbn; try reflexivity.
  - destruct (aget steps i) as [[a|sty o ds]|]; reflexivity.
  - destruct (aget steps i) as [[a|sty o ds]|]; try reflexivity. destruct (nth_error ds k); reflexivity.
Qed.

Lemma In_number : forall (A : Type) (l : list A) k0 k x, In (k, x) (number k0 l) <-> k0 <= k /\ nth_error l (k - k0) = Some x.
Proof.
  intros A. induction l as [|y l IH]; intros k0 k x; cbn [number].
  - split; [intros [] | intros [_ H]; destruct (k - k0); discriminate H].
  - cbn [In]. rewrite IH. split.
    + intros [H|[L H]].
      * injection H as <- <-. split; [lia|]. rewrite Nat.sub_diag. reflexivity.
      * split; [lia|]. replace (k - k0) with (S (k - S k0)) by lia. exact H.
    + intros [L H]. destruct (Nat.eq_dec k k0) as [->|Hne].
      * left. rewrite Nat.sub_diag in H. injection H as ->. reflexivity.
      * right. split; [lia|]. replace (k - k0) with (S (k - S k0)) in H by lia. exact H.
Qed.

Lemma map_snd_lin_items : forall lin, map snd (lin_items lin) = flat_map expand (map snd lin).
Proof.
  induction lin as [|[i x] lin IH]; [reflexivity|].
  change (lin_items ((i, x) :: lin)) with (x_items (i, x) ++ lin_items lin).
  change (flat_map expand (map snd ((i, x) :: lin))) with (expand x ++ flat_map expand (map snd lin)). rewrite map_app. f_equal; [|exact IH].
  destruct x as [a|sty o ds]; [reflexivity|]. unfold x_items. cbn [snd fst expand]. rewrite map_map. cbn [snd].
  generalize 0. induction ds as [|d ds IHd]; intros k0; [reflexivity|]. cbn. f_equal. apply IHd.
Qed.

Lemma In_x_items : forall i x it, In it (x_items (i, x)) <->
  match it with
  | ((j, k), a) => j = i /\ match x with
                            | XRepl a0 => k = 0 /\ a = a0
                            | XInpl _ o ds => exists d, nth_error ds k = Some d /\ a = ACalc o [d]
                            end
  end.
Proof.
  intros i x [[j k] a]. unfold x_items. cbn [fst snd]. destruct x as [a0|sty o ds].
  - split.
    + intros [H|[]]. injection H as <- <- <-. auto.
    + intros (-> & -> & ->). left. reflexivity.
  - rewrite in_map_iff. split.
    + intros [[k' d] [H Hin]]. cbn [fst snd] in H. injection H as <- <- <-. apply In_number in Hin. destruct Hin as [_ Hin].
      rewrite Nat.sub_0_r in Hin. split; [reflexivity|]. exists d. auto.
    + intros (-> & d & Hd & ->). exists (k, d). split; [reflexivity|]. apply In_number. split; [lia|]. rewrite Nat.sub_0_r. exact Hd.
Qed.

Lemma ev_item_len : forall steps e, length (ev_item steps e) <= 1.
Proof.
  intros steps [j|j|j k|j]; cbn; try lia.
  - destruct (aget steps j) as [[a0|sty o ds]|]; cbn; lia.
  - destruct (aget steps j) as [[a0|sty o ds]|]; cbn; try lia. destruct (nth_error ds k); cbn; lia.
Qed.

Lemma NoDup_app_intro : forall (A : Type) (l1 l2 : list A),
  NoDup l1 -> NoDup l2 -> (forall x, In x l1 -> In x l2 -> False) -> NoDup (l1 ++ l2).
Proof.
  intros A. induction l1 as [|x l1 IH]; intros l2 N1 N2 H; [exact N2|]. cbn. apply NoDup_cons_iff in N1. destruct N1 as [Nx N1].
  constructor.
  - intros X. apply in_app_or in X. destruct X as [X|X]; [exact (Nx X) | exact (H x (or_introl eq_refl) X)].
  - apply IH; [exact N1 | exact N2 |]. intros y Hy. apply H. right. exact Hy.
Qed.

Lemma grespects_all : forall (K : Type) (bf : K -> K -> bool) (l : list (K * action)),
  (forall x y, In x l -> In y l -> bf (fst y) (fst x) = false) -> grespects K bf l.
Proof.
  intros K bf. induction l as [|x l IH]; intros H; [exact I|]. split.
  - intros y Hy. apply H; [left; reflexivity | right; exact Hy].
  - apply IH. intros a b Ha Hb. apply H; right; assumption.
Qed.

Lemma grespects_app_intro : forall (K : Type) (bf : K -> K -> bool) (l1 l2 : list (K * action)),
  grespects K bf l1 -> grespects K bf l2 -> (forall x y, In x l1 -> In y l2 -> bf (fst y) (fst x) = false) -> grespects K bf (l1 ++ l2).
Proof.
  intros K bf. induction l1 as [|x l1 IH]; intros l2 R1 R2 H; [exact R2|]. cbn in *. destruct R1 as [Rx R1]. split.
  - intros y Hy. apply in_app_or in Hy. destruct Hy as [Hy|Hy]; [exact (Rx y Hy) | apply H; [left; reflexivity | exact Hy]].
  - apply IH; [exact R1 | exact R2 |]. intros a b Ha Hb. apply H; [right; exact Ha | exact Hb].
Qed.

Lemma disjointb_intro : forall a b, (forall x, In x a -> ~ In x b) -> disjointb a b = true.
Proof.
  intros a b H. unfold disjointb. apply forallb_forall. intros x Hx. destruct (Orch.mem x b) eqn:M; [|reflexivity].
  apply mem_In in M. exfalso. exact (H x Hx M).
Qed.

Lemma x_items_key : forall i x it, In it (x_items (i, x)) -> fst (fst it) = i.
Proof. intros i x [[j k] a] H. apply In_x_items in H. cbn. apply H. Qed.

Lemma number_keys : forall (A : Type) (l : list A) k0 k, In k (map fst (number k0 l)) -> k0 <= k.
Proof.
  intros A l k0 k H. apply in_map_iff in H. destruct H as [[k' x] [E H]]. cbn in E. subst k'. apply In_number in H. apply H.
Qed.

Lemma x_items_nodup : forall i x, NoDup (map fst (x_items (i, x))).
Proof.
  intros i [a|sty o ds]; unfold x_items; cbn [fst snd]; [repeat constructor; intros []|].
  rewrite map_map. cbn [fst]. generalize 0. induction ds as [|d ds IH]; intros k0; [constructor|]. cbn. constructor; [|apply IH].
  intros X. apply in_map_iff in X. destruct X as [[k' d'] [E X]]. cbn in E. injection E as ->.
  assert (L : S k0 <= k0) by (apply (number_keys _ ds (S k0) k0); apply in_map_iff; exists (k0, d'); auto). lia.
Qed.

Lemma lin_items_nodup : forall lin, NoDup (map fst lin) -> NoDup (map fst (lin_items lin)).
Proof.
  induction lin as [|[i x] lin IH]; intros ND; [constructor|]. cbn in ND. apply NoDup_cons_iff in ND. destruct ND as [N1 N2].
  change (lin_items ((i, x) :: lin)) with (x_items (i, x) ++ lin_items lin). rewrite map_app.
  apply NoDup_app_intro; [apply x_items_nodup | apply IH; exact N2 |].
  intros kx H1 H2. apply in_map_iff in H1. destruct H1 as [it [<- H1]]. apply in_map_iff in H2. destruct H2 as [it' [E H2]].
  unfold lin_items in H2. apply in_flat_map in H2. destruct H2 as [[j y] [Hj H2]].
  apply x_items_key in H1. apply x_items_key in H2. apply N1. apply in_map_iff. exists (j, y). split; [|exact Hj]. cbn. congruence.
Qed.

Lemma item_foot : forall i x it, In it (x_items (i, x)) -> wr (snd it) = wr (base x) /\ rd (snd it) = rd (base x).
Proof.
  intros i x [[j k] a] H. apply In_x_items in H. destruct H as [_ H]. destruct x as [a0|sty o ds]; cbn [snd].
  - destruct H as [_ ->]. auto.
  - destruct H as (d & _ & ->). auto.
Qed.

Lemma cols_compat_sub : forall ds1 ds2 d1 d2, cols_compat ds1 ds2 = true -> In d1 ds1 -> In d2 ds2 -> cols_compat [d1] [d2] = true.
Proof.
  intros ds1 ds2 d1 d2 H I1 I2. unfold cols_compat in *. apply andb_true_iff in H. destruct H as [H H3]. apply andb_true_iff in H.
  destruct H as [H1 H2].
  assert (N1 : In (fname d1) (names ds1)) by (apply in_map; exact I1).
  assert (N2 : In (fname d2) (names ds2)) by (apply in_map; exact I2).
  assert (R1 : forall f, In f (inputs d1) -> In f (reads ds1)) by (intros f Hf; unfold reads; apply in_flat_map; exists d1; auto).
  assert (R2 : forall f, In f (inputs d2) -> In f (reads ds2)) by (intros f Hf; unfold reads; apply in_flat_map; exists d2; auto).
  rewrite !andb_true_iff. repeat split; apply disjointb_intro; unfold names, reads; cbn; rewrite ?app_nil_r.
  - intros f [<-|[]] [X|[]]. rewrite X in N2. exact (disjointb_spec _ _ H1 _ N1 N2).
  - intros f Hf [X|[]]. subst f. exact (disjointb_spec _ _ H2 _ (R1 _ Hf) N2).
  - intros f Hf [X|[]]. subst f. exact (disjointb_spec _ _ H3 _ (R2 _ Hf) N1).
Qed.

Lemma items_indep : forall i x j y it1 it2, xindep x y = true -> In it1 (x_items (i, x)) -> In it2 (x_items (j, y)) ->
  aindep (snd it1) (snd it2) = true.
Proof.
  intros i x j y it1 it2 H H1 H2. unfold aindep. unfold xindep in H. apply orb_true_iff in H. destruct H as [H|H].
  - destruct (item_foot i x it1 H1) as [W1 R1]. destruct (item_foot j y it2 H2) as [W2 R2].
    unfold independent in *. rewrite W1, W2, R1, R2, H. reflexivity.
  - destruct x as [a0|s1 o1 ds1], y as [b0|s2 o2 ds2]; try discriminate H. cbn in H. apply andb_true_iff in H. destruct H as [Ho Hc].
    destruct it1 as [[i' k] a], it2 as [[j' l] b]. apply In_x_items in H1, H2. destruct H1 as (_ & d1 & Hd1 & ->). destruct H2 as (_ & d2 & Hd2 & ->).
    cbn [snd ipc]. rewrite Ho, (cols_compat_sub ds1 ds2 d1 d2 Hc (nth_error_In _ _ Hd1) (nth_error_In _ _ Hd2)). apply orb_true_r.
Qed.

Lemma same_step_indep : forall i x k l a b, self_ok x = true -> In ((i, k), a) (x_items (i, x)) -> In ((i, l), b) (x_items (i, x)) -> k <> l ->
  aindep a b = true.
Proof.
  intros i x k l a b S H1 H2 Hkl. apply In_x_items in H1, H2. destruct x as [a0|sty o ds].
  - destruct H1 as (_ & -> & _), H2 as (_ & -> & _). congruence.
  - destruct H1 as (_ & d1 & Hd1 & ->), H2 as (_ & d2 & Hd2 & ->). destruct (self_ok_inpl sty o ds S) as (_ & ND & HR).
    unfold aindep. cbn [ipc]. rewrite Nat.eqb_refl. cbn [andb].
    assert (C : cols_compat [d1] [d2] = true).
    { unfold cols_compat. rewrite !andb_true_iff.
      assert (R1 : forall f, In f (inputs d1) -> In f (reads ds)) by (intros f Hf; unfold reads; apply in_flat_map; exists d1; split; [exact (nth_error_In _ _ Hd1) | exact Hf]).
      assert (R2 : forall f, In f (inputs d2) -> In f (reads ds)) by (intros f Hf; unfold reads; apply in_flat_map; exists d2; split; [exact (nth_error_In _ _ Hd2) | exact Hf]).
      assert (N1 : In (fname d1) (names ds)) by (apply in_map; exact (nth_error_In _ _ Hd1)).
      assert (N2 : In (fname d2) (names ds)) by (apply in_map; exact (nth_error_In _ _ Hd2)).
      repeat split; apply disjointb_intro; unfold names, reads; cbn; rewrite ?app_nil_r.
      - intros f [<-|[]] [X|[]]. apply Hkl.
        assert (L1 : k < length (names ds)) by (unfold names; rewrite map_length; apply nth_error_Some; congruence).
        apply (proj1 (NoDup_nth_error (names ds)) ND k l L1). unfold names. rewrite !nth_error_map, Hd1, Hd2. cbn. congruence.
      - intros f Hf [X|[]]. subst f. exact (HR _ (R1 _ Hf) N2).
      - intros f Hf [X|[]]. subst f. exact (HR _ (R2 _ Hf) N1). }
    rewrite C. apply orb_true_r.
Qed.

Section Assembly.
  Variable n : nat.
  Variable steps : list xstep.
  Variable before : nat -> nat -> bool.
  Variable ev : list xevent.
  Hypothesis NDs : NoDup (map fst steps).
  Hypothesis WF : wf_x steps ev.
  Hypothesis SCH : scheduled_x before steps ev.
  Hypothesis DEP : xdep_ordered before steps.
  Hypothesis SELF : forall x, In x steps -> self_ok (snd x) = true.

  Lemma In_ev_items : forall it, In it (ev_items steps ev) <-> is_item steps it.
  Proof.
    intros [[i k] a]. unfold ev_items. rewrite in_flat_map. destruct WF as (_ & EX & _). split.
    - intros [e [He Hi]]. destruct e as [j|j|j l|j]; cbn in Hi; [destruct Hi | | | destruct Hi].
      + destruct (aget steps j) as [[a0|sty o ds]|] eqn:A; [|destruct Hi|destruct Hi]. destruct Hi as [Hi|[]]. injection Hi as <- <- <-.
        left. auto.
      + destruct (aget steps j) as [[a0|sty o ds]|] eqn:A; [destruct Hi| |destruct Hi]. destruct (nth_error ds l) as [d|] eqn:Hd; [|destruct Hi].
        destruct Hi as [Hi|[]]. injection Hi as <- <- <-. right. exists sty, o, ds, d. auto.
    - intros [[-> A]|(sty & o & ds & d & A & Hd & ->)].
      + exists (ECalc i). split; [apply EX; cbn; exists a; exact A|]. cbn. rewrite A. left. reflexivity.
      + exists (EIns i k). split.
        * apply EX. cbn. exists sty, o, ds. split; [exact A|]. apply nth_error_Some. congruence.
        * cbn. rewrite A, Hd. left. reflexivity.
  Qed.

  Lemma In_lin_items : forall lin it, Permutation steps lin -> (In it (lin_items lin) <-> is_item steps it).
  Proof.
    intros lin [[i k] a] HP. unfold lin_items. rewrite in_flat_map. split.
    - intros [[j x] [Hj Hi]]. apply In_x_items in Hi. destruct Hi as [-> Hi].
      assert (A : aget steps j = Some x) by (apply In_aget; [exact NDs | exact (Permutation_in _ (Permutation_sym HP) Hj)]).
      destruct x as [a0|sty o ds].
      + destruct Hi as [-> ->]. left. auto.
      + destruct Hi as (d & Hd & ->). right. exists sty, o, ds, d. auto.
    - intros [[-> A]|(sty & o & ds & d & A & Hd & ->)].
      + exists (i, XRepl a). split; [apply (Permutation_in _ HP); apply aget_In; exact A|]. apply In_x_items. auto.
      + exists (i, XInpl sty o ds). split; [apply (Permutation_in _ HP); apply aget_In; exact A|]. apply In_x_items.
        split; [reflexivity|]. exists d. auto.
  Qed.

  Lemma ev_item_key : forall e it, In it (ev_item steps e) ->
    (fst (fst it) = match e with ERead i => i | ECalc i => i | EIns i _ => i | EWrite i => i end)
    /\ ((exists a0, e = ECalc (fst (fst it)) /\ snd (fst it) = 0 /\ aget steps (fst (fst it)) = Some (XRepl a0))
        \/ (exists sty o ds, e = EIns (fst (fst it)) (snd (fst it)) /\ aget steps (fst (fst it)) = Some (XInpl sty o ds))).
  Proof.
    intros e it H. destruct e as [j|j|j l|j]; cbn in H; [destruct H | | | destruct H].
    - destruct (aget steps j) as [[a0|sty o ds]|] eqn:A; [|destruct H|destruct H]. destruct H as [<-|[]]. cbn. split; [reflexivity|].
      left. exists a0. auto.
    - destruct (aget steps j) as [[a0|sty o ds]|] eqn:A; [destruct H| |destruct H]. destruct (nth_error ds l); [|destruct H].
      destruct H as [<-|[]]. cbn. split; [reflexivity|]. right. exists sty, o, ds. auto.
  Qed.

  Lemma ev_items_nodup : forall l, NoDup l -> NoDup (map fst (ev_items steps l)).
  Proof.
    induction l as [|e l IH]; intros ND; [constructor|]. apply NoDup_cons_iff in ND. destruct ND as [N1 N2].
    change (ev_items steps (e :: l)) with (ev_item steps e ++ ev_items steps l). rewrite map_app.
    assert (NDh : NoDup (map fst (ev_item steps e))).
    { pose proof (ev_item_len steps e) as L. destruct (ev_item steps e) as [|x [|y t]]; [constructor | repeat constructor; intros [] |].
      cbn in L. lia. }
    apply NoDup_app_intro; [exact NDh | apply IH; exact N2 |].
    intros kx H1 H2. apply in_map_iff in H1. destruct H1 as [x [<- Hx]]. apply in_map_iff in H2. destruct H2 as [y [Ey Hy]].
    unfold ev_items in Hy. apply in_flat_map in Hy. destruct Hy as [e' [He' Hy]].
    destruct (ev_item_key e x Hx) as [_ Kx]. destruct (ev_item_key e' y Hy) as [_ Ky]. rewrite Ey in Ky.
    destruct Kx as [(a0 & -> & Z & A)|(sty & o & ds & -> & A)], Ky as [(a1 & -> & Z' & A')|(sty' & o' & ds' & -> & A')];
      try congruence; apply N1; exact He'.
  Qed.

  Lemma is_item_x : forall i k a, is_item steps ((i, k), a) -> exists x, aget steps i = Some x /\ In ((i, k), a) (x_items (i, x)).
  Proof.
    intros i k a [[-> A]|(sty & o & ds & d & A & Hd & ->)].
    - exists (XRepl a). split; [exact A|]. apply In_x_items. auto.
    - exists (XInpl sty o ds). split; [exact A|]. apply In_x_items. split; [reflexivity|]. exists d. auto.
  Qed.

  (* R1: the effect order of a legal schedule is a linearisation *)
  Lemma ev_items_respects : forall suf pre, ev = pre ++ suf -> grespects ikey (kbefore before) (ev_items steps suf).
  Proof.
    induction suf as [|e suf IH]; intros pre E; [exact I|].
    assert (E2 : ev = (pre ++ [e]) ++ suf) by (rewrite <- app_assoc; exact E).
    change (ev_items steps (e :: suf)) with (ev_item steps e ++ ev_items steps suf).
    pose proof (ev_item_len steps e) as L. destruct (ev_item steps e) as [|x [|x' t]] eqn:Q; [exact (IH _ E2) | | cbn in L; lia].
    cbn [app grespects]. split; [|exact (IH _ E2)].
    intros y Hy. unfold kbefore. destruct (Nat.eqb (fst (fst y)) (fst (fst x))) eqn:Qe; [reflexivity|]. cbn [negb andb].
    destruct (before (fst (fst y)) (fst (fst x))) eqn:B; [exfalso | reflexivity].
    assert (Hx : In x (ev_item steps e)) by (rewrite Q; left; reflexivity).
    unfold ev_items in Hy. apply in_flat_map in Hy. destruct Hy as [e' [He' Hy]].
    destruct (split_facts steps ev WF e pre suf E) as (N & Iev & _ & _ & _).
    assert (Iev' : In e' ev) by (rewrite E; apply in_or_app; right; right; exact He').
    assert (Lee : idx e ev < idx e' ev).
    { destruct WF as (ND & _ & _). rewrite E in ND. destruct (NoDup_split_notin pre e suf ND) as [_ N2].
      assert (Np : ~ In e' pre).
      { intros X. apply (NoDup_app_disjoint _ _ _ e' ND X). right. exact He'. }
      rewrite E, (idx_at_split e pre suf N), (idx_app_notin e' pre _ Np). cbn [idx].
      destruct (xevent_eqb e e') eqn:Qx; [apply xevent_eqb_eq in Qx; subst e'; contradiction | lia]. }
    set (i := fst (fst x)) in *. set (j := fst (fst y)) in *.
    assert (Ai : exists xi, aget steps i = Some xi /\ idx (ERead i) ev < idx e ev).
    { destruct (ev_item_key e x Hx) as [_ [(a0 & -> & _ & A)|(sty & o & ds & -> & A)]];
        (eexists; split; [exact A|]); apply (order_of steps ev WF _ Iev). }
    assert (Aj : exists yj, aget steps j = Some yj /\ idx e' ev < idx (EWrite j) ev).
    { destruct (ev_item_key e' y Hy) as [_ [(a0 & -> & _ & A)|(sty & o & ds & -> & A)]];
        (eexists; split; [exact A|]); apply (order_of steps ev WF _ Iev'). }
    destruct Ai as (xi & Axi & L1). destruct Aj as (yj & Ayj & L2).
    pose proof (SCH j i B (aget_fst _ _ _ _ Ayj) (aget_fst _ _ _ _ Axi)). lia.
  Qed.

  (* R2: the one-column expansion of a sequential order is a linearisation *)
  Lemma lin_items_respects : forall lin, respects_x before lin -> grespects ikey (kbefore before) (lin_items lin).
  Proof.
    induction lin as [|[i x] lin IH]; intros R; [exact I|]. cbn in R. destruct R as [Rx R].
    change (lin_items ((i, x) :: lin)) with (x_items (i, x) ++ lin_items lin). apply grespects_app_intro; [| exact (IH R) |].
    - apply grespects_all. intros a b Ha Hb. unfold kbefore. rewrite (x_items_key i x a Ha), (x_items_key i x b Hb), Nat.eqb_refl. reflexivity.
    - intros a b Ha Hb. unfold lin_items in Hb. apply in_flat_map in Hb. destruct Hb as [[j y] [Hj Hb]].
      unfold kbefore. rewrite (x_items_key i x a Ha), (x_items_key j y b Hb). pose proof (Rx (j, y) Hj) as Z. cbn [fst] in Z. rewrite Z. apply andb_false_r.
  Qed.

  (* D: every two dependent items are ordered *)
  Lemma items_dep_ordered : gdep_ordered ikey aindep (kbefore before) (ev_items steps ev).
  Proof.
    intros [[i k] a] [[j l] b] Hx Hy Hk Hd. cbn [fst snd] in *. apply In_ev_items in Hx, Hy.
    destruct (is_item_x i k a Hx) as (x & Ax & Ix). destruct (is_item_x j l b Hy) as (y & Ay & Iy).
    destruct (Nat.eq_dec i j) as [->|Hne].
    - exfalso. assert (y = x) by congruence. subst y. assert (Hkl : k <> l) by congruence.
      rewrite (same_step_indep j x k l a b (SELF (j, x) (aget_In _ _ _ _ Ax)) Ix Iy Hkl) in Hd. discriminate.
    - assert (X : xindep x y = false).
      { destruct (xindep x y) eqn:X; [|reflexivity]. pose proof (items_indep i x j y _ _ X Ix Iy) as Z. cbn [snd] in Z. congruence. }
      unfold kbefore. cbn [fst]. destruct (DEP (i, x) (j, y) (aget_In _ _ _ _ Ax) (aget_In _ _ _ _ Ay) Hne X) as [B|B]; cbn [fst] in B; rewrite B.
      + left. apply Nat.eqb_neq in Hne. rewrite Hne. reflexivity.
      + right. assert (Hne' : j <> i) by congruence. apply Nat.eqb_neq in Hne'. rewrite Hne'. reflexivity.
  Qed.

  (* the atomic actions of the events, in event order, give what any sequential order of the steps gives *)
  Lemma effects_sequential : forall lin s, Permutation steps lin -> respects_x before lin ->
    outcome_eqv (exec n s (flat_map (eff steps) ev)) (exec n s (map base (map snd lin))).
  Proof.
    intros lin s HP HR.
    assert (NDl : NoDup (map fst lin)) by (apply (Permutation_NoDup (Permutation_map fst HP)); exact NDs).
    assert (P : Permutation (ev_items steps ev) (lin_items lin)).
    { apply NoDup_Permutation.
      - apply (NoDup_map_inv fst). apply ev_items_nodup. apply WF.
      - apply (NoDup_map_inv fst). apply lin_items_nodup. exact NDl.
      - intros it. rewrite In_ev_items, (In_lin_items lin it HP). reflexivity. }
    eapply outcome_eqv_trans.
    - rewrite <- map_snd_ev_items. apply gswaps_outcome.
      apply (grespects_swaps ikey aindep (kbefore before) (lin_items lin) (ev_items steps ev)).
      + apply ev_items_nodup. apply WF.
      + exact P.
      + apply (ev_items_respects ev []). reflexivity.
      + apply lin_items_respects. exact HR.
      + exact items_dep_ordered.
    - rewrite map_snd_lin_items. apply expand_all. intros x Hx. apply in_map_iff in Hx. destruct Hx as [[i x'] [<- Hx]].
      apply (SELF (i, x')). exact (Permutation_in _ (Permutation_sym HP) Hx).
  Qed.
End Assembly.

Lemma xout_rel_eqv : forall xo o1 o2, xout_rel xo o1 -> outcome_eqv o1 o2 -> xoutcome_eqv xo o2.
Proof.
  intros [st|e] o1 o2 R H; cbn in R.
  - destruct o1 as [s1| |]; try contradiction. destruct o2 as [s2| |]; cbn in H; try contradiction. cbn.
    intros ob. rewrite R. apply H.
  - subst o1. destruct e, o2; cbn in *; auto.
Qed.

(* MAIN: every legal interleaving that respects `before` of a plan in which every two steps that are not xindep (independent,
   or both in place on one object with different columns) are ordered by `before` yields what every sequential order yields *)
Lemma inplace_schedules_l : forall n before steps ev lin st0 s0,
  NoDup (map fst steps) -> (forall x, In x steps -> self_ok (snd x) = true) -> xdep_ordered before steps ->
  wf_x steps ev -> scheduled_x before steps ev ->
  Permutation steps lin -> respects_x before lin ->
  hst_wf st0 -> (forall o, obs st0 o = get_obj s0 o) ->
  xoutcome_eqv (xrun n steps st0 [] ev) (exec n s0 (map base (map snd lin))).
Proof.
  intros n before steps ev lin st0 s0 ND SELF DEP WF SCH HP HR W A.
  eapply xout_rel_eqv.
  - exact (xrun_exec_l n before steps ev st0 s0 ND WF SCH DEP W A).
  - exact (effects_sequential n steps before ev ND WF SCH DEP SELF lin s0 HP HR).
Qed.
