(* C19 lemmas: text cleaning on ASCII text -- the PythonDict model refines the spec, idempotence. *)
From Coq Require Import List Bool Arith Ascii String Lia.
Import ListNotations.
Require Import MV.Spec.Builtins MV.Model.TextCleanPyDict MV.Model.BuiltinsFw MV.Proofs.RemoveUrlsP.

(* ---- character level: finite case analysis over all 256 characters ---- *)
Ltac all_ascii a := destruct a as [[] [] [] [] [] [] [] []]; vm_compute; reflexivity.

Lemma re_space_is_ws : forall a, re_space a = is_ws a.
Proof. intros a. all_ascii a. Qed.
Lemma punct_char : forall a, in_text a punctuation = is_punct a.
Proof. intros a. all_ascii a. Qed.
Lemma special_char : forall a, negb (re_alnum a || re_space a) = negb (is_alnum a || is_ws a).
Proof. intros a. all_ascii a. Qed.
Lemma lower_char_same : forall a, py_lower_char a = lower_char a.
Proof. reflexivity. Qed.
Lemma lower_char_idem : forall a, lower_char (lower_char a) = lower_char a.
Proof. intros a. all_ascii a. Qed.
Lemma space_is_ws : is_ws space = true.
Proof. reflexivity. Qed.

(* ---- the three character-wise operations ---- *)
Lemma normalize_refines : forall s, py_normalize s = lower s.
Proof. reflexivity. Qed.
Lemma punct_refines : forall s, py_remove_punctuation s = remove_punct s.
Proof.
  induction s as [|a t IH]. reflexivity. cbn [py_remove_punctuation]. unfold remove_punct in *. cbn [filter].
  rewrite punct_char, IH. destruct (is_punct a); reflexivity.
Qed.
Lemma special_refines : forall s, py_remove_special_chars s = remove_special s.
Proof.
  induction s as [|a t IH]. reflexivity. cbn [py_remove_special_chars]. unfold remove_special in *. cbn [filter].
  rewrite special_char, IH. destruct (is_alnum a || is_ws a); reflexivity.
Qed.

(* ---- whitespace normalisation: re.sub(r"\s+", " ", s).strip() = " ".join(s.split()) ---- *)
Fixpoint take_word (s : text) : text :=
  match s with [] => [] | a :: t => if is_ws a then [] else a :: take_word t end.
Fixpoint drop_word (s : text) : text :=
  match s with [] => [] | a :: t => if is_ws a then s else drop_word t end.

Lemma lstrip_cons : forall a t, lstrip (a :: t) = if is_ws a then lstrip t else a :: t.
Proof. intros. cbn. rewrite re_space_is_ws. reflexivity. Qed.
Lemma collapse_cons : forall b a t,
  collapse b (a :: t) = if is_ws a then (if b then collapse true t else space :: collapse true t) else a :: collapse false t.
Proof. intros. cbn. rewrite re_space_is_ws. reflexivity. Qed.

Lemma lstrip_collapse : forall s b, lstrip (collapse b s) = collapse false (lstrip s).
Proof.
  induction s as [|a t IH]; intros b. reflexivity.
  rewrite collapse_cons, (lstrip_cons a t). destruct (is_ws a) eqn:E.
  - destruct b. apply IH. rewrite lstrip_cons, space_is_ws. apply IH.
  - rewrite lstrip_cons, E, collapse_cons, E. reflexivity.
Qed.
Lemma collapse_true_lstrip : forall s, collapse true s = collapse false (lstrip s).
Proof.
  induction s as [|a t IH]. reflexivity.
  rewrite collapse_cons, lstrip_cons. destruct (is_ws a) eqn:E. exact IH. rewrite collapse_cons, E. reflexivity.
Qed.
Lemma collapse_take_drop : forall s, collapse false s = take_word s ++ collapse false (drop_word s).
Proof.
  induction s as [|a t IH]. reflexivity.
  cbn [take_word drop_word]. destruct (is_ws a) eqn:E. reflexivity.
  rewrite collapse_cons, E, IH. reflexivity.
Qed.

Lemma lstrip_app : forall x y, lstrip (x ++ y) = match lstrip x with [] => lstrip y | _ => lstrip x ++ y end.
Proof.
  induction x as [|a t IH]; intros y. cbn. destruct (lstrip y); reflexivity.
  cbn [app]. rewrite !lstrip_cons. destruct (is_ws a). apply IH. reflexivity.
Qed.
Lemma rstrip_app : forall a b, rstrip (a ++ b) = match rstrip b with [] => rstrip a | _ => a ++ rstrip b end.
Proof.
  intros a b. unfold rstrip. rewrite rev_app_distr, lstrip_app. destruct (lstrip (rev b)) as [|x l] eqn:E.
  - reflexivity.
  - rewrite rev_app_distr, rev_involutive. destruct (rev (x :: l)) eqn:E2; [|reflexivity].
    exfalso. apply (f_equal (@List.length _)) in E2. rewrite rev_length in E2. discriminate.
Qed.
Lemma rstrip_nil : rstrip [] = [].
Proof. reflexivity. Qed.
Lemma rstrip_snoc_nonws : forall x a, is_ws a = false -> rstrip (x ++ [a]) = x ++ [a].
Proof.
  intros. unfold rstrip. rewrite rev_app_distr. cbn [rev app]. rewrite lstrip_cons, H.
  change (a :: rev x) with ([a] ++ rev x). rewrite rev_app_distr, rev_involutive. reflexivity.
Qed.
Lemma rstrip_snoc_ws : forall x a, is_ws a = true -> rstrip (x ++ [a]) = rstrip x.
Proof. intros. unfold rstrip. rewrite rev_app_distr. cbn [rev app]. rewrite lstrip_cons, H. reflexivity. Qed.

Definition nonws (w : text) : Prop := forall a, In a w -> is_ws a = false.
Lemma take_word_nonws : forall s, nonws (take_word s).
Proof.
  induction s as [|a t IH]; intros x H; cbn in H. contradiction.
  destruct (is_ws a) eqn:E. contradiction. destruct H as [<-|H]; auto.
Qed.
Lemma rstrip_nonws : forall w, nonws w -> rstrip w = w.
Proof.
  intros w H. destruct w as [|a t] using rev_ind. reflexivity.
  apply rstrip_snoc_nonws. apply H. apply in_or_app. right. left. reflexivity.
Qed.
Lemma drop_word_head : forall s b t, drop_word s = b :: t -> is_ws b = true.
Proof.
  induction s as [|a u IH]; intros b t H; cbn in H. discriminate.
  destruct (is_ws a) eqn:E. inversion H; subst; auto. eapply IH; eauto.
Qed.
Lemma drop_word_length : forall s, (List.length (drop_word s) <= List.length s)%nat.
Proof. induction s as [|a t IH]; cbn. lia. destruct (is_ws a); cbn; lia. Qed.

(* words *)
Lemma words_acc_spec : forall s cur,
  words_acc cur s =
  match rev cur ++ take_word s, drop_word s with
  | [], [] => []
  | w, [] => [w]
  | [], _ :: t => words_acc [] t
  | w, _ :: t => w :: words_acc [] t
  end.
Proof.
  induction s as [|a t IH]; intros cur.
  - cbn [words_acc take_word drop_word]. rewrite app_nil_r. destruct cur as [|c cs]. reflexivity.
    destruct (rev (c :: cs)) eqn:E; [|reflexivity]. exfalso. apply (f_equal (@List.length _)) in E. rewrite rev_length in E. discriminate.
  - cbn [words_acc take_word drop_word]. destruct (is_ws a) eqn:E.
    + rewrite app_nil_r. destruct cur as [|c cs]. reflexivity.
      destruct (rev (c :: cs)) eqn:E2; [|reflexivity]. exfalso. apply (f_equal (@List.length _)) in E2. rewrite rev_length in E2. discriminate.
    + rewrite IH. cbn [rev]. rewrite <- app_assoc. reflexivity.
Qed.

Lemma words_lstrip : forall s, words (lstrip s) = words s.
Proof.
  induction s as [|a t IH]. reflexivity. rewrite lstrip_cons. destruct (is_ws a) eqn:E; [|reflexivity].
  rewrite IH. unfold words. cbn [words_acc]. rewrite E. reflexivity.
Qed.

Lemma words_acc_nonempty : forall s cur w, In w (words_acc cur s) -> w <> [].
Proof.
  induction s as [|a t IH]; intros cur w H; cbn [words_acc] in H.
  - destruct cur as [|c cs]. contradiction. destruct H as [<-|[]]. intro E. apply (f_equal (@List.length _)) in E. rewrite rev_length in E. discriminate.
  - destruct (is_ws a).
    + destruct cur as [|c cs]. eapply IH; eauto. destruct H as [<-|H]. 
      intro E. apply (f_equal (@List.length _)) in E. rewrite rev_length in E. discriminate. eapply IH; eauto.
    + eapply IH; eauto.
Qed.

Lemma join_sp_nil_iff : forall ws, (forall w, In w ws -> w <> []) -> join_sp ws = [] -> ws = [].
Proof.
  intros [|w [|w2 t]] H E; auto; exfalso.
  - cbn in E. apply (H w); auto. left; auto.
  - cbn in E. destruct w; [apply (H []); [left|]; auto | discriminate].
Qed.
Lemma join_sp_cons : forall w ws, ws <> [] -> join_sp (w :: ws) = w ++ space :: join_sp ws.
Proof. intros w [|x t] H. congruence. reflexivity. Qed.

Lemma norm_ws_core : forall n s, (List.length s <= n)%nat -> rstrip (collapse false (lstrip s)) = join_sp (words s).
Proof.
  induction n as [|n IH]; intros s L.
  - destruct s; [reflexivity | cbn in L; lia].
  - rewrite <- (words_lstrip s).
    assert (L' : (List.length (lstrip s) <= S n)%nat).
    { clear -L. revert L. induction s as [|a t IHs]; intros L. cbn; lia. rewrite lstrip_cons. destruct (is_ws a). cbn in L. 
      etransitivity. apply IHs. lia. lia. exact L. }
    assert (HD : lstrip s = [] \/ exists a t, lstrip s = a :: t /\ is_ws a = false).
    { clear. induction s as [|a t IHs]. left; reflexivity. rewrite lstrip_cons. destruct (is_ws a) eqn:E. exact IHs. right; eauto. }
    destruct HD as [->|[a [t [Es Ea]]]]. reflexivity.
    rewrite Es in *. set (s' := a :: t) in *.
    rewrite collapse_take_drop. unfold words. rewrite words_acc_spec. cbn [rev app].
    assert (Hw : take_word s' = a :: take_word t) by (unfold s'; cbn; rewrite Ea; reflexivity).
    pose proof (take_word_nonws s') as NW. rewrite Hw in *. set (w := a :: take_word t) in *.
    destruct (drop_word s') as [|b r] eqn:Er.
    + cbn [collapse]. rewrite app_nil_r. cbn [join_sp]. apply rstrip_nonws. exact NW.
    + pose proof (drop_word_head _ _ _ Er) as Hb.
      assert (Lr : (List.length r <= n)%nat).
      { pose proof (drop_word_length s') as D. rewrite Er in D. cbn [List.length] in D. lia. }
      rewrite collapse_cons, Hb, collapse_true_lstrip.
      specialize (IH r Lr). fold (words r).
      replace (w ++ space :: collapse false (lstrip r)) with ((w ++ [space]) ++ collapse false (lstrip r))
        by (rewrite <- app_assoc; reflexivity).
      rewrite rstrip_app, IH.
      destruct (join_sp (words r)) as [|x l] eqn:Ej.
      * apply join_sp_nil_iff in Ej. 2: (intros; eapply words_acc_nonempty; eauto). rewrite Ej. cbn [join_sp].
        rewrite rstrip_snoc_ws by apply space_is_ws. apply rstrip_nonws. exact NW.
      * assert (words r <> []) by (intro E0; rewrite E0 in Ej; discriminate).
        rewrite join_sp_cons by auto. rewrite Ej, <- app_assoc. reflexivity.
Qed.

Lemma whitespace_refines : forall s, py_normalize_whitespace s = norm_ws s.
Proof.
  intros. unfold py_normalize_whitespace, strip, norm_ws. rewrite lstrip_collapse. eapply norm_ws_core. apply Nat.le_refl.
Qed.

Lemma py_apply_refines : forall o s, py_apply o s = clean_spec o s.
Proof.
  intros [] s; cbn [py_apply clean_spec]. reflexivity. apply punct_refines. apply special_refines. apply whitespace_refines.
  apply py_remove_urls_refines.
Qed.

Lemma pydict_clean_refines_l : forall ops x, py_clean ops x = clean_cell ops x.
Proof.
  intros ops x. unfold py_clean, clean_cell, clean_pipeline, py_source.
  generalize (match x with None => [] | Some s => s end). induction ops as [|o t IH]; intros s; cbn. reflexivity.
  rewrite py_apply_refines. apply IH.
Qed.

(* ---- idempotence of every modelled operation ---- *)
Lemma filter_idem : forall {A} (P : A -> bool) l, filter P (filter P l) = filter P l.
Proof.
  induction l as [|x t IH]; cbn. reflexivity. destruct (P x) eqn:E; cbn; rewrite ?E, IH; reflexivity.
Qed.

Lemma words_acc_wf : forall s cur, nonws cur -> forall w, In w (words_acc cur s) -> nonws w.
Proof.
  induction s as [|a t IH]; intros cur Hc w H; cbn [words_acc] in H.
  - destruct cur as [|c cs]. contradiction. destruct H as [<-|[]]. intros x Hx. apply Hc. apply in_rev. exact Hx.
  - destruct (is_ws a) eqn:E.
    + destruct cur as [|c cs].
      * eapply IH; eauto.
      * destruct H as [<-|H]. intros x Hx. apply Hc. apply in_rev. exact Hx. eapply IH; [|eauto]. intros ? [].
    + eapply IH; [|eauto]. intros x [<-|Hx]; auto.
Qed.

Lemma words_acc_app_nonws : forall w cur rest, nonws w -> words_acc cur (w ++ rest) = words_acc (rev w ++ cur) rest.
Proof.
  induction w as [|a t IH]; intros cur rest H. reflexivity.
  cbn [app words_acc]. rewrite (H a) by (left; auto). rewrite IH by (intros x Hx; apply H; right; auto).
  cbn [rev]. rewrite <- app_assoc. reflexivity.
Qed.

Lemma rev_nil_inv : forall {A} (w : list A), rev w = [] -> w = [].
Proof. intros A w H. rewrite <- (rev_involutive w), H. reflexivity. Qed.

Lemma words_acc_flush : forall w rest, w <> [] ->
  words_acc (rev w) (space :: rest) = w :: words_acc [] rest /\ words_acc (rev w) [] = [w].
Proof.
  intros w rest H. cbn [words_acc]. rewrite space_is_ws. destruct (rev w) eqn:E.
  - apply rev_nil_inv in E. contradiction.
  - rewrite <- E, rev_involutive. split; reflexivity.
Qed.

Lemma words_join : forall ws, (forall w, In w ws -> w <> [] /\ nonws w) -> words (join_sp ws) = ws.
Proof.
  induction ws as [|w ws IH]; intros H. reflexivity.
  destruct (H w (or_introl eq_refl)) as [Hne Hnw].
  destruct ws as [|w2 t].
  - cbn [join_sp]. unfold words. rewrite <- (app_nil_r w) at 1. rewrite words_acc_app_nonws by auto.
    rewrite app_nil_r. apply (words_acc_flush w [] Hne).
  - rewrite join_sp_cons by discriminate. unfold words. rewrite words_acc_app_nonws by auto. rewrite app_nil_r.
    rewrite (proj1 (words_acc_flush w _ Hne)). f_equal. apply IH. intros; apply H; right; auto.
Qed.

Lemma norm_ws_idem : forall s, norm_ws (norm_ws s) = norm_ws s.
Proof.
  intros. unfold norm_ws. rewrite words_join. reflexivity.
  intros w Hw. split. eapply words_acc_nonempty; eauto. eapply words_acc_wf; [|eauto]. intros ? [].
Qed.

Lemma clean_ops_idempotent_l : forall o s, clean_spec o (clean_spec o s) = clean_spec o s.
Proof.
  intros [] s; cbn [clean_spec].
  - unfold lower. rewrite map_map. apply map_ext. apply lower_char_idem.
  - apply filter_idem.
  - apply filter_idem.
  - apply norm_ws_idem.
  - rewrite <- !py_remove_urls_refines. apply two_pass_idem. apply lits_ok_py.
Qed.

(* ---- pandas' RE2 white-space class: the same result unless the text holds \v or \x1c-\x1f ---- *)
Definition no_odd (s : text) : Prop := forall a, In a s -> odd_space a = false.

Lemma re2_char : forall a, odd_space a = false -> re2_space a = re_space a.
Proof. intros a. destruct a as [[] [] [] [] [] [] [] []]; vm_compute; intros; congruence. Qed.
Lemma odd_lower_char : forall a, odd_space (py_lower_char a) = odd_space a.
Proof. intros a. all_ascii a. Qed.
Lemma odd_space_space : odd_space space = false.
Proof. reflexivity. Qed.

Lemma pd_special_same : forall s, no_odd s -> pd_remove_special s = py_remove_special_chars s.
Proof.
  induction s as [|a t IH]; intros H. reflexivity.
  unfold pd_remove_special in *. cbn [filter py_remove_special_chars]. rewrite (re2_char a) by (apply H; left; auto).
  rewrite IH by (intros x Hx; apply H; right; auto). destruct (re_alnum a || re_space a); reflexivity.
Qed.
Lemma collapse_re2_same : forall s b, no_odd s -> collapse_re2 b s = collapse b s.
Proof.
  induction s as [|a t IH]; intros b H. reflexivity.
  cbn [collapse_re2 collapse]. rewrite (re2_char a) by (apply H; left; auto).
  rewrite !IH by (intros x Hx; apply H; right; auto). reflexivity.
Qed.

Lemma in_collapse : forall s b a, In a (collapse b s) -> a = space \/ In a s.
Proof.
  induction s as [|x t IH]; intros b a H; cbn [collapse] in H. contradiction.
  destruct (re_space x).
  - destruct b. destruct (IH _ _ H); auto. right; right; auto.
    destruct H as [<-|H]; auto. destruct (IH _ _ H); auto. right; right; auto.
  - destruct H as [<-|H]. right; left; auto. destruct (IH _ _ H); auto. right; right; auto.
Qed.
Lemma in_lstrip : forall s a, In a (lstrip s) -> In a s.
Proof.
  induction s as [|x t IH]; intros a H; cbn [lstrip] in H. contradiction.
  destruct (re_space x). right; auto. exact H.
Qed.
Lemma in_strip : forall s a, In a (strip s) -> In a s.
Proof.
  intros s a H. unfold strip, rstrip in H. apply in_rev in H. apply in_lstrip in H. apply in_rev in H.
  apply in_lstrip in H. exact H.
Qed.

Lemma py_apply_no_odd : forall o s, no_odd s -> no_odd (py_apply o s).
Proof.
  intros o s H a Ha. destruct o; cbn [py_apply] in Ha.
  - unfold py_normalize in Ha. apply in_map_iff in Ha. destruct Ha as [x [<- Hx]]. rewrite odd_lower_char. auto.
  - rewrite punct_refines in Ha. unfold remove_punct in Ha. apply filter_In in Ha. apply H. tauto.
  - rewrite special_refines in Ha. unfold remove_special in Ha. apply filter_In in Ha. apply H. tauto.
  - unfold py_normalize_whitespace in Ha. apply in_strip in Ha. apply in_collapse in Ha. destruct Ha as [->|Ha]; auto.
  - unfold py_remove_urls, two_pass, email_pass, url_pass in Ha. apply in_sub_del in Ha. apply in_sub_del in Ha. auto.
Qed.

Lemma pd_remove_urls_same : forall s, no_odd s -> pd_remove_urls s = py_remove_urls s.
Proof. intros s H. apply two_pass_ext. intros a Ha. apply re2_char. apply H. exact Ha. Qed.

Lemma pd_apply_same : forall o s, no_odd s -> pd_apply o s = py_apply o s.
Proof.
  intros [] s H; cbn [pd_apply py_apply]; auto.
  - apply pd_special_same; auto.
  - unfold pd_normalize_whitespace, py_normalize_whitespace. rewrite collapse_re2_same; auto.
  - apply pd_remove_urls_same; auto.
Qed.

Lemma pd_clean_same_l : forall ops s, no_odd s -> pd_clean ops s = py_clean ops (Some s).
Proof.
  intros ops s. unfold pd_clean, py_clean. cbn [py_source]. revert s. induction ops as [|o t IH]; intros s H; cbn. reflexivity.
  rewrite pd_apply_same by auto. apply IH. apply py_apply_no_odd. exact H.
Qed.
