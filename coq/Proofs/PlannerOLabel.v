(* The labelled graph of a feature graph with identities (Model/PlannerO.v label_graph):
     base_label          its underlying PlannerA graph: node k has id k and the fields of the k-th xnode
     label_is_eq_class   okb = index of the first node with == (group options, frameworks)   (hashable options)
     label_ctx           the context options of the features are not read: context_never_splits lifted to plans *)
From Coq Require Import List Bool Arith Lia Permutation.
Import ListNotations.
Require Import MV.Model.Orch MV.Model.OrchCheck MV.Model.Options MV.Model.Identity MV.Model.Grouping MV.Model.PlannerA MV.Model.PlannerO.
Require Import MV.Spec.OptionsSpec MV.Spec.GroupingSpec MV.Spec.PlannerASpec MV.Spec.PlannerOSpec.
Require Import MV.Proofs.GroupingP.

Lemma mapi_from_length : forall (A B : Type) (f : nat -> A -> B) l i, List.length (mapi_from f i l) = List.length l.
Proof. intros A B f l. induction l as [|x l IH]; intros i; cbn; [reflexivity | rewrite IH; reflexivity]. Qed.

Lemma mapi_from_nth : forall (A B : Type) (f : nat -> A -> B) l i k,
  nth_error (mapi_from f i l) k = option_map (f (i + k)) (nth_error l k).
Proof.
  intros A B f l. induction l as [|x l IH]; intros i k; cbn [mapi_from].
  - destruct k; reflexivity.
  - destruct k as [|k]; cbn [nth_error option_map]; [rewrite Nat.add_0_r; reflexivity|].
    rewrite IH. replace (S i + k) with (i + S k) by lia. reflexivity.
Qed.

Lemma mapi_from_In : forall (A B : Type) (f : nat -> A -> B) l i y,
  In y (mapi_from f i l) <-> exists k x, nth_error l k = Some x /\ y = f (i + k) x.
Proof.
  intros A B f l i y. split.
  - intros H. apply In_nth_error in H. destruct H as [k Hk]. rewrite mapi_from_nth in Hk.
    destruct (nth_error l k) as [x|] eqn:E; [|discriminate]. cbn in Hk. injection Hk as Hk. exists k, x. split; [exact E | symmetry; exact Hk].
  - intros [k [x [Hk E]]]. subst y. apply (nth_error_In _ k). rewrite mapi_from_nth, Hk. reflexivity.
Qed.

Lemma map_mapi_from : forall (A B C : Type) (h : B -> C) (f : nat -> A -> B) l i,
  map h (mapi_from f i l) = mapi_from (fun k x => h (f k x)) i l.
Proof. intros A B C h f l. induction l as [|x l IH]; intros i; cbn; [reflexivity | rewrite IH; reflexivity]. Qed.

Lemma mapi_from_const_seq : forall (A : Type) (l : list A) i, mapi_from (fun k _ => k) i l = seq i (List.length l).
Proof. intros A l. induction l as [|x l IH]; intros i; cbn; [reflexivity | rewrite IH; reflexivity]. Qed.

(* ---------- the underlying graph ---------- *)
Lemma ids_label : forall xs, ids (base (label_graph xs)) = seq 0 (List.length xs).
Proof.
  intros xs. unfold ids, base, label_graph. rewrite !map_mapi_from. cbn [on fid label_node]. apply mapi_from_const_seq.
Qed.

Lemma label_nth : forall xs k x, nth_error xs k = Some x -> nth_error (label_graph xs) k = Some (label_node (gfeats xs) k x).
Proof. intros xs k x H. unfold label_graph. rewrite mapi_from_nth, H. reflexivity. Qed.

Lemma base_label_In : forall xs n, In n (base (label_graph xs)) <->
  exists k x, nth_error xs k = Some x /\ n = {| fid := k; fgrp := xgrp x; fins := xins x; freq := xreq x; fcfw := xcfw x |}.
Proof.
  intros xs n. unfold base, label_graph. rewrite map_mapi_from. cbn [on label_node]. rewrite mapi_from_In. cbn. reflexivity.
Qed.

(* ---------- labels are classes of equal (group options, frameworks) ---------- *)
Theorem label_is_eq_class : forall xs, hashable_request (gfeats xs) ->
  forall k x, nth_error xs k = Some x ->
  exists n, nth_error (label_graph xs) k = Some n /\ fid (on n) = k /\ okb n = eq_class (gfeats xs) (gfeat_of k x) /\ oty n = f_dtype (xf x).
Proof.
  intros xs Hh k x Hk. exists (label_node (gfeats xs) k x). split; [exact (label_nth xs k x Hk)|]. split; [reflexivity|]. split; [|reflexivity].
  cbn [okb label_node]. unfold base_class, eq_class. apply first_idx_ext. intros y Hy. cbv beta.
  assert (Hx : In (gfeat_of k x) (gfeats xs)).
  { unfold gfeats. apply mapi_from_In. exists k, x. split; [exact Hk | reflexivity]. }
  destruct (Hh y Hy) as (Wy & Ny & Hy'). destruct (Hh _ Hx) as (Wx & Nx & Hx').
  pose proof (same_class_iff_equal_options_l y (gfeat_of k x) Wy Wx Ny Nx Hy' Hx') as [H1 H2].
  destruct (base_eqb y (gfeat_of k x)) eqn:E1, (opts_agree y (gfeat_of k x)) eqn:E2; try reflexivity.
  - discriminate (H1 eq_refl).
  - discriminate (H2 eq_refl).
Qed.

(* ---------- context options are never read ---------- *)
Lemma gfeats_ctx : forall xs xs', Forall2 same_but_context_x xs xs' ->
  forall i, Forall2 same_but_context (mapi_from gfeat_of i xs) (mapi_from gfeat_of i xs').
Proof.
  intros xs xs' H. induction H as [|x x' t t' Hx _ IH]; intros i; cbn; [constructor|]. constructor; [|apply IH].
  destruct Hx as (Hg & Ht & _ & Hc & _). unfold same_but_context, gfeat_of. cbn. rewrite Hg, Ht, Hc. repeat split; reflexivity.
Qed.

Theorem label_ctx : forall xs xs', Forall2 same_but_context_x xs xs' -> label_graph xs = label_graph xs'.
Proof.
  intros xs xs' H. unfold label_graph.
  assert (Hfs : Forall2 same_but_context (gfeats xs) (gfeats xs')) by (apply gfeats_ctx; exact H).
  revert Hfs. generalize (gfeats xs) (gfeats xs'). intros fs fs' Hfs. generalize 0.
  induction H as [|x x' t t' Hx _ IH]; intros i; cbn; [reflexivity|]. rewrite IH. f_equal.
  destruct Hx as (Hg & Ht & Hgr & Hc & Hr & Hi). unfold label_node. rewrite Hgr, Hc, Hr, Hi, Ht. f_equal.
  apply (base_class_ctx fs fs' _ _ Hfs). unfold same_but_context, gfeat_of. cbn. rewrite Hg, Ht, Hc. repeat split; reflexivity.
Qed.

Theorem context_never_splits_O : forall xs xs' ord, Forall2 same_but_context_x xs xs' ->
  plan_O ord (label_graph xs) = plan_O ord (label_graph xs') /\ prepare_O ord (label_graph xs) = prepare_O ord (label_graph xs').
Proof. intros xs xs' ord H. rewrite (label_ctx xs xs' H). split; reflexivity. Qed.
