(* From requests to runs: the graph of a request (feature definitions + requested names) satisfies the hypotheses of the
   planner theorems, so that the planned request terminates (terminates_sync) and computes every feature after all its
   ancestors (start_requires).  Model/PlannerA.v request_graph; Spec/PlannerASpec.v defs_ok. *)
From Coq Require Import List Bool Arith Lia Permutation.
Import ListNotations.
Require Import MV.Model.Orch MV.Model.OrchCheck MV.Model.Grouping MV.Model.PlannerA MV.Spec.PlannerASpec.
Require Import MV.Proofs.OrchP MV.Proofs.OrchTermP MV.Proofs.PlannerASets MV.Proofs.PlannerAGraph.
Require Import MV.Proofs.PlannerAQueue MV.Proofs.PlannerALevels MV.Proofs.PlannerAOrder MV.Proofs.PlanSimP MV.Proofs.PlannerAP MV.Proofs.PlannerADet.

(* ---------- definitions by name ---------- *)
Lemma def_of_In : forall defs x d, def_of defs x = Some d -> In d defs /\ dname d = x.
Proof.
  intros defs x d H. unfold def_of in H. apply find_some in H. destruct H as [Hin E]. apply Nat.eqb_eq in E. split; assumption.
Qed.

Lemma def_of_complete : forall defs, NoDup (map dname defs) -> forall d, In d defs -> def_of defs (dname d) = Some d.
Proof.
  intros defs. induction defs as [|a defs IH]; intros Hnd d Hd; [destruct Hd|].
  cbn in Hnd. apply NoDup_cons_iff in Hnd. destruct Hnd as [Ha Hdefs]. unfold def_of. cbn.
  destruct Hd as [Hd|Hd].
  - subst a. rewrite Nat.eqb_refl. reflexivity.
  - destruct (Nat.eqb (dname a) (dname d)) eqn:E.
    + exfalso. apply Nat.eqb_eq in E. apply Ha. rewrite E. apply in_map. exact Hd.
    + apply IH; assumption.
Qed.

Lemma def_of_name : forall defs x, In x (map dname defs) -> exists d, def_of defs x = Some d.
Proof.
  intros defs x H. apply in_map_iff in H. destruct H as [d [E Hd]].
  destruct (def_of defs x) as [d'|] eqn:Ed; [exists d'; reflexivity|]. exfalso.
  unfold def_of in Ed. apply (find_none _ _ Ed) in Hd. rewrite E, Nat.eqb_refl in Hd. discriminate.
Qed.

Lemma dins_of_dparent : forall defs, NoDup (map dname defs) -> forall x y, In y (dins_of defs x) <-> dparent defs y x.
Proof.
  intros defs Hnd x y. unfold dins_of. split.
  - intros H. destruct (def_of defs x) as [d|] eqn:E; [|destruct H]. apply def_of_In in E. destruct E as [Hd E].
    exists d. repeat split; assumption.
  - intros [d [Hd [E Hy]]]. subst x. rewrite (def_of_complete defs Hnd d Hd). exact Hy.
Qed.

(* ---------- reachable names: saturation reaches a fixpoint within |defs| rounds ---------- *)
Lemma set_union_ext : forall b a, exists ext, set_union a b = a ++ ext.
Proof.
  intros b. induction b as [|x b IH]; intros a; unfold set_union; cbn.
  - exists []. rewrite app_nil_r. reflexivity.
  - fold (set_union (set_add x a) b). destruct (IH (set_add x a)) as [ext E]. rewrite E. unfold set_add.
    destruct (mem x a); [exists ext; reflexivity | exists ([x] ++ ext); rewrite app_assoc; reflexivity].
Qed.

Lemma set_union_absorb : forall b a, incl b a -> set_union a b = a.
Proof.
  intros b. induction b as [|x b IH]; intros a H; unfold set_union; cbn; [reflexivity|].
  fold (set_union (set_add x a) b). assert (Hx : mem x a = true) by (apply mem_In; apply H; left; reflexivity).
  unfold set_add. rewrite Hx. apply IH. intros y Hy. apply H. right. exact Hy.
Qed.

Definition closed_under (defs : list fdef) (acc : list nat) : Prop := forall x y, In x acc -> In y (dins_of defs x) -> In y acc.

Lemma reach_fix : forall fuel defs acc, closed_under defs acc -> reach fuel defs acc = acc.
Proof.
  intros fuel defs. induction fuel as [|f IH]; intros acc Hc; cbn; [reflexivity|].
  rewrite set_union_absorb.
  - apply IH. exact Hc.
  - intros y Hy. apply in_flat_map in Hy. destruct Hy as [x [Hx Hy]]. exact (Hc x y Hx Hy).
Qed.

Lemma reach_incl : forall fuel defs acc, incl acc (reach fuel defs acc).
Proof.
  intros fuel defs. induction fuel as [|f IH]; intros acc; cbn; [apply incl_refl|].
  intros x Hx. apply IH. apply In_set_union. left. exact Hx.
Qed.

Lemma reach_nodup : forall fuel defs acc, NoDup acc -> NoDup (reach fuel defs acc).
Proof.
  intros fuel defs. induction fuel as [|f IH]; intros acc H; cbn; [exact H|]. apply IH. apply NoDup_set_union. exact H.
Qed.

Section Reach.
  Variable defs : list fdef.
  Hypothesis Hnd : NoDup (map dname defs).
  Hypothesis Hcl : forall x y, dparent defs x y -> In x (map dname defs).

  Lemma dins_names : forall x y, In y (dins_of defs x) -> In y (map dname defs).
  Proof. intros x y H. apply (dins_of_dparent defs Hnd) in H. exact (Hcl y x H). Qed.

  Lemma reach_names : forall fuel acc, incl acc (map dname defs) -> incl (reach fuel defs acc) (map dname defs).
  Proof.
    intros fuel. induction fuel as [|f IH]; intros acc H; cbn; [exact H|]. apply IH. intros x Hx.
    apply In_set_union in Hx. destruct Hx as [Hx|Hx]; [exact (H x Hx)|]. apply in_flat_map in Hx.
    destruct Hx as [z [_ Hx]]. exact (dins_names z x Hx).
  Qed.

  Lemma reach_closed : forall fuel acc, NoDup acc -> incl acc (map dname defs) ->
    List.length (map dname defs) <= List.length acc + fuel -> closed_under defs (reach fuel defs acc).
  Proof.
    intros fuel. induction fuel as [|f IH]; intros acc Hacc Hsub Hlen; cbn [reach].
    - assert (Hall : incl (map dname defs) acc) by (apply (NoDup_length_incl Hacc); [lia | exact Hsub]).
      intros x y _ Hy. apply Hall. exact (dins_names x y Hy).
    - destruct (subset (flat_map (dins_of defs) acc) acc) eqn:E.
      + apply subset_incl in E. rewrite (set_union_absorb _ _ E).
        assert (Hc : closed_under defs acc).
        { intros x y Hx Hy. apply E. apply in_flat_map. exists x. split; assumption. }
        rewrite (reach_fix f defs acc Hc). exact Hc.
      + destruct (not_subset _ _ E) as [z [Hz Hnz]].
        apply IH.
        * apply NoDup_set_union. exact Hacc.
        * intros x Hx. apply In_set_union in Hx. destruct Hx as [Hx|Hx]; [exact (Hsub x Hx)|].
          apply in_flat_map in Hx. destruct Hx as [w [_ Hx]]. exact (dins_names w x Hx).
        * destruct (set_union_ext (flat_map (dins_of defs) acc) acc) as [ext Eext].
          assert (Hzu : In z (set_union acc (flat_map (dins_of defs) acc))) by (apply In_set_union; right; exact Hz).
          rewrite Eext in Hzu |- *. apply in_app_iff in Hzu. destruct Hzu as [Hzu|Hzu]; [contradiction|].
          rewrite app_length. destruct ext as [|e0 et]; [destruct Hzu|]. cbn [List.length]. lia.
  Qed.
End Reach.

Lemma NoDup_map_injective : forall (f : nat -> nat) l, (forall x y, f x = f y -> x = y) -> NoDup l -> NoDup (map f l).
Proof.
  intros f l Hinj H. induction H as [|x l Hx H IH]; cbn; constructor; [|exact IH].
  intros Hin. apply in_map_iff in Hin. destruct Hin as [y [E Hy]]. apply Hinj in E. subst y. exact (Hx Hy).
Qed.

Lemma dep_id_inj : forall x y, dep_id x = dep_id y -> x = y.
Proof. intros x y H. unfold dep_id in H. lia. Qed.
Lemma top_id_inj : forall x y, top_id x = top_id y -> x = y.
Proof. intros x y H. unfold top_id in H. lia. Qed.
Lemma div2_dep : forall x, Nat.div2 (dep_id x) = x.
Proof. intros x. unfold dep_id. apply Nat.div2_double. Qed.
Lemma div2_top : forall x, Nat.div2 (top_id x) = x.
Proof. intros x. unfold top_id. rewrite Nat.add_1_r. apply Nat.div2_succ_double. Qed.

(* ---------- the graph of a request ---------- *)
Section Request.
  Variables (defs : list fdef) (rq : list nat).
  Hypothesis Hdefs : defs_ok defs rq.

  Local Notation R := (reach_of defs rq).
  Local Notation G := (request_graph defs rq).
  Local Notation names := (map dname defs).

  Lemma R_nodup : NoDup R.
  Proof. unfold reach_of. apply reach_nodup. apply NoDup_dedupe. Qed.

  Lemma acc0_names : incl (dedupe (flat_map (dins_of defs) rq)) names.
  Proof.
    destruct Hdefs as (Hnd & Hcl & _). intros y Hy. apply (proj1 (In_dedupe _ _)) in Hy. apply in_flat_map in Hy.
    destruct Hy as [x [_ Hy]]. exact (dins_names defs Hnd Hcl x y Hy).
  Qed.

  Lemma R_names : incl R names.
  Proof. destruct Hdefs as (Hnd & Hcl & _). unfold reach_of. apply (reach_names defs Hnd Hcl). exact acc0_names. Qed.

  Lemma R_closed : closed_under defs R.
  Proof.
    destruct Hdefs as (Hnd & Hcl & _). unfold reach_of. apply (reach_closed defs Hnd Hcl).
    - apply NoDup_dedupe.
    - exact acc0_names.
    - rewrite map_length. lia.
  Qed.

  Lemma R_rq : forall x y, In x rq -> In y (dins_of defs x) -> In y R.
  Proof.
    intros x y Hx Hy. unfold reach_of. apply reach_incl. apply In_dedupe. apply in_flat_map. exists x. split; assumption.
  Qed.

  Lemma in_node_for : forall b l n, In n (flat_map (node_for defs b) l) <->
    exists x d, In x l /\ def_of defs x = Some d /\
      n = {| fid := if b then top_id x else dep_id x; fgrp := dgrp d; fins := map dep_id (dins d); freq := b; fcfw := dcfw d |}.
  Proof.
    intros b l n. rewrite in_flat_map. split.
    - intros [x [Hx Hn]]. unfold node_for in Hn. destruct (def_of defs x) as [d|] eqn:E; [|destruct Hn].
      destruct Hn as [Hn|[]]. exists x, d. repeat split; [exact Hx | exact E | symmetry; exact Hn].
    - intros [x [d [Hx [E Hn]]]]. exists x. split; [exact Hx|]. unfold node_for. rewrite E. left. symmetry. exact Hn.
  Qed.

  Lemma ids_node_for : forall b l, incl l names -> map fid (flat_map (node_for defs b) l) = map (fun x => if b then top_id x else dep_id x) l.
  Proof.
    intros b l. induction l as [|x l IH]; intros H; cbn [flat_map map]; [reflexivity|].
    destruct (def_of_name defs x (H x (or_introl eq_refl))) as [d Ed]. unfold node_for at 1. rewrite Ed. cbn [app map fid].
    rewrite IH; [reflexivity | intros y Hy; apply H; right; exact Hy].
  Qed.

  Lemma ids_G : ids G = map top_id rq ++ map dep_id R.
  Proof.
    destruct Hdefs as (_ & _ & _ & _ & _ & Hrq & _). unfold ids, request_graph. rewrite map_app.
    rewrite (ids_node_for true rq Hrq), (ids_node_for false R R_names). reflexivity.
  Qed.

  Lemma in_G : forall n, In n G -> exists x d, def_of defs x = Some d /\ (In x rq \/ In x R) /\
    fgrp n = dgrp d /\ fins n = map dep_id (dins d) /\ fcfw n = dcfw d /\ Nat.div2 (fid n) = x.
  Proof.
    intros n Hn. unfold request_graph in Hn. apply in_app_iff in Hn. destruct Hn as [Hn|Hn]; apply in_node_for in Hn;
      destruct Hn as [x [d [Hx [E Hn]]]]; exists x, d; subst n; cbn [fgrp fins fcfw fid].
    - repeat split; [exact E | left; exact Hx | apply div2_top].
    - repeat split; [exact E | right; exact Hx | apply div2_dep].
  Qed.

  (* an edge of the request graph is an input edge between names, and its source is a dependency copy in R *)
  Lemma parent_G : forall p c, parent G p c ->
    exists y x dx, p = dep_id y /\ Nat.div2 c = x /\ def_of defs x = Some dx /\ In y (dins dx) /\ In y R.
  Proof.
    intros p c [n [Hn [E Hp]]]. destruct (in_G n Hn) as [x [d [Ed [Hx [_ [Ef [_ Hdiv]]]]]]].
    rewrite Ef in Hp. apply in_map_iff in Hp. destruct Hp as [y [Ey Hy]].
    exists y, x, d. split; [symmetry; exact Ey|]. split; [rewrite <- E; exact Hdiv|]. split; [exact Ed|]. split; [exact Hy|].
    assert (Hy' : In y (dins_of defs x)) by (unfold dins_of; rewrite Ed; exact Hy).
    destruct Hx as [Hx|Hx]; [exact (R_rq x y Hx Hy') | exact (R_closed x y Hx Hy')].
  Qed.

  Theorem request_graph_ok : graph_ok G /\ strict G.
  Proof.
    pose proof Hdefs as (Hnd & Hcl & Hdi & [rk Hrk] & Hrqnd & Hrq & Hcfw). split; [split; [|split; [|split]]|].
    - rewrite ids_G. apply NoDup_app_intro.
      + apply NoDup_map_injective; [exact top_id_inj | exact Hrqnd].
      + apply NoDup_map_injective; [exact dep_id_inj | exact R_nodup].
      + intros u Hu Hv. apply in_map_iff in Hu, Hv. destruct Hu as [x [Ex _]]. destruct Hv as [y [Ey _]].
        unfold top_id, dep_id in *. lia.
    - intros p c H. destruct (parent_G p c H) as (y & x & dx & Ep & _ & _ & _ & Hy). rewrite ids_G.
      apply in_or_app. right. subst p. apply in_map. exact Hy.
    - intros n Hn. destruct (in_G n Hn) as [x [d [Ed [_ [_ [Ef _]]]]]]. rewrite Ef.
      apply NoDup_map_injective; [exact dep_id_inj|]. apply Hdi. apply (def_of_In defs x d Ed).
    - exists (fun u => rk (Nat.div2 u)). intros p c H. destruct (parent_G p c H) as (y & x & dx & Ep & Ec & Ed & Hy & _).
      subst p. rewrite div2_dep, Ec. apply Hrk. destruct (def_of_In defs x dx Ed) as [Hin En]. exists dx. repeat split; assumption.
    - intros n m Hn Hm. destruct (in_G n Hn) as [x [d [Ed [_ [_ [_ [Ec _]]]]]]]. destruct (in_G m Hm) as [x' [d' [Ed' [_ [_ [_ [Ec' _]]]]]]].
      rewrite Ec, Ec'. apply Hcfw; [apply (def_of_In defs x d Ed) | apply (def_of_In defs x' d' Ed')].
  Qed.

  Theorem request_group_dag : defs_group_dag defs -> group_dag G.
  Proof.
    intros [grk Hg]. destruct request_graph_ok as [(HndG & _) _]. pose proof Hdefs as (Hnd & _).
    exists grk. intros p c H Hne.
    assert (Hgrp : forall u, In u (ids G) -> exists d, def_of defs (Nat.div2 u) = Some d /\ grp_of G u = dgrp d).
    { intros u Hu. unfold ids in Hu. apply in_map_iff in Hu. destruct Hu as [n [E Hn]]. subst u.
      destruct (in_G n Hn) as [x [d [Ed [_ [Eg [_ [_ Hdiv]]]]]]]. exists d. rewrite Hdiv. split; [exact Ed|].
      rewrite (grp_of_node G n HndG Hn). exact Eg. }
    destruct (parent_G p c H) as (y & x & dx & Ep & Ec & Ed & Hy & HyR).
    assert (Hp : In p (ids G)) by (apply (proj1 (proj2 (proj1 request_graph_ok)) p c H)).
    destruct (Hgrp p Hp) as [dp [Edp Egp]]. destruct (Hgrp c (parent_child_id G p c H)) as [dc [Edc Egc]].
    rewrite Ep, div2_dep in Edp. rewrite Ec, Ed in Edc. injection Edc as Edc. subst dc.
    rewrite Egp, Egc in *. destruct (def_of_In defs y dp Edp) as [Hdp Enp]. destruct (def_of_In defs x dx Ed) as [Hdx _].
    apply (Hg dp dx Hdp Hdx); [rewrite Enp; exact Hy | exact Hne].
  Qed.

  Lemma request_graph_nonempty : rq <> [] -> G <> [].
  Proof.
    intros Hne E. assert (Hi : ids G = []) by (rewrite E; reflexivity). rewrite ids_G in Hi.
    apply app_eq_nil in Hi. destruct Hi as [Hi _]. apply map_eq_nil in Hi. contradiction.
  Qed.
End Request.

(* ---------- group_dag is a property of the graph, not of its presentation ---------- *)
Lemma group_dag_equiv : forall g g', graph_equiv g g' -> NoDup (ids g) -> group_dag g -> group_dag g'.
Proof.
  intros g g' Heq Hnd [grk Hg]. exists grk. intros p c H Hne.
  destruct (ge_node_fields g g' Heq Hnd p) as [Ep _]. destruct (ge_node_fields g g' Heq Hnd c) as [Ec _].
  rewrite <- Ep, <- Ec in *. apply Hg; [apply (ge_parent g g' Heq); exact H | exact Hne].
Qed.

Lemma plan_nonempty : forall ord g, ord_ok ord -> graph_ok g -> strict g -> g <> [] -> plan_of ord g <> [].
Proof.
  intros ord g Hord Hok Hs Hne E. pose proof (plan_uuids ord g Hord Hok Hs) as HP. rewrite E in HP. cbn in HP.
  apply Permutation_nil in HP. unfold ids in HP. apply map_eq_nil in HP. contradiction.
Qed.

(* ---------- end to end, at graph level ---------- *)
(* every feature is computed after all of its ancestors in the feature graph: whenever a step of the planned graph starts
   (any back end, any failure oracle, any event trace), every proper ancestor of each of its features is finished and was
   produced by a step that has completed *)
Theorem features_after_ancestors : forall ord g, ord_ok ord -> graph_ok g -> strict g ->
  forall stream inline fails es i fs ds,
  In (i, (fs, ds)) (started (run stream inline fails (plan_of ord g) es)) ->
  exists s, In s (plan_of ord g) /\ sid s = i /\
    forall f a, In f (uuids s) -> anc g a f ->
      In a fs /\ exists s', In s' (plan_of ord g) /\ In a (uuids s') /\ In (sid s') ds.
Proof.
  intros ord g Hord Hok Hs stream inline fails es i fs ds Hin.
  pose proof (start_requires_l stream inline fails (plan_of ord g) es _ Hin) as Hst. cbn in Hst.
  destruct Hst as [s [Hsp [Ei [Hreq Hprod]]]]. exists s. split; [exact Hsp|]. split; [exact Ei|].
  intros f a Hf Hanc. destruct (plan_facts ord g Hord Hok Hs) as (_ & _ & _ & _ & _ & F6).
  assert (Ha : In a fs) by (apply Hreq; apply (F6 s a Hsp); exists f; split; assumption).
  split; [exact Ha | exact (Hprod a Ha)].
Qed.

(* every ACCEPTED graph terminates: no hypothesis on the groups *)
Theorem graph_terminates : forall ord g p, ord_ok ord -> graph_ok g -> strict g -> g <> [] ->
  prepare_A ord g = Planned p ->
  forall stream, exists n, n <= 2 * List.length p + 1 /\
    loop_head p (run stream true (fun _ => false) p (repeat EScan n)) = ExitNormal.
Proof.
  intros ord g p Hord Hok Hs Hne Hacc stream. destruct (prepare_planned_inv ord g Hord Hok Hs p Hacc) as [E Hwf].
  apply (terminates_sync (sim_order p) stream p); [|exact Hwf]. rewrite E. exact (plan_nonempty ord g Hord Hok Hs Hne).
Qed.

(* ---------- end to end, for requests ---------- *)
(* g is the engine's feature graph for the request: request_graph up to dict / set orders (checked by the harness).
   The request is either accepted or rejected with the cycle error (never the incomplete-plan error, never a transform
   step); the decision and the plan are those of the request itself, whatever the orders *)
Theorem requests_decided : forall defs rq ord g, defs_ok defs rq -> ord_ok ord -> graph_equiv (request_graph defs rq) g ->
  (prepare_A ord g = Planned (plan_of ord g) \/ prepare_A ord g = RejectedCycle) /\
  (prepare_A ord g = Planned (plan_of ord g) <->
   prepare_A ord_id (request_graph defs rq) = Planned (plan_of ord_id (request_graph defs rq))) /\
  plan_equiv (plan_of ord_id (request_graph defs rq)) (plan_of ord g) /\
  (defs_group_dag defs -> prepare_A ord g = Planned (plan_of ord g)).
Proof.
  intros defs rq ord g Hdefs Hord Heq. destruct (request_graph_ok defs rq Hdefs) as [HokG HsG].
  pose proof (ge_graph_ok _ _ Heq HokG) as Hok. pose proof (ge_strict _ _ Heq HsG) as Hs.
  assert (Hid : ord_ok ord_id) by (intros k l; apply Permutation_refl).
  destruct (prepare_deterministic ord_id ord _ g Hid Hord HokG HsG Heq) as (D1 & _ & D3).
  split; [exact (prepare_total ord g Hord Hok Hs)|]. split; [split; intros H; apply D1; exact H|]. split; [exact D3|].
  intros Hdag. apply (prepare_accepts_dag ord g Hord Hok Hs).
  exact (group_dag_equiv _ g Heq (proj1 HokG) (request_group_dag defs rq Hdefs Hdag)).
Qed.

(* every accepted request runs to completion and computes every feature after its ancestors *)
Theorem requests_terminate : forall defs rq ord g p, defs_ok defs rq -> rq <> [] -> ord_ok ord ->
  graph_equiv (request_graph defs rq) g -> prepare_A ord g = Planned p ->
  p = plan_of ord g /\
  (exists order, wf_plan order p = true) /\
  (forall stream, exists n, n <= 2 * List.length p + 1 /\
     loop_head p (run stream true (fun _ => false) p (repeat EScan n)) = ExitNormal) /\
  (forall stream inline fails es i fs ds,
     In (i, (fs, ds)) (started (run stream inline fails p es)) ->
     exists s, In s p /\ sid s = i /\
       forall f a, In f (uuids s) -> anc g a f ->
         In a fs /\ exists s', In s' p /\ In a (uuids s') /\ In (sid s') ds).
Proof.
  intros defs rq ord g p Hdefs Hne Hord Heq Hacc. destruct (request_graph_ok defs rq Hdefs) as [HokG HsG].
  pose proof (ge_graph_ok _ _ Heq HokG) as Hok. pose proof (ge_strict _ _ Heq HsG) as Hs.
  destruct (prepare_planned_inv ord g Hord Hok Hs p Hacc) as [E Hwf].
  split; [exact E|]. split; [exists (sim_order p); exact Hwf|]. split.
  - apply (graph_terminates ord g p Hord Hok Hs); [|exact Hacc].
    intros Eg. subst g. destruct Heq as [g2 [Hp Hf]]. inversion Hf as [E2|]; subst. apply Permutation_sym, Permutation_nil in Hp.
    exact (request_graph_nonempty defs rq Hdefs Hne Hp).
  - rewrite E. exact (features_after_ancestors ord g Hord Hok Hs).
Qed.

(* ---------- the decidable forms of the request hypotheses are sound ---------- *)
Theorem defs_okb_sound : forall defs rq, defs_okb defs rq = true -> defs_ok defs rq.
Proof.
  intros defs rq H. unfold defs_okb in H.
  set (order := topo_list (S (List.length defs)) (dins_of defs) (map dname defs) []) in *.
  apply andb_true_iff in H. destruct H as [H Hcfw]. apply andb_true_iff in H. destruct H as [H Hrq].
  apply andb_true_iff in H. destruct H as [H Hrqnd]. apply andb_true_iff in H. destruct H as [H Hac].
  apply andb_true_iff in H. destruct H as [Hnd Hall]. rewrite forallb_forall in Hall, Hac.
  split; [apply nodupb_NoDup; exact Hnd|]. split; [|split; [|split; [|split; [|split]]]].
  - intros x y [d [Hd [E Hx]]]. specialize (Hall d Hd). apply andb_true_iff in Hall. destruct Hall as [Hs _].
    apply subset_incl in Hs. exact (Hs x Hx).
  - intros d Hd. specialize (Hall d Hd). apply andb_true_iff in Hall. destruct Hall as [_ Hn]. apply nodupb_NoDup. exact Hn.
  - exists (fun u => match pos u order with Some i => i | None => 0 end).
    intros x y [d [Hd [E Hx]]]. subst y. specialize (Hac d Hd). rewrite forallb_forall in Hac.
    exact (before_lt order x (dname d) (Hac x Hx)).
  - apply nodupb_NoDup. exact Hrqnd.
  - apply subset_incl. exact Hrq.
  - intros d e Hd He. destruct defs as [|d0 defs']; [destruct Hd|]. rewrite forallb_forall in Hcfw.
    pose proof (Hcfw d Hd) as H1. pose proof (Hcfw e He) as H2. apply Nat.eqb_eq in H1, H2. congruence.
Qed.

Theorem defs_group_dagb_sound : forall defs, NoDup (map dname defs) -> defs_group_dagb defs = true -> defs_group_dag defs.
Proof.
  intros defs Hnd H. unfold defs_group_dagb in H.
  set (order := topo_list (S (List.length (dedupe (map dgrp defs)))) (dgrp_deps defs) (dedupe (map dgrp defs)) []) in *.
  exists (fun k => match pos k order with Some i => i | None => 0 end).
  intros d e Hd He Hin Hne. rewrite forallb_forall in H. specialize (H e He). rewrite forallb_forall in H.
  specialize (H (dname d) Hin). unfold dgrp_of in H. rewrite (def_of_complete defs Hnd d Hd) in H.
  apply orb_true_iff in H. destruct H as [H|H]; [apply Nat.eqb_eq in H; contradiction|].
  exact (before_lt order _ _ H).
Qed.

(* ---------- a non-trivial request used in the examples of Props/PlannerA.v ---------- *)
(* names: a=0 (root group 0); b=1, c=2 (group 1, inputs a); d=3 (group 2, inputs b, c)  -- a diamond;
          f1=4 <- a, f2=5 <- f1, f3=6 <- f2, f1 (group 3)                                -- an intra-group chain;
   requested: d, f3 and f2 (f2 is also a dependency of f3: two different nodes 10 and 11). *)
Definition ex_defs : list fdef :=
  [ {| dname := 0; dgrp := 0; dins := [];     dcfw := 1 |};
    {| dname := 1; dgrp := 1; dins := [0];    dcfw := 1 |};
    {| dname := 2; dgrp := 1; dins := [0];    dcfw := 1 |};
    {| dname := 3; dgrp := 2; dins := [1; 2]; dcfw := 1 |};
    {| dname := 4; dgrp := 3; dins := [0];    dcfw := 1 |};
    {| dname := 5; dgrp := 3; dins := [4];    dcfw := 1 |};
    {| dname := 6; dgrp := 3; dins := [5; 4]; dcfw := 1 |} ].
Definition ex_rq : list nat := [3; 6; 5].

Lemma ex_defs_ok_l : defs_ok ex_defs ex_rq /\ defs_group_dag ex_defs.
Proof.
  assert (H : defs_ok ex_defs ex_rq) by (apply defs_okb_sound; vm_compute; reflexivity).
  split; [exact H|]. apply defs_group_dagb_sound; [exact (proj1 H) | vm_compute; reflexivity].
Qed.

(* a request whose groups depend on each other cyclically (D1 = {f1, f2}, D2 = {g1}; f2 <- g1 <- f1 <- r) and which is
   accepted nevertheless: f1 is an intra-group ancestor of f2, so D1 is split into two levels *)
Definition ex2_defs : list fdef :=
  [ {| dname := 0; dgrp := 0; dins := [];  dcfw := 1 |};
    {| dname := 1; dgrp := 1; dins := [0]; dcfw := 1 |};
    {| dname := 2; dgrp := 2; dins := [1]; dcfw := 1 |};
    {| dname := 3; dgrp := 1; dins := [2]; dcfw := 1 |} ].
Lemma ex2_accepted_l :
  defs_okb ex2_defs [3] = true /\ defs_group_dagb ex2_defs = false /\ group_dagb (request_graph ex2_defs [3]) = false /\
  prepare_A ord_id (request_graph ex2_defs [3]) = Planned (plan_of ord_id (request_graph ex2_defs [3])) /\
  List.length (plan_of ord_id (request_graph ex2_defs [3])) = 4.
Proof. vm_compute. repeat split; reflexivity. Qed.
