(* Proofs about Model/LinkAttach.v: which links reach the planner / the link trekker, the resolve-time back-stop,
   and where a contradictory link set is refused (C18). *)
From Coq Require Import List Bool ZArith String Arith Lia Permutation.
Import ListNotations.
Require Import MV.Model.LinkSel MV.Spec.LinkRule MV.Proofs.LinkSelP MV.Model.LinkAttach.

(* ---------- equality tests ---------- *)
Lemma jt_eqb_eq : forall a b, jt_eqb a b = true <-> a = b.
Proof. intros a b; split; [destruct a, b; cbn; intros H; try discriminate; reflexivity | intros ->; destruct b; reflexivity]. Qed.

Lemma jt_eqb_sym : forall a b, jt_eqb a b = jt_eqb b a.
Proof. destruct a, b; reflexivity. Qed.

Lemma idx_eqb_eq : forall a b, idx_eqb a b = true <-> a = b.
Proof.
  induction a as [|x a IH]; destruct b as [|y b]; cbn; split; intros H; try discriminate; try reflexivity.
  - apply andb_true_iff in H. destruct H as [H1 H2]. apply String.eqb_eq in H1. apply IH in H2. congruence.
  - injection H as -> ->. rewrite String.eqb_refl. cbn. apply IH. reflexivity.
Qed.

Lemma link_eqb_eq : forall a b, link_eqb a b = true <-> a = b.
Proof.
  intros a b. unfold link_eqb. rewrite !andb_true_iff, jt_eqb_eq, !Nat.eqb_eq, !idx_eqb_eq. split.
  - intros [[[[H1 H2] H3] H4] H5]. destruct a, b; cbn in *; congruence.
  - intros ->. tauto.
Qed.

(* ---------- the links of the engine: API argument + attached links, as a set ---------- *)
Lemma fold_add_in : forall xs acc l, In l (fold_left add_link xs acc) <-> In l acc \/ In l xs.
Proof.
  induction xs as [|x xs IH]; intros acc l; cbn [fold_left]; [cbn; tauto|].
  rewrite IH. unfold add_link. destruct (existsb (link_eqb x) acc) eqn:E.
  - apply existsb_exists in E. destruct E as [y [Hy E]]. apply link_eqb_eq in E. subst y.
    cbn. split; [tauto|]. intros [H|[<-|H]]; auto.
  - rewrite in_app_iff. cbn. tauto.
Qed.

Lemma eff_links_in_l : forall g a l, In l (eff_links g a) <-> In l g \/ In l a.
Proof. intros. unfold eff_links. rewrite fold_add_in, in_app_iff. cbn. tauto. Qed.

Lemma fold_add_nodup : forall xs acc, NoDup acc -> NoDup (fold_left add_link xs acc).
Proof.
  induction xs as [|x xs IH]; intros acc H; cbn [fold_left]; [exact H|]. apply IH. unfold add_link.
  destruct (existsb (link_eqb x) acc) eqn:E; [exact H|].
  apply NoDup_rev in H. rewrite <- (rev_involutive (acc ++ [x])). apply NoDup_rev. rewrite rev_app_distr. cbn.
  constructor; [|exact H]. intros Hin. apply in_rev in Hin.
  assert (Ht : existsb (link_eqb x) acc = true) by (apply existsb_exists; exists x; split; [exact Hin | apply link_eqb_eq; reflexivity]).
  congruence.
Qed.

Lemma eff_links_nodup_l : forall g a, NoDup (eff_links g a).
Proof. intros. apply fold_add_nodup. constructor. Qed.

(* ---------- ordered pairs of distinct parents ---------- *)
Lemma picks_spec : forall A (l pre : list A) x rest,
  In (x, rest) (picks pre l) <-> exists l1 l2, l = l1 ++ x :: l2 /\ rest = rev pre ++ l1 ++ l2.
Proof.
  induction l as [|y t IH]; intros pre x rest; cbn [picks].
  - split; [intros [] | intros (l1 & l2 & H & _); destruct l1; discriminate].
  - cbn [In]. rewrite IH. split.
    + intros [H|(l1 & l2 & -> & ->)].
      * injection H as H1 H2. subst x rest. exists [], t. auto.
      * exists (y :: l1), l2. split; [reflexivity|]. cbn. rewrite <- app_assoc. reflexivity.
    + intros (l1 & l2 & H & ->). destruct l1 as [|z l1]; cbn in H; injection H as -> ->.
      * left. reflexivity.
      * right. exists l1, l2. split; [reflexivity|]. cbn. rewrite <- app_assoc. reflexivity.
Qed.

(* (a, b) is enumerated iff a and b sit at two different positions of the parent list *)
Lemma ordered_pairs_spec_l : forall ps a b,
  In (a, b) (ordered_pairs ps) <-> exists rest, Permutation ps (a :: rest) /\ In b rest.
Proof.
  intros ps a b. unfold ordered_pairs. rewrite in_flat_map. split.
  - intros [[x rest] [Hp Hin]]. cbn [fst snd] in Hin. apply in_map_iff in Hin. destruct Hin as [b' [E Hb]].
    injection E as -> ->. apply picks_spec in Hp. destruct Hp as (l1 & l2 & -> & ->). cbn [rev app] in *.
    exists (l1 ++ l2). split; [apply Permutation_sym, Permutation_middle | exact Hb].
  - intros [rest [HP Hb]].
    assert (Ha : In a ps) by (eapply Permutation_in; [apply Permutation_sym; exact HP | left; reflexivity]).
    apply in_split in Ha. destruct Ha as (l1 & l2 & ->).
    exists (a, l1 ++ l2). split; [apply picks_spec; exists l1, l2; auto|]. cbn [fst snd]. apply in_map.
    assert (HP' : Permutation (a :: l1 ++ l2) (a :: rest))
      by (eapply Permutation_trans; [apply Permutation_middle | exact HP]).
    apply Permutation_cons_inv in HP'. eapply Permutation_in; [apply Permutation_sym; exact HP' | exact Hb].
Qed.

Lemma ordered_pairs_perm : forall ps ps' ab, Permutation ps ps' -> In ab (ordered_pairs ps) -> In ab (ordered_pairs ps').
Proof.
  intros ps ps' [a b] HP H. apply ordered_pairs_spec_l in H. apply ordered_pairs_spec_l. destruct H as [rest [H1 H2]].
  exists rest. split; [eapply Permutation_trans; [apply Permutation_sym; exact HP | exact H1] | exact H2].
Qed.

(* ---------- link selection depends on the SET of links only, and on a link only through its two classes ---------- *)
Section Sel.
  Variable mro : cls -> list cls.

  Definition poly_min (links : list link) (lf rf : cls) (l : link) : Prop :=
    matches_poly mro l lf rf = true /\
    exists d, sel_dist mro lf rf l = Some d /\
      forall l' d', In l' links -> matches_poly mro l' lf rf = true -> sel_dist mro lf rf l' = Some d' -> (d <= d')%Z.

  Lemma find_matching_char : forall links lf rf l,
    In l (find_matching mro links lf rf) <->
    In l links /\ (exact lf rf l \/ ((forall l', In l' links -> ~ exact lf rf l') /\ poly_min links lf rf l)).
  Proof.
    intros links lf rf l.
    destruct (filter (fun l => matches_exact l lf rf) links) as [|e es] eqn:Ef.
    - assert (Hno : forall l, In l links -> ~ exact lf rf l).
      { intros l1 Hin Hex. assert (H : In l1 []) by (rewrite <- Ef; apply (exact_filter_iff mro); auto). destruct H. }
      rewrite (no_exact_l mro _ _ _ Hno), select_char, filter_In. unfold poly_min. split.
      + intros [[Hin Hp] [d [Hd Hmin]]]. split; [exact Hin|]. right. split; [exact Hno|]. split; [exact Hp|].
        exists d. split; [exact Hd|]. intros l' d' Hin' Hp' Hd'. apply (Hmin l' d'); [apply filter_In; auto | exact Hd'].
      + intros [Hin [Hex|[_ [Hp [d [Hd Hmin]]]]]]; [exfalso; exact (Hno _ Hin Hex)|].
        split; [auto|]. exists d. split; [exact Hd|]. intros l' d' Hin' Hd'. apply filter_In in Hin'.
        destruct Hin' as [Hin' Hp']. eapply Hmin; eassumption.
    - assert (He : In e links /\ exact lf rf e).
      { apply (exact_filter_iff mro). rewrite Ef. left; reflexivity. }
      destruct He as [Hein Heex]. rewrite (exact_priority_l mro _ _ _ _ Hein Heex). split.
      + intros [Hin Hex]. auto.
      + intros [Hin [Hex|[Hno _]]]; [auto | exfalso; exact (Hno _ Hein Heex)].
  Qed.

  Lemma find_matching_set : forall e e' lf rf l, (forall x, In x e <-> In x e') ->
    In l (find_matching mro e lf rf) -> In l (find_matching mro e' lf rf).
  Proof.
    intros e e' lf rf l Heq H. apply find_matching_char in H. apply find_matching_char.
    destruct H as [Hin H]. split; [apply Heq; exact Hin|]. destruct H as [H|[Hno [Hp [d [Hd Hmin]]]]]; [left; exact H|].
    right. split; [intros l' Hl'; apply Hno, Heq, Hl'|]. split; [exact Hp|]. exists d. split; [exact Hd|].
    intros l' d' Hl'. apply Hmin, Heq, Hl'.
  Qed.

  (* two links with the same ordered pair of classes are selected together *)
  Lemma find_matching_same_pair : forall links lf rf i j,
    In i (find_matching mro links lf rf) -> In j links -> lfg i = lfg j -> rfg i = rfg j ->
    In j (find_matching mro links lf rf).
  Proof.
    intros links lf rf i j H Hj El Er. apply find_matching_char in H. apply find_matching_char.
    split; [exact Hj|]. destruct H as [_ [[H1 H2]|[Hno [Hp [d [Hd Hmin]]]]]].
    - left. split; congruence.
    - right. split; [exact Hno|]. unfold poly_min, matches_poly, sel_dist in *. rewrite <- El, <- Er.
      split; [exact Hp|]. exists d. split; [exact Hd | exact Hmin].
  Qed.

  Lemma used_links_in : forall eff req l,
    In l (used_links mro eff req) <->
    exists ps a b, In ps req /\ In (a, b) (ordered_pairs ps) /\ In l (find_matching mro eff a b).
  Proof.
    intros. unfold used_links, used_links_child. rewrite in_flat_map. split.
    - intros [ps [H0 H]]. apply in_flat_map in H. destruct H as [[a b] [H1 H2]]. exists ps, a, b. auto.
    - intros (ps & a & b & H0 & H1 & H2). exists ps. split; [exact H0|]. apply in_flat_map. exists (a, b). auto.
  Qed.

  (* req' lists the same children, each with its parents in any order *)
  Definition req_le (req req' : list (list cls)) : Prop :=
    forall ps, In ps req -> exists ps', In ps' req' /\ Permutation ps ps'.

  Lemma used_links_set : forall e e' req req' l, (forall x, In x e <-> In x e') -> req_le req req' ->
    In l (used_links mro e req) -> In l (used_links mro e' req').
  Proof.
    intros e e' req req' l Heq HP H. apply used_links_in in H. apply used_links_in. destruct H as (ps & a & b & H0 & H1 & H2).
    destruct (HP _ H0) as [ps' [H0' HP']].
    exists ps', a, b. split; [exact H0'|]. split; [eapply ordered_pairs_perm; eassumption | eapply find_matching_set; eassumption].
  Qed.

  Lemma used_links_sub : forall eff req l, In l (used_links mro eff req) -> In l eff.
  Proof.
    intros eff req l H. apply used_links_in in H. destruct H as (ps & a & b & _ & _ & H). apply find_matching_sound_l in H. tauto.
  Qed.

  Lemma used_same_pair : forall eff req i j,
    In i (used_links mro eff req) -> In j eff -> lfg i = lfg j -> rfg i = rfg j -> In j (used_links mro eff req).
  Proof.
    intros eff req i j H Hj El Er. apply used_links_in in H. apply used_links_in. destruct H as (ps & a & b & H0 & H1 & H2).
    exists ps, a, b. split; [exact H0|]. split; [exact H1 | eapply find_matching_same_pair; eassumption].
  Qed.

  (* an exact link between two parents of a child of the request is always used *)
  Lemma exact_used : forall eff req ps i, In i eff -> In ps req -> In (lfg i, rfg i) (ordered_pairs ps) ->
    In i (used_links mro eff req).
  Proof.
    intros eff req ps i Hi H0 Hp. apply used_links_in. exists ps, (lfg i), (rfg i). split; [exact H0|]. split; [exact Hp|].
    apply find_matching_char. split; [exact Hi|]. left. split; reflexivity.
  Qed.
End Sel.

(* ---------- the back-stop ---------- *)
Definition same_pair_diff_jt (i j : link) : Prop := lfg i = lfg j /\ rfg i = rfg j /\ jt i <> jt j.

Lemma conflicting_jt_iff : forall i j, conflicting_jt i j = true <-> same_pair_diff_jt i j.
Proof.
  intros i j. unfold conflicting_jt, same_pair_diff_jt. rewrite !andb_true_iff, !negb_true_iff, !Nat.eqb_eq. split.
  - intros [[[_ H1] H2] H3]. repeat split; auto. intros E. apply jt_eqb_eq in E. congruence.
  - intros (H1 & H2 & H3). assert (Hj : jt_eqb (jt i) (jt j) = false).
    { destruct (jt_eqb (jt i) (jt j)) eqn:E; [apply jt_eqb_eq in E; contradiction | reflexivity]. }
    repeat split; auto. destruct (link_eqb i j) eqn:E; [|reflexivity]. apply link_eqb_eq in E. subst j. contradiction.
Qed.

Lemma seen_get_cons : forall l r l' r' j seen,
  seen_get l r (((l', r'), j) :: seen) = if Nat.eqb l' l && Nat.eqb r' r then Some j else seen_get l r seen.
Proof. reflexivity. Qed.

Lemma backstop_loop_spec : forall keys seen,
  backstop_loop seen keys = true <->
  (exists k j, In k keys /\ seen_get (lfg k) (rfg k) seen = Some j /\ j <> jt k) \/
  (exists k1 k2, In k1 keys /\ In k2 keys /\ same_pair_diff_jt k1 k2).
Proof.
  induction keys as [|k t IH]; intros seen; cbn [backstop_loop].
  - split; [discriminate|]. intros [(k & j & [] & _)|(k1 & k2 & [] & _)].
  - destruct (seen_get (lfg k) (rfg k) seen) as [j|] eqn:Eg.
    + destruct (jt_eqb j (jt k)) eqn:Ej.
      * apply jt_eqb_eq in Ej. subst j. rewrite IH. split.
        -- intros [(k' & j & Hin & Hs & Hne)|(k1 & k2 & H1 & H2 & Hc)].
           ++ left. exists k', j. cbn; auto.
           ++ right. exists k1, k2. cbn; auto.
        -- intros [(k' & j & [<-|Hin] & Hs & Hne)|(k1 & k2 & [<-|H1] & [<-|H2] & Hc)].
           ++ rewrite Eg in Hs. injection Hs as <-. contradiction.
           ++ left. exists k', j. auto.
           ++ destruct Hc as (_ & _ & Hc). contradiction.
           ++ destruct Hc as (Hl & Hr & Hc). left. exists k2, (jt k). rewrite <- Hl, <- Hr. auto.
           ++ destruct Hc as (Hl & Hr & Hc). left. exists k1, (jt k). rewrite Hl, Hr. auto.
           ++ right. exists k1, k2. auto.
      * split; [intros _ | reflexivity]. left. exists k, j. cbn. repeat split; auto.
        intros ->. destruct (jt k); discriminate.
    + rewrite IH. split.
      * intros [(k' & j & Hin & Hs & Hne)|(k1 & k2 & H1 & H2 & Hc)].
        -- rewrite seen_get_cons in Hs. destruct (Nat.eqb (lfg k) (lfg k') && Nat.eqb (rfg k) (rfg k')) eqn:Ep.
           ++ injection Hs as <-. apply andb_true_iff in Ep. rewrite !Nat.eqb_eq in Ep. destruct Ep as [Hl Hr].
              right. exists k, k'. cbn. repeat split; auto.
           ++ left. exists k', j. cbn; auto.
        -- right. exists k1, k2. cbn; auto.
      * intros [(k' & j & [<-|Hin] & Hs & Hne)|(k1 & k2 & [<-|H1] & [<-|H2] & Hc)].
        -- rewrite Eg in Hs. discriminate.
        -- left. exists k', j. split; [exact Hin|]. split; [|exact Hne]. rewrite seen_get_cons.
           destruct (Nat.eqb (lfg k) (lfg k') && Nat.eqb (rfg k) (rfg k')) eqn:Ep; [|exact Hs].
           apply andb_true_iff in Ep. rewrite !Nat.eqb_eq in Ep. destruct Ep as [Hl Hr]. rewrite <- Hl, <- Hr, Eg in Hs.
           discriminate.
        -- destruct Hc as (_ & _ & Hc). contradiction.
        -- destruct Hc as (Hl & Hr & Hc). left. exists k2, (jt k). split; [exact H2|]. split; [|exact Hc].
           rewrite seen_get_cons, Hl, Hr, !Nat.eqb_refl. reflexivity.
        -- destruct Hc as (Hl & Hr & Hc). left. exists k1, (jt k). split; [exact H1|]. split; [|auto].
           rewrite seen_get_cons, Hl, Hr, !Nat.eqb_refl. reflexivity.
        -- right. exists k1, k2. auto.
Qed.

(* raises iff two keys have the same ordered (left class, right class) pair and different join types *)
Lemma backstop_spec_l : forall keys,
  backstop keys = true <-> exists i j, In i keys /\ In j keys /\ lfg i = lfg j /\ rfg i = rfg j /\ jt i <> jt j.
Proof.
  intros keys. unfold backstop. rewrite backstop_loop_spec. split.
  - intros [(k & j & _ & Hs & _)|(k1 & k2 & H1 & H2 & Hc)]; [cbn in Hs; discriminate|]. exists k1, k2. auto.
  - intros (i & j & Hi & Hj & Hc). right. exists i, j. auto.
Qed.

Lemma backstop_any_pair_l : forall keys, backstop keys = any_pair conflicting_jt keys.
Proof.
  intros keys. apply eq_true_iff_eq. rewrite backstop_spec_l, any_pair_exists. split.
  - intros (i & j & Hi & Hj & Hc). exists i, j. repeat split; auto. apply conflicting_jt_iff. exact Hc.
  - intros (i & j & Hi & Hj & Hc). apply conflicting_jt_iff in Hc. exists i, j. auto.
Qed.

(* the verdict depends on the SET of keys only: every iteration order of the dict, duplicated links included *)
Lemma backstop_set_l : forall keys keys', (forall x, In x keys <-> In x keys') -> backstop keys = backstop keys'.
Proof.
  intros keys keys' Heq. apply eq_true_iff_eq. rewrite !backstop_spec_l.
  split; intros (i & j & Hi & Hj & Hc); exists i, j; (split; [apply Heq; exact Hi|]); (split; [apply Heq; exact Hj | exact Hc]).
Qed.

Lemma backstop_perm_l : forall keys keys', Permutation keys keys' -> backstop keys = backstop keys'.
Proof.
  intros keys keys' HP. apply backstop_set_l. intros x.
  split; intros H; [eapply Permutation_in; eassumption | eapply Permutation_in; [apply Permutation_sym|]; eassumption].
Qed.

(* ---------- prepare ---------- *)
Lemma verdict_of_spec_l : forall g keys,
  (verdict_of g keys = RejValidator <-> validate_rejects g = true) /\
  (verdict_of g keys = RejBackstop <-> validate_rejects g = false /\ backstop keys = true) /\
  (verdict_of g keys = Passed <-> validate_rejects g = false /\ backstop keys = false).
Proof.
  intros g keys. unfold verdict_of. destruct (validate_rejects g); destruct (backstop keys);
    repeat split; intros; try discriminate; try reflexivity; try tauto; destruct H; discriminate.
Qed.

Lemma rejected_iff : forall g keys, rejected (verdict_of g keys) = true <-> validate_rejects g = true \/ backstop keys = true.
Proof.
  intros g keys. unfold verdict_of, rejected. destruct (validate_rejects g); destruct (backstop keys); cbn; split; auto;
    intros [H|H]; discriminate.
Qed.

Section Prepare.
  Variable mro : cls -> list cls.

  (* where and when a link set is refused *)
  Lemma link_verdict_rejected_l : forall g a ps,
    rejected (link_verdict mro g a ps) = true <->
    validate_rejects g = true \/
    exists i j, In i (used_links mro (eff_links g a) ps) /\ In j (used_links mro (eff_links g a) ps) /\
                lfg i = lfg j /\ rfg i = rfg j /\ jt i <> jt j.
  Proof. intros. unfold link_verdict. rewrite rejected_iff, backstop_spec_l. tauto. Qed.

  (* nothing depends on the iteration order of the sets and of the dict *)
  Lemma link_verdict_order_l : forall g g' a ps ps' eff keys,
    Permutation g g' -> req_le ps ps' -> req_le ps' ps ->
    (forall x, In x eff <-> In x g \/ In x a) ->
    (forall x, In x keys <-> In x (used_links mro eff ps')) ->
    verdict_of g' keys = link_verdict mro g a ps.
  Proof.
    intros g g' a ps ps' eff keys Hg Hp Hp' He Hk. unfold link_verdict, verdict_of.
    rewrite (validate_perm_invariant_l _ _ Hg).
    rewrite (backstop_set_l keys (used_links mro (eff_links g a) ps)); [reflexivity|].
    assert (Hee : forall x, In x eff <-> In x (eff_links g a)) by (intros x; rewrite He, eff_links_in_l; tauto).
    intros x. rewrite Hk. split; apply used_links_set; auto.
    intros y. symmetry. apply Hee.
  Qed.

  (* links given through the API argument: every contradiction is refused, whatever is attached to features *)
  Lemma global_rejected_l : forall g a ps, validate_rejects g = true -> rejected (link_verdict mro g a ps) = true.
  Proof. intros. apply link_verdict_rejected_l. left. assumption. Qed.

  (* two join types for one ordered pair: refused as soon as ONE of the two links is used for a join of the request,
     whichever way the two links arrived *)
  Lemma conflicting_used_rejected_l : forall g a ps i j,
    In i (g ++ a) -> In j (g ++ a) -> lfg i = lfg j -> rfg i = rfg j -> jt i <> jt j ->
    In i (used_links mro (eff_links g a) ps) ->
    rejected (link_verdict mro g a ps) = true.
  Proof.
    intros g a ps i j Hi Hj El Er Hne Hu. apply link_verdict_rejected_l. right. exists i, j.
    repeat split; auto. eapply used_same_pair; try eassumption. apply eff_links_in_l. apply in_app_iff. exact Hj.
  Qed.

  (* ... in particular when the pair is a pair of two parents of the request (exact classes) *)
  Lemma conflicting_exact_rejected_l : forall g a req ps i j,
    In i (g ++ a) -> In j (g ++ a) -> lfg i = lfg j -> rfg i = rfg j -> jt i <> jt j ->
    In ps req -> In (lfg i, rfg i) (ordered_pairs ps) ->
    rejected (link_verdict mro g a req) = true.
  Proof.
    intros g a req ps i j Hi Hj El Er Hne H0 Hp. apply (conflicting_used_rejected_l g a req i j Hi Hj El Er Hne).
    apply (exact_used mro _ _ ps); [|exact H0|exact Hp]. apply eff_links_in_l. apply in_app_iff. exact Hi.
  Qed.

  (* the combined statement outside the known-finding domain *)
  Lemma contradictory_rejected_partial_l : forall g a ps,
    validate_rejects (g ++ a) = true -> kf_attached mro g a ps = false -> rejected (link_verdict mro g a ps) = true.
  Proof.
    intros g a ps Hc Hk. unfold kf_attached in Hk. rewrite Hc in Hk. cbn [andb] in Hk.
    unfold link_verdict. apply rejected_iff. rewrite backstop_any_pair_l.
    destruct (validate_rejects g); [left; reflexivity|]. cbn in Hk. right.
    destruct (any_pair conflicting_jt (used_links mro (eff_links g a) ps)); [reflexivity | discriminate].
  Qed.

  (* inside the domain nothing is refused *)
  Lemma kf_attached_passes_l : forall g a ps, kf_attached mro g a ps = true -> link_verdict mro g a ps = Passed.
  Proof.
    intros g a ps Hk. unfold kf_attached in Hk. apply andb_true_iff in Hk. destruct Hk as [Hk H3].
    apply andb_true_iff in Hk. destruct Hk as [_ H2]. apply negb_true_iff in H2, H3.
    unfold link_verdict, verdict_of. rewrite H2, backstop_any_pair_l, H3. reflexivity.
  Qed.

  (* how narrow the domain is: a contradicting pair with at least one ATTACHED link which is a double join, a right-join
     constraint, or a join-type conflict between two links neither of which is used for a join of the request *)
  Lemma kf_attached_narrow_l : forall g a ps, kf_attached mro g a ps = true ->
    exists i j, In i (g ++ a) /\ In j (g ++ a) /\ ~ (In i g /\ In j g) /\
      (double_join i j = true \/ right_conflict i j = true \/
       (conflicting_jt i j = true /\ ~ In i (used_links mro (eff_links g a) ps) /\ ~ In j (used_links mro (eff_links g a) ps))).
  Proof.
    intros g a ps Hk. unfold kf_attached in Hk. apply andb_true_iff in Hk. destruct Hk as [Hk H3].
    apply andb_true_iff in Hk. destruct Hk as [H1 H2]. apply negb_true_iff in H2, H3.
    apply validate_rejects_spec_l in H1. destruct H1 as (i & j & Hi & Hj & Hc). exists i, j.
    split; [exact Hi|]. split; [exact Hj|]. split.
    - intros [Gi Gj]. assert (validate_rejects g = true) by (apply validate_rejects_spec_l; exists i, j; auto). congruence.
    - destruct Hc as [Hc|[Hc|Hc]]; [left; exact Hc | | right; left; exact Hc]. right. right. split; [exact Hc|].
      assert (Hno : forall x y, In x (g ++ a) -> In y (g ++ a) -> same_pair_diff_jt x y ->
                                ~ In x (used_links mro (eff_links g a) ps)).
      { intros x y Hx Hy (El & Er & Hne) Hu.
        assert (Hyu : In y (used_links mro (eff_links g a) ps)).
        { eapply used_same_pair; try eassumption. apply eff_links_in_l. apply in_app_iff. exact Hy. }
        assert (any_pair conflicting_jt (used_links mro (eff_links g a) ps) = true).
        { apply any_pair_exists. exists x, y. repeat split; auto. apply conflicting_jt_iff. repeat split; auto. }
        congruence. }
      apply conflicting_jt_iff in Hc. split; [eapply Hno; eassumption|].
      destruct Hc as (El & Er & Hne). eapply (Hno j i); auto. repeat split; auto.
  Qed.
End Prepare.

(* ---------- witnesses: contradictory sets with an attached link that nothing refuses ---------- *)
Definition mk (j : jointype) (a b : nat) : link := {| jt := j; lfg := a; rfg := b; lidx := ["k"%string]; ridx := ["k"%string] |}.
Definition flat_mro : cls -> list cls := mro_of [].

(* LEFT(0,1) through the API + INNER(1,0) attached: a double join, both links are used *)
Lemma attached_double_join_refuted_l :
  validate_rejects ([mk LEFT 0 1] ++ [mk INNER 1 0]) = true /\
  link_verdict flat_mro [mk LEFT 0 1] [mk INNER 1 0] [[0; 1]]%nat = Passed /\
  used_links flat_mro (eff_links [mk LEFT 0 1] [mk INNER 1 0]) [[0; 1]]%nat = [mk LEFT 0 1; mk INNER 1 0].
Proof. vm_compute. auto. Qed.

(* RIGHT(0,1) through the API + LEFT(0,2) attached: right joins sharing a left group, both links are used *)
Lemma attached_right_constraint_refuted_l :
  validate_rejects ([mk RIGHT 0 1] ++ [mk LEFT 0 2]) = true /\
  link_verdict flat_mro [mk RIGHT 0 1] [mk LEFT 0 2] [[0; 1; 2]]%nat = Passed /\
  used_links flat_mro (eff_links [mk RIGHT 0 1] [mk LEFT 0 2]) [[0; 1; 2]]%nat = [mk RIGHT 0 1; mk LEFT 0 2].
Proof. vm_compute. auto. Qed.

(* INNER(0,2) through the API + LEFT(0,2) attached, the request joins 0 and 1 only: neither link is used *)
Lemma attached_unused_conflict_refuted_l :
  validate_rejects ([mk INNER 0 2] ++ [mk LEFT 0 2]) = true /\
  link_verdict flat_mro [mk INNER 0 2] [mk LEFT 0 2] [[0; 1]]%nat = Passed /\
  used_links flat_mro (eff_links [mk INNER 0 2] [mk LEFT 0 2]) [[0; 1]]%nat = [].
Proof. vm_compute. auto. Qed.
