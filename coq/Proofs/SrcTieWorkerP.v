(* Source-text tie, C01 / C08 (round 3): the THREADING worker function regenerated from runtime/worker/thread_worker.py and
   CfwManager.set_error from core/cfw_manager.py (Gen/SrcWorker.v) against the completion events of Model/Orch.v (worker_done)
   and Model/Worker.v (labels WDone / WFail, THREADING).  `command.execute(...)` is a PARAMETER of the generated definition: the
   lemmas hold for every execute, whatever it raises and whatever it does to the step and the register it is given. *)
From Coq Require Import List Bool Arith.
Import ListNotations.
Require Import MV.Model.PySem MV.Gen.SrcWorker.
Require Import MV.Model.PyObjR3.
Require MV.Model.Orch MV.Model.Worker.

Definition is_ok {A : Type} (r : res A) : bool := match r with Ok _ => true | Raise _ => false end.
Definition errored (r : wreg) : wreg := {| wr_error := true; wr_msg := py_msg; wr_exc := py_msg |}.

(* CfwManager.set_error sets the error flag (and stores the two texts); it cannot raise *)
Lemma set_error_src : forall r m x, CfwManager_set_error r m x = (tt, {| wr_error := true; wr_msg := m; wr_exc := x |}).
Proof. intros r m x. reflexivity. Qed.

(* the worker function, for EVERY execute:
     execute completes                    -> step_is_done := True on the step execute left behind, the register as execute left it
     execute raises an Exception          -> set_error on the register, step_is_done NOT touched, Exception(msg, exc_info) propagates
     execute raises a non-Exception       -> neither register is touched, the exception propagates (try has no handler for it) *)
Lemma thread_worker_src : forall execute c r a b,
  Worker_thread_worker execute c r a b
  = match execute c r a b with
    | (Ok _, (c', r')) => (Ok tt, wcmd_set_done c' true, r')
    | (Raise e, (c', r')) => if py_is_exception e then (Raise OtherError, c', errored r') else (Raise e, c', r')
    end.
Proof.
  intros execute c r a b. unfold Worker_thread_worker, py_try.
  destruct (execute c r a b) as [[u|e] [c' r']]; [reflexivity|].
  destruct e; reflexivity.
Qed.

(* execute does not itself write the two registers the orchestrator polls *)
Definition keeps_registers (execute : wcmd -> wreg -> nat -> nat -> res unit * (wcmd * wreg)) : Prop :=
  forall c r a b, wc_done (fst (snd (execute c r a b))) = wc_done c /\ wr_error (snd (snd (execute c r a b))) = wr_error r.
Definition raises_exception_only (o : res unit) : Prop := forall e, o = Raise e -> py_is_exception e = true.

(* the two registers as a function of the outcome of execute: done is set exactly on success, error exactly on failure, and
   the caller of the worker sees the same outcome *)
Lemma thread_worker_registers : forall execute c r a b,
  keeps_registers execute -> raises_exception_only (fst (execute c r a b)) ->
  let ok := is_ok (fst (execute c r a b)) in
  let out := Worker_thread_worker execute c r a b in
  is_ok (fst (fst out)) = ok /\ wc_done (snd (fst out)) = (wc_done c || ok)%bool /\ wr_error (snd out) = (wr_error r || negb ok)%bool.
Proof.
  intros execute c r a b K E. cbv zeta. rewrite thread_worker_src.
  destruct (K c r a b) as [K1 K2]. unfold raises_exception_only in E.
  destruct (execute c r a b) as [[u|e] [c' r']]; cbn [fst snd] in *.
  - cbn. rewrite K2, orb_true_r, orb_false_r. auto.
  - rewrite (E e eq_refl). cbn. rewrite K1, orb_false_r, orb_true_r. auto.
Qed.

(* an exception that is not an Exception (SystemExit, KeyboardInterrupt): no register is written *)
Lemma thread_worker_nonexception : forall execute c r a b c' r',
  execute c r a b = (Raise NonException, (c', r')) -> Worker_thread_worker execute c r a b = (Raise NonException, c', r').
Proof. intros execute c r a b c' r' H. rewrite thread_worker_src, H. reflexivity. Qed.

(* = Orch.worker_done: for a step s that was started and has not reported yet, the done register of the step / the error
   register say exactly what worker_done records for EDone s ok *)
Lemma thread_worker_worker_done : forall execute c r a b st s,
  keeps_registers execute -> raises_exception_only (fst (execute c r a b)) ->
  wc_done c = false -> wr_error r = false ->
  Orch.mem s (Orch.started_ids st) = true -> Orch.mem s (Orch.done st) = false -> Orch.mem s (Orch.failed st) = false ->
  let ok := is_ok (fst (execute c r a b)) in
  let out := Worker_thread_worker execute c r a b in
  wc_done (snd (fst out)) = Orch.mem s (Orch.done (Orch.worker_done st s ok)) /\
  wr_error (snd out) = Orch.mem s (Orch.failed (Orch.worker_done st s ok)).
Proof.
  intros execute c r a b st s K E Hd He Hs Hnd Hnf. cbv zeta.
  destruct (thread_worker_registers execute c r a b K E) as [_ [H1 H2]]. cbv zeta in H1, H2.
  rewrite H1, H2, Hd, He. unfold Orch.worker_done. rewrite Hs, Hnd, Hnf. cbn [andb negb orb].
  destruct (is_ok (fst (execute c r a b))); cbn [Orch.done Orch.failed negb].
  - unfold Orch.mem at 1. cbn [existsb]. rewrite Nat.eqb_refl. cbn [orb]. rewrite Hnf. auto.
  - unfold Orch.mem at 2. cbn [existsb]. rewrite Nat.eqb_refl. cbn [orb]. rewrite Hnd. auto.
Qed.

(* = Model/Worker.v, THREADING: the completion event attached to the label the worker takes (WDone on success, WFail on
   failure) carries the value of the done register; the error register is its negation *)
Lemma thread_worker_labels : forall execute c r a b (cf : Worker.cfg) (ps : Worker.pst) w s cp,
  keeps_registers execute -> raises_exception_only (fst (execute c r a b)) ->
  wc_done c = false -> wr_error r = false ->
  Worker.mp cf = false -> Worker.phase (Worker.ws ps w) = Worker.WRun s ->
  let ok := is_ok (fst (execute c r a b)) in
  let out := Worker_thread_worker execute c r a b in
  Worker.evs_of cf ps (if ok then Worker.WDone w else Worker.WFail w cp) = [(s, wc_done (snd (fst out)))] /\
  wr_error (snd out) = negb (wc_done (snd (fst out))).
Proof.
  intros execute c r a b cf ps w s cp K E Hd He Hmp Hph. cbv zeta.
  destruct (thread_worker_registers execute c r a b K E) as [_ [H1 H2]]. cbv zeta in H1, H2.
  rewrite H1, H2, Hd, He. cbn [orb].
  destruct (is_ok (fst (execute c r a b))); unfold Worker.evs_of; rewrite ?Hmp, Hph; auto.
Qed.
