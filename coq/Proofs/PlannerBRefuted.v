(* Stage B1, part 5: the observed-order oracle is an order oracle, and concrete witnesses (kernel-checked by vm_compute) of
   the three defect domains on the faithful model:
     g_part   a consumer with two maximal inputs from two steps of one producer group: under one iteration order of the
              parents the kept transform step waits for the wrong one (partial requirement, tfs_spec refuted), under the
              other the plan is fine - the same request has two different plans (C04-nondet-tfs-required-parent);
     g_miss   a step of two features: when the feature without cross-framework input is any_uuid no transform step is planned;
     g_round  framework round trip A -> B -> A: the consumer is routed to the object of the root step. *)
From Coq Require Import List Bool Arith Lia Permutation.
Import ListNotations.
Require Import MV.Model.Orch MV.Model.OrchCheck MV.Model.Grouping MV.Model.PlannerA MV.Spec.PlannerASpec.
Require Import MV.Model.PlannerB MV.Spec.PlannerBSpec MV.Model.PlanDefects.
Require Import MV.Proofs.OrchP MV.Proofs.OrchTermP MV.Proofs.PlannerASets MV.Proofs.PlannerAGraph MV.Proofs.PlannerAQueue.
Require Import MV.Proofs.PlannerALevels MV.Proofs.PlannerAOrder MV.Proofs.PlanSimP MV.Proofs.PlannerAP MV.Proofs.PlannerADet.
Require Import MV.Proofs.PlannerBErase MV.Proofs.PlannerBP MV.Proofs.PlannerBWf MV.Proofs.PlannerBDefects.

(* ---------- ord_obs answers with permutations, whatever was observed ---------- *)
Lemma remove1_perm : forall a l, In a l -> Permutation (a :: remove1 a l) l.
Proof.
  intros a l. induction l as [|x l IH]; intros H; [destruct H|]. cbn [remove1]. destruct (Nat.eqb x a) eqn:E.
  - apply Nat.eqb_eq in E. subst x. apply Permutation_refl.
  - destruct H as [H|H]; [subst x; rewrite Nat.eqb_refl in E; discriminate|].
    apply (Permutation_trans (perm_swap x a (remove1 a l))). apply perm_skip. exact (IH H).
Qed.

Lemma perm_b_sound : forall l t, perm_b l t = true -> Permutation t l.
Proof.
  intros l t H. unfold perm_b in H. repeat (apply andb_true_iff in H; destruct H as [H ?]).
  apply Permutation_sym. apply NoDup_Permutation_bis.
  - apply nodupb_NoDup. assumption.
  - apply Nat.eqb_eq in H. lia.
  - apply subset_incl. assumption.
Qed.

Theorem ord_obs_ok : forall anys ptab, ord_ok (ord_obs anys ptab).
Proof.
  intros anys ptab site l. unfold ord_obs. destruct (Nat.eqb site 2).
  - destruct (filter (fun u => mem u anys) l) as [|a t] eqn:E; [apply Permutation_refl|].
    apply remove1_perm. assert (Ha : In a (filter (fun u => mem u anys) l)) by (rewrite E; left; reflexivity).
    apply filter_In in Ha. apply Ha.
  - destruct (Nat.leb 4 site); [|apply Permutation_refl].
    destruct (perm_b l (aget0 (site - 4) ptab)) eqn:E; [apply perm_b_sound; exact E | apply Permutation_refl].
Qed.

Lemma ord_id_ok : ord_ok ord_id.
Proof. intros k l. apply Permutation_refl. Qed.

(* ---------- refuting `waits`: a relation that contains the direct edges and is transitive contains `waits` ---------- *)
Definition wrel (p : plan) (i j : nat) : bool :=
  match step_of p i with Some s => mem j (waits_for p s) | None => false end.
Definition wclosed (p : plan) : bool :=
  forallb (fun s => forallb (fun t => negb (existsb (fun u => mem u (uuids t)) (req s)) || wrel p (sid s) (sid t)) p) p
  && forallb (fun s => forallb (fun t => forallb (fun r => negb (wrel p (sid s) (sid t) && wrel p (sid t) (sid r)) || wrel p (sid s) (sid r)) p) p) p.

Lemma waits_wrel : forall p, wclosed p = true -> forall s t, waits p s t -> In s p /\ In t p /\ wrel p (sid s) (sid t) = true.
Proof.
  intros p Hc. unfold wclosed in Hc. apply andb_true_iff in Hc. destruct Hc as [Hd Ht].
  rewrite forallb_forall in Hd, Ht. intros s t H. induction H as [s t u Hs Ht' Hu Hu'|s t r _ IH1 _ IH2].
  - split; [exact Hs|]. split; [exact Ht'|]. specialize (Hd s Hs). rewrite forallb_forall in Hd. specialize (Hd t Ht').
    apply orb_true_iff in Hd. destruct Hd as [Hd|Hd]; [|exact Hd]. apply negb_true_iff in Hd.
    assert (He : existsb (fun u0 => mem u0 (uuids t)) (req s) = true).
    { apply existsb_exists. exists u. split; [exact Hu | apply mem_In; exact Hu']. }
    rewrite He in Hd. discriminate.
  - destruct IH1 as (Hs & Ht' & W1). destruct IH2 as (_ & Hr & W2). split; [exact Hs|]. split; [exact Hr|].
    specialize (Ht s Hs). rewrite forallb_forall in Ht. specialize (Ht t Ht'). rewrite forallb_forall in Ht. specialize (Ht r Hr).
    rewrite W1, W2 in Ht. cbn in Ht. exact Ht.
Qed.

(* is input u produced by a step that some transform step of the plan waits for, through the relation wrel *)
Definition tfs_waits_for_b (p : bplan) (u : nat) : bool :=
  existsb (fun t => is_tfs t && existsb (fun x => mem u (uuids (bs x)) && wrel (steps_of p) (sid (bs t)) (sid (bs x))) p) p.

Lemma tfs_waits_for_b_complete : forall (p : bplan) u, wclosed (steps_of p) = true ->
  (exists t, In t p /\ is_tfs t = true /\ exists x, In x p /\ In u (uuids (bs x)) /\ waits (steps_of p) (bs t) (bs x)) ->
  tfs_waits_for_b p u = true.
Proof.
  intros p u Hc [t (Ht & Htfs & [x (Hx & Hu & Hw)])]. unfold tfs_waits_for_b. apply existsb_exists. exists t. split; [exact Ht|].
  rewrite Htfs. cbn [andb]. apply existsb_exists. exists x. split; [exact Hx|].
  destruct (waits_wrel (steps_of p) Hc _ _ Hw) as (_ & _ & Hrel). rewrite Hrel, andb_true_r. apply mem_In. exact Hu.
Qed.

(* ====================================== partial requirement / two plans ====================================== *)
(* r=0 (group 1, framework 1);  group 2 on framework 1: p1=2 <- r, p3=4 <- r, p2=6 <- p3 (two levels: {p1,p3}, {p2});
   group 3 on framework 2: c=9 <- p1, p2, requested *)
Definition g_part : fgraph :=
  [ {| fid := 9; fgrp := 3; fins := [2; 6]; freq := true;  fcfw := 2 |};
    {| fid := 2; fgrp := 2; fins := [0];    freq := false; fcfw := 1 |};
    {| fid := 6; fgrp := 2; fins := [4];    freq := false; fcfw := 1 |};
    {| fid := 4; fgrp := 2; fins := [0];    freq := false; fcfw := 1 |};
    {| fid := 0; fgrp := 1; fins := [];     freq := false; fcfw := 1 |} ].
(* parent_to_children_mapping[c] iterated as p1, p2, ... / as p2, p1, ... *)
Definition o_p1_first : oparam := ord_obs [] [(9, [2; 6; 4; 0])].
Definition o_p2_first : oparam := ord_obs [] [(9, [6; 2; 4; 0])].

Lemma g_part_ok : graph_ok g_part /\ group_cfw g_part.
Proof. split; [apply graph_okb_sound | apply group_cfwb_sound]; vm_compute; reflexivity. Qed.

Definition brief (p : bplan) : list (kind * list nat * list nat * (nat * nat * nat * nat) * list nat) :=
  map (fun b => (skind (bs b), uuids (bs b), req (bs b), (b_from b, b_cfw b, b_fgrp b, b_grp b), b_tfs b)) p.

(* the two plans differ exactly in what the transform step (uuid 10) waits for; 11 is the uuid of the constructed-and-dropped
   second step, left behind in tfs_ids *)
Lemma part_plans :
  brief (plan_B o_p1_first g_part) =
    [ (KFG, [0], [], (0, 1, 0, 1), []); (KFG, [2; 4], [0], (0, 1, 0, 2), []); (KFG, [6], [4; 0], (0, 1, 0, 2), []);
      (KTFS, [10], [2], (1, 2, 2, 3), []); (KFG, [9], [2; 6; 0; 4; 10], (0, 2, 0, 3), [10; 11]) ] /\
  brief (plan_B o_p2_first g_part) =
    [ (KFG, [0], [], (0, 1, 0, 1), []); (KFG, [2; 4], [0], (0, 1, 0, 2), []); (KFG, [6], [4; 0], (0, 1, 0, 2), []);
      (KTFS, [10], [6], (1, 2, 2, 3), []); (KFG, [9], [2; 6; 0; 4; 10], (0, 2, 0, 3), [10; 11]) ].
Proof. split; vm_compute; reflexivity. Qed.

Lemma part_codes :
  kf_code (plan_B o_p1_first g_part) (adj_of g_part) = 2 /\ kf_tfs_partial_at (plan_B o_p1_first g_part) (adj_of g_part) = [(4, 6)] /\
  kf_code (plan_B o_p2_first g_part) (adj_of g_part) = 0 /\
  boutcome_code (prepare_B o_p1_first g_part) = 0 /\ boutcome_code (prepare_B o_p2_first g_part) = 0 /\
  req_covers (steps_of (plan_B o_p1_first g_part)) (adj_of g_part) = true /\
  wf_plan_auto (steps_of (plan_B o_p1_first g_part)) = true /\
  kf_tfs_choice o_p1_first g_part = true.
Proof. vm_compute. repeat split; reflexivity. Qed.

Lemma part_closure : forall a c, anc g_part a c <-> In a (closure g_part c).
Proof. intros a c. symmetry. apply (closure_correct g_part (proj1 g_part_ok)). Qed.

(* under the first order the specification fails: the consumer's input p2 (6) is served by no transform step *)
Theorem part_spec_refuted : ~ tfs_spec g_part (plan_B o_p1_first g_part).
Proof.
  intros H.
  set (p := plan_B o_p1_first g_part) in *.
  assert (Hp : p = [ nth 0 p (mk_tfs {| te_id := 0; te_parent := 0; te_key := (0, 0, 0, 0); te_new := true |});
                     nth 1 p (mk_tfs {| te_id := 0; te_parent := 0; te_key := (0, 0, 0, 0); te_new := true |});
                     nth 2 p (mk_tfs {| te_id := 0; te_parent := 0; te_key := (0, 0, 0, 0); te_new := true |});
                     nth 3 p (mk_tfs {| te_id := 0; te_parent := 0; te_key := (0, 0, 0, 0); te_new := true |});
                     nth 4 p (mk_tfs {| te_id := 0; te_parent := 0; te_key := (0, 0, 0, 0); te_new := true |}) ]) by (vm_compute; reflexivity).
  set (c := nth 4 p (mk_tfs {| te_id := 0; te_parent := 0; te_key := (0, 0, 0, 0); te_new := true |})) in *.
  assert (Hc : In c p) by (rewrite Hp; right; right; right; right; left; reflexivity).
  assert (Hmax : max_input g_part c 6).
  { split.
    - exists 9. split; [vm_compute; left; reflexivity|]. apply part_closure. vm_compute. right. left. reflexivity.
    - intros v [f [Hf Hv]] Hanc. vm_compute in Hf. destruct Hf as [Hf|[]]. subst f.
      apply part_closure in Hv. apply part_closure in Hanc. vm_compute in Hv.
      destruct Hv as [Hv|[Hv|[Hv|[Hv|[]]]]]; subst v; vm_compute in Hanc; intuition discriminate. }
  destruct (H c 6 Hc eq_refl Hmax) as [t (Ht & Htfs & _ & _ & _ & _ & _ & Hserved)]; [vm_compute; discriminate|].
  assert (Hcl : wclosed (steps_of p) = true) by (vm_compute; reflexivity).
  assert (Hb : tfs_waits_for_b p 6 = true) by (apply (tfs_waits_for_b_complete p 6 Hcl); exists t; repeat split; assumption).
  vm_compute in Hb. discriminate.
Qed.

(* under the second order the plan is outside the domains, hence (defects_sound) the specification holds *)
Theorem part_spec_other_order : tfs_spec g_part (plan_B o_p2_first g_part).
Proof.
  destruct g_part_ok as [H1 H2]. apply (defects_sound o_p2_first g_part (ord_obs_ok _ _) H1 H2); vm_compute; reflexivity.
Qed.

(* the two plans are not the same plan: the transform step of one waits for p1, that of the other for p2 *)
Theorem part_two_plans : ~ bplan_equiv (tbase g_part) (plan_B o_p1_first g_part) (plan_B o_p2_first g_part).
Proof.
  intros [q [Hperm Hf]].
  set (p1 := plan_B o_p1_first g_part) in *. set (p2 := plan_B o_p2_first g_part) in *.
  set (t2 := nth 3 p2 (mk_tfs {| te_id := 0; te_parent := 0; te_key := (0, 0, 0, 0); te_new := true |})).
  assert (Ht2 : In t2 p2) by (vm_compute; right; right; right; left; reflexivity).
  destruct (Forall2_In_r _ _ _ q p2 t2 Hf Ht2) as [b [Hb Heq]].
  apply (Permutation_in _ (Permutation_sym Hperm)) in Hb.
  destruct Heq as (Hk & _ & _ & _ & _ & _ & _ & Hfr & _).
  assert (Hex : existsb (fun b0 => is_tfs b0 && list_eqb (feat_req (tbase g_part) b0) [6]) p1 = true).
  { apply existsb_exists. exists b. split; [exact Hb|]. unfold is_tfs. rewrite Hk.
    replace (feat_req (tbase g_part) t2) with [6] in Hfr by (vm_compute; reflexivity).
    apply Permutation_sym, Permutation_length_1_inv in Hfr. rewrite Hfr. vm_compute. reflexivity. }
  vm_compute in Hex. discriminate.
Qed.

(* ====================================== missing transform step ====================================== *)
(* a=0, b=2 (group 1, framework 1);  f2=4 <- b (group 2, framework 2);  group 3 on framework 1: f3=7 <- b, f2 and f4=9 <- a,
   both requested: ONE step {f3, f4} *)
Definition g_miss : fgraph :=
  [ {| fid := 9; fgrp := 3; fins := [0];    freq := true;  fcfw := 1 |};
    {| fid := 0; fgrp := 1; fins := [];     freq := false; fcfw := 1 |};
    {| fid := 7; fgrp := 3; fins := [2; 4]; freq := true;  fcfw := 1 |};
    {| fid := 2; fgrp := 1; fins := [];     freq := false; fcfw := 1 |};
    {| fid := 4; fgrp := 2; fins := [2];    freq := false; fcfw := 2 |} ].
Definition o_any_f4 : oparam := ord_obs [9] [].       (* any_uuid of the step is f4 *)
Definition o_any_f3 : oparam := ord_obs [7] [].       (* any_uuid of the step is f3 *)

Lemma g_miss_ok : graph_ok g_miss /\ group_cfw g_miss.
Proof. split; [apply graph_okb_sound | apply group_cfwb_sound]; vm_compute; reflexivity. Qed.

Lemma miss_plans :
  brief (plan_B o_any_f4 g_miss) =
    [ (KFG, [0; 2], [], (0, 1, 0, 1), []); (KFG, [9; 7], [0; 2; 4], (0, 1, 0, 3), []);
      (KTFS, [10], [2], (1, 2, 1, 2), []); (KFG, [4], [2; 10], (0, 2, 0, 2), [10]) ] /\
  brief (plan_B o_any_f3 g_miss) =
    [ (KFG, [0; 2], [], (0, 1, 0, 1), []); (KTFS, [10], [4], (2, 1, 2, 3), []); (KFG, [7; 9], [0; 2; 4; 10], (0, 1, 0, 3), [10]);
      (KTFS, [12], [2], (1, 2, 1, 2), []); (KFG, [4], [2; 12], (0, 2, 0, 2), [12]) ] /\
  kf_code (plan_B o_any_f4 g_miss) (adj_of g_miss) = 1 /\ kf_tfs_missing_at (plan_B o_any_f4 g_miss) (adj_of g_miss) = [(1, 4)] /\
  boutcome_code (prepare_B o_any_f4 g_miss) = 0 /\
  req_covers (steps_of (plan_B o_any_f4 g_miss)) (adj_of g_miss) = true.
Proof. vm_compute. repeat split; reflexivity. Qed.

Lemma miss_closure : forall a c, anc g_miss a c <-> In a (closure g_miss c).
Proof. intros a c. symmetry. apply (closure_correct g_miss (proj1 g_miss_ok)). Qed.

(* with f4 as representative the step {f3, f4} requires no transform step although its input f2 lives on framework 2:
   there is no transform step from framework 2 in the whole plan *)
Theorem miss_spec_refuted : ~ tfs_spec g_miss (plan_B o_any_f4 g_miss).
Proof.
  intros H.
  set (p := plan_B o_any_f4 g_miss) in *.
  set (d := mk_tfs {| te_id := 0; te_parent := 0; te_key := (0, 0, 0, 0); te_new := true |}).
  assert (Hp : p = [ nth 0 p d; nth 1 p d; nth 2 p d; nth 3 p d ]) by (vm_compute; reflexivity).
  set (c := nth 1 p d) in *.
  assert (Hc : In c p) by (rewrite Hp; right; left; reflexivity).
  assert (Hmax : max_input g_miss c 4).
  { split.
    - exists 7. split; [vm_compute; right; left; reflexivity|]. apply miss_closure. vm_compute. right. left. reflexivity.
    - intros v [f [Hf Hv]] Hanc. apply miss_closure in Hv. apply miss_closure in Hanc. vm_compute in Hf.
      destruct Hf as [Hf|[Hf|[]]]; subst f; vm_compute in Hv.
      + destruct Hv as [Hv|[]]; subst v; vm_compute in Hanc; intuition discriminate.
      + destruct Hv as [Hv|[Hv|[]]]; subst v; vm_compute in Hanc; intuition discriminate. }
  destruct (H c 4 Hc eq_refl Hmax) as [t (Ht & Htfs & Hfrom & _)]; [vm_compute; discriminate|].
  assert (Hex : existsb (fun t0 => is_tfs t0 && Nat.eqb (b_from t0) 2) p = true).
  { apply existsb_exists. exists t. split; [exact Ht|]. rewrite Htfs, Hfrom. vm_compute. reflexivity. }
  vm_compute in Hex. discriminate.
Qed.

(* ====================================== framework round trip ====================================== *)
(* a=0 (group 1, framework 1);  f1=2 <- a (group 2, framework 2);  f4=5 <- f1 (group 3, framework 1), requested *)
Definition g_round : fgraph :=
  [ {| fid := 5; fgrp := 3; fins := [2]; freq := true;  fcfw := 1 |};
    {| fid := 2; fgrp := 2; fins := [0]; freq := false; fcfw := 2 |};
    {| fid := 0; fgrp := 1; fins := [];  freq := false; fcfw := 1 |} ].

Lemma g_round_ok : graph_ok g_round /\ group_cfw g_round.
Proof. split; [apply graph_okb_sound | apply group_cfwb_sound]; vm_compute; reflexivity. Qed.

(* the plan is perfectly fine as a plan (every input served, choice free: the SAME plan for every oracle) - and yet the SYNC
   registry lookup routes the last step (sid 4) to object 0, the object of the root step, instead of object 2, which its
   transform step (sid 3) made from the framework-2 object: route_sync = (sid, (object written, object read)) *)
Theorem round_refuted :
  brief (plan_B ord_id g_round) =
    [ (KFG, [0], [], (0, 1, 0, 1), []); (KTFS, [6], [0], (1, 2, 1, 2), []); (KFG, [2], [0; 6], (0, 2, 0, 2), [6]);
      (KTFS, [8], [2], (2, 1, 2, 3), []); (KFG, [5], [2; 0; 8], (0, 1, 0, 3), [8]) ] /\
  kf_tfs_missing (plan_B ord_id g_round) (adj_of g_round) = false /\ kf_tfs_partial (plan_B ord_id g_round) (adj_of g_round) = false /\
  kf_tfs_choice ord_id g_round = false /\
  kf_framework_roundtrip (plan_B ord_id g_round) = true /\ kf_roundtrip_at (plan_B ord_id g_round) = [(4, 0)] /\
  route_sync (plan_B ord_id g_round) = [(0, (0, None)); (1, (1, Some 0)); (2, (1, None)); (3, (2, Some 1)); (4, (0, None))] /\
  misrouted_sync (plan_B ord_id g_round) = [4].
Proof. vm_compute. repeat split; reflexivity. Qed.
