(* Which features share a step, and determinism of the O-plan.
     share_step_sound          two features of one step: same feature group, same (group options, frameworks) class, and
                               equal declared types if both declare one  (every graph, every oracle)
     same_split_iff            outside kf_ambiguous_O: same split <-> same feature group and agreeing (options, type)
     plan_deterministic_O      outside kf_ambiguous_O: any two oracles and any two presentations of the graph give the same
                               plan up to step order / numbering / order inside the sets;  prepare_deterministic_O
     amb_two_plans             inside kf_ambiguous_O two oracles give two plans that are NOT equivalent *)
From Coq Require Import List Bool Arith Lia Permutation.
Import ListNotations.
Require Import MV.Model.Orch MV.Model.OrchCheck MV.Model.Options MV.Model.Identity MV.Model.Grouping MV.Model.PlannerA MV.Model.PlannerO.
Require Import MV.Spec.GroupingSpec MV.Spec.PlannerASpec MV.Spec.PlannerOSpec.
Require Import MV.Proofs.OrchP MV.Proofs.OrchTermP MV.Proofs.PlannerASets MV.Proofs.PlannerAGraph.
Require Import MV.Proofs.PlannerAQueue MV.Proofs.PlannerALevels MV.Proofs.PlannerAOrder MV.Proofs.PlanSimP MV.Proofs.PlannerAP MV.Proofs.PlannerADet.
Require Import MV.Proofs.GroupingP MV.Proofs.PlannerOGroup MV.Proofs.PlannerOP.

(* ---------- kf_ambiguous, propositionally ---------- *)
Lemma kf_amb_spec : forall its, kf_ambiguous its = true <->
  exists u t1 t2, In u its /\ In t1 its /\ In t2 its /\ is_typed u = false /\ is_typed t1 = true /\ is_typed t2 = true /\
                  it_kb t1 = it_kb u /\ it_kb t2 = it_kb u /\ it_ty t1 <> it_ty t2.
Proof.
  intros its. unfold kf_ambiguous. rewrite existsb_exists. split.
  - intros [u [Hu H]]. apply andb_true_iff in H. destruct H as [Hun H]. apply existsb_exists in H. destruct H as [t1 [H1 H]].
    apply existsb_exists in H. destruct H as [t2 [H2 H]].
    repeat (apply andb_true_iff in H; destruct H as [H ?]).
    exists u, t1, t2. repeat split; try assumption.
    + apply negb_true_iff. exact Hun.
    + apply Nat.eqb_eq. assumption.
    + apply Nat.eqb_eq. assumption.
    + intros E. match goal with X : negb (oty_eqb _ _) = true |- _ => apply negb_true_iff in X; rewrite E in X end.
      match goal with X : oty_eqb ?a ?a = false |- _ => assert (oty_eqb a a = true) by (apply oty_eqb_eq; reflexivity); congruence end.
  - intros (u & t1 & t2 & Hu & H1 & H2 & A & B & C & D & E & F). exists u. split; [exact Hu|].
    apply andb_true_iff. split; [rewrite A; reflexivity|]. apply existsb_exists. exists t1. split; [exact H1|].
    apply existsb_exists. exists t2. split; [exact H2|].
    rewrite B, C. cbn. rewrite D, E, !Nat.eqb_refl. cbn. apply negb_true_iff.
    destruct (oty_eqb (it_ty t1) (it_ty t2)) eqn:X; [|reflexivity]. apply oty_eqb_eq in X. contradiction.
Qed.

Lemma kf_amb_incl : forall a b, (forall x, In x a -> In x b) -> kf_ambiguous b = false -> kf_ambiguous a = false.
Proof.
  intros a b H Hb. destruct (kf_ambiguous a) eqn:E; [|reflexivity]. exfalso.
  apply kf_amb_spec in E. destruct E as (u & t1 & t2 & Hu & H1 & H2 & R).
  assert (X : kf_ambiguous b = true) by (apply kf_amb_spec; exists u, t1, t2; repeat split; try apply H; tauto).
  congruence.
Qed.

(* no feature group of g is in C15's ambiguity domain *)
Definition namb (g : ograph) : Prop := forall k, kf_ambiguous (class_items g k) = false.

Lemma grp_of_base_In : forall g u, In u (ids (base g)) -> NoDup (ids (base g)) -> In (grp_of (base g) u) (map (fun n => fgrp (on n)) g).
Proof.
  intros g u Hu Hnd. unfold ids in Hu. apply in_map_iff in Hu. destruct Hu as [n [E Hn]]. subst u.
  rewrite (grp_of_node (base g) n Hnd Hn). unfold base in Hn. apply in_map_iff in Hn. destruct Hn as [m [E Hm]]. subst n.
  apply in_map_iff. exists m. split; [reflexivity | exact Hm].
Qed.

Lemma namb_of_kf : forall g, NoDup (ids (base g)) -> kf_ambiguous_O g = false -> namb g.
Proof.
  intros g Hnd H k. destruct (kf_ambiguous (class_items g k)) eqn:E; [|reflexivity]. exfalso.
  assert (Hk : In k (dedupe (map (fun n => fgrp (on n)) g))).
  { apply kf_amb_spec in E. destruct E as (u & _ & _ & Hu & _). unfold class_items in Hu. apply in_map_iff in Hu.
    destruct Hu as [w [_ Hw]]. apply filter_In in Hw. destruct Hw as [Hw Hg]. apply Nat.eqb_eq in Hg. subst k.
    apply In_dedupe. apply grp_of_base_In; assumption. }
  unfold kf_ambiguous_O in H. assert (X : existsb (fun k0 => kf_ambiguous (class_items g k0)) (dedupe (map (fun n => fgrp (on n)) g)) = true).
  { apply existsb_exists. exists k. split; assumption. }
  congruence.
Qed.

(* ---------- which features share a step ---------- *)
Section Share.
  Variables (ord : oparam) (g : ograph).
  Hypothesis Hord : ord_ok ord.
  Hypothesis Hok : graph_ok (base g).

  Local Notation G := (base g).
  Local Notation PQ := (planned_queue (base g) (queue_of (base g))).
  Local Notation SQ := (split_queue ord g).
  Local Notation itm := (oitem g).

  Lemma pq_members_class : forall e, In e PQ -> forall x, In x (map itm (ord 0 (snd e))) <-> In x (class_items g (fst e)).
  Proof.
    intros e He x. destruct (pq_entry G Hok e He) as (Em & _). unfold class_items. rewrite !in_map_iff. split.
    - intros [u [E Hu]]. exists u. split; [exact E|]. apply (Permutation_in _ (Hord 0 _)) in Hu. rewrite Em in Hu.
      apply members_spec in Hu. destruct Hu as [Hq Hg]. apply filter_In. split; [apply (queue_complete G Hok); exact Hq | apply Nat.eqb_eq; exact Hg].
    - intros [u [E Hu]]. exists u. split; [exact E|]. apply filter_In in Hu. destruct Hu as [Hi Hg]. apply Nat.eqb_eq in Hg.
      apply (Permutation_in _ (Permutation_sym (Hord 0 _))). rewrite Em. apply members_spec. split; [apply (queue_complete G Hok); exact Hi | exact Hg].
  Qed.

  Lemma in_split_entry : forall e' u, In e' SQ -> In u (snd e') ->
    exists e, In e PQ /\ fst e' = fst e /\ In (snd e') (splits_of ord itm (snd e)) /\ In u (snd e).
  Proof.
    intros e' u He Hu. apply (in_SQ ord g) in He. destruct He as [e [He [E Hsp]]]. exists e. repeat split; try assumption.
    exact (splits_incl ord itm Hord (oitem_id g) (snd e) (snd e') u Hsp Hu).
  Qed.

  (* FULL STRENGTH, every oracle: what two features of one step always have in common *)
  Theorem share_step_sound : forall u v, share_step (plan_O ord g) u v ->
    grp_of G u = grp_of G v /\ kb_of g u = kb_of g v /\
    (forall a b, ty_of g u = Some a -> ty_of g v = Some b -> a = b).
  Proof.
    intros u v [s [Hs [Hu Hv]]]. destruct (step_same_split ord g Hord Hok s u v Hs Hu Hv) as (e' & He & U & V & Gu & Gv).
    split; [congruence|]. destruct (in_split_entry e' u He U) as (e & Hpe & _ & Hsp & _).
    destruct (split_same_group ord itm (oitem_id g) (snd e) (snd e') u v Hsp U V) as [grp [Hg [Hug Hvg]]].
    destruct (group_members_agree_l _ grp (itm u) (itm v) Hg Hug Hvg) as [K T]. split; [exact K|].
    intros a b Ta Tb. cbn [it_ty oitem] in T. unfold is_typed in T. cbn [it_ty oitem] in T. rewrite Ta, Tb in T.
    specialize (T eq_refl eq_refl). congruence.
  Qed.

  Theorem share_step_same_split : forall u v, share_step (plan_O ord g) u v -> same_split ord g u v.
  Proof.
    intros u v [s [Hs [Hu Hv]]]. destruct (step_same_split ord g Hord Hok s u v Hs Hu Hv) as (e' & He & U & V & _).
    exists e'. repeat split; assumption.
  Qed.

  (* outside the ambiguity domain the splits are the classes of `agree` *)
  Theorem same_split_iff : namb g -> forall u v, In u (ids G) -> In v (ids G) -> (same_split ord g u v <-> agree g u v).
  Proof.
    intros Hna u v Hu Hv. split.
    - intros [e' [He [U V]]]. destruct (sq_entry ord g Hord Hok e' He) as (_ & _ & _ & Hg). split; [rewrite (Hg u U), (Hg v V); reflexivity|].
      destruct (in_split_entry e' u He U) as (e & Hpe & _ & Hsp & _).
      pose proof (split_same_group ord itm (oitem_id g) (snd e) (snd e') u v Hsp U V) as Hsg.
      assert (Hamb : kf_ambiguous (map itm (ord 0 (snd e))) = false).
      { apply (kf_amb_incl _ (class_items g (fst e))); [intros x Hx; apply (pq_members_class e Hpe); exact Hx | apply Hna]. }
      apply (share_iff_agree_partial_l _ Hamb (itm u) (itm v)); [| | exact Hsg].
      + apply in_map. apply (Permutation_in _ (Permutation_sym (Hord 0 _))). exact (splits_incl ord itm Hord (oitem_id g) _ _ u Hsp U).
      + apply in_map. apply (Permutation_in _ (Permutation_sym (Hord 0 _))). exact (splits_incl ord itm Hord (oitem_id g) _ _ v Hsp V).
    - intros [Eg Ha]. destruct (pq_of_feature G Hok u Hu) as [e [Hpe [Ek Hin]]]. destruct (pq_entry G Hok e Hpe) as (Em & _ & _ & Hnd).
      assert (Hvin : In v (snd e)).
      { rewrite Em. apply members_spec. split; [apply (queue_complete G Hok); exact Hv | congruence]. }
      assert (Hamb : kf_ambiguous (map itm (ord 0 (snd e))) = false).
      { apply (kf_amb_incl _ (class_items g (fst e))); [intros x Hx; apply (pq_members_class e Hpe); exact Hx | apply Hna]. }
      assert (Hsg : same_group (group_items (map itm (ord 0 (snd e)))) (itm u) (itm v)).
      { apply (share_iff_agree_partial_l _ Hamb (itm u) (itm v)); [| | exact Ha];
        apply in_map; apply (Permutation_in _ (Permutation_sym (Hord 0 _))); assumption. }
      destruct (same_group_split ord itm (oitem_id g) (snd e) u v Hnd Hin Hvin Hsg) as [sp [Hsp [Usp Vsp]]].
      exists (fst e, sp). split; [|split; assumption]. apply (in_SQ ord g). exists e. cbn. repeat split; assumption.
  Qed.
End Share.

(* ---------- a generic way to show plan_equiv ---------- *)
Lemma NoDup_drop_middle : forall (a m b : list nat), NoDup (a ++ m ++ b) -> NoDup (a ++ b).
Proof.
  intros a m b H. induction a as [|x a IH]; cbn in *.
  - destruct (NoDup_app_both _ _ H) as [_ Hb]. exact Hb.
  - apply NoDup_cons_iff in H. destruct H as [Hx H]. constructor; [|exact (IH H)].
    intros Hin. apply Hx. apply in_app_iff in Hin. apply in_or_app. destruct Hin as [Hin|Hin]; [left; exact Hin|].
    right. apply in_or_app. right. exact Hin.
Qed.

Lemma all_uuids_app : forall p q, all_uuids (p ++ q) = all_uuids p ++ all_uuids q.
Proof. intros p q. unfold all_uuids. apply flat_map_app. Qed.

Lemma NoDup_app_disjoint : forall (a b : list nat) x, NoDup (a ++ b) -> In x a -> In x b -> False.
Proof.
  intros a. induction a as [|y a IH]; intros b x H Ha Hb; [destruct Ha|]. cbn in H. apply NoDup_cons_iff in H. destruct H as [Hy H].
  destruct Ha as [E|Ha]; [subst y; apply Hy; apply in_or_app; right; exact Hb | exact (IH b x H Ha Hb)].
Qed.

Theorem match_plan_equiv : forall p p',
  (forall s, In s p -> uuids s <> []) -> (forall s, In s p' -> uuids s <> []) ->
  NoDup (all_uuids p) -> NoDup (all_uuids p') ->
  (forall u, In u (all_uuids p') -> In u (all_uuids p)) ->
  (forall s, In s p -> exists s', In s' p' /\ step_equiv s s') -> plan_equiv p p'.
Proof.
  intros p. induction p as [|s t IH]; intros p' Hne Hne' Hnd Hnd' Hsub Hcor.
  - destruct p' as [|s' t']; [exists []; split; constructor|]. exfalso.
    assert (H : uuids s' <> []) by (apply Hne'; left; reflexivity). destruct (uuids s') as [|u us] eqn:E; [congruence|].
    apply (Hsub u). unfold all_uuids. cbn. rewrite E. left. reflexivity.
  - destruct (Hcor s (or_introl eq_refl)) as [s' [Hs' Hss]]. destruct (in_split s' p' Hs') as [A [B Ep]]. subst p'.
    destruct Hss as (Hk & Hu & Hr & Hq).
    assert (Hdnd : NoDup (uuids s ++ all_uuids t)) by exact Hnd.
    rewrite all_uuids_app in Hnd'. change (all_uuids (s' :: B)) with (uuids s' ++ all_uuids B) in Hnd'.
    assert (Hrest : plan_equiv t (A ++ B)).
    { apply IH.
      - intros x Hx. apply Hne. right. exact Hx.
      - intros x Hx. apply Hne'. apply in_app_iff in Hx. apply in_or_app. destruct Hx as [Hx|Hx]; [left; exact Hx | right; right; exact Hx].
      - destruct (NoDup_app_both _ _ Hdnd) as [_ H]. exact H.
      - rewrite all_uuids_app. exact (NoDup_drop_middle _ _ _ Hnd').
      - intros u Hu'. rewrite all_uuids_app in Hu'.
        assert (Hin : In u (all_uuids (s :: t))).
        { apply Hsub. rewrite all_uuids_app. change (all_uuids (s' :: B)) with (uuids s' ++ all_uuids B).
          apply in_app_iff in Hu'. apply in_or_app. destruct Hu' as [H|H]; [left; exact H | right; apply in_or_app; right; exact H]. }
        change (all_uuids (s :: t)) with (uuids s ++ all_uuids t) in Hin. apply in_app_iff in Hin. destruct Hin as [Hin|Hin]; [|exact Hin].
        exfalso. apply (Permutation_in _ Hu) in Hin. apply in_app_iff in Hu'. destruct Hu' as [H|H].
        + apply (NoDup_app_disjoint _ _ u Hnd' H). apply in_or_app. left. exact Hin.
        + destruct (NoDup_app_both _ _ Hnd') as [_ H2]. exact (NoDup_app_disjoint _ _ u H2 Hin H).
      - intros x Hx. destruct (Hcor x (or_intror Hx)) as [x' [Hx' Hxx]]. exists x'. split; [|exact Hxx].
        apply in_app_iff in Hx'. apply in_or_app. destruct Hx' as [H|[H|H]]; [left; exact H | | right; exact H].
        exfalso. subst x'. destruct Hxx as (_ & Hux & _).
        assert (Hxne : uuids x <> []) by (apply Hne; right; exact Hx). destruct (uuids x) as [|u us] eqn:E; [congruence|].
        assert (U1 : In u (uuids s)).
        { apply (Permutation_in _ (Permutation_sym Hu)). apply (Permutation_in _ Hux). left. reflexivity. }
        apply (NoDup_app_disjoint _ _ u Hdnd U1). unfold all_uuids. apply in_flat_map. exists x. split; [exact Hx | rewrite E; left; reflexivity]. }
    destruct Hrest as [q [Hperm Hf2]]. apply Forall2_app_inv_r in Hf2. destruct Hf2 as [qa [qb [Fa [Fb Eq]]]]. subst q.
    exists (qa ++ s :: qb). split; [apply Permutation_cons_app; exact Hperm|].
    apply Forall2_app; [exact Fa|]. constructor; [repeat split; assumption | exact Fb].
Qed.

(* ---------- determinism ---------- *)
Lemma agreeb_transfer : forall g g' u v, (ty_of g u = ty_of g' u) -> (ty_of g v = ty_of g' v) ->
  (kb_of g u = kb_of g v <-> kb_of g' u = kb_of g' v) -> agreeb (oitem g u) (oitem g v) = agreeb (oitem g' u) (oitem g' v).
Proof.
  intros g g' u v Tu Tv K. unfold agreeb. cbn [it_kb it_ty oitem]. rewrite Tu, Tv. f_equal.
  destruct (Nat.eqb (kb_of g u) (kb_of g v)) eqn:E1, (Nat.eqb (kb_of g' u) (kb_of g' v)) eqn:E2; try reflexivity.
  - apply Nat.eqb_eq in E1. apply K in E1. apply Nat.eqb_neq in E2. contradiction.
  - apply Nat.eqb_eq in E2. apply K in E2. apply Nat.eqb_neq in E1. contradiction.
Qed.

Lemma namb_transfer : forall g g', graph_ok (base g) -> graph_equiv_O g g' -> namb g -> namb g'.
Proof.
  intros g g' Hok (Heq & Hty & Hkb) Hna k. destruct (kf_ambiguous (class_items g' k)) eqn:E; [|reflexivity]. exfalso.
  apply kf_amb_spec in E. destruct E as (x & y1 & y2 & Hx & H1 & H2 & A & B & C & D & E & F).
  unfold class_items in Hx, H1, H2. apply in_map_iff in Hx, H1, H2.
  destruct Hx as [u [Ex Hu]]. destruct H1 as [t1 [E1 Ht1]]. destruct H2 as [t2 [E2 Ht2]]. subst x y1 y2.
  apply filter_In in Hu, Ht1, Ht2. destruct Hu as [Hu Gu]. destruct Ht1 as [Ht1 G1]. destruct Ht2 as [Ht2 G2].
  pose proof (ge_ids _ _ Heq) as Hids.
  assert (Iu : In u (ids (base g))) by exact (Permutation_in _ (Permutation_sym Hids) Hu).
  assert (I1 : In t1 (ids (base g))) by exact (Permutation_in _ (Permutation_sym Hids) Ht1).
  assert (I2 : In t2 (ids (base g))) by exact (Permutation_in _ (Permutation_sym Hids) Ht2).
  assert (Hg : forall w, In w (ids (base g)) -> Nat.eqb (grp_of (base g') w) k = true -> In w (filter (fun u0 => Nat.eqb (grp_of (base g) u0) k) (ids (base g)))).
  { intros w Hw Hgw. apply filter_In. split; [exact Hw|]. rewrite (det_grp _ _ Hok Heq w). exact Hgw. }
  assert (X : kf_ambiguous (class_items g k) = true).
  { apply kf_amb_spec. exists (oitem g u), (oitem g t1), (oitem g t2). unfold class_items.
    split; [apply in_map; apply Hg; assumption|]. split; [apply in_map; apply Hg; assumption|]. split; [apply in_map; apply Hg; assumption|].
    unfold is_typed in *. cbn [it_ty it_kb oitem] in *. rewrite (Hty u Iu), (Hty t1 I1), (Hty t2 I2).
    repeat split; try assumption; [apply (Hkb t1 u I1 Iu); exact D | apply (Hkb t2 u I2 Iu); exact E]. }
  rewrite (Hna k) in X. discriminate.
Qed.

Section DetO.
  Variables (ord ord' : oparam) (g g' : ograph).
  Hypothesis Hord : ord_ok ord.
  Hypothesis Hord' : ord_ok ord'.
  Hypothesis Hok : graph_ok (base g).
  Hypothesis Heq : graph_equiv_O g g'.
  Hypothesis Hna : namb g.

  Let Hge : graph_equiv (base g) (base g') := proj1 Heq.
  Let Hok' : graph_ok (base g') := ge_graph_ok _ _ Hge Hok.
  Let Hna' : namb g' := namb_transfer g g' Hok Heq Hna.

  Lemma ids_iff : forall u, In u (ids (base g)) <-> In u (ids (base g')).
  Proof.
    intros u. split; intros H; [exact (Permutation_in _ (ge_ids _ _ Hge) H) | exact (Permutation_in _ (Permutation_sym (ge_ids _ _ Hge)) H)].
  Qed.

  Lemma agree_iff : forall u v, In u (ids (base g)) -> In v (ids (base g)) -> (agree g u v <-> agree g' u v).
  Proof.
    intros u v Hu Hv. pose proof (proj1 (proj2 Heq)) as Hty. pose proof (proj2 (proj2 Heq)) as Hkb. unfold agree.
    rewrite (agreeb_transfer g g' u v (Hty u Hu) (Hty v Hv) (Hkb u v Hu Hv)), !(det_grp _ _ Hok Hge). reflexivity.
  Qed.

  Lemma split_corr : forall e u, In e (split_queue ord g) -> In u (snd e) ->
    exists e2, In e2 (split_queue ord' g') /\ In u (snd e2) /\ Permutation (snd e) (snd e2).
  Proof.
    intros e u He Hu. destruct (sq_entry ord g Hord Hok e He) as (_ & Hsub & Hnd & _).
    assert (Hui : In u (ids (base g'))) by (apply ids_iff; apply Hsub; exact Hu).
    destruct (sq_of_feature ord' g' Hord' Hok' u Hui) as [e2 [He2 [_ Hu2]]]. exists e2. split; [exact He2|]. split; [exact Hu2|].
    destruct (sq_entry ord' g' Hord' Hok' e2 He2) as (_ & Hsub2 & Hnd2 & _).
    apply NoDup_Permutation; [exact Hnd | exact Hnd2|]. intros v. split; intros Hv.
    - assert (S1 : same_split ord g u v) by (exists e; repeat split; assumption).
      apply (same_split_iff ord g Hord Hok Hna u v (Hsub u Hu) (Hsub v Hv)) in S1.
      apply (agree_iff u v (Hsub u Hu) (Hsub v Hv)) in S1.
      apply (same_split_iff ord' g' Hord' Hok' Hna' u v Hui (proj1 (ids_iff v) (Hsub v Hv))) in S1.
      destruct S1 as [e3 [He3 [U3 V3]]]. rewrite (sq_entry_unique ord' g' Hord' Hok' e2 e3 u He2 He3 Hu2 U3). exact V3.
    - assert (Hvi : In v (ids (base g))) by (apply ids_iff; apply Hsub2; exact Hv).
      assert (S1 : same_split ord' g' u v) by (exists e2; repeat split; assumption).
      apply (same_split_iff ord' g' Hord' Hok' Hna' u v Hui (Hsub2 v Hv)) in S1.
      apply (agree_iff u v (Hsub u Hu) Hvi) in S1.
      apply (same_split_iff ord g Hord Hok Hna u v (Hsub u Hu) Hvi) in S1.
      destruct S1 as [e3 [He3 [U3 V3]]]. rewrite (sq_entry_unique ord g Hord Hok e e3 u He He3 Hu U3). exact V3.
  Qed.

  Lemma step_corr : forall s, In s (plan_O ord g) -> exists s', In s' (plan_O ord' g') /\ step_equiv s s'.
  Proof.
    intros s Hs. destruct (in_plan_O ord g s Hs) as (j & e & lvl & _ & Es & He & Hl). subst s.
    destruct (slevels_spec ord g Hord Hok e He) as (_ & _ & S3 & _).
    destruct lvl as [|u lt] eqn:El; [exfalso; exact (S3 [] Hl eq_refl)|]. rewrite <- El in *.
    assert (Hul : In u lvl) by (rewrite El; left; reflexivity).
    pose proof (level_in_split ord g Hord Hok e lvl u He Hl Hul) as Hue.
    destruct (split_corr e u He Hue) as [e2 [He2 [Hu2 Hperm]]].
    assert (HL : Forall2 (@Permutation nat) (slevels ord g (snd e)) (slevels ord' g' (snd e2))).
    { unfold slevels. apply PlannerALevels.split_levels_perm; [exact (det_closure _ _ Hok Hge)|].
      apply (Permutation_trans (Hord 1 _)). apply (Permutation_trans Hperm). apply Permutation_sym. apply Hord'. }
    destruct (Forall2_In_l _ _ _ _ _ lvl HL Hl) as [lvl' [Hl' Hpl]].
    destruct (plan_O_of_level ord' g' e2 lvl' He2 Hl') as [j' Hj'].
    exists (set_sid j' (mk_step ord' (base g') (p2c_of (base g')) lvl')). split; [exact Hj'|].
    apply (step_equiv_trans _ (mk_step ord (base g) (p2c_of (base g)) lvl)); [apply step_equiv_set_sid|].
    apply (step_equiv_trans _ (mk_step ord' (base g') (p2c_of (base g')) lvl')); [exact (det_step ord ord' _ _ Hord Hord' Hok Hge lvl lvl' Hpl)|].
    apply step_equiv_sym. apply step_equiv_set_sid.
  Qed.

  Theorem plan_deterministic_O_l : plan_equiv (plan_O ord g) (plan_O ord' g').
  Proof.
    destruct (plan_facts_O ord g Hord Hok) as (_ & F2 & F3 & F4 & _). destruct (plan_facts_O ord' g' Hord' Hok') as (_ & F2' & F3' & F4' & _).
    apply match_plan_equiv.
    - intros s Hs. apply (F2 s Hs).
    - intros s Hs. apply (F2' s Hs).
    - exact F3.
    - exact F3'.
    - intros u Hu. apply F4. apply ids_iff. apply F4'. exact Hu.
    - exact step_corr.
  Qed.
End DetO.

Theorem plan_deterministic_O : forall ord ord' g g', ord_ok ord -> ord_ok ord' -> graph_ok (base g) -> graph_equiv_O g g' ->
  kf_ambiguous_O g = false -> plan_equiv (plan_O ord g) (plan_O ord' g').
Proof.
  intros ord ord' g g' H1 H2 H3 H4 H5. apply (plan_deterministic_O_l ord ord' g g' H1 H2 H3 H4). apply namb_of_kf; [apply H3 | exact H5].
Qed.

Theorem prepare_deterministic_O : forall ord ord' g g', ord_ok ord -> ord_ok ord' -> graph_ok (base g) -> strict (base g) ->
  graph_equiv_O g g' -> kf_ambiguous_O g = false ->
  (prepare_O ord g = Planned (plan_O ord g) <-> prepare_O ord' g' = Planned (plan_O ord' g')) /\
  (prepare_O ord g = RejectedCycle <-> prepare_O ord' g' = RejectedCycle) /\
  plan_equiv (plan_O ord g) (plan_O ord' g').
Proof.
  intros ord ord' g g' Hord Hord' Hok Hs Heq Hamb.
  pose proof (ge_graph_ok _ _ (proj1 Heq) Hok) as Hok'. pose proof (ge_strict _ _ (proj1 Heq) Hs) as Hs'.
  pose proof (plan_deterministic_O ord ord' g g' Hord Hord' Hok Heq Hamb) as Hpe.
  assert (Hiff : prepare_O ord g = Planned (plan_O ord g) <-> prepare_O ord' g' = Planned (plan_O ord' g')).
  { rewrite (prepare_accepts_iff_O ord g Hord Hok Hs), (prepare_accepts_iff_O ord' g' Hord' Hok' Hs'). split; intros H.
    - exact (wf_exists_equiv _ _ Hpe (plan_struct_O ord' g' Hord' Hok') H).
    - exact (wf_exists_equiv _ _ (plan_equiv_sym _ _ Hpe) (plan_struct_O ord g Hord Hok) H). }
  split; [exact Hiff|]. split; [|exact Hpe].
  destruct (prepare_total_O ord g Hord Hok Hs) as [A|A]; destruct (prepare_total_O ord' g' Hord' Hok' Hs') as [B|B].
  - rewrite A, B. split; discriminate.
  - exfalso. apply Hiff in A. rewrite A in B. discriminate.
  - exfalso. apply Hiff in B. rewrite B in A. discriminate.
  - rewrite A, B. split; reflexivity.
Qed.

(* ---------- inside the ambiguity domain: two oracles, two plans ---------- *)
(* root a (0); one feature group with f1 : type 1 (1), f2 : type 3 (2), f3 untyped (3), all on the same options *)
Definition g_amb : ograph :=
  [ {| on := {| fid := 0; fgrp := 1; fins := []; freq := false; fcfw := 1 |}; okb := 0; oty := None |};
    {| on := {| fid := 1; fgrp := 2; fins := [0]; freq := true; fcfw := 1 |}; okb := 0; oty := Some 1 |};
    {| on := {| fid := 2; fgrp := 2; fins := [0]; freq := true; fcfw := 1 |}; okb := 0; oty := Some 3 |};
    {| on := {| fid := 3; fgrp := 2; fins := [0]; freq := true; fcfw := 1 |}; okb := 0; oty := None |} ].
Definition ord_rev0 : oparam := fun site l => match site with 0 => rev l | _ => l end.

Definition uuids_matchb (p p' : plan) : bool := forallb (fun s' => existsb (fun s => set_eqb (uuids s) (uuids s')) p) p'.
Lemma plan_equiv_uuids_match : forall p p', plan_equiv p p' -> uuids_matchb p p' = true.
Proof.
  intros p p' [q [Hperm Hf2]]. unfold uuids_matchb. apply forallb_forall. intros s' Hs'.
  destruct (Forall2_In_r _ _ _ _ _ s' Hf2 Hs') as [s [Hs (_ & Hu & _)]]. apply existsb_exists. exists s.
  split; [exact (Permutation_in _ (Permutation_sym Hperm) Hs)|]. unfold set_eqb. apply andb_true_iff. split; apply subset_incl; intros x Hx.
  - exact (Permutation_in _ Hu Hx).
  - exact (Permutation_in _ (Permutation_sym Hu) Hx).
Qed.

Theorem amb_two_plans :
  graph_ok (base g_amb) /\ strict (base g_amb) /\ ord_ok ord_id /\ ord_ok ord_rev0 /\ kf_ambiguous_O g_amb = true /\
  map uuids (plan_O ord_id g_amb) = [[0]; [1; 3]; [2]] /\ map uuids (plan_O ord_rev0 g_amb) = [[0]; [2; 3]; [1]] /\
  ~ plan_equiv (plan_O ord_id g_amb) (plan_O ord_rev0 g_amb) /\
  (exists p, prepare_O ord_id g_amb = Planned p) /\ (exists p, prepare_O ord_rev0 g_amb = Planned p) /\
  ~ agree g_amb 1 2 /\ agree g_amb 3 1 /\ agree g_amb 3 2 /\
  share_step (plan_O ord_id g_amb) 3 1 /\ ~ share_step (plan_O ord_id g_amb) 3 2.
Proof.
  split; [apply graph_okb_sound; vm_compute; reflexivity|]. split; [apply strictb_sound; vm_compute; reflexivity|].
  split; [intros k l; apply Permutation_refl|]. split; [intros [|k] l; [apply Permutation_sym; apply Permutation_rev | apply Permutation_refl]|].
  split; [vm_compute; reflexivity|]. split; [vm_compute; reflexivity|]. split; [vm_compute; reflexivity|].
  split; [intros H; apply plan_equiv_uuids_match in H; vm_compute in H; discriminate|].
  split; [eexists; vm_compute; reflexivity|]. split; [eexists; vm_compute; reflexivity|].
  split; [intros [_ H]; vm_compute in H; discriminate|]. split; [split; vm_compute; reflexivity|]. split; [split; vm_compute; reflexivity|].
  split.
  - eexists. split; [right; left; reflexivity|]. vm_compute. split; [right; left; reflexivity | left; reflexivity].
  - intros [s [Hs [H3 H2]]]. vm_compute in Hs. destruct Hs as [E|[E|[E|[]]]]; subst s; vm_compute in H3, H2; intuition discriminate.
Qed.

Theorem same_split_iff_kf : forall ord g, ord_ok ord -> graph_ok (base g) -> kf_ambiguous_O g = false ->
  forall u v, In u (ids (base g)) -> In v (ids (base g)) -> (same_split ord g u v <-> agree g u v).
Proof. intros ord g Hord Hok Hamb. apply (same_split_iff ord g Hord Hok). apply namb_of_kf; [apply Hok | exact Hamb]. Qed.
