(* Lemmas for C11: the PythonDict filter engine model refines the row predicate of Spec/Filter.v. *)
From Coq Require Import List String ZArith Bool Ascii Arith Lia Permutation.
Import ListNotations.
Require Import MV.Spec.Filter MV.Spec.FilterPlan MV.Model.FilterPyDict MV.Model.FilterArrow.
Open Scope Z_scope.

(* ---------- comparison facts ---------- *)
Lemma vcmp_null_r : forall a, vcmp a VNull = None.
Proof. destruct a; reflexivity. Qed.
Lemma vcmp_null_l : forall b, vcmp VNull b = None.
Proof. destruct b; reflexivity. Qed.

Lemma le_null_r : forall a, le a VNull = false.
Proof. intros; unfold le; now rewrite vcmp_null_r. Qed.
Lemma le_null_l : forall a, le VNull a = false.
Proof. intros; unfold le; now rewrite vcmp_null_l. Qed.
Lemma lt_null_l : forall a, lt VNull a = false.
Proof. intros; unfold lt; now rewrite vcmp_null_l. Qed.

Lemma py_le_comparable : forall a b, comparable a b = true -> py_le a b = Ok (le a b).
Proof. intros a b; unfold comparable, py_le, le; destruct (vcmp a b) as [[]|]; intros; try reflexivity; discriminate. Qed.
Lemma py_lt_comparable : forall a b, comparable a b = true -> py_lt a b = Ok (lt a b).
Proof. intros a b; unfold comparable, py_lt, lt; destruct (vcmp a b) as [[]|]; intros; try reflexivity; discriminate. Qed.

Lemma string_compare_refl : forall s, String.compare s s = Eq.
Proof.
  intros s. pose proof (String.compare_antisym s s) as H.
  destruct (String.compare s s); simpl in H; try reflexivity; discriminate.
Qed.

Lemma vcmp_refl : forall a b c, vcmp a b = Some c -> vcmp a a = Some Eq /\ vcmp b b = Some Eq.
Proof.
  intros a b c H.
  destruct a, b; simpl in *; try discriminate; rewrite ?Z.compare_refl, ?string_compare_refl; auto.
Qed.

(* ---------- filter_res ---------- *)
Lemma filter_res_ok : forall (p : row -> res bool) (q : row -> bool) t,
  (forall r, In r t -> p r = Ok (q r)) -> filter_res p t = Ok (filter q t).
Proof.
  induction t as [|r t IH]; intros H; simpl; [reflexivity|].
  rewrite (H r (or_introl eq_refl)), IH by (intros; apply H; now right).
  now destruct (q r).
Qed.

Lemma filter_res_sub : forall (p : row -> res bool) t t',
  filter_res p t = Ok t' -> t' = filter (fun r => match p r with Ok true => true | _ => false end) t.
Proof.
  induction t as [|r t IH]; simpl; intros t' H.
  - now inversion H.
  - destruct (p r) as [b|e]; [|discriminate].
    destruct (filter_res p t) as [l|e]; [|discriminate].
    inversion H; subst. rewrite (IH l eq_refl). now destruct b.
Qed.

Lemma filter_filter : forall (A : Type) (p q : A -> bool) l, filter q (filter p l) = filter (fun x => p x && q x) l.
Proof.
  induction l as [|a l IH]; simpl; [reflexivity|].
  destruct (p a); simpl; [destruct (q a)|]; now rewrite IH.
Qed.

Lemma typedb_filter : forall c col q t, typedb c col t = true -> typedb c col (filter q t) = true.
Proof.
  unfold typedb; intros c col q t H. rewrite forallb_forall in *. intros r Hr.
  apply filter_In in Hr. now apply H.
Qed.

(* ---------- one filter ---------- *)
Lemma not_none_and_ok : forall col test (q : value -> bool) r,
  q VNull = false ->
  (get r col <> VNull -> test (get r col) = Ok (q (get r col))) ->
  not_none_and col test r = Ok (q (get r col)).
Proof.
  intros col test q r Hn Ht. unfold not_none_and.
  destruct (get r col) eqn:E; simpl; try (apply Ht; discriminate).
  now rewrite Hn.
Qed.

Lemma do_filter_refines_l : forall f c t,
  denote f = Some c -> typedb c (f_col f) t = true ->
  do_filter t f = Ok (filter (fun r => holds c (get r (f_col f))) t).
Proof.
  intros [col ft p] c t Hd Ht. unfold typedb in Ht. rewrite forallb_forall in Ht.
  unfold denote in Hd. unfold do_filter. simpl in *.
  destruct ft; simpl in *.
  - (* range *)
    unfold do_range; simpl.
    destruct (given (p_min p)) as [lo|]; [|discriminate].
    destruct (given (p_max p)) as [hi|]; [|discriminate].
    inversion Hd; subst c; clear Hd.
    apply filter_res_ok. intros r Hr. specialize (Ht r Hr).
    apply (not_none_and_ok col _ (fun x => holds (CRange lo hi (p_excl p)) x)).
    + simpl. now rewrite le_null_r.
    + intros Hnn. simpl. destruct (get r col) eqn:E; try congruence; simpl in Ht;
        apply andb_true_iff in Ht; destruct Ht as [H1 H2];
        rewrite (py_le_comparable _ _ H1);
        (destruct (le lo _); simpl; [|reflexivity]);
        (destruct (p_excl p); [now rewrite (py_lt_comparable _ _ H2) | now rewrite (py_le_comparable _ _ H2)]).
  - (* min *)
    unfold do_min; simpl.
    destruct (given (p_value p)) as [v|]; [|discriminate].
    inversion Hd; subst c; clear Hd.
    apply filter_res_ok. intros r Hr. specialize (Ht r Hr).
    apply (not_none_and_ok col _ (fun x => holds (CMin v) x)).
    + simpl. now rewrite le_null_r.
    + intros Hnn. simpl. destruct (get r col) eqn:E; try congruence; simpl in Ht; now rewrite (py_le_comparable _ _ Ht).
  - (* max *)
    unfold do_max; simpl.
    destruct (given (p_max p)) as [hi|].
    + destruct (given (p_min p)); [discriminate|].
      inversion Hd; subst c; clear Hd.
      apply filter_res_ok. intros r Hr. specialize (Ht r Hr).
      apply (not_none_and_ok col _ (fun x => holds (CMax hi (p_excl p)) x)).
      * simpl. rewrite le_null_l, lt_null_l. now destruct (p_excl p).
      * intros Hnn. simpl. destruct (get r col) eqn:E; try congruence; simpl in Ht;
          (destruct (p_excl p); [now rewrite (py_lt_comparable _ _ Ht) | now rewrite (py_le_comparable _ _ Ht)]).
    + destruct (given (p_value p)) as [v|]; [|discriminate].
      inversion Hd; subst c; clear Hd.
      apply filter_res_ok. intros r Hr. specialize (Ht r Hr).
      apply (not_none_and_ok col _ (fun x => holds (CMax v false) x)).
      * simpl. now rewrite le_null_l.
      * intros Hnn. simpl. destruct (get r col) eqn:E; try congruence; simpl in Ht; now rewrite (py_le_comparable _ _ Ht).
  - (* equal *)
    unfold do_equal; simpl.
    destruct (given (p_value p)) as [v|]; [|discriminate].
    inversion Hd; subst c; clear Hd.
    apply filter_res_ok. reflexivity.
  - (* regex *)
    unfold do_regex; simpl.
    destruct (given (p_value p)) as [[| | |s]|]; try discriminate.
    destruct (parse_pat s) as [pt|]; [|discriminate].
    inversion Hd; subst c; clear Hd.
    apply filter_res_ok. intros r Hr. specialize (Ht r Hr).
    apply (not_none_and_ok col _ (fun x => holds (CRegex pt) x)).
    + reflexivity.
    + intros Hnn. simpl. destruct (get r col) eqn:E; try congruence; simpl in *; try reflexivity; discriminate.
  - (* categorical inclusion *)
    unfold do_in; simpl.
    destruct (p_values p) as [vs|]; [|discriminate].
    inversion Hd; subst c; clear Hd.
    apply filter_res_ok. reflexivity.
  - discriminate.
Qed.

Lemma sat_denote : forall f c r, denote f = Some c -> sat f r = holds c (get r (f_col f)).
Proof. intros f c r H; unfold sat; now rewrite H. Qed.

Lemma pydict_filter_refines_l : forall f t, fineb f t = true -> do_filter t f = Ok (filter (sat f) t).
Proof.
  intros f t H. unfold fineb in H. destruct (denote f) as [c|] eqn:Hd; [|discriminate].
  rewrite (do_filter_refines_l f c t Hd H). f_equal. apply filter_ext. intros r. now rewrite (sat_denote f c r Hd).
Qed.

Lemma fineb_filter : forall f q t, fineb f t = true -> fineb f (filter q t) = true.
Proof.
  intros f q t; unfold fineb. destruct (denote f); [apply typedb_filter | auto].
Qed.

(* ---------- several filters: conjunction ---------- *)
Lemma apply_list_conj_l : forall names fs t,
  (forall f, In f fs -> applicable names f = true -> fineb f t = true) ->
  apply_list names fs t = Ok (expected names fs t).
Proof.
  unfold expected. induction fs as [|f fs IH]; intros t H; simpl.
  - f_equal. induction t as [|r t IHt]; simpl; [reflexivity | now rewrite <- IHt].
  - destruct (applicable names f) eqn:Ha; simpl.
    + rewrite (pydict_filter_refines_l f t (H f (or_introl eq_refl) Ha)).
      rewrite IH.
      * rewrite filter_filter. f_equal. apply filter_ext. intros r. unfold sat_all; simpl. now rewrite Ha.
      * intros g Hg Hag. apply fineb_filter. apply H; [now right | exact Hag].
    + rewrite IH by (intros g Hg Hag; apply H; [now right | exact Hag]).
      f_equal. apply filter_ext. intros r. unfold sat_all; simpl. now rewrite Ha.
Qed.

Lemma forallb_perm : forall (A : Type) (p : A -> bool) l l', Permutation l l' -> forallb p l = forallb p l'.
Proof.
  induction 1; simpl; try congruence.
  - destruct (p x), (p y); reflexivity.
Qed.

Lemma expected_perm : forall names fs fs' t, Permutation fs fs' -> expected names fs t = expected names fs' t.
Proof.
  intros names fs fs' t H. unfold expected. apply filter_ext. intros r. unfold sat_all. now apply forallb_perm.
Qed.

Lemma apply_list_perm_l : forall names fs fs' t,
  Permutation fs fs' ->
  (forall f, In f fs -> applicable names f = true -> fineb f t = true) ->
  apply_list names fs t = apply_list names fs' t.
Proof.
  intros names fs fs' t HP H.
  rewrite (apply_list_conj_l names fs t H).
  rewrite (apply_list_conj_l names fs' t).
  - now rewrite (expected_perm names fs fs' t HP).
  - intros f Hf. apply H. eapply Permutation_in; [apply Permutation_sym; exact HP | exact Hf].
Qed.

(* ---------- scope ---------- *)
Lemma applicable_false_iff : forall names f, applicable names f = false <-> ~ In (f_col f) names.
Proof.
  intros names f. unfold applicable. split.
  - intros H Hin. assert (existsb (String.eqb (f_col f)) names = true) as E.
    { apply existsb_exists. exists (f_col f). split; [exact Hin | apply String.eqb_refl]. }
    congruence.
  - intros H. destruct (existsb (String.eqb (f_col f)) names) eqn:E; [|reflexivity].
    apply existsb_exists in E. destruct E as [x [Hx Hx']]. apply String.eqb_eq in Hx'. subst x. contradiction.
Qed.

Lemma apply_list_scope_l : forall names fs t,
  (forall f, In f fs -> ~ In (f_col f) names) -> apply_list names fs t = Ok t.
Proof.
  induction fs as [|f fs IH]; intros t H; simpl; [reflexivity|].
  assert (applicable names f = false) as E by (apply applicable_false_iff; apply H; now left).
  rewrite E. apply IH. intros g Hg. apply H. now right.
Qed.

Lemma apply_single_filters_scope_l : forall names ofs t,
  (forall fs f, ofs = Some fs -> In f fs -> ~ In (f_col f) names) -> apply_single_filters names ofs t = Ok t.
Proof.
  intros names [fs|] t H; simpl; [|reflexivity].
  apply apply_list_scope_l. intros f Hf. now apply (H fs).
Qed.

(* an inapplicable filter does not influence the result, whatever it is (even malformed or ill-typed) *)
Lemma apply_list_skip_l : forall names f fs t, ~ In (f_col f) names -> apply_list names (f :: fs) t = apply_list names fs t.
Proof. intros names f fs t H; simpl. apply applicable_false_iff in H. now rewrite H. Qed.

(* ---------- unconditional: the engine only ever drops rows ---------- *)
Lemma do_filter_sub_l : forall f t t', do_filter t f = Ok t' -> exists q, t' = filter q t.
Proof.
  intros [col ft p] t t'. unfold do_filter; simpl.
  destruct ft; simpl; unfold do_range, do_min, do_max, do_equal, do_regex, do_in; simpl;
    repeat match goal with
           | |- context [match ?x with _ => _ end] =>
               match x with
               | given _ => destruct x as [[]|]
               | p_values _ => destruct x
               | parse_pat _ => destruct x
               end
           end; intros H; try discriminate; eexists; eapply filter_res_sub; exact H.
Qed.

Lemma apply_list_sub_l : forall names fs t t', apply_list names fs t = Ok t' -> exists q, t' = filter q t.
Proof.
  induction fs as [|f fs IH]; simpl; intros t t' H.
  - inversion H; subst. exists (fun _ => true). induction t' as [|r t' IHt]; simpl; [reflexivity | now rewrite <- IHt].
  - destruct (applicable names f).
    + destruct (do_filter t f) as [t1|] eqn:E; [|discriminate].
      destruct (do_filter_sub_l _ _ _ E) as [q1 ->].
      destruct (IH _ _ H) as [q2 ->]. rewrite filter_filter. eexists; reflexivity.
    + now apply IH.
Qed.

(* ---------- malformed parameter dicts are rejected before any row is looked at ---------- *)
Lemma malformed_rejected_l : forall f t,
  denote f = None -> f_type f <> FRegex ->
  do_filter t f = Err (match f_type f with FCustom => NotImplementedError | _ => ValueError end).
Proof.
  intros [col ft p] t Hd Hr. unfold denote in Hd. unfold do_filter. simpl in *.
  revert Hd.
  destruct ft; simpl in *; try congruence;
    unfold do_range, do_min, do_max, do_equal, do_in; simpl;
    repeat match goal with
           | |- context [given ?x] => destruct (given x); simpl
           | |- context [p_values ?x] => destruct (p_values x); simpl
           end; intros Hd; try discriminate; reflexivity.
Qed.

(* ---------- facts about the predicate itself ---------- *)
Lemma null_fails_order_l : forall c,
  match c with CRange _ _ _ | CMin _ | CMax _ _ | CRegex _ => holds c VNull = false | _ => True end.
Proof.
  destruct c; simpl; auto.
  - now rewrite le_null_r.
  - now rewrite le_null_r.
  - rewrite lt_null_l, le_null_l. now destruct excl.
Qed.

Lemma null_fails_equal_l : forall v, v <> VNull -> holds (CEqual v) VNull = false.
Proof. intros v H; simpl. destruct v; try reflexivity; congruence. Qed.

Lemma range_lower_inclusive_l : forall lo hi excl, vcmp lo hi = Some Lt -> holds (CRange lo hi excl) lo = true.
Proof.
  intros lo hi excl H. simpl. unfold le, lt. destruct (vcmp_refl _ _ _ H) as [-> _]. rewrite H. now destruct excl.
Qed.

Lemma range_upper_flag_l : forall lo hi excl, le lo hi = true -> holds (CRange lo hi excl) hi = negb excl.
Proof.
  intros lo hi excl H. simpl. rewrite H. unfold le in H. destruct (vcmp lo hi) as [c|] eqn:E; [|discriminate].
  unfold le, lt. destruct (vcmp_refl _ _ _ E) as [_ ->]. now destruct excl.
Qed.

Lemma min_max_inclusive_l : forall v c, vcmp v v = Some c -> holds (CMin v) v = true /\ holds (CMax v false) v = true /\ holds (CMax v true) v = false.
Proof.
  intros v c H. simpl. unfold le, lt. destruct (vcmp_refl _ _ _ H) as [-> _]. auto.
Qed.

(* ---------- PyArrow regex (search semantics) against the predicate ---------- *)
Lemma prefix_len_eqb : forall l s, prefix l s && Nat.eqb (String.length s) (String.length l) = String.eqb s l.
Proof.
  induction l as [|a l IH]; destruct s as [|b s]; simpl; try reflexivity.
  - destruct (ascii_dec a b) as [->|Hn].
    + rewrite Ascii.eqb_refl. apply IH.
    + assert (Ascii.eqb b a = false) as -> by (apply Ascii.eqb_neq; congruence). reflexivity.
Qed.

Lemma search_anchored_l : forall p s, caret p = true -> search p s = matches p s.
Proof.
  intros [c l d] s H; simpl in *. subst c. unfold search, matches; simpl.
  destruct d; simpl.
  - now rewrite prefix_len_eqb.
  - now rewrite andb_true_r.
Qed.

(* the PyArrow regex filter keeps exactly the rows the predicate keeps, for every pattern of the family *)
Lemma arrow_regex_refines_l : forall p s, arrow_regex_holds p (VStr s) = holds (CRegex p) (VStr s).
Proof.
  intros p s. simpl. unfold arrow_matches, anchored.
  destruct (caret p) eqn:E.
  - now apply search_anchored_l.
  - rewrite search_anchored_l by reflexivity. reflexivity.
Qed.

Lemma arrow_regex_null_l : forall p, arrow_regex_holds p VNull = holds (CRegex p) VNull.
Proof. reflexivity. Qed.

(* why the anchoring matters: plain search semantics (the engine before d2087b7) is a different predicate *)
Definition wit_pat : pattern := {| caret := false; lit := "a"; dollar := false |}.
Lemma search_differs_l : search wit_pat "ba" = true /\ holds (CRegex wit_pat) (VStr "ba") = false /\ arrow_regex_holds wit_pat (VStr "ba") = false.
Proof. vm_compute. auto. Qed.

(* ---------- exported plans: the glue condition is sufficient ---------- *)
Lemma value_eqb_eq : forall a b, value_eqb a b = true -> a = b.
Proof.
  destruct a, b; simpl; intros H; try discriminate; try reflexivity.
  - apply Z.eqb_eq in H. now subst.
  - apply andb_true_iff in H. destruct H as [H1 H2]. apply Z.eqb_eq in H1. apply Nat.eqb_eq in H2. now subst.
  - apply String.eqb_eq in H. now subst.
Qed.
Lemma ovalue_eqb_eq : forall a b, ovalue_eqb a b = true -> a = b.
Proof. destruct a, b; simpl; intros H; try discriminate; try reflexivity. now rewrite (value_eqb_eq _ _ H). Qed.
Lemma values_eqb_eq : forall a b, values_eqb a b = true -> a = b.
Proof.
  induction a as [|x a IH]; destruct b as [|y b]; simpl; intros H; try discriminate; try reflexivity.
  apply andb_true_iff in H. destruct H as [H1 H2]. now rewrite (value_eqb_eq _ _ H1), (IH _ H2).
Qed.
Lemma ovalues_eqb_eq : forall a b, ovalues_eqb a b = true -> a = b.
Proof. destruct a, b; simpl; intros H; try discriminate; try reflexivity. now rewrite (values_eqb_eq _ _ H). Qed.
Lemma filt_eqb_eq : forall f g, filt_eqb f g = true -> f = g.
Proof.
  intros [c1 t1 [v1 vs1 mn1 mx1 e1]] [c2 t2 [v2 vs2 mn2 mx2 e2]]. unfold filt_eqb, params_eqb; simpl. intros H.
  apply andb_true_iff in H. destruct H as [H Hp]. apply andb_true_iff in H. destruct H as [Hc Ht].
  apply andb_true_iff in Hp. destruct Hp as [Hp He]. apply andb_true_iff in Hp. destruct Hp as [Hp Hmx].
  apply andb_true_iff in Hp. destruct Hp as [Hp Hmn]. apply andb_true_iff in Hp. destruct Hp as [Hv Hvs].
  apply String.eqb_eq in Hc. subst c2.
  assert (t1 = t2) by (destruct t1, t2; simpl in *; try discriminate; reflexivity). subst t2.
  rewrite (ovalue_eqb_eq v1 v2 Hv), (ovalues_eqb_eq vs1 vs2 Hvs), (ovalue_eqb_eq mn1 mn2 Hmn), (ovalue_eqb_eq mx1 mx2 Hmx).
  now rewrite (eqb_prop e1 e2 He).
Qed.
Lemma memf_in : forall f l, memf f l = true -> In f l.
Proof.
  intros f l H. unfold memf in H. apply existsb_exists in H. destruct H as [g [Hg He]].
  now rewrite (filt_eqb_eq _ _ He).
Qed.

Lemma glue_okb_sound_l : forall cols names fsS fs, glue_okb cols names fsS fs = true ->
  (forall f, In f fsS -> In f fs /\ applicable cols f = true) /\
  (forall f, In f fs -> applicable cols f = true -> In f fsS) /\
  (forall f, In f fsS -> applicable names f = true).
Proof.
  intros cols names fsS fs H. unfold glue_okb in H.
  apply andb_true_iff in H. destruct H as [H H3]. apply andb_true_iff in H. destruct H as [H1 H2].
  rewrite forallb_forall in H1, H2, H3. repeat split.
  - specialize (H1 f H). apply andb_true_iff in H1. apply memf_in. tauto.
  - specialize (H1 f H). apply andb_true_iff in H1. tauto.
  - intros f Hf Ha. specialize (H2 f Hf). rewrite Ha in H2. simpl in H2. now apply memf_in.
  - exact H3.
Qed.

Lemma glue_sufficient_l : forall cols names fsS fs t,
  glue_okb cols names fsS fs = true ->
  (forall f, In f fsS -> fineb f t = true) ->
  apply_single_filters names (Some fsS) t = Ok (expected cols fs t).
Proof.
  intros cols names fsS fs t Hg Hf.
  destruct (glue_okb_sound_l _ _ _ _ Hg) as (G1 & G2 & G3).
  simpl. rewrite apply_list_conj_l by (intros f Hin _; now apply Hf).
  unfold expected. f_equal. apply filter_ext. intros r.
  apply eq_true_iff_eq. unfold sat_all. rewrite !forallb_forall. split; intros H f Hin.
  - destruct (applicable cols f) eqn:Ha; [|reflexivity]. simpl.
    pose proof (G2 f Hin Ha) as HinS. specialize (H f HinS). now rewrite (G3 f HinS) in H.
  - destruct (G1 f Hin) as [Hfs Ha]. specialize (H f Hfs). rewrite Ha in H. simpl in H. rewrite H. apply orb_true_r.
Qed.

(* and necessary in this sense: a step whose feature names lack the column of an effective filter returns rows the
   predicate rejects (what happens when the filter feature lands in another feature set) *)
Lemma glue_skip_refutes_l :
  let f := {| f_col := "c"%string; f_type := FMin; f_par := {| p_value := Some (VInt 2); p_values := None; p_min := None; p_max := None; p_excl := false |} |} in
  let t := [[("id"%string, VInt 0); ("c"%string, VInt 1)]; [("id"%string, VInt 1); ("c"%string, VInt 2)]] in
  glue_okb ["id"%string; "c"%string] ["id"%string] [f] [f] = false /\
  apply_single_filters ["id"%string] (Some [f]) t = Ok t /\ expected ["id"%string; "c"%string] [f] t <> t.
Proof. vm_compute. repeat split. discriminate. Qed.
