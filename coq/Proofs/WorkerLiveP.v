(* Two facts about what the protocol (Model/Worker.v) never does:
   (a) a step result that wait_for_drop_completion took from a result queue and put back (ORequeue) stays in the worker's
       put-back lane until a poll takes it - in particular a timed-out wait (OTimeout) keeps it;
   (b) a worker only ends by a failure of its step, a crash in its drop path, its last drop, or terminate() (and, THREADING,
       by finishing its one step): there is no transition by which an idle worker gives up waiting for a command. *)
From Coq Require Import List Bool Arith Lia.
Import ListNotations.
Require Import MV.Model.Orch MV.Proofs.OrchP MV.Model.Worker MV.Spec.WorkerSpec MV.Proofs.WorkerP MV.Proofs.WorkerStaleP.

Lemma take_msg_requeued : forall x m y s, take_msg x m = Some y -> In s (requeued x) -> In s (requeued y) \/ m = RDone s.
Proof.
  intros x m y s T Hs. unfold take_msg in T.
  assert (R : match m with RDone s' => if mem s' (requeued x) then Some (set_resq x (resq x) (remove1 s' (requeued x))) else None
                         | RDropComplete => None end = Some y -> In s (requeued y) \/ m = RDone s).
  { destruct m as [s'|]; [|discriminate]. destruct (mem s' (requeued x)); [|discriminate]. intros E. inv_some E. cbn.
    destruct (Nat.eq_dec s s') as [->|Ne]; [right; reflexivity | left; apply remove1_other; assumption]. }
  destruct (resq x) as [|h r]; [apply R, T|]. destruct (rmsg_eqb h m); [inv_some T; left; exact Hs | apply R, T].
Qed.

Lemma poll_requeued : forall taken f a f' a' w s, poll f a taken = Some (f', a') -> In s (requeued (f w)) ->
  In s (requeued (f' w)) \/ In (w, RDone s) taken.
Proof.
  induction taken as [|[w' m] t IH]; intros f a f' a' w s P Hs; cbn in P.
  - inversion P; subst. left. exact Hs.
  - destruct (spawned (phase (f w'))); [|discriminate]. destruct (take_msg (f w') m) as [x|] eqn:T; [|discriminate].
    destruct (Nat.eq_dec w w') as [->|Ne].
    + destruct (take_msg_requeued _ _ _ s T Hs) as [Y| ->]; [|right; left; reflexivity].
      destruct (IH _ _ _ _ w' s P) as [Z|Z]; [rewrite upd_same; exact Y | left; exact Z | right; right; exact Z].
    + destruct (IH _ _ _ _ w s P) as [Z|Z]; [rewrite upd_other by exact Ne; exact Hs | left; exact Z | right; right; exact Z].
Qed.

Section Live.
  Variable c : cfg.
  Notation p := (cplan c).

  Ltac des S := repeat (dm S; try discriminate S).

  (* ---------------------------------------------------------------------------------------------------------------- *)
  (* (a) *)
  Lemma upd_requeued : forall f w x k s, (In s (requeued (f w)) -> In s (requeued x)) -> In s (requeued (f k)) -> In s (requeued (upd f w x k)).
  Proof. intros f w x k s H X. unfold upd. destruct (Nat.eqb k w) eqn:E; [apply Nat.eqb_eq in E; subst; apply H, X | exact X]. Qed.

  Lemma step_requeued : plan_ok p -> forall st, reach c st -> forall l st', step c st l = Some st' ->
    forall w s, In s (requeued (ws st w)) -> In s (requeued (ws st' w)) \/ exists taken, l = OPoll taken /\ In (w, RDone s) taken.
  Proof.
    intros Hp st R l st' S w s Hs. pose proof (reach_SInv c Hp st R) as H. unfold SInv in H.
    assert (Hi : In s (infl (ws st w))) by (unfold infl; apply in_or_app; right; exact Hs).
    assert (Hmp : mp c = true).
    { destruct (mp c) eqn:Em; [reflexivity|]. rewrite (proj2 (k_thr _ _ _ _ _ H Em) w) in Hi. destruct Hi. }
    assert (Hsp : spawned (phase (ws st w)) = true).
    { destruct (spawned (phase (ws st w))) eqn:E; [reflexivity|]. rewrite (proj2 (k_unspawned _ _ _ _ _ H w E)) in Hi. destruct Hi. }
    destruct l; cbn in S.
    - des S; inv_some S; left; exact Hs.
    - des S; inv_some S; left; exact Hs.
    - (* OPoll *)
      destruct (pc st); try discriminate S. destruct (nth_error p i); [|discriminate S].
      destruct (_ && _ && _ && _); [|discriminate S]. destruct (poll (ws st) (o st) taken) as [[f a']|] eqn:P; [|discriminate S].
      inv_some S. cbn. destruct (poll_requeued _ _ _ _ _ w s P Hs) as [Y|Y]; [left; exact Y | right; exists taken; split; [reflexivity | exact Y]].
    - des S; inv_some S; left; cbn; try exact Hs; apply upd_requeued; auto.
    - des S; inv_some S; left; cbn. apply upd_requeued; [|exact Hs]. cbn. intros X. right. exact X.
    - des S; inv_some S; left; cbn. apply upd_requeued; auto.
    - des S; inv_some S; left; exact Hs.
    - (* OExec *)
      destruct (pc st); try discriminate S. destruct (nth_error p i) as [s0|]; [|discriminate S].
      destruct (_ && _ && _); [|discriminate S]. destruct ok; [|inv_some S; left; exact Hs].
      unfold submit in S. rewrite Hmp in S. destruct (spawned (phase (ws st (wof c (sid s0))))) eqn:E; inv_some S; left; cbn.
      + apply upd_requeued; auto.
      + unfold upd. destruct (Nat.eqb w (wof c (sid s0))) eqn:E'; [|exact Hs]. apply Nat.eqb_eq in E'. subst w. congruence.
    - des S; inv_some S; left; exact Hs.
    - des S; inv_some S; left; exact Hs.
    - des S; inv_some S; left; exact Hs.
    - des S; inv_some S; left; exact Hs.
    - des S; inv_some S; left; cbn. apply upd_requeued; auto.
    - des S; inv_some S; left; cbn; apply upd_requeued; auto.
    - des S; inv_some S; left; exact Hs.
    - des S; inv_some S; left; exact Hs.
    - des S; inv_some S; left; cbn; apply upd_requeued; auto.
    - des S; inv_some S; left; exact Hs.
    - des S; inv_some S; left; cbn; apply upd_requeued; auto.
    - des S; inv_some S; left; cbn; apply upd_requeued; auto; destruct (mp c); auto.
    - des S; inv_some S; left; cbn; apply upd_requeued; auto.
    - des S; inv_some S; left; cbn; apply upd_requeued; auto.
    - (* OSendFail *)
      des S; inv_some S; left; cbn; try exact Hs.
      unfold upd. destruct (Nat.eqb w (wof c (sid s0))) eqn:E'; [|exact Hs]. apply Nat.eqb_eq in E'. subst w. congruence.
    - des S; inv_some S; left; exact Hs.
  Qed.

  Lemma exec_requeued : plan_ok p -> forall tr st st', reach c st -> exec c st tr = Some st' ->
    forall w s, In s (requeued (ws st w)) ->
    In s (requeued (ws st' w)) \/ exists taken, In (OPoll taken) tr /\ In (w, RDone s) taken.
  Proof.
    intros Hp. induction tr as [|l tr IH]; intros st st' R E w s Hs; cbn in E; [inversion E; subst; left; exact Hs|].
    destruct (step c st l) as [st1|] eqn:S; [|discriminate].
    destruct (step_requeued Hp st R l st1 S w s Hs) as [Y|(taken & -> & Y)].
    - assert (R1 : reach c st1).
      { destruct R as [tr0 E0]. exists (tr0 ++ [l]). clear - E0 S. revert E0. generalize pinit. induction tr0 as [|l0 tr0 IH0]; intros s0 E0; cbn in *.
        - inversion E0; subst. rewrite S. reflexivity.
        - destruct (step c s0 l0); [apply IH0, E0 | discriminate]. }
      destruct (IH st1 st' R1 E w s Y) as [Z|(taken & Z1 & Z2)]; [left; exact Z | right; exists taken; split; [right; exact Z1 | exact Z2]].
    - right. exists taken. split; [left; reflexivity | exact Y].
  Qed.

  (* a timed-out wait changes the program counter and nothing else *)
  Lemma timeout_keeps_l : forall st w st', step c st (OTimeout w) = Some st' ->
    ws st' = ws st /\ o st' = o st /\ tasks st' = tasks st /\ flight st' = flight st /\ sent st' = sent st /\ replies st' = replies st /\
    exists i, pc st = PWait i w /\ pc st' = PVisit (S i).
  Proof.
    intros st w st' S. cbn in S. destruct (pc st) eqn:Epc; try discriminate S. destruct (Nat.eqb w w0) eqn:E; [|discriminate S].
    apply Nat.eqb_eq in E. subst w0. inv_some S. cbn. repeat split; auto. exists i. split; reflexivity.
  Qed.

  (* a put-back result belongs to a step that reported success and does not count as done yet: the run cannot leave the loop
     normally while it is pending *)
  Lemma requeued_pending_l : plan_ok p -> forall st, reach c st -> forall w s, In s (requeued (ws st w)) ->
    In (s, true) (replies st) /\ ~ In s (done (o st)) /\ xk (pc st) <> Some XNormal.
  Proof.
    intros Hp st R w s Hs. pose proof (reach_SInv c Hp st R) as H. unfold SInv in H.
    assert (Hi : In s (infl (ws st w))) by (unfold infl; apply in_or_app; right; exact Hs).
    destruct (k_infl _ _ _ _ _ H w s Hi) as [A B]. split; [exact A|]. split; [exact B|]. intros X.
    destruct (normal_exit_clean_l c Hp st R X) as (_ & _ & Hall).
    destruct (k_rp _ _ _ _ _ H s true A) as [w' Hw']. destruct (k_sent_started _ _ _ _ _ H w' s Hw') as [_ (t & Ht & Et)].
    apply B. rewrite <- Et. apply Hall, Ht.
  Qed.

  (* ---------------------------------------------------------------------------------------------------------------- *)
  (* (b) *)
  Definition death_cause (w : nat) (l : label) : Prop :=
    match l with
    | WFail w' _ | WDropCrash w' | WDropAck w' true _ | OTerminate w' => w' = w
    | WDone w' => w' = w /\ mp c = false
    | _ => False
    end.

  (* "STOP" is only ever put by a worker that is ending *)
  Definition StopInv (st : pst) : Prop := forall w, In CStop (cmdq (ws st w)) -> dead (phase (ws st w)) = true.

  Lemma StopInv_upd : forall st f w x, StopInv st -> f = ws st -> (In CStop (cmdq x) -> dead (phase x) = true) ->
    forall k, In CStop (cmdq (upd f w x k)) -> dead (phase (upd f w x k)) = true.
  Proof. intros st f w x H -> Hx k. unfold upd. destruct (Nat.eqb k w); [exact Hx | apply H]. Qed.

  Lemma step_StopInv : forall st l st', StopInv st -> step c st l = Some st' -> StopInv st'.
  Proof.
    intros st l st' H S. unfold StopInv. destruct l; cbn in S.
    - des S; inv_some S; exact H.
    - des S; inv_some S; exact H.
    - (* OPoll *)
      destruct (pc st); try discriminate S. destruct (nth_error p i); [|discriminate S].
      destruct (_ && _ && _ && _); [|discriminate S]. destruct (poll (ws st) (o st) taken) as [[f a']|] eqn:P; [|discriminate S].
      inv_some S. cbn. intros w X. destruct (proj2 (poll_shape _ _ _ _ _ P) w) as (E1 & E2 & _). rewrite E1. apply H. rewrite <- E2. exact X.
    - des S; inv_some S; cbn; try exact H. apply (StopInv_upd st); auto. cbn. intros X. apply in_app_or in X. destruct X as [X|[X|[]]]; [apply H, X | discriminate X].
    - des S; inv_some S; cbn. apply (StopInv_upd st); auto. cbn. apply H.
    - des S; inv_some S; cbn. apply (StopInv_upd st); auto. cbn. apply H.
    - des S; inv_some S; exact H.
    - (* OExec *)
      destruct (pc st); try discriminate S. destruct (nth_error p i) as [s0|]; [|discriminate S].
      destruct (_ && _ && _); [|discriminate S]. destruct ok; [|inv_some S; exact H].
      unfold submit in S. destruct (mp c).
      + destruct (spawned (phase (ws st (wof c (sid s0))))); inv_some S; cbn; apply (StopInv_upd st); auto; cbn.
        * intros X. apply in_app_or in X. destruct X as [X|[X|[]]]; [apply H, X | discriminate X].
        * intros [X|[]]. discriminate X.
      + inv_some S; cbn; apply (StopInv_upd st); auto; cbn; try (intros []).
    - des S; inv_some S; exact H.
    - des S; inv_some S; exact H.
    - des S; inv_some S; exact H.
    - des S; inv_some S; exact H.
    - des S; inv_some S; cbn. apply (StopInv_upd st); auto. cbn. intros X. pose proof (H _ X) as D. destruct (phase (ws st w)); cbn in *; auto.
    - des S; inv_some S; cbn; apply (StopInv_upd st); auto; cbn; apply H.
    - des S; inv_some S; exact H.
    - des S; inv_some S; exact H.
    - (* WTake *)
      destruct (phase (ws st w)) eqn:Eph; try discriminate S. destruct (cmdq (ws st w)) as [|cm t] eqn:Eq; [discriminate S|]. inv_some S. cbn.
      apply (StopInv_upd st); auto. cbn. intros X. exfalso. assert (Y : In CStop (cmdq (ws st w))) by (rewrite Eq; right; exact X).
      pose proof (H _ Y) as D. rewrite Eph in D. discriminate D.
    - des S; inv_some S; exact H.
    - (* WDone *)
      destruct (phase (ws st w)) eqn:Eph; try discriminate S. destruct (wfail c s); [discriminate S|].
      destruct (mp c); inv_some S; cbn; apply (StopInv_upd st); auto; cbn; intros X; try reflexivity;
        pose proof (H _ X) as D; rewrite Eph in D; discriminate D.
    - (* WFail *) des S; inv_some S; cbn; apply (StopInv_upd st); auto.
    - (* WDropAck *)
      destruct (phase (ws st w)) eqn:Eph; try discriminate S. destruct (_ && _); [|discriminate S].
      destruct last; inv_some S; cbn; apply (StopInv_upd st); auto; cbn; intros X; try reflexivity;
        pose proof (H _ X) as D; rewrite Eph in D; discriminate D.
    - (* WDropCrash *) des S; inv_some S; cbn; apply (StopInv_upd st); auto.
    - (* OSendFail *) des S; inv_some S; cbn; try exact H. apply (StopInv_upd st); auto; cbn; try (intros []).
    - des S; inv_some S; exact H.
  Qed.

  Lemma reach_StopInv : forall st, reach c st -> StopInv st.
  Proof.
    intros st [tr E].
    assert (G : forall tr' st0 st1, StopInv st0 -> exec c st0 tr' = Some st1 -> StopInv st1).
    { clear E. induction tr' as [|l tr' IH]; intros st0 st1 D0 E; cbn in E; [inversion E; subst; exact D0|].
      destruct (step c st0 l) as [st2|] eqn:S; [|discriminate]. eapply IH; [eapply step_StopInv; eauto | exact E]. }
    apply (G tr pinit st); [intros w [] | exact E].
  Qed.

  Lemma upd_dead : forall f w x k, dead (phase (f k)) = false -> dead (phase (upd f w x k)) = true -> k = w /\ dead (phase x) = true.
  Proof. intros f w x k A B. unfold upd in B. destruct (Nat.eqb k w) eqn:E; [apply Nat.eqb_eq in E; auto | congruence]. Qed.

  Lemma death_causes_l : forall st, reach c st -> forall l st' w, step c st l = Some st' ->
    dead (phase (ws st w)) = false -> dead (phase (ws st' w)) = true -> death_cause w l.
  Proof.
    intros st R l st' w S A B. pose proof (reach_StopInv st R) as HS. unfold death_cause. destruct l; cbn in S.
    - des S; inv_some S; cbn in B; congruence.
    - des S; inv_some S; cbn in B; congruence.
    - (* OPoll *)
      destruct (pc st); try discriminate S. destruct (nth_error p i); [|discriminate S].
      destruct (_ && _ && _ && _); [|discriminate S]. destruct (poll (ws st) (o st) taken) as [[f a']|] eqn:P; [|discriminate S].
      inv_some S. cbn in B. destruct (proj2 (poll_shape _ _ _ _ _ P) w) as (E1 & _). congruence.
    - des S; inv_some S; cbn in B; try congruence. destruct (upd_dead _ _ _ _ A B) as [-> D]. cbn in D. congruence.
    - des S; inv_some S; cbn in B. destruct (upd_dead _ _ _ _ A B) as [-> D]. cbn in D. congruence.
    - des S; inv_some S; cbn in B. destruct (upd_dead _ _ _ _ A B) as [-> D]. cbn in D. congruence.
    - des S; inv_some S; cbn in B; congruence.
    - (* OExec *)
      destruct (pc st); try discriminate S. destruct (nth_error p i) as [s0|]; [|discriminate S].
      destruct (_ && _ && _); [|discriminate S]. destruct ok; [|inv_some S; cbn in B; congruence].
      unfold submit in S. des S; inv_some S; cbn in B; destruct (upd_dead _ _ _ _ A B) as [-> D]; cbn in D; congruence.
    - des S; inv_some S; cbn in B; congruence.
    - des S; inv_some S; cbn in B; congruence.
    - des S; inv_some S; cbn in B; congruence.
    - des S; inv_some S; cbn in B; congruence.
    - (* OTerminate *) des S; inv_some S; cbn in B. destruct (upd_dead _ _ _ _ A B) as [-> _]. reflexivity.
    - (* OJoin *) des S; inv_some S; cbn in B; destruct (upd_dead _ _ _ _ A B) as [-> D]; cbn in D; congruence.
    - des S; inv_some S; cbn in B; congruence.
    - des S; inv_some S; cbn in B; congruence.
    - (* WTake *)
      destruct (phase (ws st w0)) eqn:Eph; try discriminate S. destruct (cmdq (ws st w0)) as [|cm t] eqn:Eq; [discriminate S|]. inv_some S. cbn in B.
      destruct (upd_dead _ _ _ _ A B) as [-> D]. cbn in D. destruct cm; cbn in D; try discriminate D.
      exfalso. assert (Y : In CStop (cmdq (ws st w0))) by (rewrite Eq; left; reflexivity). pose proof (HS _ Y) as D'. rewrite Eph in D'. discriminate D'.
    - des S; inv_some S; cbn in B; congruence.
    - (* WDone *)
      destruct (phase (ws st w0)) eqn:Eph; try discriminate S. destruct (wfail c s); [discriminate S|].
      destruct (mp c) eqn:Em; inv_some S; cbn in B; destruct (upd_dead _ _ _ _ A B) as [-> D]; cbn in D; [discriminate D | split; reflexivity].
    - (* WFail *) des S; inv_some S; cbn in B; destruct (upd_dead _ _ _ _ A B) as [-> _]; reflexivity.
    - (* WDropAck *)
      destruct (phase (ws st w0)) eqn:Eph; try discriminate S. destruct (_ && _); [|discriminate S].
      destruct last; inv_some S; cbn in B; destruct (upd_dead _ _ _ _ A B) as [-> D]; [reflexivity | cbn in D; discriminate D].
    - (* WDropCrash *) des S; inv_some S; cbn in B; destruct (upd_dead _ _ _ _ A B) as [-> _]; reflexivity.
    - (* OSendFail *) des S; inv_some S; cbn in B; try congruence. destruct (upd_dead _ _ _ _ A B) as [-> D]. cbn in D. discriminate D.
    - des S; inv_some S; cbn in B; congruence.
  Qed.

End Live.
