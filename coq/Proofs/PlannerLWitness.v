(* Concrete, kernel-checked witnesses (vm_compute) for what the faithful planner model does NOT guarantee: order-dependent
   join order / run-time lookup ids / rejection reason / dropped joins, the LEFT table flipped against the Link, RIGHT not
   honoured, and two request shapes that prepare() refuses although they are ordinary requests. *)
From Coq Require Import List Bool Arith String ZArith.
Import ListNotations.
Require Import MV.Model.Orch MV.Model.OrchCheck MV.Model.PlannerA MV.Model.LinkSel MV.Model.PlannerL MV.Model.PlannerLRun.
Require Import MV.Spec.PlannerASpec MV.Spec.PlannerLSpec MV.Spec.PlannerLJoinSpec.
Require MV.Spec.Rel.
Open Scope nat_scope.
Open Scope string_scope.
Open Scope list_scope.

Definition ord_rev : oparam := fun _ l => rev l.
Lemma ord_rev_ok : ord_ok ord_rev.
Proof. intros k l. unfold ord_rev. apply Permutation.Permutation_sym. apply Permutation.Permutation_rev. Qed.
Lemma ord_id_ok : ord_ok ord_id.
Proof. intros k l. apply Permutation.Permutation_refl. Qed.

Definition mkl (u : nat) (j : jointype) (a b : nat) : plink :=
  {| pl_uid := u; pl_l := {| jt := j; lfg := a; rfg := b; lidx := ["k"]; ridx := ["k"] |} |}.

(* ---------- W1: three roots R0, R1, R2 on ONE framework, Links LEFT(R0,R1) and INNER(R1,R2), consumer over all ---------- *)
Definition rs3 : list sroot :=
  [ {| sr_id := 0; sr_grp := 1; sr_cfw := 1 |}; {| sr_id := 2; sr_grp := 2; sr_cfw := 1 |}; {| sr_id := 4; sr_grp := 3; sr_cfw := 1 |} ].
Definition g3 : fgraph := star_g rs3 7 4 1 [0; 2; 4].
Definition links3 : list plink := [mkl 100 LEFT 1 2; mkl 104 INNER 2 3].

Definition join_uids (r : lresult) : list nat :=
  match r with LPlanned p => flat_map (fun x => match x with LJOIN _ u _ _ _ _ => [u] | _ => [] end) p | _ => [] end.
Definition lookup_ids (r : lresult) : list (list nat * list nat * nat) :=
  match r with LPlanned p => flat_map (fun x => match x with LFG s _ _ _ tfs any => match tfs with [] => [] | _ => [(uuids s, tfs, any)] end | _ => [] end) p | _ => [] end.

Definition row1 (c : string) (k v : Z) : MV.Spec.Rel.row := [("k", MV.Spec.Rel.VInt k); (c, MV.Spec.Rel.VInt v)].
Definition T0 : table := [row1 "a" 1 10; row1 "a" 2 20].
Definition T1 : table := [row1 "b" 1 11].
Definition T2 : table := [row1 "c" 1 12; row1 "c" 2 22].
Definition s03 : store := [(0, T0); (2, T1); (4, T2)].
(* the table the consumer (which looks up its tfs id) computes on when the JoinSteps run in plan order *)
Definition consumer_table (ord : oparam) (links : list plink) (s0 : store) (r : lresult) : option table :=
  match r with
  | LPlanned p =>
    match rt_run (objs_of_plan p) (joins_of_plan ord links p) s0, lookup_ids r with
    | Some st, (_, t :: _, _) :: _ => rt_read (objs_of_plan p) st t
    | _, _ => None
    end
  | _ => None
  end.

(* the order of the JoinSteps in the plan depends on the iteration order of Python sets ... *)
Lemma w_join_order : join_uids (prepare_L ord_id g3 mro_flat links3) = [100; 104] /\
                     join_uids (prepare_L ord_rev g3 mro_flat links3) = [104; 100].
Proof. split; vm_compute; reflexivity. Qed.
(* ... no JoinStep waits for the other one (both wait for the three roots only), so in SYNC they run in plan order ... *)
Lemma w_joins_unordered :
  match prepare_L ord_id g3 mro_flat links3 with
  | LPlanned p => forallb (fun x => match x with LJOIN s _ _ _ _ _ => set_eqb (req s) [0; 2; 4] | _ => true end) p
  | _ => false
  end = true.
Proof. vm_compute. reflexivity. Qed.
(* ... and the rows the consumer receives differ: (R0 left R1) inner R2 versus R0 left (R1 inner R2) *)
Lemma w_rows_differ :
  exists t t', consumer_table ord_id links3 s03 (prepare_L ord_id g3 mro_flat links3) = Some t /\
               consumer_table ord_rev links3 s03 (prepare_L ord_rev g3 mro_flat links3) = Some t' /\
               MV.Spec.Rel.bag_eqb t t' = false.
Proof. eexists. eexists. split; [vm_compute; reflexivity|]. split; [vm_compute; reflexivity|]. vm_compute. reflexivity. Qed.
(* the run-time lookup ids of the consumer (tfs_ids, any_uuid) differ as well: C04-nondet-fg-lookup-ids *)
Lemma w_lookup_ids : lookup_ids (prepare_L ord_id g3 mro_flat links3) = [([7], [2], 2)] /\
                     lookup_ids (prepare_L ord_rev g3 mro_flat links3) = [([7], [0], 0)].
Proof. split; vm_compute; reflexivity. Qed.

(* ---------- W3: the rejection reason depends on the order: RIGHT(R0,R1) and APPEND(R1,R2) ---------- *)
Definition links3b : list plink := [mkl 100 RIGHT 1 2; mkl 104 APPEND 2 3].
Lemma w_reject_reason : prepare_L ord_id g3 mro_flat links3b = LRejected e_right [] /\
                        prepare_L ord_rev g3 mro_flat links3b = LRejected e_appendunion [].
Proof. split; vm_compute; reflexivity. Qed.

(* ---------- W4 / W5: two roots on one framework, INNER(R0,R1); consumer shapes that prepare() refuses ---------- *)
Definition lk2 : list plink := [mkl 100 INNER 1 2].
Definition nd (u gp : nat) (ins : list nat) (rq : bool) : fnode := {| fid := u; fgrp := gp; fins := ins; freq := rq; fcfw := 1 |}.
(* f2 <- f1, f1b;  f1, f1b <- v0, v1 : reduce_children_to_one_level removes f2 twice -> KeyError *)
Definition g_diamond : fgraph := [nd 9 3 [5; 7] true; nd 5 3 [0; 2] false; nd 7 3 [0; 2] false; nd 0 1 [] false; nd 2 2 [] false].
Lemma w_diamond_keyerror : graph_okb g_diamond = true /\ prepare_L ord_id g_diamond mro_flat lk2 = LRejected e_keyerror [] /\
                           prepare_L ord_rev g_diamond mro_flat lk2 = LRejected e_keyerror [].
Proof. repeat split; vm_compute; reflexivity. Qed.
(* D1 = {g0 <- v0, f1 <- g0, v1}: every step of D1 requires the link, the join requires g0 -> the validation finds a cycle *)
Definition g_inter : fgraph := [nd 9 3 [5; 2] true; nd 5 3 [0] false; nd 0 1 [] false; nd 2 2 [] false].
Lemma w_intermediate_cycle : graph_okb g_inter = true /\ outcome_L (prepare_L ord_id g_inter mro_flat lk2) = e_cycle /\
                             outcome_L (prepare_L ord_rev g_inter mro_flat lk2) = e_cycle.
Proof. repeat split; vm_compute; reflexivity. Qed.

(* ---------- W6 / W7: two roots on two frameworks: which table is LEFT ---------- *)
Definition ra2 : sroot := {| sr_id := 0; sr_grp := 1; sr_cfw := 1 |}.
Definition rb2 : sroot := {| sr_id := 2; sr_grp := 2; sr_cfw := 2 |}.
Definition g2x (cc : nat) : fgraph := star_g [ra2; rb2] 7 4 cc [0; 2].
Definition left_of_join (r : lresult) : list (jointype * list nat * list nat) :=
  match r with LPlanned p => flat_map (fun x => match x with LJOIN _ _ _ _ l r' => [(LEFT, l, r')] | _ => [] end) p | _ => [] end.
Definition Ta : table := [row1 "a" 1 10; row1 "a" 2 20; row1 "a" 4 40].
Definition Tb : table := [row1 "b" 1 11; row1 "b" 2 21; row1 "b" 5 51].
(* Link LEFT(R0, R1), consumer on the framework of R1: the JoinStep merges (R1 as LEFT, R0 as RIGHT) with join type LEFT *)
Lemma w_left_flipped :
  left_of_join (prepare_L ord_id (g2x 2) mro_flat [mkl 100 LEFT 1 2]) = [(LEFT, [2], [0])] /\
  left_of_join (prepare_L ord_id (g2x 1) mro_flat [mkl 100 LEFT 1 2]) = [(LEFT, [0], [2])] /\
  MV.Spec.Rel.bag_eqb (MV.Spec.Rel.rel_join MV.Spec.Rel.JLeft ["k"] ["k"] Tb Ta) (MV.Spec.Rel.rel_join MV.Spec.Rel.JLeft ["k"] ["k"] Ta Tb) = false.
Proof. repeat split; vm_compute; reflexivity. Qed.
(* Link RIGHT(R0, R1): whatever the consumer's side, the JoinStep merges (R1 as LEFT, R0 as RIGHT) with join type RIGHT:
   all rows of R0 are kept instead of all rows of R1 *)
Lemma w_right_not_honoured :
  left_of_join (prepare_L ord_id (g2x 1) mro_flat [mkl 100 RIGHT 1 2]) = [(LEFT, [2], [0])] /\
  left_of_join (prepare_L ord_id (g2x 2) mro_flat [mkl 100 RIGHT 1 2]) = [(LEFT, [2], [0])] /\
  MV.Spec.Rel.bag_eqb (MV.Spec.Rel.rel_join MV.Spec.Rel.JRight ["k"] ["k"] Tb Ta) (MV.Spec.Rel.rel_join MV.Spec.Rel.JRight ["k"] ["k"] Ta Tb) = false.
Proof. repeat split; vm_compute; reflexivity. Qed.
(* ... and on ONE framework a RIGHT link is refused *)
Definition g2s : fgraph := star_g [ra2; {| sr_id := 2; sr_grp := 2; sr_cfw := 1 |}] 7 4 1 [0; 2].
Lemma w_right_single_rejected : prepare_L ord_id g2s mro_flat [mkl 100 RIGHT 1 2] = LRejected e_right [].
Proof. vm_compute. reflexivity. Qed.

(* ---------- W8: four roots on two frameworks (observed on the real planner): a postponed Link is dropped or kept ---------- *)
Definition w8_links : list plink := [mkl 400 LEFT 3 2; mkl 404 INNER 2 1; mkl 408 OUTER 4 3].
Definition ndx (u gp cf : nat) (ins : list nat) (rq : bool) : fnode := {| fid := u; fgrp := gp; fins := ins; freq := rq; fcfw := cf |}.
Definition w8_g_a : fgraph := [ndx 1 5 1 [4; 10; 8; 6] true; ndx 8 3 2 [] false; ndx 6 2 2 [] false; ndx 10 4 2 [] false; ndx 4 1 1 [] false].
Definition w8_g_b : fgraph := [ndx 1 5 1 [8; 10; 4; 6] true; ndx 8 3 2 [] false; ndx 6 2 2 [] false; ndx 10 4 2 [] false; ndx 4 1 1 [] false].
Definition w8_tab_a : otab := [(10, [400; 404; 408]); (24, [8; 4; 10; 6])].
Definition w8_tab_b : otab := [(10, [408; 400; 404]); (24, [6; 8; 10; 4])].
Definition queue_links (r : res (stages * bool)) : list nat :=
  match r with Ok (s, _) => flat_map (fun it => match it with PL k => [k_uid k] | _ => [] end) (st_pq1 s) | Err _ => [] end.
Lemma w_join_dropped :
  graph_okb w8_g_a = true /\ graph_okb w8_g_b = true /\
  set_eqb (queue_links (stages_L (ord_obs w8_tab_a) w8_g_a mro_flat w8_links)) [400; 404; 408] = true /\
  set_eqb (queue_links (stages_L (ord_obs w8_tab_b) w8_g_b mro_flat w8_links)) [400; 408] = true /\
  outcome_L (prepare_L (ord_obs w8_tab_a) w8_g_a mro_flat w8_links) = 0.
Proof. repeat split; vm_compute; reflexivity. Qed.

(* ---------- the oracle built from an observation is an order oracle: the theorems apply to what the harness evaluates ---------- *)
Require Import MV.Proofs.OrchP MV.Proofs.OrchTermP.
From Coq Require Import Permutation.
Lemma is_perm_of_sound : forall o l, is_perm_of o l = true -> Permutation o l.
Proof.
  intros o l H. unfold is_perm_of in H. apply andb_true_iff in H. destruct H as [H Hs]. apply andb_true_iff in H. destruct H as [H Hl].
  apply andb_true_iff in H. destruct H as [Hlen Ho]. apply Nat.eqb_eq in Hlen. apply nodupb_NoDup in Ho, Hl. apply subset_incl in Hs.
  apply NoDup_Permutation_bis; [exact Ho | rewrite Hlen; apply le_n | exact Hs].
Qed.
Lemma ord_obs_ok : forall t, ord_ok (ord_obs t).
Proof.
  intros t k l. unfold ord_obs. destruct (find (fun e => Nat.eqb (fst e) k && is_perm_of (snd e) l) t) as [e|] eqn:E; [|apply Permutation_refl].
  apply find_some in E. destruct E as [_ E]. apply andb_true_iff in E. apply is_perm_of_sound. apply E.
Qed.
Lemma ord_tab_ok : forall t, ord_ok (ord_tab t).
Proof.
  intros t k l. unfold ord_tab. destruct (aget k t) as [o|]; [|apply Permutation_refl].
  destruct (is_perm_of o l) eqn:E; [apply is_perm_of_sound; exact E | apply Permutation_refl].
Qed.

(* ---------- the hypotheses of the theorems are satisfiable: the instances above ---------- *)
From Coq Require Import Lia.
Ltac nodup_tac := repeat (constructor; [cbn; intuition lia|]); constructor.
Lemma ex_star_hyps :
  star_ok rs3 7 4 [0; 2; 4] /\ links_ok links3 (7 :: map sr_id rs3) /\ flat_roots mro_flat rs3 /\ (forall r, In r rs3 -> sr_cfw r = 1).
Proof.
  split; [|split; [|split]].
  - unfold star_ok. split; [cbn; nodup_tac|]. split; [cbn; nodup_tac|]. split; [discriminate | apply Permutation_refl].
  - unfold links_ok. split; [cbn; nodup_tac|]. split; [|split; [vm_compute; reflexivity|split; [|split]]].
    + intros a b [<-|[<-|[]]] [<-|[<-|[]]] H; try reflexivity; cbn in H; discriminate.
    + intros l [<-|[<-|[]]]; cbn; lia.
    + intros l [<-|[<-|[]]]; unfold js_uid, tfs_uid; cbn [pl_uid mkl map sr_id rs3 In]; repeat split; intros H; repeat (destruct H as [H|H]; [lia|]); exact H.
    + intros a b [<-|[<-|[]]] [<-|[<-|[]]]; unfold js_uid, tfs_uid; cbn [pl_uid mkl]; lia.
  - intros r _. reflexivity.
  - intros r [<-|[<-|[<-|[]]]]; reflexivity.
Qed.
Lemma ex_two_hyps :
  Permutation [ra2; rb2] [ra2; rb2] /\ star_ok [ra2; rb2] 7 4 [0; 2] /\ links_ok [mkl 100 LEFT 1 2] (7 :: map sr_id [ra2; rb2]) /\
  flat_roots mro_flat [ra2; rb2] /\ sr_cfw ra2 <> sr_cfw rb2.
Proof.
  split; [apply Permutation_refl|]. split; [|split; [|split]].
  - unfold star_ok. split; [cbn; nodup_tac|]. split; [cbn; nodup_tac|]. split; [discriminate | apply Permutation_refl].
  - unfold links_ok. split; [cbn; nodup_tac|]. split; [|split; [vm_compute; reflexivity|split; [|split]]].
    + intros a b [<-|[]] [<-|[]] _. reflexivity.
    + intros l [<-|[]]; cbn; lia.
    + intros l [<-|[]]; unfold js_uid, tfs_uid; cbn [pl_uid mkl map sr_id ra2 rb2 In]; repeat split; intros H; repeat (destruct H as [H|H]; [lia|]); exact H.
    + intros a b [<-|[]] [<-|[]]; unfold js_uid, tfs_uid; cbn [pl_uid mkl]; lia.
  - intros r _. reflexivity.
  - cbn. lia.
Qed.
Lemma ex_star_plan :
  match prepare_L ord_id g3 mro_flat links3 with
  | LPlanned p => map (fun x => match x with LJOIN _ u _ _ l r => (u, l, r) | _ => (0, [], []) end) (filter is_join_step p)
  | _ => []
  end = [(100, [0], [2]); (104, [2], [4])].
Proof. vm_compute. reflexivity. Qed.

(* ---------- the plan of W1 at run time: the lookups resolve to the Link's left / right root and the consumer's table is the
   component-wise rel_join along the plan's join order ---------- *)
Definition plan_of_res (r : lresult) : list lstep := match r with LPlanned p => p | _ => [] end.
Lemma ex_rt_chain :
  let p := plan_of_res (prepare_L ord_id g3 mro_flat links3) in
  resolve_all (objs_of_plan p) (joins_of_plan ord_id links3 p) =
    Some [ {| sj_jt := LEFT; sj_lk := ["k"]; sj_rk := ["k"]; sj_a := 0; sj_b := 2 |};
           {| sj_jt := INNER; sj_lk := ["k"]; sj_rk := ["k"]; sj_a := 2; sj_b := 4 |} ] /\
  (exists cs, join_in_order s03 [ {| sj_jt := LEFT; sj_lk := ["k"]; sj_rk := ["k"]; sj_a := 0; sj_b := 2 |};
                                  {| sj_jt := INNER; sj_lk := ["k"]; sj_rk := ["k"]; sj_a := 2; sj_b := 4 |} ] = Some cs /\
              comp_table cs 0 = consumer_table ord_id links3 s03 (prepare_L ord_id g3 mro_flat links3) /\
              map fst cs = [[0; 2; 4]]).
Proof. cbv zeta. split; [vm_compute; reflexivity|]. eexists. split; [vm_compute; reflexivity|]. split; vm_compute; reflexivity. Qed.
