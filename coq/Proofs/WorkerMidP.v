(* A worker failure in the middle of a pass: nothing the main thread does before the next loop head raises something else or
   overwrites the error register (Model/WorkerMid.v).  Uses the reachability invariants of Proofs/WorkerP.v (XInv: a normal
   exit implies an empty register). *)
From Coq Require Import List Bool Arith Lia.
Import ListNotations.
Require Import MV.Model.Orch MV.Proofs.OrchP MV.Proofs.OrchTermP MV.Model.Worker MV.Spec.WorkerSpec MV.Proofs.WorkerP
               MV.Proofs.WorkerStaleP MV.Proofs.WorkerWitP MV.Model.WorkerMid.

Lemma exit_kind_xk : forall q, exit_kind q = xk q.
Proof. reflexivity. Qed.

Lemma in_loop_xk : forall q, in_loop q = true <-> xk q = None.
Proof. intros q. destruct q; cbn; split; intros H; try reflexivity; discriminate H. Qed.

Lemma exec_app : forall c tr1 tr2 st, exec c st (tr1 ++ tr2) = match exec c st tr1 with Some st1 => exec c st1 tr2 | None => None end.
Proof. intros c. induction tr1 as [|l t IH]; intros tr2 st; cbn; [reflexivity|]. destruct (step c st l); [apply IH | reflexivity]. Qed.

Lemma reach_exec : forall c st tr st', reach c st -> exec c st tr = Some st' -> reach c st'.
Proof. intros c st tr st' [tr0 E0] E. exists (tr0 ++ tr). rewrite exec_app, E0. exact E. Qed.

Lemma reach_step : forall c st l st', reach c st -> step c st l = Some st' -> reach c st'.
Proof. intros c st l st' R S. apply (reach_exec c st [l] st' R). cbn. rewrite S. reflexivity. Qed.

Lemma head_src_failure : forall p a, failed a <> [] -> head_src p a <> Looping.
Proof.
  intros p a E. unfold head_src. destruct (failed a); [congruence|]. destruct (finished a); [discriminate|]. destruct (subset _ _); discriminate.
Qed.

Section Mid.
  Variable c : cfg.
  Notation p := (cplan c).

  Ltac des S := repeat (dm S; try discriminate S).

  (* the register holds fl (non-empty in the uses below) and, if the loop is left, then not by an exception of the loop body and
     not by a crash of the finally block *)
  Definition MF (fl : list nat) (st : pst) : Prop :=
    failed (o st) = fl /\ forall x, xk (pc st) = Some x -> x = XRaisedHead \/ x = XAbandon \/ x = XNormal.

  Ltac mfsolve H :=
    destruct H as (N1 & N3); unfold MF; cbn;
    repeat match goal with E : pc _ = _ |- _ => rewrite E in N3; clear E end; cbn in N3;
    rewrite ?ovisit_failed;
    (split; [assumption | first [ exact N3 | intros x X; first [discriminate X | inversion X; subst; auto] ] ]).

  Lemma step_MF : forall fl st l st', MF fl st -> crash_label l = false -> step c st l = Some st' -> MF fl st'.
  Proof.
    intros fl st l st' H Hl S. destruct l; cbn in Hl; try discriminate Hl; cbn in S.
    - (* OHead *) des S; inv_some S; mfsolve H.
    - (* OVisit *) des S; inv_some S; mfsolve H.
    - (* OPoll *)
      destruct (pc st) eqn:Epc; try discriminate S. destruct (nth_error p i); [|discriminate S].
      destruct (_ && _ && _ && _); [|discriminate S]. destruct (poll (ws st) (o st) taken) as [[f a']|] eqn:P; [|discriminate S].
      inv_some S. pose proof (poll_failed _ _ _ _ _ P) as Ef. destruct H as (N1 & N3). unfold MF; cbn. rewrite Ef.
      split; [assumption | intros x X; discriminate X].
    - (* OCollect *) destruct ok; [|discriminate Hl]. des S; inv_some S; mfsolve H.
    - (* ORequeue *) des S; inv_some S; mfsolve H.
    - (* OGot *) des S; inv_some S; mfsolve H.
    - (* OTimeout *) des S; inv_some S; mfsolve H.
    - (* OExec *) destruct ok; [|discriminate Hl]. unfold submit in S. des S; inv_some S; mfsolve H.
    - (* OEndScan *) des S; inv_some S; mfsolve H.
    - (* OResume *) des S; inv_some S; mfsolve H.
    - (* OAbandon *) des S; inv_some S; mfsolve H.
    - (* OArtifacts *) destruct ok; [|discriminate Hl]. des S; inv_some S; mfsolve H.
    - (* OTerminate *) des S; inv_some S; mfsolve H.
    - (* OJoin *) des S; inv_some S; mfsolve H.
    - (* OClose *) des S; inv_some S; mfsolve H.
    - (* ODropAll *) des S; inv_some S; mfsolve H.
    - (* WTake *) des S; inv_some S; mfsolve H.
    - (* WUpload *) des S; inv_some S; mfsolve H.
    - (* WDone *) des S; inv_some S; mfsolve H.
    - (* WDropAck *) des S; inv_some S; mfsolve H.
    - (* WDropCrash *) des S; inv_some S; mfsolve H.
    - (* ONext *) des S; inv_some S; mfsolve H.
  Qed.

  Lemma exec_MF : forall fl tr st st', MF fl st -> fault_free tr -> exec c st tr = Some st' -> MF fl st'.
  Proof.
    induction tr as [|l tr IH]; intros st st' H F E; cbn in E; [inversion E; subst; exact H|].
    destruct (step c st l) as [st1|] eqn:S; [|discriminate].
    apply (IH st1 st'); [eapply step_MF; [exact H | apply F; left; reflexivity | exact S] | intros l' X; apply F; right; exact X | exact E].
  Qed.

  (* what WFail does: the register gets the step's message on top, the worker is dead (WFailed), nothing is put on its result
     queue, the main thread's program counter does not move *)
  Lemma wfail_effect : forall st w cp st', step c st (WFail w cp) = Some st' ->
    exists s, phase (ws st w) = WRun s /\ wfail c s = Some cp /\ failed (o st') = s :: failed (o st) /\ pc st' = pc st /\
              phase (ws st' w) = WFailed /\ resq (ws st' w) = resq (ws st w) /\ requeued (ws st' w) = requeued (ws st w) /\
              replies st' = (s, false) :: replies st.
  Proof.
    intros st w cp st' S. cbn in S. destruct (phase (ws st w)) eqn:Eph; try discriminate S.
    destruct (wfail c s) as [cp'|] eqn:Ew; [|discriminate S]. destruct (crashpt_eqb cp cp') eqn:Ec; [|discriminate S].
    assert (cp = cp') by (destruct cp, cp'; try discriminate Ec; reflexivity). subst cp'.
    inv_some S. exists s. cbn. unfold upd. rewrite Nat.eqb_refl. destruct (mp c); cbn; repeat split; try reflexivity; assumption.
  Qed.

  Hypothesis Hp : plan_ok p.

  (* main statement *)
  Lemma midpass_failure_message_preserved_l : forall st0 w cp st,
    reach c st0 -> in_loop (pc st0) = true -> step c st0 (WFail w cp) = Some st ->
    exists s, phase (ws st0 w) = WRun s /\ reported (o st) = Some s /\ dead (phase (ws st w)) = true /\
    forall tr st', exec c st tr = Some st' -> fault_free tr ->
      reported (o st') = Some s /\ failed (o st') = failed (o st) /\ In (s, false) (replies st') /\
      (forall x, exit_kind (pc st') = Some x -> x = XRaisedHead \/ x = XAbandon) /\
      (pc st' = PHead -> step c st' OHead = Some (set_pc st' (PFinally XRaisedHead))).
  Proof.
    intros st0 w cp st R0 L0 S. destruct (wfail_effect _ _ _ _ S) as (s & Eph & Ew & Ef & Epc & Ed & _ & _ & Er).
    exists s. split; [exact Eph|]. split; [unfold reported; rewrite Ef; reflexivity|]. split; [rewrite Ed; reflexivity|].
    intros tr st' E F.
    assert (R : reach c st) by (eapply reach_step; eauto).
    assert (R' : reach c st') by (eapply reach_exec; eauto).
    assert (M : MF (s :: failed (o st0)) st).
    { split; [exact Ef|]. intros x X. rewrite Epc in X. apply in_loop_xk in L0. rewrite L0 in X. discriminate X. }
    pose proof (exec_MF _ _ _ _ M F E) as [M1 M3].
    assert (NN : xk (pc st') <> Some XNormal).
    { intros X. destruct (normal_exit_clean_l c Hp st' R' X) as [E0 _]. rewrite E0 in M1. discriminate M1. }
    split; [unfold reported; rewrite M1; reflexivity|]. split; [congruence|]. split.
    - assert (G : forall tr' a b, exec c a tr' = Some b -> In (s, false) (replies a) -> fault_free tr' -> In (s, false) (replies b)).
      { clear. induction tr' as [|l t IH]; intros a b E H F; cbn in E; [inversion E; subst; exact H|].
        destruct (step c a l) as [a1|] eqn:S; [|discriminate]. apply (IH a1 b E); [|intros l' X; apply F; right; exact X].
        destruct l; cbn in S; unfold submit in S; des S; inv_some S; cbn; auto. }
      apply (G tr st st' E); [rewrite Er; left; reflexivity | exact F].
    - split.
      + intros x X. rewrite exit_kind_xk in X. destruct (M3 x X) as [Hx|[Hx|Hx]]; subst x; auto. contradiction.
      + intros Eh. cbn. rewrite Eh.
        assert (Hn : failed (o st') <> []) by (rewrite M1; discriminate).
        pose proof (head_src_failure p (o st') Hn) as HL.
        destruct (head_src p (o st')) eqn:Hh; [congruence | | reflexivity].
        exfalso. apply NN.
        assert (S' : step c st' OHead = Some (set_pc st' (PFinally XNormal))) by (cbn; rewrite Eh, Hh; reflexivity).
        pose proof (reach_step _ _ _ _ R' S') as R2.
        destruct (normal_exit_clean_l c Hp _ R2 eq_refl) as [E0 _]. cbn in E0. rewrite E0 in M1. discriminate M1.
  Qed.

End Mid.

(* ---- witness: two independent requested steps on two worker processes (5 and 6); step 1 fails in its calculation AFTER the
        loop head of the second pass and while the main thread collects step 0 (OCollect .. OGot); when the pass reaches step 1
        its worker is dead ---- *)
Definition wc_two : cfg :=
  {| cplan := wp2; mp := true; cstream := false; wof := fun s => 5 + s; wdrop := fun s => 5 + s;
     children := fun w => if Nat.eqb w 5 then [1] else [2]; wfail := fail1 |}.

Definition tr_mid_prefix : list label :=
  [OHead; OExec true; OExec true; OEndScan; WTake 5; WTake 6; WUpload 5; WDone 5;
   OHead; OPoll [(5, RDone 0)]; WFail 6 CCalc; OCollect true; WTake 5; WDropAck 5 true true; OGot 5; OPoll []].
Definition tr_mid_finally : list label := [OArtifacts true; OTerminate 5; OJoin 5; OTerminate 6; OJoin 6; OClose; ODropAll true].

(* the code: the pass goes on (step 1 is running and has no result: OVisit), the next head reports the register *)
Definition tr_mid_code : list label := tr_mid_prefix ++ [OVisit; OEndScan; OHead] ++ tr_mid_finally.
(* with the dead-worker check: the same prefix, then the check fires *)
Definition tr_mid_deadchk : list xlabel := map XL tr_mid_prefix ++ [ODeadRaise] ++ map XL tr_mid_finally.

Lemma ex_midpass_code_l : exists st, exec wc_two pinit tr_mid_code = Some st /\ pc st = PExited XRaisedHead /\
  reported (o st) = Some 1 /\ replies st = [(1, false); (0, true)] /\ phase (ws st 6) = WFailed /\ results (o st) = [0].
Proof. eexists. split; [vm_compute; reflexivity|]. vm_compute. repeat split. Qed.

Lemma midpass_deadcheck_refuted_l : exists st, exec_deadchk wc_two pinit tr_mid_deadchk = Some st /\ pc st = PExited XRaisedBody /\
  reported (o st) = Some 1 /\ In (1, false) (replies st) /\ phase (ws st 6) = WFailed.
Proof. eexists. split; [vm_compute; reflexivity|]. vm_compute. repeat split. left. reflexivity. Qed.

Lemma tr_mid_code_suffix_fault_free_l : fault_free ([OCollect true; WTake 5; WDropAck 5 true true; OGot 5; OPoll []; OVisit; OEndScan; OHead] ++ tr_mid_finally).
Proof. intros l H. vm_compute in H. repeat (destruct H as [<-|H]; [reflexivity|]). destruct H. Qed.
