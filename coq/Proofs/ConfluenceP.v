(* conflict_free => confluent, at the data-plane level (C06).  Proofs about Model/DataPlane.v and Model/DataPlaneConc.v.
   1. step-level commutation of independent actions (up to store_eq)
   2. swaps => same outcome;  two linearisations of a partial order that orders all dependent pairs are related by swaps
   3. micro-step (Read/Write) interleavings = sequential execution in Write order when overlapping steps are independent;
      hence for a conflict-free plan every schedule the orchestrator can produce gives the result of any linearisation
   4. bridge to the executable classifier OrchCheck.conflict_free *)
From Coq Require Import List Bool ZArith Arith Lia Permutation.
Import ListNotations.
Require MV.Model.Orch MV.Model.OrchCheck.
Require Import MV.Spec.RefEval MV.Model.DataPlane MV.Model.DataPlaneConc.
Local Open Scope nat_scope.

(* ------------------------------------------------------------------ small facts *)
Lemma mem_In : forall x l, Orch.mem x l = true <-> In x l.
Proof.
  intros x l. unfold Orch.mem. rewrite existsb_exists. split.
  - intros [y [Hy E]]. apply Nat.eqb_eq in E. subst. exact Hy.
  - intros H. exists x. split; [exact H | apply Nat.eqb_refl].
Qed.

Lemma NoDup_app_disjoint : forall (A : Type) (l1 l2 : list A) (x : A), NoDup (l1 ++ l2) -> In x l1 -> In x l2 -> False.
Proof.
  intros A l1. induction l1 as [|y l1 IH]; intros l2 x ND H1 H2; [destruct H1|].
  cbn in ND. apply NoDup_cons_iff in ND. destruct ND as [N1 N2]. destruct H1 as [->|H1].
  - apply N1. apply in_or_app. right. exact H2.
  - exact (IH l2 x N2 H1 H2).
Qed.

Lemma independent_spec : forall a b,
  independent a b = true <-> wr a <> wr b /\ ~ In (wr a) (rd b) /\ ~ In (wr b) (rd a).
Proof.
  intros a b. unfold independent. rewrite negb_true_iff, !orb_false_iff. split.
  - intros [[H1 H2] H3]. apply Nat.eqb_neq in H1. repeat split; [exact H1 | |]; intros H; apply mem_In in H; congruence.
  - intros [H1 [H2 H3]]. repeat split; [apply Nat.eqb_neq; exact H1 | |].
    + destruct (Orch.mem (wr a) (rd b)) eqn:E; [apply mem_In in E; contradiction | reflexivity].
    + destruct (Orch.mem (wr b) (rd a)) eqn:E; [apply mem_In in E; contradiction | reflexivity].
Qed.

Lemma independent_sym : forall a b, independent a b = independent b a.
Proof.
  intros a b. unfold independent. rewrite (Nat.eqb_sym (wr a) (wr b)).
  destruct (Nat.eqb (wr b) (wr a)), (Orch.mem (wr a) (rd b)), (Orch.mem (wr b) (rd a)); reflexivity.
Qed.

(* ------------------------------------------------------------------ store_eq, outcome_eq *)
Lemma store_eq_refl : forall s, store_eq s s.
Proof. intros s o. reflexivity. Qed.
Lemma store_eq_sym : forall s1 s2, store_eq s1 s2 -> store_eq s2 s1.
Proof. intros s1 s2 H o. symmetry. apply H. Qed.
Lemma store_eq_trans : forall s1 s2 s3, store_eq s1 s2 -> store_eq s2 s3 -> store_eq s1 s3.
Proof. intros s1 s2 s3 H1 H2 o. rewrite H1. apply H2. Qed.

Lemma get_set : forall s o t o', get_obj (set_obj s o t) o' = if Nat.eqb o o' then Some t else get_obj s o'.
Proof. reflexivity. Qed.

Lemma store_eq_set : forall s1 s2 o t, store_eq s1 s2 -> store_eq (set_obj s1 o t) (set_obj s2 o t).
Proof. intros s1 s2 o t H o'. rewrite !get_set. destruct (Nat.eqb o o'); [reflexivity | apply H]. Qed.

Lemma set_commute : forall s o1 t1 o2 t2, o1 <> o2 ->
  store_eq (set_obj (set_obj s o1 t1) o2 t2) (set_obj (set_obj s o2 t2) o1 t1).
Proof.
  intros s o1 t1 o2 t2 H o. rewrite !get_set.
  destruct (Nat.eqb o2 o) eqn:E2, (Nat.eqb o1 o) eqn:E1; try reflexivity.
  apply Nat.eqb_eq in E1, E2. congruence.
Qed.

Lemma outcome_eq_refl : forall o, outcome_eq o o.
Proof. intros [s| |]; cbn; auto using store_eq_refl. Qed.
Lemma outcome_eq_sym : forall o1 o2, outcome_eq o1 o2 -> outcome_eq o2 o1.
Proof. intros [s1| |] [s2| |]; cbn; auto using store_eq_sym. Qed.
Lemma outcome_eq_trans : forall o1 o2 o3, outcome_eq o1 o2 -> outcome_eq o2 o3 -> outcome_eq o1 o3.
Proof. intros [s1| |] [s2| |] [s3| |]; cbn; try tauto; apply store_eq_trans. Qed.
Lemma outcome_eqx_loose : forall o1 o2, outcome_eqx o1 o2 -> outcome_eq o1 o2.
Proof. intros [s1| |] [s2| |]; cbn; auto. Qed.
Lemma outcome_eqx_refl : forall o, outcome_eqx o o.
Proof. intros [s| |]; cbn; auto using store_eq_refl. Qed.

(* ------------------------------------------------------------------ a step is Read followed by Write *)
Lemma step_is_read_write : forall n s a, step n s a = write_from n s a (snapshot s a).
Proof.
  intros n s [o cols|o ds|a b]; unfold write_from; cbn.
  - reflexivity.
  - destruct (get_obj s o) as [t|]; [destruct (calc_cols n t ds)|]; reflexivity.
  - destruct (get_obj s a); reflexivity.
Qed.

Lemma snapshot_frame : forall s o t a, ~ In o (rd a) -> snapshot (set_obj s o t) a = snapshot s a.
Proof.
  intros s o t [o' cols|o' ds|a b] H; cbn [snapshot]; try reflexivity; rewrite get_set.
  - destruct (Nat.eqb o o') eqn:E; [|reflexivity]. apply Nat.eqb_eq in E. subst. exfalso. apply H. left. reflexivity.
  - destruct (Nat.eqb o a) eqn:E; [|reflexivity]. apply Nat.eqb_eq in E. subst. exfalso. apply H. left. reflexivity.
Qed.

Lemma snapshot_store_eq : forall s1 s2 a, store_eq s1 s2 -> snapshot s1 a = snapshot s2 a.
Proof. intros s1 s2 [o cols|o ds|a b] H; cbn; auto. Qed.

Lemma fail_of_not_ok : forall e s, fail_of e <> Ok s.
Proof. intros [f|o] s; discriminate. Qed.

(* [1a] step respects store_eq (and reports the same failure) *)
Lemma step_store_eq_l : forall n a s1 s2, store_eq s1 s2 -> outcome_eqx (step n s1 a) (step n s2 a).
Proof.
  intros n a s1 s2 H. rewrite !step_is_read_write, (snapshot_store_eq s1 s2 a H). unfold write_from.
  destruct (produce n a (snapshot s2 a)) as [t|e]; [apply store_eq_set; exact H | apply outcome_eqx_refl].
Qed.

Lemma exec_store_eq_l : forall n l s1 s2, store_eq s1 s2 -> outcome_eqx (exec n s1 l) (exec n s2 l).
Proof.
  intros n l. induction l as [|a l IH]; intros s1 s2 H; cbn [exec]; [exact H|].
  pose proof (step_store_eq_l n a s1 s2 H) as E.
  destruct (step n s1 a) as [t1|f1|o1], (step n s2 a) as [t2|f2|o2]; cbn in E; try contradiction;
    try (apply IH; exact E); exact E.
Qed.

(* ------------------------------------------------------------------ [1b] commutation of two independent steps *)
Lemma exec_two : forall n s a b, exec n s [a; b] = match step n s a with Ok s' => step n s' b | e => e end.
Proof. intros n s a b. cbn. destruct (step n s a) as [s'| |]; [destruct (step n s' b)|..]; reflexivity. Qed.

Lemma exec_pair : forall n s a b, independent a b = true ->
  exec n s [a; b] =
  match produce n a (snapshot s a) with
  | inr e => fail_of e
  | inl ta => match produce n b (snapshot s b) with
              | inr e => fail_of e
              | inl tb => Ok (set_obj (set_obj s (wr a) ta) (wr b) tb)
              end
  end.
Proof.
  intros n s a b H. apply independent_spec in H. destruct H as (H1 & H2 & H3).
  rewrite exec_two, step_is_read_write. unfold write_from at 1.
  destruct (produce n a (snapshot s a)) as [ta|e].
  - rewrite step_is_read_write, (snapshot_frame s (wr a) ta b H2). unfold write_from.
    destruct (produce n b (snapshot s b)) as [tb|e]; reflexivity.
  - destruct e; reflexivity.
Qed.

(* precise form: which failure each order reports *)
Lemma pair_commute_precise_l : forall n s a b, independent a b = true ->
  match step n s a, step n s b with
  | Ok _, Ok _ => exists s1 s2, exec n s [a; b] = Ok s1 /\ exec n s [b; a] = Ok s2 /\ store_eq s1 s2
  | Ok _, eb => exec n s [a; b] = eb /\ exec n s [b; a] = eb
  | ea, Ok _ => exec n s [a; b] = ea /\ exec n s [b; a] = ea
  | ea, eb => exec n s [a; b] = ea /\ exec n s [b; a] = eb
  end.
Proof.
  intros n s a b H. pose proof H as H'. rewrite independent_sym in H'.
  rewrite (exec_pair n s a b H), (exec_pair n s b a H'), !step_is_read_write. unfold write_from.
  apply independent_spec in H. destruct H as (H1 & _ & _).
  destruct (produce n a (snapshot s a)) as [ta|[fa|oa]], (produce n b (snapshot s b)) as [tb|[fb|ob]]; cbn; auto.
  eexists. eexists. split; [reflexivity|]. split; [reflexivity|]. apply set_commute. exact H1.
Qed.

Lemma pair_commute_l : forall n s a b, independent a b = true -> outcome_eq (exec n s [a; b]) (exec n s [b; a]).
Proof.
  intros n s a b H. pose proof H as H'. rewrite independent_sym in H'.
  rewrite (exec_pair n s a b H), (exec_pair n s b a H').
  apply independent_spec in H. destruct H as (H1 & _ & _).
  destruct (produce n a (snapshot s a)) as [ta|[fa|oa]], (produce n b (snapshot s b)) as [tb|[fb|ob]]; cbn; auto.
  apply set_commute. exact H1.
Qed.

(* both orders succeed or both fail *)
Lemma pair_both_or_neither_l : forall n s a b, independent a b = true ->
  (exists s1 s2, exec n s [a; b] = Ok s1 /\ exec n s [b; a] = Ok s2 /\ store_eq s1 s2) \/
  ((forall s', exec n s [a; b] <> Ok s') /\ (forall s', exec n s [b; a] <> Ok s')).
Proof.
  intros n s a b H. pose proof (pair_commute_l n s a b H) as E.
  destruct (exec n s [a; b]) as [s1| |], (exec n s [b; a]) as [s2| |]; cbn in E; try contradiction;
    try (right; split; intros s'; discriminate).
  left. exists s1, s2. auto.
Qed.

(* ------------------------------------------------------------------ [2a] swaps preserve the outcome *)
Definition obind (o : outcome) (f : store -> outcome) : outcome := match o with Ok s => f s | e => e end.

Lemma exec_app : forall n l1 l2 s, exec n s (l1 ++ l2) = obind (exec n s l1) (fun s' => exec n s' l2).
Proof.
  intros n l1 l2. induction l1 as [|a l1 IH]; intros s; cbn; [reflexivity|].
  destruct (step n s a); cbn; [apply IH | reflexivity | reflexivity].
Qed.

Lemma obind_cong : forall n l o1 o2, outcome_eq o1 o2 ->
  outcome_eq (obind o1 (fun s => exec n s l)) (obind o2 (fun s => exec n s l)).
Proof.
  intros n l [s1| |] [s2| |] H; cbn in *; try contradiction; auto.
  apply outcome_eqx_loose, exec_store_eq_l. exact H.
Qed.

Lemma swaps_outcome_l : forall n l1 l2, swaps l1 l2 -> forall s, outcome_eq (exec n s l1) (exec n s l2).
Proof.
  intros n l1 l2 H. induction H as [l|l1 a b l2 Hi|l1 l2 l3 _ IH1 _ IH2]; intros s.
  - apply outcome_eq_refl.
  - rewrite !exec_app. destruct (exec n s l1) as [s0| |]; cbn [obind outcome_eq]; auto.
    change (a :: b :: l2) with ([a; b] ++ l2). change (b :: a :: l2) with ([b; a] ++ l2).
    rewrite !exec_app. apply obind_cong. apply pair_commute_l. exact Hi.
  - eapply outcome_eq_trans; [apply IH1 | apply IH2].
Qed.

Lemma swaps_sym : forall l1 l2, swaps l1 l2 -> swaps l2 l1.
Proof.
  intros l1 l2 H. induction H as [l|l1 a b l2 Hi|l1 l2 l3 _ IH1 _ IH2].
  - apply sw_refl.
  - apply sw_swap. rewrite independent_sym. exact Hi.
  - eapply sw_trans; eauto.
Qed.

Lemma swaps_cons : forall a l1 l2, swaps l1 l2 -> swaps (a :: l1) (a :: l2).
Proof.
  intros a l1 l2 H. induction H as [l|l1 x y l2 Hi|l1 l2 l3 _ IH1 _ IH2].
  - apply sw_refl.
  - apply (sw_swap (a :: l1) x y l2 Hi).
  - eapply sw_trans; eauto.
Qed.

(* an element independent of everything in front of it can be brought to the front *)
Lemma swaps_move_front : forall x p q, (forall y, In y p -> independent y x = true) -> swaps (p ++ x :: q) (x :: p ++ q).
Proof.
  intros x p q. induction p as [|y p IH]; intros H; cbn; [apply sw_refl|].
  eapply sw_trans.
  - apply swaps_cons. apply IH. intros z Hz. apply H. right. exact Hz.
  - apply (sw_swap [] y x (p ++ q)). apply H. left. reflexivity.
Qed.

(* ------------------------------------------------------------------ [2b] linearisations of a partial order *)
Lemma respects_app : forall before l r, respects before (l ++ r) ->
  forall y z, In y l -> In z r -> before (fst z) (fst y) = false.
Proof.
  intros before l r. induction l as [|x l IH]; intros H y z Hy Hz; [destruct Hy|].
  cbn in H. destruct H as [Hx Hr]. destruct Hy as [<-|Hy].
  - apply Hx. apply in_or_app. right. exact Hz.
  - exact (IH Hr y z Hy Hz).
Qed.

Lemma respects_remove : forall before p x q, respects before (p ++ x :: q) -> respects before (p ++ q).
Proof.
  intros before p x q. induction p as [|y p IH]; cbn; intros [H1 H2]; [exact H2|].
  split; [|apply IH; exact H2]. intros z Hz. apply H1. apply in_app_or in Hz. apply in_or_app.
  destruct Hz as [Hz|Hz]; [left; exact Hz | right; right; exact Hz].
Qed.

Lemma respects_swaps_l : forall before l2 l1,
  NoDup (map fst l1) -> Permutation l1 l2 -> respects before l1 -> respects before l2 ->
  dependent_ordered before l1 -> swaps (map snd l1) (map snd l2).
Proof.
  intros before l2. induction l2 as [|x t2 IH]; intros l1 ND HP R1 R2 HD.
  - apply Permutation_sym, Permutation_nil in HP. subst. apply sw_refl.
  - assert (Hx : In x l1) by (apply (Permutation_in x (Permutation_sym HP)); left; reflexivity).
    apply in_split in Hx. destruct Hx as (p & q & ->).
    assert (HP' : Permutation (p ++ q) t2).
    { apply Permutation_sym. apply (Permutation_cons_app_inv p q (a := x)). apply Permutation_sym. exact HP. }
    rewrite map_app in ND. cbn [map] in ND.
    assert (Hind : forall y, In y p -> independent (snd y) (snd x) = true).
    { intros y Hy. destruct (independent (snd y) (snd x)) eqn:I; [reflexivity|]. exfalso.
      assert (Hne : fst y <> fst x).
      { intros E. apply (NoDup_remove_2 _ _ _ ND). apply in_or_app. left. rewrite <- E. apply in_map. exact Hy. }
      assert (B1 : before (fst x) (fst y) = false) by (apply (respects_app before p (x :: q) R1 y x Hy); left; reflexivity).
      assert (B2 : before (fst y) (fst x) = false).
      { cbn in R2. destruct R2 as [R2 _]. apply R2. apply (Permutation_in y HP'). apply in_or_app. left. exact Hy. }
      destruct (HD y x) as [B|B]; try congruence.
      - apply in_or_app. left. exact Hy.
      - apply in_or_app. right. left. reflexivity. }
    rewrite map_app. cbn [map]. eapply sw_trans.
    + apply swaps_move_front. intros a Ha. apply in_map_iff in Ha. destruct Ha as [y [<- Hy]]. apply Hind. exact Hy.
    + rewrite <- map_app. apply swaps_cons. apply IH.
      * rewrite map_app. apply (NoDup_remove_1 _ _ _ ND).
      * exact HP'.
      * apply (respects_remove before p x q R1).
      * cbn in R2. apply R2.
      * intros y z Hy Hz. apply HD; apply in_app_or in Hy; apply in_app_or in Hz; apply in_or_app.
        -- destruct Hy as [Hy|Hy]; [left; exact Hy | right; right; exact Hy].
        -- destruct Hz as [Hz|Hz]; [left; exact Hz | right; right; exact Hz].
Qed.

Lemma linearisations_agree_l : forall n before l1 l2,
  NoDup (map fst l1) -> Permutation l1 l2 -> respects before l1 -> respects before l2 ->
  dependent_ordered before l1 -> forall s, outcome_eq (exec n s (map snd l1)) (exec n s (map snd l2)).
Proof.
  intros n before l1 l2 ND HP R1 R2 HD s. apply swaps_outcome_l. apply (respects_swaps_l before l2 l1 ND HP R1 R2 HD).
Qed.

(* ------------------------------------------------------------------ [3] micro-step interleavings *)
Definition rm (j : nat) (open : list nat) : list nat := filter (fun i => negb (Nat.eqb i j)) open.

Lemma In_rm : forall i j open, In i (rm j open) <-> In i open /\ i <> j.
Proof.
  intros i j open. unfold rm. rewrite filter_In, negb_true_iff, Nat.eqb_neq. reflexivity.
Qed.

(* every Write happens while its step is open (has read, has not written) *)
Fixpoint writes_open (open : list nat) (ev : list mevent) : Prop :=
  match ev with
  | [] => True
  | Read i :: r => writes_open (i :: open) r
  | Write j :: r => In j open /\ writes_open (rm j open) r
  end.

(* whenever a step writes, every other open step is independent of it *)
Fixpoint safe (steps : list istep) (open : list nat) (ev : list mevent) : Prop :=
  match ev with
  | [] => True
  | Read i :: r => safe steps (i :: open) r
  | Write j :: r => (forall i, In i open -> i <> j -> indep_ids steps i j = true) /\ safe steps (rm j open) r
  end.

(* every buffer still equals what its step would read now *)
Definition fresh (steps : list istep) (s : store) (b : bufs) : Prop :=
  forall i sn a, In (i, sn) b -> act_of steps i = Some a -> sn = snapshot s a.

Lemma buf_of_In : forall b j, In j (map fst b) -> exists sn, buf_of b j = Some sn /\ In (j, sn) b.
Proof.
  induction b as [|[k v] b IH]; intros j H; [destruct H|]. cbn in *.
  destruct (Nat.eqb k j) eqn:E.
  - apply Nat.eqb_eq in E. subst. exists v. split; [reflexivity | left; reflexivity].
  - destruct H as [H|H]; [apply Nat.eqb_neq in E; contradiction|].
    destruct (IH j H) as [sn [H1 H2]]. exists sn. split; [exact H1 | right; exact H2].
Qed.

Lemma map_fst_drop : forall b j, map fst (drop_buf b j) = rm j (map fst b).
Proof.
  induction b as [|[k v] b IH]; intros j; [reflexivity|]. unfold drop_buf, rm in *. cbn.
  destruct (negb (Nat.eqb k j)); cbn; rewrite IH; reflexivity.
Qed.

Lemma In_drop_buf : forall b j i sn, In (i, sn) (drop_buf b j) -> In (i, sn) b /\ i <> j.
Proof.
  intros b j i sn H. unfold drop_buf in H. apply filter_In in H. destruct H as [H1 H2]. cbn in H2.
  apply negb_true_iff, Nat.eqb_neq in H2. auto.
Qed.

Lemma write_from_store : forall n s a sn s', write_from n s a sn = Ok s' -> exists t, s' = set_obj s (wr a) t.
Proof.
  intros n s a sn s' H. unfold write_from in H. destruct (produce n a sn) as [t|e].
  - injection H as <-. exists t. reflexivity.
  - exfalso. exact (fail_of_not_ok e s' H).
Qed.

Lemma write_steps_read : forall steps k r, write_steps steps (Read k :: r) = write_steps steps r.
Proof. reflexivity. Qed.
Lemma write_steps_write : forall steps k r,
  write_steps steps (Write k :: r) = match act_of steps k with Some a => [(k, a)] | None => [] end ++ write_steps steps r.
Proof. reflexivity. Qed.

Lemma mrun_exec : forall n steps ev s b,
  fresh steps s b -> writes_open (map fst b) ev -> safe steps (map fst b) ev ->
  mrun n steps s b ev = exec n s (map snd (write_steps steps ev)).
Proof.
  intros n steps ev. induction ev as [|[k|k] r IH]; intros s b HF HW HS.
  - reflexivity.
  - cbn [mrun]. rewrite write_steps_read. apply IH.
    + intros i sn a [E|Hin] A; [|exact (HF i sn a Hin A)]. injection E as <- <-. rewrite A. reflexivity.
    + exact HW.
    + exact HS.
  - cbn [mrun]. rewrite write_steps_write. cbn [writes_open safe] in HW, HS.
    destruct HW as [Hk HW]. destruct HS as [Hind HS].
    destruct (buf_of_In b k Hk) as [sn [Hb Hin]]. rewrite Hb.
    destruct (act_of steps k) as [a|] eqn:A.
    + cbn [app map snd exec]. rewrite (HF k sn a Hin A), <- step_is_read_write.
      destruct (step n s a) as [s'| |] eqn:Est; try reflexivity.
      apply IH.
      * rewrite step_is_read_write in Est. destruct (write_from_store n s a _ s' Est) as [t ->].
        intros i sn' a' Hi A'. apply In_drop_buf in Hi. destruct Hi as [Hi Hik].
        rewrite (HF i sn' a' Hi A'). symmetry. apply snapshot_frame.
        assert (I : indep_ids steps i k = true) by (apply Hind; [apply in_map_iff; exists (i, sn'); split; [reflexivity | exact Hi] | exact Hik]).
        unfold indep_ids in I. rewrite A', A in I. apply independent_spec in I. apply I.
      * rewrite map_fst_drop. exact HW.
      * rewrite map_fst_drop. exact HS.
    + cbn [app]. apply IH.
      * intros i sn' a' Hi A'. apply In_drop_buf in Hi. exact (HF i sn' a' (proj1 Hi) A').
      * rewrite map_fst_drop. exact HW.
      * rewrite map_fst_drop. exact HS.
Qed.

(* the declarative premises give the recursive ones *)
Lemma writes_open_decl : forall ev open,
  (forall e1 i e3, ev = e1 ++ Write i :: e3 -> ~ In (Write i) e1 /\ (In i open \/ In (Read i) e1)) ->
  writes_open open ev.
Proof.
  induction ev as [|[k|k] r IH]; intros open H; cbn [writes_open].
  - exact I.
  - apply IH. intros e1 i e3 E. destruct (H (Read k :: e1) i e3) as [N D]; [cbn; f_equal; exact E|]. split.
    + intros X. apply N. right. exact X.
    + destruct D as [D|[D|D]]; [left; right; exact D | injection D as ->; left; left; reflexivity | right; exact D].
  - split.
    + destruct (H [] k r eq_refl) as [_ [D|[]]]. exact D.
    + apply IH. intros e1 i e3 E. destruct (H (Write k :: e1) i e3) as [N D]; [cbn; f_equal; exact E|].
      assert (Hik : i <> k) by (intros ->; apply N; left; reflexivity).
      split; [intros X; apply N; right; exact X|].
      destruct D as [D|[D|D]]; [left; apply In_rm; split; assumption | discriminate D | right; exact D].
Qed.

Lemma safe_decl : forall steps ev open,
  (forall i j, i <> j ->
     (In i open /\ exists e2 e3, ev = e2 ++ Write j :: e3 /\ ~ In (Write i) e2) \/ open_at ev i j ->
     indep_ids steps i j = true) ->
  safe steps open ev.
Proof.
  intros steps. induction ev as [|[k|k] r IH]; intros open H; cbn [safe].
  - exact I.
  - apply IH. intros i j Hij [[Hi (e2 & e3 & E & N)]|(e1 & e2 & e3 & E & N)].
    + destruct Hi as [<-|Hi].
      * apply (H k j Hij). right. exists [], e2, e3. split; [cbn; f_equal; exact E | exact N].
      * apply (H i j Hij). left. split; [exact Hi|]. exists (Read k :: e2), e3. split; [cbn; f_equal; exact E|].
        intros [X|X]; [discriminate X | exact (N X)].
    + apply (H i j Hij). right. exists (Read k :: e1), e2, e3. split; [cbn; f_equal; exact E | exact N].
  - split.
    + intros i Hi Hik. apply (H i k Hik). left. split; [exact Hi|]. exists [], r. split; [reflexivity | intros []].
    + apply IH. intros i j Hij [[Hi (e2 & e3 & E & N)]|(e1 & e2 & e3 & E & N)].
      * apply In_rm in Hi. destruct Hi as [Hi Hik]. apply (H i j Hij). left. split; [exact Hi|].
        exists (Write k :: e2), e3. split; [cbn; f_equal; exact E|].
        intros [X|X]; [injection X as X; apply Hik; symmetry; exact X | exact (N X)].
      * apply (H i j Hij). right. exists (Write k :: e1), e2, e3. split; [cbn; f_equal; exact E | exact N].
Qed.

Lemma safe_of_bool : forall steps ev open,
  forallb (fun ij => indep_ids steps (fst ij) (snd ij)) (overlaps_from open ev) = true -> safe steps open ev.
Proof.
  intros steps. induction ev as [|[k|k] r IH]; intros open H; cbn [safe].
  - exact I.
  - apply IH. exact H.
  - cbn [overlaps_from] in H. rewrite forallb_app in H. apply andb_true_iff in H. destruct H as [H1 H2].
    split; [|apply IH; exact H2]. intros i Hi Hik. rewrite forallb_forall in H1.
    apply (H1 (i, k)). apply in_map_iff. exists i. split; [reflexivity|]. apply In_rm. auto.
Qed.

Lemma wf_writes_open : forall steps ev, wf_interleaving steps ev -> writes_open [] ev.
Proof.
  intros steps ev (ND & _ & _ & HP). apply writes_open_decl. intros e1 i e3 E. split.
  - subst ev. apply NoDup_remove_2 in ND. intros X. apply ND. apply in_or_app. left. exact X.
  - right. exact (HP e1 i e3 E).
Qed.

(* [3a] if all steps whose Read..Write intervals overlap are independent, the interleaving computes exactly what the
   sequential execution in Write order computes (same store, same failure) *)
Lemma interleaving_sequential_l : forall n steps s ev,
  wf_interleaving steps ev ->
  (forall i j, i <> j -> overlap ev i j -> indep_ids steps i j = true) ->
  mrun n steps s [] ev = exec n s (map snd (write_steps steps ev)).
Proof.
  intros n steps s ev HW H. apply mrun_exec.
  - intros i sn a [].
  - exact (wf_writes_open steps ev HW).
  - apply safe_decl. intros i j Hij [[[] _]|Ho]. apply (H i j Hij). left. exact Ho.
Qed.

Lemma interleaving_sequential_b : forall n steps s ev,
  wf_interleaving steps ev -> overlap_freeb steps ev = true ->
  mrun n steps s [] ev = exec n s (map snd (write_steps steps ev)).
Proof.
  intros n steps s ev HW H. apply mrun_exec.
  - intros i sn a [].
  - exact (wf_writes_open steps ev HW).
  - apply safe_of_bool. exact H.
Qed.

(* ------------------------------------------------------------------ [3b] schedules of a conflict-free plan *)
Lemma act_of_In : forall steps i a, act_of steps i = Some a -> In (i, a) steps.
Proof.
  induction steps as [|[k v] t IH]; intros i a H; cbn in H; [discriminate|].
  destruct (Nat.eqb k i) eqn:E.
  - apply Nat.eqb_eq in E. injection H as <-. subst. left. reflexivity.
  - right. apply IH. exact H.
Qed.

Lemma act_of_In_fst : forall steps i a, act_of steps i = Some a -> In i (map fst steps).
Proof. intros steps i a H. apply act_of_In in H. apply (in_map fst) in H. exact H. Qed.

Lemma In_act_of : forall steps i a, NoDup (map fst steps) -> In (i, a) steps -> act_of steps i = Some a.
Proof.
  induction steps as [|[k v] t IH]; intros i a ND H; [destruct H|]. cbn in *.
  apply NoDup_cons_iff in ND. destruct ND as [N1 N2]. destruct H as [H|H].
  - injection H as -> ->. rewrite Nat.eqb_refl. reflexivity.
  - destruct (Nat.eqb k i) eqn:E.
    + apply Nat.eqb_eq in E. subst. exfalso. apply N1. apply (in_map fst) in H. exact H.
    + apply IH; assumption.
Qed.

Lemma In_write_steps : forall steps ev i a,
  In (i, a) (write_steps steps ev) <-> In (Write i) ev /\ act_of steps i = Some a.
Proof.
  intros steps ev i a. unfold write_steps. rewrite in_flat_map. split.
  - intros [e [He Hx]]. destruct e as [k|k]; [destruct Hx|].
    destruct (act_of steps k) as [a'|] eqn:A; [|destruct Hx]. destruct Hx as [Hx|[]].
    injection Hx as <- <-. auto.
  - intros [H A]. exists (Write i). split; [exact H|]. rewrite A. left. reflexivity.
Qed.

Lemma write_steps_nodup : forall steps ev, NoDup ev -> NoDup (map fst (write_steps steps ev)).
Proof.
  intros steps. induction ev as [|[k|k] r IH]; intros ND; [constructor| |];
    apply NoDup_cons_iff in ND; destruct ND as [N1 N2].
  - rewrite write_steps_read. apply IH. exact N2.
  - rewrite write_steps_write. destruct (act_of steps k) as [a|] eqn:A; cbn [app map fst]; [|apply IH; exact N2].
    constructor; [|apply IH; exact N2].
    intros X. apply in_map_iff in X. destruct X as [[k' a'] [E X]]. cbn in E. subst k'.
    apply In_write_steps in X. apply N1. apply X.
Qed.

Lemma write_steps_perm : forall steps ev,
  NoDup (map fst steps) -> wf_interleaving steps ev -> Permutation (write_steps steps ev) steps.
Proof.
  intros steps ev NDs (ND & _ & HW & _). apply NoDup_Permutation.
  - apply (NoDup_map_inv fst). apply write_steps_nodup. exact ND.
  - apply (NoDup_map_inv fst). exact NDs.
  - intros [i a]. rewrite In_write_steps. split.
    + intros [_ A]. apply act_of_In. exact A.
    + intros H. split; [|apply In_act_of; assumption]. apply HW. apply (in_map fst) in H. exact H.
Qed.

(* steps whose intervals overlap in a schedule are not ordered by `before` *)
Lemma open_unordered : forall before steps ev, wf_interleaving steps ev -> scheduled before steps ev ->
  forall i j, In i (map fst steps) -> In j (map fst steps) -> open_at ev i j ->
  before i j = false /\ before j i = false.
Proof.
  intros before steps ev (ND & HR & HW & HP) HS i j Hi Hj (e1 & e2 & e3 & E & N). split.
  - destruct (before i j) eqn:B; [exfalso | reflexivity].
    assert (HRj : In (Read j) (e1 ++ Read i :: e2)).
    { apply (HP (e1 ++ Read i :: e2) j e3). rewrite E, <- app_assoc. reflexivity. }
    apply in_split in HRj. destruct HRj as (g1 & g2 & G).
    assert (HWi : In (Write i) g1).
    { apply (HS i j g1 (g2 ++ Write j :: e3) B Hi).
      transitivity ((e1 ++ Read i :: e2) ++ Write j :: e3); [rewrite E, <- app_assoc; reflexivity|].
      rewrite G, <- app_assoc. reflexivity. }
    assert (HWi' : In (Write i) e1).
    { assert (X : In (Write i) (e1 ++ Read i :: e2)) by (rewrite G; apply in_or_app; left; exact HWi).
      apply in_app_or in X. destruct X as [X|[X|X]]; [exact X | discriminate X | contradiction]. }
    apply in_split in HWi'. destruct HWi' as (h1 & h2 & Hh).
    assert (HRi : In (Read i) h1).
    { apply (HP h1 i (h2 ++ Read i :: e2 ++ Write j :: e3)). rewrite E, Hh, <- app_assoc. reflexivity. }
    rewrite E, Hh in ND.
    apply (NoDup_app_disjoint _ _ _ (Read i) ND); [apply in_or_app; left; exact HRi | left; reflexivity].
  - destruct (before j i) eqn:B; [exfalso | reflexivity].
    assert (HWj : In (Write j) e1) by (apply (HS j i e1 (e2 ++ Write j :: e3) B Hj E)).
    rewrite E in ND. apply (NoDup_app_disjoint _ _ _ (Write j) ND HWj). right. apply in_or_app. right. left. reflexivity.
Qed.

(* the Write order of a schedule is a linearisation of `before` *)
Lemma write_steps_respects : forall before steps ev, wf_interleaving steps ev -> scheduled before steps ev ->
  forall suf pre, ev = pre ++ suf -> respects before (write_steps steps suf).
Proof.
  intros before steps ev (ND & HR & HW & HP) HS. induction suf as [|[k|k] r IH]; intros pre E.
  - exact I.
  - rewrite write_steps_read. apply (IH (pre ++ [Read k])). rewrite <- app_assoc. exact E.
  - rewrite write_steps_write.
    assert (IH' : respects before (write_steps steps r)) by (apply (IH (pre ++ [Write k])); rewrite <- app_assoc; exact E).
    destruct (act_of steps k) as [a|] eqn:A; cbn [app]; [|exact IH'].
    cbn [respects]. split; [|exact IH'].
    intros [k' a'] Hy. cbn [fst]. destruct (before k' k) eqn:B; [exfalso | reflexivity].
    apply In_write_steps in Hy. destruct Hy as [Hy A'].
    assert (HRk : In (Read k) pre) by (apply (HP pre k r E)).
    apply in_split in HRk. destruct HRk as (g1 & g2 & G).
    assert (HWk' : In (Write k') g1).
    { apply (HS k' k g1 (g2 ++ Write k :: r) B (act_of_In_fst steps k' a' A')). rewrite E, G, <- app_assoc. reflexivity. }
    rewrite E, G, <- app_assoc in ND.
    apply (NoDup_app_disjoint _ _ _ (Write k') ND HWk'). cbn. right. apply in_or_app. right. right. exact Hy.
Qed.

(* [3c] conflict free (every two dependent steps ordered by `before`) => every schedule that starts a step only after
   its predecessors have finished computes the result of ANY linearisation of `before` *)
Lemma conflict_free_schedules_l : forall n before steps s ev lin,
  NoDup (map fst steps) -> dependent_ordered before steps ->
  wf_interleaving steps ev -> scheduled before steps ev ->
  Permutation steps lin -> respects before lin ->
  outcome_eq (mrun n steps s [] ev) (exec n s (map snd lin)).
Proof.
  intros n before steps s ev lin NDs HD HW HS HP HR.
  rewrite (interleaving_sequential_l n steps s ev HW).
  - pose proof (write_steps_perm steps ev NDs HW) as PW.
    apply (linearisations_agree_l n before).
    + destruct HW as (ND & _). apply write_steps_nodup. exact ND.
    + eapply Permutation_trans; [exact PW | exact HP].
    + apply (write_steps_respects before steps ev HW HS ev []). reflexivity.
    + exact HR.
    + intros x y Hx Hy. apply HD; [exact (Permutation_in x PW Hx) | exact (Permutation_in y PW Hy)].
  - intros i j Hij Ho. unfold indep_ids.
    destruct (act_of steps i) as [a|] eqn:Ai; [|reflexivity]. destruct (act_of steps j) as [b|] eqn:Aj; [|reflexivity].
    destruct (independent a b) eqn:I; [reflexivity | exfalso].
    assert (U : before i j = false /\ before j i = false).
    { destruct Ho as [Ho|Ho].
      - apply (open_unordered before steps ev HW HS i j (act_of_In_fst _ _ _ Ai) (act_of_In_fst _ _ _ Aj) Ho).
      - apply and_comm. apply (open_unordered before steps ev HW HS j i (act_of_In_fst _ _ _ Aj) (act_of_In_fst _ _ _ Ai) Ho). }
    destruct U as [U1 U2].
    destruct (HD (i, a) (j, b) (act_of_In _ _ _ Ai) (act_of_In _ _ _ Aj) Hij I) as [B|B]; cbn in B; congruence.
Qed.

(* ------------------------------------------------------------------ executable premises are sound *)
Lemma mevent_eqb_eq : forall a b, mevent_eqb a b = true <-> a = b.
Proof.
  intros [i|i] [j|j]; cbn; split; intros H; try discriminate;
    try (apply Nat.eqb_eq in H; subst; reflexivity); injection H as ->; apply Nat.eqb_refl.
Qed.

Lemma memev_In : forall e l, memev e l = true <-> In e l.
Proof.
  intros e l. unfold memev. rewrite existsb_exists. split.
  - intros [y [Hy E]]. apply mevent_eqb_eq in E. subst. exact Hy.
  - intros H. exists e. split; [exact H | apply mevent_eqb_eq; reflexivity].
Qed.

Lemma nodup_ev_NoDup : forall l, nodup_ev l = true -> NoDup l.
Proof.
  induction l as [|x l IH]; intros H; [constructor|]. cbn in H. apply andb_true_iff in H. destruct H as [H1 H2].
  constructor; [|apply IH; exact H2]. intros X. apply memev_In in X. rewrite X in H1. discriminate H1.
Qed.

Lemma read_first_sound : forall ev seen, read_first seen ev = true ->
  forall e1 i e3, ev = e1 ++ Write i :: e3 -> In i seen \/ In (Read i) e1.
Proof.
  induction ev as [|[k|k] r IH]; intros seen H e1 i e3 E.
  - destruct e1; discriminate E.
  - destruct e1 as [|x e1]; [discriminate E|]. cbn in E. injection E as <- E. cbn [read_first] in H.
    destruct (IH (k :: seen) H e1 i e3 E) as [[->|D]|D]; [right; left; reflexivity | left; exact D | right; right; exact D].
  - cbn [read_first] in H. apply andb_true_iff in H. destruct H as [H1 H2].
    destruct e1 as [|x e1]; cbn in E.
    + injection E as <- _. left. apply mem_In. exact H1.
    + injection E as <- E. destruct (IH seen H2 e1 i e3 E) as [D|D]; [left; exact D | right; right; exact D].
Qed.

Lemma wf_interleavingb_sound : forall steps ev, wf_interleavingb steps ev = true -> wf_interleaving steps ev.
Proof.
  intros steps ev H. unfold wf_interleavingb in H.
  apply andb_true_iff in H. destruct H as [H H4]. apply andb_true_iff in H. destruct H as [H H3].
  apply andb_true_iff in H. destruct H as [H1 H2]. rewrite forallb_forall in H2, H3.
  repeat split.
  - apply nodup_ev_NoDup. exact H1.
  - intros X. apply mem_In. exact (H3 (Read i) X).
  - intros X. specialize (H2 i X). apply andb_true_iff in H2. apply memev_In. apply H2.
  - intros X. apply mem_In. exact (H3 (Write i) X).
  - intros X. specialize (H2 i X). apply andb_true_iff in H2. apply memev_In. apply H2.
  - intros e1 i e3 E. destruct (read_first_sound ev [] H4 e1 i e3 E) as [[]|D]. exact D.
Qed.

Lemma scheduled_from_sound : forall before ids ev written, scheduled_from before ids written ev = true ->
  forall i j e1 e3, before i j = true -> In i ids -> ev = e1 ++ Read j :: e3 -> In i written \/ In (Write i) e1.
Proof.
  intros before ids. induction ev as [|[k|k] r IH]; intros written H i j e1 e3 B Hi E.
  - destruct e1; discriminate E.
  - cbn [scheduled_from] in H. apply andb_true_iff in H. destruct H as [H1 H2].
    destruct e1 as [|x e1]; cbn in E.
    + injection E as <- _. rewrite forallb_forall in H1. specialize (H1 i Hi). rewrite B in H1. cbn in H1.
      left. apply mem_In. exact H1.
    + injection E as <- E. destruct (IH written H2 i j e1 e3 B Hi E) as [D|D]; [left; exact D | right; right; exact D].
  - cbn [scheduled_from] in H. destruct e1 as [|x e1]; [discriminate E|]. cbn in E. injection E as <- E.
    destruct (IH (k :: written) H i j e1 e3 B Hi E) as [[->|D]|D];
      [right; left; reflexivity | left; exact D | right; right; exact D].
Qed.

Lemma scheduledb_sound : forall before steps ev, scheduledb before steps ev = true -> scheduled before steps ev.
Proof.
  intros before steps ev H i j e1 e3 B Hi E.
  destruct (scheduled_from_sound before (map fst steps) ev [] H i j e1 e3 B Hi E) as [[]|D]. exact D.
Qed.

Lemma respectsb_sound : forall before l, respectsb before l = true -> respects before l.
Proof.
  intros before. induction l as [|x l IH]; intros H; [exact I|]. cbn in H. apply andb_true_iff in H. destruct H as [H1 H2].
  split; [|apply IH; exact H2]. intros y Hy. rewrite forallb_forall in H1. apply negb_true_iff. exact (H1 y Hy).
Qed.

Lemma dependent_orderedb_sound : forall before l, dependent_orderedb before l = true -> dependent_ordered before l.
Proof.
  intros before l H x y Hx Hy Hne Hdep. unfold dependent_orderedb in H. rewrite forallb_forall in H.
  specialize (H x Hx). rewrite forallb_forall in H. specialize (H y Hy).
  rewrite Hdep in H. apply Nat.eqb_neq in Hne. rewrite Hne in H. cbn in H. apply orb_true_iff in H. exact H.
Qed.

(* ------------------------------------------------------------------ [3d] the lost update *)
(* two DEPENDENT steps on one object, both read, then both write: the column written by the first is lost, although
   both sequential orders have it *)
Lemma lost_update_refuted_l :
  wf_interleaving lu_steps lu_ev
  /\ independent lu_a1 lu_a2 = false
  /\ has_col (exec 2 lu_store [lu_a1; lu_a2]) 0 1 = true /\ has_col (exec 2 lu_store [lu_a1; lu_a2]) 0 2 = true
  /\ has_col (exec 2 lu_store [lu_a2; lu_a1]) 0 1 = true /\ has_col (exec 2 lu_store [lu_a2; lu_a1]) 0 2 = true
  /\ has_col (mrun 2 lu_steps lu_store [] lu_ev) 0 2 = true
  /\ has_col (mrun 2 lu_steps lu_store [] lu_ev) 0 1 = false.
Proof.
  split; [apply wf_interleavingb_sound; vm_compute; reflexivity | vm_compute; repeat split].
Qed.

(* hence the interleaving agrees with NO sequential order of the two steps *)
Lemma lost_update_no_order_l : forall l, Permutation (map snd lu_steps) l ->
  ~ outcome_eq (mrun 2 lu_steps lu_store [] lu_ev) (exec 2 lu_store l).
Proof.
  intros l HP. assert (Hl : l = [lu_a1; lu_a2] \/ l = [lu_a2; lu_a1]).
  { cbn in HP. pose proof (Permutation_length HP) as HL.
    destruct l as [|x [|y [|z l]]]; try discriminate HL.
    assert (Hx : In x [lu_a1; lu_a2]) by (apply (Permutation_in x (Permutation_sym HP)); left; reflexivity).
    assert (Hy : In y [lu_a1; lu_a2]) by (apply (Permutation_in y (Permutation_sym HP)); right; left; reflexivity).
    assert (H1 : In lu_a1 [x; y]) by (apply (Permutation_in lu_a1 HP); left; reflexivity).
    assert (H2 : In lu_a2 [x; y]) by (apply (Permutation_in lu_a2 HP); right; left; reflexivity).
    assert (Hd : lu_a1 <> lu_a2) by discriminate.
    destruct Hx as [<-|[<-|[]]], Hy as [<-|[<-|[]]]; auto; exfalso.
    - destruct H2 as [H2|[H2|[]]]; apply Hd; exact H2.
    - destruct H1 as [H1|[H1|[]]]; apply Hd; symmetry; exact H1. }
  intros E.
  assert (C : has_col (mrun 2 lu_steps lu_store [] lu_ev) 0 1 = has_col (exec 2 lu_store l) 0 1).
  { unfold has_col. destruct (mrun 2 lu_steps lu_store [] lu_ev) as [s1| |], (exec 2 lu_store l) as [s2| |];
      cbn in E; try contradiction; try reflexivity. rewrite (E 0). reflexivity. }
  destruct Hl as [-> | ->]; vm_compute in C; discriminate C.
Qed.

(* ------------------------------------------------------------------ [4] bridge to OrchCheck.conflict_free *)
Lemma foot_of_steps_act : forall steps i,
  OrchCheck.foot_of (foot_of_steps steps) i = option_map (fun a => (wr a, rd a)) (act_of steps i).
Proof.
  induction steps as [|[k a] t IH]; intros i; [reflexivity|]. cbn. destruct (Nat.eqb k i); [reflexivity | apply IH].
Qed.

(* `independent` is exactly the negation of the classifier's `conflicting` on the steps' footprints *)
Lemma conflicting_independent_l : forall steps i j a b, act_of steps i = Some a -> act_of steps j = Some b ->
  OrchCheck.conflicting (foot_of_steps steps) i j = negb (independent a b).
Proof.
  intros steps i j a b Ai Aj. unfold OrchCheck.conflicting. rewrite !foot_of_steps_act, Ai, Aj. cbn.
  unfold independent. rewrite negb_involutive. reflexivity.
Qed.

Lemma flat_map_nil : forall (A B : Type) (f : A -> list B) l, flat_map f l = [] -> forall x, In x l -> f x = [].
Proof.
  intros A B f. induction l as [|y l IH]; intros H x Hx; [destruct Hx|]. cbn in H. apply app_eq_nil in H.
  destruct H as [H1 H2]. destruct Hx as [<-|Hx]; [exact H1 | exact (IH H2 x Hx)].
Qed.

Lemma conflict_free_pairs : forall p f, OrchCheck.conflict_free p f = true ->
  forall a b, In a p -> In b p -> Orch.sid a < Orch.sid b -> OrchCheck.conflicting f (Orch.sid a) (Orch.sid b) = true ->
  Orch.mem (Orch.sid a) (OrchCheck.waits_for p b) = true \/ Orch.mem (Orch.sid b) (OrchCheck.waits_for p a) = true.
Proof.
  intros p f H a b Ha Hb Hlt Hc. unfold OrchCheck.conflict_free in H.
  destruct (OrchCheck.unordered_conflicts p f) as [|x l] eqn:E; [|discriminate H]. unfold OrchCheck.unordered_conflicts in E.
  pose proof (flat_map_nil _ _ _ _ E a Ha) as E1. cbn beta in E1. pose proof (flat_map_nil _ _ _ _ E1 b Hb) as E2. cbn beta in E2.
  apply Nat.ltb_lt in Hlt. rewrite Hlt, Hc in E2.
  destruct (Orch.mem (Orch.sid a) (OrchCheck.waits_for p b)); [left; reflexivity|].
  destruct (Orch.mem (Orch.sid b) (OrchCheck.waits_for p a)); [right; reflexivity|]. discriminate E2.
Qed.

(* a plan the classifier accepts (with the footprints of its steps' actions) orders all dependent steps by wait-for *)
Lemma conflict_free_dependent_ordered_l : forall p steps,
  NoDup (map fst steps) ->
  (forall i, In i (map fst steps) -> exists st, In st p /\ Orch.sid st = i) ->
  OrchCheck.conflict_free p (foot_of_steps steps) = true ->
  dependent_ordered (waits_before p) steps.
Proof.
  intros p steps ND Hp HC [i a] [j b] Hx Hy Hne Hdep. cbn [fst snd] in *.
  destruct (Hp i (in_map fst _ _ Hx)) as [si [Hsi Ei]]. destruct (Hp j (in_map fst _ _ Hy)) as [sj [Hsj Ej]].
  pose proof (In_act_of steps i a ND Hx) as Ai. pose proof (In_act_of steps j b ND Hy) as Aj.
  assert (W : forall u v su sv, In su p -> In sv p -> Orch.sid su = u -> Orch.sid sv = v ->
              Orch.mem u (OrchCheck.waits_for p sv) = true -> waits_before p u v = true).
  { intros u v su sv _ Hsv _ Ev M. unfold waits_before. apply existsb_exists. exists sv. split; [exact Hsv|].
    rewrite Ev, Nat.eqb_refl, M. reflexivity. }
  destruct (Nat.lt_trichotomy i j) as [L|[L|L]]; [| contradiction |].
  - destruct (conflict_free_pairs p _ HC si sj Hsi Hsj) as [M|M].
    + rewrite Ei, Ej. exact L.
    + rewrite Ei, Ej, (conflicting_independent_l steps i j a b Ai Aj), Hdep. reflexivity.
    + left. rewrite Ei in M. exact (W i j si sj Hsi Hsj Ei Ej M).
    + right. rewrite Ej in M. exact (W j i sj si Hsj Hsi Ej Ei M).
  - destruct (conflict_free_pairs p _ HC sj si Hsj Hsi) as [M|M].
    + rewrite Ei, Ej. exact L.
    + rewrite Ei, Ej, (conflicting_independent_l steps j i b a Aj Ai), independent_sym, Hdep. reflexivity.
    + right. rewrite Ej in M. exact (W j i sj si Hsj Hsi Ej Ei M).
    + left. rewrite Ei in M. exact (W i j si sj Hsi Hsj Ei Ej M).
Qed.

(* conflict_free => confluent: for a plan accepted by the classifier, every schedule that respects wait-for computes the
   result of any wait-for-compatible sequential order *)
Lemma conflict_free_confluent_l : forall n p steps s ev lin,
  NoDup (map fst steps) ->
  (forall i, In i (map fst steps) -> exists st, In st p /\ Orch.sid st = i) ->
  OrchCheck.conflict_free p (foot_of_steps steps) = true ->
  wf_interleaving steps ev -> scheduled (waits_before p) steps ev ->
  Permutation steps lin -> respects (waits_before p) lin ->
  outcome_eq (mrun n steps s [] ev) (exec n s (map snd lin)).
Proof.
  intros n p steps s ev lin ND Hp HC. apply conflict_free_schedules_l; [exact ND|].
  apply conflict_free_dependent_ordered_l; assumption.
Qed.

(* two schedules of a conflict-free plan agree with each other *)
Lemma conflict_free_two_schedules_l : forall n before steps s ev1 ev2,
  NoDup (map fst steps) -> dependent_ordered before steps ->
  wf_interleaving steps ev1 -> scheduled before steps ev1 ->
  wf_interleaving steps ev2 -> scheduled before steps ev2 ->
  outcome_eq (mrun n steps s [] ev1) (mrun n steps s [] ev2).
Proof.
  intros n before steps s ev1 ev2 ND HD W1 S1 W2 S2.
  pose proof (write_steps_perm steps ev2 ND W2) as P2.
  eapply outcome_eq_trans.
  - apply (conflict_free_schedules_l n before steps s ev1 (write_steps steps ev2) ND HD W1 S1 (Permutation_sym P2)).
    apply (write_steps_respects before steps ev2 W2 S2 ev2 []). reflexivity.
  - apply outcome_eq_sym.
    apply (conflict_free_schedules_l n before steps s ev2 (write_steps steps ev2) ND HD W2 S2 (Permutation_sym P2)).
    apply (write_steps_respects before steps ev2 W2 S2 ev2 []). reflexivity.
Qed.
