(* C19 lemmas: imputation -- the PythonDict model refines the spec; structural facts about the spec. *)
From Coq Require Import QArith List Bool Arith ZArith Lia Permutation.
Import ListNotations.
Require Import MV.Spec.Builtins MV.Model.MissingValuePyDict MV.Model.BuiltinsFw MV.Proofs.BuiltinsP.
Open Scope Q_scope.

(* ---------------------------------------------------------------------------------------------------------- *)
(* small list facts                                                                                           *)
Lemma map_seq_shift : forall {A} (f : nat -> A) n, map f (seq 1 n) = map (fun i => f (S i)) (seq 0 n).
Proof. intros. rewrite <- seq_shift, map_map. reflexivity. Qed.

Lemma map_nth_seq : forall {A} (l : list A) d, map (fun i => nth i l d) (seq 0 (List.length l)) = l.
Proof.
  induction l as [|x t IH]; intros d; cbn [List.length seq map]. reflexivity.
  rewrite map_seq_shift. cbn [nth]. f_equal. apply IH.
Qed.

Lemma fill_with_none : forall c, fill_with None c = c.
Proof. induction c as [|[q|] t IH]; cbn; f_equal; auto. Qed.

Lemma fill_with_length : forall v c, List.length (fill_with v c) = List.length c.
Proof. intros. unfold fill_with. apply map_length. Qed.

Lemma fill_none_fill_with : forall v c, fill_none v c = fill_with (Some v) c.
Proof. reflexivity. Qed.

Lemma has_null_false_fill : forall v c, has_null c = false -> fill_with v c = c.
Proof.
  induction c as [|[q|] t IH]; cbn; intros H; try discriminate; f_equal; auto.
Qed.

Lemma vals_app : forall a b, vals (a ++ b) = vals a ++ vals b.
Proof. induction a as [|[q|] t IH]; intros; cbn; rewrite ?IH; auto. Qed.
Lemma vals_rev : forall c, vals (rev c) = rev (vals c).
Proof.
  induction c as [|[q|] t IH]; cbn; auto.
  - rewrite vals_app, IH. reflexivity.
  - rewrite vals_app, IH. cbn. rewrite app_nil_r. reflexivity.
Qed.

(* ---------------------------------------------------------------------------------------------------------- *)
(* last_some / first_some                                                                                     *)
Lemma last_map_some : forall (l : list Q) x, exists w, last (map Some (x :: l)) None = Some w.
Proof.
  induction l as [|y t IH]; intros x. exists x; reflexivity.
  destruct (IH y) as [w Hw]. exists w. rewrite <- Hw. reflexivity.
Qed.

Lemma last_some_cons_some : forall v c,
  last_some (Some v :: c) = match last_some c with Some w => Some w | None => Some v end.
Proof.
  intros. unfold last_some. cbn [vals]. destruct (vals c) as [|y t]. reflexivity.
  destruct (last_map_some t y) as [w Hw]. rewrite Hw. rewrite <- Hw. reflexivity.
Qed.
Lemma last_some_cons_none : forall c, last_some (None :: c) = last_some c.
Proof. reflexivity. Qed.
Lemma first_some_cons_some : forall v c, first_some (Some v :: c) = Some v.
Proof. reflexivity. Qed.
Lemma first_some_cons_none : forall c, first_some (None :: c) = first_some c.
Proof. reflexivity. Qed.

Lemma last_some_rev : forall c, last_some (rev c) = first_some c.
Proof.
  intros. unfold last_some, first_some. rewrite vals_rev, map_rev. destruct (map Some (vals c)) as [|x t]. reflexivity.
  cbn [rev hd]. apply last_last.
Qed.

(* ---------------------------------------------------------------------------------------------------------- *)
(* ffill / bfill: loops = specification                                                                       *)
Definition or_else (a b : option Q) : option Q := match a with Some v => Some v | None => b end.

Lemma ffill_loop_spec : forall c lastv,
  ffill_loop lastv c = map (fun i => or_else (last_some (firstn (S i) c)) lastv) (seq 0 (List.length c)).
Proof.
  induction c as [|x t IH]; intros lastv. reflexivity.
  cbn [List.length seq map]. rewrite map_seq_shift.
  destruct x as [v|]; cbn [ffill_loop].
  - f_equal. rewrite IH. apply map_ext. intros i.
    change (firstn (S (S i)) (Some v :: t)) with (Some v :: firstn (S i) t). rewrite last_some_cons_some.
    destruct (last_some (firstn (S i) t)); reflexivity.
  - f_equal. rewrite IH. apply map_ext. intros i.
    change (firstn (S (S i)) (None :: t)) with (None :: firstn (S i) t). rewrite last_some_cons_none. reflexivity.
Qed.

Lemma ffill_refines : forall c, py_impute_ffill c = ffill_spec c.
Proof.
  intros. unfold py_impute_ffill, ffill_spec. rewrite ffill_loop_spec. apply map_ext. intros i.
  destruct (last_some (firstn (S i) c)); reflexivity.
Qed.

Lemma bfill_loop_spec : forall c,
  bfill_loop c = (map (fun i => first_some (skipn i c)) (seq 0 (List.length c)), first_some c).
Proof.
  induction c as [|x t IH]. reflexivity.
  cbn [bfill_loop]. rewrite IH. cbn [List.length seq map]. rewrite map_seq_shift. cbn [skipn].
  destruct x as [v|]; reflexivity.
Qed.

Lemma bfill_refines : forall c, py_impute_bfill c = bfill_spec c.
Proof. intros. unfold py_impute_bfill. rewrite bfill_loop_spec. reflexivity. Qed.

Lemma ffill_spec_length : forall c, List.length (ffill_spec c) = List.length c.
Proof. intros. unfold ffill_spec. rewrite map_length, seq_length. reflexivity. Qed.
Lemma bfill_spec_length : forall c, List.length (bfill_spec c) = List.length c.
Proof. intros. unfold bfill_spec. rewrite map_length, seq_length. reflexivity. Qed.

Lemma nth_map_seq : forall {A} (f : nat -> A) n i d, (i < n)%nat -> nth i (map f (seq 0 n)) d = f i.
Proof.
  intros. rewrite (nth_indep _ d (f 0%nat)) by (rewrite map_length, seq_length; auto).
  rewrite (map_nth f (seq 0 n) 0%nat i). rewrite seq_nth; auto.
Qed.

(* bfill = reverse . ffill . reverse *)
Lemma ffill_bfill_dual_l : forall c, bfill_spec c = rev (ffill_spec (rev c)).
Proof.
  intros c. apply nth_ext with (d := None) (d' := None).
  - rewrite rev_length, ffill_spec_length, bfill_spec_length, rev_length. reflexivity.
  - intros i Hi. rewrite bfill_spec_length in Hi.
    rewrite rev_nth by (rewrite ffill_spec_length, rev_length; auto).
    rewrite ffill_spec_length, rev_length.
    unfold bfill_spec, ffill_spec. rewrite nth_map_seq by auto.
    rewrite rev_length. rewrite nth_map_seq by lia.
    rewrite firstn_rev. replace (List.length c - S (List.length c - S i))%nat with i by lia.
    symmetry. apply last_some_rev.
Qed.

(* ---------------------------------------------------------------------------------------------------------- *)
(* mean / median / constant                                                                                   *)
Lemma mean_refines : forall c, py_impute_mean c = impute_spec IMean c.
Proof.
  intros. unfold py_impute_mean, impute_spec, mean_l. destruct (vals c) as [|x t].
  - symmetry. apply fill_with_none.
  - reflexivity.
Qed.

Lemma insert_length : forall x l, List.length (insert x l) = S (List.length l).
Proof. induction l as [|y t IH]; cbn. reflexivity. destruct (Qle_bool x y); cbn; auto. Qed.
Lemma sortq_length : forall l, List.length (sortq l) = List.length l.
Proof. induction l as [|x t IH]; cbn. reflexivity. rewrite insert_length. f_equal. exact IH. Qed.

Lemma even_mod2 : forall n, Nat.even n = negb (Nat.eqb (n mod 2) 1).
Proof.
  intros n. rewrite <- Nat.negb_odd. f_equal. unfold Nat.odd.
  destruct (Nat.even n) eqn:E.
  - apply Nat.even_spec in E. destruct E as [k ->]. rewrite Nat.mul_comm, Nat.mod_mul by lia. reflexivity.
  - assert (O : Nat.odd n = true) by (unfold Nat.odd; rewrite E; reflexivity).
    apply Nat.odd_spec in O. destruct O as [k ->].
    rewrite Nat.add_comm, Nat.mul_comm, Nat.mod_add by lia. reflexivity.
Qed.

Lemma median_refines_l : forall x t, median_l (x :: t) = Some (py_median (x :: t)).
Proof.
  intros. unfold median_l, py_median. set (s := sortq (x :: t)).
  assert (L : List.length s = S (List.length t)) by (unfold s; rewrite sortq_length; reflexivity).
  rewrite L. rewrite even_mod2. destruct (Nat.eqb (S (List.length t) mod 2) 1); reflexivity.
Qed.

Lemma median_refines : forall c, py_impute_median c = impute_spec IMedian c.
Proof.
  intros. unfold py_impute_median, impute_spec. destruct (vals c) as [|x t] eqn:E.
  - symmetry. apply fill_with_none.
  - rewrite median_refines_l. reflexivity.
Qed.

Lemma constant_refines : forall k c, py_impute_constant k c = impute_spec (IConst k) c.
Proof. reflexivity. Qed.

(* ---------------------------------------------------------------------------------------------------------- *)
(* mode: Counter(...).most_common(1) = the first value that no value beats in frequency                       *)
Lemma qb_compat : forall x y z, Qeq_bool x y = true -> Qeq_bool x z = Qeq_bool y z.
Proof.
  intros x y z H. destruct (Qeq_bool y z) eqn:E.
  - eapply Qeq_bool_trans; eauto.
  - destruct (Qeq_bool x z) eqn:E2; auto. rewrite <- E. symmetry.
    eapply Qeq_bool_trans. apply Qeq_bool_sym; eauto. auto.
Qed.

Lemma count_of_compat : forall x y l, Qeq_bool x y = true -> count_of x l = count_of y l.
Proof.
  intros. unfold count_of. f_equal. apply filter_ext. intros z. apply qb_compat; auto.
Qed.
Lemma count_of_app : forall x a b, count_of x (a ++ b) = (count_of x a + count_of x b)%nat.
Proof. intros. unfold count_of. rewrite filter_app, app_length. reflexivity. Qed.
Lemma count_of_zero : forall x l, (forall y, In y l -> Qeq_bool x y = false) -> count_of x l = 0%nat.
Proof.
  induction l as [|z t IH]; intros H. reflexivity.
  unfold count_of. cbn [filter]. rewrite (H z) by (left; auto). apply IH. intros; apply H; right; auto.
Qed.

Definition is_max (l : list Q) (x : Q) : bool := forallb (fun y => (count_of y l <=? count_of x l)%nat) l.
Lemma is_max_compat : forall l x y, Qeq_bool x y = true -> is_max l x = is_max l y.
Proof.
  intros. unfold is_max. f_equal. rewrite (count_of_compat x y l) by auto. reflexivity.
Qed.

Definition keys (d : list (Q * nat)) : list Q := map fst d.
Definition haskey (x : Q) (d : list (Q * nat)) : bool := existsb (fun k => Qeq_bool k x) (keys d).

Lemma counter_snoc : forall l x, counter (l ++ [x]) = cinc x (counter l).
Proof. intros. unfold counter. rewrite fold_left_app. reflexivity. Qed.

Lemma cinc_nokey : forall x d, haskey x d = false -> cinc x d = d ++ [(x, 1%nat)].
Proof.
  induction d as [|[k n] t IH]; intros H. reflexivity.
  unfold haskey in H. cbn in H. apply orb_false_iff in H. destruct H as [H1 H2].
  cbn [cinc]. rewrite H1. cbn. f_equal. apply IH. exact H2.
Qed.

(* keys pairwise different as numbers *)
Fixpoint nodupq (ks : list Q) : Prop :=
  match ks with [] => True | k :: t => (forall k', In k' t -> Qeq_bool k k' = false) /\ nodupq t end.

Lemma cinc_haskey : forall x d, nodupq (keys d) -> haskey x d = true ->
  cinc x d = map (fun p => if Qeq_bool (fst p) x then (fst p, S (snd p)) else p) d.
Proof.
  induction d as [|[k n] t IH]; intros ND H. discriminate.
  cbn [cinc map fst snd]. destruct ND as [ND1 ND2]. destruct (Qeq_bool k x) eqn:E.
  - f_equal. clear IH. (* no other key matches *)
    assert (forall p, In p t -> Qeq_bool (fst p) x = false).
    { intros p Hp. assert (In (fst p) (keys t)) by (apply in_map; auto).
      specialize (ND1 _ H0). destruct (Qeq_bool (fst p) x) eqn:E2; auto.
      rewrite <- ND1. symmetry. eapply Qeq_bool_trans; eauto. apply Qeq_bool_sym; auto. }
    clear -H0. induction t as [|p t IH]. reflexivity. cbn [map]. rewrite (H0 p) by (left; auto).
    f_equal. apply IH. intros; apply H0; right; auto.
  - f_equal. apply IH; auto. unfold haskey in *. cbn in H. rewrite E in H. exact H.
Qed.

Lemma keys_cinc : forall x d, nodupq (keys d) ->
  keys (cinc x d) = if haskey x d then keys d else keys d ++ [x].
Proof.
  intros x d ND. destruct (haskey x d) eqn:E.
  - rewrite cinc_haskey by auto. unfold keys. rewrite map_map. apply map_ext. intros p.
    destruct (Qeq_bool (fst p) x); reflexivity.
  - rewrite cinc_nokey by auto. unfold keys. rewrite map_app. reflexivity.
Qed.

Lemma haskey_false : forall x d, haskey x d = false -> forall k, In k (keys d) -> Qeq_bool k x = false.
Proof.
  intros x d H k Hk. unfold haskey in H. destruct (Qeq_bool k x) eqn:E; auto.
  assert (existsb (fun k0 => Qeq_bool k0 x) (keys d) = true) by (apply existsb_exists; eauto). congruence.
Qed.

Lemma nodupq_snoc : forall ks x, nodupq ks -> (forall k, In k ks -> Qeq_bool k x = false) -> nodupq (ks ++ [x]).
Proof.
  induction ks as [|k t IH]; intros x ND H; cbn. split; auto. intros ? [].
  destruct ND as [ND1 ND2]. split.
  - intros k' Hk'. apply in_app_or in Hk'. destruct Hk' as [Hk'|[<-|[]]]. auto. apply H. left; auto.
  - apply IH; auto. intros; apply H; right; auto.
Qed.

Record cinv (l : list Q) (d : list (Q * nat)) : Prop := {
  ci_count : forall k n, In (k, n) d -> n = count_of k l;
  ci_nodup : nodupq (keys d);
  ci_cover : forall y, In y l -> haskey y d = true;
  ci_elem : forall k, In k (keys d) -> In k l }.

Lemma counter_inv : forall l, cinv l (counter l).
Proof.
  induction l as [|x l IH] using rev_ind.
  - constructor; cbn; auto; intros; contradiction.
  - rewrite counter_snoc. destruct IH as [I1 I2 I3 I4]. set (d := counter l) in *.
    destruct (haskey x d) eqn:HK.
    + constructor.
      * intros k n Hin. rewrite cinc_haskey in Hin by auto. apply in_map_iff in Hin.
        destruct Hin as [[k0 n0] [E Hin0]]. cbn [fst snd] in E. rewrite count_of_app.
        unfold count_of at 2. cbn [filter].
        destruct (Qeq_bool k0 x) eqn:E0; inversion E; subst; rewrite E0; cbn [List.length]; rewrite (I1 _ _ Hin0); lia.
      * rewrite keys_cinc, HK by auto. exact I2.
      * intros y Hy. unfold haskey. rewrite keys_cinc, HK by auto. apply in_app_or in Hy. destruct Hy as [Hy|[<-|[]]].
        apply I3; auto. exact HK.
      * intros k Hk. rewrite keys_cinc, HK in Hk by auto. apply in_or_app. left. auto.
    + pose proof (haskey_false _ _ HK) as HF. constructor.
      * intros k n Hin. rewrite cinc_nokey in Hin by auto. rewrite count_of_app. unfold count_of at 2. cbn [filter].
        apply in_app_or in Hin. destruct Hin as [Hin|[E|[]]].
        -- rewrite (HF k) by (apply (in_map fst) in Hin; exact Hin). cbn [List.length]. rewrite (I1 _ _ Hin). lia.
        -- inversion E; subst. rewrite Qeq_bool_refl. cbn [List.length].
           rewrite count_of_zero. reflexivity.
           intros y Hy. destruct (Qeq_bool k y) eqn:E2; auto.
           (* y has a key, which would match k *)
           pose proof (I3 _ Hy) as Hky. unfold haskey in Hky. apply existsb_exists in Hky. destruct Hky as [k1 [Hk1 E1]].
           rewrite <- (HF k1 Hk1). symmetry. eapply Qeq_bool_trans. exact E1. apply Qeq_bool_sym. exact E2.
      * rewrite keys_cinc, HK by auto. apply nodupq_snoc; auto.
      * intros y Hy. unfold haskey. rewrite keys_cinc, HK by auto. rewrite existsb_app. apply in_app_or in Hy.
        destruct Hy as [Hy|[<-|[]]].
        -- apply orb_true_iff. left. apply I3; auto.
        -- apply orb_true_iff. right. cbn. rewrite Qeq_bool_refl. reflexivity.
      * intros k Hk. rewrite keys_cinc, HK in Hk by auto. apply in_app_or in Hk. apply in_or_app.
        destruct Hk as [Hk|[<-|[]]]; [left; auto | right; left; auto].
Qed.

(* find through the keys: the first element satisfying a class-invariant predicate is a first occurrence *)
Lemma find_app_l : forall {A} (P : A -> bool) a b v, find P a = Some v -> find P (a ++ b) = Some v.
Proof. induction a as [|x t IH]; intros; cbn in *. discriminate. destruct (P x); auto. Qed.
Lemma find_app_r : forall {A} (P : A -> bool) a b, find P a = None -> find P (a ++ b) = find P b.
Proof. induction a as [|x t IH]; intros; cbn in *. reflexivity. destruct (P x); [discriminate|auto]. Qed.

Lemma find_keys : forall (P : Q -> bool), (forall x y, Qeq_bool x y = true -> P x = P y) ->
  forall l, find P l = find P (keys (counter l)).
Proof.
  intros P HP. induction l as [|x l IH] using rev_ind. reflexivity.
  rewrite counter_snoc. pose proof (counter_inv l) as [I1 I2 I3 I4]. rewrite keys_cinc by auto.
  destruct (find P l) as [v|] eqn:E.
  - rewrite (find_app_l _ _ _ _ E). destruct (haskey x (counter l)); [auto | symmetry; apply find_app_l; auto].
  - rewrite find_app_r by auto. symmetry in IH. destruct (haskey x (counter l)) eqn:HK.
    + rewrite IH. cbn. unfold haskey in HK. apply existsb_exists in HK. destruct HK as [k [Hk Ek]].
      rewrite <- (HP _ _ Ek). rewrite (find_none _ _ IH k Hk). reflexivity.
    + rewrite find_app_r by auto. reflexivity.
Qed.

(* most_common(1): the first entry with the largest count *)
Definition first_max (d : list (Q * nat)) (r : Q * nat) : Prop :=
  exists d1 d2, d = d1 ++ r :: d2 /\ (forall p, In p d1 -> (snd p < snd r)%nat) /\ (forall p, In p d2 -> (snd p <= snd r)%nat).

Lemma max_first_spec : forall t pre best, first_max pre best -> first_max (pre ++ t) (max_first best t).
Proof.
  induction t as [|p t IH]; intros pre best FM; cbn [max_first].
  - rewrite app_nil_r. exact FM.
  - replace (pre ++ p :: t) with ((pre ++ [p]) ++ t) by (rewrite <- app_assoc; reflexivity).
    destruct FM as [d1 [d2 [E [H1 H2]]]]. destruct (snd best <? snd p)%nat eqn:C.
    + apply Nat.ltb_lt in C. apply IH. exists pre, []. split; [reflexivity|]. split; [|intros ? []].
      intros q Hq. subst pre. apply in_app_or in Hq. destruct Hq as [Hq|[<-|Hq]].
      specialize (H1 _ Hq); lia. lia. specialize (H2 _ Hq); lia.
    + apply Nat.ltb_ge in C. apply IH. exists d1, (d2 ++ [p]). split; [|split; auto].
      subst pre. rewrite <- app_assoc. reflexivity.
      intros q Hq. apply in_app_or in Hq. destruct Hq as [Hq|[<-|[]]]; auto.
Qed.

Definition is_maxd (d : list (Q * nat)) (p : Q * nat) : bool := forallb (fun p' => (snd p' <=? snd p)%nat) d.

Lemma first_max_find : forall d r, first_max d r -> find (is_maxd d) d = Some r.
Proof.
  intros d r [d1 [d2 [E [H1 H2]]]].
  assert (Hr : is_maxd d r = true).
  { apply forallb_forall. intros p Hp. apply Nat.leb_le. subst d. apply in_app_or in Hp.
    destruct Hp as [Hp|[<-|Hp]]. specialize (H1 _ Hp); lia. lia. auto. }
  assert (Hd1 : forall p, In p d1 -> is_maxd d p = false).
  { intros p Hp. destruct (is_maxd d p) eqn:Em; auto. unfold is_maxd in Em. rewrite forallb_forall in Em.
    assert (In r d) by (subst d; apply in_or_app; right; left; auto).
    specialize (Em _ H). apply Nat.leb_le in Em. specialize (H1 _ Hp). lia. }
  set (P := is_maxd d) in *. rewrite E. clear E. induction d1 as [|p t IH]; cbn.
  - rewrite Hr. reflexivity.
  - rewrite Hd1 by (left; auto). apply IH. intros; apply H1; right; auto. intros; apply Hd1; right; auto.
Qed.

Lemma find_map_fst : forall (P : Q -> bool) (d : list (Q * nat)),
  find P (map fst d) = option_map fst (find (fun p => P (fst p)) d).
Proof. induction d as [|p t IH]; cbn. reflexivity. destruct (P (fst p)); auto. Qed.
Lemma find_ext_in : forall {A} (P R : A -> bool) l, (forall x, In x l -> P x = R x) -> find P l = find R l.
Proof.
  induction l as [|x t IH]; intros H; cbn. reflexivity. rewrite (H x) by (left; auto).
  destruct (R x); auto. apply IH. intros; apply H; right; auto.
Qed.

Lemma in_keys_entry : forall k (d : list (Q * nat)), In k (keys d) -> exists n, In (k, n) d.
Proof. intros k d H. apply in_map_iff in H. destruct H as [[k0 n] [E H]]. cbn in E. subst. eauto. Qed.

Lemma is_max_entry : forall l p, In p (counter l) -> is_max l (fst p) = is_maxd (counter l) p.
Proof.
  intros l [k n] Hp. pose proof (counter_inv l) as [I1 I2 I3 I4]. cbn [fst].
  apply eq_true_iff_eq. unfold is_max, is_maxd. rewrite !forallb_forall. split; intros H.
  - intros [k' n'] Hp'. cbn [snd]. apply Nat.leb_le. rewrite (I1 _ _ Hp), (I1 _ _ Hp').
    apply Nat.leb_le. apply H. apply I4. apply (in_map fst) in Hp'. exact Hp'.
  - intros y Hy. pose proof (I3 _ Hy) as HK. unfold haskey in HK. apply existsb_exists in HK.
    destruct HK as [k' [Hk' E']]. destruct (in_keys_entry _ _ Hk') as [n' Hn'].
    specialize (H _ Hn'). cbn [snd] in H. rewrite (I1 _ _ Hp), (I1 _ _ Hn') in H.
    rewrite <- (count_of_compat k' y l E'). exact H.
Qed.

Lemma mode_refines_l : forall l, most_common1 (counter l) = mode_l l.
Proof.
  intros l. unfold mode_l. change (fun x => forallb (fun y => (count_of y l <=? count_of x l)%nat) l) with (is_max l).
  rewrite (find_keys (is_max l) (is_max_compat l) l). unfold keys. rewrite find_map_fst.
  rewrite (find_ext_in _ (is_maxd (counter l)) _ (is_max_entry l)).
  unfold most_common1. destruct (counter l) as [|p t] eqn:E. reflexivity.
  assert (FM : first_max ([p] ++ t) (max_first p t)).
  { apply max_first_spec. exists [], []. split; [reflexivity|]. split; intros ? []. }
  cbn [app] in FM. rewrite (first_max_find _ _ FM). reflexivity.
Qed.

Lemma counter_nonempty : forall x t, counter (x :: t) <> [].
Proof.
  intros x t E. pose proof (counter_inv (x :: t)) as [_ _ I3 _]. specialize (I3 x (or_introl eq_refl)).
  rewrite E in I3. discriminate.
Qed.

Lemma mode_l_some : forall x t, exists v, mode_l (x :: t) = Some v.
Proof.
  intros. rewrite <- mode_refines_l. unfold most_common1. destruct (counter (x :: t)) eqn:E.
  - exfalso. eapply counter_nonempty; eauto.
  - eauto.
Qed.

Lemma mode_refines : forall c, py_impute_mode c = impute_spec IMode c.
Proof.
  intros. unfold py_impute_mode, impute_spec. destruct (vals c) as [|x t] eqn:E.
  - symmetry. apply fill_with_none.
  - rewrite mode_refines_l. destruct (mode_l (x :: t)) as [v|]. reflexivity. symmetry. apply fill_with_none.
Qed.

(* ---------------------------------------------------------------------------------------------------------- *)
Lemma pydict_impute_refines_l : forall m c, py_impute m c = impute_spec m c.
Proof.
  intros [| | |k| |] c; cbn [py_impute].
  - apply mean_refines.
  - apply median_refines.
  - apply mode_refines.
  - reflexivity.
  - apply ffill_refines.
  - apply bfill_refines.
Qed.

(* ---------------------------------------------------------------------------------------------------------- *)
(* non-null cells are never changed, the length is preserved                                                  *)
Definition preserves (c c' : col) : Prop :=
  List.length c' = List.length c /\ forall i v, nth i c None = Some v -> nth i c' None = Some v.

Lemma preserves_refl : forall c, preserves c c.
Proof. split; auto. Qed.
Lemma preserves_trans : forall a b c, preserves a b -> preserves b c -> preserves a c.
Proof. intros a b c [L1 H1] [L2 H2]. split. congruence. auto. Qed.

Lemma fill_with_preserves : forall v c, preserves c (fill_with v c).
Proof.
  intros v c. split. apply fill_with_length.
  induction c as [|x t IH]; intros i w H. destruct i; discriminate.
  destruct i; cbn in *. subst x. reflexivity. apply IH. exact H.
Qed.

Lemma firstn_S_nth : forall {A} (l : list A) i d, (i < List.length l)%nat -> firstn (S i) l = firstn i l ++ [nth i l d].
Proof.
  induction l as [|x t IH]; intros i d H; cbn in H. lia.
  destruct i. reflexivity. cbn [firstn nth app]. f_equal. apply IH. lia.
Qed.
Lemma skipn_nth_cons : forall {A} (l : list A) i d, (i < List.length l)%nat -> skipn i l = nth i l d :: skipn (S i) l.
Proof.
  induction l as [|x t IH]; intros i d H; cbn in H. lia.
  destruct i. reflexivity. cbn [skipn nth]. apply IH. lia.
Qed.
Lemma last_some_snoc : forall a v, last_some (a ++ [Some v]) = Some v.
Proof. intros. unfold last_some. rewrite vals_app, map_app. cbn. apply last_last. Qed.

Lemma nth_some_lt : forall (c : col) i v, nth i c None = Some v -> (i < List.length c)%nat.
Proof.
  intros c i v H. destruct (Nat.lt_ge_cases i (List.length c)); auto. rewrite nth_overflow in H by auto. discriminate.
Qed.

Lemma ffill_spec_preserves : forall c, preserves c (ffill_spec c).
Proof.
  intros c. split. apply ffill_spec_length. intros i v H. pose proof (nth_some_lt _ _ _ H) as Hi.
  unfold ffill_spec. rewrite nth_map_seq by auto. rewrite (firstn_S_nth c i None Hi), H. apply last_some_snoc.
Qed.
Lemma bfill_spec_preserves : forall c, preserves c (bfill_spec c).
Proof.
  intros c. split. apply bfill_spec_length. intros i v H. pose proof (nth_some_lt _ _ _ H) as Hi.
  unfold bfill_spec. rewrite nth_map_seq by auto. rewrite (skipn_nth_cons c i None Hi), H. reflexivity.
Qed.

Lemma impute_spec_preserves : forall m c, preserves c (impute_spec m c).
Proof.
  intros [| | |k| |] c; cbn [impute_spec]; try apply fill_with_preserves.
  apply ffill_spec_preserves. apply bfill_spec_preserves.
Qed.

Lemma impute_preserves_non_null_l : forall m c, preserves c (py_impute m c).
Proof. intros. rewrite pydict_impute_refines_l. apply impute_spec_preserves. Qed.

Lemma has_null_false_nth : forall c i, has_null c = false -> (i < List.length c)%nat -> exists v, nth i c None = Some v.
Proof.
  induction c as [|[q|] t IH]; intros i H Hi; cbn in *; try lia; try discriminate.
  destruct i. eauto. apply IH; auto. lia.
Qed.

Lemma preserves_no_null_id : forall c c', has_null c = false -> preserves c c' -> c' = c.
Proof.
  intros c c' H [L P]. apply nth_ext with (d := None) (d' := None); auto.
  intros i Hi. rewrite L in Hi. destruct (has_null_false_nth _ _ H Hi) as [v Hv]. rewrite Hv. apply P. exact Hv.
Qed.

Lemma impute_spec_no_null_id : forall m c, has_null c = false -> impute_spec m c = c.
Proof. intros. apply preserves_no_null_id; auto. apply impute_spec_preserves. Qed.

(* _perform_imputation (one source column, no group_by) = the spec, also on its early-return path *)
Lemma pydict_perform_refines_l : forall m c, py_perform_imputation m None c = impute_spec m c.
Proof.
  intros. unfold py_perform_imputation. destruct (has_null c) eqn:E; cbn [negb].
  - apply pydict_impute_refines_l.
  - rewrite impute_spec_no_null_id by auto. reflexivity.
Qed.

(* ---------------------------------------------------------------------------------------------------------- *)
(* a fill value exists -> no null is left                                                                     *)
Lemma fill_with_some_no_null : forall v c, no_null (fill_with (Some v) c).
Proof.
  intros v c x H. unfold fill_with in H. apply in_map_iff in H. destruct H as [[q|] [E _]]; subst; discriminate.
Qed.

Lemma constant_fill_no_null_l : forall k c, no_null (impute_spec (IConst k) c).
Proof. intros. apply fill_with_some_no_null. Qed.

Lemma stat_fill_no_null_l : forall m c, (m = IMean \/ m = IMedian \/ m = IMode) -> vals c <> [] -> no_null (impute_spec m c).
Proof.
  intros m c Hm Hv. destruct (vals c) as [|x t] eqn:E; [congruence|].
  destruct Hm as [-> | [-> | ->]]; cbn [impute_spec]; rewrite E.
  - apply fill_with_some_no_null.
  - rewrite median_refines_l. apply fill_with_some_no_null.
  - destruct (mode_l_some x t) as [v ->]. apply fill_with_some_no_null.
Qed.

(* what ffill leaves null: exactly the leading nulls *)
Lemma last_some_none_iff : forall c, last_some c = None <-> vals c = [].
Proof.
  intros c. unfold last_some. destruct (vals c) as [|x t]. split; reflexivity.
  destruct (last_map_some t x) as [w Hw]. rewrite Hw. split; discriminate.
Qed.
Lemma vals_firstn_nil_iff : forall c n, (n <= List.length c)%nat ->
  (vals (firstn n c) = [] <-> forall j, (j < n)%nat -> nth j c None = None).
Proof.
  intros c. induction n as [|n IH]; intros Hn.
  - split; [intros _ j Hj; lia | reflexivity].
  - rewrite (firstn_S_nth c n None) by lia. rewrite vals_app. split.
    + intros H. apply app_eq_nil in H. destruct H as [H1 H2]. intros j Hj.
      destruct (Nat.eq_dec j n) as [->|Hne].
      * destruct (nth n c None); [discriminate|reflexivity].
      * apply IH; auto; lia.
    + intros H. rewrite (proj2 (IH ltac:(lia))) by (intros; apply H; lia). rewrite H by lia. reflexivity.
Qed.
Lemma ffill_null_iff : forall c i, (i < List.length c)%nat ->
  (nth i (ffill_spec c) None = None <-> forall j, (j <= i)%nat -> nth j c None = None).
Proof.
  intros c i Hi. unfold ffill_spec. rewrite nth_map_seq by auto. rewrite last_some_none_iff.
  rewrite vals_firstn_nil_iff by lia. split; intros H j Hj; apply H; lia.
Qed.

(* ---------------------------------------------------------------------------------------------------------- *)
(* grouped imputation                                                                                         *)
Lemma ocell_eqb_refl : forall a, ocell_eqb a a = true.
Proof. intros [z|]; cbn; auto. apply Z.eqb_refl. Qed.
Lemma key_eqb_refl : forall k, key_eqb k k = true.
Proof. induction k as [|a t IH]; cbn; auto. rewrite ocell_eqb_refl, IH. reflexivity. Qed.
Lemma ocell_eqb_eq : forall a b, ocell_eqb a b = true -> a = b.
Proof. intros [x|] [y|] H; cbn in H; try discriminate; auto. apply Z.eqb_eq in H. congruence. Qed.
Lemma key_eqb_eq : forall a b, key_eqb a b = true <-> a = b.
Proof.
  induction a as [|x a IH]; intros [|y b]; cbn; split; intros H; try discriminate; auto.
  - apply andb_true_iff in H. destruct H as [H1 H2]. apply ocell_eqb_eq in H1. apply IH in H2. congruence.
  - inversion H; subst. rewrite ocell_eqb_refl. cbn. apply key_eqb_refl.
Qed.

Lemma combine_snoc : forall {A B} (a : list A) (b : list B) x y, List.length a = List.length b ->
  combine (a ++ [x]) (b ++ [y]) = combine a b ++ [(x, y)].
Proof.
  induction a as [|p a IH]; intros [|q b] x y H; cbn in *; try lia. reflexivity. f_equal. apply IH. lia.
Qed.

Lemma members_snoc_same : forall ks k c x, List.length ks = List.length c ->
  members (ks ++ [k]) k (c ++ [x]) = members ks k c ++ [x].
Proof.
  intros. unfold members. rewrite combine_snoc by auto. rewrite filter_app, map_app. cbn. rewrite key_eqb_refl. reflexivity.
Qed.

Lemma fill_stat_preserves : forall stat keys c, List.length keys = List.length c -> preserves c (fill_stat stat keys c).
Proof.
  intros stat keys c L. unfold fill_stat. split. rewrite map_length, combine_length. lia.
  intros i v Hv. pose proof (nth_some_lt _ _ _ Hv) as Hi.
  set (f := fun p : key * cell => match snd p with Some _ => snd p | None => stat_fb stat keys c (fst p) end).
  rewrite (nth_indep _ None (f ([], None))) by (rewrite map_length, combine_length; lia).
  rewrite map_nth. rewrite combine_nth by auto. unfold f. cbv beta. cbn [snd fst]. unfold cell in *. rewrite Hv. reflexivity.
Qed.

Lemma firstn_length_eq : forall {A B} (a : list A) (b : list B) n, List.length a = List.length b ->
  List.length (firstn n a) = List.length (firstn n b).
Proof. intros. rewrite !firstn_length. lia. Qed.

Lemma impute_grouped_spec_preserves : forall m keys c, List.length keys = List.length c ->
  preserves c (impute_grouped_spec m keys c).
Proof.
  intros [| | |k| |] keys c L; cbn [impute_grouped_spec]; try (apply fill_stat_preserves; auto).
  - apply fill_with_preserves.
  - split. rewrite map_length, seq_length; auto. intros i v Hv. pose proof (nth_some_lt _ _ _ Hv) as Hi.
    rewrite nth_map_seq by auto. rewrite (firstn_S_nth c i None Hi), (firstn_S_nth keys i [] ltac:(lia)), Hv.
    rewrite members_snoc_same by (apply firstn_length_eq; auto). apply last_some_snoc.
  - split. rewrite map_length, seq_length; auto. intros i v Hv. pose proof (nth_some_lt _ _ _ Hv) as Hi.
    rewrite nth_map_seq by auto. rewrite (skipn_nth_cons c i None Hi), (skipn_nth_cons keys i [] ltac:(lia)), Hv.
    unfold members. cbn [combine filter fst]. rewrite key_eqb_refl. reflexivity.
Qed.

(* one group = no grouping *)
Lemma members_all : forall ks k c, List.length ks = List.length c -> (forall k', In k' ks -> key_eqb k k' = true) ->
  members ks k c = c.
Proof.
  induction ks as [|a ks IH]; intros k [|x c] L H; cbn in *; try lia. reflexivity.
  unfold members. cbn [combine filter fst]. rewrite (H a) by auto. cbn [map snd]. f_equal. apply IH. lia. auto.
Qed.

Lemma map_snd_combine : forall {A B C} (g : B -> C) (a : list A) (b : list B), List.length a = List.length b ->
  map (fun p => g (snd p)) (combine a b) = map g b.
Proof. induction a as [|x a IH]; intros [|y b] L; cbn in *; try lia. reflexivity. f_equal. apply IH. lia. Qed.

Lemma fill_stat_single_group : forall stat keys c, List.length keys = List.length c ->
  (forall k k', In k keys -> In k' keys -> key_eqb k k' = true) -> fill_stat stat keys c = fill_with (stat (vals c)) c.
Proof.
  intros stat keys c L H. unfold fill_stat, fill_with. rewrite <- (map_snd_combine _ keys c L).
  apply map_ext_in. intros [k x] Hin. cbn [fst snd]. destruct x; auto.
  unfold stat_fb. rewrite members_all; auto. destruct (stat (vals c)); reflexivity.
  intros. apply H; auto. apply in_combine_l in Hin. exact Hin.
Qed.

Lemma in_firstn : forall {A} n (l : list A) x, In x (firstn n l) -> In x l.
Proof. induction n; intros [|y l] x H; cbn in *; auto. contradiction. destruct H; auto. Qed.
Lemma in_skipn : forall {A} n (l : list A) x, In x (skipn n l) -> In x l.
Proof. induction n; intros [|y l] x H; cbn in *; auto. Qed.

Lemma grouped_single_group_l : forall m keys c, List.length keys = List.length c ->
  (forall k k', In k keys -> In k' keys -> key_eqb k k' = true) -> impute_grouped_spec m keys c = impute_spec m c.
Proof.
  intros [| | |k| |] keys c L H; cbn [impute_grouped_spec impute_spec]; try (apply fill_stat_single_group; auto); auto.
  - unfold ffill_spec. apply map_ext_in. intros i Hi. apply in_seq in Hi. f_equal.
    apply members_all. apply firstn_length_eq; auto.
    intros k' Hk'. apply H. apply nth_In; lia. eapply in_firstn; eauto.
  - unfold bfill_spec. apply map_ext_in. intros i Hi. apply in_seq in Hi. f_equal.
    apply members_all. rewrite !skipn_length; lia.
    intros k' Hk'. apply H. apply nth_In; lia. eapply in_skipn; eauto.
Qed.

(* the index-mutating PythonDict loops never touch a non-null cell *)
Lemma set_nth_nil : forall i v, set_nth i v [] = [].
Proof. intros. unfold set_nth. rewrite firstn_nil, skipn_nil. reflexivity. Qed.
Lemma set_nth_0 : forall v x t, set_nth 0 v (x :: t) = v :: t.
Proof. reflexivity. Qed.
Lemma set_nth_S : forall i v x t, set_nth (S i) v (x :: t) = x :: set_nth i v t.
Proof. reflexivity. Qed.

Lemma set_nth_preserves : forall r i v, nth i r None = None -> preserves r (set_nth i v r).
Proof.
  induction r as [|x t IH]; intros i v H.
  - rewrite set_nth_nil. apply preserves_refl.
  - destruct i.
    + rewrite set_nth_0. cbn in H. subst x. split. reflexivity. intros [|j] w Hj; cbn in *. discriminate. exact Hj.
    + rewrite set_nth_S. cbn in H. destruct (IH i v H) as [L P]. split. cbn. congruence.
      intros [|j] w Hj; cbn in *. exact Hj. apply P. exact Hj.
Qed.

Lemma fold_left_preserves : forall {X} (f : col -> X -> col) (l : list X),
  (forall r x, preserves r (f r x)) -> forall r, preserves r (fold_left f l r).
Proof.
  intros X f l H. induction l as [|x t IH]; intros r; cbn. apply preserves_refl.
  eapply preserves_trans. apply H. apply IH.
Qed.

Lemma fill_indices_preserves : forall v idxs r, preserves r (fill_indices v idxs r).
Proof.
  intros. unfold fill_indices. apply fold_left_preserves. intros r0 i. cbv beta.
  match goal with |- context [match ?x with _ => _ end] => destruct x eqn:E end. apply preserves_refl. apply set_nth_preserves. exact E.
Qed.

Lemma group_stat_preserves : forall stat overall idxs r, preserves r (group_stat stat overall idxs r).
Proof. intros. unfold group_stat. destruct (stat _); apply fill_indices_preserves. Qed.

Lemma group_ffill_preserves : forall idxs lastv r, preserves r (group_ffill lastv idxs r).
Proof.
  induction idxs as [|i t IH]; intros lastv r; cbn [group_ffill]. apply preserves_refl.
  match goal with |- context [match ?x with _ => _ end] => destruct x eqn:E end. apply IH. destruct lastv. 2: apply IH.
  eapply preserves_trans. apply set_nth_preserves. exact E. apply IH.
Qed.

Lemma py_grouped_preserves_l : forall m keys c, preserves c (py_grouped m keys c).
Proof.
  intros [| | |k| |] keys c; unfold py_grouped.
  - apply fold_left_preserves. intros. apply group_stat_preserves.
  - apply fold_left_preserves. intros. apply group_stat_preserves.
  - apply fold_left_preserves. intros. apply group_stat_preserves.
  - apply fill_with_preserves.
  - apply fold_left_preserves. intros. apply group_ffill_preserves.
  - apply fold_left_preserves. intros. apply group_ffill_preserves.
Qed.

Lemma py_perform_preserves_l : forall m g c, preserves c (py_perform_imputation m g c).
Proof.
  intros m g c. unfold py_perform_imputation. destruct (negb (has_null c)). apply preserves_refl.
  destruct g as [keys|]. apply py_grouped_preserves_l. apply impute_preserves_non_null_l.
Qed.

(* ---- the mode is a most frequent value ---- *)
Lemma mode_l_spec : forall l v, mode_l l = Some v -> In v l /\ forall y, In y l -> (count_of y l <= count_of v l)%nat.
Proof.
  intros l v H. unfold mode_l in H. apply find_some in H. destruct H as [Hin H]. split; auto.
  intros y Hy. rewrite forallb_forall in H. apply Nat.leb_le. apply H. exact Hy.
Qed.
