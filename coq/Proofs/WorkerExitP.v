(* Every exit path of the protocol (Model/Worker.v) cleans up: workers terminated and joined, nothing alive, store emptied.
   No hypothesis about the plan is needed. *)
From Coq Require Import List Bool Arith Lia.
Import ListNotations.
Require Import MV.Model.Orch MV.Proofs.OrchP MV.Model.Worker MV.Spec.WorkerSpec MV.Proofs.WorkerP.

Section Exit.
  Variable c : cfg.
  Notation p := (cplan c).

  Definition wjoined (st : pst) (w : nat) : Prop := joined (ws st w) = true /\ (mp c = true -> terminated (ws st w) = true).

  Definition FInv (st : pst) : Prop :=
    (forall w, spawned (phase (ws st w)) = true <-> In w (tasks st)) /\
    (forall w, joined (ws st w) = true -> dead (phase (ws st w)) = true) /\
    (forall w, terminated (ws st w) = true -> alive (phase (ws st w)) = false) /\
    (forall k, In k (flight st) -> In k (tasks st)) /\
    (mp c = false -> flight st = []) /\
    match pc st with
    | PTerm x k => forall j w, j < k -> nth_error (tasks st) j = Some w -> wjoined st w
    | PJoin x k => (forall j w, j < k -> nth_error (tasks st) j = Some w -> wjoined st w) /\
                   (forall w, nth_error (tasks st) k = Some w -> mp c = true -> terminated (ws st w) = true)
    | PDrop x => forall w, In w (tasks st) -> wjoined st w
    | PExited x => x <> XFinallyCrash ->
                   (forall w, In w (tasks st) -> wjoined st w) /\ (mp c = true -> dropfail st = false -> flight st = [])
    | _ => True
    end.

  Lemma remove_all_covered : forall t fl, (forall k, In k fl -> In k t) -> remove_all t fl = [].
  Proof.
    intros t fl H. unfold remove_all. induction fl as [|x fl IH]; [reflexivity|]. cbn.
    assert (E : mem x t = true) by (apply mem_In, H; left; reflexivity). rewrite E. cbn. apply IH. intros k X. apply H. right. exact X.
  Qed.
  Lemma remove_all_incl : forall t fl k, In k (remove_all t fl) -> In k fl.
  Proof. intros t fl k H. apply remove_all_In in H. tauto. Qed.

  Lemma alive_not_dead : forall ph, alive ph = true -> dead ph = false.
  Proof. destruct ph; cbn; intros; congruence. Qed.
  Lemma alive_spawned : forall ph, alive ph = true -> spawned ph = true.
  Proof. destruct ph; cbn; intros; congruence. Qed.

  Ltac des S := repeat (dm S; try discriminate S).

  (* a transition of worker w: only the phase / queues of w change, w was alive and stays spawned *)
  Definition wstep_shape (st st' : pst) (w : nat) : Prop :=
    alive (phase (ws st w)) = true /\ pc st' = pc st /\ tasks st' = tasks st /\ dropfail st' = dropfail st /\
    (forall k, k <> w -> ws st' k = ws st k) /\
    spawned (phase (ws st' w)) = true /\ joined (ws st' w) = joined (ws st w) /\ terminated (ws st' w) = terminated (ws st w) /\
    (forall k, In k (flight st') -> In k (flight st) \/ (k = w /\ mp c = true)).

  Lemma worker_step_shape : forall st l st', is_worker_label l = true -> step c st l = Some st' ->
    exists w, wstep_shape st st' w.
  Proof.
    intros st l st' Hl S. destruct l; try discriminate Hl; cbn in S; exists w; unfold wstep_shape.
    - destruct (phase (ws st w)) eqn:Eph; try discriminate S. destruct (cmdq (ws st w)) as [|cm t]; [discriminate S|]. inv_some S. cbn.
      rewrite upd_same. repeat split; auto; try (intros k Hk; apply upd_other; exact Hk). destruct cm; reflexivity.
    - destruct (phase (ws st w)) eqn:Eph; try discriminate S. destruct (mp c) eqn:Em; [|discriminate S]. inv_some S. cbn.
      rewrite Eph. repeat split; auto. intros k X. destruct (mem w (flight st)); [left; exact X|]. destruct X as [<-|X]; auto.
    - destruct (phase (ws st w)) eqn:Eph; try discriminate S. destruct (wfail c s); [discriminate S|].
      destruct (mp c); inv_some S; cbn; rewrite upd_same; repeat split; auto; intros k Hk; apply upd_other; exact Hk.
    - destruct (phase (ws st w)) eqn:Eph; try discriminate S. destruct (wfail c s); [|discriminate S].
      destruct (crashpt_eqb c0 c1); [|discriminate S]. inv_some S. cbn. rewrite upd_same.
      repeat split; auto; try (intros k Hk; apply upd_other; exact Hk); destruct (mp c); reflexivity.
    - destruct (phase (ws st w)) eqn:Eph; try discriminate S.
      destruct (Bool.eqb last (subset (children c w) (fs ++ trk (ws st w))) && (last || negb dropped)); [|discriminate S].
      destruct last; inv_some S; cbn; rewrite upd_same; repeat split; auto; try (intros k Hk; apply upd_other; exact Hk).
      intros k X. left. destruct dropped; [eapply remove_all_incl; exact X | exact X].
    - destruct (phase (ws st w)) eqn:Eph; try discriminate S. des S. inv_some S. cbn. rewrite upd_same.
      repeat split; auto; intros k Hk; apply upd_other; exact Hk.
  Qed.

  Lemma wstep_FInv : forall st st' w, FInv st -> wstep_shape st st' w -> FInv st'.
  Proof.
    intros st st' w (F1 & F2 & F3 & F4 & F5 & F6) (A & Epc & Et & Ed & Eo & Sp & Ej & Etm & Efl).
    assert (Hw : In w (tasks st)) by (apply F1, alive_spawned, A).
    assert (Hnj : joined (ws st w) = false).
    { destruct (joined (ws st w)) eqn:E; [|reflexivity]. pose proof (F2 w E) as D. rewrite (alive_not_dead _ A) in D. discriminate. }
    assert (Hnt : terminated (ws st w) = false).
    { destruct (terminated (ws st w)) eqn:E; [|reflexivity]. pose proof (F3 w E) as D. rewrite A in D. discriminate. }
    assert (WJ : forall k, wjoined st k -> wjoined st' k).
    { intros k [J T]. destruct (Nat.eq_dec k w) as [->|Ne]; [rewrite Hnj in J; discriminate|]. unfold wjoined. rewrite (Eo k Ne). split; assumption. }
    unfold FInv. rewrite Et, Epc. repeat split.
    - intros X. destruct (Nat.eq_dec w0 w) as [->|Ne]; [exact Hw | rewrite (Eo w0 Ne) in X; apply F1, X].
    - intros X. destruct (Nat.eq_dec w0 w) as [->|Ne]; [exact Sp | rewrite (Eo w0 Ne); apply F1, X].
    - intros k J. destruct (Nat.eq_dec k w) as [->|Ne]; [rewrite Ej, Hnj in J; discriminate | rewrite (Eo k Ne) in *; apply F2, J].
    - intros k T. destruct (Nat.eq_dec k w) as [->|Ne]; [rewrite Etm, Hnt in T; discriminate | rewrite (Eo k Ne) in *; apply F3, T].
    - intros k X. destruct (Efl k X) as [Y|[-> _]]; [apply F4, Y | exact Hw].
    - intros Em. destruct (flight st') as [|k fl] eqn:E; [reflexivity|]. exfalso.
      destruct (Efl k) as [Y|[_ Y]]; [left; reflexivity | rewrite (F5 Em) in Y; exact Y | congruence].
    - destruct (pc st) as [|i|i|i w1| |x|x n|x n|x|x]; try exact I.
      + intros j w' Hj Hn. apply WJ, (F6 j w' Hj Hn).
      + destruct F6 as [G1 G2]. split; [intros j w' Hj Hn; apply WJ, (G1 j w' Hj Hn)|].
        intros w' Hn Em. destruct (Nat.eq_dec w' w) as [->|Ne]; [rewrite Etm; apply G2; assumption | rewrite (Eo w' Ne); apply G2; assumption].
      + intros w' Hk. apply WJ, F6, Hk.
      + intros Hx. destruct (F6 Hx) as [G1 G2]. exfalso. destruct (G1 w Hw) as [J _]. rewrite Hnj in J. discriminate.
  Qed.

  Lemma FInv_same : forall st st', FInv st -> ws st' = ws st -> tasks st' = tasks st -> flight st' = flight st ->
    match pc st' with PTerm _ _ | PJoin _ _ | PDrop _ | PExited _ => False | _ => True end -> FInv st'.
  Proof.
    intros st st' (F1 & F2 & F3 & F4 & F5 & _) Ew Et Ef Hpc. unfold FInv. rewrite Ew, Et, Ef.
    repeat split; try apply F1; auto. destruct (pc st'); auto; contradiction.
  Qed.

  Definition same_attr (x y : wst) : Prop := phase x = phase y /\ joined x = joined y /\ terminated x = terminated y.

  Lemma FInv_attr : forall st st', FInv st -> (forall k, same_attr (ws st' k) (ws st k)) ->
    tasks st' = tasks st -> flight st' = flight st ->
    match pc st' with PTerm _ _ | PJoin _ _ | PDrop _ | PExited _ => False | _ => True end -> FInv st'.
  Proof.
    intros st st' (F1 & F2 & F3 & F4 & F5 & _) Ew Et Ef Hpc. unfold FInv. rewrite Et, Ef.
    repeat split.
    - intros X. destruct (Ew w) as (E1 & _). rewrite E1 in X. apply F1, X.
    - intros X. destruct (Ew w) as (E1 & _). rewrite E1. apply F1, X.
    - intros w X. destruct (Ew w) as (E1 & E2 & _). rewrite E1. rewrite E2 in X. apply F2, X.
    - intros w X. destruct (Ew w) as (E1 & _ & E3). rewrite E1. rewrite E3 in X. apply F3, X.
    - exact F4.
    - exact F5.
    - destruct (pc st'); try exact I; contradiction.
  Qed.

  Lemma same_attr_refl : forall x, same_attr x x.
  Proof. intros x. repeat split. Qed.
  Lemma upd_attr : forall f w x, same_attr x (f w) -> forall k, same_attr (upd f w x k) (f k).
  Proof. intros f w x H k. unfold upd. destruct (Nat.eqb k w) eqn:E; [apply Nat.eqb_eq in E; subst; exact H | apply same_attr_refl]. Qed.

  Lemma take_msg_attr : forall x m y, take_msg x m = Some y -> same_attr y x.
  Proof.
    intros x m y T. unfold take_msg in T.
    assert (R : match m with RDone s => if mem s (requeued x) then Some (set_resq x (resq x) (remove1 s (requeued x))) else None
                           | RDropComplete => None end = Some y -> same_attr y x).
    { destruct m as [s|]; [|discriminate]. destruct (mem s (requeued x)); [|discriminate]. intros E. inv_some E. repeat split. }
    destruct (resq x) as [|h r]; [apply R, T|]. destruct (rmsg_eqb h m); [inv_some T; repeat split | apply R, T].
  Qed.

  Lemma poll_attr : forall taken f a f' a', poll f a taken = Some (f', a') -> forall k, same_attr (f' k) (f k).
  Proof.
    induction taken as [|[w m] t IH]; intros f a f' a' P k; cbn in P.
    - inversion P; subst. apply same_attr_refl.
    - destruct (spawned (phase (f w))); [|discriminate]. destruct (take_msg (f w) m) as [x|] eqn:T; [|discriminate].
      pose proof (upd_attr f w x (take_msg_attr _ _ _ T) k) as U.
      pose proof (IH _ _ _ _ P k) as (E1 & E2 & E3). destruct U as (U1 & U2 & U3). repeat split; congruence.
  Qed.

  Lemma wjoined_upd : forall st st' w x, ws st' = upd (ws st) w x -> joined x = true -> terminated x = terminated (ws st w) \/ terminated x = true ->
    joined x = joined (ws st w) \/ True -> forall k, wjoined st k -> wjoined st' k.
  Proof.
    intros st st' w x Ew J T _ k [Jk Tk]. unfold wjoined. rewrite Ew. unfold upd. destruct (Nat.eqb k w) eqn:E; [|split; assumption].
    apply Nat.eqb_eq in E. subst k. split; [exact J|]. intros Em. destruct T as [T|T]; [rewrite T; apply Tk, Em | exact T].
  Qed.

  Lemma step_FInv : forall st l st', FInv st -> step c st l = Some st' -> FInv st'.
  Proof.
    intros st l st' F S. destruct (is_worker_label l) eqn:Hl.
    { destruct (worker_step_shape st l st' Hl S) as [w Hw]. eapply wstep_FInv; eauto. }
    pose proof F as (F1 & F2 & F3 & F4 & F5 & F6).
    destruct l; try discriminate Hl; cbn in S.
    - (* OHead *) des S; inv_some S; apply (FInv_same st); auto; cbn; auto.
    - (* OVisit *) des S; inv_some S; apply (FInv_same st); auto; cbn; auto.
    - (* OPoll *) des S; inv_some S; apply (FInv_attr st); auto; cbn; auto; eapply poll_attr; eauto.
    - (* OCollect *) des S; inv_some S; try (apply (FInv_same st); auto; cbn; auto; fail).
      apply (FInv_attr st); auto; cbn; auto. apply upd_attr; repeat split.
    - (* ORequeue *) des S; inv_some S. apply (FInv_attr st); auto; cbn; auto; try (apply upd_attr; repeat split); try (rewrite Heqo; exact I).
    - (* OGot *) des S; inv_some S. apply (FInv_attr st); auto; cbn; auto. apply upd_attr; repeat split.
    - (* OTimeout *) des S; inv_some S; apply (FInv_same st); auto; cbn; auto.
    - (* OExec *)
      destruct (pc st) eqn:Epc; try discriminate S. destruct (nth_error p i) as [s|]; [|discriminate S].
      destruct (negb (is_fin s (o st)) && negb (cur_running s (o st)) && can_run s (o st)); [|discriminate S].
      destruct ok; [|inv_some S; apply (FInv_same st); auto; cbn; auto].
      unfold submit in S. destruct (mp c) eqn:Em.
      + destruct (spawned (phase (ws st (wof c (sid s))))) eqn:Esp; inv_some S.
        * apply (FInv_attr st); auto; cbn; auto. apply upd_attr; repeat split.
        * unfold FInv; cbn. repeat split; auto; try (intros X; first [congruence | apply F5; reflexivity]).
          -- unfold upd. destruct (Nat.eqb w (wof c (sid s))) eqn:E; [apply Nat.eqb_eq in E; subst; intros _; apply in_or_app; right; left; reflexivity|].
             intros X. apply in_or_app. left. apply F1, X.
          -- unfold upd. destruct (Nat.eqb w (wof c (sid s))) eqn:E; [reflexivity|]. intros X. apply in_app_or in X.
             destruct X as [X|[X|[]]]; [apply F1, X | subst; rewrite Nat.eqb_refl in E; discriminate].
          -- intros w. unfold upd. destruct (Nat.eqb w (wof c (sid s))); [cbn; discriminate | apply F2].
          -- intros w. unfold upd. destruct (Nat.eqb w (wof c (sid s))); [cbn; discriminate | apply F3].
          -- intros k X. apply in_or_app. left. apply F4, X.
      + inv_some S. unfold FInv; cbn. repeat split; auto; try (intros X; first [congruence | apply F5; reflexivity]).
        * unfold upd. destruct (Nat.eqb w (sid s)) eqn:E; [apply Nat.eqb_eq in E; subst; intros _; apply in_or_app; right; left; reflexivity|].
           intros X. apply in_or_app. left. apply F1, X.
        * unfold upd. destruct (Nat.eqb w (sid s)) eqn:E; [reflexivity|]. intros X. apply in_app_or in X.
           destruct X as [X|[X|[]]]; [apply F1, X | subst; rewrite Nat.eqb_refl in E; discriminate].
        * intros w. unfold upd. destruct (Nat.eqb w (sid s)); [cbn; discriminate | apply F2].
        * intros w. unfold upd. destruct (Nat.eqb w (sid s)); [cbn; discriminate | apply F3].
        * intros k X. apply in_or_app. left. apply F4, X.
    - (* OEndScan *) des S; inv_some S; apply (FInv_same st); auto; cbn; auto.
    - (* OResume *) des S; inv_some S; apply (FInv_same st); auto; cbn; auto.
    - (* OAbandon *) des S; inv_some S; apply (FInv_same st); auto; cbn; auto.
    - (* OArtifacts *)
      destruct (pc st) eqn:Epc; try discriminate S. inv_some S. unfold FInv; cbn. repeat split; try apply F1; auto.
      destruct ok; cbn; [intros j w Hj; lia | intros X; congruence].
    - (* OTerminate *)
      destruct (pc st) eqn:Epc; try discriminate S. destruct (nth_error (tasks st) k) as [w'|] eqn:En; [|discriminate S].
      destruct (mp c && Nat.eqb w w') eqn:G; [|discriminate S]. apply andb_true_iff in G. destruct G as [Em G]. apply Nat.eqb_eq in G. subst w'.
      inv_some S. unfold FInv; cbn.
      assert (WJ : forall k0, wjoined st k0 -> wjoined (mk st (o st) (PJoin x k) (sc st) (upd (ws st) w (set_term (ws st w)))) k0).
      { intros k0 [J T]. unfold wjoined; cbn. unfold upd. destruct (Nat.eqb k0 w) eqn:E; [|split; assumption].
        apply Nat.eqb_eq in E. subst k0. cbn. split; [exact J | reflexivity]. }
      split; [|split; [|split; [|split; [|split]]]].
      + intros w0. unfold upd. destruct (Nat.eqb w0 w) eqn:E; [|apply F1]. apply Nat.eqb_eq in E. subst w0. cbn. split.
        * intros _. eapply nth_error_In; eauto.
        * intros X. apply F1 in X. destruct (phase (ws st w)); cbn in *; auto.
      + intros w0. unfold upd. destruct (Nat.eqb w0 w) eqn:E; [|apply F2]. apply Nat.eqb_eq in E. subst w0. cbn. intros J.
        pose proof (F2 w J) as D. destruct (phase (ws st w)); cbn in *; auto.
      + intros w0. unfold upd. destruct (Nat.eqb w0 w) eqn:E; [|apply F3]. cbn. intros _. destruct (phase (ws st w)); reflexivity.
      + exact F4.
      + exact F5.
      + split.
        * intros j w0 Hj Hn. apply WJ. eapply F6; eauto.
        * intros w0 Hn _. rewrite En in Hn. inv_some Hn. rewrite upd_same. reflexivity.
    - (* OJoin *)
      assert (G : forall x k, (pc st = PJoin x k \/ (pc st = PTerm x k /\ mp c = false)) ->
                  match nth_error (tasks st) k with
                  | Some w' => if Nat.eqb w w' && dead (phase (ws st w)) then Some (mk st (o st) (PTerm x (Datatypes.S k)) (sc st) (upd (ws st) w (set_joined (ws st w)))) else None
                  | None => None end = Some st' -> FInv st').
      { intros x k Hpc S'. destruct (nth_error (tasks st) k) as [w'|] eqn:En; [|discriminate S'].
        destruct (Nat.eqb w w' && dead (phase (ws st w))) eqn:G; [|discriminate S']. apply andb_true_iff in G. destruct G as [G D].
        apply Nat.eqb_eq in G. subst w'. inv_some S'. unfold FInv; cbn.
        assert (WJ : forall k0, wjoined st k0 -> wjoined (mk st (o st) (PTerm x (Datatypes.S k)) (sc st) (upd (ws st) w (set_joined (ws st w)))) k0).
        { intros k0 [J T]. unfold wjoined; cbn. unfold upd. destruct (Nat.eqb k0 w) eqn:E; [|split; assumption].
          apply Nat.eqb_eq in E. subst k0. cbn. split; [reflexivity | exact T]. }
        split; [|split; [|split; [|split; [|split]]]].
        + intros w0. unfold upd. destruct (Nat.eqb w0 w) eqn:E; [|apply F1]. apply Nat.eqb_eq in E. subst w0. cbn. apply F1.
        + intros w0. unfold upd. destruct (Nat.eqb w0 w) eqn:E; [|apply F2]. apply Nat.eqb_eq in E. subst w0. cbn. intros _. exact D.
        + intros w0. unfold upd. destruct (Nat.eqb w0 w) eqn:E; [|apply F3]. apply Nat.eqb_eq in E. subst w0. cbn. apply F3.
        + exact F4.
        + exact F5.
        + intros j w0 Hj Hn. destruct (Nat.eq_dec j k) as [->|Ne].
          * rewrite En in Hn. inv_some Hn. unfold wjoined; cbn. rewrite upd_same. cbn. split; [reflexivity|].
            intros Em. destruct Hpc as [Hpc|[_ Hpc]]; [|congruence]. rewrite Hpc in F6. apply (proj2 F6 w0 En Em).
          * apply WJ. assert (Hj' : j < k) by lia.
            destruct Hpc as [Hpc|[Hpc _]]; rewrite Hpc in F6; [apply (proj1 F6 j w0 Hj' Hn) | apply (F6 j w0 Hj' Hn)]. }
      destruct (pc st) eqn:Epc; try discriminate S.
      + destruct (mp c) eqn:Em; [discriminate S|]. eapply G; [right; split; reflexivity | exact S].
      + eapply G; [left; reflexivity | exact S].
    - (* OClose *)
      destruct (pc st) eqn:Epc; try discriminate S. destruct (nth_error (tasks st) k) eqn:En; [discriminate S|]. inv_some S.
      unfold FInv; cbn. split; [exact F1|split; [exact F2|split; [exact F3|split; [exact F4|split; [exact F5|]]]]]. intros w Hw.
      destruct (In_nth_error _ _ Hw) as [j Hj]. apply nth_error_None in En.
      assert (j < length (tasks st)) by (apply nth_error_Some; congruence). apply (F6 j w); [lia | exact Hj].
    - (* ODropAll *)
      destruct (pc st) eqn:Epc; try discriminate S. destruct (mp c) eqn:Em.
      + destruct ok; inv_some S; unfold FInv; cbn.
        * split; [exact F1|split; [exact F2|split; [exact F3|split; [|split]]]].
          -- intros k X. apply F4. eapply remove_all_incl; exact X.
          -- intros X. congruence.
          -- intros _. split; [exact F6|]. intros _ _. apply remove_all_covered. exact F4.
        * split; [exact F1|split; [exact F2|split; [exact F3|split; [exact F4|split; [intros X; first [congruence | apply F5; reflexivity]|]]]]]. intros _. split; [exact F6|]. intros _ X. discriminate X.
      + destruct ok; [|discriminate S]. inv_some S. unfold FInv; cbn. split; [exact F1|split; [exact F2|split; [exact F3|split; [exact F4|split; [intros X; first [congruence | apply F5; reflexivity]|]]]]].
        intros _. split; [exact F6|]. intros X. congruence.
    - (* OSendFail *)
      destruct (pc st) eqn:Epc; try discriminate S. destruct (nth_error p i) as [s|]; [|discriminate S].
      destruct (negb (is_fin s (o st)) && negb (cur_running s (o st)) && can_run s (o st) && mp c) eqn:G; [|discriminate S].
      apply andb_true_iff in G. destruct G as [_ Em].
      destruct (spawned (phase (ws st (wof c (sid s))))) eqn:Esp; inv_some S; [apply (FInv_same st); auto; cbn; auto|].
      unfold FInv; cbn. repeat split; auto; try (intros X; congruence).
      + unfold upd. destruct (Nat.eqb w (wof c (sid s))) eqn:E; [apply Nat.eqb_eq in E; subst; intros _; apply in_or_app; right; left; reflexivity|].
        intros X. apply in_or_app. left. apply F1, X.
      + unfold upd. destruct (Nat.eqb w (wof c (sid s))) eqn:E; [reflexivity|]. intros X. apply in_app_or in X.
        destruct X as [X|[X|[]]]; [apply F1, X | subst; rewrite Nat.eqb_refl in E; discriminate].
      + intros w. unfold upd. destruct (Nat.eqb w (wof c (sid s))); [cbn; discriminate | apply F2].
      + intros w. unfold upd. destruct (Nat.eqb w (wof c (sid s))); [cbn; discriminate | apply F3].
      + intros k X. apply in_or_app. left. apply F4, X.
    - (* ONext *) des S; inv_some S; apply (FInv_same st); auto; cbn; auto.
  Qed.

  Lemma FInv_init : FInv pinit.
  Proof. unfold FInv, pinit; cbn. repeat split; auto; try (intros; discriminate); try (intros w []); intros k []. Qed.

  Lemma reach_FInv : forall st, reach c st -> FInv st.
  Proof.
    intros st [tr E].
    assert (G : forall tr' st0 st1, FInv st0 -> exec c st0 tr' = Some st1 -> FInv st1).
    { clear E. induction tr' as [|l tr' IH]; intros st0 st1 F0 E; cbn in E; [inversion E; subst; exact F0|].
      destruct (step c st0 l) as [st2|] eqn:S; [|discriminate]. eapply IH; [eapply step_FInv; eauto | exact E]. }
    apply (G tr pinit st); [apply FInv_init | exact E].
  Qed.

  (* (4) at every exit through the finally block whose first statement did not raise *)
  Lemma exit_cleanup_l : forall st x, reach c st -> pc st = PExited x -> x <> XFinallyCrash ->
    all_joined c st /\ no_live_worker st /\ tasks_are_the_started_workers st /\
    (mp c = false -> flight st = []) /\ (mp c = true -> dropfail st = false -> flight st = []).
  Proof.
    intros st x R Epc Hx. pose proof (reach_FInv st R) as (F1 & F2 & F3 & F4 & F5 & F6). rewrite Epc in F6.
    destruct (F6 Hx) as [G1 G2].
    assert (AJ : all_joined c st).
    { intros w Hw. destruct (G1 w Hw) as [J T]. repeat split; [exact J | apply F2, J | exact T]. }
    split; [exact AJ|]. split; [|split; [exact F1 | split; [exact F5 | exact G2]]].
    intros w. destruct (phase_trichotomy (phase (ws st w))) as [U|[A|D]].
    - destruct (phase (ws st w)); cbn in *; congruence.
    - exfalso. assert (Hw : In w (tasks st)) by (apply F1, alive_spawned, A).
      destruct (AJ w Hw) as (_ & D & _). rewrite (alive_not_dead _ A) in D. discriminate.
    - destruct (phase (ws st w)); cbn in *; congruence.
  Qed.

  (* an exited state is final: nothing can happen any more, in particular no worker acts after the call has returned *)
  Lemma exited_terminal_l : forall st x l, reach c st -> pc st = PExited x -> x <> XFinallyCrash -> step c st l = None.
  Proof.
    intros st x l R Epc Hx. destruct (step c st l) as [st'|] eqn:S; [|reflexivity]. exfalso.
    destruct (is_worker_label l) eqn:Hl.
    - destruct (worker_step_shape st l st' Hl S) as [w (A & _)].
      destruct (exit_cleanup_l st x R Epc Hx) as (_ & NL & _). rewrite (NL w) in A. discriminate.
    - destruct l; try discriminate Hl; cbn in S; rewrite Epc in S; discriminate S.
  Qed.
End Exit.
