(* The six conversions of Model/ValueConv.v ARE what the routing model (Model/Transform.v) runs on the registry regenerated
   from the working tree: re-proved by computation on every run (T1). *)
From Coq Require Import List Bool Arith ZArith String SpecFloat Lia.
Import ListNotations.
Require Import MV.Model.Transform MV.Model.ValueConv MV.Spec.ValueConv MV.Model.ValueConvReg MV.Gen.Registry.
Require Import MV.Proofs.ValueConvFloatP MV.Proofs.ValueConvP.
Open Scope Z_scope.

(* ================= the installed registry takes exactly the six conversions ================= *)
Lemma installed_route_l a b x : a <> b -> route_res a b x = TOk anytable (conv a b x).
Proof. intros NE. destruct a, b; try congruence; reflexivity. Qed.

Lemma installed_roundtrip_val_l a b x y : a <> b -> valid_of a x = true -> kf_route_exact a b (view_of x) = false ->
  route_res a b x = TOk anytable y ->
  valid_of b y = true /\ pres (view_of x) (view_of y) = true /\
  exists x', route_res b a y = TOk anytable x' /\ valid_of a x' = true /\ pres (view_of x) (view_of x') = true.
Proof.
  intros NE V K R. rewrite installed_route_l in R by auto. injection R as R. subst y.
  destruct (roundtrip_l a b x NE V K) as [V1 [P1 [V2 P2]]]. repeat split; auto.
  exists (conv b a (conv a b x)). rewrite installed_route_l by auto. auto.
Qed.

