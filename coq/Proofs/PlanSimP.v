(* The run-simulation validation of ExecutionPlan._validate_steps_do_not_wait_in_a_cycle (Model/PlannerA.v runsim,
   runsim_accepts), for ARBITRARY plans (feature-group, transform and join steps alike):

     sim_complete   a plan that is well formed for some order is accepted (rejected => no order exists)
     sim_sound      an accepted plan whose structure is fine (non-empty disjoint produced sets, distinct ids, every
                    requirement produced) is well formed for an explicit order: the order in which the simulation
                    starts the steps
   Since /repo 7287741 the simulation uses the orchestrator's start condition unchanged, so no side condition about
   steps requiring their own uuids is needed (such a plan is rejected: sim_self_req_rejected). *)
From Coq Require Import List Bool Arith Lia Permutation.
Import ListNotations.
Require Import MV.Model.Orch MV.Model.OrchCheck MV.Model.PlannerA.
Require Import MV.Proofs.OrchP MV.Proofs.OrchTermP MV.Proofs.PlannerASets MV.Proofs.PlannerALevels MV.Proofs.PlannerAOrder.

(* the simulation with the batches of steps it starts, round by round *)
Fixpoint sim_batches (fuel : nat) (remaining : plan) (finished : list nat) : list (list step) * plan :=
  match fuel with
  | 0 => ([], remaining)
  | S f =>
    match remaining with
    | [] => ([], [])
    | _ :: _ =>
      match filter (runsim_ready finished) remaining with
      | [] => ([], remaining)
      | ready =>
        let r := sim_batches f (filter (fun s => negb (runsim_ready finished s)) remaining) (finished ++ flat_map uuids ready) in
        (ready :: fst r, snd r)
      end
    end
  end.

Lemma sim_batches_snd : forall fuel remaining finished, snd (sim_batches fuel remaining finished) = runsim fuel remaining finished.
Proof.
  intros fuel. induction fuel as [|f IH]; intros remaining finished; cbn [runsim sim_batches]; [reflexivity|].
  destruct remaining as [|s0 rt]; [reflexivity|].
  destruct (filter (runsim_ready finished) (s0 :: rt)) as [|q0 qt]; [reflexivity|]. cbn [snd]. apply IH.
Qed.

(* every step of a batch waits only for uuids finished before the batch *)
Fixpoint sb_ok (fin : list nat) (B : list (list step)) : Prop :=
  match B with
  | [] => True
  | b :: t => (forall s, In s b -> runsim_ready fin s = true) /\ sb_ok (fin ++ flat_map uuids b) t
  end.

Lemma filter_split_perm_gen : forall (A : Type) (f : A -> bool) l, Permutation (filter f l ++ filter (fun x => negb (f x)) l) l.
Proof.
  intros A f l. induction l as [|x l IH]; cbn; [constructor|].
  destruct (f x); cbn.
  - constructor. exact IH.
  - apply Permutation_sym. apply Permutation_cons_app. apply Permutation_sym. exact IH.
Qed.

Lemma filter_len_lt_gen : forall (A : Type) (f : A -> bool) l x, In x l -> f x = false -> List.length (filter f l) < List.length l.
Proof.
  intros A f l. induction l as [|a l IH]; intros x Hx Hf; [destruct Hx|]. cbn. destruct Hx as [Hx|Hx].
  - subst a. rewrite Hf. pose proof (filter_len_le A f l). lia.
  - specialize (IH x Hx Hf). destruct (f a); cbn; lia.
Qed.

Lemma NoDup_app_disj_gen : forall (A : Type) (a b : list A) x, NoDup (a ++ b) -> In x a -> In x b -> False.
Proof.
  intros A a. induction a as [|y a IH]; intros b x Hnd Ha Hb; [destruct Ha|].
  cbn in Hnd. apply NoDup_cons_iff in Hnd. destruct Hnd as [Hny Hnt]. destruct Ha as [Ha|Ha].
  - subst y. apply Hny. apply in_or_app. right. exact Hb.
  - exact (IH b x Hnt Ha Hb).
Qed.

Lemma sim_spec : forall fuel remaining finished, List.length remaining <= fuel ->
  Permutation (concat (fst (sim_batches fuel remaining finished)) ++ snd (sim_batches fuel remaining finished)) remaining /\
  sb_ok finished (fst (sim_batches fuel remaining finished)) /\
  (forall s, In s (snd (sim_batches fuel remaining finished)) ->
     runsim_ready (finished ++ flat_map uuids (concat (fst (sim_batches fuel remaining finished)))) s = false).
Proof.
  intros fuel. induction fuel as [|f IH]; intros remaining finished Hlen.
  - destruct remaining as [|s0 rt]; [|cbn in Hlen; lia]. cbn. repeat split; [constructor | intros s []].
  - cbn [sim_batches]. destruct remaining as [|s0 rt] eqn:Er.
    + cbn. repeat split; [constructor | intros s []].
    + rewrite <- Er in *. destruct (filter (runsim_ready finished) remaining) as [|q0 qt] eqn:Eq.
      * cbn [fst snd concat app flat_map]. rewrite app_nil_r. split; [apply Permutation_refl|]. split; [exact I|].
        intros s Hs. destruct (runsim_ready finished s) eqn:E; [|reflexivity]. exfalso.
        assert (Hin : In s (filter (runsim_ready finished) remaining)) by (apply filter_In; split; assumption).
        rewrite Eq in Hin. destruct Hin.
      * rewrite <- Eq in *. set (ready := filter (runsim_ready finished) remaining) in *.
        set (rest := filter (fun s => negb (runsim_ready finished s)) remaining) in *.
        assert (Hq : In q0 ready) by (rewrite Eq; left; reflexivity).
        assert (Hlt : List.length rest <= f).
        { unfold ready in Hq. apply filter_In in Hq. destruct Hq as [Hq1 Hq2].
          assert (H : List.length rest < List.length remaining); [|lia].
          unfold rest. apply (filter_len_lt_gen _ _ remaining q0 Hq1). rewrite Hq2. reflexivity. }
        destruct (IH rest (finished ++ flat_map uuids ready) Hlt) as (P1 & P2 & P3).
        cbn [fst snd concat]. split; [|split].
        -- rewrite <- app_assoc. apply (Permutation_trans (l' := ready ++ rest)); [apply Permutation_app_head; exact P1|].
           unfold ready, rest. apply filter_split_perm_gen.
        -- cbn [sb_ok]. split; [|exact P2]. intros s Hs. unfold ready in Hs. apply filter_In in Hs. apply Hs.
        -- intros s Hs. specialize (P3 s Hs). rewrite flat_map_app, app_assoc. exact P3.
Qed.

(* ---------- completeness: a well-formed plan is accepted ---------- *)
Lemma sim_ready_of_req : forall fin s, subset (req s) fin = true -> runsim_ready fin s = true.
Proof. intros fin s H. exact H. Qed.

Theorem sim_complete : forall order p, wf_plan order p = true -> runsim_accepts p = true.
Proof.
  intros order p Hwf. unfold runsim_accepts. rewrite <- sim_batches_snd.
  destruct (sim_spec (List.length p) p [] (le_n _)) as (P1 & _ & P3).
  set (B := fst (sim_batches (List.length p) p [])) in *. set (L := snd (sim_batches (List.length p) p [])) in *.
  destruct L as [|s0 lt] eqn:EL; [reflexivity|]. exfalso. rewrite <- EL in *. cbn [app] in P3.
  destruct (wf_plan_props order p Hwf) as (_ & Hne & Hdj & _ & _).
  set (F := flat_map uuids (concat B)) in *.
  assert (HinL : forall s, In s L -> In s p) by (intros s Hs; apply (Permutation_in _ P1); apply in_or_app; right; exact Hs).
  assert (HinB : forall s, In s (concat B) -> In s p) by (intros s Hs; apply (Permutation_in _ P1); apply in_or_app; left; exact Hs).
  assert (Hsplit : forall s, In s p -> In s (concat B) \/ In s L).
  { intros s Hs. apply (Permutation_in _ (Permutation_sym P1)) in Hs. apply in_app_iff in Hs. exact Hs. }
  (* a step whose uuids are all in F was started *)
  assert (HF : forall s, In s p -> subset (uuids s) F = true -> In s (concat B)).
  { intros s Hs Hsub. apply subset_incl in Hsub. pose proof (Hne s Hs) as Hn. destruct (uuids s) as [|u ut] eqn:Eu; [congruence|].
    assert (Hu : In u F) by (apply Hsub; left; reflexivity). unfold F in Hu. apply in_flat_map in Hu.
    destruct Hu as [s' [Hs' Hu']]. assert (E : s = s').
    { apply (Hdj s s' u Hs (HinB s' Hs')); [rewrite Eu; left; reflexivity | exact Hu']. }
    subst s'. exact Hs'. }
  assert (Hs0 : In s0 L) by (rewrite EL; left; reflexivity).
  assert (Hnf : subset (uuids s0) F = false).
  { destruct (subset (uuids s0) F) eqn:E; [|reflexivity]. exfalso.
    pose proof (HF s0 (HinL s0 Hs0) E) as HB.
    (* s0 would be both started and left over, but the steps of p are pairwise different *)
    assert (Hndp : NoDup p).
    { apply (NoDup_map_inv sid). apply nodupb_NoDup. unfold wf_plan in Hwf.
      apply andb_true_iff in Hwf. destruct Hwf as [Hwf _]. apply andb_true_iff in Hwf. destruct Hwf as [Hwf _].
      apply andb_true_iff in Hwf. destruct Hwf as [Hwf _]. apply andb_true_iff in Hwf. apply Hwf. }
    exact (NoDup_app_disj_gen _ _ _ s0 (Permutation_NoDup (Permutation_sym P1) Hndp) HB Hs0). }
  destruct (wf_plan_pos order p Hwf s0 (HinL s0 Hs0)) as [n Hn].
  destruct (pick_ready order p Hwf F n s0 (HinL s0 Hs0) Hn Hnf) as (s1 & Hs1 & Hf1 & Hr1).
  destruct (Hsplit s1 Hs1) as [HB|HL].
  - assert (Hsub : subset (uuids s1) F = true).
    { apply subset_incl. intros u Hu. unfold F. apply in_flat_map. exists s1. split; assumption. }
    rewrite Hsub in Hf1. discriminate.
  - pose proof (P3 s1 HL) as Hnr. rewrite (sim_ready_of_req _ _ Hr1) in Hnr. discriminate.
Qed.

(* ---------- soundness: the start order of the simulation is a topological order ---------- *)
(* round in which the step with id x is started *)
Fixpoint bidx (B : list (list step)) (x : nat) : nat :=
  match B with [] => 0 | b :: t => if mem x (map sid b) then 0 else S (bidx t x) end.

Lemma bidx_le : forall B x, bidx B x <= List.length B.
Proof. intros B x. induction B as [|b t IH]; cbn; [lia|]. destruct (mem x (map sid b)); lia. Qed.

Lemma sb_ok_idx : forall B fin, sb_ok fin B -> NoDup (map sid (concat B)) ->
  forall s u, In s (concat B) -> In u (req s) ->
  In u fin \/ exists s', In s' (concat B) /\ In u (uuids s') /\ bidx B (sid s') < bidx B (sid s).
Proof.
  intros B. induction B as [|b t IH]; intros fin Hok Hnd s u Hs Hu; [destruct Hs|].
  destruct Hok as [Hb Ht]. cbn [concat] in *. rewrite map_app in Hnd. cbn [bidx].
  destruct (mem (sid s) (map sid b)) eqn:E.
  - left. apply mem_In in E. apply in_map_iff in E. destruct E as [s2 [E2 Hs2]].
    assert (Es : s2 = s).
    { rewrite <- map_app in Hnd. apply (NoDup_map_inj step sid (b ++ concat t) Hnd); [apply in_or_app; left; exact Hs2 | exact Hs | exact E2]. }
    subst s2. specialize (Hb s Hs2). unfold runsim_ready in Hb. apply subset_incl in Hb. exact (Hb u Hu).
  - apply mem_false in E. apply in_app_iff in Hs. destruct Hs as [Hs|Hs]; [exfalso; apply E; apply in_map; exact Hs|].
    destruct (IH (fin ++ flat_map uuids b) Ht (NoDup_app_tail _ _ Hnd) s u Hs Hu) as [H|[s' [Hs' [Hu' Hlt]]]].
    + apply in_app_iff in H. destruct H as [H|H]; [left; exact H|]. right. apply in_flat_map in H.
      destruct H as [s' [Hs' Hu']]. exists s'. split; [apply in_or_app; left; exact Hs'|]. split; [exact Hu'|].
      assert (Em : mem (sid s') (map sid b) = true) by (apply mem_In; apply in_map; exact Hs'). rewrite Em. lia.
    + right. exists s'. split; [apply in_or_app; right; exact Hs'|]. split; [exact Hu'|].
      destruct (mem (sid s') (map sid b)); lia.
Qed.

Definition sim_order (p : plan) : list nat :=
  let B := fst (sim_batches (List.length p) p []) in order_upto p (bidx B) (S (List.length B)).

Theorem sim_sound : forall p, runsim_accepts p = true -> wf_struct p = true ->
  wf_plan (sim_order p) p = true.
Proof.
  intros p Hacc Hst. unfold sim_order.
  destruct (sim_spec (List.length p) p [] (le_n _)) as (P1 & P2 & _).
  set (B := fst (sim_batches (List.length p) p [])) in *.
  assert (HL : snd (sim_batches (List.length p) p []) = []).
  { rewrite sim_batches_snd. unfold runsim_accepts in Hacc. destruct (runsim (List.length p) p []); [reflexivity | discriminate]. }
  rewrite HL, app_nil_r in P1.
  unfold wf_struct in Hst. apply andb_true_iff in Hst. destruct Hst as [Hst Hprod].
  apply andb_true_iff in Hst. destruct Hst as [Hst Huu]. apply andb_true_iff in Hst. destruct Hst as [Hne Hsid].
  rewrite forallb_forall in Hne, Hprod. apply nodupb_NoDup in Hsid, Huu.
  apply wf_plan_of_rank.
  - intros s Hs E. specialize (Hne s Hs). rewrite E in Hne. discriminate.
  - exact Hsid.
  - exact Huu.
  - intros s u Hs Hu. specialize (Hprod s Hs). rewrite forallb_forall in Hprod. apply mem_In. exact (Hprod u Hu).
  - intros s _. pose proof (bidx_le B (sid s)). lia.
  - intros s s' u Hs Hs' Hu Hu'.
    assert (HndB : NoDup (map sid (concat B))) by (apply (Permutation_NoDup (Permutation_map sid (Permutation_sym P1))); exact Hsid).
    destruct (sb_ok_idx B [] P2 HndB s u (Permutation_in _ (Permutation_sym P1) Hs) Hu) as [[]|[s2 [Hs2 [Hu2 Hlt]]]].
    assert (E : s2 = s').
    { unfold all_uuids in Huu. apply (NoDup_flat_map_disj step uuids p Huu s2 s' u); [exact (Permutation_in _ P1 Hs2) | exact Hs' | exact Hu2 | exact Hu']. }
    subst s2. exact Hlt.
Qed.

(* the two directions together, for plans of any kind of steps *)
Corollary runsim_accepts_iff : forall p, wf_struct p = true ->
  (runsim_accepts p = true <-> exists order, wf_plan order p = true).
Proof.
  intros p Hst. split.
  - intros H. exists (sim_order p). exact (sim_sound p H Hst).
  - intros [order H]. exact (sim_complete order p H).
Qed.

(* one executable predicate for every exported plan: it holds exactly when the plan is well formed for some order *)
Definition plan_accepted_wf (p : plan) : bool := wf_struct p && runsim_accepts p.
Corollary plan_accepted_wf_iff : forall p, plan_accepted_wf p = true <-> exists order, wf_plan order p = true.
Proof.
  intros p. unfold plan_accepted_wf. split.
  - intros H. apply andb_true_iff in H. destruct H as [Hst Hacc]. exists (sim_order p). exact (sim_sound p Hacc Hst).
  - intros [order H]. apply andb_true_iff. split; [|exact (sim_complete order p H)].
    unfold wf_plan in H. apply andb_true_iff in H. destruct H as [H _]. exact H.
Qed.

Corollary runsim_rejects_no_order : forall p, runsim_accepts p = false -> forall order, wf_plan order p = false.
Proof.
  intros p H order. destruct (wf_plan order p) eqn:E; [|reflexivity]. rewrite (sim_complete order p E) in H. discriminate.
Qed.

(* a step that requires one of its own uuids can never start; the validation (since 7287741) rejects such a plan *)
Definition p_selfreq : plan := [ {| sid := 0; skind := KJOIN; uuids := [1; 2]; req := [2]; requested := false |} ].
Example sim_self_req_rejected :
  runsim_accepts p_selfreq = false /\ wf_struct p_selfreq = true /\ no_self_req p_selfreq = false /\
  wf_plan_auto p_selfreq = false /\
  loop_head p_selfreq (run false true (fun _ => false) p_selfreq (repeat EScan 50)) = Looping.
Proof. vm_compute. repeat split; reflexivity. Qed.
